(* PyMini.v — the run-time semantics of the small Python subset that harness/py2coq.py translates function bodies
   into (gen/PySrc.v): one universal value type, exceptions in the `result` monad, the handful of built-in
   operations the translated functions use.  Definitions only.

   What is an assumption here (trusted base): these definitions are Python's semantics of `==`, `len`, slicing,
   `in`, `+`, `-`, `&`, truthiness and dict lookup on the value kinds the model distinguishes (int incl. bool, float,
   bytes, str, list, None); an object of any other kind (POther) compares unequal to everything and is truthy. *)
From Coq Require Import ZArith List String Ascii Bool Floats.SpecFloat.
From PyUbx Require Import Base Bytes Fletcher Frame PyFloat Types Strs Walk Consts Tables Msg.
Import ListNotations.
Open Scope Z_scope.

Inductive gv :=
| V (v : pyval)                                                (* int / float / bytes / str / list / None / other *)
| Def (d : list adef)                                          (* a payload definition dict *)
| Tup (l : list gv)                                            (* a tuple *)
| Call (f : string) (pos : list gv) (kw : list (string * gv))  (* the result of a call this layer does not look into *)
| Fn (name : string)                                           (* a function object: a variant selector, by name *)
| Exn (e : exn).                                               (* a caught exception object (`except ... as err`) *)

Definition bytes_of_string (s : string) : bytes := map N_of_ascii (list_ascii_of_string s).
Definition string_of_bytes (b : bytes) : string := string_of_list_ascii (map ascii_of_N b).

Definition gint (z : Z) : gv := V (PInt z).
Definition gbytes (b : bytes) : gv := V (PBytes b).
Definition gstr (s : string) : gv := V (PStr (bytes_of_string s)).
Definition gnone : gv := V PNone.
Definition gbool (b : bool) : gv := V (PInt (if b then 1 else 0)).

(* ---- **kwargs ----
   KwPayload p is the call with a payload keyword (the model's constructor looks at nothing else then);
   KwAttrs a never carries the name "payload". *)
Definition kwin (k : kwargs) (n : string) : bool :=
  match k with
  | KwNone => false
  | KwPayload _ => String.eqb n "payload"
  | KwAttrs a => negb (String.eqb n "payload") && match assoc_s n a with Some _ => true | None => false end
  end.

Definition kwget (k : kwargs) (n : string) : result gv :=
  match k with
  | KwNone => Raise EKey
  | KwPayload p => if String.eqb n "payload" then Ok (gbytes p) else Raise EKey
  | KwAttrs a => if String.eqb n "payload" then Raise EKey
                 else match assoc_s n a with Some v => Ok (V v) | None => Raise EKey end
  end.

(* ---- == ---- *)
Definition float_eq_int (f : fl) (z : Z) : bool :=
  match f with
  | S754_zero _ => z =? 0
  | S754_finite s m e => if 0 <=? e then cond_Zopp s (Z.pos m * 2 ^ e) =? z
                         else cond_Zopp s (Z.pos m) =? z * 2 ^ (- e)
  | _ => false
  end.

Definition float_eq (f g : fl) : bool :=
  match SFcompare f g with Some Eq => true | _ => false end.

Fixpoint pv_eq (a b : pyval) {struct a} : bool :=
  match a, b with
  | PInt x, PInt y => x =? y
  | PBytes x, PBytes y => beq x y
  | PStr x, PStr y => beq x y
  | PNone, PNone => true
  | PFloat f, PInt z => float_eq_int f z
  | PInt z, PFloat f => float_eq_int f z
  | PFloat f, PFloat g => float_eq f g
  | PList xs, PList ys =>
      (fix go (xs ys : list pyval) : bool :=
         match xs, ys with
         | [], [] => true
         | x :: xs', y :: ys' => pv_eq x y && go xs' ys'
         | _, _ => false
         end) xs ys
  | _, _ => false
  end.

Definition g_eq (a b : gv) : bool := match a, b with V x, V y => pv_eq x y | _, _ => false end.
Definition g_is_none (a : gv) : bool := match a with V PNone => true | _ => false end.

Definition g_truth (a : gv) : bool :=
  match a with
  | V (PInt z) => negb (z =? 0)
  | V (PFloat f) => negb (is_fzero f)
  | V (PBytes b) => match b with [] => false | _ => true end
  | V (PStr b) => match b with [] => false | _ => true end
  | V (PList l) => match l with [] => false | _ => true end
  | V PNone => false
  | V POther => true
  | Def d => match d with [] => false | _ => true end
  | Tup l => match l with [] => false | _ => true end
  | Call _ _ _ => true
  | Fn _ => true
  | Exn _ => true
  end.

(* x in (a, b, ...) *)
Definition g_in (x : gv) (l : list gv) : bool := existsb (g_eq x) l.

(* ---- built-ins ---- *)
Definition g_len (a : gv) : result gv :=
  match a with
  | V (PBytes b) => Ok (gint (Z.of_nat (length b)))
  | V (PList l) => Ok (gint (Z.of_nat (length l)))
  | V (PStr b) => if forallb (fun c => (c <? 128)%N) b then Ok (gint (Z.of_nat (length b))) else Raise EOther
  | Def d => Ok (gint (Z.of_nat (length d)))
  | Tup l => Ok (gint (Z.of_nat (length l)))
  | _ => Raise EType
  end.

(* a[lo:hi]; a missing bound is None *)
Definition slice_of (b : bytes) (lo hi : gv) : result bytes :=
  match lo, hi with
  | V (PInt x), V (PInt y) => Ok (pyslice b x y)
  | V PNone, V (PInt y) => Ok (pyslice b 0 y)
  | V (PInt x), V PNone => Ok (pyslice_from b x)
  | V PNone, V PNone => Ok b
  | _, _ => Raise EType
  end.
Definition g_slice (a : gv) (lo hi : gv) : result gv :=
  match a with
  | V (PBytes b) => do r <- slice_of b lo hi; Ok (gbytes r)
  | V (PStr b) => if forallb (fun c => (c <? 128)%N) b then do r <- slice_of b lo hi; Ok (V (PStr r)) else Raise EOther
  | _ => Raise EType
  end.

(* a[i] on bytes *)
Definition g_index (a i : gv) : result gv :=
  match a, i with
  | V (PBytes b), V (PInt x) =>
      let n := Z.of_nat (length b) in
      let j := if x <? 0 then x + n else x in
      if (j <? 0) || (n <=? j) then Raise EIndex
      else match nth_error b (Z.to_nat j) with Some c => Ok (gint (Z.of_N c)) | None => Raise EIndex end
  | Tup l, V (PInt x) =>
      let n := Z.of_nat (length l) in
      let j := if x <? 0 then x + n else x in
      if (j <? 0) || (n <=? j) then Raise EIndex
      else match nth_error l (Z.to_nat j) with Some c => Ok c | None => Raise EIndex end
  | _, _ => Raise EType
  end.

Definition g_add (a b : gv) : result gv :=
  match a, b with
  | V (PInt x), V (PInt y) => Ok (gint (x + y))
  | V (PBytes x), V (PBytes y) => Ok (gbytes (x ++ y)%list)
  | V (PStr x), V (PStr y) => Ok (V (PStr (x ++ y)%list))
  | _, _ => Raise EType
  end.
Definition g_sub (a b : gv) : result gv :=
  match a, b with V (PInt x), V (PInt y) => Ok (gint (x - y)) | _, _ => Raise EType end.
Definition g_band (a b : gv) : result gv :=
  match a, b with V (PInt x), V (PInt y) => Ok (gint (Z.land x y)) | _, _ => Raise EType end.
(* a % b on ints: the result has the sign of the divisor, as Z.modulo *)
Definition g_mod (a b : gv) : result gv :=
  match a, b with
  | V (PInt x), V (PInt y) => if y =? 0 then Raise EZeroDiv else Ok (gint (x mod y))
  | _, _ => Raise EType
  end.
Definition g_lt (a b : gv) : result bool :=
  match a, b with V (PInt x), V (PInt y) => Ok (x <? y) | _, _ => Raise EType end.
Definition g_le (a b : gv) : result bool :=
  match a, b with V (PInt x), V (PInt y) => Ok (x <=? y) | _, _ => Raise EType end.

(* bytes((a, b, ...)) *)
Fixpoint ints_to_bytes (l : list gv) : result bytes :=
  match l with
  | [] => Ok []
  | V (PInt z) :: t => if (z <? 0) || (255 <? z) then Raise EValue
                       else do r <- ints_to_bytes t; Ok (Z.to_N z :: r)
  | _ :: _ => Raise EType
  end.
Definition g_bytes_of (l : list gv) : result gv := do b <- ints_to_bytes l; Ok (gbytes b).

(* for x in <bytes>: the items *)
Definition g_iter (a : gv) : result (list gv) :=
  match a with
  | V (PBytes b) => Ok (map (fun c => gint (Z.of_N c)) b)
  | Tup l => Ok l
  | _ => Raise EType
  end.

Fixpoint g_fold {S : Type} (f : S -> gv -> result S) (l : list gv) (s : S) : result S :=
  match l with [] => Ok s | x :: t => do s' <- f s x; g_fold f t s' end.

(* ---- the pyubx2 functions and tables the translated code refers to and this layer takes from the model ---- *)
Definition g_val2bytes (a : gv) (t : aty) : result gv :=
  match a with V v => do b <- v2b v t; Ok (gbytes b) | _ => Raise EType end.
Definition g_bytes2val (a : gv) (t : aty) : result gv :=
  match a with V (PBytes b) => do v <- bytes2val b t; Ok (V v) | _ => Raise EType end.

Definition g_calc_checksum (a : gv) : result gv :=
  match a with V (PBytes b) => Ok (gbytes (fletcher b)) | _ => Raise EType end.
Definition g_getinputmode (a : gv) : result gv :=
  match a with V (PBytes b) => Ok (gint (Z.of_N (getinputmode b))) | _ => Raise EType end.

(* UBX_MSGIDS[key]: KeyError when absent *)
Definition g_msgids (a : gv) : result gv :=
  match a with
  | V (PBytes b) => match assoc_b b msgids with Some n => Ok (gstr n) | None => Raise EKey end
  | V (PList _) => Raise EType
  | _ => Raise EKey
  end.

(* UBX_PAYLOADS_x[key] *)
Definition g_tab (t : list (string * list adef)) (a : gv) : result gv :=
  match a with
  | V (PStr u) => match assoc_s (string_of_bytes u) t with Some d => Ok (Def d) | None => Raise EKey end
  | V (PList _) => Raise EType
  | _ => Raise EKey
  end.

(* int.from_bytes(b, "little") *)
Definition g_int_from_le (a : gv) : result gv :=
  match a with V (PBytes b) => Ok (gint (Z.of_N (uint_of_le b))) | _ => Raise EType end.

(* f"{x}" for a str x, f"{n:02x}" for a non-negative int n *)
Definition g_fmt_str (a : gv) : result gv :=
  match a with V (PStr b) => Ok a | _ => Raise EOther end.
Definition g_fmt_02x (a : gv) : result gv :=
  match a with V (PInt z) => if z <? 0 then Raise EOther else Ok (gstr (hex02 (Z.to_N z))) | _ => Raise EOther end.

(* key in UBX_CLASSES / UBX_CLASSES[key] *)
Definition g_in_classes (a : gv) : result bool :=
  match a with
  | V (PBytes b) => Ok (match assoc_b b classes with Some _ => true | None => false end)
  | V (PList _) => Raise EType
  | _ => Ok false
  end.
Definition g_classes (a : gv) : result gv :=
  match a with
  | V (PBytes b) => match assoc_b b classes with Some n => Ok (gstr n) | None => Raise EKey end
  | V (PList _) => Raise EType
  | _ => Raise EKey
  end.

(* try: r  except <e>: h   where both sides end by handing over the variables that are live afterwards *)
Definition g_try {S : Type} (r : result S) (e : exn) (h : result S) : result S :=
  match r with Raise e' => if exn_eqb e e' then h else Raise e' | Ok s => Ok s end.

(* try: r  except <e>: h   (r is everything the try body does, h the handler) *)
Definition g_catch (r : result gv) (e : exn) (h : result gv) : result gv :=
  match r with Raise e' => if exn_eqb e e' then h else r | Ok _ => r end.

(* VARIANTS[mode].get(msg, dflt); `modes` are the keys VARIANTS has *)
Definition g_variants_get (modes : list N) (mode msg dflt : gv) : result gv :=
  match mode, msg with
  | V (PInt m), V (PBytes b) =>
      if (m <? 0) || negb (existsb (N.eqb (Z.to_N m)) modes) then Raise EKey
      else Ok (match variant_lookup (Z.to_N m) b variants with Some f => Fn f | None => dflt end)
  | _, _ => Raise EKey
  end.

(* how _get_dict consumes a selector's result: `except KeyError` -> UBXMessageError; the dict is then iterated *)
Definition as_def (r : result gv) : result (list adef) :=
  match r with
  | Ok (Def d) => Ok d
  | Ok _ => Raise EType
  | Raise EKey => Raise EUBXMessage
  | Raise e => Raise e
  end.

(* how the caller of UBXReader.parse receives its result: the constructor call at the end of parse, handed to the
   model's constructor *)
Definition run_call (c : gv) : result msg :=
  match c with
  | Call f [V (PBytes c); V (PBytes i); V (PInt m)] kw =>
      if negb (String.eqb f "UBXMessage") || (m <? 0) then Raise EOther else
      match kw with
      | [] => construct c i (Z.to_N m) true KwNone
      | [(n1, V (PBytes p)); (n2, bf)] =>
          if String.eqb n1 "payload" && String.eqb n2 "parsebitfield"
          then construct c i (Z.to_N m) (g_truth bf) (KwPayload p) else Raise EOther
      | _ => Raise EOther
      end
  | _ => Raise EOther
  end.

(* ==== methods that read a stream (UBXReader): the same subset in a state-and-exception monad ====
   W is everything such a method can touch besides its return value: the stream, the log of calls made on the logger /
   the error handler, and the local variables that are assigned inside a `try` body (Python keeps what was assigned
   before an exception; a `let` would lose it, so those locals live in a store). *)
Definition IO (W A : Type) := W -> result A * W.
Definition retIO {W A} (a : A) : IO W A := fun w => (Ok a, w).
Definition raiseIO {W A} (e : exn) : IO W A := fun w => (Raise e, w).
Definition bindIO {W A B} (m : IO W A) (k : A -> IO W B) : IO W B :=
  fun w => match m w with (Ok a, w') => k a w' | (Raise e, w') => (Raise e, w') end.
Definition liftR {W A} (r : result A) : IO W A := fun w => (r, w).
Notation "'doM' x <- m ; k" := (bindIO m (fun x => k))
  (at level 200, x name, m at level 100, k at level 200, right associativity).

(* try: m  except <classes in l> as err: h err *)
Definition g_catchIO {W A} (m : IO W A) (l : list exn) (h : exn -> IO W A) : IO W A :=
  fun w => match m w with
           | (Raise e, w') => if existsb (exn_eqb e) l then h e w' else (Raise e, w')
           | r => r
           end.

(* the state of a reader method: stream, effects (newest first), store of try-assigned locals *)
Record world (S : Type) := { w_stream : S; w_eff : list (string * list gv); w_store : list (string * gv) }.
Arguments w_stream {S}. Arguments w_eff {S}. Arguments w_store {S}.

Section ReaderIO.
Context {S : Type}.
Variable rd : nat -> S -> bytes * S.       (* self._stream.read(n) *)
Variable rdl : S -> bytes * S.             (* self._stream.readline() *)

Definition io_read (n : gv) : IO (world S) gv := fun w =>
  match n with
  | V (PInt z) =>
      if z <? 0 then (Raise EOther, w)     (* read(-1) reads everything: not something these methods do *)
      else let '(d, s') := rd (Z.to_nat z) (w_stream w) in
           (Ok (gbytes d), {| w_stream := s'; w_eff := w_eff w; w_store := w_store w |})
  | _ => (Raise EType, w)
  end.
Definition io_readline : IO (world S) gv := fun w =>
  let '(d, s') := rdl (w_stream w) in
  (Ok (gbytes d), {| w_stream := s'; w_eff := w_eff w; w_store := w_store w |}).
(* a call on the logger / the error handler: recorded, returns None *)
Definition io_eff (name : string) (args : list gv) : IO (world S) gv := fun w =>
  (Ok gnone, {| w_stream := w_stream w; w_eff := (name, args) :: w_eff w; w_store := w_store w |}).
Definition io_set (x : string) (v : gv) : IO (world S) gv := fun w =>
  (Ok gnone, {| w_stream := w_stream w; w_eff := w_eff w; w_store := (x, v) :: w_store w |}).
Definition io_get (x : string) : IO (world S) gv := fun w =>
  match assoc_s x (w_store w) with Some v => (Ok v, w) | None => (Raise EUnbound, w) end.
End ReaderIO.

(* self._socket.recv(n): the next recv() result, data or OSError / TimeoutError (one exception in this layer: EOther) *)
Section SockIO.
Context {S : Type}.
Variable rcv : S -> result bytes * S.
Definition io_recv (n : gv) : IO (world S) gv := fun w =>
  match n with
  | V (PInt _) =>
      let '(r, s') := rcv (w_stream w) in
      (match r with Ok d => Ok (gbytes d) | Raise e => Raise e end,
       {| w_stream := s'; w_eff := w_eff w; w_store := w_store w |})
  | _ => (Raise EType, w)
  end.
End SockIO.

(* bytes(x) for a bytes / bytearray x *)
Definition g_bytes_conv (a : gv) : result gv :=
  match a with V (PBytes b) => Ok (gbytes b) | _ => Raise EOther end.

(* (a, b) = e *)
Definition g_unpack2 (a : gv) : result (gv * gv) :=
  match a with Tup [x; y] => Ok (x, y) | _ => Raise EType end.
(* a | b, a << b, ~a on ints *)
Definition g_bor (a b : gv) : result gv :=
  match a, b with V (PInt x), V (PInt y) => Ok (gint (Z.lor x y)) | _, _ => Raise EType end.
Definition g_shl (a b : gv) : result gv :=
  match a, b with V (PInt x), V (PInt y) => if y <? 0 then Raise EValue else Ok (gint (Z.shiftl x y)) | _, _ => Raise EType end.

(* control flow of a statement block in the monadic translation *)
Inductive ctl := CNormal | CRet (v : gv) | CCont | CBreak.
Definition seqIO {W} (a b : IO W ctl) : IO W ctl :=
  doM c <- a; match c with CNormal => b | _ => retIO c end.
(* while cond: body   (fuel: a bound on the number of iterations; exhausted = EOther, never a normal-looking result) *)
Fixpoint g_while {W} (fuel : nat) (cond : IO W bool) (body : IO W ctl) : IO W ctl :=
  match fuel with
  | O => raiseIO EOther
  | Datatypes.S f =>
      doM c <- cond;
      if c then
        doM r <- body;
        match r with
        | CNormal | CCont => g_while f cond body
        | CBreak => retIO CNormal
        | CRet v => retIO (CRet v)
        end
      else retIO CNormal
  end.
(* what a function whose body ran to `c` returns *)
Definition fn_result {W} (m : IO W ctl) : IO W gv :=
  doM c <- m; match c with CRet v => retIO v | _ => retIO gnone end.
(* raise <a caught exception object> *)
Definition g_reraise {W A} (a : gv) : IO W A :=
  match a with Exn e => raiseIO e | _ => raiseIO EType end.

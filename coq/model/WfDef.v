(* WfDef.v — the documented payload-definition grammar as an executable predicate (C16), the size summary of a
   definition (C17) and configuration-database table predicates (C14).  Definitions only. *)
From PyUbx Require Import Base Bytes PyFloat Types Strs Walk Consts Tables Msg.
Open Scope Z_scope.

(* ---- rule identifiers, so that a failing entry names the rule it breaks ---- *)
Inductive rule :=
| RBadType | RFlagType | RFlagsOverflow | RGroupSize | RVarGroup | RCHPlace | RDupName | RCollide | RHPBase
| RUnreachable | RNoClass.
Definition rule_eqb (a b : rule) : bool :=
  match a, b with
  | RBadType, RBadType | RFlagType, RFlagType | RFlagsOverflow, RFlagsOverflow | RGroupSize, RGroupSize
  | RVarGroup, RVarGroup | RCHPlace, RCHPlace | RDupName, RDupName | RCollide, RCollide | RHPBase, RHPBase
  | RUnreachable, RUnreachable | RNoClass, RNoClass => true
  | _, _ => false
  end.

Definition known_letter (l : N) : bool :=
  match assoc_N l atttype with Some _ => true | None => false end.

Definition type_ok (t : aty) : bool :=
  match t with
  | TCH => true
  | T l (Some n) => known_letter l && negb (Nat.eqb n 0) &&
                    (negb (l =? lR)%N || Nat.eqb n 4 || Nat.eqb n 8)
  | T _ None => false
  end.
(* the code reads only the width of a flag's type string *)
Definition flag_type_ok (t : aty) : bool :=
  match t with T l (Some n) => known_letter l && negb (Nat.eqb n 0) | _ => false end.
Definition size_of (t : aty) : nat := match t with T _ (Some n) => n | _ => O end.

Definition is_int_single (d : adef) : option string :=
  match d with ASingle n (T l (Some _)) => if is_int_letter l then Some n else None | _ => None end.

Fixpoint sum_widths (fl : list (string * aty)) : nat :=
  match fl with [] => O | (_, t) :: r => (size_of t + sum_widths r)%nat end.

(* leaf names of a definition in a bitfield view (flags, or the raw bitfield names); reserved* flags are
   never exposed; _HP members are folded into their base *)
Fixpoint leaf_names (bf : bool) (d : adef) : list string :=
  match d with
  | ASingle n _ | AScaled n _ _ => if starts_with "_HP" n then [] else [n]
  | ABits n _ fl => if bf then filter (fun k => negb (starts_with "reserved" k)) (map fst fl) else [n]
  | AGroup _ _ body => flat_map (leaf_names bf) body
  end.
(* the keyword namespace of the bitfield-parsing view: every flag, reserved ones included, reads kwargs[name] *)
Fixpoint kw_names (d : adef) : list string :=
  match d with
  | ASingle n _ | AScaled n _ _ => [n]
  | ABits _ _ fl => map fst fl
  | AGroup _ _ body => flat_map kw_names body
  end.
Fixpoint all_names (d : adef) : list string :=
  match d with
  | ASingle n _ | AScaled n _ _ => [n]
  | ABits n _ fl => n :: map fst fl
  | AGroup _ _ body => flat_map all_names body
  end.

Fixpoint nodup_s (l : list string) : bool :=
  match l with [] => true | x :: t => negb (mem_s x t) && nodup_s t end.

(* the rules a single entry (anywhere in the definition) can break, given the int attributes seen so far at top
   level (`ints`), whether we are at top level and whether the entry is the last of the top level *)
Fixpoint check_def (top last : bool) (ints : list string) (d : adef) : list rule :=
  match d with
  | ASingle n t =>
      (if type_ok t then [] else [RBadType]) ++
      (match t with TCH => if top && last then [] else [RCHPlace] | _ => [] end)
  | AScaled n t _ => if type_ok t then [] else [RBadType]
  | ABits n t fl =>
      (if type_ok t then [] else [RBadType]) ++
      (if forallb (fun f => flag_type_ok (snd f)) fl then [] else [RFlagType]) ++
      (if Nat.leb (sum_widths fl) (8 * size_of t) then [] else [RFlagsOverflow])
  | AGroup n r body =>
      (match r with
       | RFixed k => if 0 <=? k then [] else [RGroupSize]
       | RNamed a => if mem_s a ints then [] else [RGroupSize]
       | RVar =>
           if top && last &&
              forallb (fun m => match m with
                                | ASingle _ (T _ (Some _)) | ABits _ _ _ => true
                                | _ => false end) body
           then [] else [RVarGroup]
       end) ++
      flat_map (check_def false false ints) body
  end.

Fixpoint check_top (ints : list string) (ds : list adef) : list rule :=
  match ds with
  | [] => []
  | d :: t =>
      check_def true (match t with [] => true | _ => false end) ints d ++
      check_top (match is_int_single d with Some n => n :: ints | None => ints end) t
  end.

(* every _HP* member has its base attribute in the same definition *)
Definition hp_bases_ok (ds : list adef) : bool :=
  let all := flat_map all_names ds in
  forallb (fun n => if starts_with "_HP" n then mem_s (drop 3 n) all else true) all.

Definition collides (n : string) : bool :=
  mem_s n ubxmessage_dir || (starts_with "_" n && negb (starts_with "_HP" n)).

Definition def_rules (ds : list adef) : list rule :=
  check_top [] ds ++
  (if nodup_s (flat_map (leaf_names true) ds) && nodup_s (flat_map (leaf_names false) ds)
      && nodup_s (flat_map kw_names ds) then [] else [RDupName]) ++
  (* only top-level names are exposed unsuffixed; group members carry _NN *)
  (if existsb collides (flat_map (fun d => match d with AGroup _ _ _ => [] | _ => all_names d end) ds)
   then [RCollide] else []) ++
  (if hp_bases_ok ds then [] else [RHPBase]).

(* reachability of the table entry (table mode tm, name): either its name is a message id whose class/id has no
   variant selector in that mode (plain lookup), or some variant selector registered in VARIANTS returns it *)
Definition selector_outputs (fn : string) (vmode : N) (key : bytes) : list (N * string) :=
  if String.eqb fn "get_cfgtp5_dict" then [(2%N, "CFG-TP5-TPX"); (2%N, "CFG-TP5")]
  else if String.eqb fn "get_mga_dict" then
    map (fun e => ((if (vmode =? 1)%N then 1%N else 0%N), snd e))
        (filter (fun e => match fst e with a :: b :: _ :: [] => beq [a; b] key | _ => false end) msgids)
  else if String.eqb fn "get_rxmpmreq_dict" then [(1%N, "RXM-PMREQ"); (1%N, "RXM-PMREQ-S")]
  else if String.eqb fn "get_rxmpmp_dict" then [(1%N, "RXM-PMP-V0"); (1%N, "RXM-PMP-V1")]
  else if String.eqb fn "get_rxmrlm_dict" then [(0%N, "RXM-RLM-S"); (0%N, "RXM-RLM-L")]
  else if String.eqb fn "get_cfgnmea_dict" then [(0%N, "CFG-NMEAvX"); (0%N, "CFG-NMEAv0"); (0%N, "CFG-NMEA")]
  else if String.eqb fn "get_aopstatus_dict" then [(0%N, "NAV-AOPSTATUS-L"); (0%N, "NAV-AOPSTATUS")]
  else if String.eqb fn "get_relposned_dict" then [(0%N, "NAV-RELPOSNED-V0"); (0%N, "NAV-RELPOSNED")]
  else if String.eqb fn "get_timvcocal_dict" then [(1%N, "TIM-VCOCAL-V0"); (1%N, "TIM-VCOCAL")]
  else if String.eqb fn "get_cfgdat_dict" then [(1%N, "CFG-DAT-NUM"); (1%N, "CFG-DAT")]
  else if String.eqb fn "get_secsig_dict" then [(0%N, "SEC-SIG-V1"); (0%N, "SEC-SIG-V2")]
  else if String.eqb fn "get_alpsrv_dict" then [(0%N, "AID-ALPSRV-SEND"); (0%N, "AID-ALPSRV-REQ")]
  else [].

Definition reachable (tm : N) (name : string) : bool :=
  existsb (fun e => String.eqb (snd e) name &&
                    match variant_lookup tm (firstn 2 (fst e)) variants with None => true | Some _ => false end) msgids
  || existsb (fun v => let '(vmode, key, fn) := v in
                       existsb (fun o => (fst o =? tm)%N && String.eqb (snd o) name) (selector_outputs fn vmode key)) variants.

Definition entry_rules (me : N * (string * list adef)) : list rule :=
  def_rules (snd (snd me)) ++ (if reachable (fst me) (fst (snd me)) then [] else [RUnreachable]).

Definition all_entries : list (N * (string * list adef)) :=
  map (fun e => (0%N, e)) payloads_get ++ map (fun e => (1%N, e)) payloads_set ++ map (fun e => (2%N, e)) payloads_poll.

(* every message id whose first byte is a class byte has that class declared *)
Definition msgid_class_ok (e : list N * string) : bool :=
  match fst e with c :: _ => match assoc_b [c] classes with Some _ => true | None => false end | [] => false end.

(* failing (mode, name, rule) triples of the shipped tables *)
Definition table_failures : list (N * string * rule) :=
  flat_map (fun me => map (fun r => (fst me, fst (snd me), r)) (entry_rules me)) all_entries.

(* ---- C17: payload-size summary of a definition: (minimum size, has a repeating part) ---- *)
Fixpoint min_size (d : adef) : nat :=
  match d with
  | ASingle _ t | AScaled _ t _ => size_of t
  | ABits _ t _ => size_of t
  | AGroup _ (RFixed k) body => (Z.to_nat k * fold_right (fun x a => min_size x + a) 0 body)%nat
  | AGroup _ _ _ => O
  end.
Fixpoint is_variable (d : adef) : bool :=
  match d with
  | AGroup _ (RFixed _) body => existsb is_variable body
  | AGroup _ _ _ => true
  | ASingle _ TCH => true
  | _ => false
  end.
Definition def_min (ds : list adef) : nat := fold_right (fun x a => min_size x + a)%nat O ds.
Definition def_variable (ds : list adef) : bool := existsb is_variable ds.

(* getinputmode as a function of (class/id bytes, total frame length) *)
Definition inputmode_of (ci : bytes) (total : Z) : N :=
  if (total =? im_len_poll) || beq ci im_valget || (existsb (beq ci) im_short_ids && (total <=? im_short_len))
  then 2%N else 1%N.

(* ---- C14: configuration database ---- *)
Definition cfg_sizecode_ok (e : string * (Z * aty)) : bool :=
  let '(_, (kid, t)) := e in
  match assoc_Z (Z.land (Z.shiftr kid 28) 7) storsize, t with
  | Some n, T _ (Some sz) => n =? Z.of_nat sz
  | _, _ => false
  end.
Definition cfg_names : list string := map fst cfgdb.
Definition cfg_ids : list Z := map (fun e => fst (snd e)) cfgdb.
Fixpoint dup_ids (l : list Z) : list Z :=
  match l with [] => [] | x :: t => (if existsb (Z.eqb x) t then [x] else []) ++ dup_ids t end.
Definition cfg_lookup_inverse (e : string * (Z * aty)) : bool :=
  let '(name, (kid, t)) := e in
  match cfgname2key name with
  | Ok (k, _) => (k =? kid) &&
                 match cfgkey2name_ k with Ok (n', _) => String.eqb n' name | Raise _ => false end
  | Raise _ => false
  end.

(* ---- nominal usability of a definition (C16): build with every attribute nominal, parse what was built ---- *)
Definition nominal_ok (bf : bool) (ds : list adef) : bool :=
  let init := {| w_off := O; w_pay := []; w_attrs := []; w_trace := [] |} in
  match walk_list atttype readonly_names cfgdb storsize scalround [] [] 0%N bf (Some []) budget ds [] init with
  | Ok s =>
      match walk_list atttype readonly_names cfgdb storsize scalround [] [] 0%N bf None budget ds []
              {| w_off := O; w_pay := w_pay s; w_attrs := []; w_trace := [] |} with
      | Ok s' =>
          nodup_s (map fst (w_attrs s')) &&
          forallb (fun ab => String.eqb (fst ab) (snd ab)) (combine (map fst (w_attrs s)) (map fst (w_attrs s'))) &&
          Nat.eqb (length (w_attrs s)) (length (w_attrs s')) &&
          Nat.eqb (w_off s') (length (w_pay s))
      | Raise _ => false
      end
  | Raise _ => false
  end.

(* ---- class/id of a definition name (variant names: strip the last "-xxx") ---- *)
Fixpoint strip_last_dash_aux (s : string) : option string :=    (* on the reversed string *)
  match s with
  | EmptyString => None
  | String c t => if Ascii.eqb c "-"%char then Some t else strip_last_dash_aux t
  end.
Fixpoint srev (s : string) (acc : string) : string :=
  match s with EmptyString => acc | String c t => srev t (String c acc) end.
Definition strip_last_dash (s : string) : option string :=
  match strip_last_dash_aux (srev s EmptyString) with Some r => Some (srev r EmptyString) | None => None end.
Definition key_of_def (name : string) : option bytes :=
  match key_from_val msgids name with
  | Some k => Some (firstn 2 k)
  | None => match strip_last_dash name with
            | Some b => match key_from_val msgids b with Some k => Some (firstn 2 k) | None => None end
            | None => None
            end
  end.

(* C17: does getinputmode give `want` for every frame length a payload of this definition can have?
   lengths: def_min (+ multiples of the repeating part); from 11 bytes on the answer no longer depends on length *)
Definition lengths_ok (k : bytes) (ds : list adef) (want : N) : bool :=
  let t0 := Z.of_nat (def_min ds) + 8 in
  if def_variable ds
  then forallb (fun t => (inputmode_of k t =? want)%N) (filter (fun t => t0 <=? t) [8; 9; 10; 11])
       && (inputmode_of k (Z.max t0 11) =? want)%N
  else (inputmode_of k t0 =? want)%N.
Definition mode_entry_ok (want : N) (e : string * list adef) : bool :=
  match key_of_def (fst e) with
  | Some k => lengths_ok k (snd e) want
  | None => true          (* unreachable definition: C16's business *)
  end.

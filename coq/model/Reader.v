(* Reader.v — UBXReader.read / __next__ / _parse_ubx / _parse_nmea / _parse_rtcm3 /
   _read_bytes / _read_line / _do_error (ubxreader.py), over an abstract stream.
   Definitions only. *)
From PyUbx Require Import Base Bytes.
Open Scope N_scope.

Section Reader.
Context {S P : Type}.
(* the underlying stream object: read(n) and readline() *)
Variable rd : nat -> S -> bytes * S.
Variable rdl : S -> bytes * S.
(* the three protocol parsers with the reader's options (validate, msgmode, parsebitfield,
   labelmsm) already applied; protocol ids as in ubxtypes_core: NMEA 1, UBX 2, RTCM3 4 *)
Variable parse : N -> bytes -> result P.
(* second byte b such that b"$" + b is in pynmeagps.NMEA_HDR *)
Variable nmea_hdr : N -> bool.

Record cfg := { protfilter : N; quitonerror : N; parsing : bool }.

Definition M (A : Type) := S -> result A * S.
Definition ret {A} (a : A) : M A := fun s => (Ok a, s).
Definition raiseM {A} (e : exn) : M A := fun s => (Raise e, s).
Definition bindM {A B} (m : M A) (k : A -> M B) : M B :=
  fun s => match m s with (Ok a, s') => k a s' | (Raise e, s') => (Raise e, s') end.

(* _read_bytes(size) *)
Definition read_bytes (n : nat) : M bytes := fun s =>
  match n with
  | O => (Ok [], s)
  | _ =>
    let '(d, s') := rd n s in
    match length d with
    | O => (Raise EEOF, s')
    | _ => if Nat.ltb (length d) n then (Raise EUBXStream, s') else (Ok d, s')
    end
  end.

(* _read_line() *)
Definition read_line : M bytes := fun s =>
  let '(d, s') := rdl s in
  match d with
  | [] => (Raise EEOF, s')
  | _ => if last d 0 =? 10 then (Ok d, s') else (Raise EUBXStream, s')
  end.

Inductive framed := Noise | Frame (proto : N) (raw : bytes).

Definition is_preamble (x : N) : bool := (x =? 181) || (x =? 36) || (x =? 211).

(* the framing part of one iteration of the `while parsing:` loop in read() *)
Definition frame1 : M framed :=
  bindM (read_bytes 1) (fun b1 =>
    match b1 with
    | [x1] =>
      if negb (is_preamble x1) then ret Noise else
      bindM (read_bytes 1) (fun b2 =>
        match b2 with
        | [x2] =>
          if (x1 =? 181) && (x2 =? 98) then
            bindM (read_bytes 4) (fun h =>
              let lenb := slice h 2 2 in
              let leni := N.to_nat (uint_of_le lenb) in
              bindM (read_bytes (leni + 2)) (fun body =>
                ret (Frame 2 ([x1; x2] ++ slice h 0 1 ++ slice h 1 1 ++ lenb
                                ++ slice body 0 leni ++ slice body leni 2))))
          else if (x1 =? 36) && nmea_hdr x2 then
            bindM read_line (fun l => ret (Frame 1 ([x1; x2] ++ l)))
          else if (x1 =? 211) && (N.ldiff x2 3 =? 0) then
            bindM (read_bytes 1) (fun h3 =>
              let size := N.to_nat (N.lor (nth 0 h3 0) (N.shiftl x2 8)) in
              bindM (read_bytes size) (fun pl =>
                bindM (read_bytes 3) (fun crc =>
                  ret (Frame 4 ([x1; x2] ++ h3 ++ pl ++ crc)))))
          else raiseM EUBXParse
        | _ => raiseM EOther   (* a conforming stream returns exactly 1 byte here *)
        end)
    | _ => ret Noise           (* not one of the three 1-byte preambles *)
    end).

Inductive outcome :=
| Deliver (raw : bytes) (p : option P)
| Skip
| Reject (e : exn)
| Eof
| Foreign (e : exn).

(* except EOFError / except <the twelve UBX, NMEA, RTCM error classes> / anything else propagates *)
Definition classify (e : exn) : outcome :=
  match e with
  | EEOF => Eof
  | _ => if is_protocol_exn e then Reject e else Foreign e
  end.

Definition passes (c : cfg) (proto : N) : bool := negb (N.land (protfilter c) proto =? 0).

Definition step (c : cfg) (s : S) : outcome * S :=
  match frame1 s with
  | (Ok Noise, s') => (Skip, s')
  | (Ok (Frame proto raw), s') =>
      if passes c proto then
        if parsing c then
          match parse proto raw with
          | Ok p => (Deliver raw (Some p), s')
          | Raise e => (classify e, s')
          end
        else (Deliver raw None, s')
      else (Skip, s')
  | (Raise e, s') => (classify e, s')
  end.

(* What iterating the reader to exhaustion does: delivered items, errors reported to the
   handler/logger (ERR_LOG), the exception that ended iteration (if any), final stream state. *)
Record run := {
  items : list (bytes * option P);
  reports : list exn;
  raised : option exn;
  final : S;
  out_of_fuel : bool }.

Definition stop (s : S) (r : option exn) : run :=
  {| items := []; reports := []; raised := r; final := s; out_of_fuel := false |}.
Definition add_item (i : bytes * option P) (r : run) : run :=
  {| items := i :: items r; reports := reports r; raised := raised r; final := final r;
     out_of_fuel := out_of_fuel r |}.
Definition add_report (e : exn) (r : run) : run :=
  {| items := items r; reports := e :: reports r; raised := raised r; final := final r;
     out_of_fuel := out_of_fuel r |}.

Fixpoint read_all (c : cfg) (fuel : nat) (s : S) : run :=
  match fuel with
  | O => {| items := []; reports := []; raised := None; final := s; out_of_fuel := true |}
  | Datatypes.S f =>
    match step c s with
    | (Deliver raw p, s') => add_item (raw, p) (read_all c f s')
    | (Skip, s') => read_all c f s'
    | (Reject e, s') =>
        if quitonerror c =? 2 then stop s' (Some e)
        else if quitonerror c =? 1 then add_report e (read_all c f s')
        else read_all c f s'
    | (Eof, s') => stop s' None
    | (Foreign e, s') => stop s' (Some e)
    end
  end.


(* ---- framing trace: what read() frames from the stream, independent of the configuration
        and of what any protocol parser answers ---- *)
Inductive tev := TFrame (proto : N) (raw : bytes) | TNoise | TErr (e : exn).
Inductive tend := TEof (s : S) | TFuel (s : S).

Fixpoint trace (fuel : nat) (s : S) : list (tev * S) * tend :=
  match fuel with
  | O => ([], TFuel s)
  | Datatypes.S f =>
    match frame1 s with
    | (Ok Noise, s') => let '(l, e) := trace f s' in ((TNoise, s') :: l, e)
    | (Ok (Frame p r), s') => let '(l, e) := trace f s' in ((TFrame p r, s') :: l, e)
    | (Raise EEOF, s') => ([], TEof s')
    | (Raise x, s') => let '(l, e) := trace f s' in ((TErr x, s') :: l, e)
    end
  end.

Definition on_outcome (c : cfg) (o : outcome) (s' : S) (k : run) : run :=
  match o with
  | Deliver raw p => add_item (raw, p) k
  | Skip => k
  | Reject e =>
      if quitonerror c =? 2 then stop s' (Some e)
      else if quitonerror c =? 1 then add_report e k
      else k
  | Eof => stop s' None
  | Foreign e => stop s' (Some e)
  end.

Definition outcome_of (c : cfg) (t : tev) : outcome :=
  match t with
  | TNoise => Skip
  | TFrame proto raw =>
      if passes c proto then
        if parsing c then
          match parse proto raw with
          | Ok p => Deliver raw (Some p)
          | Raise e => classify e
          end
        else Deliver raw None
      else Skip
  | TErr e => classify e
  end.

Fixpoint interp (c : cfg) (l : list (tev * S)) (e : tend) : run :=
  match l with
  | [] => match e with
          | TEof s => stop s None
          | TFuel s => {| items := []; reports := []; raised := None; final := s; out_of_fuel := true |}
          end
  | (t, s') :: l' => on_outcome c (outcome_of c t) s' (interp c l' e)
  end.

End Reader.

(* ---- the file-like stream: io.BytesIO / a binary file ---- *)
Definition file_rd (n : nat) (s : bytes) : bytes * bytes := (firstn n s, skipn n s).

Fixpoint split_line (s : bytes) : bytes * bytes :=
  match s with
  | [] => ([], [])
  | b :: t => if b =? 10 then ([b], t) else let '(l, r) := split_line t in (b :: l, r)
  end.
Definition file_rdl (s : bytes) : bytes * bytes := split_line s.

Definition file_read_all {P} parse nmea_hdr (c : cfg) (s : bytes) : @run bytes P :=
  read_all file_rd file_rdl parse nmea_hdr c (Datatypes.S (length s)) s.

(* protocol(raw) of ubxhelpers, used by C11 to classify a delivered item *)
Definition protocol (nmea_hdr : N -> bool) (raw : bytes) : N :=
  match raw with
  | x1 :: x2 :: _ =>
      if (x1 =? 181) && (x2 =? 98) then 2
      else if (x1 =? 36) && nmea_hdr x2 then 1
      else if (x1 =? 211) && (N.ldiff x2 3 =? 0) then 4
      else 0
  | _ => 0
  end.

(* ---- the grammar of clean streams (C06): frames of the three protocols and noise ---- *)
Inductive chunk :=
| CUbx (c i : N) (p ck : bytes)
| CNmea (h : N) (body : bytes)
| CRtcm (b2 b3 : N) (p crc : bytes)
| CNoise (ns : bytes).

Definition raw_of (ch : chunk) : bytes :=
  match ch with
  | CUbx c i p ck => [181; 98; c; i] ++ enc_le 2 (N.of_nat (length p)) ++ p ++ ck
  | CNmea h body => [36; h] ++ body ++ [10]
  | CRtcm b2 b3 p crc => [211; b2; b3] ++ p ++ crc
  | CNoise ns => ns
  end.

Definition proto_of (ch : chunk) : N :=
  match ch with CUbx _ _ _ _ => 2 | CNmea _ _ => 1 | CRtcm _ _ _ _ => 4 | CNoise _ => 0 end.

Definition wf_chunk (nmea_hdr : N -> bool) (ch : chunk) : Prop :=
  match ch with
  | CUbx c i p ck => N.of_nat (length p) < 65536 /\ length ck = 2%nat
  | CNmea h body => nmea_hdr h = true /\ Forall (fun b => b <> 10) body
  | CRtcm b2 b3 p crc =>
      N.ldiff b2 3 = 0 /\ N.of_nat (length p) = N.lor b3 (N.shiftl b2 8) /\ length crc = 3%nat
  | CNoise ns => Forall (fun b => is_preamble b = false) ns
  end.

Definition flatten (cs : list chunk) : bytes := concat (map raw_of cs).

(* what the reader should deliver for one frame under a configuration *)
Definition deliver {P} (parse : N -> bytes -> result P) (c : cfg) (ch : chunk) : list (bytes * option P) :=
  match ch with
  | CNoise _ => []
  | _ =>
    if passes c (proto_of ch) then
      if parsing c then
        match parse (proto_of ch) (raw_of ch) with
        | Ok v => [(raw_of ch, Some v)]
        | Raise _ => []
        end
      else [(raw_of ch, None)]
    else []
  end.

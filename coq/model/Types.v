(* Types.v — attribute types, payload definitions, Python values; val2bytes / bytes2val / nomval
   (ubxhelpers.py).  Definitions only. *)
From PyUbx Require Import Base Bytes PyFloat.
From Coq Require Import Floats.SpecFloat.
Open Scope Z_scope.

(* An attribute type string, as far as the code ever inspects it: att == "CH", att[0:1] (as an
   ASCII code, 0 when empty) and int(att[1:4]) (None when int() raises ValueError). *)
Inductive aty := TCH | T (letter : N) (siz : option nat).

Inductive rep := RFixed (n : Z) | RNamed (s : string) | RVar.
Inductive scale := SInt (z : Z) | SFloat (bits : Z).

(* A payload definition entry.  ABits: a tuple whose first member is one of X1,X2,X4,X6,X8,X24. *)
Inductive adef :=
| ASingle (name : string) (t : aty)
| AScaled (name : string) (t : aty) (s : scale)
| ABits (name : string) (t : aty) (flags : list (string * aty))
| AGroup (name : string) (r : rep) (body : list adef).

(* Python values that can be attribute values.  bool is folded into int (it is a subclass and
   every modelled operation treats it as its integer value).  PStr carries the UTF-8 encoding. *)
Inductive pyval :=
| PInt (z : Z)
| PFloat (f : fl)
| PBytes (b : bytes)
| PStr (utf8 : bytes)
| PList (l : list pyval)
| PNone
| POther.

Definition letter_of (t : aty) : N := match t with TCH => 67%N | T l _ => l end.   (* atttyp *)

(* attsiz: -1 for CH; ValueError when the digits are not an int *)
Definition attsiz (t : aty) : result Z :=
  match t with
  | TCH => Ok (-1)
  | T _ (Some n) => Ok (Z.of_nat n)
  | T _ None => Raise EValue
  end.
Definition attsiz_nat (t : aty) : result nat :=
  match t with
  | TCH => Ok O     (* callers never reach this with CH: it is tested first *)
  | T _ (Some n) => Ok n
  | T _ None => Raise EValue
  end.

Definition lA := 65%N. Definition lC := 67%N. Definition lE := 69%N. Definition lI := 73%N.
Definition lL := 76%N. Definition lR := 82%N. Definition lU := 85%N. Definition lX := 88%N.

Definition is_int_letter (l : N) : bool :=
  (l =? lE)%N || (l =? lI)%N || (l =? lL)%N || (l =? lU)%N.

(* which python kinds ATTTYPE admits for a letter (table generated in Consts.v, passed in) *)
Inductive kind := KdInt | KdFloat | KdBytes | KdStr | KdList | KdNone.
Definition kind_of (v : pyval) : kind :=
  match v with
  | PInt _ => KdInt | PFloat _ => KdFloat | PBytes _ => KdBytes | PStr _ => KdStr
  | PList _ => KdList | PNone | POther => KdNone
  end.
Definition kind_eqb (a b : kind) : bool :=
  match a, b with
  | KdInt, KdInt | KdFloat, KdFloat | KdBytes, KdBytes | KdStr, KdStr | KdList, KdList => true
  | _, _ => false
  end.

Fixpoint assoc_N {A} (k : N) (l : list (N * A)) : option A :=
  match l with [] => None | (k', v) :: t => if (k =? k')%N then Some v else assoc_N k t end.

Section Codec.
Variable atttype : list (N * list kind).

Fixpoint zeros (n : nat) : bytes := match n with O => [] | S k => 0%N :: zeros k end.

Fixpoint arr_enc (n : nat) (l : list pyval) : result bytes :=
  match n with
  | O => Ok []
  | S k =>
    match l with
    | [] => Raise EIndex
    | v :: t =>
      match v with
      | PInt z => do b <- int_enc false 1 z; do r <- arr_enc k t; Ok (b ++ r)
      | _ => Raise EAttribute        (* no to_bytes on that element *)
      end
    end
  end.

(* val2bytes(val, att) *)
Definition val2bytes (v : pyval) (t : aty) : result bytes :=
  let l := letter_of t in
  match assoc_N l atttype with
  | None => Raise EUBXType                           (* KeyError -> UBXTypeError *)
  | Some ks =>
    if negb (existsb (kind_eqb (kind_of v)) ks) then Raise EType else
    if (l =? lX)%N then
      match v with
      | PBytes b => do n <- attsiz t;
                    if negb (Z.of_nat (length b) =? n) then Raise EValue else Ok b
      | _ => Raise EType
      end
    else if (l =? lC)%N then
      match v with PStr u => Ok u | PBytes b => Ok b | _ => Raise EAttribute end
    else if is_int_letter l then
      match v with
      | PInt z => do n <- attsiz_nat t; int_enc (l =? lI)%N n z
      | _ => Raise EAttribute
      end
    else if (l =? lR)%N then
      do n <- attsiz t;
      do f <- match v with PInt z => py_float_of_int z | PFloat f => Ok f | _ => Raise EType end;
      if n =? 4 then do g <- b32_round f; Ok (enc_le 4 (Z.to_N (bits_of_b32 g)))
      else Ok (enc_le 8 (Z.to_N (bits_of_b64 f)))
    else if (l =? lA)%N then
      do n <- attsiz_nat t;
      match v with
      | PList xs => if negb (Nat.eqb (length xs) n) then Raise EValue else arr_enc n xs
      | _ => Raise EType
      end
    else Raise EUnbound                               (* `valb` never assigned *)
  end.

Fixpoint arr_dec (n : nat) (b : bytes) : result (list pyval) :=
  match n with
  | O => Ok []
  | S k => match b with [] => Raise EIndex | x :: t => do r <- arr_dec k t; Ok (PInt (Z.of_N x) :: r) end
  end.

(* bytes2val(valb, att) *)
Definition bytes2val (b : bytes) (t : aty) : result pyval :=
  match t with
  | TCH => Ok (PStr b)                                (* decode("utf-8","backslashreplace"): opaque *)
  | T l _ =>
    if (l =? lX)%N || (l =? lC)%N then Ok (PBytes b)
    else if is_int_letter l then Ok (PInt (int_dec (l =? lI)%N b))
    else if (l =? lR)%N then
      do n <- attsiz t;
      if n =? 4 then
        if negb (Nat.eqb (length b) 4) then Raise EStruct
        else Ok (PFloat (b64_of_b32 (b32_of_bits (Z.of_N (uint_of_le b)))))
      else
        if negb (Nat.eqb (length b) 8) then Raise EStruct
        else Ok (PFloat (b64_of_bits (Z.of_N (uint_of_le b))))
    else if (l =? lA)%N then
      do n <- attsiz_nat t; do xs <- arr_dec n b; Ok (PList xs)
    else Raise EUBXType
  end.

(* nomval(att) *)
Definition nomval (t : aty) : result pyval :=
  match t with
  | TCH => Ok (PStr [])
  | T l _ =>
    if (l =? lX)%N || (l =? lC)%N then do n <- attsiz_nat t; Ok (PBytes (zeros n))
    else if (l =? lR)%N then Ok (PFloat (S754_zero false))
    else if is_int_letter l then Ok (PInt 0)
    else if (l =? lA)%N then do n <- attsiz_nat t; Ok (PList (nrepeat (PInt 0) n))
    else Raise EUBXType
  end.

End Codec.

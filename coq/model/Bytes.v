(* Bytes.v — Python bytes operations as the code uses them.  Definitions only. *)
From PyUbx Require Import Base.
Open Scope N_scope.

Definition wfb (bs : bytes) : Prop := Forall (fun b => b < 256) bs.
Definition wfbb (bs : bytes) : bool := forallb (fun b => b <? 256) bs.

(* Python slice l[a:b] for int a b, step 1: negative indices wrap once, then clamp. *)
Definition norm_idx (len i : Z) : Z :=
  let j := if (i <? 0)%Z then (i + len)%Z else i in
  if (j <? 0)%Z then 0%Z else if (len <? j)%Z then len else j.

Definition pyslice {A} (l : list A) (a b : Z) : list A :=
  let len := Z.of_nat (length l) in
  let a' := norm_idx len a in
  let b' := norm_idx len b in
  firstn (Z.to_nat (b' - a')) (skipn (Z.to_nat a') l).

(* l[a:] *)
Definition pyslice_from {A} (l : list A) (a : Z) : list A :=
  let len := Z.of_nat (length l) in
  skipn (Z.to_nat (norm_idx len a)) l.

(* slice by natural offset and size: l[off : off+sz] with off, sz >= 0 *)
Definition slice {A} (l : list A) (off sz : nat) : list A := firstn sz (skipn off l).

Fixpoint beq (a b : bytes) : bool :=
  match a, b with
  | [], [] => true
  | x :: a', y :: b' => (x =? y) && beq a' b'
  | _, _ => false
  end.

(* int.from_bytes(bs, "little", signed=False): total, any length *)
Fixpoint uint_of_le (bs : bytes) : N :=
  match bs with [] => 0 | b :: t => b + 256 * uint_of_le t end.

(* w little-endian bytes of v (low w bytes) *)
Fixpoint enc_le (w : nat) (v : N) : bytes :=
  match w with O => [] | S w' => (v mod 256) :: enc_le w' (v / 256) end.

(* int.from_bytes(bs, "little", signed=True) *)
Definition sint_of_le (bs : bytes) : Z :=
  let u := Z.of_N (uint_of_le bs) in
  let bits := (8 * Z.of_nat (length bs))%Z in
  match bs with
  | [] => 0%Z
  | _ => if (u <? 2 ^ (bits - 1))%Z then u else (u - 2 ^ bits)%Z
  end.

(* int.to_bytes(w, "little", signed=sg): OverflowError when out of range *)
Definition int_enc (sg : bool) (w : nat) (z : Z) : result bytes :=
  let bits := (8 * Z.of_nat w)%Z in
  if sg then
    match w with
    | O => if (z =? 0)%Z then Ok [] else Raise EOverflow
    | _ =>
      if ((- 2 ^ (bits - 1) <=? z) && (z <? 2 ^ (bits - 1)))%Z
      then Ok (enc_le w (Z.to_N (z mod 2 ^ bits)))
      else Raise EOverflow
    end
  else
    if ((0 <=? z) && (z <? 2 ^ bits))%Z then Ok (enc_le w (Z.to_N z)) else Raise EOverflow.

Definition int_dec (sg : bool) (bs : bytes) : Z :=
  if sg then sint_of_le bs else Z.of_N (uint_of_le bs).

(* big-endian decode: int(bs.hex(), 16) for non-empty bs *)
Definition dec_be (bs : bytes) : N := uint_of_le (rev bs).

Fixpoint nrepeat {A} (x : A) (n : nat) : list A :=
  match n with O => [] | S k => x :: nrepeat x k end.

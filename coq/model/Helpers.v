(* Helpers.v — helper conversions of ubxhelpers.py: get_bits, att2idx, att2name, val2sphp.
   (protocol is in Reader.v; calc_checksum/isvalid_checksum in Fletcher.v; the codecs in Types.v.)
   Definitions only. *)
From PyUbx Require Import Base Bytes PyFloat Types Strs.
From Coq Require Import Floats.SpecFloat.
Open Scope N_scope.

(* get_bits(bitfield, bitmask): val = int(bitfield.hex(), 16)  [big-endian];
   while bitmask & 1 == 0: bitmask >>= 1; i += 1;  return val >> i & bitmask.
   For bitmask = 0 the loop never ends: the model has no value there (None). *)
Fixpoint strip_zeros (p : positive) : positive * N :=
  match p with
  | xO q => let '(r, i) := strip_zeros q in (r, i + 1)
  | _ => (p, 0)
  end.
Definition get_bits (bitfield : bytes) (bitmask : N) : option (result N) :=
  match bitmask with
  | N0 => None
  | Npos p =>
      Some (match bitfield with
            | [] => Raise EValue                       (* int("", 16) *)
            | _ => let '(m, i) := strip_zeros p in
                   Ok (N.land (N.shiftr (dec_be bitfield) i) (Npos m))
            end)
  end.

(* ---- att2idx / att2name on attribute names ---- *)
Definition underscore : ascii := "_"%char.
Fixpoint split_us (s : string) (cur : string) : list string :=
  match s with
  | EmptyString => [cur]
  | String c t => if Ascii.eqb c underscore then cur :: split_us t EmptyString
                  else split_us t (cur ++ String c EmptyString)
  end.
Definition split_underscore (s : string) : list string := split_us s EmptyString.

(* int(s) for a plain ASCII digit string; anything else is "ValueError" here (the model is exact on the
   names the library generates; Python's int() also accepts signs, spaces and underscores) *)
Fixpoint digits_val (s : string) (acc : N) : option N :=
  match s with
  | EmptyString => Some acc
  | String c t =>
      let n := N_of_ascii c in
      if (48 <=? n) && (n <=? 57) then digits_val t (acc * 10 + (n - 48)) else None
  end.
Definition py_int_str (s : string) : option N :=
  match s with EmptyString => None | _ => digits_val s 0 end.

Inductive idx_result := IdxNone (* 0: not grouped *) | IdxOne (n : N) | IdxMany (l : list N).
Definition att2idx (att : string) : idx_result :=
  match split_underscore att with
  | [_; a] => match py_int_str a with Some n => IdxOne n | None => IdxNone end
  | _ :: rest =>
      match rest with
      | [] => IdxNone
      | _ =>
        (fix go (l : list string) (acc : list N) : idx_result :=
           match l with
           | [] => IdxMany (rev acc)
           | a :: t => match py_int_str a with Some n => go t (n :: acc) | None => IdxNone end
           end) rest []
      end
  | [] => IdxNone
  end.
Definition att2name (att : string) : string :=
  match split_underscore att with a :: _ => a | [] => att end.

(* val2sphp(val, scale): val = val / scale; sp = trunc(val); hp = round((val - sp) * 100) *)
Definition fsub := SFsub prec emax.
Definition val2sphp (v sc : fl) : result (Z * Z) :=
  do q <- fdiv v sc;
  do sp <- py_int_of_float q;                 (* math.trunc: OverflowError / ValueError like int() *)
  do spf <- py_float_of_int sp;
  do hp <- py_round_int (fmul (fsub q spf) (f_of_Z 100));
  Ok (sp, hp).

(* Strs.v — the few string operations the message code performs.  Definitions only. *)
From PyUbx Require Import Base.
Open Scope string_scope.

Definition digit_char (d : N) : ascii := ascii_of_N (48 + d)%N.
Definition hexdigit_char (d : N) : ascii := if (d <? 10)%N then ascii_of_N (48 + d)%N else ascii_of_N (87 + d)%N.

(* decimal / hexadecimal digits of n, most significant first ("" for 0); fuel = number of bits *)
Fixpoint digits_aux (base : N) (dc : N -> ascii) (fuel : nat) (n : N) (acc : string) : string :=
  match fuel with
  | O => acc
  | S f => if (n =? 0)%N then acc else digits_aux base dc f (n / base)%N (String (dc (n mod base)%N) acc)
  end.
Definition dec_of_N (n : N) : string :=
  if (n =? 0)%N then "0" else digits_aux 10 digit_char (S (N.to_nat (N.size n))) n "".
Definition hex_of_N (n : N) : string :=
  if (n =? 0)%N then "0" else digits_aux 16 hexdigit_char (S (N.to_nat (N.size n))) n "".

Definition pad2 (s : string) : string := if Nat.ltb (String.length s) 2 then "0" ++ s else s.

(* f"_{i:02d}" for each index > 0 *)
Fixpoint suffix (idx : list nat) : string :=
  match idx with
  | [] => ""
  | i :: t => (if Nat.eqb i 0 then "" else "_" ++ pad2 (dec_of_N (N.of_nat i))) ++ suffix t
  end.

(* f"{n:02x}" *)
Definition hex02 (n : N) : string := pad2 (hex_of_N n).

(* s[0:n] == p for a literal p of length n *)
Definition starts_with (p s : string) : bool := String.eqb (substring 0 (String.length p) s) p.
(* s[n:] *)
Definition drop (n : nat) (s : string) : string := substring n (String.length s - n) s.
(* s[-n:] *)
Definition last_n (n : nat) (s : string) : string :=
  let l := String.length s in if Nat.leb l n then s else substring (l - n) n s.

Fixpoint assoc_s {A} (k : string) (l : list (string * A)) : option A :=
  match l with [] => None | (k', v) :: t => if String.eqb k k' then Some v else assoc_s k t end.
Definition mem_s (k : string) (l : list string) : bool := existsb (String.eqb k) l.

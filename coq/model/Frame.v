(* Frame.v — UBXReader.parse up to the UBXMessage constructor call (ubxreader.py:parse),
   and the frame grammar.  Definitions only. *)
From PyUbx Require Import Base Bytes Fletcher.
Open Scope N_scope.

Record front := { f_cls : bytes; f_id : bytes; f_payload : option bytes }.

(* validate is the int passed by the caller; the code tests `validate & VALCKSUM` *)
Definition valcksum (validate : N) : bool := N.testbit validate 0.

Definition parse_front (validate : N) (m : bytes) : result front :=
  let lenm := Z.of_nat (length m) in
  let hdr := pyslice m 0 2 in
  let clsid := pyslice m 2 3 in
  let msgid := pyslice m 3 4 in
  let lenb := pyslice m 4 6 in
  let payload := if beq lenb [0; 0] then None else Some (pyslice m 6 (lenm - 2)) in
  let ckm := pyslice m (lenm - 2) lenm in
  let ckv := fletcher (clsid ++ msgid ++ lenb ++ match payload with Some p => p | None => [] end) in
  if valcksum validate then
    if negb (beq hdr [181; 98]) then Raise EUBXParse
    else if negb (lenm - 8 =? Z.of_N (uint_of_le lenb))%Z then Raise EUBXParse
    else if negb (beq ckm ckv) then Raise EUBXParse
    else Ok {| f_cls := clsid; f_id := msgid; f_payload := payload |}
  else Ok {| f_cls := clsid; f_id := msgid; f_payload := payload |}.

(* The frame grammar: b5 62 cls id len(LE,2) payload ck_a ck_b *)
Definition mk_frame (c i : N) (p : bytes) : bytes :=
  let body := [c; i] ++ enc_le 2 (N.of_nat (length p)) ++ p in
  [181; 98] ++ body ++ fletcher_spec body.

Definition WellFormed (f : bytes) : Prop :=
  exists c i p, c < 256 /\ i < 256 /\ wfb p /\ N.of_nat (length p) < 65536 /\ f = mk_frame c i p.

(* executable version used by the search oracle *)
Definition wellformedb (f : bytes) : bool :=
  match f with
  | h1 :: h2 :: c :: i :: l1 :: l2 :: rest =>
      let n := length rest in
      (h1 =? 181) && (h2 =? 98) && wfbb f && (2 <=? n)%nat &&
      (N.of_nat (n - 2) =? l1 + 256 * l2) &&
      beq (skipn (n - 2) rest) (fletcher_spec ([c; i; l1; l2] ++ firstn (n - 2) rest))
  | _ => false
  end.

(* Msg.v — UBXMessage (constructor, _do_attributes, _get_dict, identity, serialize, repr
   arguments, config_set/del/poll), the variant selectors of ubxvariants.py, getinputmode and
   UBXReader.parse, instantiated with the generated tables.  Definitions only. *)
From PyUbx Require Import Base Bytes Fletcher Frame PyFloat Types Strs Walk Consts Tables.
From Coq Require Import Floats.SpecFloat.
Open Scope Z_scope.

Fixpoint assoc_b {A} (k : bytes) (l : list (bytes * A)) : option A :=
  match l with [] => None | (k', v) :: t => if beq k k' then Some v else assoc_b k t end.

Definition U1 : aty := T lU (Some 1%nat).
Definition U2 : aty := T lU (Some 2%nat).
Definition U4 : aty := T lU (Some 4%nat).

Definition v2b := val2bytes atttype.

(* ---- identity ---- *)
Definition identity (cls id : bytes) (payload : option bytes) : string :=
  let key :=
    if beq cls [19%N] && negb (beq id [128%N])
    then (cls ++ id ++ firstn 1 (match payload with Some p => p | None => [] end))%list
    else (cls ++ id)%list in
  match assoc_b key msgids with
  | Some n => n
  | None =>
      let c := match assoc_b cls classes with Some n => n | None => "UNKNOWN"%string end in
      (c ++ "-" ++ hex02 (uint_of_le cls) ++ hex02 (uint_of_le id) ++ "-NOMINAL")%string
  end.

(* ---- table lookups: KeyError is turned into UBXMessageError by _get_dict ---- *)
Definition tab (t : list (string * list adef)) (name : string) : result (list adef) :=
  match assoc_s name t with Some d => Ok d | None => Raise EUBXMessage end.

(* constructor keyword arguments *)
Inductive kwargs := KwNone | KwPayload (p : bytes) | KwAttrs (k : attrs).

Definition kw_has (k : kwargs) (n : string) : bool :=
  match k with KwAttrs a => match assoc_s n a with Some _ => true | None => false end | _ => false end.
Definition kw_val (k : kwargs) (n : string) : pyval :=
  match k with KwAttrs a => match assoc_s n a with Some v => v | None => PNone end | _ => PNone end.

(* `if "<name>" in kwargs: x = val2bytes(kwargs[name], U1) elif "payload" in kwargs: x = payload[a:b]
    else: raise UBXMessageError` *)
Definition disc_byte (k : kwargs) (name : string) (a : nat) : result bytes :=
  if kw_has k name then v2b (kw_val k name) U1
  else match k with KwPayload p => Ok (slice p a 1) | _ => Raise EUBXMessage end.

Definition pay_len (k : kwargs) : option nat := match k with KwPayload p => Some (length p) | _ => None end.

Definition pyval_is_zero (v : pyval) : bool :=
  match v with PInt z => z =? 0 | PFloat f => is_fzero f | _ => false end.

(* the selector functions of ubxvariants.py, by name *)
Definition selector (name : string) (msg : bytes) (mode : N) (k : kwargs) : result (list adef) :=
  if String.eqb name "get_cfgtp5_dict" then
    let lp := match pay_len k with Some n => n | None => if kw_has k "tpIdx" then 1%nat else 0%nat end in
    if Nat.eqb lp 1 then tab payloads_poll "CFG-TP5-TPX" else tab payloads_poll "CFG-TP5"
  else if String.eqb name "get_mga_dict" then
    do typ <- disc_byte k "type" 0;
    match assoc_b (msg ++ typ)%list msgids with
    | None => Raise EUBXMessage
    | Some ident => if (mode =? 1)%N then tab payloads_set ident else tab payloads_get ident
    end
  else if String.eqb name "get_rxmpmreq_dict" then
    do lpd <- (if kw_has k "version" then Ok 16%nat
               else match pay_len k with Some n => Ok n | None => Raise EUBXMessage end);
    if Nat.eqb lpd 16 then tab payloads_set "RXM-PMREQ" else tab payloads_set "RXM-PMREQ-S"
  else if String.eqb name "get_rxmpmp_dict" then
    do ver <- disc_byte k "version" 0;
    if beq ver [0%N] then tab payloads_set "RXM-PMP-V0" else tab payloads_set "RXM-PMP-V1"
  else if String.eqb name "get_rxmrlm_dict" then
    do typ <- disc_byte k "type" 1;
    if beq typ [1%N] then tab payloads_get "RXM-RLM-S" else tab payloads_get "RXM-RLM-L"
  else if String.eqb name "get_cfgnmea_dict" then
    match pay_len k with
    | None => Raise EUBXMessage
    | Some lpd => if Nat.eqb lpd 4 then tab payloads_get "CFG-NMEAvX"
                  else if Nat.eqb lpd 12 then tab payloads_get "CFG-NMEAv0"
                  else tab payloads_get "CFG-NMEA"
    end
  else if String.eqb name "get_aopstatus_dict" then
    match pay_len k with
    | None => Raise EUBXMessage
    | Some lpd => if Nat.eqb lpd 20 then tab payloads_get "NAV-AOPSTATUS-L" else tab payloads_get "NAV-AOPSTATUS"
    end
  else if String.eqb name "get_relposned_dict" then
    do ver <- disc_byte k "version" 0;
    if beq ver [0%N] then tab payloads_get "NAV-RELPOSNED-V0" else tab payloads_get "NAV-RELPOSNED"
  else if String.eqb name "get_timvcocal_dict" then
    do lt <- (if kw_has k "type" then Ok (1%nat, pyval_is_zero (kw_val k "type"))
              else match pay_len k with Some n => Ok (n, true) | None => Raise EUBXMessage end);
    let '(lpd, tz) := lt in
    if Nat.eqb lpd 1 && tz then tab payloads_set "TIM-VCOCAL-V0" else tab payloads_set "TIM-VCOCAL"
  else if String.eqb name "get_cfgdat_dict" then
    let lpd := match pay_len k with Some n => n | None => 0%nat end in
    if Nat.eqb lpd 2 || kw_has k "datumNum" then tab payloads_set "CFG-DAT-NUM" else tab payloads_set "CFG-DAT"
  else if String.eqb name "get_secsig_dict" then
    do ver <- disc_byte k "version" 0;
    if beq ver [1%N] then tab payloads_get "SEC-SIG-V1" else tab payloads_get "SEC-SIG-V2"
  else if String.eqb name "get_alpsrv_dict" then
    do typ <- disc_byte k "type" 1;
    if beq typ [255%N] then tab payloads_get "AID-ALPSRV-SEND" else tab payloads_get "AID-ALPSRV-REQ"
  else Raise EOther.      (* a selector this model does not know: the tie is broken, not the property *)

Fixpoint variant_lookup (mode : N) (msg : bytes) (l : list (N * list N * string)) : option string :=
  match l with
  | [] => None
  | (m, k, f) :: t => if (m =? mode)%N && beq k msg then Some f else variant_lookup mode msg t
  end.

(* _get_dict; `pay` is self._payload at that point (the payload keyword, or b"") *)
Definition get_dict (cls id : bytes) (mode : N) (k : kwargs) (pay : bytes) : result (list adef) :=
  let msg := (cls ++ id)%list in
  match variant_lookup mode msg variants with
  | Some f => selector f msg mode k
  | None =>
      let ident := identity cls id (Some pay) in
      if (mode =? 2)%N then tab payloads_poll ident
      else if (mode =? 1)%N then tab payloads_set ident
      else if String.eqb (last_n 7 ident) "NOMINAL" then Ok []
      else tab payloads_get ident
  end.

(* ---- the message object ---- *)
Record msg := {
  m_cls : bytes; m_id : bytes; m_mode : N; m_bf : bool;
  m_payload : option bytes; m_length : bytes; m_cksum : bytes;
  m_attrs : attrs;
  m_immutable : bool }.

(* the except clauses of _do_attributes *)
Definition translate_exn {A} (r : result A) : result A :=
  match r with
  | Ok a => Ok a
  | Raise e =>
      match e with
      | EAttribute | EIndex | EStruct | EType | EValue | EOverflow => Raise EUBXType
      | _ => Raise e
      end
  end.

Definition len_cksum (cls id : bytes) (p : bytes) : result (bytes * bytes) :=
  do l <- v2b (PInt (Z.of_nat (length p))) U2;
  Ok (l, fletcher (cls ++ id ++ l ++ p)%list).

Definition mode_ok (mode : N) : bool := (mode =? 0)%N || (mode =? 1)%N || (mode =? 2)%N.

(* bound on group repeat counts the executable model accepts (see Walk.v) *)
Definition budget : nat := N.to_nat 6000.

Definition do_walk (cls id : bytes) (mode : N) (bf : bool) (k : kwargs) (pay : bytes) (kwo : option attrs)
  : result (wst) :=
  do pd <- get_dict cls id mode k pay;
  walk_list atttype readonly_names cfgdb storsize scalround cls id mode bf kwo budget pd []
    {| w_off := O; w_pay := pay; w_attrs := []; w_trace := [] |}.

(* UBXMessage(cls, id, mode, parsebitfield=bf, **kwargs) with class and id already bytes *)
Definition construct (cls id : bytes) (mode : N) (bf : bool) (k : kwargs) : result msg :=
  if negb (mode_ok mode) then Raise EUBXMessage else
  let finish (payload : option bytes) (a : attrs) : result msg :=
    do lc <- len_cksum cls id (match payload with Some p => p | None => [] end);
    Ok {| m_cls := cls; m_id := id; m_mode := mode; m_bf := bf; m_payload := payload;
          m_length := fst lc; m_cksum := snd lc; m_attrs := a; m_immutable := true |} in
  translate_exn
    match k with
    | KwNone | KwAttrs [] => finish None []
    | KwPayload p => do s <- do_walk cls id mode bf k p None; finish (Some (w_pay s)) (w_attrs s)
    | KwAttrs a => do s <- do_walk cls id mode bf k [] (Some a); finish (Some (w_pay s)) (w_attrs s)
    end.

Definition serialize (m : msg) : bytes :=
  (ubx_hdr ++ m_cls m ++ m_id m ++ m_length m ++
   (match m_payload m with Some p => p | None => [] end) ++ m_cksum m)%list.

Definition msg_length (m : msg) : Z := Z.of_N (uint_of_le (m_length m)).
Definition msg_identity (m : msg) : string := identity (m_cls m) (m_id m) (m_payload m).

(* what eval(repr(m)) constructs *)
Definition repr_construct (m : msg) : result msg :=
  construct (m_cls m) (m_id m) (m_mode m) true
    (match m_payload m with None => KwNone | Some p => KwPayload p end).

(* __setattr__ / __delattr__ after construction: (new state, outcome) *)
Definition setattr_ (m : msg) (name : string) (v : pyval) : result msg :=
  if m_immutable m then Raise EUBXMessage
  else Ok {| m_cls := m_cls m; m_id := m_id m; m_mode := m_mode m; m_bf := m_bf m;
             m_payload := m_payload m; m_length := m_length m; m_cksum := m_cksum m;
             m_attrs := upsert name v (m_attrs m); m_immutable := false |}.
Definition delattr_ (m : msg) (name : string) : result msg :=
  if m_immutable m then Raise EUBXMessage
  else Ok {| m_cls := m_cls m; m_id := m_id m; m_mode := m_mode m; m_bf := m_bf m;
             m_payload := m_payload m; m_length := m_length m; m_cksum := m_cksum m;
             m_attrs := filter (fun x => negb (String.eqb (fst x) name)) (m_attrs m); m_immutable := false |}.

(* ---- getinputmode ---- *)
Definition getinputmode (data : bytes) : N :=
  let n := Z.of_nat (length data) in
  let ci := pyslice data 2 4 in
  if (n =? im_len_poll) || beq ci im_valget || (existsb (beq ci) im_short_ids && (n <=? im_short_len))
  then 2%N else 1%N.

(* ---- UBXReader.parse ---- *)
Definition parse (msgmode validate : N) (bf : bool) (message : bytes) : result msg :=
  if negb ((msgmode <? 4)%N) then Raise EUBXParse else
  do fr <- parse_front validate message;
  let mode := if (msgmode =? 3)%N then getinputmode message else msgmode in
  match f_payload fr with
  | None => construct (f_cls fr) (f_id fr) mode true KwNone
  | Some p => construct (f_cls fr) (f_id fr) mode bf (KwPayload p)
  end.

(* ---- addressing by name / by integers ---- *)
Fixpoint key_from_val (l : list (bytes * string)) (v : string) : option bytes :=
  match l with [] => None | (k, v') :: t => if String.eqb v v' then Some k else key_from_val t v end.

Definition msgstr2bytes (c i : string) : result (bytes * bytes) :=
  match key_from_val classes c, key_from_val msgids i with
  | Some a, Some b => Ok (a, slice b 1 1)
  | _, _ => Raise EUBXMessage
  end.
Definition msgclass2bytes (c i : Z) : result (bytes * bytes) :=
  do a <- v2b (PInt c) U1; do b <- v2b (PInt i) U1; Ok (a, b).

(* ---- configuration database helpers ---- *)
Inductive cfgkey := KName (s : string) | KId (z : Z).

Definition cfgname2key (n : string) : result (Z * aty) :=
  match assoc_s n cfgdb with Some r => Ok r | None => Raise EUBXMessage end.
Definition cfgkey2name_ := cfgkey2name cfgdb storsize.

Definition key_id (k : cfgkey) : result Z :=
  match k with KName s => do r <- cfgname2key s; Ok (fst r) | KId z => Ok z end.

Fixpoint cfg_items (items : list (cfgkey * pyval)) : result bytes :=
  match items with
  | [] => Ok []
  | (k, v) :: t =>
      do ka <- match k with
               | KName s => cfgname2key s
               | KId z => do r <- cfgkey2name_ z; Ok (z, snd r)
               end;
      do keyb <- v2b (PInt (fst ka)) U4;
      do valb <- v2b v (snd ka);
      do rest <- cfg_items t;
      Ok (keyb ++ valb ++ rest)%list
  end.

Fixpoint cfg_keys (keys : list cfgkey) : result bytes :=
  match keys with
  | [] => Ok []
  | k :: t => do z <- key_id k; do keyb <- v2b (PInt z) U4; do rest <- cfg_keys t; Ok (keyb ++ rest)%list
  end.

Definition named (c i : string) (mode : N) (p : bytes) : result msg :=
  do ci <- msgstr2bytes c i; construct (fst ci) (snd ci) mode true (KwPayload p).

Definition config_set (layers transaction : Z) (items : list (cfgkey * pyval)) : result msg :=
  if cfg_limit_set <? Z.of_nat (length items) then Raise EUBXMessage else
  do ver <- v2b (PInt (if transaction =? 0 then 0 else 1)) U1;
  do lay <- v2b (PInt layers) U1;
  do tr <- v2b (PInt transaction) U1;
  do lis <- cfg_items items;
  named "CFG" "CFG-VALSET" 1 (ver ++ lay ++ tr ++ [0%N] ++ lis)%list.

Definition config_del (layers transaction : Z) (keys : list cfgkey) : result msg :=
  if cfg_limit_del <? Z.of_nat (length keys) then Raise EUBXMessage else
  do ver <- v2b (PInt (if transaction =? 0 then 0 else 1)) U1;
  do lay <- v2b (PInt layers) U1;
  do tr <- v2b (PInt transaction) U1;
  do lis <- cfg_keys keys;
  named "CFG" "CFG-VALDEL" 1 (ver ++ lay ++ tr ++ [0%N] ++ lis)%list.

Definition config_poll (layer position : Z) (keys : list cfgkey) : result msg :=
  if cfg_limit_poll <? Z.of_nat (length keys) then Raise EUBXMessage else
  do ver <- v2b (PInt 0) U1;
  do lay <- v2b (PInt layer) U1;
  do pos <- v2b (PInt position) U2;
  do lis <- cfg_keys keys;
  named "CFG" "CFG-VALGET" 2 (ver ++ lay ++ pos ++ lis)%list.

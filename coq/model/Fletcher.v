(* Fletcher.v — ubxhelpers.calc_checksum / isvalid_checksum.  Definitions only. *)
From PyUbx Require Import Base Bytes.
Open Scope N_scope.

(* for char in content: check_a += char; check_a &= 0xFF; check_b += check_a; check_b &= 0xFF *)
Definition fl_step (st : N * N) (b : N) : N * N :=
  let a := N.land (fst st + b) 255 in (a, N.land (snd st + a) 255).
Definition fletcher_pair (bs : bytes) : N * N := fold_left fl_step bs (0, 0).
Definition fletcher (bs : bytes) : bytes := let '(a, b) := fletcher_pair bs in [a; b].

(* the textbook definition: ck_a = sum b_i, ck_b = sum (n-i) b_i, both mod 256 *)
Fixpoint sumA (bs : bytes) : N := match bs with [] => 0 | b :: t => b + sumA t end.
Fixpoint sumB (bs : bytes) : N :=
  match bs with [] => 0 | b :: t => N.of_nat (length bs) * b + sumB t end.
Definition fletcher_spec (bs : bytes) : bytes := [sumA bs mod 256; sumB bs mod 256].

(* isvalid_checksum(message): ckm = message[lenm-2:lenm]; ckm == calc_checksum(message[2:lenm-2]) *)
Definition isvalid_checksum (m : bytes) : bool :=
  let lenm := Z.of_nat (length m) in
  beq (pyslice m (lenm - 2) lenm) (fletcher (pyslice m 2 (lenm - 2))).

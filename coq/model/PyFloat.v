(* PyFloat.v — the Python float operations the library relies on, over Coq.Floats.SpecFloat
   (pure Z arithmetic, no axioms, no primitive floats).  Definitions only. *)
From PyUbx Require Import Base Bytes.
From Coq Require Import Floats.SpecFloat.
Open Scope Z_scope.

Definition prec := 53.
Definition emax := 1024.
Notation fl := spec_float.

Definition is_inf (f : fl) : bool := match f with S754_infinity _ => true | _ => false end.
Definition is_nan (f : fl) : bool := match f with S754_nan => true | _ => false end.
Definition is_fzero (f : fl) : bool := match f with S754_zero _ => true | _ => false end.

(* float(int): correctly rounded (half-even); OverflowError when out of range *)
Definition f_of_Z (z : Z) : fl := binary_normalize prec emax z 0 false.
Definition py_float_of_int (z : Z) : result fl :=
  let f := f_of_Z z in if is_inf f then Raise EOverflow else Ok f.

Definition fmul := SFmul prec emax.
Definition fadd := SFadd prec emax.
(* float / float: ZeroDivisionError on a zero divisor *)
Definition fdiv (a b : fl) : result fl :=
  if is_fzero b then Raise EZeroDiv else Ok (SFdiv prec emax a b).

(* int / int (true division): the correctly rounded quotient of the two integers *)
Definition int_truediv (a b : Z) : result fl :=
  if b =? 0 then Raise EZeroDiv
  else if a =? 0 then Ok (S754_zero (b <? 0))
  else
    let s := xorb (a <? 0) (b <? 0) in
    let '(mz, ez, lz) := SFdiv_core_binary prec emax (Z.abs a) 0 (Z.abs b) 0 in
    let r := binary_round_aux prec emax s mz ez lz in
    if is_inf r then Raise EOverflow else Ok r.

(* int(x) for a float: truncation; ValueError on nan, OverflowError on inf *)
Definition py_int_of_float (x : fl) : result Z :=
  match x with
  | S754_zero _ => Ok 0
  | S754_infinity _ => Raise EOverflow
  | S754_nan => Raise EValue
  | S754_finite s m e =>
      let v := if 0 <=? e then Zpos m * 2 ^ e else Zpos m / 2 ^ (- e) in
      Ok (if s then - v else v)
  end.

(* round-half-even of num/den (den > 0, num >= 0) *)
Definition rhe (num den : Z) : Z :=
  let q := num / den in
  let r := num mod den in
  match Z.compare (2 * r) den with
  | Lt => q
  | Gt => q + 1
  | Eq => if Z.even q then q else q + 1
  end.

(* round(x) for a float (no ndigits): nearest integer, ties to even *)
Definition py_round_int (x : fl) : result Z :=
  match x with
  | S754_zero _ => Ok 0
  | S754_infinity _ => Raise EOverflow
  | S754_nan => Raise EValue
  | S754_finite s m e =>
      let v := if 0 <=? e then Zpos m * 2 ^ e else rhe (Zpos m) (2 ^ (- e)) in
      Ok (if s then - v else v)
  end.

(* round(x, nd) for a float and nd >= 0, as CPython does it: round-half-even of the exact binary
   value to nd decimals, then the correctly rounded double of that decimal *)
Definition py_round_nd (nd : Z) (x : fl) : result fl :=
  match x with
  | S754_finite s m e =>
      let p10 := 10 ^ nd in
      let n := if 0 <=? e then Zpos m * 2 ^ e * p10 else rhe (Zpos m * p10) (2 ^ (- e)) in
      if n =? 0 then Ok (S754_zero s)
      else
        let '(mz, ez, lz) := SFdiv_core_binary prec emax n 0 p10 0 in
        let r := binary_round_aux prec emax s mz ez lz in
        if is_inf r then Raise EOverflow else Ok r
  | _ => Ok x
  end.

(* ---- IEEE-754 bit patterns (struct.pack / struct.unpack) ---- *)
Definition bits_of_b64 (x : fl) : Z :=
  match x with
  | S754_zero s => if s then 2 ^ 63 else 0
  | S754_infinity s => (if s then 2 ^ 63 else 0) + 2047 * 2 ^ 52
  | S754_nan => 2047 * 2 ^ 52 + 2 ^ 51
  | S754_finite s m e =>
      (if s then 2 ^ 63 else 0) +
      (if Zpos m <? 2 ^ 52 then Zpos m else (e + 1075) * 2 ^ 52 + (Zpos m - 2 ^ 52))
  end.

Definition b64_of_bits (b : Z) : fl :=
  let s := Z.testbit b 63 in
  let ex := (b / 2 ^ 52) mod 2048 in
  let mant := b mod 2 ^ 52 in
  if ex =? 0 then
    match mant with Zpos p => S754_finite s p (-1074) | _ => S754_zero s end
  else if ex =? 2047 then
    (if mant =? 0 then S754_infinity s else S754_nan)
  else
    match mant + 2 ^ 52 with Zpos p => S754_finite s p (ex - 1075) | _ => S754_nan end.

(* double -> single (struct.pack("<f")): round to nearest even; OverflowError when a finite
   value does not fit *)
Definition b32_round (x : fl) : result fl :=
  match x with
  | S754_finite s m e =>
      let r := binary_round 24 128 s m e in
      if is_inf r then Raise EOverflow else Ok r
  | _ => Ok x
  end.

Definition bits_of_b32 (x : fl) : Z :=
  match x with
  | S754_zero s => if s then 2 ^ 31 else 0
  | S754_infinity s => (if s then 2 ^ 31 else 0) + 255 * 2 ^ 23
  | S754_nan => 255 * 2 ^ 23 + 2 ^ 22
  | S754_finite s m e =>
      (if s then 2 ^ 31 else 0) +
      (if Zpos m <? 2 ^ 23 then Zpos m else (e + 150) * 2 ^ 23 + (Zpos m - 2 ^ 23))
  end.

Definition b32_of_bits (b : Z) : fl :=
  let s := Z.testbit b 31 in
  let ex := (b / 2 ^ 23) mod 256 in
  let mant := b mod 2 ^ 23 in
  if ex =? 0 then
    match mant with Zpos p => S754_finite s p (-149) | _ => S754_zero s end
  else if ex =? 255 then
    (if mant =? 0 then S754_infinity s else S754_nan)
  else
    match mant + 2 ^ 23 with Zpos p => S754_finite s p (ex - 150) | _ => S754_nan end.

(* single -> double is exact: renormalise the mantissa for binary64 *)
Definition b64_of_b32 (x : fl) : fl :=
  match x with
  | S754_finite s m e => binary_round prec emax s m e
  | _ => x
  end.

(* exact comparison of a float with an integer (Python compares int and float exactly) *)
Definition fcompare_Z (x : fl) (z : Z) : option comparison :=
  match x with
  | S754_nan => None
  | S754_infinity s => Some (if s then Lt else Gt)
  | S754_zero _ => Some (Z.compare 0 z)
  | S754_finite s m e =>
      let sgn := if s then -1 else 1 in
      if 0 <=? e then Some (Z.compare (sgn * (Zpos m * 2 ^ e)) z)
      else Some (Z.compare (sgn * Zpos m) (z * 2 ^ (- e)))
  end.

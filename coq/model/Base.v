(* Base.v — common vocabulary of the pyubx2 model.  Definitions only. *)
From Coq Require Export NArith ZArith Bool String Ascii.
From Coq Require Export List.
Export ListNotations.

Definition byte := N.
Definition bytes := list N.

(* Python exception classes that can be observed at (or below) the API boundary.
   The UBX*/NMEA*/RTCM* ones are "protocol" errors; every other constructor is a
   *foreign* exception if it reaches the caller. *)
Inductive exn :=
| EUBXParse | EUBXMessage | EUBXType | EUBXStream
| ENmea | ERtcm
| EEOF
| EAttribute | EStruct | EType | EValue | EOverflow | EIndex | EKey
| EUnbound | EZeroDiv | EMemory | EOther.

Definition exn_eqb (a b : exn) : bool :=
  match a, b with
  | EUBXParse, EUBXParse | EUBXMessage, EUBXMessage | EUBXType, EUBXType
  | EUBXStream, EUBXStream | ENmea, ENmea | ERtcm, ERtcm | EEOF, EEOF
  | EAttribute, EAttribute | EStruct, EStruct | EType, EType | EValue, EValue
  | EOverflow, EOverflow | EIndex, EIndex | EKey, EKey | EUnbound, EUnbound
  | EZeroDiv, EZeroDiv | EMemory, EMemory | EOther, EOther => true
  | _, _ => false
  end.

Definition is_ubx_exn (e : exn) : bool :=
  match e with EUBXParse | EUBXMessage | EUBXType | EUBXStream => true | _ => false end.
Definition is_protocol_exn (e : exn) : bool :=
  match e with
  | EUBXParse | EUBXMessage | EUBXType | EUBXStream | ENmea | ERtcm => true
  | _ => false
  end.

Inductive result (A : Type) := Ok (a : A) | Raise (e : exn).
Arguments Ok {A} a.
Arguments Raise {A} e.

Definition bind {A B} (r : result A) (k : A -> result B) : result B :=
  match r with Ok a => k a | Raise e => Raise e end.
Notation "'do' x <- r ; k" := (bind r (fun x => k))
  (at level 200, x pattern, r at level 100, k at level 200).

Definition is_ok {A} (r : result A) : bool := match r with Ok _ => true | Raise _ => false end.

(* try: ... except <classes in l> : handler *)
Definition catch {A} (r : result A) (p : exn -> bool) (h : exn -> result A) : result A :=
  match r with
  | Ok a => Ok a
  | Raise e => if p e then h e else Raise e
  end.

(* Socket.v — SocketWrapper (socket_wrapper.py): buffer state machine over recv() results.
   Definitions only. *)
From PyUbx Require Import Base Bytes Reader.
Open Scope nat_scope.

(* one recv() result: data (b"" = peer closed) or an OSError/TimeoutError *)
Inductive ev := Chunk (b : bytes) | Fail.

(* state: internal buffer + the recv() results still to come.  An exhausted event list means
   every later recv() fails (closed socket keeps returning b"", timeouts keep timing out). *)
Record sock := { buf : bytes; evs : list ev }.

(* _recv(): pop one event; data is appended on success *)
Definition recv (s : sock) : bool * sock :=
  match evs s with
  | [] => (false, s)
  | Fail :: t => (false, {| buf := buf s; evs := t |})
  | Chunk [] :: t => (false, {| buf := buf s; evs := t |})
  | Chunk d :: t => (true, {| buf := buf s ++ d; evs := t |})
  end.

(* SocketWrapper(sock): the constructor calls _recv() once *)
Definition sock_init (l : list ev) : sock := snd (recv {| buf := []; evs := l |}).

(* read(num): while len(buffer) < num: if not _recv(): return b"" *)
(* NB on failure the buffer keeps what was received so far *)
Fixpoint sock_read_aux (n : nat) (b : bytes) (l : list ev) : bytes * sock :=
  if Nat.leb n (length b) then (firstn n b, {| buf := skipn n b; evs := l |})
  else match l with
       | [] => ([], {| buf := b; evs := [] |})
       | Fail :: t => ([], {| buf := b; evs := t |})
       | Chunk [] :: t => ([], {| buf := b; evs := t |})
       | Chunk d :: t => sock_read_aux n (b ++ d) t
       end.
Definition sock_read (n : nat) (s : sock) : bytes * sock := sock_read_aux n (buf s) (evs s).

(* readline(): read(1) until LF or nothing *)
Fixpoint sock_readline_aux (fuel : nat) (line : bytes) (s : sock) : bytes * sock :=
  match fuel with
  | O => (line, s)
  | S f =>
    let '(d, s') := sock_read 1 s in
    match d with
    | [x] => if N.eqb x 10 then (line ++ [x], s') else sock_readline_aux f (line ++ [x]) s'
    | _ => (line, s')
    end
  end.

Fixpoint chunks (l : list ev) : bytes :=
  match l with [] => [] | Chunk d :: t => d ++ chunks t | Fail :: t => chunks t end.
(* the byte sequence the socket will ever deliver *)
Definition sock_abs (s : sock) : bytes := buf s ++ chunks (evs s).

Definition sock_readline (s : sock) : bytes * sock :=
  sock_readline_aux (S (length (sock_abs s))) [] s.

(* "all failures come after the last data" *)
Fixpoint tail_fail (l : list ev) : Prop :=
  match l with
  | [] => True
  | Chunk [] :: t => chunks t = [] /\ tail_fail t
  | Chunk _ :: t => tail_fail t
  | Fail :: t => chunks t = [] /\ tail_fail t
  end.

(* iterating a UBXReader built on SocketWrapper(sock) where sock.recv yields the results l *)
Definition sock_run {P} (parse : N -> bytes -> result P) (nmea_hdr : N -> bool) (c : cfg) (l : list ev) :=
  read_all sock_read sock_readline parse nmea_hdr c (S (length (chunks l))) (sock_init l).

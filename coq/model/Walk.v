(* Walk.v — UBXMessage._set_attribute* / _calc_num_repeats / _set_attribute_cfgval
   (ubxmessage.py) for both routes: payload given (parse) and keywords given (build).
   Definitions only. *)
From PyUbx Require Import Base Bytes PyFloat Types Strs.
From Coq Require Import Floats.SpecFloat.
Open Scope Z_scope.

Definition attrs := list (string * pyval).

(* object __dict__: assignment to an existing name keeps its position *)
Fixpoint upsert (k : string) (v : pyval) (a : attrs) : attrs :=
  match a with
  | [] => [(k, v)]
  | (k', v') :: t => if String.eqb k k' then (k, v) :: t else (k', v') :: upsert k v t
  end.

(* ---- arithmetic on attribute values ---- *)
Definition py_mul_scale (v : pyval) (s : scale) : result pyval :=
  match v, s with
  | PInt z, SInt k => Ok (PInt (z * k))
  | PInt z, SFloat b => do f <- py_float_of_int z; Ok (PFloat (fmul f (b64_of_bits b)))
  | PFloat f, SInt k => do g <- py_float_of_int k; Ok (PFloat (fmul f g))
  | PFloat f, SFloat b => Ok (PFloat (fmul f (b64_of_bits b)))
  | _, _ => Raise EType        (* sequence * number, then round() -> TypeError *)
  end.

Definition py_round12 (nd : Z) (v : pyval) : result pyval :=
  match v with
  | PInt z => Ok (PInt z)
  | PFloat f => do r <- py_round_nd nd f; Ok (PFloat r)
  | _ => Raise EType
  end.

Definition py_div_scale (v : pyval) (s : scale) : result fl :=
  match v, s with
  | PInt z, SInt k => int_truediv z k
  | PInt z, SFloat b => do f <- py_float_of_int z; fdiv f (b64_of_bits b)
  | PFloat f, SInt k => do g <- py_float_of_int k; fdiv f g
  | PFloat f, SFloat b => fdiv f (b64_of_bits b)
  | _, _ => Raise EType
  end.

Definition py_add (a b : pyval) : result pyval :=
  match a, b with
  | PInt x, PInt y => Ok (PInt (x + y))
  | PInt x, PFloat g => do f <- py_float_of_int x; Ok (PFloat (fadd f g))
  | PFloat f, PInt y => do g <- py_float_of_int y; Ok (PFloat (fadd f g))
  | PFloat f, PFloat g => Ok (PFloat (fadd f g))
  | _, _ => Raise EType        (* non-numeric sum, or a sequence that round() rejects *)
  end.

Definition truthy (v : pyval) : bool :=
  match v with
  | PInt z => negb (z =? 0)
  | PFloat f => negb (is_fzero f)
  | PBytes b | PStr b => match b with [] => false | _ => true end
  | PList l => match l with [] => false | _ => true end
  | PNone => false
  | POther => true
  end.

(* the keyword-route test `0 <= val < (1 << atts)` followed by `val << bfoffset` *)
Definition flag_value (v : pyval) (atts : Z) : result Z :=
  match v with
  | PInt z => if (0 <=? z) && (z <? 2 ^ atts) then Ok z else Raise EOverflow
  | PFloat f =>
      match fcompare_Z f 0, fcompare_Z f (2 ^ atts) with
      | Some Gt, Some Lt | Some Eq, Some Lt => Raise EType     (* in range, but float << int *)
      | _, _ => Raise EOverflow
      end
  | _ => Raise EType
  end.

(* The model is executable only up to a bound on group repeat counts: `budget` is a parameter of
   the walk; a group whose count exceeds it makes the model decline with EOther.  The real code has
   no such bound; theorems hold for every budget. *)

Section Walk.
Variable atttype : list (N * list kind).
Variable readonly_names : list string.
Variable cfgdb : list (string * (Z * aty)).
Variable storsize : list (Z * Z).
Variable scalround : Z.
(* the message being built *)
Variable cls id : bytes.
Variable mode : N.
Variable bf : bool.                            (* parsebitfield *)
Variable kw : option attrs.                    (* None: payload route; Some kw: keyword route *)
Variable budget : nat.

(* ghost instrumentation: what each primitive read from (or wrote to) the payload, newest first.
   It influences no result; it is what the C02 theorems talk about. *)
Inductive fkind :=
| FField (t : aty) (sc : option scale)                      (* _set_attribute_single *)
| FBits (t : aty) (flags : list (string * aty))             (* _set_attribute_bitfield, flags parsed *)
| FCfg (key : Z) (t : aty).                                 (* one key/value item of _set_attribute_cfgval *)
Record frec := { fr_base : string; fr_idx : list nat; fr_off : nat; fr_size : nat; fr_kind : fkind; fr_val : pyval }.

Record wst := { w_off : nat; w_pay : bytes; w_attrs : attrs; w_trace : list frec }.

Definition get_attr (s : wst) (n : string) : result pyval :=
  match assoc_s n (w_attrs s) with Some v => Ok v | None => Raise EAttribute end.

Definition set_attr (n : string) (v : pyval) (s : wst) : result wst :=
  if mem_s n readonly_names then Raise EAttribute
  else Ok {| w_off := w_off s; w_pay := w_pay s; w_attrs := upsert n v (w_attrs s); w_trace := w_trace s |}.

Definition kwget (k : attrs) (n : string) (dflt : pyval) : pyval :=
  match assoc_s n k with Some v => v | None => dflt end.

(* _set_attribute_single *)
Definition single (n : string) (t : aty) (sc : option scale) (idx : list nat) (s : wst) : result wst :=
  let name := (n ++ suffix idx)%string in
  do asiz <- match t with TCH => Ok (length (w_pay s)) | _ => attsiz_nat t end;
  do vp <-
    match kw with
    | None =>
        let valb := slice (w_pay s) (w_off s) asiz in
        do v0 <- bytes2val valb t;
        do v <- match sc with
                | None => Ok v0
                | Some k => do m <- py_mul_scale v0 k; py_round12 scalround m
                end;
        Ok (v, w_pay s)
    | Some k =>
        do nv <- nomval t;
        let v := kwget k name nv in
        do valb <- match sc with
                   | None => val2bytes atttype v t
                   | Some a => do q <- py_div_scale v a; do z <- py_int_of_float q;
                               val2bytes atttype (PInt z) t
                   end;
        Ok (v, (w_pay s ++ valb)%list)
    end;
  let '(v, pay) := vp in
  let s1 := {| w_off := w_off s; w_pay := pay; w_attrs := w_attrs s; w_trace := w_trace s |} in
  do s2 <-
    (if starts_with "_HP" name then
       let base := drop 3 name in
       do b <- get_attr s1 base; do sum <- py_add b v; do r <- py_round12 scalround sum;
       set_attr base r s1
     else set_attr name v s1);
  Ok {| w_off := (w_off s + asiz)%nat; w_pay := w_pay s2; w_attrs := w_attrs s2;
        w_trace := {| fr_base := n; fr_idx := idx; fr_off := w_off s; fr_size := asiz;
                      fr_kind := FField t sc; fr_val := v |} :: w_trace s2 |}.

(* _set_attribute_bits over all flags of a bitfield *)
Fixpoint bits_loop (flags : list (string * aty)) (idx : list nat) (bitfield : Z) (bfoff : Z) (s : wst)
  : result (Z * wst) :=
  match flags with
  | [] => Ok (bitfield, s)
  | (key, keyt) :: rest =>
    let keyr := (key ++ suffix idx)%string in
    do atts <- attsiz keyt;
    do vb <-
      match kw with
      | None => Ok (PInt (Z.land (Z.shiftr bitfield bfoff) (2 ^ atts - 1)), bitfield)
      | Some k =>
          let v := kwget k keyr (PInt 0) in
          do z <- flag_value v atts;
          Ok (v, Z.lor bitfield (Z.shiftl z bfoff))
      end;
    let '(v, bitfield') := vb in
    do s' <- (if starts_with "reserved" key then Ok s else set_attr keyr v s);
    bits_loop rest idx bitfield' (bfoff + atts) s'
  end.

(* _set_attribute_bitfield *)
Definition bitfield (t : aty) (flags : list (string * aty)) (idx : list nat) (s : wst) : result wst :=
  do bsiz <- attsiz_nat t;
  let init := match kw with
              | None => Z.of_N (uint_of_le (slice (w_pay s) (w_off s) bsiz))
              | Some _ => 0
              end in
  do r <- bits_loop flags idx init 0 s;
  let '(bfv, s') := r in
  do pay <- match kw with
            | None => Ok (w_pay s')
            | Some _ => do b <- int_enc false bsiz bfv; Ok ((w_pay s' ++ b)%list)
            end;
  Ok {| w_off := (w_off s + bsiz)%nat; w_pay := pay; w_attrs := w_attrs s';
        w_trace := {| fr_base := EmptyString; fr_idx := idx; fr_off := w_off s; fr_size := bsiz;
                      fr_kind := FBits t flags; fr_val := PInt bfv |} :: w_trace s' |}.

(* cfgkey2name *)
Fixpoint cfg_find (key : Z) (db : list (string * (Z * aty))) : option (string * aty) :=
  match db with
  | [] => None
  | (name, (kid, t)) :: rest => if key =? kid then Some (name, t) else cfg_find key rest
  end.
Fixpoint assoc_Z (k : Z) (l : list (Z * Z)) : option Z :=
  match l with [] => None | (k', v) :: t => if k =? k' then Some v else assoc_Z k t end.

(* most significant hexadecimal digit of a non-negative key (hex(keyid)[2:3]) *)
Definition top_hex_digit (key : Z) : Z :=
  let n := Z.to_N key in
  Z.of_N (N.shiftr n (4 * ((N.size n - 1) / 4)))%N.

Definition cfgkey2name (key : Z) : result (string * aty) :=
  match cfg_find key cfgdb with
  | Some r => Ok r
  | None =>
    if key <? 0 then Raise EValue                      (* int("-") *)
    else
      let d := top_hex_digit key in
      if 9 <? d then Raise EValue                     (* int("a") .. int("f") *)
      else match assoc_Z d storsize with
           | None => Raise EUBXMessage                (* KeyError -> UBXMessageError *)
           | Some n => Ok (("CFG_0x" ++ hex_of_N (Z.to_N key))%string, T lX (Some (Z.to_nat n)))
           end
  end.

(* _set_attribute_cfgval (payload route): `while offset < cfglen` *)
Fixpoint cfgval_loop (fuel : nat) (off : nat) (cfglen : nat) (s : wst) : result wst :=
  match fuel with
  | O => Raise EOther
  | S f =>
    if Nat.ltb off cfglen then
      let key := Z.of_N (uint_of_le (slice (w_pay s) off 4)) in
      do na <- cfgkey2name key;
      let '(name, t) := na in
      do atts <- attsiz_nat t;
      do v <- bytes2val (slice (w_pay s) (off + 4) atts) t;
      do s1 <- set_attr name v s;
      let s' := {| w_off := w_off s1; w_pay := w_pay s1; w_attrs := w_attrs s1;
                   w_trace := {| fr_base := name; fr_idx := []; fr_off := off; fr_size := (4 + atts)%nat;
                                 fr_kind := FCfg key t; fr_val := v |} :: w_trace s1 |} in
      cfgval_loop f (off + 4 + atts)%nat cfglen s'
    else Ok s
  end.

Definition is_cfgval : bool :=
  beq cls [6%N] && ((beq id [139%N] && (mode =? 0)%N) || (beq id [138%N] && (mode =? 1)%N)).
Definition is_esfmeas_set : bool := beq cls [16%N] && beq id [2%N] && (mode =? 1)%N.

(* one member's contribution to lengroup in _calc_num_repeats *)
Definition member_size (d : adef) : result Z :=
  match d with
  | ASingle _ t => attsiz t
  | AScaled _ _ _ => Raise EType                 (* attsiz(list) *)
  | ABits _ t _ => attsiz t
  | AGroup _ (RFixed _) _ => Raise EType         (* attsiz(int) *)
  | AGroup _ _ _ => Raise EValue                 (* int(name[1:4]) *)
  end.
Fixpoint lengroup (body : list adef) : result Z :=
  match body with [] => Ok 0 | d :: t => do a <- member_size d; do b <- lengroup t; Ok (a + b) end.

(* number of repeats of a group *)
Definition count (r : rep) (body : list adef) (s : wst) : result Z :=
  match r with
  | RFixed n => Ok n
  | RVar =>
      do lg <- lengroup body;
      if lg =? 0 then Raise EZeroDiv
      else Ok (Z.quot (Z.of_nat (length (w_pay s)) - Z.of_nat (w_off s)) lg)
  | RNamed a =>
      do g <- get_attr s a;
      do g' <- (if is_esfmeas_set then
                  if truthy (match assoc_s "calibTtagValid" (w_attrs s) with Some v => v | None => PInt 0 end)
                  then match g with
                       | PInt z => Ok (PInt (z + 1))
                       | PFloat f => Ok (PFloat f)        (* float + 1: still not an int *)
                       | _ => Raise EType
                       end
                  else Ok g
                else Ok g);
      match g' with PInt z => Ok z | _ => Raise EType end    (* range(non-int) *)
  end.

(* _set_attribute / _set_attribute_group *)
Fixpoint walk (idx : list nat) (d : adef) (s : wst) {struct d} : result wst :=
  match d with
  | ASingle n t => single n t None idx s
  | AScaled n t sc => single n t (Some sc) idx s
  | ABits n t flags => if bf then bitfield t flags idx s else single n t None idx s
  | AGroup n r body =>
      if is_cfgval then
        match kw with
        | Some _ => Raise EUBXMessage
        | None =>
            (* cfglen = len(payload[offset:]); the caller's offset is not advanced *)
            do s' <- cfgval_loop (S (length (w_pay s))) (w_off s) (length (w_pay s) - w_off s) s;
            Ok {| w_off := w_off s; w_pay := w_pay s'; w_attrs := w_attrs s'; w_trace := w_trace s' |}
        end
      else
        let walk_list :=
          (fix walk_list (ds : list adef) (idx' : list nat) (s0 : wst) : result wst :=
             match ds with
             | [] => Ok s0
             | d' :: t => match walk idx' d' s0 with Ok s1 => walk_list t idx' s1 | Raise e => Raise e end
             end) in
        match count r body s with
        | Raise e => Raise e
        | Ok c =>
          if Z.of_nat budget <? c then Raise EOther else
          (fix rep_loop (fuel : nat) (i : Z) (s0 : wst) : result wst :=
             match fuel with
             | O => Raise EOther
             | S f =>
               if c <? i then Ok s0
               else match walk_list body (idx ++ [Z.to_nat i])%list s0 with
                    | Ok s1 => rep_loop f (i + 1) s1
                    | Raise e => Raise e
                    end
             end) budget 1 s
        end
  end.

Fixpoint walk_list (ds : list adef) (idx : list nat) (s : wst) : result wst :=
  match ds with
  | [] => Ok s
  | d :: t => match walk idx d s with Ok s1 => walk_list t idx s1 | Raise e => Raise e end
  end.

End Walk.

(* C02_src — the part of C02's model that is hand-written, tied to /repo's source by translation. Statements only. *)
From PyUbx Require Import Base Bytes Fletcher Frame Types Strs Walk Consts Tables Msg.
(* ==== tie to the source by translation (harness/py2coq.py -> gen/PySrc.v, regenerated from /repo on every run) ====
   `translated` lists the functions the translator could handle on this run; for a function that is not in it the
   statement is empty and the tie is the correspondence check alone (the harness reports which). *)
From Coq Require Import ZArith List String.
From PyUbx Require Import Strs PyMini PySrc Src_common Src_selectors.

(* every row of VARIANTS: the source's selector function, called the way _get_dict calls it (with (msg, mode) for
   class 0x13, keywords only otherwise; KeyError turned into UBXMessageError), returns for EVERY keyword set /
   payload the definition the model's selector returns *)
Theorem C02_selectors_from_source : Forall agree_entry variants.
Proof. exact selectors_agree. Qed.
Print Assumptions C02_selectors_from_source.

(* C02_src — the part of C02's model that is hand-written, tied to /repo's source by translation. Statements only. *)
From PyUbx Require Import Base Bytes Fletcher Frame Types Strs Walk Consts Tables Msg.
(* ==== tie to the source by translation (harness/py2coq.py -> gen/PySrc.v, regenerated from /repo on every run) ====
   `translated` lists the functions the translator could handle on this run; for a function that is not in it the
   statement is empty and the tie is the correspondence check alone (the harness reports which). *)
From Coq Require Import ZArith List String.
From PyUbx Require Import Strs PyMini PySrc Src_common Src_selectors Src_getdict Src_identity.

(* every row of VARIANTS: the source's selector function, called the way _get_dict calls it (with (msg, mode) for
   class 0x13, keywords only otherwise; KeyError turned into UBXMessageError), returns for EVERY keyword set /
   payload the definition the model's selector returns *)
Theorem C02_selectors_from_source : Forall agree_entry variants.
Proof. exact selectors_agree. Qed.
Print Assumptions C02_selectors_from_source.

(* _get_dict as the source has it now (the VARIANTS lookup, the class-0x13 calling convention, the three table
   lookups by identity, the NOMINAL test, `except KeyError`) is the model's get_dict — for every class, id, mode,
   keyword set and payload whose identity string is ASCII (every name in the tables is: the translator refuses
   others; the NOMINAL name is class name + hex digits), provided every selector VARIANTS names was translated *)
Theorem C02_get_dict_from_source : mem_s "py_get_dict" translated = true ->
  forallb (fun v => mem_s (snd v) py_selectors) variants = true ->
  forall cls id mode k pay,
  mode_ok mode = true ->
  forallb (fun c => (c <? 128)%N) (bytes_of_string (identity cls id (Some pay))) = true ->
  to_def (py_get_dict (gint (Z.of_N mode)) (gbytes cls) (gbytes id) (gstr (identity cls id (Some pay))) k)
  = get_dict cls id mode k pay.
Proof. exact get_dict_agree. Qed.
Print Assumptions C02_get_dict_from_source.

(* the premises are met: NAV-PVT (plain lookup), MGA-GPS-EPH (selector called with msg and mode), an unknown id *)
Example C02_get_dict_premises :
  forallb (fun v => mem_s (snd v) py_selectors) variants = true /\
  forallb (fun c => (c <? 128)%N) (bytes_of_string (identity [1%N] [7%N] (Some []))) = true /\
  forallb (fun c => (c <? 128)%N) (bytes_of_string (identity [19%N] [0%N] (Some [1%N]))) = true /\
  forallb (fun c => (c <? 128)%N) (bytes_of_string (identity [119%N] [3%N] (Some []))) = true.
Proof. vm_compute. repeat split. Qed.

(* the identity property as the source has it now (class 0x13 keyed by the first payload byte, the fall-back name built
   from the class name and two hex fields after `except KeyError`) is the model's identity, for every class, id and
   payload (or none) *)
Theorem C02_identity_from_source : mem_s "py_identity" translated = true ->
  forall (p : option bytes) cls id,
  py_identity (optg p) (gbytes cls) (gbytes id) = Ok (Tup [gstr (identity cls id p); Tup []; Tup []]).
Proof. exact identity_agree. Qed.
Print Assumptions C02_identity_from_source.

(* C10 — reader output does not depend on how the transport chunks the bytes. *)
From PyUbx Require Import Base Bytes Reader Socket Reader_generic Reader_file Socket_lemmas.
Open Scope nat_scope.

(* read(n) returns exactly the next n bytes of the stream the socket will deliver, or nothing
   (the pending bytes are kept, and no more data will arrive) *)
Theorem C10_read_exact : forall n s d s',
  tail_fail (evs s) -> sock_read n s = (d, s') ->
  tail_fail (evs s') /\
  ((n <= length (sock_abs s) /\ d = firstn n (sock_abs s) /\ sock_abs s' = skipn n (sock_abs s))
   \/ (length (sock_abs s) < n /\ d = [] /\ sock_abs s' = sock_abs s /\ chunks (evs s') = [])).
Proof. exact sock_read_spec. Qed.
Print Assumptions C10_read_exact.

(* readline() returns the bytes up to and including the next LF (or all that is left) *)
Theorem C10_readline : forall s d s',
  tail_fail (evs s) -> sock_readline s = (d, s') ->
  tail_fail (evs s') /\ (d, sock_abs s') = split_line (sock_abs s).
Proof. exact sock_readline_spec. Qed.
Print Assumptions C10_readline.

(* for every segmentation of the byte sequence into non-empty recv() results (hence every
   bufsize), followed by any sequence of closes (b"") / timeouts / OSErrors, for every reader
   configuration and parser behaviour: the same items as from a file holding the bytes *)
Theorem C10_refines_file : forall (P : Type) (parse : N -> bytes -> result P) nmea_hdr c cs ends,
  Forall (fun d => d <> []) cs -> Forall is_end ends ->
  items (sock_run parse nmea_hdr c (seg_events cs ends)) = items (file_read_all parse nmea_hdr c (concat cs)).
Proof. exact @c10_refines_file. Qed.
Print Assumptions C10_refines_file.

Theorem C10_refines_file_gen : forall (P : Type) (parse : N -> bytes -> result P) nmea_hdr c l,
  tail_fail l ->
  items (sock_run parse nmea_hdr c l) = items (file_read_all parse nmea_hdr c (chunks l)).
Proof. exact @c10_refines_file_gen. Qed.
Print Assumptions C10_refines_file_gen.

(* C07 — the reader neither invents, duplicates, reorders nor abandons stream bytes.
   For every byte string, every configuration and every behaviour of the three protocol
   parsers (they are parameters).  Statements only. *)
From PyUbx Require Import Base Bytes Reader Socket Reader_generic Reader_file Socket_lemmas.
Open Scope N_scope.

(* the raw items are non-overlapping slices of the input, in input order, and each begins
   with a UBX, NMEA or RTCM3 preamble byte *)
Theorem C07_slices : forall (P : Type) (parse : N -> bytes -> result P) (nmea_hdr : N -> bool) c s,
  slices (map fst (items (file_read_all parse nmea_hdr c s))) s /\
  Forall first_is_preamble (map fst (items (file_read_all parse nmea_hdr c s))).
Proof. exact @c07_slices. Qed.
Print Assumptions C07_slices.

(* each raw item begins with a complete preamble: b5 62, "$" + an NMEA talker byte, or d3 + a byte whose six
   high bits are zero (protocol raw is 1, 2 or 4, never 0) *)
Theorem C07_preambles : forall (P : Type) (parse : N -> bytes -> result P) (nmea_hdr : N -> bool) c s,
  Forall (fun it => let p := protocol nmea_hdr (fst it) in p = 1 \/ p = 2 \/ p = 4)
         (items (file_read_all parse nmea_hdr c s)).
Proof. exact @c07_preambles. Qed.
Print Assumptions C07_preambles.

(* with errors not raised, iteration ends only when nothing is left unread *)
Theorem C07_eof_exact : forall (P : Type) (parse : N -> bytes -> result P) (nmea_hdr : N -> bool) c s,
  parse_protocol_only parse -> quitonerror c <> 2 ->
  raised (file_read_all parse nmea_hdr c s) = None /\ final (file_read_all parse nmea_hdr c s) = [].
Proof. exact @c07_eof_exact. Qed.
Print Assumptions C07_eof_exact.

(* the iteration always terminates within |s|+1 loop iterations *)
Theorem C07_terminates : forall (P : Type) (parse : N -> bytes -> result P) (nmea_hdr : N -> bool) c s,
  out_of_fuel (file_read_all parse nmea_hdr c s) = false.
Proof. exact @c08_read_terminates. Qed.
Print Assumptions C07_terminates.

(* through a SOCKET (any recv() schedule whose failures come after the last data): the raw items are slices, in
   order, of the byte sequence the socket delivers, each beginning with a preamble, and iteration ends *)
Theorem C07_slices_socket : forall (P : Type) (parse : N -> bytes -> result P) (nmea_hdr : N -> bool) c l,
  tail_fail l ->
  slices (map fst (items (sock_run parse nmea_hdr c l))) (chunks l) /\
  Forall first_is_preamble (map fst (items (sock_run parse nmea_hdr c l))) /\
  out_of_fuel (sock_run parse nmea_hdr c l) = false.
Proof.
  intros P parse nmea_hdr c l Ht. rewrite (c10_refines_file_gen parse nmea_hdr c l Ht).
  destruct (@c07_slices P parse nmea_hdr c (chunks l)) as [H1 H2].
  split; [exact H1|]. split; [exact H2|]. exact (c08_sock_terminates parse nmea_hdr c l Ht).
Qed.
Print Assumptions C07_slices_socket.

(* C11 — protfilter and parsing flags only filter; they never change what is framed. *)
From PyUbx Require Import Base Bytes Reader Reader_generic Reader_file Reader_any.
Open Scope N_scope.

Theorem C11_filter : forall (P : Type) (parse : N -> bytes -> result P) (nmea_hdr : N -> bool) c F s,
  parse_protocol_only parse -> quitonerror c <> 2 ->
  items (file_read_all parse nmea_hdr (withpf c F) s) =
  filter (fun it => negb (N.land F (protocol nmea_hdr (fst it)) =? 0))
         (items (file_read_all parse nmea_hdr (withpf c 7) s)).
Proof. exact @c11_filter. Qed.
Print Assumptions C11_filter.

(* parsing=False: over a stream whose framed candidates are all accepted by their parsers the
   raw sequence is the same and every parsed value is None *)
Theorem C11_parsing_off : forall (P : Type) (parse : N -> bytes -> result P) (nmea_hdr : N -> bool) c s,
  Forall (fun x => match fst x with
                   | TFrame p raw => passes c p = true -> exists v, parse p raw = Ok v
                   | _ => True end) (events nmea_hdr s) ->
  map fst (items (file_read_all parse nmea_hdr (withparsing c false) s)) =
  map fst (items (file_read_all parse nmea_hdr (withparsing c true) s)) /\
  Forall (fun it => snd it = None) (items (file_read_all parse nmea_hdr (withparsing c false) s)).
Proof. exact @c11_parsing_off. Qed.
Print Assumptions C11_parsing_off.

(* THE SAME FOR EVERY STREAM IMPLEMENTATION whose read(n) never returns more than n bytes (file, socket wrapper, a
   serial port with short reads while data follows, ...), any state type, any fuel *)
Theorem C11_filter_any_stream : forall (S P : Type) (rd : nat -> S -> bytes * S) (rdl : S -> bytes * S)
    (parse : N -> bytes -> result P) (nmea_hdr : N -> bool) c F fuel s,
  (forall n s, (length (fst (rd n s)) <= n)%nat) ->
  parse_protocol_only parse -> quitonerror c <> 2 ->
  items (read_all rd rdl parse nmea_hdr (withpf c F) fuel s) =
  filter (fun it => negb (N.land F (protocol nmea_hdr (fst it)) =? 0))
         (items (read_all rd rdl parse nmea_hdr (withpf c 7) fuel s)).
Proof. exact @c11_filter_any_stream. Qed.
Print Assumptions C11_filter_any_stream.

Theorem C11_parsing_off_any_stream : forall (S P : Type) (rd : nat -> S -> bytes * S) (rdl : S -> bytes * S)
    (parse : N -> bytes -> result P) (nmea_hdr : N -> bool) c fuel s,
  Forall (fun x => match fst x with
                   | TFrame p raw => passes c p = true -> exists v, parse p raw = Ok v
                   | _ => True end) (fst (trace rd rdl nmea_hdr fuel s)) ->
  map fst (items (read_all rd rdl parse nmea_hdr (withparsing c false) fuel s)) =
  map fst (items (read_all rd rdl parse nmea_hdr (withparsing c true) fuel s)) /\
  Forall (fun it => snd it = None) (items (read_all rd rdl parse nmea_hdr (withparsing c false) fuel s)).
Proof. exact @c11_parsing_off_any. Qed.
Print Assumptions C11_parsing_off_any_stream.

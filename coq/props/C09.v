(* C09 — a stream cut at any byte yields a prefix of the uncut stream's output. *)
From PyUbx Require Import Base Bytes Reader Socket Reader_generic Reader_file Reader_props Socket_lemmas.
Open Scope N_scope.

Theorem C09_prefix : forall (P : Type) (parse : N -> bytes -> result P) (nmea_hdr : N -> bool) c s k,
  parse_protocol_only parse -> quitonerror c <> 2 ->
  prefix (items (file_read_all parse nmea_hdr c (firstn k s))) (items (file_read_all parse nmea_hdr c s)).
Proof. exact @c09_prefix. Qed.
Print Assumptions C09_prefix.

(* ... ends without raising, with nothing left unread *)
Theorem C09_no_raise : forall (P : Type) (parse : N -> bytes -> result P) (nmea_hdr : N -> bool) c s k,
  parse_protocol_only parse -> quitonerror c <> 2 ->
  raised (file_read_all parse nmea_hdr c (firstn k s)) = None /\
  final (file_read_all parse nmea_hdr c (firstn k s)) = [] /\
  out_of_fuel (file_read_all parse nmea_hdr c (firstn k s)) = false.
Proof. exact c09_no_raise. Qed.
Print Assumptions C09_no_raise.

(* never a partially received frame: every delivered raw is one the uncut run delivers too
   (immediate from C09_prefix; stated for the reader of the property text) *)
Theorem C09_no_partial : forall (P : Type) (parse : N -> bytes -> result P) (nmea_hdr : N -> bool) c s k it,
  parse_protocol_only parse -> quitonerror c <> 2 ->
  In it (items (file_read_all parse nmea_hdr c (firstn k s))) -> In it (items (file_read_all parse nmea_hdr c s)).
Proof. exact c09_no_partial. Qed.
Print Assumptions C09_no_partial.

(* clean streams: every frame lying wholly before the cut is delivered *)
Theorem C09_clean : forall (P : Type) (parse : N -> bytes -> result P) (nmea_hdr : N -> bool) c cs1 cs2 k,
  Forall (wf_chunk nmea_hdr) cs1 -> parse_protocol_only parse -> quitonerror c <> 2 ->
  (length (flatten cs1) <= k)%nat ->
  prefix (deliver_all parse c cs1) (items (file_read_all parse nmea_hdr c (firstn k (flatten (cs1 ++ cs2))))).
Proof. exact @c09_clean. Qed.
Print Assumptions C09_clean.

(* the cut stream arriving through a SOCKET (any segmentation into recv() results, any bufsize, then close / timeout /
   OSError): still a prefix of what the uncut stream yields from a file, and the iteration ends *)
Theorem C09_prefix_socket : forall (P : Type) (parse : N -> bytes -> result P) (nmea_hdr : N -> bool) c s k l,
  parse_protocol_only parse -> quitonerror c <> 2 -> tail_fail l -> chunks l = firstn k s ->
  prefix (items (sock_run parse nmea_hdr c l)) (items (file_read_all parse nmea_hdr c s)) /\
  out_of_fuel (sock_run parse nmea_hdr c l) = false.
Proof.
  intros P parse nmea_hdr c s k l Hp Hq Ht Hc. split.
  - rewrite (c10_refines_file_gen parse nmea_hdr c l Ht), Hc. exact (@c09_prefix P parse nmea_hdr c s k Hp Hq).
  - exact (c08_sock_terminates parse nmea_hdr c l Ht).
Qed.
Print Assumptions C09_prefix_socket.

(* C06 — the stream reader delivers every well-formed frame, in order, typed by protocol. *)
From PyUbx Require Import Base Bytes Reader Socket Reader_generic Reader_file Reader_props Socket_lemmas Read_iter.
From Coq Require Import List.
Open Scope N_scope.

(* For a stream made of frames of the three protocols (UBX with any checksum bytes, NMEA
   sentences, RTCM3 frames of any size including zero) and noise free of b5/24/d3, the reader
   yields exactly, in order, (raw, parser result) for each frame its parser accepts and its
   protocol passes the filter; rejected frames are skipped without disturbing what follows;
   then iteration ends with nothing unread. *)
Theorem C06_clean : forall (P : Type) (parse : N -> bytes -> result P) (nmea_hdr : N -> bool) c cs,
  Forall (wf_chunk nmea_hdr) cs -> parse_protocol_only parse -> quitonerror c <> 2 ->
  items (file_read_all parse nmea_hdr c (flatten cs)) = deliver_all parse c cs /\
  raised (file_read_all parse nmea_hdr c (flatten cs)) = None /\
  final (file_read_all parse nmea_hdr c (flatten cs)) = [].
Proof. exact @c06_clean. Qed.
Print Assumptions C06_clean.

(* a rejected frame changes nothing after it: deliver_all is a concatenation per chunk *)
Theorem C06_reject_skips : forall (P : Type) (parse : N -> bytes -> result P) c a ch b,
  deliver parse c ch = [] -> deliver_all parse c (a ++ ch :: b) = deliver_all parse c (a ++ b).
Proof. exact c06_reject_skips. Qed.
Print Assumptions C06_reject_skips.

(* non-vacuity: a concrete mixed stream satisfies the hypotheses *)
Example C06_nonvacuous :
  Forall (wf_chunk (fun b => (b =? 71) || (b =? 80)))
    [CUbx 1 2 [] [3; 10]; CNoise [0; 255]; CNmea 71 [78; 71]; CRtcm 0 0 [] [71; 234; 75]; CRtcm 0 2 [5; 6] [1; 2; 3]].
Proof. exact c06_nonvacuous. Qed.

(* the same stream arriving through a SOCKET, for every segmentation into recv() results (hence every bufsize),
   followed by any closes / timeouts / OSErrors: exactly the same items *)
Theorem C06_clean_socket : forall (P : Type) (parse : N -> bytes -> result P) (nmea_hdr : N -> bool) c cs l,
  Forall (wf_chunk nmea_hdr) cs -> parse_protocol_only parse -> quitonerror c <> 2 ->
  tail_fail l -> chunks l = flatten cs ->
  items (sock_run parse nmea_hdr c l) = deliver_all parse c cs.
Proof.
  intros P parse nmea_hdr c cs l Hw Hp Hq Ht Hc.
  rewrite (c10_refines_file_gen parse nmea_hdr c l Ht), Hc.
  exact (proj1 (@c06_clean P parse nmea_hdr c cs Hw Hp Hq)).
Qed.
Print Assumptions C06_clean_socket.

(* a reader that has reported the end of its data and is polled again after whole frames were appended delivers, in
   the two passes together, exactly what one pass over the whole stream delivers (the reader keeps no state besides
   the stream position: reading the appended part is reading a stream of its own) *)
Theorem C06_clean_appended : forall (P : Type) (parse : N -> bytes -> result P) (nmea_hdr : N -> bool) c cs1 cs2,
  Forall (wf_chunk nmea_hdr) cs1 -> Forall (wf_chunk nmea_hdr) cs2 -> parse_protocol_only parse -> quitonerror c <> 2 ->
  items (file_read_all parse nmea_hdr c (flatten (cs1 ++ cs2))) =
  items (file_read_all parse nmea_hdr c (flatten cs1)) ++ items (file_read_all parse nmea_hdr c (flatten cs2)).
Proof.
  intros P parse nmea_hdr c cs1 cs2 H1 H2 Hp Hq.
  rewrite (proj1 (@c06_clean P parse nmea_hdr c (cs1 ++ cs2) (proj2 (Forall_app _ _ _) (conj H1 H2)) Hp Hq)).
  rewrite (proj1 (@c06_clean P parse nmea_hdr c cs1 H1 Hp Hq)), (proj1 (@c06_clean P parse nmea_hdr c cs2 H2 Hp Hq)).
  clear. induction cs1 as [|ch t IH]; [reflexivity|]. cbn [app deliver_all]. now rewrite IH, app_assoc.
Qed.
Print Assumptions C06_clean_appended.

(* iterating read() - what __next__ does until read() reports the end - IS read_all: one call is `read1` (iterate `step`
   until something is delivered, the stream ends or an exception leaves; its reports, oldest first; the iteration bound it
   leaves), and read_all is the sequence of such calls.  Together with C06_read_from_source (the source's read() computes
   read_one = read1 with the reports accumulated the other way round, Read_iter.read_one_read1) this is what connects
   every theorem about read_all to the source of read(). *)
Theorem C06_read_all_is_iteration : forall (S P : Type) (rd : nat -> S -> bytes * S) (rdl : S -> bytes * S)
    (parse : N -> bytes -> result P) (nmea_hdr : N -> bool) (c : cfg) (n fuel : nat) (s : S),
  (fuel <= n)%nat ->
  read_all rd rdl parse nmea_hdr c fuel s = Read_iter.reads rd rdl parse nmea_hdr c (Datatypes.S n) fuel s.
Proof. exact (@Read_iter.read_all_is_iteration). Qed.
Print Assumptions C06_read_all_is_iteration.

Theorem C06_read_one_read1 : forall (S P : Type) (rd : nat -> S -> bytes * S) (rdl : S -> bytes * S)
    (parse : N -> bytes -> result P) (nmea_hdr : N -> bool) (c : cfg) (fuel : nat) (s : S) (acc : list exn),
  Read_iter.read_one rd rdl parse nmea_hdr c fuel s acc =
  let '(r, s', l, _) := Read_iter.read1 rd rdl parse nmea_hdr c fuel s in (r, s', (rev l ++ acc)%list).
Proof. exact (@Read_iter.read_one_read1). Qed.
Print Assumptions C06_read_one_read1.


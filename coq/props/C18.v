(* C18 — scalar encodings and helper conversions are exact inverses over their domain. *)
From PyUbx Require Import Base Bytes PyFloat Types Strs Fletcher Helpers Consts Bytes_lemmas Fletcher_lemmas Codec_lemmas Helper_lemmas R4_lemmas Scaled_bound Sphp_lemmas.
From Coq Require Import Reals.
From Flocq Require Import Core.Core.
Open Scope Z_scope.

(* integer types E, I, L, U of EVERY width (not only those in ubxtypes_core): every in-range value
   encodes to exactly w bytes and decodes back to itself *)
Theorem C18_int_rt : forall l w z, is_int_letter l = true -> (0 < w)%nat -> in_range (l =? lI)%N w z ->
  exists bs, v2b (PInt z) (T l (Some w)) = Ok bs /\ length bs = w /\ bytes2val bs (T l (Some w)) = Ok (PInt z).
Proof. exact c18_int_rt. Qed.
Print Assumptions C18_int_rt.

(* values outside the range are refused (OverflowError, which the constructor turns into UBXTypeError) *)
Theorem C18_int_refuse : forall l w z, is_int_letter l = true -> (0 < w)%nat -> ~ in_range (l =? lI)%N w z ->
  v2b (PInt z) (T l (Some w)) = Raise EOverflow.
Proof. exact c18_int_refuse. Qed.
Print Assumptions C18_int_refuse.

(* every byte string decodes to a value that encodes back to the same bytes *)
Theorem C18_bytes_rt : forall l bs, is_int_letter l = true -> wfb bs -> bs <> [] ->
  exists z, bytes2val bs (T l (Some (length bs))) = Ok (PInt z) /\ v2b (PInt z) (T l (Some (length bs))) = Ok bs.
Proof. exact c18_bytes_rt. Qed.
Print Assumptions C18_bytes_rt.

Theorem C18_x_rt : forall bs, bytes2val bs (T lX (Some (length bs))) = Ok (PBytes bs) /\
                              v2b (PBytes bs) (T lX (Some (length bs))) = Ok bs.
Proof. exact c18_x_rt. Qed.
Print Assumptions C18_x_rt.
Theorem C18_x_refuse : forall bs w, length bs <> w -> v2b (PBytes bs) (T lX (Some w)) = Raise EValue.
Proof. exact c18_x_refuse. Qed.
Print Assumptions C18_x_refuse.
Theorem C18_c_rt : forall bs w, bytes2val bs (T lC (Some w)) = Ok (PBytes bs) /\ v2b (PBytes bs) (T lC (Some w)) = Ok bs.
Proof. exact c18_c_rt. Qed.
Print Assumptions C18_c_rt.

(* nomval yields the value whose encoding is all zero bytes, of the type's width *)
Theorem C18_nomval : forall l w,
  (is_int_letter l = true \/ l = lX \/ l = lC \/ l = lA \/ (l = lR /\ (w = 4 \/ w = 8)%nat)) ->
  exists v, nomval (T l (Some w)) = Ok v /\ v2b v (T l (Some w)) = Ok (zeros w).
Proof. exact c18_nomval. Qed.
Print Assumptions C18_nomval.

(* R8: unpack/pack is the identity on all 2^64 bit patterns except NaNs with a non-canonical payload *)
Theorem C18_r8_bits_rt : forall b, 0 <= b < 2 ^ 64 -> canonical_nan_or_not_nan b -> bits_of_b64 (b64_of_bits b) = b.
Proof. exact r8_bits_rt. Qed.
Print Assumptions C18_r8_bits_rt.

(* R4 (single precision): struct.unpack("<f") then struct.pack("<f") is the identity on every 32-bit pattern that is
   not a NaN: the widening to double is exact and the rounding back to single is exact on a value that came from
   32 bits.  Through Flocq (both conversions are its correctly rounded binary_round); axioms: the four real-number
   axioms of the standard library. *)
Theorem C18_r4_bits_rt : forall b, 0 <= b < 2 ^ 32 -> not_nan32 b ->
  exists g, b32_round (b64_of_b32 (b32_of_bits b)) = Ok g /\ bits_of_b32 g = b.
Proof. exact r4_bits_rt. Qed.
Print Assumptions C18_r4_bits_rt.

(* ... and at the codec: bytes2val on an R4 field, then val2bytes' single-precision branch, gives back the 4 bytes *)
Theorem C18_r4_codec_rt : forall bs, wfb bs -> length bs = 4%nat -> not_nan32 (Z.of_N (uint_of_le bs)) ->
  exists f, bytes2val bs (T lR (Some 4%nat)) = Ok (PFloat f) /\
            (exists g, b32_round f = Ok g /\ enc_le 4 (Z.to_N (bits_of_b32 g)) = bs).
Proof. exact r4_codec_rt. Qed.
Print Assumptions C18_r4_codec_rt.

(* calc_checksum is the 8-bit Fletcher definition (closed-form sums mod 256), for every byte string *)
Theorem C18_fletcher_spec : forall bs, fletcher bs = fletcher_spec bs.
Proof. exact fletcher_is_spec. Qed.
Print Assumptions C18_fletcher_spec.

Theorem C18_isvalid : forall m, isvalid_checksum m = true <->
  pyslice m (Z.of_nat (length m) - 2) (Z.of_nat (length m)) = fletcher_spec (pyslice m 2 (Z.of_nat (length m) - 2)).
Proof. exact c18_isvalid. Qed.
Print Assumptions C18_isvalid.

(* get_bits, for every non-empty bitfield and non-zero mask: (big-endian value >> ctz mask) & (mask >> ctz mask) *)
Theorem C18_get_bits : forall bf p, bf <> [] ->
  exists m i, Npos p = N.shiftl (Npos m) i /\ N.testbit (Npos m) 0 = true /\
    get_bits bf (Npos p) = Some (Ok (N.land (N.shiftr (dec_be bf) i) (N.shiftr (Npos p) i))).
Proof. exact c18_get_bits. Qed.
Print Assumptions C18_get_bits.

(* att2name / att2idx invert the suffixing the message walk applies (f"_{i:02d}" per group level): for every base name
   without '_' and every list of repeat indices >= 1 (any nesting depth, any magnitude - 3 or more digits included) *)
Theorem C18_att2name : forall base idx, no_us base -> all_pos idx -> att2name (base ++ suffix idx)%string = base.
Proof. exact att2name_suffix. Qed.
Print Assumptions C18_att2name.

Theorem C18_att2idx : forall base idx, no_us base -> all_pos idx ->
  att2idx (base ++ suffix idx)%string =
  match idx with
  | [] => IdxNone                        (* 0: not grouped *)
  | [i] => IdxOne (N.of_nat i)           (* one level: the integer *)
  | _ => IdxMany (map N.of_nat idx)      (* nested: the tuple *)
  end.
Proof. exact att2idx_suffix. Qed.
Print Assumptions C18_att2idx.

Example C18_att2idx_example : att2idx "gsid_03_104" = IdxMany [3; 104]%N /\ att2name "gsid_03_104" = "gsid"%string.
Proof. split; vm_compute; reflexivity. Qed.

(* val2sphp(val, scale) = (sp, hp): for every finite val and non-zero finite scale whose quotient fits 53 bits, sp is
   the truncated (correctly rounded) quotient, sp + hp/100 reproduces the quotient to within half a high-precision
   unit (0.005, plus 1e-12 of rounding noise), and |hp| <= 100.  Flocq; axioms: the four real-number axioms. *)
Theorem C18_val2sphp : forall v sc sp hp,
  fin v -> fin sc -> val2sphp v sc = Ok (sp, hp) -> Z.abs sp < 2 ^ 53 ->
  exists q, fdiv v sc = Ok q /\ sp = Ztrunc (R_of q) /\
            (Rabs (R_of q - IZR sp - IZR hp / 100) <= 5 / 1000 + / 1000000000000)%R /\ Z.abs hp <= 100.
Proof. exact val2sphp_consistent. Qed.
Print Assumptions C18_val2sphp.

Example C18_val2sphp_example :   (* 48.123456789 / 1e-7 -> (481234567, 89) *)
  val2sphp (b64_of_bits 4631969591748959410) (b64_of_bits 4502148214488346440) = Ok (481234567, 89).
Proof. vm_compute. reflexivity. Qed.

(* C17 — SETPOLL mode resolves every input message to its true mode. *)
From PyUbx Require Import Base Bytes Frame Types Strs Walk Consts Tables Msg WfDef Table_props C17_sound.
Open Scope Z_scope.

(* SETPOLL is exactly "parse in the mode getinputmode returns" *)
Theorem C17_setpoll : forall v bf f, parse 3 v bf f = parse (getinputmode f) v bf f.
Proof. exact c17_setpoll. Qed.
Print Assumptions C17_setpoll.

(* getinputmode depends only on the class/id bytes and the total length; from 11 bytes on, not on the length *)
Theorem C17_inputmode_of : forall data, getinputmode data = inputmode_of (pyslice data 2 4) (Z.of_nat (length data)).
Proof. exact c17_inputmode_of. Qed.
Print Assumptions C17_inputmode_of.
Theorem C17_long : forall k t, 11 <= t -> inputmode_of k t = inputmode_of k 11.
Proof. exact c17_long. Qed.
Print Assumptions C17_long.

(* PARTIAL (table obligations, finite: all SET and POLL definitions): for every definition and every frame length
   a payload conforming to it can have, getinputmode returns the definition's own mode — except the recorded
   ambiguities: SET definitions whose payload can be empty (8-byte frame reads as POLL) and the AID-ALM/AOP/EPH
   polls that carry a 1-byte svid (read as SET).  The full statement is refuted by those (C17_full_refuted). *)
Theorem C17_set_partial : forallb (fun e => mem_s (fst e) known_c17_set || mode_entry_ok 1%N e) payloads_set = true.
Proof. exact c17_set_table. Qed.
Print Assumptions C17_set_partial.
Theorem C17_poll_partial : forallb (fun e => mem_s (fst e) known_c17_poll || mode_entry_ok 2%N e) payloads_poll = true.
Proof. exact c17_poll_table. Qed.
Print Assumptions C17_poll_partial.

(* what those obligations mean: for every SET (POLL) definition outside the recorded ambiguities, EVERY frame of its
   class/id whose length a payload of that definition can have - exactly the minimum for a fixed-size definition,
   anything from the minimum on for one with repeating groups - is parsed under SETPOLL exactly as under SET (POLL) *)
Theorem C17_set_resolves : forall e k v bf f,
  In e payloads_set -> mem_s (fst e) known_c17_set = false -> key_of_def (fst e) = Some k ->
  pyslice f 2 4 = k -> possible_len (snd e) (Z.of_nat (length f)) ->
  parse 3 v bf f = parse 1 v bf f.
Proof. exact c17_set_resolves. Qed.
Print Assumptions C17_set_resolves.
Theorem C17_poll_resolves : forall e k v bf f,
  In e payloads_poll -> mem_s (fst e) known_c17_poll = false -> key_of_def (fst e) = Some k ->
  pyslice f 2 4 = k -> possible_len (snd e) (Z.of_nat (length f)) ->
  parse 3 v bf f = parse 2 v bf f.
Proof. exact c17_poll_resolves. Qed.
Print Assumptions C17_poll_resolves.

(* the refutation witnesses: a SET message with an empty payload resolves to POLL; AID-ALM POLL with svid to SET *)
Theorem C17_full_refuted :
  getinputmode [181; 98; 16; 19; 0; 0; 35; 129]%N = 2%N /\          (* ESF-RESETALG (SET, empty payload) *)
  getinputmode [181; 98; 11; 48; 1; 0; 5; 65; 170]%N = 1%N.          (* AID-ALM POLL svid=5 *)
Proof. split; reflexivity. Qed.
Print Assumptions C17_full_refuted.

(* C10_src — the source's read(), run over the model of SocketWrapper: the translation tie of C06_src instantiated with the
   socket model's read(n) / readline() as the stream.  Statements only. *)
From Coq Require Import ZArith List String Lia.
From PyUbx Require Import Base Bytes Reader Socket Strs Consts PyMini PySrcIO Src_common Read_iter ReaderTie.
Import ListNotations.
Open Scope Z_scope.

(* the socket model never returns more than it was asked for: the premise C06_read_from_source needs *)
Lemma sock_read_le : forall n s, (length (fst (sock_read n s)) <= n)%nat.
Proof.
  intros n s. unfold sock_read. generalize (buf s) as b. induction (evs s) as [|e l IH]; intros b; cbn [sock_read_aux].
  - destruct (Nat.leb n (length b)); cbn [fst length]; [rewrite firstn_length; lia|lia].
  - destruct (Nat.leb n (length b)); [cbn [fst]; rewrite firstn_length; lia|].
    destruct e as [[|x d]|]; cbn [fst length]; try lia. apply IH.
Qed.

(* UBXReader.read() as the source has it now, over SocketWrapper as modelled: one call returns, consumes and reports what
   iterating the model's `step` over the socket model gives - for every sequence of recv() results *)
Theorem C10_read_from_source_over_socket (P : Type) (parse : N -> bytes -> result P) (c : cfg) (has_handler : bool)
    (nmea_hdr : N -> bool) :
  mem_s "py_io_read_bytes" translated_io = true -> mem_s "py_io_read_line" translated_io = true ->
  mem_s "py_io_parse_ubx" translated_io = true -> mem_s "py_io_parse_nmea" translated_io = true ->
  mem_s "py_io_parse_rtcm3" translated_io = true -> mem_s "py_io_do_error" translated_io = true ->
  mem_s "py_ioread" translated_io = true ->
  (forall x, nmea_hdr x = existsb (N.eqb x) nmea_hdr2) ->
  forall fuel (w : world sock),
  read_ok parse has_handler w
          (py_ioread sock_read sock_readline (attr c has_handler) (ext parse) (Datatypes.S fuel) w)
          (Read_iter.read_one sock_read sock_readline parse nmea_hdr c fuel (w_stream w) []).
Proof. intros. eapply read_agree; try eassumption. exact sock_read_le. Qed.
Print Assumptions C10_read_from_source_over_socket.

(* C10_src — the source's read(), run over the model of SocketWrapper: the translation tie of C06_src instantiated with the
   socket model's read(n) / readline() as the stream.  Statements only. *)
From Coq Require Import ZArith List String Lia.
From PyUbx Require Import Base Bytes Reader Socket Strs Consts PyMini PySrcIO Src_common Read_iter ReaderTie Src_socket.
Import ListNotations.
Open Scope Z_scope.

(* the socket model never returns more than it was asked for: the premise C06_read_from_source needs *)
Lemma sock_read_le : forall n s, (length (fst (sock_read n s)) <= n)%nat.
Proof.
  intros n s. unfold sock_read. generalize (buf s) as b. induction (evs s) as [|e l IH]; intros b; cbn [sock_read_aux].
  - destruct (Nat.leb n (length b)); cbn [fst length]; [rewrite firstn_length; lia|lia].
  - destruct (Nat.leb n (length b)); [cbn [fst]; rewrite firstn_length; lia|].
    destruct e as [[|x d]|]; cbn [fst length]; try lia. apply IH.
Qed.

(* UBXReader.read() as the source has it now, over SocketWrapper as modelled: one call returns, consumes and reports what
   iterating the model's `step` over the socket model gives - for every sequence of recv() results *)
Theorem C10_read_from_source_over_socket (P : Type) (parse : N -> bytes -> result P) (c : cfg) (has_handler : bool)
    (nmea_hdr : N -> bool) :
  mem_s "py_io_read_bytes" translated_io = true -> mem_s "py_io_read_line" translated_io = true ->
  mem_s "py_io_parse_ubx" translated_io = true -> mem_s "py_io_parse_nmea" translated_io = true ->
  mem_s "py_io_parse_rtcm3" translated_io = true -> mem_s "py_io_do_error" translated_io = true ->
  mem_s "py_ioread" translated_io = true ->
  (forall x, nmea_hdr x = existsb (N.eqb x) nmea_hdr2) ->
  forall fuel (w : world sock),
  read_ok parse has_handler w
          (py_ioread sock_read sock_readline (attr c has_handler) (ext parse) (Datatypes.S fuel) w)
          (Read_iter.read_one sock_read sock_readline parse nmea_hdr c fuel (w_stream w) []).
Proof. intros. eapply read_agree; try eassumption. exact sock_read_le. Qed.
Print Assumptions C10_read_from_source_over_socket.

(* SocketWrapper._recv() and SocketWrapper.read(num) as the source has them now (translated on every run), for EVERY sequence
   of recv() results (data, empty data, OSError / TimeoutError; `rcv`), every buffer content and every num: the value
   returned, the recv() results consumed and the buffer left behind are the model's (`recv`, `sock_read_aux`, the objects of
   C10_read_exact).  `fuel` bounds the top-up loop and only has to exceed the number of recv() results still to come. *)
Theorem C10_recv_from_source (attr : string -> gv) (bufsize : Z) :
  attr "_bufsize" = gint bufsize -> mem_s "py_sock_recv" translated_io = true ->
  forall l eff st b, has_buf st b ->
  exists st', py_sock_recv rcv attr (SW l eff st) =
              (Ok (gbool (fst (recv {| buf := b; evs := l |}))), SW (evs (snd (recv {| buf := b; evs := l |}))) eff st')
              /\ has_buf st' (buf (snd (recv {| buf := b; evs := l |}))) /\ frame st' st.
Proof. intros; eapply recv_io; eassumption. Qed.
Print Assumptions C10_recv_from_source.

Theorem C10_sock_read_from_source (attr : string -> gv) (bufsize : Z) :
  attr "_bufsize" = gint bufsize -> mem_s "py_sock_recv" translated_io = true -> mem_s "py_sockread" translated_io = true ->
  forall (n : nat) l b eff st fuel, has_buf st b -> (length l < fuel)%nat ->
  exists st', py_sockread rcv attr fuel (gint (Z.of_nat n)) (SW l eff st) =
              (Ok (gbytes (fst (sock_read_aux n b l))), SW (evs (snd (sock_read_aux n b l))) eff st')
              /\ has_buf st' (buf (snd (sock_read_aux n b l))) /\ frame st' st.
Proof. intros; eapply read_io; eassumption. Qed.
Print Assumptions C10_sock_read_from_source.

(* SocketWrapper.readline() as the source has it now: the line the model's loop returns, the same recv() results consumed, the
   same buffer left - whenever the model's loop ends within `fuel` rounds (rl_opt: the model's loop with running out of
   rounds made visible; rl_opt_aux: it then is sock_readline_aux) *)
Theorem C10_sock_readline_from_source (attr : string -> gv) (bufsize : Z) :
  attr "_bufsize" = gint bufsize -> mem_s "py_sock_recv" translated_io = true -> mem_s "py_sockread" translated_io = true ->
  mem_s "py_sockreadline" translated_io = true ->
  forall fuel l b eff st r, has_buf st b -> (length l < fuel)%nat ->
  rl_opt fuel [] {| buf := b; evs := l |} = Some r ->
  exists st', py_sockreadline rcv attr fuel (SW l eff st) = (Ok (gbytes (fst r)), SW (evs (snd r)) eff st')
              /\ has_buf st' (buf (snd r)).
Proof. intros; eapply readline_io; eassumption. Qed.
Print Assumptions C10_sock_readline_from_source.

Theorem C10_rl_opt_is_model : forall f line s r, rl_opt f line s = Some r -> sock_readline_aux f line s = r.
Proof. exact rl_opt_aux. Qed.
Print Assumptions C10_rl_opt_is_model.

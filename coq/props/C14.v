(* C14 — configuration-database messages carry exactly the keys and values given. *)
From PyUbx Require Import Base Bytes Types Strs Walk Consts Tables Msg WfDef Table_props C14_lemmas.
Open Scope Z_scope.

(* table obligations (finite: the whole generated UBX_CONFIG_DATABASE, 1242 keys) *)
Theorem C14_sizecodes : forallb cfg_sizecode_ok cfgdb = true.       (* bits 28..30 of every key id = its type's width code *)
Proof. exact c14_sizecodes. Qed.
Print Assumptions C14_sizecodes.
Theorem C14_names_nodup : nodup_s cfg_names = true.
Proof. exact c14_names_nodup. Qed.
Print Assumptions C14_names_nodup.
(* PARTIAL: key ids are pairwise distinct except the recorded finding 0x10340014 (two names) *)
Theorem C14_ids_nodup_partial : forallb (fun z => existsb (Z.eqb z) known_dup_ids) (dup_ids cfg_ids) = true.
Proof. exact c14_ids_nodup_partial. Qed.
Print Assumptions C14_ids_nodup_partial.
(* PARTIAL: name -> id -> name is the identity for every key except the one shadowed by that duplicate *)
Theorem C14_lookup_inverse_partial :
  forallb (fun e => mem_s (fst e) known_noninverse || cfg_lookup_inverse e) cfgdb = true.
Proof. exact c14_lookup_inverse_partial. Qed.
Print Assumptions C14_lookup_inverse_partial.

(* undocumented key ids are named CFG_0x<hex> and typed X<storage size of the size code> *)
Theorem C14_unknown_key : forall key d n,
  cfg_find key cfgdb = None -> 0 <= key -> top_hex_digit key = d -> d <= 9 -> assoc_Z d storsize = Some n ->
  cfgkey2name_ key = Ok (("CFG_0x" ++ hex_of_N (Z.to_N key))%string, T lX (Some (Z.to_nat n))).
Proof. exact c14_unknown_key. Qed.
Print Assumptions C14_unknown_key.

(* layout, for every list of items (unbounded): header, then each key id (and value) in order *)
Theorem C14_set_layout : forall l t items m,
  config_set l t items = Ok m ->
  exists lay tr lis,
    int_enc false 1 l = Ok lay /\ int_enc false 1 t = Ok tr /\ cfg_items items = Ok lis /\
    m_payload m = Some ([if t =? 0 then 0%N else 1%N] ++ lay ++ tr ++ [0%N] ++ lis)%list /\
    m_cls m = [6%N] /\ m_id m = [138%N] /\ m_mode m = 1%N /\ Z.of_nat (length items) <= 64.
Proof. exact c14_set_layout. Qed.
Print Assumptions C14_set_layout.
(* cfg_items / cfg_keys are the concatenation, in order, of: 32-bit LE key id (+ value at the key type's width) *)
Theorem C14_items_layout : forall items, cfg_items items = items_layout items.
Proof. exact cfg_items_spec. Qed.
Print Assumptions C14_items_layout.
Theorem C14_del_layout : forall l t keys m,
  config_del l t keys = Ok m ->
  exists lay tr lis,
    int_enc false 1 l = Ok lay /\ int_enc false 1 t = Ok tr /\ cfg_keys keys = Ok lis /\
    m_payload m = Some ([if t =? 0 then 0%N else 1%N] ++ lay ++ tr ++ [0%N] ++ lis)%list /\
    m_cls m = [6%N] /\ m_id m = [140%N] /\ m_mode m = 1%N.
Proof. exact c14_del_layout. Qed.
Print Assumptions C14_del_layout.
Theorem C14_poll_layout : forall l pos keys m,
  config_poll l pos keys = Ok m ->
  exists lay p lis,
    int_enc false 1 l = Ok lay /\ int_enc false 2 pos = Ok p /\ cfg_keys keys = Ok lis /\
    m_payload m = Some ([0%N] ++ lay ++ p ++ lis)%list /\
    m_cls m = [6%N] /\ m_id m = [139%N] /\ m_mode m = 2%N.
Proof. exact c14_poll_layout. Qed.
Print Assumptions C14_poll_layout.

Theorem C14_keys_layout : forall keys, cfg_keys keys = keys_layout keys.
Proof. exact cfg_keys_spec. Qed.
Print Assumptions C14_keys_layout.

(* more than 64 items is refused (the limit is lifted from the code on every run) *)
Theorem C14_limit : forall l t items, 64 < Z.of_nat (length items) -> config_set l t items = Raise EUBXMessage.
Proof. exact c14_limit. Qed.
Print Assumptions C14_limit.

(* ---- parse side: ANY list of items (unbounded), known or unknown key ids ---- *)
From PyUbx Require Cfgval_lemmas C14_parse.

(* the key/value walk itself: from a payload `pre ++ items`, one attribute per item in order, named by
   cfgkey2name of the 32-bit little-endian key id and equal to the decoding of its value bytes at the width of the
   key's type; the premise off0 <= 4 is needed because the loop compares an absolute offset with a relative length *)
Theorem C14_items_walk : forall items fuel pre s off0,
  Forall (Cfgval_lemmas.item_ok readonly_names cfgdb storsize) items ->
  w_pay s = (pre ++ concat (map Cfgval_lemmas.item_bytes items))%list ->
  (off0 <= 4)%nat -> (length items < fuel)%nat ->
  exists s', cfgval_loop readonly_names cfgdb storsize fuel (length pre) (length (w_pay s) - off0) s = Ok s' /\
             w_attrs s' = fold_left Cfgval_lemmas.set_item items (w_attrs s) /\ w_pay s' = w_pay s /\ w_off s' = w_off s.
Proof. exact (Cfgval_lemmas.cfgval_items readonly_names cfgdb storsize). Qed.
Print Assumptions C14_items_walk.

(* a CFG-VALGET response *)
Theorem C14_valget_parse : forall ver lay p0 p1 items bf,
  (ver < 256)%N -> (lay < 256)%N -> (p0 < 256)%N -> (p1 < 256)%N ->
  Forall (Cfgval_lemmas.item_ok readonly_names cfgdb storsize) items ->
  let p := (ver :: lay :: p0 :: p1 :: concat (map Cfgval_lemmas.item_bytes items))%list in
  Z.of_nat (length p) < 65536 ->
  exists m, construct [6%N] [139%N] 0%N bf (KwPayload p) = Ok m /\ m_payload m = Some p /\
            m_attrs m = fold_left Cfgval_lemmas.set_item items
                          [("version", PInt (Z.of_N ver)); ("layer", PInt (Z.of_N lay));
                           ("position", PInt (Z.of_N (p0 + 256 * p1)))]%string.
Proof. exact C14_parse.valget_parse. Qed.
Print Assumptions C14_valget_parse.

(* a CFG-VALSET (flags view) *)
Theorem C14_valset_parse : forall ver lay tr r0 items,
  (ver < 256)%N -> (lay < 256)%N -> (tr < 256)%N -> (r0 < 256)%N ->
  Forall (Cfgval_lemmas.item_ok readonly_names cfgdb storsize) items ->
  let p := (ver :: lay :: tr :: r0 :: concat (map Cfgval_lemmas.item_bytes items))%list in
  Z.of_nat (length p) < 65536 ->
  exists m, construct [6%N] [138%N] 1%N true (KwPayload p) = Ok m /\ m_payload m = Some p /\
            m_attrs m = fold_left Cfgval_lemmas.set_item items
                          [("version", PInt (Z.of_N ver));
                           ("ram", PInt (Bits_lemmas.ext (Z.of_N lay) 0 1)); ("bbr", PInt (Bits_lemmas.ext (Z.of_N lay) 1 1));
                           ("flash", PInt (Bits_lemmas.ext (Z.of_N lay) 2 1));
                           ("action", PInt (Bits_lemmas.ext (Z.of_N tr) 0 2));
                           ("reserved0", PInt (Z.of_N r0))]%string.
Proof. exact C14_parse.valset_parse. Qed.
Print Assumptions C14_valset_parse.

(* config_set: the message it returns exposes exactly the keys and values given, in order *)
Theorem C14_config_set_parse : forall layers transaction items cits m,
  config_set layers transaction items = Ok m ->
  Forall2 (fun kv it => C14_parse.to_citem kv = Ok it) items cits ->
  Forall (Cfgval_lemmas.item_ok readonly_names cfgdb storsize) cits ->
  m_attrs m = fold_left Cfgval_lemmas.set_item cits
                [("version", PInt (if (transaction =? 0)%Z then 0 else 1));
                 ("ram", PInt (Bits_lemmas.ext layers 0 1)); ("bbr", PInt (Bits_lemmas.ext layers 1 1));
                 ("flash", PInt (Bits_lemmas.ext layers 2 1));
                 ("action", PInt (Bits_lemmas.ext transaction 0 2));
                 ("reserved0", PInt 0)]%string.
Proof. exact C14_parse.config_set_parse. Qed.
Print Assumptions C14_config_set_parse.

(* non-vacuity: a known key by name and an unknown key id both satisfy item_ok *)
Example C14_item_ok_examples :
  exists a b, C14_parse.to_citem (KName "CFG_UART1_BAUDRATE", PInt 9600) = Ok a /\
              C14_parse.to_citem (KId 270471167, PBytes [7%N]) = Ok b /\
              Cfgval_lemmas.ci_name b = "CFG_0x101f0fff"%string /\
              Cfgval_lemmas.ci_val a = PInt 9600 /\
              Forall (Cfgval_lemmas.item_ok readonly_names cfgdb storsize) [a; b].
Proof.
  eexists. eexists. split; [vm_compute; reflexivity|]. split; [vm_compute; reflexivity|].
  split; [reflexivity|]. split; [reflexivity|].
  repeat constructor; try (vm_compute; reflexivity); try (eexists; split; [vm_compute; reflexivity|split; [reflexivity|vm_compute; repeat constructor]]).
Qed.

(* C14 — configuration-database messages carry exactly the keys and values given. *)
From PyUbx Require Import Base Bytes Types Strs Walk Consts Tables Msg WfDef Table_props C14_lemmas.
Open Scope Z_scope.

(* table obligations (finite: the whole generated UBX_CONFIG_DATABASE, 1242 keys) *)
Theorem C14_sizecodes : forallb cfg_sizecode_ok cfgdb = true.       (* bits 28..30 of every key id = its type's width code *)
Proof. exact c14_sizecodes. Qed.
Print Assumptions C14_sizecodes.
Theorem C14_names_nodup : nodup_s cfg_names = true.
Proof. exact c14_names_nodup. Qed.
Print Assumptions C14_names_nodup.
(* PARTIAL: key ids are pairwise distinct except the recorded finding 0x10340014 (two names) *)
Theorem C14_ids_nodup_partial : forallb (fun z => existsb (Z.eqb z) known_dup_ids) (dup_ids cfg_ids) = true.
Proof. exact c14_ids_nodup_partial. Qed.
Print Assumptions C14_ids_nodup_partial.
(* PARTIAL: name -> id -> name is the identity for every key except the one shadowed by that duplicate *)
Theorem C14_lookup_inverse_partial :
  forallb (fun e => mem_s (fst e) known_noninverse || cfg_lookup_inverse e) cfgdb = true.
Proof. exact c14_lookup_inverse_partial. Qed.
Print Assumptions C14_lookup_inverse_partial.

(* undocumented key ids are named CFG_0x<hex> and typed X<storage size of the size code> *)
Theorem C14_unknown_key : forall key d n,
  cfg_find key cfgdb = None -> 0 <= key -> top_hex_digit key = d -> d <= 9 -> assoc_Z d storsize = Some n ->
  cfgkey2name_ key = Ok (("CFG_0x" ++ hex_of_N (Z.to_N key))%string, T lX (Some (Z.to_nat n))).
Proof. exact c14_unknown_key. Qed.
Print Assumptions C14_unknown_key.

(* layout, for every list of items (unbounded): header, then each key id (and value) in order *)
Theorem C14_set_layout : forall l t items m,
  config_set l t items = Ok m ->
  exists lay tr lis,
    int_enc false 1 l = Ok lay /\ int_enc false 1 t = Ok tr /\ cfg_items items = Ok lis /\
    m_payload m = Some ([if t =? 0 then 0%N else 1%N] ++ lay ++ tr ++ [0%N] ++ lis)%list /\
    m_cls m = [6%N] /\ m_id m = [138%N] /\ m_mode m = 1%N /\ Z.of_nat (length items) <= 64.
Proof. exact c14_set_layout. Qed.
Print Assumptions C14_set_layout.
(* cfg_items / cfg_keys are the concatenation, in order, of: 32-bit LE key id (+ value at the key type's width) *)
Theorem C14_items_layout : forall items, cfg_items items = items_layout items.
Proof. exact cfg_items_spec. Qed.
Print Assumptions C14_items_layout.
Theorem C14_del_layout : forall l t keys m,
  config_del l t keys = Ok m ->
  exists lay tr lis,
    int_enc false 1 l = Ok lay /\ int_enc false 1 t = Ok tr /\ cfg_keys keys = Ok lis /\
    m_payload m = Some ([if t =? 0 then 0%N else 1%N] ++ lay ++ tr ++ [0%N] ++ lis)%list /\
    m_cls m = [6%N] /\ m_id m = [140%N] /\ m_mode m = 1%N.
Proof. exact c14_del_layout. Qed.
Print Assumptions C14_del_layout.
Theorem C14_poll_layout : forall l pos keys m,
  config_poll l pos keys = Ok m ->
  exists lay p lis,
    int_enc false 1 l = Ok lay /\ int_enc false 2 pos = Ok p /\ cfg_keys keys = Ok lis /\
    m_payload m = Some ([0%N] ++ lay ++ p ++ lis)%list /\
    m_cls m = [6%N] /\ m_id m = [139%N] /\ m_mode m = 2%N.
Proof. exact c14_poll_layout. Qed.
Print Assumptions C14_poll_layout.

Theorem C14_keys_layout : forall keys, cfg_keys keys = keys_layout keys.
Proof. exact cfg_keys_spec. Qed.
Print Assumptions C14_keys_layout.

(* more than 64 items is refused (the limit is lifted from the code on every run) *)
Theorem C14_limit : forall l t items, 64 < Z.of_nat (length items) -> config_set l t items = Raise EUBXMessage.
Proof. exact c14_limit. Qed.
Print Assumptions C14_limit.

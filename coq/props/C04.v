(* C04 — every message the library builds serializes to a well-formed UBX frame. *)
From PyUbx Require Import Base Bytes Frame Types Walk Tables Msg C04_lemmas.
Open Scope Z_scope.

(* all three construction routes (no payload, raw payload, keyword attributes — hence also the
   config_set/del/poll helpers, which go through the raw-payload route): if the constructor returns a
   message, serialize() is sync chars, class, id, little-endian length = actual payload length,
   payload, Fletcher-8 checksum (the textbook definition, not the library's own routine).
   The hypotheses only say that the inputs are bytes: class and id one byte each, payload / bytes
   values made of bytes. *)
Theorem C04_wellformed : forall c i mode bf k m,
  (c < 256)%N -> (i < 256)%N -> wf_kwargs k ->
  construct [c] [i] mode bf k = Ok m -> WellFormed (serialize m).
Proof. exact c04_wellformed. Qed.
Print Assumptions C04_wellformed.

(* PARTIAL: that output is accepted by UBXReader.parse in the same mode, proved for the no-payload and
   raw-payload routes (incl. config helpers).  Missing: the keyword route, where acceptance needs
   "what the keyword walk builds, the payload walk can read" (C03); covered by correspondence. *)
Theorem C04_accepted_partial : forall c i mode v bf k m,
  (c < 256)%N -> (i < 256)%N -> (k = KwNone \/ exists p, k = KwPayload p /\ wfb p) ->
  construct [c] [i] mode bf k = Ok m ->
  exists m', parse mode v bf (serialize m) = Ok m' /\ serialize m' = serialize m.
Proof. exact c04_accepted_payload. Qed.
Print Assumptions C04_accepted_partial.

(* names, integers and bytes address the same message type: for every message id that has a payload
   definition, msgstr2bytes(class name, message name) = msgclass2bytes(c, i) = (c, i).
   Finite: the whole generated UBX_MSGIDS table. *)
Theorem C04_addressing : forallb addr_ok msgids = true.
Proof. exact c04_addressing. Qed.
Print Assumptions C04_addressing.

(* C04 — every message the library builds serializes to a well-formed UBX frame. *)
From PyUbx Require Import Base Bytes Frame Types Walk Consts Tables Msg WfDef C04_lemmas Msg_rt C04_kw.
Open Scope Z_scope.

(* all three construction routes (no payload, raw payload, keyword attributes — hence also the
   config_set/del/poll helpers, which go through the raw-payload route): if the constructor returns a
   message, serialize() is sync chars, class, id, little-endian length = actual payload length,
   payload, Fletcher-8 checksum (the textbook definition, not the library's own routine).
   The hypotheses only say that the inputs are bytes: class and id one byte each, payload / bytes
   values made of bytes. *)
Theorem C04_wellformed : forall c i mode bf k m,
  (c < 256)%N -> (i < 256)%N -> wf_kwargs k ->
  construct [c] [i] mode bf k = Ok m -> WellFormed (serialize m).
Proof. exact c04_wellformed. Qed.
Print Assumptions C04_wellformed.

(* PARTIAL: that output is accepted by UBXReader.parse in the same mode, proved for the no-payload and
   raw-payload routes (incl. config helpers).  Missing: the keyword route, where acceptance needs
   "what the keyword walk builds, the payload walk can read" (C03); covered by correspondence. *)
Theorem C04_accepted_partial : forall c i mode v bf k m,
  (c < 256)%N -> (i < 256)%N -> (k = KwNone \/ exists p, k = KwPayload p /\ wfb p) ->
  construct [c] [i] mode bf k = Ok m ->
  exists m', parse mode v bf (serialize m) = Ok m' /\ serialize m' = serialize m.
Proof. exact c04_accepted_payload. Qed.
Print Assumptions C04_accepted_partial.

(* PARTIAL, keyword route: a message built from keyword attributes is accepted by parse in the same mode, for the
   definitions the build->parse simulation covers (rt_defb: the decidable side condition of C03_construct_roundtrip,
   met by more than 300 shipped entries - C03_rt_entries_many), outside the variant selectors and the MGA class.
   Missing: variant-selected definitions, values that are not representable (scaled / float / text members);
   covered by correspondence and search. *)
Theorem C04_accepted_kw_partial : forall c i mode v bf a m ds,
  (c < 256)%N -> (i < 256)%N -> wf_kwargs (KwAttrs a) -> a <> [] ->
  variant_lookup mode ([c] ++ [i]) variants = None -> beq [c] [19%N] && negb (beq [i] [128%N]) = false ->
  construct [c] [i] mode bf (KwAttrs a) = Ok m ->
  get_dict [c] [i] mode (KwAttrs a) [] = Ok ds -> rt_defb ds = true -> is_cfgval [c] [i] mode = false ->
  exists m', parse mode v bf (serialize m) = Ok m' /\ serialize m' = serialize m.
Proof. exact c04_accepted_kw. Qed.
Print Assumptions C04_accepted_kw_partial.

(* names, integers and bytes address the same message type: for every message id that has a payload
   definition, msgstr2bytes(class name, message name) = msgclass2bytes(c, i) = (c, i).
   Finite: the whole generated UBX_MSGIDS table. *)
Theorem C04_addressing : forallb addr_ok msgids = true.
Proof. exact c04_addressing. Qed.
Print Assumptions C04_addressing.

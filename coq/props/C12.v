(* C12 — quitonerror decides how a rejected frame is reported, not which frames arrive. *)
From PyUbx Require Import Base Bytes Reader Reader_generic Reader_file Reader_any.
Open Scope N_scope.

Theorem C12_ignore_log : forall (P : Type) (parse : N -> bytes -> result P) (nmea_hdr : N -> bool) c s,
  items (file_read_all parse nmea_hdr (withqe c 0) s) = items (file_read_all parse nmea_hdr (withqe c 1) s).
Proof. exact @c12_ignore_log. Qed.
Print Assumptions C12_ignore_log.

(* under ERR_LOG the handler is invoked exactly once per rejected frame, with the rejecting
   exception, in order, and never for a delivered frame; never under ERR_IGNORE *)
Theorem C12_handler : forall (P : Type) (parse : N -> bytes -> result P) (nmea_hdr : N -> bool) c s,
  reports (file_read_all parse nmea_hdr (withqe c 1) s) = rejections parse c (events nmea_hdr s) /\
  reports (file_read_all parse nmea_hdr (withqe c 0) s) = [].
Proof. exact @c12_handler. Qed.
Print Assumptions C12_handler.

(* under ERR_RAISE: the same items up to the first rejection, then that exception is raised *)
Theorem C12_raise : forall (P : Type) (parse : N -> bytes -> result P) (nmea_hdr : N -> bool) c s,
  (items (file_read_all parse nmea_hdr (withqe c 2) s), raised (file_read_all parse nmea_hdr (withqe c 2) s))
    = upto_reject parse c (events nmea_hdr s) /\
  reports (file_read_all parse nmea_hdr (withqe c 2) s) = [] /\
  exists rest, items (file_read_all parse nmea_hdr (withqe c 0) s)
                 = fst (upto_reject parse c (events nmea_hdr s)) ++ rest /\
               (snd (upto_reject parse c (events nmea_hdr s)) = None -> rest = []).
Proof. exact @c12_raise. Qed.
Print Assumptions C12_raise.

(* THE SAME FOR EVERY STREAM IMPLEMENTATION.  S is any state type and rd / rdl any functions - a file, a socket, a
   serial port whose reads come back short although data follows, a stream that invents bytes - and any fuel: the
   three policies only interpret the framing trace, which is a function of the stream alone. *)
Theorem C12_ignore_log_any_stream : forall (S P : Type) (rd : nat -> S -> bytes * S) (rdl : S -> bytes * S)
    (parse : N -> bytes -> result P) (nmea_hdr : N -> bool) c fuel s,
  items (read_all rd rdl parse nmea_hdr (withqe c 0) fuel s) = items (read_all rd rdl parse nmea_hdr (withqe c 1) fuel s).
Proof. exact @c12_ignore_log_any. Qed.
Print Assumptions C12_ignore_log_any_stream.

Theorem C12_handler_any_stream : forall (S P : Type) (rd : nat -> S -> bytes * S) (rdl : S -> bytes * S)
    (parse : N -> bytes -> result P) (nmea_hdr : N -> bool) c fuel s,
  reports (read_all rd rdl parse nmea_hdr (withqe c 1) fuel s) = rejections parse c (fst (trace rd rdl nmea_hdr fuel s)) /\
  reports (read_all rd rdl parse nmea_hdr (withqe c 0) fuel s) = [].
Proof. exact @c12_handler_any. Qed.
Print Assumptions C12_handler_any_stream.

Theorem C12_raise_any_stream : forall (S P : Type) (rd : nat -> S -> bytes * S) (rdl : S -> bytes * S)
    (parse : N -> bytes -> result P) (nmea_hdr : N -> bool) c fuel s,
  (items (read_all rd rdl parse nmea_hdr (withqe c 2) fuel s), raised (read_all rd rdl parse nmea_hdr (withqe c 2) fuel s))
    = upto_reject parse c (fst (trace rd rdl nmea_hdr fuel s)) /\
  reports (read_all rd rdl parse nmea_hdr (withqe c 2) fuel s) = [] /\
  exists rest, items (read_all rd rdl parse nmea_hdr (withqe c 0) fuel s)
                 = fst (upto_reject parse c (fst (trace rd rdl nmea_hdr fuel s))) ++ rest /\
               (snd (upto_reject parse c (fst (trace rd rdl nmea_hdr fuel s))) = None -> rest = []).
Proof. exact @c12_raise_any. Qed.
Print Assumptions C12_raise_any_stream.

(* C12 — quitonerror decides how a rejected frame is reported, not which frames arrive. *)
From PyUbx Require Import Base Bytes Reader Reader_generic Reader_file.
Open Scope N_scope.

Theorem C12_ignore_log : forall (P : Type) (parse : N -> bytes -> result P) (nmea_hdr : N -> bool) c s,
  items (file_read_all parse nmea_hdr (withqe c 0) s) = items (file_read_all parse nmea_hdr (withqe c 1) s).
Proof. exact @c12_ignore_log. Qed.
Print Assumptions C12_ignore_log.

(* under ERR_LOG the handler is invoked exactly once per rejected frame, with the rejecting
   exception, in order, and never for a delivered frame; never under ERR_IGNORE *)
Theorem C12_handler : forall (P : Type) (parse : N -> bytes -> result P) (nmea_hdr : N -> bool) c s,
  reports (file_read_all parse nmea_hdr (withqe c 1) s) = rejections parse c (events nmea_hdr s) /\
  reports (file_read_all parse nmea_hdr (withqe c 0) s) = [].
Proof. exact @c12_handler. Qed.
Print Assumptions C12_handler.

(* under ERR_RAISE: the same items up to the first rejection, then that exception is raised *)
Theorem C12_raise : forall (P : Type) (parse : N -> bytes -> result P) (nmea_hdr : N -> bool) c s,
  (items (file_read_all parse nmea_hdr (withqe c 2) s), raised (file_read_all parse nmea_hdr (withqe c 2) s))
    = upto_reject parse c (events nmea_hdr s) /\
  reports (file_read_all parse nmea_hdr (withqe c 2) s) = [] /\
  exists rest, items (file_read_all parse nmea_hdr (withqe c 0) s)
                 = fst (upto_reject parse c (events nmea_hdr s)) ++ rest /\
               (snd (upto_reject parse c (events nmea_hdr s)) = None -> rest = []).
Proof. exact @c12_raise. Qed.
Print Assumptions C12_raise.

(* C03 — messages built from keyword attributes encode exactly the values supplied.
   Proved: the per-field contract for integer fields and bit flags.  The full statement ("feeding the parsed values
   back regenerates the payload, scaled fields included") is REFUTED on the unchanged tree by three recorded
   findings, each with a witness evaluated on the model; outside them it is decided by correspondence + search. *)
From PyUbx Require Import Base Bytes PyFloat Types Strs Walk Consts Tables Msg.
From PyUbx Require Import Codec_lemmas Bits_lemmas Field_lemmas.
From Coq Require Import Floats.SpecFloat.
Open Scope Z_scope.

Theorem C03_int_field_roundtrip : forall l w z,
  is_int_letter l = true -> (0 < w)%nat -> in_range (l =? lI)%N w z ->
  exists bs, val2bytes atttype (PInt z) (T l (Some w)) = Ok bs /\ length bs = w /\
             bytes2val bs (T l (Some w)) = Ok (PInt z).
Proof. exact int_field_roundtrip. Qed.
Print Assumptions C03_int_field_roundtrip.

(* a flag value that passes the range check is extracted unchanged, and leaves every other flag alone *)
Theorem C03_flag_roundtrip : forall bf off w v, 0 <= off -> 0 <= w -> 0 <= v < 2 ^ w -> clear bf off w ->
  ext (ins bf off v) off w = v.
Proof. exact ext_ins_same. Qed.
Print Assumptions C03_flag_roundtrip.

Theorem C03_scaled_refuted :
  exists raw : Z, -2 ^ 31 <= raw < 2 ^ 31 /\
    (do b <- int_enc true 4 raw; do v <- dec_scaled_i4 b f1e5; do b' <- enc_scaled_i4 v f1e5; Ok (int_dec true b'))
    = Ok (raw - 1).
Proof. exact scaled_refuted. Qed.
Print Assumptions C03_scaled_refuted.

Theorem C03_smallscale_refuted :
  py_round_nd 12 (fmul (f_of_Z 1) (b64_of_bits 4413928609240219648)) = Ok (S754_zero false).
Proof. exact smallscale_refuted. Qed.
Print Assumptions C03_smallscale_refuted.

(* C03 — messages built from keyword attributes encode exactly the values supplied.
   Whole-definition statements: C03_payload (the payload is the concatenation of one encoding per field, values
   from the keyword of the suffixed name or the nominal value), C03_build_parse (parsing the built payload gives
   back the very trace and attribute dictionary of the build, for every value that its field can represent),
   C03_build_parse_auto (no premise on values for integer / X / bitfield members), C03_construct_roundtrip (the
   same at message level).  The statement for scaled fields is REFUTED on the unchanged tree by the recorded
   findings, each with a witness evaluated on the model - which is why "representable" (rt_ok) is a premise. *)
From PyUbx Require Import Base Bytes PyFloat Types Strs Walk Consts Tables Msg.
From PyUbx Require Import Codec_lemmas Bits_lemmas Field_lemmas WfDef.
From PyUbx Require Import Trace_lemmas Shape_lemmas Build_lemmas Roundtrip_lemmas Rt_auto Msg_rt.
From PyUbx Require Import Scaled_bound.
From Coq Require Import Floats.SpecFloat.
Open Scope Z_scope.

(* every definition list, every keyword dictionary, both bitfield views, every budget: the payload is exactly the
   encodings of the fields, in definition order, each a function of that field's own value; a value is the keyword
   under the field's suffixed name, else the nominal value; a bitfield is its flags OR-ed at their offsets *)
Theorem C03_payload : forall cls id mode bf k bud ds s',
  walk_list atttype readonly_names cfgdb storsize scalround cls id mode bf (Some k) bud ds []
    {| w_off := O; w_pay := []; w_attrs := []; w_trace := [] |} = Ok s' ->
  chain O (rev (w_trace s')) (w_off s') /\ Forall (from_kw k) (w_trace s') /\
  enc_all atttype (rev (w_trace s')) = Ok (w_pay s').
Proof. exact (build_from_empty atttype readonly_names cfgdb storsize scalround). Qed.
Print Assumptions C03_payload.

(* build, then parse the payload built: same records (names, index paths, offsets, widths, kinds, values), same
   attribute dictionary, whole payload consumed - provided each supplied value decodes from its own encoding *)
Theorem C03_build_parse : forall cls id mode bf k bud ds sB',
  Forall static ds ->
  walk_list atttype readonly_names cfgdb storsize scalround cls id mode bf (Some k) bud ds []
    {| w_off := O; w_pay := []; w_attrs := []; w_trace := [] |} = Ok sB' ->
  Forall (rt_ok atttype scalround) (w_trace sB') ->
  exists sP', walk_list atttype readonly_names cfgdb storsize scalround cls id mode bf None bud ds []
                {| w_off := O; w_pay := w_pay sB'; w_attrs := []; w_trace := [] |} = Ok sP' /\
              w_trace sP' = w_trace sB' /\ w_attrs sP' = w_attrs sB' /\ w_off sP' = length (w_pay sB').
Proof.
  intros cls id mode bf k bud ds sB' Hst H Hrt.
  exact (build_parse atttype readonly_names cfgdb storsize scalround cls id mode bf k bud (w_pay sB') ds sB' Hst H eq_refl Hrt).
Qed.
Print Assumptions C03_build_parse.

(* integer (E/I/L/U of any width), X and bitfield members need no premise: a build that succeeds round-trips *)
Theorem C03_build_parse_auto : forall cls id mode bf k bud ds sB',
  is_cfgval cls id mode = false -> Forall static ds -> Forall (leaves auto_kind) ds ->
  walk_list atttype readonly_names cfgdb storsize scalround cls id mode bf (Some k) bud ds []
    {| w_off := O; w_pay := []; w_attrs := []; w_trace := [] |} = Ok sB' ->
  exists sP', walk_list atttype readonly_names cfgdb storsize scalround cls id mode bf None bud ds []
                {| w_off := O; w_pay := w_pay sB'; w_attrs := []; w_trace := [] |} = Ok sP' /\
              w_trace sP' = w_trace sB' /\ w_attrs sP' = w_attrs sB' /\ w_off sP' = length (w_pay sB').
Proof. exact (build_parse_auto readonly_names cfgdb storsize scalround). Qed.
Print Assumptions C03_build_parse_auto.

(* message level: UBXMessage(cls, id, mode, **kw) then UBXMessage(cls, id, mode, payload=its payload) *)
Theorem C03_construct_roundtrip : forall cls id mode bf a m ds,
  a <> [] ->
  construct cls id mode bf (KwAttrs a) = Ok m ->
  get_dict cls id mode (KwAttrs a) [] = Ok ds ->
  rt_defb ds = true -> is_cfgval cls id mode = false ->
  exists p, m_payload m = Some p /\
    (get_dict cls id mode (KwPayload p) p = Ok ds ->
     exists m', construct cls id mode bf (KwPayload p) = Ok m' /\
                m_attrs m' = m_attrs m /\ m_payload m' = Some p /\ serialize m' = serialize m).
Proof. exact construct_roundtrip. Qed.
Print Assumptions C03_construct_roundtrip.

(* outside the variant selectors and the MGA class the selected definition cannot differ *)
Theorem C03_construct_roundtrip_plain : forall cls id mode bf a m ds,
  a <> [] ->
  variant_lookup mode (cls ++ id) variants = None -> beq cls [19%N] && negb (beq id [128%N]) = false ->
  construct cls id mode bf (KwAttrs a) = Ok m ->
  get_dict cls id mode (KwAttrs a) [] = Ok ds ->
  rt_defb ds = true -> is_cfgval cls id mode = false ->
  exists p m', m_payload m = Some p /\ construct cls id mode bf (KwPayload p) = Ok m' /\
               m_attrs m' = m_attrs m /\ serialize m' = serialize m.
Proof. exact construct_roundtrip_plain. Qed.
Print Assumptions C03_construct_roundtrip_plain.

(* non-vacuity: how many shipped (mode, definition) entries pass the decider rt_defb, and one concrete message
   (CFG-MSG SET, 06 01: msgClass, msgID, rateDDC..) meeting every premise of the plain statement *)
Example C03_rt_entries_many : Nat.leb 300 (length rt_entries) = true.
Proof. vm_compute. reflexivity. Qed.
Example C03_roundtrip_premises_met :
  let a := [("msgClass", PInt 1); ("msgID", PInt 7); ("rateUART1", PInt 3)]%string in
  a <> [] /\ variant_lookup 1%N ([6%N] ++ [1%N]) variants = None /\
  beq [6%N] [19%N] && negb (beq [1%N] [128%N]) = false /\
  (exists m ds, construct [6%N] [1%N] 1%N true (KwAttrs a) = Ok m /\
                get_dict [6%N] [1%N] 1%N (KwAttrs a) [] = Ok ds /\ rt_defb ds = true /\
                serialize m = [181; 98; 6; 1; 8; 0; 1; 7; 0; 3; 0; 0; 0; 0; 26; 235]%N) /\
  is_cfgval [6%N] [1%N] 1%N = false.
Proof.
  cbv zeta. split; [discriminate|]. split; [vm_compute; reflexivity|]. split; [reflexivity|].
  split; [|reflexivity]. eexists. eexists. split; [vm_compute; reflexivity|]. split; [vm_compute; reflexivity|].
  split; vm_compute; reflexivity.
Qed.

Theorem C03_int_field_roundtrip : forall l w z,
  is_int_letter l = true -> (0 < w)%nat -> in_range (l =? lI)%N w z ->
  exists bs, val2bytes atttype (PInt z) (T l (Some w)) = Ok bs /\ length bs = w /\
             bytes2val bs (T l (Some w)) = Ok (PInt z).
Proof. exact int_field_roundtrip. Qed.
Print Assumptions C03_int_field_roundtrip.

(* a flag value that passes the range check is extracted unchanged, and leaves every other flag alone *)
Theorem C03_flag_roundtrip : forall bf off w v, 0 <= off -> 0 <= w -> 0 <= v < 2 ^ w -> clear bf off w ->
  ext (ins bf off v) off w = v.
Proof. exact ext_ins_same. Qed.
Print Assumptions C03_flag_roundtrip.

Theorem C03_scaled_refuted :
  exists raw : Z, -2 ^ 31 <= raw < 2 ^ 31 /\
    (do b <- int_enc true 4 raw; do v <- dec_scaled_i4 b f1e5; do b' <- enc_scaled_i4 v f1e5; Ok (int_dec true b'))
    = Ok (raw - 1).
Proof. exact scaled_refuted. Qed.
Print Assumptions C03_scaled_refuted.

Theorem C03_smallscale_refuted :
  py_round_nd 12 (fmul (f_of_Z 1) (b64_of_bits 4413928609240219648)) = Ok (S754_zero false).
Proof. exact smallscale_refuted. Qed.
Print Assumptions C03_smallscale_refuted.

(* SCALED FIELDS, the part the recorded findings leave standing: "to within one unit of resolution".
   parse computes v = round(raw * s, 12) and build computes int(v / s).  For EVERY raw value of up to 32 bits (all
   U1..U4 / I1..I4 fields) and EVERY scale s >= 1e-12 the rebuilt integer differs from raw by at most 1 - proved by
   real-number error analysis over Flocq (each SpecFloat operation of the model is Flocq's correctly rounded one).
   Axioms: the four of the standard library's real numbers (see Print Assumptions), named in DESIGN.md. *)
Theorem C03_scaled_within_one : forall raw b v q z,
  (Z.abs raw <= 2 ^ 32)%Z -> scale_ge_1e12 b ->
  (do m <- py_mul_scale (PInt raw) (SFloat b); py_round12 12 m) = Ok v ->
  py_div_scale v (SFloat b) = Ok q -> py_int_of_float q = Ok z ->
  (Z.abs (z - raw) <= 1)%Z.
Proof. exact scaled_field_within_one. Qed.
Print Assumptions C03_scaled_within_one.

(* table obligation (regenerated tables): every float scale factor of every shipped definition either meets that
   premise or is one of the sub-1e-12 scales of the recorded finding KF-C03-small-scale *)
Theorem C03_table_scales : forallb (fun b => scale_okb b || small_scale b) table_fscales = true.
Proof. exact table_scales_ok. Qed.
Print Assumptions C03_table_scales.

Theorem C03_table_scaled_within_one : forall raw b v q z,
  In b table_fscales -> small_scale b = false -> (Z.abs raw <= 2 ^ 32)%Z ->
  (do m <- py_mul_scale (PInt raw) (SFloat b); py_round12 12 m) = Ok v ->
  py_div_scale v (SFloat b) = Ok q -> py_int_of_float q = Ok z ->
  (Z.abs (z - raw) <= 1)%Z.
Proof. exact table_scaled_within_one. Qed.
Print Assumptions C03_table_scaled_within_one.

(* non-vacuity: scalround is 12 in the tables, more than 100 table scales meet the premise, and NAV-PVT headMot's
   1e-5 on the finding's witness gives exactly raw - 1 *)
Example C03_scalround_is_12 : scalround = 12.
Proof. reflexivity. Qed.
Example C03_scales_many : Nat.leb 100 (length (filter scale_okb table_fscales)) = true.
Proof. exact table_scales_some_ok. Qed.

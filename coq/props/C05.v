(* C05 — checksum validation never lets a malformed or corrupted frame through.
   Statements only; proofs live in proofs/. *)
From PyUbx Require Import Base Bytes Fletcher Frame Frame_lemmas C05_lemmas.
Open Scope N_scope.

(* With VALCKSUM, whatever is accepted is a well-formed frame (sync chars, length field equal
   to the actual payload length, Fletcher-8 over class..payload) — for every byte string. *)
Theorem C05_sound : forall v f r,
  wfb f -> valcksum v = true -> parse_front v f = Ok r -> WellFormed f.
Proof. exact c05_sound. Qed.
Print Assumptions C05_sound.

(* ... and the accepted parts are exactly the frame's class, id and payload *)
Theorem C05_fields : forall v f r,
  wfb f -> valcksum v = true -> parse_front v f = Ok r ->
  exists c i p, f = mk_frame c i p /\ f_cls r = [c] /\ f_id r = [i] /\
    f_payload r = match p with [] => None | _ => Some p end.
Proof. exact c05_fields. Qed.
Print Assumptions C05_fields.

(* every well-formed frame is accepted *)
Theorem C05_complete : forall v f, WellFormed f -> exists r, parse_front v f = Ok r.
Proof. exact c05_complete. Qed.
Print Assumptions C05_complete.

(* any corruption (substitution, insertion, deletion, burst, truncation) whose result is not
   itself a well-formed frame is rejected with UBXParseError *)
Theorem C05_reject_unless_wellformed : forall v f,
  wfb f -> valcksum v = true -> ~ WellFormed f -> parse_front v f = Raise EUBXParse.
Proof. exact c05_reject_not_wf. Qed.
Print Assumptions C05_reject_unless_wellformed.

(* a single substituted byte is ALWAYS caught, at every position and for every value *)
Theorem C05_subst : forall v l x y r,
  WellFormed (l ++ x :: r) -> y < 256 -> x <> y -> valcksum v = true ->
  parse_front v (l ++ y :: r) = Raise EUBXParse.
Proof. exact c05_subst. Qed.
Print Assumptions C05_subst.

(* every proper truncation is caught *)
Theorem C05_truncate : forall v f k,
  WellFormed f -> (k < length f)%nat -> valcksum v = true ->
  parse_front v (firstn k f) = Raise EUBXParse.
Proof. exact c05_truncate. Qed.
Print Assumptions C05_truncate.

(* with VALNONE the two trailing (checksum) bytes are never looked at *)
Theorem C05_valnone : forall v body c1 c2,
  valcksum v = false -> (6 <= length body)%nat -> length c1 = 2%nat -> length c2 = 2%nat ->
  parse_front v (body ++ c1) = parse_front v (body ++ c2).
Proof. exact parse_front_novalidate_ck. Qed.
Print Assumptions C05_valnone.

(* no input of any kind produces anything but acceptance or UBXParseError at this stage *)
Theorem C05_anybytes : forall v f, (exists r, parse_front v f = Ok r) \/ parse_front v f = Raise EUBXParse.
Proof. exact parse_front_cases. Qed.
Print Assumptions C05_anybytes.

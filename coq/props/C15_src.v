(* C15_src — the part of C15's model that is hand-written, tied to /repo's source by translation. Statements only. *)
From PyUbx Require Import Base Bytes Fletcher Frame Types Strs Walk Consts Tables Msg.
(* ==== tie to the source by translation (harness/py2coq.py -> gen/PySrc.v, regenerated from /repo on every run) ====
   `translated` lists the functions the translator could handle on this run; for a function that is not in it the
   statement is empty and the tie is the correspondence check alone (the harness reports which). *)
From Coq Require Import ZArith List String.
From PyUbx Require Import Strs PyMini PySrc Src_common Src_lencksum.

(* _do_len_checksum as the source has it now: the length field is val2bytes(len(payload), U2) (refused when it does
   not fit), the checksum is over class, id, length, payload *)
Theorem C15_len_checksum_from_source : mem_s "py_do_len_checksum" translated = true ->
  forall (p : option bytes) cls id,
  py_do_len_checksum (optg p) (gbytes cls) (gbytes id) =
  do lc <- len_cksum cls id (match p with Some b => b | None => [] end);
  Ok (Tup [gnone; Tup [gbytes (fst lc); gbytes (snd lc)]; Tup []]).
Proof. exact do_len_checksum_agree. Qed.
Print Assumptions C15_len_checksum_from_source.

(* C01_src — the part of C01's model that is hand-written, tied to /repo's source by translation. Statements only. *)
From PyUbx Require Import Base Bytes Fletcher Frame Types Strs Walk Consts Tables Msg.
(* ==== tie to the source by translation (harness/py2coq.py -> gen/PySrc.v, regenerated from /repo on every run) ====
   `translated` lists the functions the translator could handle on this run; for a function that is not in it the
   statement is empty and the tie is the correspondence check alone (the harness reports which). *)
From Coq Require Import ZArith List String.
From PyUbx Require Import Strs PyMini PySrc Src_common Src_serialize.

(* serialize() as the source has it now: header, class, id, length, payload (nothing for None), checksum *)
Theorem C01_serialize_from_source : mem_s "py_serialize" translated = true ->
  forall m : msg,
  py_serialize (gbytes (m_cksum m)) (gbytes (m_length m)) (optg (m_payload m)) (gbytes (m_cls m)) (gbytes (m_id m)) =
  Ok (Tup [gbytes (serialize m); Tup []; Tup []]).
Proof. exact serialize_agree. Qed.
Print Assumptions C01_serialize_from_source.

(* C06_src — the hand-written reader model (model/Reader.v, the object of the C06-C12 theorems) tied to /repo's source by
   translation: the stream-reading methods of UBXReader are translated on every run (harness/py2coq_io.py ->
   gen/PySrcIO.v, a state-and-exception monad over the stream) and proved equal to the model's components.
   `translated_io` lists what the translator could handle on this run; for a method that is not in it the statement is
   empty and the tie is the correspondence check alone (the harness reports which).  Statements only. *)
From Coq Require Import ZArith List String.
From PyUbx Require Import Base Bytes Reader Strs Consts PyMini PySrcIO Src_common Read_iter ReaderTie.
Import ListNotations.
Open Scope Z_scope.

Section S.
Context {S P : Type}.
Variable rd : nat -> S -> bytes * S.
Variable rdl : S -> bytes * S.
Variable parse : N -> bytes -> result P.
Variable c : cfg.
Variable has_handler : bool.

(* _read_bytes(n): nothing for n = 0, EOFError on an empty read, UBXStreamError on a short one *)
Theorem C06_read_bytes_from_source : mem_s "py_io_read_bytes" translated_io = true ->
  mem_s "py_io_read_line" translated_io = true ->
  forall (n : nat) (w : world S),
  py_io_read_bytes rd (gint (Z.of_nat n)) w = lift_m (fun d => Ok (gbytes d)) (read_bytes rd n) w.
Proof. intros T. apply (@read_bytes_io S P rd rdl parse (fun _ => true) T). Qed.

(* _read_line(): EOFError on an empty read, UBXStreamError unless the line ends in LF *)
Theorem C06_read_line_from_source : mem_s "py_io_read_line" translated_io = true ->
  forall w : world S, py_io_read_line rdl w = lift_m (fun d => Ok (gbytes d)) (read_line rdl) w.
Proof. exact (@read_line_io S P rd rdl parse (fun _ => true)). Qed.

(* _parse_ubx / _parse_nmea / _parse_rtcm3: the frame is assembled from exactly the reads the model makes (4 + len + 2
   bytes; a line; 1 + size + 3 bytes with size from the 10 bits after the preamble) and is handed to its protocol
   parser - with the raw bytes and exactly the reader's options by keyword - iff the protocol passes the filter
   and parsing is on *)
Theorem C06_parse_ubx_from_source :
  mem_s "py_io_read_bytes" translated_io = true -> mem_s "py_io_read_line" translated_io = true ->
  mem_s "py_io_parse_ubx" translated_io = true ->
  forall hdr (w : world S),
  py_io_parse_ubx rd (attr c has_handler) (ext parse) (gbytes hdr) w = lift_m (maybe_parse parse c 2) (ubx_rest rd hdr) w.
Proof. exact (@parse_ubx_io S P rd rdl parse (fun _ => true) c has_handler). Qed.

Theorem C06_parse_nmea_from_source :
  mem_s "py_io_read_line" translated_io = true -> mem_s "py_io_parse_nmea" translated_io = true ->
  forall hdr (w : world S),
  py_io_parse_nmea rdl (attr c has_handler) (ext parse) (gbytes hdr) w = lift_m (maybe_parse parse c 1) (nmea_rest rdl hdr) w.
Proof. exact (@parse_nmea_io S P rd rdl parse (fun _ => true) c has_handler). Qed.

Theorem C06_parse_rtcm3_from_source :
  mem_s "py_io_read_bytes" translated_io = true -> mem_s "py_io_read_line" translated_io = true ->
  mem_s "py_io_parse_rtcm3" translated_io = true ->
  forall x1 x2 (w : world S),
  py_io_parse_rtcm3 rd (attr c has_handler) (ext parse) (gbytes [x1; x2]) w = lift_m (maybe_parse parse c 4) (rtcm_rest rd x1 x2) w.
Proof. exact (@parse_rtcm3_io S P rd rdl parse (fun _ => true) c has_handler). Qed.

(* _do_error: ERR_RAISE re-raises, ERR_LOG makes exactly one call (handler if given, else logger), ERR_IGNORE nothing *)
Theorem C06_do_error_from_source : mem_s "py_io_do_error" translated_io = true ->
  forall (e : exn) (w : world S),
  py_io_do_error (attr c has_handler) (Exn e) w =
  if (quitonerror c =? 2)%N then (Raise e, w)
  else if (quitonerror c =? 1)%N then (Ok gnone, log_effect has_handler e w)
  else (Ok gnone, w).
Proof. exact (@do_error_io S c has_handler). Qed.

(* read() as the source has it now - the `while parsing:` loop, the try statement with its two handlers, the protocol
   dispatch on the two header bytes, the protocol filter - against the model: for every stream that never returns more
   than it is asked for, every configuration and starting state, what one call returns (the raw frame and what its
   parser answered / (None, None) / an exception), where it leaves the stream and what it reports to the logger or the
   error handler are what iterating the model's `step` gives (`read_one`); `fuel` bounds the iterations on both sides *)
Theorem C06_read_from_source (nmea_hdr : N -> bool) :
  mem_s "py_io_read_bytes" translated_io = true -> mem_s "py_io_read_line" translated_io = true ->
  mem_s "py_io_parse_ubx" translated_io = true -> mem_s "py_io_parse_nmea" translated_io = true ->
  mem_s "py_io_parse_rtcm3" translated_io = true -> mem_s "py_io_do_error" translated_io = true ->
  mem_s "py_ioread" translated_io = true ->
  (forall n s, (length (fst (rd n s)) <= n)%nat) ->
  (forall x, nmea_hdr x = existsb (N.eqb x) nmea_hdr2) ->
  forall fuel (w : world S),
  read_ok parse has_handler w (py_ioread rd rdl (attr c has_handler) (ext parse) (Datatypes.S fuel) w)
          (Read_iter.read_one rd rdl parse nmea_hdr c fuel (w_stream w) []).
Proof. intros. eapply read_agree; eassumption. Qed.
End S.
Print Assumptions C06_read_from_source.
Print Assumptions C06_read_bytes_from_source.
Print Assumptions C06_read_line_from_source.
Print Assumptions C06_parse_ubx_from_source.
Print Assumptions C06_parse_nmea_from_source.
Print Assumptions C06_parse_rtcm3_from_source.
Print Assumptions C06_do_error_from_source.

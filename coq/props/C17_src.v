(* C17_src — the part of C17's model that is hand-written, tied to /repo's source by translation. Statements only. *)
From PyUbx Require Import Base Bytes Fletcher Frame Types Strs Walk Consts Tables Msg.
(* ==== tie to the source by translation (harness/py2coq.py -> gen/PySrc.v, regenerated from /repo on every run) ====
   `translated` lists the functions the translator could handle on this run; for a function that is not in it the
   statement is empty and the tie is the correspondence check alone (the harness reports which). *)
From Coq Require Import ZArith List String.
From PyUbx Require Import Strs PyMini PySrc Src_common Src_inputmode.

(* getinputmode as the source has it now is the model's getinputmode, for every byte string *)
Theorem C17_getinputmode_from_source : mem_s "py_getinputmode" translated = true ->
  forall d, py_getinputmode (gbytes d) = Ok (gint (Z.of_N (getinputmode d))).
Proof. exact getinputmode_agree. Qed.
Print Assumptions C17_getinputmode_from_source.

(* C16 — every declared message type is usable and its fields have distinct names.
   The domain is the finite set of generated tables (whole GET/SET/POLL payload tables, message ids, classes,
   variant table), so vm_compute over all of it is a proof, not a sample. *)
From PyUbx Require Import Base Bytes Types Strs Walk Consts Tables Msg WfDef Table_props.

(* every violation of the documented grammar (valid types, flags fit their bitfield, group sizes given by an
   earlier integer attribute, at most one variable-by-size group and only at the end, unique names, no collision
   with UBXMessage's own attributes, reachable) is one of the recorded findings *)
Theorem C16_tables_wf : forallb is_known_c16 table_failures = true.
Proof. exact c16_tables_wf. Qed.
Print Assumptions C16_tables_wf.

Theorem C16_entries_wf :
  forallb (fun me => has_known_c16 me || match entry_rules me with [] => true | _ => false end) all_entries = true.
Proof. exact c16_entries_wf. Qed.
Print Assumptions C16_entries_wf.

Theorem C16_msgid_classes : forallb msgid_class_ok msgids = true.
Proof. exact c16_msgid_classes. Qed.
Print Assumptions C16_msgid_classes.

Theorem C16_variants_known : forallb (fun v => mem_s (snd v) selector_names) variants = true.
Proof. exact c16_variants_known. Qed.
Print Assumptions C16_variants_known.

(* consequently a nominal instance of every declared (message, mode) can be built and parsed, in both bitfield
   views, with pairwise distinct attribute names *)
Theorem C16_usable :
  forallb (fun me => has_known_c16 me || (nominal_ok true (snd (snd me)) && nominal_ok false (snd (snd me)))) all_entries = true.
Proof. exact c16_usable. Qed.
Print Assumptions C16_usable.

(* C02 — parsed attributes are exactly the field values the definition prescribes.
   The walk is instrumented with a ghost trace (one record per field read: base name, index path, offset, width,
   kind, value).  Whole-definition statements: C02_trace (the records tile the payload from offset 0 in order,
   each value is the decoding of exactly its bytes, the attribute dictionary is the records applied in order)
   and C02_shape (the records are the definition unfolded, group members carrying their repeat index path).
   Per-field contracts below them.  Which definition is selected (variants) is C16/C17's subject and is tied by
   correspondence. *)
From PyUbx Require Import Base Bytes PyFloat Types Strs Walk Consts Tables Msg WfDef.
From PyUbx Require Import Msg_lemmas Codec_lemmas Bits_lemmas Field_lemmas Trace_lemmas Shape_lemmas Variant_lemmas.
Open Scope Z_scope.

(* every definition list, every payload, every repeat count, both bitfield views, every budget: the fields read
   are consecutive byte ranges from offset 0 in definition order (chain), each recorded value is the decoding
   (little-endian / two's complement / IEEE-754 / scaled+rounded / raw bitfield) of exactly its own bytes (good),
   the payload is untouched, and the attributes are the records applied in order: plain fields set their suffixed
   name, _HP fields are merged into their base, bitfields set one attribute per non-reserved flag (apply_all) *)
Theorem C02_trace : forall cls id mode bf bud ds pay s',
  is_cfgval cls id mode = false ->
  walk_list atttype readonly_names cfgdb storsize scalround cls id mode bf None bud ds []
    {| w_off := O; w_pay := pay; w_attrs := []; w_trace := [] |} = Ok s' ->
  chain O (rev (w_trace s')) (w_off s') /\ Forall (good scalround pay) (w_trace s') /\ w_pay s' = pay /\
  apply_all scalround (rev (w_trace s')) [] = Ok (w_attrs s').
Proof.
  intros cls id mode bf bud ds pay s' H.
  exact (walk_from_zero atttype readonly_names cfgdb storsize scalround cls id mode bf bud H ds pay s').
Qed.
Print Assumptions C02_trace.

(* the records are the definition unfolded: one per member in order, groups repeated with index paths
   [1], [2], ... appended (nested groups: [1;1], [1;2], ...), a fixed-count group exactly its count *)
Theorem C02_shape : forall cls id mode bf kw bud ds idx s s',
  walk_list atttype readonly_names cfgdb storsize scalround cls id mode bf kw bud ds idx s = Ok s' ->
  exists l, w_trace s' = (l ++ w_trace s)%list /\ shape_l bf (is_cfgval cls id mode) idx ds (rev l).
Proof. exact (walk_list_shape_all atttype readonly_names cfgdb storsize scalround). Qed.
Print Assumptions C02_shape.

(* non-vacuity: NAV-style definition with a counted group of two, parsed from 7 bytes *)
Example C02_trace_example :
  exists s', walk_list atttype readonly_names cfgdb storsize scalround [1%N] [2%N] 0%N true None 10
    [ASingle "n" (T lU (Some 1%nat)); AGroup "g" (RNamed "n") [ASingle "a" (T lI (Some 2%nat)); ASingle "b" (T lU (Some 1%nat))]] []
    {| w_off := O; w_pay := [2; 255; 255; 7; 1; 0; 9]%N; w_attrs := []; w_trace := [] |} = Ok s' /\
    w_attrs s' = [("n", PInt 2); ("a_01", PInt (-1)); ("b_01", PInt 7); ("a_02", PInt 1); ("b_02", PInt 9)]%string /\
    w_off s' = 7%nat.
Proof. eexists. split; [vm_compute; reflexivity|]. split; reflexivity. Qed.

(* parsing never alters the payload it reads (every definition, every repeat count) *)
Theorem C02_payload_unchanged : forall cls id mode bf bud ds idx s s',
  walk_list atttype readonly_names cfgdb storsize scalround cls id mode bf None bud ds idx s = Ok s' ->
  w_pay s' = w_pay s.
Proof. exact walk_list_pay. Qed.
Print Assumptions C02_payload_unchanged.

(* an integer field (E, I, L, U of any width) at the current offset: the attribute named base+suffix is set to the
   little-endian / two's-complement decoding of exactly its bytes, and the offset advances by its width *)
Theorem C02_int_field : forall n l w idx s,
  is_int_letter l = true -> starts_with "_HP" (n ++ suffix idx) = false ->
  mem_s (n ++ suffix idx)%string readonly_names = false ->
  single atttype readonly_names scalround None n (T l (Some w)) None idx s =
  Ok {| w_off := (w_off s + w)%nat; w_pay := w_pay s;
        w_attrs := upsert (n ++ suffix idx) (PInt (int_dec (l =? lI)%N (slice (w_pay s) (w_off s) w))) (w_attrs s);
        w_trace := {| fr_base := n; fr_idx := idx; fr_off := w_off s; fr_size := w; fr_kind := FField (T l (Some w)) None;
                      fr_val := PInt (int_dec (l =? lI)%N (slice (w_pay s) (w_off s) w)) |} :: w_trace s |}.
Proof. exact single_parse_int. Qed.
Print Assumptions C02_int_field.

(* a bit flag is the bit slice (bitfield >> offset) & (2^width - 1); reserved flags are not exposed *)
Theorem C02_flag : forall key keyt w fl idx bfv off s,
  keyt = T lU (Some w) ->
  bits_loop readonly_names None ((key, keyt) :: fl) idx bfv off s =
  (do s' <- (if starts_with "reserved" key then Ok s
             else set_attr readonly_names (key ++ suffix idx) (PInt (ext bfv off (Z.of_nat w))) s);
   bits_loop readonly_names None fl idx bfv (off + Z.of_nat w) s').
Proof. exact bits_loop_parse_cons. Qed.
Print Assumptions C02_flag.

(* PAYLOAD VARIANTS of the multi-variant messages (the selectors of ubxvariants.py as modelled; the dispatch table
   `variants` is regenerated from the code on every run).  Length-discriminated variants: the selected definition has
   exactly the discriminating length (table obligation), so a payload of that length is laid out by the definition
   that C02_trace then walks; byte-discriminated variants: selection is by that payload byte alone. *)
Theorem C02_variant_lengths : forallb variant_len_ok variant_len_rows = true.
Proof. exact variant_lengths. Qed.
Print Assumptions C02_variant_lengths.
Theorem C02_variant_cfgnmea : forall p, get_dict [6%N] [23%N] 0 (KwPayload p) p =
  if Nat.eqb (length p) 4 then tab payloads_get "CFG-NMEAvX"
  else if Nat.eqb (length p) 12 then tab payloads_get "CFG-NMEAv0" else tab payloads_get "CFG-NMEA".
Proof. exact sel_cfgnmea. Qed.
Print Assumptions C02_variant_cfgnmea.
Theorem C02_variant_aopstatus : forall p, get_dict [1%N] [96%N] 0 (KwPayload p) p =
  if Nat.eqb (length p) 20 then tab payloads_get "NAV-AOPSTATUS-L" else tab payloads_get "NAV-AOPSTATUS".
Proof. exact sel_aopstatus. Qed.
Print Assumptions C02_variant_aopstatus.
Theorem C02_variant_rxmpmreq : forall p, get_dict [2%N] [65%N] 1 (KwPayload p) p =
  if Nat.eqb (length p) 16 then tab payloads_set "RXM-PMREQ" else tab payloads_set "RXM-PMREQ-S".
Proof. exact sel_rxmpmreq. Qed.
Print Assumptions C02_variant_rxmpmreq.
Theorem C02_variant_rxmrlm : forall p, get_dict [2%N] [89%N] 0 (KwPayload p) p =
  if beq (slice p 1 1) [1%N] then tab payloads_get "RXM-RLM-S" else tab payloads_get "RXM-RLM-L".
Proof. exact sel_rxmrlm. Qed.
Print Assumptions C02_variant_rxmrlm.
Theorem C02_variant_relposned : forall p, get_dict [1%N] [60%N] 0 (KwPayload p) p =
  if beq (slice p 0 1) [0%N] then tab payloads_get "NAV-RELPOSNED-V0" else tab payloads_get "NAV-RELPOSNED".
Proof. exact sel_relposned. Qed.
Print Assumptions C02_variant_relposned.
Theorem C02_variant_secsig : forall p, get_dict [39%N] [9%N] 0 (KwPayload p) p =
  if beq (slice p 0 1) [1%N] then tab payloads_get "SEC-SIG-V1" else tab payloads_get "SEC-SIG-V2".
Proof. exact sel_secsig. Qed.
Print Assumptions C02_variant_secsig.
Theorem C02_variant_alpsrv : forall p, get_dict [11%N] [50%N] 0 (KwPayload p) p =
  if beq (slice p 1 1) [255%N] then tab payloads_get "AID-ALPSRV-SEND" else tab payloads_get "AID-ALPSRV-REQ".
Proof. exact sel_alpsrv. Qed.
Print Assumptions C02_variant_alpsrv.

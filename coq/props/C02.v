(* C02 — parsed attributes are exactly the field values the definition prescribes.
   The walk is instrumented with a ghost trace (one record per field read: base name, index path, offset, width,
   kind, value).  Whole-definition statements: C02_trace (the records tile the payload from offset 0 in order,
   each value is the decoding of exactly its bytes, the attribute dictionary is the records applied in order)
   and C02_shape (the records are the definition unfolded, group members carrying their repeat index path).
   Per-field contracts below them.  Which definition is selected (variants) is C16/C17's subject and is tied by
   correspondence. *)
From PyUbx Require Import Base Bytes PyFloat Types Strs Walk Consts Tables Msg WfDef.
From PyUbx Require Import Msg_lemmas Codec_lemmas Bits_lemmas Field_lemmas Trace_lemmas Shape_lemmas.
Open Scope Z_scope.

(* every definition list, every payload, every repeat count, both bitfield views, every budget: the fields read
   are consecutive byte ranges from offset 0 in definition order (chain), each recorded value is the decoding
   (little-endian / two's complement / IEEE-754 / scaled+rounded / raw bitfield) of exactly its own bytes (good),
   the payload is untouched, and the attributes are the records applied in order: plain fields set their suffixed
   name, _HP fields are merged into their base, bitfields set one attribute per non-reserved flag (apply_all) *)
Theorem C02_trace : forall cls id mode bf bud ds pay s',
  is_cfgval cls id mode = false ->
  walk_list atttype readonly_names cfgdb storsize scalround cls id mode bf None bud ds []
    {| w_off := O; w_pay := pay; w_attrs := []; w_trace := [] |} = Ok s' ->
  chain O (rev (w_trace s')) (w_off s') /\ Forall (good scalround pay) (w_trace s') /\ w_pay s' = pay /\
  apply_all scalround (rev (w_trace s')) [] = Ok (w_attrs s').
Proof.
  intros cls id mode bf bud ds pay s' H.
  exact (walk_from_zero atttype readonly_names cfgdb storsize scalround cls id mode bf bud H ds pay s').
Qed.
Print Assumptions C02_trace.

(* the records are the definition unfolded: one per member in order, groups repeated with index paths
   [1], [2], ... appended (nested groups: [1;1], [1;2], ...), a fixed-count group exactly its count *)
Theorem C02_shape : forall cls id mode bf kw bud ds idx s s',
  walk_list atttype readonly_names cfgdb storsize scalround cls id mode bf kw bud ds idx s = Ok s' ->
  exists l, w_trace s' = (l ++ w_trace s)%list /\ shape_l bf (is_cfgval cls id mode) idx ds (rev l).
Proof. exact (walk_list_shape_all atttype readonly_names cfgdb storsize scalround). Qed.
Print Assumptions C02_shape.

(* non-vacuity: NAV-style definition with a counted group of two, parsed from 7 bytes *)
Example C02_trace_example :
  exists s', walk_list atttype readonly_names cfgdb storsize scalround [1%N] [2%N] 0%N true None 10
    [ASingle "n" (T lU (Some 1%nat)); AGroup "g" (RNamed "n") [ASingle "a" (T lI (Some 2%nat)); ASingle "b" (T lU (Some 1%nat))]] []
    {| w_off := O; w_pay := [2; 255; 255; 7; 1; 0; 9]%N; w_attrs := []; w_trace := [] |} = Ok s' /\
    w_attrs s' = [("n", PInt 2); ("a_01", PInt (-1)); ("b_01", PInt 7); ("a_02", PInt 1); ("b_02", PInt 9)]%string /\
    w_off s' = 7%nat.
Proof. eexists. split; [vm_compute; reflexivity|]. split; reflexivity. Qed.

(* parsing never alters the payload it reads (every definition, every repeat count) *)
Theorem C02_payload_unchanged : forall cls id mode bf bud ds idx s s',
  walk_list atttype readonly_names cfgdb storsize scalround cls id mode bf None bud ds idx s = Ok s' ->
  w_pay s' = w_pay s.
Proof. exact walk_list_pay. Qed.
Print Assumptions C02_payload_unchanged.

(* an integer field (E, I, L, U of any width) at the current offset: the attribute named base+suffix is set to the
   little-endian / two's-complement decoding of exactly its bytes, and the offset advances by its width *)
Theorem C02_int_field : forall n l w idx s,
  is_int_letter l = true -> starts_with "_HP" (n ++ suffix idx) = false ->
  mem_s (n ++ suffix idx)%string readonly_names = false ->
  single atttype readonly_names scalround None n (T l (Some w)) None idx s =
  Ok {| w_off := (w_off s + w)%nat; w_pay := w_pay s;
        w_attrs := upsert (n ++ suffix idx) (PInt (int_dec (l =? lI)%N (slice (w_pay s) (w_off s) w))) (w_attrs s);
        w_trace := {| fr_base := n; fr_idx := idx; fr_off := w_off s; fr_size := w; fr_kind := FField (T l (Some w)) None;
                      fr_val := PInt (int_dec (l =? lI)%N (slice (w_pay s) (w_off s) w)) |} :: w_trace s |}.
Proof. exact single_parse_int. Qed.
Print Assumptions C02_int_field.

(* a bit flag is the bit slice (bitfield >> offset) & (2^width - 1); reserved flags are not exposed *)
Theorem C02_flag : forall key keyt w fl idx bfv off s,
  keyt = T lU (Some w) ->
  bits_loop readonly_names None ((key, keyt) :: fl) idx bfv off s =
  (do s' <- (if starts_with "reserved" key then Ok s
             else set_attr readonly_names (key ++ suffix idx) (PInt (ext bfv off (Z.of_nat w))) s);
   bits_loop readonly_names None fl idx bfv (off + Z.of_nat w) s').
Proof. exact bits_loop_parse_cons. Qed.
Print Assumptions C02_flag.

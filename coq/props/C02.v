(* C02 — parsed attributes are exactly the field values the definition prescribes.
   What is proved so far is the per-field contract and the structural invariants; the whole-definition statement
   (ordered attribute list = decoding of consecutive fields) is decided by correspondence + an independent spec
   decoder on every definition, see the check. *)
From PyUbx Require Import Base Bytes PyFloat Types Strs Walk Consts Tables Msg WfDef.
From PyUbx Require Import Msg_lemmas Codec_lemmas Bits_lemmas Field_lemmas.
Open Scope Z_scope.

(* parsing never alters the payload it reads (every definition, every repeat count) *)
Theorem C02_payload_unchanged : forall cls id mode bf bud ds idx s s',
  walk_list atttype readonly_names cfgdb storsize scalround cls id mode bf None bud ds idx s = Ok s' ->
  w_pay s' = w_pay s.
Proof. exact walk_list_pay. Qed.
Print Assumptions C02_payload_unchanged.

(* an integer field (E, I, L, U of any width) at the current offset: the attribute named base+suffix is set to the
   little-endian / two's-complement decoding of exactly its bytes, and the offset advances by its width *)
Theorem C02_int_field : forall n l w idx s,
  is_int_letter l = true -> starts_with "_HP" (n ++ suffix idx) = false ->
  mem_s (n ++ suffix idx)%string readonly_names = false ->
  single atttype readonly_names scalround None n (T l (Some w)) None idx s =
  Ok {| w_off := (w_off s + w)%nat; w_pay := w_pay s;
        w_attrs := upsert (n ++ suffix idx) (PInt (int_dec (l =? lI)%N (slice (w_pay s) (w_off s) w))) (w_attrs s) |}.
Proof. exact single_parse_int. Qed.
Print Assumptions C02_int_field.

(* a bit flag is the bit slice (bitfield >> offset) & (2^width - 1); reserved flags are not exposed *)
Theorem C02_flag : forall key keyt w fl idx bfv off s,
  keyt = T lU (Some w) ->
  bits_loop readonly_names None ((key, keyt) :: fl) idx bfv off s =
  (do s' <- (if starts_with "reserved" key then Ok s
             else set_attr readonly_names (key ++ suffix idx) (PInt (ext bfv off (Z.of_nat w))) s);
   bits_loop readonly_names None fl idx bfv (off + Z.of_nat w) s').
Proof. exact bits_loop_parse_cons. Qed.
Print Assumptions C02_flag.

(* C15 — bad attribute values are refused, never silently mis-encoded. *)
From PyUbx Require Import Base Bytes PyFloat Types Strs Walk Consts Tables Msg.
From PyUbx Require Import Codec_lemmas Bits_lemmas Field_lemmas Exn_lemmas C08_lemmas.
From PyUbx Require Import Trace_lemmas Shape_lemmas Build_lemmas Len_lemmas Msg_rt WfDef Scaled_bound.
From Coq Require Import Reals.
From Flocq Require Import Core.Core IEEE754.BinarySingleNaN.
Open Scope Z_scope.

(* construction from ANY keyword values (every pyval: ints of any size, floats incl. nan/inf, bytes/str of any
   length, lists, None, other) either returns a message or raises UBXMessageError / UBXTypeError — never another
   exception class (EOther = the executable model declines: group count above its budget) *)
Theorem C15_no_foreign : forall cls id mode bf k e,
  construct cls id mode bf (KwAttrs k) = Raise e -> e = EUBXMessage \/ e = EUBXType \/ e = EOther.
Proof. intros cls id mode bf k. exact (construct_exn cls id mode bf (KwAttrs k)). Qed.
Print Assumptions C15_no_foreign.

(* whatever values are supplied (any pyval under any name), a build that succeeds over a definition without C-type
   members produced exactly as many bytes as the widths of the fields walked: no value can lengthen or shorten
   the payload *)
Theorem C15_build_length : forall cls id mode bf k bud ds s',
  is_cfgval cls id mode = false -> Forall (leaves len_kind) ds ->
  walk_list atttype readonly_names cfgdb storsize scalround cls id mode bf (Some k) bud ds []
    {| w_off := O; w_pay := []; w_attrs := []; w_trace := [] |} = Ok s' ->
  length (w_pay s') = w_off s' /\ w_off s' = widths (w_trace s').
Proof. exact (build_length atttype readonly_names cfgdb storsize scalround). Qed.
Print Assumptions C15_build_length.

(* ... and the bytes at each field's own offset are the encoding of that field's own value (a function of its
   kind, width and value alone): a value that does not fit can never alter the bytes of another field *)
Theorem C15_field_bytes : forall cls id mode bf k bud ds s',
  is_cfgval cls id mode = false -> Forall (leaves len_kind) ds ->
  walk_list atttype readonly_names cfgdb storsize scalround cls id mode bf (Some k) bud ds []
    {| w_off := O; w_pay := []; w_attrs := []; w_trace := [] |} = Ok s' ->
  Forall (fun r => exists b, encode_of atttype r = Ok b /\ slice (w_pay s') (fr_off r) (fr_size r) = b) (w_trace s').
Proof. exact (build_slices atttype readonly_names cfgdb storsize scalround). Qed.
Print Assumptions C15_field_bytes.

(* message level: for a fixed-size definition without C-type members, any keyword values whatsoever either raise
   or give a payload of exactly the definition's size, and the length field says so *)
Theorem C15_construct_length : forall cls id mode bf a m ds,
  a <> [] ->
  construct cls id mode bf (KwAttrs a) = Ok m ->
  get_dict cls id mode (KwAttrs a) [] = Ok ds ->
  forallb fixedb ds && forallb lenb ds = true -> is_cfgval cls id mode = false ->
  exists p, m_payload m = Some p /\ length p = def_min ds /\ msg_length m = Z.of_nat (def_min ds).
Proof. exact construct_length. Qed.
Print Assumptions C15_construct_length.

(* non-vacuity: most shipped definitions are fixed-size without C-type members *)
Example C15_fixed_entries_many :
  Nat.leb 250 (length (filter (fun me => forallb fixedb (snd (snd me)) && forallb lenb (snd (snd me))) all_entries)) = true.
Proof. vm_compute. reflexivity. Qed.

(* integers that do not fit are refused, for every width and signedness *)
Theorem C15_int_refused : forall l w z, is_int_letter l = true -> (0 < w)%nat -> ~ in_range (l =? lI)%N w z ->
  v2b (PInt z) (T l (Some w)) = Raise EOverflow.
Proof. exact c18_int_refuse. Qed.
Print Assumptions C15_int_refused.

(* a bitfield (X) value of the wrong byte length is refused *)
Theorem C15_x_length : forall bs w, length bs <> w -> v2b (PBytes bs) (T lX (Some w)) = Raise EValue.
Proof. exact c18_x_refuse. Qed.
Print Assumptions C15_x_length.

(* a flag value is accepted only if it fits its flag ... *)
Theorem C15_flag_range : forall v atts z, flag_value v atts = Ok z -> 0 <= z < 2 ^ atts /\ v = PInt z.
Proof. exact flag_value_range. Qed.
Print Assumptions C15_flag_range.

(* ... and then it never alters the bits of another flag *)
Theorem C15_flag_isolation : forall bf off w v off' w', 0 <= off -> 0 <= off' -> 0 <= w' -> 0 <= v < 2 ^ w ->
  (off' + w' <= off \/ off + w <= off') -> ext (ins bf off v) off' w' = ext bf off' w'.
Proof. exact ext_ins_other. Qed.
Print Assumptions C15_flag_isolation.

(* REFUTED for C-type values (recorded finding): no length check *)
Theorem C15_clen_refuted : val2bytes atttype (PStr [97; 98; 99]%N) (T lC (Some 6%nat)) = Ok [97; 98; 99]%N.
Proof. exact clen_refuted. Qed.
Print Assumptions C15_clen_refuted.

(* SCALED FIELDS: "every field decodes to the value supplied (to within one unit of resolution)".  A finite float v
   supplied for a field with float scale s is encoded as z = int(v / s); when z fits 32 bits (every U1..U4 / I1..I4
   field) the value the parse side reports, round(z * s, 12), differs from v by at most one unit s (plus one
   thousandth of that unit and the 12-decimal rounding grain) - for EVERY finite v and EVERY positive finite s.
   Real-number error analysis over Flocq; axioms: the four of the standard library's reals (Print Assumptions). *)
Theorem C15_scaled_within_unit : forall vf b q z v',
  fin vf -> fin (b64_of_bits b) -> (0 < R_of (b64_of_bits b))%R ->
  py_div_scale (PFloat vf) (SFloat b) = Ok q -> py_int_of_float q = Ok z -> (Z.abs z <= 2 ^ 32)%Z ->
  (do m <- py_mul_scale (PInt z) (SFloat b); py_round12 12 m) = Ok (PFloat v') -> is_finite_SF v' = true ->
  (Rabs (R_of v' - R_of vf) <= R_of (b64_of_bits b) * (1 + / 1000) + / ten12)%R.
Proof. exact scaled_build_parse_within_unit. Qed.
Print Assumptions C15_scaled_within_unit.

(* non-vacuity: 3653.90516 supplied for a 1e-5-scaled field: premises hold, z = 365390515 *)
Example C15_scaled_example :
  let vf := b64_of_bits 4660253437494143819 in let b := 4532020583610935537 in
  exists q z, py_div_scale (PFloat vf) (SFloat b) = Ok q /\ py_int_of_float q = Ok z /\ (Z.abs z <= 2 ^ 32)%Z.
Proof. cbv zeta. eexists. eexists. split; [vm_compute; reflexivity|]. split; [vm_compute; reflexivity|]. vm_compute. discriminate. Qed.

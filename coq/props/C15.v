(* C15 — bad attribute values are refused, never silently mis-encoded. *)
From PyUbx Require Import Base Bytes PyFloat Types Strs Walk Consts Tables Msg.
From PyUbx Require Import Codec_lemmas Bits_lemmas Field_lemmas Exn_lemmas C08_lemmas.
Open Scope Z_scope.

(* construction from ANY keyword values (every pyval: ints of any size, floats incl. nan/inf, bytes/str of any
   length, lists, None, other) either returns a message or raises UBXMessageError / UBXTypeError — never another
   exception class (EOther = the executable model declines: group count above its budget) *)
Theorem C15_no_foreign : forall cls id mode bf k e,
  construct cls id mode bf (KwAttrs k) = Raise e -> e = EUBXMessage \/ e = EUBXType \/ e = EOther.
Proof. intros cls id mode bf k. exact (construct_exn cls id mode bf (KwAttrs k)). Qed.
Print Assumptions C15_no_foreign.

(* integers that do not fit are refused, for every width and signedness *)
Theorem C15_int_refused : forall l w z, is_int_letter l = true -> (0 < w)%nat -> ~ in_range (l =? lI)%N w z ->
  v2b (PInt z) (T l (Some w)) = Raise EOverflow.
Proof. exact c18_int_refuse. Qed.
Print Assumptions C15_int_refused.

(* a bitfield (X) value of the wrong byte length is refused *)
Theorem C15_x_length : forall bs w, length bs <> w -> v2b (PBytes bs) (T lX (Some w)) = Raise EValue.
Proof. exact c18_x_refuse. Qed.
Print Assumptions C15_x_length.

(* a flag value is accepted only if it fits its flag ... *)
Theorem C15_flag_range : forall v atts z, flag_value v atts = Ok z -> 0 <= z < 2 ^ atts /\ v = PInt z.
Proof. exact flag_value_range. Qed.
Print Assumptions C15_flag_range.

(* ... and then it never alters the bits of another flag *)
Theorem C15_flag_isolation : forall bf off w v off' w', 0 <= off -> 0 <= off' -> 0 <= w' -> 0 <= v < 2 ^ w ->
  (off' + w' <= off \/ off + w <= off') -> ext (ins bf off v) off' w' = ext bf off' w'.
Proof. exact ext_ins_other. Qed.
Print Assumptions C15_flag_isolation.

(* REFUTED for C-type values (recorded finding): no length check *)
Theorem C15_clen_refuted : val2bytes atttype (PStr [97; 98; 99]%N) (T lC (Some 6%nat)) = Ok [97; 98; 99]%N.
Proof. exact clen_refuted. Qed.
Print Assumptions C15_clen_refuted.

(* C08 — no input makes parsing or reading fail with a foreign exception or hang. *)
From PyUbx Require Import Base Bytes Frame Types Walk Tables Msg Reader Socket Reader_generic Reader_file Socket_lemmas Exn_lemmas C08_lemmas.
Open Scope N_scope.

(* for every byte string, msgmode, validate and bitfield setting, with the shipped tables: parse returns a
   message or raises UBXParseError / UBXMessageError / UBXTypeError.  (EOther = the executable model declines
   because a group repeat count exceeds its budget; the real code has no such bound.) *)
Theorem C08_parse_no_foreign : forall msgmode v bf f e,
  parse msgmode v bf f = Raise e -> e = EUBXParse \/ e = EUBXMessage \/ e = EUBXType \/ e = EOther.
Proof. exact parse_exn4. Qed.
Print Assumptions C08_parse_no_foreign.

(* the same for the constructor with ANY keyword values (this is also C15's "never escapes as a different
   exception type") *)
Theorem C08_construct_no_foreign : forall cls id mode bf k e,
  construct cls id mode bf k = Raise e -> e = EUBXMessage \/ e = EUBXType \/ e = EOther.
Proof. exact construct_exn. Qed.
Print Assumptions C08_construct_no_foreign.

(* the table obligation behind it: no definition can divide by zero (zero scale, empty variable group) *)
Theorem C08_no_zero_div : forallb (fun ds => negb (zdp_list ds)) all_defs = true.
Proof. exact no_zero_div_in_tables. Qed.
Print Assumptions C08_no_zero_div.

(* inspection: identity, length, payload, msgmode, serialize and the repr arguments are total functions of a
   message in the model (no result type), so they return for every message parse yields; str()'s text is not
   modelled (its raising behaviour is exercised by the check). *)

(* reader: iteration terminates (the loop never needs more than |s|+1 iterations) *)
Theorem C08_read_terminates : forall (P : Type) (parse : N -> bytes -> result P) (nmea_hdr : N -> bool) c s,
  out_of_fuel (file_read_all parse nmea_hdr c s) = false.
Proof. exact @c08_read_terminates. Qed.
Print Assumptions C08_read_terminates.

(* with ERR_IGNORE / ERR_LOG it never raises (given parsers that raise only their protocol errors) *)
Theorem C08_read_no_raise : forall (P : Type) (parse : N -> bytes -> result P) (nmea_hdr : N -> bool) c s,
  parse_protocol_only parse -> quitonerror c <> 2 ->
  raised (file_read_all parse nmea_hdr c s) = None /\ final (file_read_all parse nmea_hdr c s) = [].
Proof. exact @c07_eof_exact. Qed.
Print Assumptions C08_read_no_raise.

(* with ERR_RAISE whatever is raised is a UBX*/NMEA*/RTCM* protocol error *)
Theorem C08_read_raise_family : forall (P : Type) (parse : N -> bytes -> result P) (nmea_hdr : N -> bool) c s x,
  parse_protocol_only parse -> raised (file_read_all parse nmea_hdr c s) = Some x ->
  is_protocol_exn x = true /\ quitonerror c = 2.
Proof. exact @c08_read_raise_family. Qed.
Print Assumptions C08_read_raise_family.

(* iteration over a SOCKET terminates too: for every schedule of recv() results whose failures (close, timeout,
   OSError) come after the last data, every configuration and parser behaviour, the loop bound
   |bytes the socket will deliver| + 1 is never exhausted *)
Theorem C08_sock_terminates : forall (P : Type) (parse : N -> bytes -> result P) (nmea_hdr : N -> bool) c l,
  tail_fail l -> out_of_fuel (sock_run parse nmea_hdr c l) = false.
Proof. exact @c08_sock_terminates. Qed.
Print Assumptions C08_sock_terminates.

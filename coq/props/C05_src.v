(* C05_src — the part of C05's model that is hand-written, tied to /repo's source by translation. Statements only. *)
From PyUbx Require Import Base Bytes Fletcher Frame Types Strs Walk Consts Tables Msg.
(* ==== tie to the source by translation (harness/py2coq.py -> gen/PySrc.v, regenerated from /repo on every run) ====
   `translated` lists the functions the translator could handle on this run; for a function that is not in it the
   statement is empty and the tie is the correspondence check alone (the harness reports which). *)
From Coq Require Import ZArith List String.
From PyUbx Require Import Strs PyMini PySrc Src_common Src_parse.

(* the body of UBXReader.parse as the source has it now (header / length / checksum tests, SETPOLL resolution, the
   final constructor call) is the model's parse, for every byte string and every option value *)
Theorem C05_parse_from_source : mem_s "py_parse" translated = true ->
  forall msgmode validate bf message,
  (do c <- py_parse (gbytes message) (gint (Z.of_N msgmode)) (gint (Z.of_N validate)) (gbool bf); run_call c)
  = Msg.parse msgmode validate bf message.
Proof. exact parse_agree. Qed.
Print Assumptions C05_parse_from_source.

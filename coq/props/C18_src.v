(* C18_src — the part of C18's model that is hand-written, tied to /repo's source by translation. Statements only. *)
From PyUbx Require Import Base Bytes Fletcher Frame Types Strs Walk Consts Tables Msg.
(* ==== tie to the source by translation (harness/py2coq.py -> gen/PySrc.v, regenerated from /repo on every run) ====
   `translated` lists the functions the translator could handle on this run; for a function that is not in it the
   statement is empty and the tie is the correspondence check alone (the harness reports which). *)
From Coq Require Import ZArith List String.
From PyUbx Require Import Strs PyMini PySrc Src_common Src_checksum.

(* calc_checksum / isvalid_checksum as the source has them now are the model's, for every byte string (the loop of
   calc_checksum by induction over the bytes) *)
Theorem C18_checksum_from_source : mem_s "py_calc_checksum" translated = true ->
  forall bs, py_calc_checksum (gbytes bs) = Ok (gbytes (fletcher bs)).
Proof. exact calc_checksum_agree. Qed.
Print Assumptions C18_checksum_from_source.

Theorem C18_isvalid_from_source : mem_s "py_isvalid_checksum" translated = true ->
  forall m, py_isvalid_checksum (gbytes m) = Ok (gbool (isvalid_checksum m)).
Proof. exact isvalid_checksum_agree. Qed.
Print Assumptions C18_isvalid_from_source.

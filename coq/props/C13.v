(* C13 — messages are immutable and parsing/generating has no side effects.
   In the model a message is a value and every operation a function of its arguments, so freedom from
   side effects and history independence hold by construction; what the theorems add is that the
   immutability flag is set on every path out of the constructor.  That the implementation IS this
   function under every history and thread interleaving is what the correspondence checks. *)
From PyUbx Require Import Base Bytes Frame Types Walk Tables Msg C13_lemmas.

(* assigning any attribute (existing, private or new) of any constructed message raises
   UBXMessageError and yields no new state *)
Theorem C13_setattr : forall cls id mode bf k m name v,
  construct cls id mode bf k = Ok m -> setattr_ m name v = Raise EUBXMessage.
Proof. exact c13_setattr. Qed.
Print Assumptions C13_setattr.

Theorem C13_delattr : forall cls id mode bf k m name,
  construct cls id mode bf k = Ok m -> delattr_ m name = Raise EUBXMessage.
Proof. exact c13_delattr. Qed.
Print Assumptions C13_delattr.

Theorem C13_parsed_immutable : forall msgmode v bf f m name x,
  parse msgmode v bf f = Ok m ->
  setattr_ m name x = Raise EUBXMessage /\ delattr_ m name = Raise EUBXMessage.
Proof. exact c13_parsed_immutable. Qed.
Print Assumptions C13_parsed_immutable.

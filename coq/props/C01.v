(* C01 — parsing then serializing a UBX frame reproduces it byte for byte. *)
From PyUbx Require Import Base Bytes Frame Types Msg C01_lemmas.
Open Scope Z_scope.

(* for every well-formed frame (any class/id, any payload, any length), every msgmode incl. SETPOLL,
   both validate settings, both bitfield settings: if parse returns a message, its serialization is
   the input and its class, id, length and payload are the frame's fields *)
Theorem C01_roundtrip : forall msgmode v bf f m,
  WellFormed f -> parse msgmode v bf f = Ok m ->
  serialize m = f /\
  exists c i p, f = mk_frame c i p /\ m_cls m = [c] /\ m_id m = [i] /\
    msg_length m = Z.of_nat (length p) /\
    m_payload m = match p with [] => None | _ => Some p end.
Proof. exact c01_roundtrip. Qed.
Print Assumptions C01_roundtrip.

(* the message eval(repr(m)) constructs serializes to the same bytes *)
Theorem C01_repr : forall msgmode v bf f m m',
  parse msgmode v bf f = Ok m -> repr_construct m = Ok m' -> serialize m' = serialize m.
Proof. exact c01_repr. Qed.
Print Assumptions C01_repr.

(* PARTIAL (bitfield setting True only): evaluating repr() succeeds, yielding the same message.
   Missing: for parsebitfield=False the re-construction runs with bitfields parsed; that it cannot
   fail where the unparsed walk succeeded is covered by correspondence only. *)
Theorem C01_repr_total_partial : forall msgmode v f m,
  parse msgmode v true f = Ok m -> repr_construct m = Ok m.
Proof. exact c01_repr_total_bf. Qed.
Print Assumptions C01_repr_total_partial.

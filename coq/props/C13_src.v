(* C13_src — the part of C13's model that is hand-written, tied to /repo's source by translation. Statements only. *)
From PyUbx Require Import Base Bytes Fletcher Frame Types Strs Walk Consts Tables Msg.
(* ==== tie to the source by translation (harness/py2coq.py -> gen/PySrc.v, regenerated from /repo on every run) ====
   `translated` lists the functions the translator could handle on this run; for a function that is not in it the
   statement is empty and the tie is the correspondence check alone (the harness reports which). *)
From Coq Require Import ZArith List String.
From PyUbx Require Import Strs PyMini PySrc Src_common Src_setdel.

(* __setattr__ / __delattr__ as the source has them now: UBXMessageError whenever _immutable is set, for every name
   and value; otherwise exactly one delegation to object with the same arguments *)
Theorem C13_setattr_from_source : mem_s "py_setattr" translated = true ->
  forall (imm : bool) name value,
  py_setattr (gbool imm) name value =
  if imm then Raise EUBXMessage else Ok (Tup [gnone; Tup []; Tup [Call "super.__setattr__" [name; value] []]]).
Proof. exact setattr_agree. Qed.
Print Assumptions C13_setattr_from_source.

Theorem C13_delattr_from_source : mem_s "py_delattr" translated = true ->
  forall (imm : bool) name,
  py_delattr (gbool imm) name =
  if imm then Raise EUBXMessage else Ok (Tup [gnone; Tup []; Tup [Call "super.__delattr__" [name] []]]).
Proof. exact delattr_agree. Qed.
Print Assumptions C13_delattr_from_source.

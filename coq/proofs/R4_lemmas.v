(* R4_lemmas.v — single-precision fields (R4): unpack then pack is the identity on every non-NaN 32-bit pattern (C18).
   struct.unpack("<f") widens exactly (b64_of_b32), struct.pack("<f") rounds to nearest even (b32_round); on a value
   that came from 32 bits the rounding is exact.  Through Flocq: both conversions are SpecFloat.binary_round, which is
   Flocq's correctly rounded binary_round; a binary32 value is in the binary64 format; two valid binary32 floats with
   the same real value and sign are equal.  Axioms: the four real-number axioms of the standard library. *)
From Coq Require Import ZArith Reals Lia Lra Floats.SpecFloat.
From Flocq Require Import Core.Core IEEE754.BinarySingleNaN.
From PyUbx Require Import Base Bytes PyFloat Types Tac Bytes_lemmas Flocq_bridge.
Open Scope R_scope.



#[local] Instance Hp24 : Prec_gt_0 24 := eq_refl.
#[local] Instance Hm24 : Prec_lt_emax 24%Z 128%Z := eq_refl.
#[local] Instance Hp53 : Prec_gt_0 53 := eq_refl.
#[local] Instance Hm53 : Prec_lt_emax 53%Z 1024%Z := eq_refl.

Lemma valid32_format s m e : valid_binary 24%Z 128%Z (S754_finite s m e) = true ->
  generic_format radix2 (fexp 24%Z 128%Z) (F2R (Float radix2 (cond_Zopp s (Zpos m)) e)) /\
  generic_format radix2 (fexp 53%Z 1024%Z) (F2R (Float radix2 (cond_Zopp s (Zpos m)) e)) /\
  Rabs (F2R (Float radix2 (cond_Zopp s (Zpos m)) e)) < bpow radix2 128%Z.
Proof.
  intros Hv. cbn [valid_binary] in Hv.
  pose (b := @B754_finite 24%Z 128%Z s m e Hv).
  pose proof (generic_format_B2R 24%Z 128%Z b) as G32. cbn [B2R b] in G32.
  pose proof (abs_B2R_lt_emax 24%Z 128%Z b) as L. cbn [B2R b] in L.
  split; [exact G32|]. split; [|exact L].
  (* binary32 values are binary64 values: same significand, exponent range is wider *)
  apply generic_format_FLT. apply FLT_format_generic in G32; [|auto with typeclass_instances].
  destruct G32 as [f Hf Hm Hex]. exists f; [exact Hf| |].
  - eapply Z.lt_le_trans; [exact Hm|]. apply Zpower_le. lia.
  - eapply Z.le_trans; [|exact Hex]. unfold emin. lia.
Qed.

Theorem r4_roundtrip s m e : valid_binary 24%Z 128%Z (S754_finite s m e) = true ->
  b32_round (b64_of_b32 (S754_finite s m e)) = Ok (S754_finite s m e).
Proof.
  intros Hv. destruct (valid32_format s m e Hv) as (G32 & G64 & L).
  cbn [b64_of_b32]. change PyFloat.prec with 53%Z. change PyFloat.emax with 1024%Z.
  assert (L64 : Rabs (F2R (Float radix2 (cond_Zopp s (Zpos m)) e)) < bpow radix2 1024%Z).
  { eapply Rlt_trans; [exact L|]. apply bpow_lt. lia. }
  destruct (round_exact 53%Z 1024%Z _ _ s m e G64 L64) as (V1 & R1 & F1 & S1).
  set (y := SpecFloat.binary_round 53%Z 1024%Z s m e) in *.
  assert (Hnz : F2R (Float radix2 (cond_Zopp s (Zpos m)) e) <> 0).
  { apply F2R_neq_0. destruct s; discriminate. }
  destruct y as [sy|sy| |sy my ey] eqn:Ey; try discriminate.
  { cbn [SF2R] in R1. congruence. }
  cbn [sign_SF] in S1. subst sy. cbn [SF2R] in R1.
  cbn [b32_round].
  assert (G32' : generic_format radix2 (fexp 24%Z 128%Z) (F2R (Float radix2 (cond_Zopp s (Zpos my)) ey))) by (rewrite R1; exact G32).
  assert (L' : Rabs (F2R (Float radix2 (cond_Zopp s (Zpos my)) ey)) < bpow radix2 128%Z) by (rewrite R1; exact L).
  destruct (round_exact 24%Z 128%Z _ _ s my ey G32' L') as (V2 & R2 & F2 & S2).
  set (z := SpecFloat.binary_round 24%Z 128%Z s my ey) in *.
  assert (Ez : z = S754_finite s m e).
  { rewrite R1 in R2.
    pose (bz := @SF2B 24%Z 128%Z z V2). pose (bx := @B754_finite 24%Z 128%Z s m e Hv).
    assert (Hb : bz = bx).
    { apply B2R_Bsign_inj.
      - unfold bz. rewrite is_finite_SF2B. exact F2.
      - reflexivity.
      - unfold bz. rewrite B2R_SF2B. exact R2.
      - unfold bz. rewrite Bsign_SF2B. exact S2. }
    apply (f_equal (B2SF (prec:=24%Z) (emax:=128%Z))) in Hb. unfold bz in Hb. rewrite B2SF_SF2B in Hb. exact Hb. }
  rewrite Ez. reflexivity.
Qed.

(* ---- bit patterns ---- *)
Open Scope Z_scope.
Lemma testbit31 b : 0 <= b < 2^32 -> Z.testbit b 31 = (2^31 <=? b).
Proof.
  intros H.
  destruct (Z.leb_spec (2^31) b).
  - apply Z.testbit_true; [lia|]. change (2^31) with 2147483648 in *. change (2^32) with 4294967296 in *.
    assert (b / 2147483648 = 1) by lia. rewrite H1. reflexivity.
  - apply Z.testbit_false; [lia|]. change (2^31) with 2147483648 in *.
    assert (b / 2147483648 = 0) by lia. rewrite H1. reflexivity.
Qed.

Definition not_nan32 (b : Z) : Prop := (b / 2 ^ 23) mod 256 = 255 -> b mod 2 ^ 23 = 0.

Lemma digits_pos p : Z.pos (digits2_pos p) = Zdigits radix2 (Z.pos p).
Proof. apply Digits.Zpos_digits2_pos. Qed.

Lemma valid_sub p : Z.pos p < 2 ^ 23 -> valid_binary 24 128 (S754_finite false p (-149)) = true.
Proof.
  intros H. cbn [valid_binary]. unfold bounded, canonical_mantissa. rewrite digits_pos.
  assert (Hd : Zdigits radix2 (Z.pos p) <= 23).
  { apply Zdigits_le_Zpower. rewrite Z.abs_eq by lia. exact H. }
  assert (0 < Zdigits radix2 (Z.pos p)) by (apply Zdigits_gt_0; lia).
  unfold SpecFloat.fexp, SpecFloat.emin. apply andb_true_intro. split; [apply Zeq_bool_true; lia|apply Zle_bool_true; lia].
Qed.

Lemma valid_norm p ex : 2 ^ 23 <= Z.pos p < 2 ^ 24 -> 1 <= ex <= 254 -> valid_binary 24 128 (S754_finite false p (ex - 150)) = true.
Proof.
  intros H He. cbn [valid_binary]. unfold bounded, canonical_mantissa. rewrite digits_pos.
  assert (Hd : Zdigits radix2 (Z.pos p) = 24).
  { apply Zdigits_unique. rewrite Z.abs_eq by lia. exact H. }
  rewrite Hd. unfold SpecFloat.fexp, SpecFloat.emin. apply andb_true_intro. split; [apply Zeq_bool_true; lia|apply Zle_bool_true; lia].
Qed.

Lemma valid_sign s m e : valid_binary 24 128 (S754_finite false m e) = true -> valid_binary 24 128 (S754_finite s m e) = true.
Proof. exact (fun H => H). Qed.

(* every non-NaN pattern: the unpacked value packs to the same 4 bytes *)
Theorem r4_bits_rt b : 0 <= b < 2 ^ 32 -> not_nan32 b ->
  exists g, b32_round (b64_of_b32 (b32_of_bits b)) = Ok g /\ bits_of_b32 g = b.
Proof.
  intros Hb Hn. unfold not_nan32 in Hn. unfold b32_of_bits. rewrite testbit31 by assumption.
  change (2^23) with 8388608 in *. change (2^31) with 2147483648 in *. change (2^32) with 4294967296 in *.
  set (ex := (b / 8388608) mod 256) in *. set (mant := b mod 8388608) in *.
  assert (Hex: 0 <= ex < 256) by (subst ex; lia).
  assert (Hm: 0 <= mant < 8388608) by (subst mant; lia).
  assert (Hdec: b = (if 2147483648 <=? b then 2147483648 else 0) + ex * 8388608 + mant).
  { subst ex mant. destruct (Z.leb_spec 2147483648 b); lia. }
  set (sg := 2147483648 <=? b) in *.
  destruct (Z.eqb_spec ex 0) as [E0|E0].
  - destruct mant as [|p|p] eqn:Em; try lia.
    + eexists. split; [cbn [b64_of_b32 b32_round]; reflexivity|]. cbn [bits_of_b32]. change (2^31) with 2147483648. rewrite E0 in Hdec. destruct sg; lia.
    + assert (Hv : valid_binary 24 128 (S754_finite sg p (-149)) = true) by (apply valid_sign, valid_sub; change (2^23) with 8388608; lia).
      eexists. split; [apply r4_roundtrip; exact Hv|].
      cbn [bits_of_b32]. change (2^31) with 2147483648. change (2^23) with 8388608.
      replace (Z.pos p <? 8388608) with true by lia. rewrite E0 in Hdec. destruct sg; lia.
  - destruct (Z.eqb_spec ex 255) as [E1|E1].
    + specialize (Hn E1). replace (mant =? 0) with true by lia.
      eexists. split; [cbn [b64_of_b32 b32_round]; reflexivity|]. cbn [bits_of_b32]. change (2^31) with 2147483648. change (2^23) with 8388608. destruct sg; lia.
    + destruct (mant + 8388608) as [|p|p] eqn:Ep; try lia.
      assert (Hv : valid_binary 24 128 (S754_finite sg p (ex - 150)) = true).
      { apply valid_sign, valid_norm; [change (2^23) with 8388608; change (2^24) with 16777216|]; lia. }
      eexists. split; [apply r4_roundtrip; exact Hv|].
      cbn [bits_of_b32]. change (2^31) with 2147483648. change (2^23) with 8388608.
      replace (Z.pos p <? 8388608) with false by lia. destruct sg; lia.
Qed.

(* at the codec: bytes2val then val2bytes on an R4 field returns the 4 bytes it was given *)
Theorem r4_codec_rt bs :
  wfb bs -> length bs = 4%nat -> not_nan32 (Z.of_N (uint_of_le bs)) ->
  exists f, bytes2val bs (T lR (Some 4%nat)) = Ok (PFloat f) /\
            (exists g, b32_round f = Ok g /\ enc_le 4 (Z.to_N (bits_of_b32 g)) = bs).
Proof.
  intros Hw Hl Hn. unfold bytes2val. cbn. rewrite Hl. cbn.
  eexists. split; [reflexivity|].
  pose proof (uint_of_le_bound bs Hw) as Hbd. rewrite Hl in Hbd.
  assert (Hb : 0 <= Z.of_N (uint_of_le bs) < 2 ^ 32) by (change (2^32) with 4294967296; change (256 ^ N.of_nat 4)%N with 4294967296%N in Hbd; lia).
  destruct (r4_bits_rt _ Hb Hn) as (g & Hg & Hbits). exists g. split; [exact Hg|].
  rewrite Hbits, N2Z.id. pose proof (enc_le_uint bs Hw) as He. rewrite Hl in He. exact He.
Qed.

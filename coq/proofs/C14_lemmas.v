From PyUbx Require Import Base Bytes Fletcher Frame PyFloat Types Strs Walk Consts Tables Msg WfDef.
From PyUbx Require Import Tac Bytes_lemmas Msg_lemmas Codec_lemmas Table_props.
Open Scope Z_scope.

Lemma valset_addr : msgstr2bytes "CFG" "CFG-VALSET" = Ok ([6%N], [138%N]).
Proof. vm_compute. reflexivity. Qed.
Lemma valdel_addr : msgstr2bytes "CFG" "CFG-VALDEL" = Ok ([6%N], [140%N]).
Proof. vm_compute. reflexivity. Qed.
Lemma valget_addr : msgstr2bytes "CFG" "CFG-VALGET" = Ok ([6%N], [139%N]).
Proof. vm_compute. reflexivity. Qed.

Lemma bind_ok_inv {A B} (r : result A) (k : A -> result B) y :
  bind r k = Ok y -> exists x, r = Ok x /\ k x = Ok y.
Proof. destruct r as [x|e]; [intros H; exists x; split; [reflexivity|exact H]|discriminate]. Qed.

Lemma named_inv c i mode p m :
  named c i mode p = Ok m ->
  exists ci, msgstr2bytes c i = Ok ci /\ construct (fst ci) (snd ci) mode true (KwPayload p) = Ok m.
Proof. unfold named. apply bind_ok_inv. Qed.

Ltac bindok H := let x := fresh "x" in let E := fresh "E" in
  apply bind_ok_inv in H; destruct H as (x & E & H).

(* one configuration item on the wire: 32-bit little-endian key id, then the value at the width of the key's type *)
Definition item_bytes (kv : cfgkey * pyval) : result bytes :=
  do ka <- match fst kv with
           | KName s => cfgname2key s
           | KId z => do r <- cfgkey2name_ z; Ok (z, snd r)
           end;
  do keyb <- int_enc false 4 (fst ka);
  do valb <- Msg.v2b (snd kv) (snd ka);
  Ok (keyb ++ valb)%list.

Fixpoint items_layout (l : list (cfgkey * pyval)) : result bytes :=
  match l with [] => Ok [] | kv :: t => do b <- item_bytes kv; do r <- items_layout t; Ok (b ++ r)%list end.

Lemma cfg_items_spec items : cfg_items items = items_layout items.
Proof.
  induction items as [|[k v] t IH]; [reflexivity|].
  cbn [cfg_items items_layout]. unfold item_bytes. cbn [fst snd]. rewrite IH.
  destruct (match k with KName s => _ | KId z => _ end) as [ka|]; [|reflexivity]. cbn [bind].
  unfold U4. rewrite (Msg_lemmas.v2b_U 4).
  destruct (int_enc false 4 (fst ka)) as [keyb|]; [|reflexivity]. cbn [bind].
  destruct (Msg.v2b v (snd ka)) as [valb|]; [|reflexivity]. cbn [bind].
  destruct (items_layout t) as [rest|]; [|reflexivity]. cbn [bind].
  now rewrite <- app_assoc.
Qed.

(* config_set: documented 4-byte header, then each (key id, value) in order *)
Theorem c14_set_layout l t items m :
  config_set l t items = Ok m ->
  exists lay tr lis,
    int_enc false 1 l = Ok lay /\ int_enc false 1 t = Ok tr /\ cfg_items items = Ok lis /\
    m_payload m = Some ([if t =? 0 then 0%N else 1%N] ++ lay ++ tr ++ [0%N] ++ lis)%list /\
    m_cls m = [6%N] /\ m_id m = [138%N] /\ m_mode m = 1%N /\ Z.of_nat (length items) <= 64.
Proof.
  unfold config_set. intros H.
  destruct (cfg_limit_set <? Z.of_nat (length items)) eqn:El; [discriminate|].
  unfold U1 in H. rewrite !Msg_lemmas.v2b_U in H.
  bindok H. bindok H. bindok H. bindok H.
  apply named_inv in H. destruct H as (ab & Eab & H).
  rewrite valset_addr in Eab. injection Eab as <-.
  apply construct_fields in H. cbn [fst snd] in H. destruct H as (Hc & Hi & Hm & _ & _ & _ & _ & Hp).
  exists x0, x1, x2. repeat split; auto.
  - rewrite Hp. do 2 f_equal. destruct (t =? 0); vm_compute in E; injection E as <-; reflexivity.
  - unfold cfg_limit_set in El. lia.
Qed.

Theorem c14_del_layout l t keys m :
  config_del l t keys = Ok m ->
  exists lay tr lis,
    int_enc false 1 l = Ok lay /\ int_enc false 1 t = Ok tr /\ cfg_keys keys = Ok lis /\
    m_payload m = Some ([if t =? 0 then 0%N else 1%N] ++ lay ++ tr ++ [0%N] ++ lis)%list /\
    m_cls m = [6%N] /\ m_id m = [140%N] /\ m_mode m = 1%N.
Proof.
  unfold config_del. intros H.
  destruct (cfg_limit_del <? Z.of_nat (length keys)) eqn:El; [discriminate|].
  unfold U1 in H. rewrite !Msg_lemmas.v2b_U in H.
  bindok H. bindok H. bindok H. bindok H.
  apply named_inv in H. destruct H as (ab & Eab & H).
  rewrite valdel_addr in Eab. injection Eab as <-.
  apply construct_fields in H. cbn [fst snd] in H. destruct H as (Hc & Hi & Hm & _ & _ & _ & _ & Hp).
  exists x0, x1, x2. repeat split; auto.
  rewrite Hp. do 2 f_equal. destruct (t =? 0); vm_compute in E; injection E as <-; reflexivity.
Qed.

Theorem c14_poll_layout l pos keys m :
  config_poll l pos keys = Ok m ->
  exists lay p lis,
    int_enc false 1 l = Ok lay /\ int_enc false 2 pos = Ok p /\ cfg_keys keys = Ok lis /\
    m_payload m = Some ([0%N] ++ lay ++ p ++ lis)%list /\
    m_cls m = [6%N] /\ m_id m = [139%N] /\ m_mode m = 2%N.
Proof.
  unfold config_poll. intros H.
  destruct (cfg_limit_poll <? Z.of_nat (length keys)) eqn:El; [discriminate|].
  unfold U1, U2 in H. rewrite !Msg_lemmas.v2b_U in H.
  bindok H. bindok H. bindok H. bindok H.
  apply named_inv in H. destruct H as (ab & Eab & H).
  rewrite valget_addr in Eab. injection Eab as <-.
  apply construct_fields in H. cbn [fst snd] in H. destruct H as (Hc & Hi & Hm & _ & _ & _ & _ & Hp).
  exists x0, x1, x2. repeat split; auto.
  rewrite Hp. do 2 f_equal. vm_compute in E. injection E as <-. reflexivity.
Qed.

Fixpoint keys_layout (l : list cfgkey) : result bytes :=
  match l with [] => Ok [] | k :: t => do z <- key_id k; do b <- int_enc false 4 z; do r <- keys_layout t; Ok (b ++ r)%list end.

Lemma cfg_keys_spec keys : cfg_keys keys = keys_layout keys.
Proof.
  induction keys as [|k t IH]; [reflexivity|]. cbn [cfg_keys keys_layout]. rewrite IH.
  destruct (key_id k); [|reflexivity]. cbn [bind]. unfold U4. rewrite (Msg_lemmas.v2b_U 4). reflexivity.
Qed.

Lemma c14_limit l t items : 64 < Z.of_nat (length items) -> config_set l t items = Raise EUBXMessage.
Proof. intros H. apply c14_limit_set. destruct c14_limit_is_64 as [-> _]. exact H. Qed.

(* Trace_lemmas.v — the whole-definition statement of C02 for the payload route: the fields the walk reads are
   consecutive byte ranges starting where the walk stood, in definition order, and each recorded value is the
   decoding of exactly its bytes. *)
From PyUbx Require Import Base Bytes PyFloat Types Strs Walk Tac Bytes_lemmas Walk_lemmas Bits_lemmas.
Open Scope Z_scope.
Open Scope list_scope.

(* what a record's value must be, as a function of the bytes of its range *)
Definition decode_of (scalround : Z) (k : fkind) (src : bytes) : result pyval :=
  match k with
  | FField t None => bytes2val src t
  | FField t (Some sc) => do v0 <- bytes2val src t; do m <- py_mul_scale v0 sc; py_round12 scalround m
  | FBits _ _ => Ok (PInt (Z.of_N (uint_of_le src)))
  | FCfg _ t => bytes2val (skipn 4 src) t
  end.

Definition good (scalround : Z) (pay : bytes) (r : frec) : Prop :=
  decode_of scalround (fr_kind r) (slice pay (fr_off r) (fr_size r)) = Ok (fr_val r).

(* what a record does to the attribute dictionary (payload route) *)
Fixpoint apply_flags (flags : list (string * aty)) (idx : list nat) (bfv off : Z) (a : attrs) : result attrs :=
  match flags with
  | [] => Ok a
  | (key, keyt) :: rest =>
      do atts <- attsiz keyt;
      apply_flags rest idx bfv (off + atts)
        (if starts_with "reserved" key then a else upsert (key ++ suffix idx) (PInt (ext bfv off atts)) a)
  end.

Definition apply_rec (scalround : Z) (r : frec) (a : attrs) : result attrs :=
  match fr_kind r with
  | FField _ _ =>
      let name := (fr_base r ++ suffix (fr_idx r))%string in
      if starts_with "_HP" name then
        match assoc_s (drop 3 name) a with
        | None => Raise EAttribute
        | Some b => do sum <- py_add b (fr_val r); do x <- py_round12 scalround sum; Ok (upsert (drop 3 name) x a)
        end
      else Ok (upsert name (fr_val r) a)
  | FBits _ flags => match fr_val r with PInt bfv => apply_flags flags (fr_idx r) bfv 0 a | _ => Raise EOther end
  | FCfg _ _ => Ok (upsert (fr_base r) (fr_val r) a)
  end.

Fixpoint apply_all (scalround : Z) (l : list frec) (a : attrs) : result attrs :=
  match l with [] => Ok a | r :: t => do a' <- apply_rec scalround r a; apply_all scalround t a' end.

Lemma apply_all_app sr l1 l2 a a1 a2 :
  apply_all sr l1 a = Ok a1 -> apply_all sr l2 a1 = Ok a2 -> apply_all sr (l1 ++ l2) a = Ok a2.
Proof.
  revert a. induction l1 as [|r l1 IH]; cbn [apply_all app]; intros a H1 H2.
  - injection H1 as <-. exact H2.
  - destruct (apply_rec sr r a) as [a'|]; [cbn [bind] in *|discriminate]. eauto.
Qed.

(* records (oldest first) tile [o, o') without gap or overlap, in order *)
Inductive chain : nat -> list frec -> nat -> Prop :=
| ch_nil o : chain o [] o
| ch_cons o r l o' : fr_off r = o -> chain (o + fr_size r)%nat l o' -> chain o (r :: l) o'.

Lemma chain_app o l1 m l2 o' : chain o l1 m -> chain m l2 o' -> chain o (l1 ++ l2) o'.
Proof. induction 1; simpl; auto. intros. constructor; auto. Qed.

Lemma chain_snoc o l m r : chain o l m -> fr_off r = m -> chain o (l ++ [r]) (m + fr_size r)%nat.
Proof. intros H E. eapply chain_app; [exact H|]. constructor; [exact E|constructor]. Qed.

Section T.
Variable atttype : list (N * list kind).
Variable readonly_names : list string.
Variable cfgdb : list (string * (Z * aty)).
Variable storsize : list (Z * Z).
Variable scalround : Z.
Variable cls id : bytes.
Variable mode : N.
Variable bf : bool.
Variable budget : nat.
Hypothesis Hnocfg : is_cfgval cls id mode = false.      (* key/value lists are C14's subject *)

Notation walk_list := (walk_list atttype readonly_names cfgdb storsize scalround cls id mode bf None budget).
Notation single := (single atttype readonly_names scalround None).
Notation bitfield := (bitfield readonly_names None).
Notation bits_loop := (bits_loop readonly_names None).
Notation set_attr := (set_attr readonly_names).

(* the relation every primitive, hence the whole walk, preserves *)
Definition R (s s' : wst) : Prop :=
  w_pay s' = w_pay s /\
  exists l, w_trace s' = (l ++ w_trace s)%list /\
            chain (w_off s) (rev l) (w_off s') /\
            Forall (good scalround (w_pay s)) l /\
            apply_all scalround (rev l) (w_attrs s) = Ok (w_attrs s').

Lemma R_refl s : R s s.
Proof. split; [reflexivity|]. exists []. repeat split; constructor. Qed.

Lemma R_trans a b c : R a b -> R b c -> R a c.
Proof.
  intros [Hp1 (l1 & Ht1 & Hc1 & Hg1 & Ha1)] [Hp2 (l2 & Ht2 & Hc2 & Hg2 & Ha2)].
  split; [congruence|]. exists (l2 ++ l1). repeat split.
  - rewrite Ht2, Ht1. now rewrite app_assoc.
  - rewrite rev_app_distr. eapply chain_app; eauto.
  - apply Forall_app. split; [rewrite Hp1 in Hg2; exact Hg2|exact Hg1].
  - rewrite rev_app_distr. eapply apply_all_app; eauto.
Qed.

Ltac bindok H := match type of H with
  | bind ?r _ = Ok _ => let x := fresh "x" in let E := fresh "E" in destruct r as [x|] eqn:E; [cbn [bind] in H|discriminate]
  end.

Lemma set_attr_frame n v s s' : set_attr n v s = Ok s' ->
  w_pay s' = w_pay s /\ w_off s' = w_off s /\ w_trace s' = w_trace s /\ w_attrs s' = upsert n v (w_attrs s).
Proof. unfold Walk.set_attr. destruct (mem_s n readonly_names); [discriminate|]. intros H; injection H as <-. auto. Qed.

Lemma single_R n t sc idx s s' : single n t sc idx s = Ok s' -> R s s'.
Proof.
  unfold Walk.single, R. intros H. cbv zeta in H.
  bindok H. rename x into asiz. bindok H. destruct x as [v pay].
  (* the value and the (unchanged) payload *)
  assert (Hv: pay = w_pay s /\ decode_of scalround (FField t sc) (slice (w_pay s) (w_off s) asiz) = Ok v).
  { clear H. bindok E0. rename x into v0. bindok E0. injection E0 as <- <-. split; [reflexivity|].
    destruct sc as [k|]; cbn [decode_of]; rewrite E1; cbn [bind].
    - exact E2.
    - now injection E2 as <-. }
  destruct Hv as [-> Hv].
  bindok H. rename x into s2. injection H as <-. cbn [w_pay w_trace w_off w_attrs].
  assert (Hs2: w_pay s2 = w_pay s /\ w_trace s2 = w_trace s /\
               apply_rec scalround {| fr_base := n; fr_idx := idx; fr_off := w_off s; fr_size := asiz;
                                      fr_kind := FField t sc; fr_val := v |} (w_attrs s) = Ok (w_attrs s2)).
  { unfold apply_rec. cbn [fr_kind fr_base fr_idx fr_val]. destruct (starts_with "_HP" _).
    - bindok E1. unfold get_attr in E2. cbn [w_attrs] in E2.
      destruct (assoc_s _ (w_attrs s)) as [b|]; [injection E2 as <-|discriminate].
      bindok E1. bindok E1. cbn [bind].
      apply set_attr_frame in E1 as (A & _ & C & D). cbn in A, C, D. rewrite D, E3. auto.
    - apply set_attr_frame in E1 as (A & _ & C & D). cbn in A, C, D. rewrite D. auto. }
  destruct Hs2 as (Hp & Ht & Ha). split; [exact Hp|].
  eexists [_]. split; [rewrite Ht; reflexivity|]. split; [|split].
  - cbn [rev app]. constructor; [reflexivity|]. cbn [fr_size]. constructor.
  - constructor; [|constructor]. unfold good. cbn [fr_kind fr_off fr_size fr_val]. exact Hv.
  - cbn [rev app apply_all]. rewrite Ha. reflexivity.
Qed.

Lemma bits_loop_frame fl : forall idx bfv off s r, bits_loop fl idx bfv off s = Ok r ->
  fst r = bfv /\ w_pay (snd r) = w_pay s /\ w_off (snd r) = w_off s /\ w_trace (snd r) = w_trace s /\
  apply_flags fl idx bfv off (w_attrs s) = Ok (w_attrs (snd r)).
Proof.
  induction fl as [|[key keyt] fl IH]; intros idx bfv off s r H; cbn [Walk.bits_loop apply_flags] in *.
  - injection H as <-. auto.
  - bindok H. rename x into atts. cbn [bind]. bindok H. apply IH in H as (-> & -> & -> & -> & Ha).
    rewrite <- Ha. unfold ext.
    destruct (starts_with "reserved" key); [injection E0 as <-; auto|].
    apply set_attr_frame in E0 as (A & B & C & D). rewrite D. auto.
Qed.

Lemma bitfield_R t fl idx s s' : bitfield t fl idx s = Ok s' -> R s s'.
Proof.
  unfold Walk.bitfield, R. intros H. cbv zeta in H. bindok H. rename x into bsiz. bindok H. destruct x as [bfv s1].
  injection H as <-. cbn [w_pay w_trace w_off w_attrs].
  apply bits_loop_frame in E0 as (Hb & Hp & _ & Ht & Ha). cbn [fst snd] in *.
  split; [exact Hp|]. eexists [_]. split; [rewrite Ht; reflexivity|]. split; [|split].
  - cbn [rev app]. constructor; [reflexivity|]. cbn [fr_size]. constructor.
  - constructor; [|constructor]. unfold good. cbn [fr_kind fr_off fr_size fr_val decode_of]. now rewrite Hb.
  - cbn [rev app apply_all]. unfold apply_rec. cbn [fr_kind fr_val fr_idx]. rewrite Hb, Ha. reflexivity.
Qed.

(* C02, whole definitions: every definition list, every index path, every repeat count, every budget *)
Theorem walk_list_trace ds idx s s' : walk_list ds idx s = Ok s' -> R s s'.
Proof.
  apply (walk_list_inv_all atttype readonly_names cfgdb storsize scalround cls id mode bf None budget R).
  - exact R_refl.
  - exact R_trans.
  - intros; eapply single_R; eauto.
  - intros; eapply bitfield_R; eauto.
  - intros s0 s1 _ Hc. rewrite Hnocfg in Hc. discriminate.
Qed.

(* started at offset 0 with an empty trace: the records, oldest first, tile [0, final offset) *)
Corollary walk_from_zero ds pay s' :
  walk_list ds [] {| w_off := O; w_pay := pay; w_attrs := []; w_trace := [] |} = Ok s' ->
  chain O (rev (w_trace s')) (w_off s') /\ Forall (good scalround pay) (w_trace s') /\ w_pay s' = pay /\
  apply_all scalround (rev (w_trace s')) [] = Ok (w_attrs s').
Proof.
  intros H. apply walk_list_trace in H as [Hp (l & Ht & Hc & Hg & Ha)]. cbn in *.
  rewrite app_nil_r in Ht. subst l. auto.
Qed.
End T.

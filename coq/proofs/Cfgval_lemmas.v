(* Cfgval_lemmas.v — C14, parse side: the key/value walk of CFG-VALSET / CFG-VALGET over ANY list of items
   (unbounded) yields one attribute per item, in order, named by cfgkey2name of the item's key id and equal to the
   decoding of the item's value bytes at the width of the key's type. *)
From PyUbx Require Import Base Bytes PyFloat Types Strs Walk Tac Bytes_lemmas Walk_lemmas.
Open Scope Z_scope.
Open Scope list_scope.

(* an item as it lies in the payload *)
Record citem := { ci_key : N; ci_name : string; ci_type : aty; ci_valb : bytes; ci_val : pyval }.

Definition item_bytes (it : citem) : bytes := enc_le 4 (ci_key it) ++ ci_valb it.

Section C.
Variable readonly_names : list string.
Variable cfgdb : list (string * (Z * aty)).
Variable storsize : list (Z * Z).
Notation cfgval_loop := (cfgval_loop readonly_names cfgdb storsize).
Notation cfgkey2name := (cfgkey2name cfgdb storsize).

Definition item_ok (it : citem) : Prop :=
  (ci_key it < 256 ^ 4)%N /\
  cfgkey2name (Z.of_N (ci_key it)) = Ok (ci_name it, ci_type it) /\
  (exists n, attsiz_nat (ci_type it) = Ok n /\ length (ci_valb it) = n /\ (1 <= n)%nat) /\
  bytes2val (ci_valb it) (ci_type it) = Ok (ci_val it) /\
  mem_s (ci_name it) readonly_names = false.

Definition set_item (a : attrs) (it : citem) : attrs := upsert (ci_name it) (ci_val it) a.

Lemma item_len it : item_ok it -> (5 <= length (item_bytes it))%nat.
Proof.
  intros (_ & _ & (n & _ & Hl & Hn) & _). unfold item_bytes. rewrite app_length, enc_le_length. lia.
Qed.

Theorem cfgval_items items : forall fuel pre s off0,
  Forall item_ok items ->
  w_pay s = pre ++ concat (map item_bytes items) ->
  (off0 <= 4)%nat ->                               (* the loop compares an absolute offset with a relative length *)
  (length items < fuel)%nat ->
  exists s', cfgval_loop fuel (length pre) (length (w_pay s) - off0) s = Ok s' /\
             w_attrs s' = fold_left set_item items (w_attrs s) /\ w_pay s' = w_pay s /\ w_off s' = w_off s.
Proof.
  induction items as [|it items IH]; intros fuel pre s off0 Hok Hpay Ho Hf.
  - destruct fuel as [|f]; [lia|]. cbn [Walk.cfgval_loop]. cbn [map concat] in Hpay. rewrite app_nil_r in Hpay.
    rewrite Hpay. replace (length pre <? length pre - off0)%nat with false by (symmetry; apply Nat.ltb_ge; lia).
    exists s. cbn. auto.
  - destruct fuel as [|f]; [cbn in Hf; lia|]. cbn [Walk.cfgval_loop].
    apply Forall_cons_iff in Hok as [Hit Hok]. pose proof (item_len it Hit) as Hl5.
    destruct Hit as (Hk & Hn & (n & Ha & Hvl & Hn1) & Hv & Hro).
    cbn [map concat] in Hpay.
    assert (Hlt: (length pre <? length (w_pay s) - off0)%nat = true).
    { apply Nat.ltb_lt. rewrite Hpay, !app_length. lia. }
    rewrite Hlt.
    assert (Hkey: slice (w_pay s) (length pre) 4 = enc_le 4 (ci_key it)).
    { rewrite Hpay. unfold item_bytes. rewrite <- !app_assoc. apply slice_mid. now rewrite enc_le_length. }
    rewrite Hkey, uint_of_le_enc by exact Hk. rewrite Hn. cbn [bind]. rewrite Ha. cbn [bind].
    assert (Hval: slice (w_pay s) (length pre + 4) n = ci_valb it).
    { rewrite Hpay. unfold item_bytes. rewrite <- !app_assoc, app_assoc.
      replace (length pre + 4)%nat with (length (pre ++ enc_le 4 (ci_key it))) by (rewrite app_length, enc_le_length; lia).
      apply slice_mid. now rewrite Hvl. }
    rewrite Hval, Hv. cbn [bind]. unfold set_attr. rewrite Hro. cbn [bind w_off w_pay w_attrs w_trace].
    match goal with |- exists s', cfgval_loop f ?o ?len ?s1 = _ /\ _ =>
      destruct (IH f (pre ++ item_bytes it) s1 off0 Hok) as (s' & E & A1 & A2 & A3) end.
    + cbn [w_pay]. rewrite Hpay, <- app_assoc. reflexivity.
    + exact Ho.
    + cbn in Hf. lia.
    + cbn [w_pay w_attrs w_off] in *.
      replace (length pre + 4 + n)%nat with (length (pre ++ item_bytes it))
        by (unfold item_bytes; rewrite !app_length, enc_le_length; lia).
      exists s'. rewrite E. cbn [fold_left]. auto.
Qed.
End C.

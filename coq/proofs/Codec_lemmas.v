(* Codec_lemmas.v — scalar encodings are exact inverses over their domain (C18) *)
From PyUbx Require Import Base Bytes PyFloat Types Strs Fletcher Helpers Consts Tac Bytes_lemmas Fletcher_lemmas.
Open Scope Z_scope.

Lemma pow256 w : Z.of_N (256 ^ N.of_nat w) = 2 ^ (8 * Z.of_nat w).
Proof.
  rewrite N2Z.inj_pow. change (Z.of_N 256) with (2 ^ 8). rewrite <- Z.pow_mul_r by lia.
  f_equal. lia.
Qed.

Definition in_range (sg : bool) (w : nat) (z : Z) : Prop :=
  if sg then - 2 ^ (8 * Z.of_nat w - 1) <= z < 2 ^ (8 * Z.of_nat w - 1)
  else 0 <= z < 2 ^ (8 * Z.of_nat w).

Lemma pow_half w : (0 < w)%nat -> 2 ^ (8 * Z.of_nat w) = 2 * 2 ^ (8 * Z.of_nat w - 1).
Proof. intros H. rewrite <- Z.pow_succ_r by lia. f_equal. lia. Qed.

(* every width, not only those the library uses *)
Theorem int_rt sg w z : (0 < w)%nat -> in_range sg w z ->
  exists bs, int_enc sg w z = Ok bs /\ length bs = w /\ wfb bs /\ int_dec sg bs = z.
Proof.
  intros Hw Hr. unfold in_range in Hr. unfold int_enc, int_dec.
  set (B := 2 ^ (8 * Z.of_nat w)) in *.
  pose proof (pow_half w Hw) as Hh. fold B in Hh. set (H := 2 ^ (8 * Z.of_nat w - 1)) in *.
  assert (HB: 0 < H) by (subst H; apply Z.pow_pos_nonneg; lia).
  destruct sg.
  - destruct w as [|w']; [lia|]. set (w := Datatypes.S w') in *.
    replace ((- H <=? z) && (z <? H)) with true by lia.
    eexists. split; [reflexivity|]. split; [apply enc_le_length|]. split; [apply enc_le_wfb|].
    unfold sint_of_le. rewrite enc_le_length.
    assert (Hm: 0 <= z mod B < B) by (apply Z.mod_pos_bound; lia).
    rewrite uint_of_le_enc.
    2:{ apply N2Z.inj_lt. rewrite pow256, Z2N.id by lia. fold B. lia. }
    rewrite Z2N.id by lia. fold B. fold H.
    destruct (enc_le w (Z.to_N (z mod B))) eqn:E; [apply (f_equal (@length _)) in E; rewrite enc_le_length in E; discriminate|].
    destruct (Z.ltb_spec (z mod B) H).
    + destruct (Z.ltb_spec z 0); [|apply Z.mod_small; lia].
      exfalso. assert (z mod B = z + B) by (symmetry; apply Z.mod_unique with (-1); lia). lia.
    + destruct (Z.ltb_spec z 0).
      * assert (z mod B = z + B) by (symmetry; apply Z.mod_unique with (-1); lia). lia.
      * rewrite Z.mod_small in * by lia. lia.
  - replace ((0 <=? z) && (z <? B)) with true by lia.
    eexists. split; [reflexivity|]. split; [apply enc_le_length|]. split; [apply enc_le_wfb|].
    rewrite uint_of_le_enc; [lia|].
    apply N2Z.inj_lt. rewrite pow256, Z2N.id by lia. fold B. lia.
Qed.

Theorem int_refuse sg w z : (0 < w)%nat -> ~ in_range sg w z -> int_enc sg w z = Raise EOverflow.
Proof.
  intros Hw Hr. unfold in_range in Hr. unfold int_enc. destruct sg.
  - destruct w; [lia|].
    destruct ((- 2 ^ (8 * Z.of_nat (Datatypes.S w) - 1) <=? z) && (z <? 2 ^ (8 * Z.of_nat (Datatypes.S w) - 1))) eqn:E; [|reflexivity].
    exfalso. apply Hr. lia.
  - destruct ((0 <=? z) && (z <? 2 ^ (8 * Z.of_nat w))) eqn:E; [|reflexivity]. exfalso. apply Hr. lia.
Qed.

(* decoding always lands in range, and re-encoding gives the bytes back *)
Theorem bytes_rt sg bs : wfb bs -> bs <> [] ->
  in_range sg (length bs) (int_dec sg bs) /\ int_enc sg (length bs) (int_dec sg bs) = Ok bs.
Proof.
  intros Hb Hne.
  assert (Hw: (0 < length bs)%nat) by (destruct bs; [congruence|simpl; lia]).
  pose proof (uint_of_le_bound bs Hb) as Hu. apply N2Z.inj_lt in Hu. rewrite pow256 in Hu.
  set (w := length bs) in *. set (B := 2 ^ (8 * Z.of_nat w)) in *.
  pose proof (pow_half w Hw) as Hh. fold B in Hh. set (H := 2 ^ (8 * Z.of_nat w - 1)) in *.
  assert (HB: 0 < H) by (subst H; apply Z.pow_pos_nonneg; lia).
  set (u := Z.of_N (uint_of_le bs)) in *. assert (Hu0: 0 <= u) by (subst u; lia).
  assert (Hr: in_range sg w (int_dec sg bs)).
  { unfold in_range, int_dec, sint_of_le. fold w B H u. destruct sg; [|lia].
    destruct bs; [congruence|]. destruct (Z.ltb_spec u H); lia. }
  split; [exact Hr|].
  destruct (int_rt sg w (int_dec sg bs) Hw Hr) as (bs' & He & Hl & Hwf & Hd).
  rewrite He. f_equal.
  apply uint_of_le_inj; try assumption.
  (* equal decoded values => equal unsigned values *)
  unfold int_dec in Hd. destruct sg; [|lia].
  unfold sint_of_le in Hd. rewrite Hl in Hd. fold w B H u in Hd.
  pose proof (uint_of_le_bound bs' Hwf) as Hu'. apply N2Z.inj_lt in Hu'. rewrite pow256, Hl in Hu'. fold B in Hu'.
  destruct bs as [|b0 bt]; [congruence|]. destruct bs' as [|c0 ct]; [simpl in Hl; lia|].
  destruct (Z.ltb_spec (Z.of_N (uint_of_le (c0 :: ct))) H); destruct (Z.ltb_spec u H); lia.
Qed.

(* ---- the table-facing statements: val2bytes / bytes2val with the generated ATTTYPE ---- *)
Definition v2b := val2bytes atttype.

Lemma v2b_int l w z : is_int_letter l = true -> v2b (PInt z) (T l (Some w)) = int_enc (l =? lI)%N w z.
Proof.
  unfold is_int_letter. intros H.
  assert (Hl: l = lE \/ l = lI \/ l = lL \/ l = lU) by (unfold lE, lI, lL, lU in *; lia).
  destruct Hl as [-> | [-> | [-> | ->]]]; reflexivity.
Qed.

Lemma b2v_int l w bs : is_int_letter l = true -> bytes2val bs (T l (Some w)) = Ok (PInt (int_dec (l =? lI)%N bs)).
Proof.
  unfold is_int_letter. intros H.
  assert (Hl: l = lE \/ l = lI \/ l = lL \/ l = lU) by (unfold lE, lI, lL, lU in *; lia).
  destruct Hl as [-> | [-> | [-> | ->]]]; reflexivity.
Qed.

Theorem c18_int_rt l w z : is_int_letter l = true -> (0 < w)%nat -> in_range (l =? lI)%N w z ->
  exists bs, v2b (PInt z) (T l (Some w)) = Ok bs /\ length bs = w /\ bytes2val bs (T l (Some w)) = Ok (PInt z).
Proof.
  intros Hl Hw Hr. rewrite v2b_int by assumption.
  destruct (int_rt _ w z Hw Hr) as (bs & He & Hlen & _ & Hd).
  exists bs. rewrite b2v_int by assumption. rewrite Hd. auto.
Qed.

Theorem c18_int_refuse l w z : is_int_letter l = true -> (0 < w)%nat -> ~ in_range (l =? lI)%N w z ->
  v2b (PInt z) (T l (Some w)) = Raise EOverflow.
Proof. intros Hl Hw Hr. rewrite v2b_int by assumption. now apply int_refuse. Qed.

Theorem c18_bytes_rt l bs : is_int_letter l = true -> wfb bs -> bs <> [] ->
  exists z, bytes2val bs (T l (Some (length bs))) = Ok (PInt z) /\ v2b (PInt z) (T l (Some (length bs))) = Ok bs.
Proof.
  intros Hl Hb Hne. rewrite b2v_int by assumption. eexists. split; [reflexivity|].
  rewrite v2b_int by assumption. now apply bytes_rt.
Qed.

(* X and C: bytes in, the same bytes out *)
Theorem c18_x_rt bs : bytes2val bs (T lX (Some (length bs))) = Ok (PBytes bs) /\
                      v2b (PBytes bs) (T lX (Some (length bs))) = Ok bs.
Proof.
  split; [reflexivity|]. unfold v2b, val2bytes. cbn.
  rewrite Z.eqb_refl. reflexivity.
Qed.
Theorem c18_x_refuse bs w : length bs <> w -> v2b (PBytes bs) (T lX (Some w)) = Raise EValue.
Proof.
  intros H. unfold v2b, val2bytes. cbn.
  destruct (Z.eqb_spec (Z.of_nat (length bs)) (Z.of_nat w)); [lia|reflexivity].
Qed.
Theorem c18_c_rt bs w : bytes2val bs (T lC (Some w)) = Ok (PBytes bs) /\ v2b (PBytes bs) (T lC (Some w)) = Ok bs.
Proof. split; reflexivity. Qed.

(* nomval encodes to all-zero bytes of the type's width *)
Lemma int_enc_zero sg w : int_enc sg w 0 = Ok (zeros w).
Proof.
  assert (Hz: forall n, enc_le n 0 = zeros n) by (induction n; simpl; [reflexivity|f_equal; assumption]).
  unfold int_enc. destruct sg.
  - destruct w; [reflexivity|].
    assert (0 < 2 ^ (8 * Z.of_nat (Datatypes.S w) - 1)) by (apply Z.pow_pos_nonneg; lia).
    replace ((- 2 ^ (8 * Z.of_nat (Datatypes.S w) - 1) <=? 0) && (0 <? 2 ^ (8 * Z.of_nat (Datatypes.S w) - 1))) with true by lia.
    rewrite Z.mod_0_l by lia. f_equal. apply Hz.
  - assert (0 < 2 ^ (8 * Z.of_nat w)) by (apply Z.pow_pos_nonneg; lia).
    replace ((0 <=? 0) && (0 <? 2 ^ (8 * Z.of_nat w))) with true by lia. f_equal. apply Hz.
Qed.

Lemma arr_enc_zero n : arr_enc n (nrepeat (PInt 0) n) = Ok (zeros n).
Proof. induction n as [|n IH]; [reflexivity|]. cbn [nrepeat arr_enc]. rewrite IH. reflexivity. Qed.

Theorem c18_nomval l w :
  (is_int_letter l = true \/ l = lX \/ l = lC \/ l = lA \/ (l = lR /\ (w = 4 \/ w = 8)%nat)) ->
  exists v, nomval (T l (Some w)) = Ok v /\ v2b v (T l (Some w)) = Ok (zeros w).
Proof.
  intros [Hi | [-> | [-> | [-> | [-> Hw]]]]].
  - exists (PInt 0). split.
    + unfold nomval. unfold is_int_letter in Hi.
      assert (Hl: l = lE \/ l = lI \/ l = lL \/ l = lU) by (unfold lE, lI, lL, lU in *; lia).
      destruct Hl as [-> | [-> | [-> | ->]]]; reflexivity.
    + rewrite v2b_int by assumption. apply int_enc_zero.
  - exists (PBytes (zeros w)). split; [reflexivity|].
    unfold v2b, val2bytes. cbn. assert (length (zeros w) = w) by (induction w; simpl; auto).
    rewrite H, Z.eqb_refl. reflexivity.
  - exists (PBytes (zeros w)). split; reflexivity.
  - exists (PList (nrepeat (PInt 0) w)). split; [reflexivity|].
    unfold v2b, val2bytes. cbn.
    assert (Hl: length (nrepeat (PInt 0) w) = w) by (induction w; simpl; auto).
    rewrite Hl, Nat.eqb_refl. cbn [negb]. apply arr_enc_zero.
  - exists (PFloat (SpecFloat.S754_zero false)). split; [reflexivity|].
    destruct Hw as [-> | ->]; reflexivity.
Qed.

(* ---- isvalid_checksum: the last two bytes are the Fletcher-8 sums of everything between the sync
        characters and them (with Python's slice semantics for short inputs) ---- *)
Theorem c18_isvalid m : isvalid_checksum m = true <->
  pyslice m (Z.of_nat (length m) - 2) (Z.of_nat (length m)) = fletcher_spec (pyslice m 2 (Z.of_nat (length m) - 2)).
Proof. unfold isvalid_checksum. rewrite beq_eq, fletcher_is_spec. reflexivity. Qed.

(* ---- get_bits ---- *)
Lemma strip_zeros_spec p : let '(m, i) := strip_zeros p in
  Npos p = N.shiftl (Npos m) i /\ N.testbit (Npos m) 0 = true.
Proof.
  induction p as [p IH|p IH|]; cbn [strip_zeros].
  - split; [reflexivity|reflexivity].
  - destruct (strip_zeros p) as [m i]. destruct IH as [E Ht]. split; [|exact Ht].
    rewrite N.shiftl_mul_pow2, N.pow_add_r, N.pow_1_r. change (N.pos p~0) with (2 * N.pos p)%N.
    rewrite E, N.shiftl_mul_pow2. ring.
  - split; reflexivity.
Qed.

(* get_bits(bitfield, mask) = (big-endian value >> ctz mask) & (mask >> ctz mask), for every non-zero mask *)
Theorem c18_get_bits bf p : bf <> [] ->
  exists m i, Npos p = N.shiftl (Npos m) i /\ N.testbit (Npos m) 0 = true /\
    get_bits bf (Npos p) = Some (Ok (N.land (N.shiftr (dec_be bf) i) (N.shiftr (Npos p) i))).
Proof.
  intros Hne. pose proof (strip_zeros_spec p) as H. unfold get_bits.
  destruct (strip_zeros p) as [m i]. destruct H as [E Ht]. exists m, i. repeat split; auto.
  destruct bf; [congruence|]. do 3 f_equal. rewrite E, N.shiftr_shiftl_l, N.sub_diag, N.shiftl_0_r; [reflexivity|lia].
Qed.

(* ---- R8: struct.unpack then struct.pack is the identity on every bit pattern that is not a NaN with a
        non-canonical payload (NaNs are compared as a class) ---- *)
Lemma testbit63 b : 0 <= b < 2^64 -> Z.testbit b 63 = (2^63 <=? b).
Proof.
  intros H.
  destruct (Z.leb_spec (2^63) b).
  - apply Z.testbit_true; [lia|]. change (2^63) with 9223372036854775808 in *. change (2^64) with 18446744073709551616 in *.
    assert (b / 9223372036854775808 = 1) by lia. rewrite H1. reflexivity.
  - apply Z.testbit_false; [lia|]. change (2^63) with 9223372036854775808 in *.
    assert (b / 9223372036854775808 = 0) by lia. rewrite H1. reflexivity.
Qed.

Definition canonical_nan_or_not_nan (b : Z) : Prop :=
  let ex := (b / 2 ^ 52) mod 2048 in let mant := b mod 2 ^ 52 in
  ex = 2047 -> mant <> 0 -> b = 2047 * 2 ^ 52 + 2 ^ 51.

Theorem r8_bits_rt b : 0 <= b < 2^64 -> canonical_nan_or_not_nan b -> bits_of_b64 (b64_of_bits b) = b.
Proof.
  intros Hb Hn. unfold canonical_nan_or_not_nan in Hn. unfold b64_of_bits.
  rewrite testbit63 by assumption.
  change (2^52) with 4503599627370496 in *. change (2^63) with 9223372036854775808 in *.
  change (2^64) with 18446744073709551616 in *. change (2^51) with 2251799813685248 in *.
  set (ex := (b / 4503599627370496) mod 2048) in *. set (mant := b mod 4503599627370496) in *.
  assert (Hex: 0 <= ex < 2048) by (subst ex; lia).
  assert (Hm: 0 <= mant < 4503599627370496) by (subst mant; lia).
  assert (Hdec: b = (if 9223372036854775808 <=? b then 9223372036854775808 else 0) + ex * 4503599627370496 + mant).
  { subst ex mant. destruct (Z.leb_spec 9223372036854775808 b); lia. }
  destruct (Z.eqb_spec ex 0) as [E0|E0].
  - destruct mant as [|p|p] eqn:Em; try lia.
    + cbn [bits_of_b64]. change (2^63) with 9223372036854775808. rewrite E0 in Hdec.
      destruct (9223372036854775808 <=? b); lia.
    + cbn [bits_of_b64]. change (2^63) with 9223372036854775808. change (2^52) with 4503599627370496.
      replace (Z.pos p <? 4503599627370496) with true by lia. rewrite E0 in Hdec.
      destruct (9223372036854775808 <=? b); lia.
  - destruct (Z.eqb_spec ex 2047) as [E1|E1].
    + destruct (Z.eqb_spec mant 0) as [Em|Em].
      * cbn [bits_of_b64]. change (2^63) with 9223372036854775808. change (2^52) with 4503599627370496.
        destruct (9223372036854775808 <=? b); lia.
      * cbn [bits_of_b64]. change (2^52) with 4503599627370496. change (2^51) with 2251799813685248.
        specialize (Hn E1 Em). lia.
    + destruct (mant + 4503599627370496) as [|p|p] eqn:Ep; try lia.
      cbn [bits_of_b64]. change (2^63) with 9223372036854775808. change (2^52) with 4503599627370496.
      replace (Z.pos p <? 4503599627370496) with false by lia.
      destruct (9223372036854775808 <=? b); lia.
Qed.

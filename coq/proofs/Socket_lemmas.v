(* Socket_lemmas.v — SocketWrapper refines the abstract byte stream *)
From PyUbx Require Import Base Bytes Reader Socket Tac Bytes_lemmas Reader_generic Reader_file.
Open Scope nat_scope.

Lemma tail_fail_tl e l : tail_fail (e :: l) -> tail_fail l.
Proof. destruct e as [[|x d]|]; simpl; tauto. Qed.

(* C10_read_exact: read(n) returns exactly the next n bytes of the abstract stream, or nothing
   (leaving the abstract stream untouched, with no data pending) when fewer than n remain *)
Lemma sock_read_aux_spec n : forall l b d s',
  tail_fail l -> sock_read_aux n b l = (d, s') ->
  tail_fail (evs s') /\
  ((n <= length (b ++ chunks l) /\ d = firstn n (b ++ chunks l) /\ sock_abs s' = skipn n (b ++ chunks l))
   \/ (length (b ++ chunks l) < n /\ d = [] /\ sock_abs s' = b ++ chunks l /\ chunks (evs s') = [])).
Proof.
  induction l as [|e l IH]; intros b d s' Ht H; cbn [sock_read_aux] in H.
  - destruct (Nat.leb_spec n (length b)) as [Hle|Hgt]; injection H as <- <-; cbn [evs chunks]; rewrite app_nil_r.
    + split; [exact I|]. left. unfold sock_abs. cbn [buf evs chunks]. rewrite app_nil_r. auto.
    + split; [exact I|]. right. unfold sock_abs. cbn [buf evs chunks]. rewrite app_nil_r. auto.
  - destruct (Nat.leb_spec n (length b)) as [Hle|Hgt].
    + injection H as <- <-. split; [exact Ht|]. left. unfold sock_abs. cbn [buf evs].
      rewrite app_length. split; [lia|]. split.
      * rewrite firstn_app. replace (n - length b) with 0 by lia. now rewrite firstn_O, app_nil_r.
      * rewrite skipn_app. replace (n - length b) with 0 by lia. reflexivity.
    + destruct e as [[|x d0]|].
      * injection H as <- <-. cbn [tail_fail] in Ht. destruct Ht as [Hc Ht].
        split; [exact Ht|]. right. unfold sock_abs. cbn [buf evs chunks app]. rewrite Hc, app_nil_r. auto.
      * cbn [tail_fail] in Ht. specialize (IH (b ++ x :: d0) d s' Ht H).
        cbn [chunks]. rewrite <- app_assoc in IH. exact IH.
      * injection H as <- <-. cbn [tail_fail] in Ht. destruct Ht as [Hc Ht].
        split; [exact Ht|]. right. unfold sock_abs. cbn [buf evs chunks]. rewrite Hc, app_nil_r. auto.
Qed.

Theorem sock_read_spec n s d s' :
  tail_fail (evs s) -> sock_read n s = (d, s') ->
  tail_fail (evs s') /\
  ((n <= length (sock_abs s) /\ d = firstn n (sock_abs s) /\ sock_abs s' = skipn n (sock_abs s))
   \/ (length (sock_abs s) < n /\ d = [] /\ sock_abs s' = sock_abs s /\ chunks (evs s') = [])).
Proof. unfold sock_read, sock_abs. apply sock_read_aux_spec. Qed.

(* a socket whose failed read showed that no data is pending *)
Definition dead (s : sock) : Prop := chunks (evs s) = [] /\ tail_fail (evs s).

(* C10_readline: readline() returns the abstract bytes up to and including the next LF, or all
   that is left *)
Lemma sock_readline_aux_spec fuel : forall line s d s',
  tail_fail (evs s) -> length (sock_abs s) < fuel ->
  sock_readline_aux fuel line s = (d, s') ->
  tail_fail (evs s') /\
  let '(l, r) := split_line (sock_abs s) in d = line ++ l /\ sock_abs s' = r.
Proof.
  induction fuel as [|f IH]; intros line s d s' Ht Hf H; [lia|].
  cbn [sock_readline_aux] in H.
  destruct (sock_read 1 s) as [d1 s1] eqn:E1.
  destruct (sock_read_spec 1 s d1 s1 Ht E1) as (Ht1 & [(Hle & Hd & Ha)|(Hlt & Hd & Ha & Hc)]).
  - destruct (sock_abs s) as [|x rest] eqn:Eabs; [simpl in Hle; lia|].
    cbn [firstn skipn] in Hd, Ha. subst d1. cbn [split_line].
    destruct (N.eqb_spec x 10) as [->|Hx].
    + injection H as <- <-. split; [exact Ht1|]. split; [reflexivity|exact Ha].
    + assert (Hf1: length (sock_abs s1) < f) by (rewrite Ha; simpl in Hf; lia).
      destruct (IH (line ++ [x]) s1 d s' Ht1 Hf1 H) as (Ht' & Hs).
      split; [exact Ht'|]. rewrite Ha in Hs. destruct (split_line rest) as [l r].
      destruct Hs as [-> Hr]. split; [now rewrite <- app_assoc|exact Hr].
  - subst d1. injection H as <- <-. split; [exact Ht1|].
    assert (sock_abs s = []) by (destruct (sock_abs s); [reflexivity|simpl in Hlt; lia]).
    rewrite H in *. cbn [split_line]. rewrite app_nil_r. auto.
Qed.

Theorem sock_readline_spec s d s' :
  tail_fail (evs s) -> sock_readline s = (d, s') ->
  tail_fail (evs s') /\ (d, sock_abs s') = split_line (sock_abs s).
Proof.
  intros Ht H. unfold sock_readline in H.
  destruct (sock_readline_aux_spec _ [] s d s' Ht (Nat.lt_succ_diag_r _) H) as (Ht' & Hs).
  split; [exact Ht'|]. destruct (split_line (sock_abs s)) as [l r]. destruct Hs as [-> ->]. reflexivity.
Qed.

(* ------------------------------------------------------------------ *)
(* C10_refines_file: the reader over a socket delivers the same items as over a file holding
   the bytes the socket will deliver, for every segmentation into recv() results *)
Open Scope N_scope.
Section Refine.
Context {P : Type}.
Variable parse : N -> bytes -> result P.
Variable nmea_hdr : N -> bool.

Notation rbF := (read_bytes (S:=bytes) file_rd).
Notation rbS := (read_bytes (S:=sock) sock_read).
Notation rlF := (read_line (S:=bytes) file_rdl).
Notation rlS := (read_line (S:=sock) sock_readline).
Notation f1F := (frame1 file_rd file_rdl nmea_hdr).
Notation f1S := (frame1 sock_read sock_readline nmea_hdr).
Notation raF := (read_all file_rd file_rdl parse nmea_hdr).
Notation raS := (read_all sock_read sock_readline parse nmea_hdr).

Definition Rst (s : bytes) (st : sock) : Prop := s = sock_abs st /\ tail_fail (evs st).

Inductive rel {A} : result A * bytes -> result A * sock -> Prop :=
| rr_same r s st : Rst s st -> rel (r, s) (r, st)
| rr_eof st : rel (Raise EEOF, []) (Raise EEOF, st)
| rr_short st : rel (Raise EUBXStream, []) (Raise EEOF, st).

Lemma read_bytes_rel n s st : Rst s st -> rel (rbF n s) (rbS n st).
Proof.
  intros [-> Ht]. destruct n as [|n]; [apply rr_same; split; auto|].
  unfold Reader.read_bytes at 2. destruct (sock_read (Datatypes.S n) st) as [d st'] eqn:E.
  destruct (sock_read_spec _ _ _ _ Ht E) as (Ht' & [(Hle & -> & Ha)|(Hlt & -> & Ha & Hc)]).
  - rewrite (read_bytes_ok parse nmea_hdr _ _ Hle).
    rewrite firstn_length. replace (Nat.min (Datatypes.S n) (length (sock_abs st))) with (Datatypes.S n) by lia.
    rewrite Nat.ltb_irrefl. apply rr_same. split; [symmetry; exact Ha|exact Ht'].
  - cbn [length]. destruct (sock_abs st) eqn:Eabs.
    + rewrite read_bytes_nil by lia. apply rr_eof.
    + rewrite (read_bytes_short parse nmea_hdr) by (try discriminate; exact Hlt). apply rr_short.
Qed.

Lemma read_line_rel s st : Rst s st -> rel (rlF s) (rlS st).
Proof.
  intros [-> Ht]. unfold Reader.read_line, file_rdl.
  destruct (sock_readline st) as [d st'] eqn:E.
  destruct (sock_readline_spec _ _ _ Ht E) as (Ht' & Hs). rewrite <- Hs.
  destruct d as [|x d]; [|destruct (last (x :: d) 0 =? 10)]; try (apply rr_same; split; auto).
Qed.

Lemma bind_rel {A B} (m1 : M (S:=bytes) A) (m2 : M (S:=sock) A) (k1 : A -> M (S:=bytes) B) (k2 : A -> M (S:=sock) B) :
  (forall s st, Rst s st -> rel (m1 s) (m2 st)) ->
  (forall d s st, Rst s st -> rel (k1 d s) (k2 d st)) ->
  forall s st, Rst s st -> rel (bindM m1 k1 s) (bindM m2 k2 st).
Proof.
  intros Hm Hk s st HR. unfold bindM. specialize (Hm s st HR).
  destruct (m1 s) as [r1 s1]. destruct (m2 st) as [r2 st2].
  inversion Hm; subst; try (apply rr_eof); try (apply rr_short).
  destruct r2 as [a|e]; [apply Hk; assumption|apply rr_same; assumption].
Qed.

Lemma ret_rel {A} (x : A) s st : Rst s st -> rel (ret x s) (ret x st).
Proof. intros; now apply rr_same. Qed.
Lemma raise_rel {A} e s st : Rst s st -> rel (raiseM (A:=A) e s) (raiseM e st).
Proof. intros; now apply rr_same. Qed.

Lemma frame1_rel s st : Rst s st -> rel (f1F s) (f1S st).
Proof.
  revert s st. unfold Reader.frame1.
  apply bind_rel; [intros; now apply read_bytes_rel|]. intros b1 s st HR.
  destruct b1 as [|x1 [|? ?]]; try (now apply ret_rel).
  destruct (negb _); [now apply ret_rel|].
  revert s st HR. apply bind_rel; [intros; now apply read_bytes_rel|]. intros b2 s st HR.
  destruct b2 as [|x2 [|? ?]]; try (now apply raise_rel).
  destruct (_ && _).
  { revert s st HR. apply bind_rel; [intros; now apply read_bytes_rel|]. intros h s st HR.
    revert s st HR. apply bind_rel; [intros; now apply read_bytes_rel|]. intros body s st HR.
    now apply ret_rel. }
  destruct (_ && _).
  { revert s st HR. apply bind_rel; [intros; now apply read_line_rel|]. intros l s st HR. now apply ret_rel. }
  destruct (_ && _).
  { revert s st HR. apply bind_rel; [intros; now apply read_bytes_rel|]. intros h3 s st HR.
    revert s st HR. apply bind_rel; [intros; now apply read_bytes_rel|]. intros pl s st HR.
    revert s st HR. apply bind_rel; [intros; now apply read_bytes_rel|]. intros crc s st HR.
    now apply ret_rel. }
  now apply raise_rel.
Qed.

Lemma raF_nil c f : items (raF c f []) = [].
Proof. destruct f; reflexivity. Qed.

Theorem sock_refines_file c fuel : forall s st,
  Rst s st -> (length s < fuel)%nat -> items (raS c fuel st) = items (raF c fuel s).
Proof.
  induction fuel as [|f IH]; intros s st HR Hf; [lia|].
  rewrite !read_all_unfold, !step_frame1.
  pose proof (frame1_rel s st HR) as Hrel.
  pose proof (f1_consumes parse nmea_hdr s) as Hc.
  destruct (f1F s) as [r1 s1]. destruct (f1S st) as [r2 st2].
  specialize (Hc _ _ eq_refl).
  inversion Hrel as [r s0 st0 HR'|st0|st0]; subst.
  - assert (Hk: r2 <> Raise EEOF -> items (raS c f st2) = items (raF c f s1)).
    { intros Hne. apply IH; [exact HR'|]. destruct Hc as [[-> _]|Hlt]; [congruence|lia]. }
    destruct r2 as [[|p raw]|e].
    + cbn [Reader.outcome_of on_outcome]. apply Hk. discriminate.
    + destruct (outcome_of parse c (TFrame p raw)); cbn [on_outcome];
        repeat (match goal with |- context [if ?b then _ else _] => destruct b end);
        cbn [add_item add_report stop items]; try reflexivity; try (f_equal; apply Hk; discriminate);
        apply Hk; discriminate.
    + destruct e; try reflexivity;
      (cbn [classify is_protocol_exn on_outcome];
        repeat (match goal with |- context [if ?b then _ else _] => destruct b end);
        cbn [add_item add_report stop items]; try reflexivity; apply Hk; discriminate).
  - reflexivity.
  - cbn [classify is_protocol_exn on_outcome].
    repeat (match goal with |- context [if ?b then _ else _] => destruct b end);
      cbn [add_report stop items]; rewrite ?raF_nil; reflexivity.
Qed.

(* C08, socket half: iterating a reader over a socket always ends (the fuel |bytes the socket will deliver| + 1 is
   never exhausted), for every schedule of recv() results whose failures come after the last data *)
Theorem sock_terminates c fuel : forall s st,
  Rst s st -> (length s < fuel)%nat -> out_of_fuel (raS c fuel st) = false.
Proof.
  induction fuel as [|f IH]; intros s st HR Hf; [lia|].
  rewrite !read_all_unfold, !step_frame1.
  pose proof (frame1_rel s st HR) as Hrel.
  pose proof (f1_consumes parse nmea_hdr s) as Hc.
  destruct (f1F s) as [r1 s1]. destruct (f1S st) as [r2 st2].
  specialize (Hc _ _ eq_refl).
  inversion Hrel as [r s0 st0 HR'|st0|st0]; subst.
  - assert (Hk: r2 <> Raise EEOF -> out_of_fuel (raS c f st2) = false).
    { intros Hne. apply (IH s1); [exact HR'|]. destruct Hc as [[-> _]|Hlt]; [congruence|lia]. }
    destruct r2 as [[|p raw]|e].
    + cbn [Reader.outcome_of on_outcome]. apply Hk. discriminate.
    + destruct (outcome_of parse c (TFrame p raw)); cbn [on_outcome];
        repeat (match goal with |- context [if ?b then _ else _] => destruct b end);
        cbn [add_item add_report stop out_of_fuel]; try reflexivity; apply Hk; discriminate.
    + destruct e; try reflexivity;
      (cbn [classify is_protocol_exn on_outcome];
        repeat (match goal with |- context [if ?b then _ else _] => destruct b end);
        cbn [add_item add_report stop out_of_fuel]; try reflexivity; apply Hk; discriminate).
  - reflexivity.
  - reflexivity.
Qed.

End Refine.

(* ---- every segmentation of a byte sequence into recv() results ---- *)
Definition seg_events (cs : list bytes) (ends : list ev) : list ev := map Chunk cs ++ ends.
Definition is_end (e : ev) : Prop := e = Fail \/ e = Chunk [].

Lemma chunks_ends ends : Forall is_end ends -> chunks ends = [] /\ tail_fail ends.
Proof.
  induction 1 as [|e ends He _ [IH1 IH2]]; [split; [reflexivity|exact I]|].
  destruct He as [-> | ->]; cbn [chunks tail_fail app]; auto.
Qed.

Lemma seg_events_ok cs ends : Forall (fun d => d <> []) cs -> Forall is_end ends ->
  chunks (seg_events cs ends) = concat cs /\ tail_fail (seg_events cs ends).
Proof.
  intros Hcs He. destruct (chunks_ends ends He) as [E1 E2]. unfold seg_events.
  induction Hcs as [|d cs Hd _ [IH1 IH2]]; cbn [map app concat chunks tail_fail].
  - rewrite E1. auto.
  - rewrite IH1. split; [reflexivity|]. destruct d; [congruence|exact IH2].
Qed.

Lemma sock_init_R l : tail_fail l -> Rst (chunks l) (sock_init l).
Proof.
  intros Ht. unfold sock_init, recv, Rst, sock_abs. cbn [evs buf].
  destruct l as [|[[|x d]|] l]; cbn [snd buf evs chunks tail_fail app] in *; try tauto;
    try (destruct Ht as [-> Ht]; auto).
Qed.

Theorem c10_refines_file {P} (parse : N -> bytes -> result P) nmea_hdr c cs ends :
  Forall (fun d => d <> []) cs -> Forall is_end ends ->
  items (sock_run parse nmea_hdr c (seg_events cs ends)) = items (file_read_all parse nmea_hdr c (concat cs)).
Proof.
  intros Hcs He. destruct (seg_events_ok cs ends Hcs He) as [E1 E2].
  unfold sock_run, file_read_all. rewrite <- E1.
  apply sock_refines_file; [now apply sock_init_R|lia].
Qed.

(* the same for any event list whose failures come after the last data *)
Theorem c10_refines_file_gen {P} (parse : N -> bytes -> result P) nmea_hdr c l :
  tail_fail l ->
  items (sock_run parse nmea_hdr c l) = items (file_read_all parse nmea_hdr c (chunks l)).
Proof. intros Ht. apply sock_refines_file; [now apply sock_init_R|lia]. Qed.

Theorem c08_sock_terminates {P} (parse : N -> bytes -> result P) nmea_hdr c l :
  tail_fail l -> out_of_fuel (sock_run parse nmea_hdr c l) = false.
Proof. intros Ht. apply (sock_terminates parse nmea_hdr c _ (chunks l)); [now apply sock_init_R|lia]. Qed.

From PyUbx Require Import Base Bytes Fletcher Frame PyFloat Types Strs Walk Consts Tables Msg.
From PyUbx Require Import Tac Bytes_lemmas Fletcher_lemmas Frame_lemmas Walk_lemmas Msg_lemmas C01_lemmas.
Open Scope Z_scope.

(* ---- the keyword route produces a byte string ---- *)
Definition wfv (v : pyval) : Prop := match v with PBytes b | PStr b => wfb b | _ => True end.
Definition wfkw (k : attrs) : Prop := Forall (fun kv => wfv (snd kv)) k.

Lemma int_enc_wfb sg w z b : int_enc sg w z = Ok b -> wfb b.
Proof.
  unfold int_enc. destruct sg.
  - destruct w; [destruct (z =? 0); intros H; inversion H; constructor|].
    destruct (_ && _); intros H; [injection H as <-|discriminate]. apply (enc_le_wfb (S w)).
  - destruct (_ && _); intros H; [injection H as <-|discriminate]. apply enc_le_wfb.
Qed.

Lemma zeros_wfb n : wfb (zeros n).
Proof. induction n; simpl; constructor; auto. reflexivity. Qed.

Lemma arr_enc_wfb n : forall l b, arr_enc n l = Ok b -> wfb b.
Proof.
  induction n as [|n IH]; intros l b H; cbn [arr_enc] in H; [injection H as <-; constructor|].
  destruct l as [|v l]; [discriminate|]. destruct v; try discriminate.
  destruct (int_enc false 1 z) as [b1|] eqn:E1; [|discriminate]. cbn [bind] in H.
  destruct (arr_enc n l) as [b2|] eqn:E2; [|discriminate]. cbn [bind] in H. injection H as <-.
  apply wfb_app. split; [eapply int_enc_wfb; eauto|eapply IH; eauto].
Qed.

Lemma val2bytes_wfb at_ v t b : wfv v -> val2bytes at_ v t = Ok b -> wfb b.
Proof.
  intros Hv. unfold val2bytes. destruct (assoc_N _ _); [|discriminate].
  destruct (negb _); [discriminate|].
  destruct (_ =? lX)%N.
  { destruct v; try discriminate. destruct (attsiz t); [|discriminate]. cbn [bind].
    destruct (negb _); [discriminate|]. intros H; inversion H; subst. exact Hv. }
  destruct (_ =? lC)%N.
  { destruct v; try discriminate; intros H; inversion H; subst; exact Hv. }
  destruct (is_int_letter _).
  { destruct v; try discriminate. destruct (attsiz_nat t); [|discriminate]. cbn [bind]. apply int_enc_wfb. }
  destruct (_ =? lR)%N.
  { destruct (attsiz t); [|discriminate]. cbn [bind].
    destruct (match v with PInt z => _ | PFloat f => _ | _ => _ end); [|discriminate]. cbn [bind].
    destruct (_ =? 4).
    - destruct (b32_round _); [|discriminate]. cbn [bind]. intros H; injection H as <-. apply (enc_le_wfb 4).
    - intros H; injection H as <-. apply (enc_le_wfb 8). }
  destruct (_ =? lA)%N; [|discriminate].
  destruct (attsiz_nat t); [|discriminate]. cbn [bind]. destruct v; try discriminate.
  destruct (negb _); [discriminate|]. apply arr_enc_wfb.
Qed.

Lemma nomval_wfv t v : nomval t = Ok v -> wfv v.
Proof.
  unfold nomval. destruct t as [|l sz]; [intros H; inversion H; constructor|].
  destruct (_ || _).
  { destruct (attsiz_nat _); [|discriminate]. cbn [bind]. intros H; inversion H. apply zeros_wfb. }
  destruct (_ =? lR)%N; [intros H; inversion H; exact I|].
  destruct (is_int_letter l); [intros H; inversion H; exact I|].
  destruct (_ =? lA)%N; [|discriminate].
  destruct (attsiz_nat _); [|discriminate]. cbn [bind]. intros H; inversion H. exact I.
Qed.

Lemma kwget_wfv k n d : wfkw k -> wfv d -> wfv (kwget k n d).
Proof.
  unfold kwget. intros Hk Hd. induction Hk as [|[n' v'] k Hv _ IH]; cbn [assoc_s]; [exact Hd|].
  destruct (String.eqb n n'); [exact Hv|exact IH].
Qed.

Section KwRoute.
Variable cls id : bytes.
Variable mode : N.
Variable bf : bool.
Variable bud : nat.
Variable k : attrs.
Hypothesis Hk : wfkw k.

Notation walk_list := (walk_list atttype readonly_names cfgdb storsize scalround cls id mode bf (Some k) bud).
Notation single := (single atttype readonly_names scalround (Some k)).
Notation bitfield := (bitfield readonly_names (Some k)).
Notation bits_loop := (bits_loop readonly_names (Some k)).

Definition keeps_wfb (s s' : wst) : Prop := wfb (w_pay s) -> wfb (w_pay s').

Ltac bindok H := match type of H with
  | bind ?r _ = Ok _ => let x := fresh "x" in let E := fresh "E" in destruct r as [x|] eqn:E; [cbn [bind] in H|discriminate]
  end.

Lemma single_wfb n t sc idx s s' : single n t sc idx s = Ok s' -> keeps_wfb s s'.
Proof.
  unfold Walk.single, keeps_wfb. intros H Hw.
  bindok H. bindok H. destruct x0 as [v pay].
  assert (Hp: wfb pay).
  { clear H. bindok E0. bindok E0. injection E0 as _ <-. apply wfb_app. split; [exact Hw|].
    destruct sc as [a|].
    - bindok E2. bindok E2. eapply val2bytes_wfb; [|exact E2]. exact I.
    - eapply val2bytes_wfb; [|exact E2]. apply kwget_wfv; [exact Hk|eapply nomval_wfv; eauto]. }
  bindok H. injection H as <-. cbn [w_pay].
  destruct (starts_with "_HP" _).
  - bindok E1. bindok E1. bindok E1. apply set_attr_pay in E1 as [-> _]. exact Hp.
  - apply set_attr_pay in E1 as [-> _]. exact Hp.
Qed.

Lemma bits_loop_pay' fl : forall idx bfv off s r, bits_loop fl idx bfv off s = Ok r -> w_pay (snd r) = w_pay s.
Proof.
  induction fl as [|[key keyt] fl IH]; intros idx bfv off s r H; cbn [Walk.bits_loop] in H.
  - injection H as <-. auto.
  - bindok H. bindok H. destruct x0 as [v b']. bindok H. apply IH in H as ->.
    destruct (starts_with "reserved" key); [injection E1 as <-; auto|apply set_attr_pay in E1 as [-> _]; reflexivity].
Qed.

Lemma bitfield_wfb t fl idx s s' : bitfield t fl idx s = Ok s' -> keeps_wfb s s'.
Proof.
  unfold Walk.bitfield, keeps_wfb. intros H Hw. bindok H. bindok H. destruct x0 as [bfv s1].
  bindok H. bindok E1. injection E1 as <-. injection H as <-. cbn [w_pay].
  apply bits_loop_pay' in E0. cbn [snd] in E0. rewrite E0.
  apply wfb_app. split; [exact Hw|eapply int_enc_wfb; eauto].
Qed.

Theorem walk_list_wfb ds idx s s' : walk_list ds idx s = Ok s' -> wfb (w_pay s) -> wfb (w_pay s').
Proof.
  apply (walk_list_inv_all atttype readonly_names cfgdb storsize scalround cls id mode bf (Some k) bud keeps_wfb).
  - unfold keeps_wfb; auto.
  - unfold keeps_wfb; auto.
  - intros; eapply single_wfb; eauto.
  - intros; eapply bitfield_wfb; eauto.
  - intros ? ? E; discriminate.
Qed.
End KwRoute.

(* every byte string the constructor is given or builds is a byte string *)
Definition wf_kwargs (k : kwargs) : Prop :=
  match k with KwNone => True | KwPayload p => wfb p | KwAttrs a => wfkw a end.

Theorem construct_payload_wfb cls id mode bf k m :
  wf_kwargs k -> construct cls id mode bf k = Ok m -> wfb (payload_bytes m).
Proof.
  intros Hk H. pose proof H as H0. apply construct_fields in H0.
  destruct H0 as (_ & _ & _ & _ & _ & _ & _ & Hp).
  unfold payload_bytes. destruct k as [|p|a].
  - destruct Hp as [-> _]. constructor.
  - rewrite Hp. exact Hk.
  - unfold construct in H. destruct (negb _); [discriminate|]. apply translate_ok in H.
    destruct a as [|x a]; [rewrite Hp; constructor|].
    destruct (do_walk _ _ _ _ _ _ _) as [s|] eqn:Ew; [|discriminate]. cbn [bind] in H.
    destruct (len_cksum _ _ _); [|discriminate]. cbn [bind] in H. injection H as <-. cbn [m_payload].
    unfold do_walk in Ew. destruct (get_dict _ _ _ _ _); [|discriminate]. cbn [bind] in Ew.
    eapply walk_list_wfb; [exact Hk|exact Ew|constructor].
Qed.

(* C04: whatever the constructor returns serializes to a well-formed frame *)
Theorem c04_wellformed c i mode bf k m :
  (c < 256)%N -> (i < 256)%N -> wf_kwargs k ->
  construct [c] [i] mode bf k = Ok m -> WellFormed (serialize m).
Proof.
  intros Hc Hi Hk H.
  pose proof (construct_payload_wfb _ _ _ _ _ _ Hk H) as Hw.
  apply construct_fields in H. destruct H as (Hcls & Hid & _ & _ & _ & Hlen & Hck & _).
  destruct (serialize_eq m c i (payload_bytes m) Hcls Hid eq_refl Hlen Hck) as (Hs & Hn & _).
  exists c, i, (payload_bytes m). auto.
Qed.

(* ... and is accepted by parse in the same mode (raw-payload and no-payload routes) *)
Theorem c04_accepted_payload c i mode v bf k m :
  (c < 256)%N -> (i < 256)%N -> (k = KwNone \/ exists p, k = KwPayload p /\ wfb p) ->
  construct [c] [i] mode bf k = Ok m ->
  exists m', parse mode v bf (serialize m) = Ok m' /\ serialize m' = serialize m.
Proof.
  intros Hc Hi Hk H.
  assert (Hwk: wf_kwargs k) by (destruct Hk as [->|(p & -> & Hp)]; [exact I|exact Hp]).
  pose proof (construct_payload_wfb _ _ _ _ _ _ Hwk H) as Hw.
  pose proof H as H0. apply construct_fields in H0.
  destruct H0 as (Hcls & Hid & _ & Hmode & _ & Hlen & Hck & Hpay).
  destruct (serialize_eq m c i (payload_bytes m) Hcls Hid eq_refl Hlen Hck) as (Hs & Hn & _).
  assert (Hm4: (mode <? 4)%N = true).
  { unfold mode_ok in Hmode. lia. }
  assert (Hm3: (mode =? 3)%N = false) by (unfold mode_ok in Hmode; lia).
  unfold parse. rewrite Hm4. cbn [negb]. rewrite Hs.
  rewrite parse_front_complete by assumption. cbn [bind f_cls f_id f_payload]. rewrite Hm3.
  assert (Hex: exists m', match payload_bytes m with
                          | [] => construct [c] [i] mode true KwNone
                          | _ :: _ => construct [c] [i] mode bf (KwPayload (payload_bytes m))
                          end = Ok m').
  { destruct (payload_bytes m) as [|b0 pl] eqn:Ep.
    - unfold construct. rewrite Hmode. cbn [negb]. unfold len_cksum, U2. rewrite v2b_U.
      cbn. eauto.
    - destruct Hk as [->|(p & -> & Hp)].
      + destruct Hpay as [Hp0 _]. unfold payload_bytes in Ep. rewrite Hp0 in Ep. discriminate.
      + unfold payload_bytes in Ep. rewrite Hpay in Ep. subst p. eauto. }
  destruct Hex as [m' Hm']. exists m'.
  assert (Hp': (match payload_bytes m with [] => construct [c] [i] mode true KwNone
               | _ :: _ => construct [c] [i] mode bf (KwPayload (payload_bytes m)) end) =
              match (match payload_bytes m with [] => None | _ :: _ => Some (payload_bytes m) end) with
              | None => construct [c] [i] mode true KwNone
              | Some p => construct [c] [i] mode bf (KwPayload p) end) by (destruct (payload_bytes m); reflexivity).
  rewrite <- Hp'. split; [exact Hm'|].
  (* same class, id and payload bytes => same serialization *)
  assert (Hsame: payload_bytes m' = payload_bytes m).
  { destruct (payload_bytes m) as [|b0 pl] eqn:Ep; apply construct_fields in Hm';
      destruct Hm' as (_ & _ & _ & _ & _ & _ & _ & Hp1); unfold payload_bytes.
    - destruct Hp1 as [-> _]. reflexivity.
    - rewrite Hp1. reflexivity. }
  assert (Hf: exists bf' k', construct [c] [i] mode bf' k' = Ok m') by (destruct (payload_bytes m); eauto).
  destruct Hf as (bf' & k' & Hc'). apply construct_fields in Hc'.
  destruct Hc' as (Hcls' & Hid' & _ & _ & _ & Hlen' & Hck' & _).
  rewrite Hsame in *.
  destruct (serialize_eq m' c i (payload_bytes m) Hcls' Hid' Hsame Hlen' Hck') as (Hs' & _ & _).
  congruence.
Qed.

(* addressing: names, integers and bytes denote the same class/id (finite table) *)
Definition has_def (name : string) : bool :=
  match assoc_s name payloads_get, assoc_s name payloads_set, assoc_s name payloads_poll with
  | None, None, None => false
  | _, _, _ => true
  end.
Definition addr_ok (e : list N * string) : bool :=
  match fst e with
  | [c; i] =>
      negb (has_def (snd e)) ||
      match assoc_b [c] classes with
      | None => false
      | Some cn =>
          match msgstr2bytes cn (snd e), msgclass2bytes (Z.of_N c) (Z.of_N i) with
          | Ok (a, b), Ok (a', b') => beq a [c] && beq b [i] && beq a' [c] && beq b' [i]
          | _, _ => false
          end
      end
  | _ => true
  end.
Lemma c04_addressing : forallb addr_ok msgids = true.
Proof. vm_compute. reflexivity. Qed.

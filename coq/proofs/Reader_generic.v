(* Reader_generic.v — facts about the reader that hold for every stream type *)
From PyUbx Require Import Base Bytes Reader Tac Bytes_lemmas.
Open Scope N_scope.


Section G.
Context {S P : Type}.
Variable rd : nat -> S -> bytes * S.
Variable rdl : S -> bytes * S.
Variable parse : N -> bytes -> result P.
Variable nmea_hdr : N -> bool.

Notation frame1 := (frame1 rd rdl nmea_hdr).
Notation step := (step rd rdl parse nmea_hdr).
Notation read_all := (read_all rd rdl parse nmea_hdr).
Notation trace := (trace rd rdl nmea_hdr).
Notation interp := (interp parse).
Notation outcome_of := (outcome_of parse).

Lemma read_all_unfold c f s :
  read_all c (Datatypes.S f) s =
  let '(o, s') := step c s in on_outcome c o s' (read_all c f s').
Proof. cbn [Reader.read_all]. destruct (step c s) as [[raw p| |e| |e] s']; reflexivity. Qed.

Lemma step_frame1 c s :
  step c s = match frame1 s with
             | (Ok Noise, s') => (outcome_of c TNoise, s')
             | (Ok (Frame p r), s') => (outcome_of c (TFrame p r), s')
             | (Raise e, s') => (classify (P:=P) e, s')
             end.
Proof.
  unfold Reader.step, Reader.outcome_of. destruct (frame1 s) as [[[|p r]|e] s']; try reflexivity.
  destruct (passes c p); [|reflexivity]. destruct (parsing c); [|reflexivity].
  destruct (parse p r); reflexivity.
Qed.

(* the reader is the interpretation of the framing trace: framing never depends on the
   configuration or on what a protocol parser answers *)
Theorem read_all_interp c fuel : forall s,
  read_all c fuel s = let '(l, e) := trace fuel s in interp c l e.
Proof.
  induction fuel as [|f IH]; intros s; [reflexivity|].
  rewrite read_all_unfold, step_frame1. cbn [Reader.trace].
  destruct (frame1 s) as [[[|p r]|e] s'].
  - rewrite IH. destruct (trace f s') as [l e]. reflexivity.
  - rewrite IH. destruct (trace f s') as [l e]. reflexivity.
  - destruct e; try (rewrite IH; destruct (trace f s') as [l e']; reflexivity); try reflexivity.
Qed.

(* ---------------------------------------------------------------- *)
(* parsers that only ever raise their own protocol errors *)
Definition parse_protocol_only : Prop :=
  forall p r e, parse p r = Raise e -> is_protocol_exn e = true.

Definition frame_ev (t : tev) : Prop :=
  match t with
  | TFrame p raw => (p = 1 \/ p = 2 \/ p = 4) /\ protocol nmea_hdr raw = p
  | TNoise => True
  | TErr e => e = EUBXStream \/ e = EUBXParse
  end.

Definition withpf (c : cfg) (f : N) : cfg :=
  {| protfilter := f; quitonerror := quitonerror c; parsing := parsing c |}.
Definition withqe (c : cfg) (q : N) : cfg :=
  {| protfilter := protfilter c; quitonerror := q; parsing := parsing c |}.
Definition withparsing (c : cfg) (b : bool) : cfg :=
  {| protfilter := protfilter c; quitonerror := quitonerror c; parsing := b |}.

Lemma classify_cases e : @classify P e = Eof \/ @classify P e = Reject e \/ @classify P e = Foreign e.
Proof. destruct e; simpl; auto. Qed.

Lemma classify_protocol e : is_protocol_exn e = true -> classify (P:=P) e = Reject e.
Proof. destruct e; simpl; try discriminate; reflexivity. Qed.

Lemma passes7 p : p = 1 \/ p = 2 \/ p = 4 -> passes {| protfilter := 7; quitonerror := 0; parsing := true |} p = true.
Proof. intros [-> | [-> | ->]]; reflexivity. Qed.

(* C11: protfilter only filters *)
Lemma interp_filter c F (l : list (tev * S)) e :
  parse_protocol_only -> quitonerror c <> 2 ->
  Forall (fun x => frame_ev (fst x)) l ->
  items (interp (withpf c F) l e) =
  filter (fun it => negb (N.land F (protocol nmea_hdr (fst it)) =? 0)) (items (interp (withpf c 7) l e)).
Proof.
  intros Hp Hq Hl. induction l as [|[t s'] l IH]; cbn [Reader.interp].
  - destruct e; reflexivity.
  - inversion Hl as [|? ? Ht Hl']; subst. specialize (IH Hl'). cbn [fst] in Ht.
    assert (Hq': (quitonerror c =? 2) = false) by lia.
    destruct t as [p raw| |x]; cbn [Reader.outcome_of].
    + destruct Ht as [Hp3 Hproto].
      assert (H7: passes (withpf c 7) p = true) by (destruct Hp3 as [-> | [-> | ->]]; reflexivity).
      rewrite H7. unfold passes at 1. cbn [protfilter withpf].
      cbn [parsing withpf].
      destruct (parsing c).
      * destruct (parse p raw) as [v|x] eqn:Epr.
        -- cbn [on_outcome add_item items filter fst]. rewrite Hproto.
           destruct (negb (N.land F p =? 0)); cbn [on_outcome add_item items]; rewrite IH; reflexivity.
        -- rewrite (classify_protocol x (Hp _ _ _ Epr)).
           destruct (negb (N.land F p =? 0)); cbn [on_outcome quitonerror withpf]; rewrite ?Hq';
           destruct (quitonerror c =? 1); cbn [add_report items]; exact IH.
      * cbn [on_outcome add_item items filter fst]. rewrite Hproto.
        destruct (negb (N.land F p =? 0)); cbn [on_outcome add_item items]; rewrite IH; reflexivity.
    + cbn [on_outcome]. exact IH.
    + assert (Hx: is_protocol_exn x = true) by (destruct Ht as [-> | ->]; reflexivity).
      rewrite (classify_protocol x Hx). cbn [on_outcome quitonerror withpf]. rewrite Hq'.
      destruct (quitonerror c =? 1); cbn [add_report items]; exact IH.
Qed.

(* C12: ERR_IGNORE and ERR_LOG deliver the same items *)
Lemma interp_ignore_log c (l : list (tev * S)) e :
  items (interp (withqe c 0) l e) = items (interp (withqe c 1) l e).
Proof.
  induction l as [|[t s'] l IH]; cbn [Reader.interp]; [destruct e; reflexivity|].
  replace (outcome_of (withqe c 1) t) with (outcome_of (withqe c 0) t) by (destruct t; reflexivity).
  destruct (outcome_of (withqe c 0) t); cbn [on_outcome quitonerror withqe N.eqb Pos.eqb add_item add_report items stop];
    try rewrite IH; reflexivity.
Qed.

(* the rejections of a trace, in order: what the ERR_LOG handler is called with *)
Fixpoint rejections (c : cfg) (l : list (tev * S)) : list exn :=
  match l with
  | [] => []
  | (t, _) :: l' =>
    match outcome_of c t with
    | Reject e => e :: rejections c l'
    | Eof | Foreign _ => []
    | _ => rejections c l'
    end
  end.

Lemma rejections_qe c q l : rejections (withqe c q) l = rejections c l.
Proof.
  induction l as [|[t s'] l IH]; cbn [rejections]; [reflexivity|].
  replace (outcome_of (withqe c q) t) with (outcome_of c t) by (destruct t; reflexivity).
  destruct (outcome_of c t); rewrite ?IH; reflexivity.
Qed.

Lemma interp_log_reports c (l : list (tev * S)) e :
  reports (interp (withqe c 1) l e) = rejections c l /\
  reports (interp (withqe c 0) l e) = [].
Proof.
  induction l as [|[t s'] l [IH1 IH0]]; cbn [Reader.interp rejections]; [destruct e; split; reflexivity|].
  replace (outcome_of (withqe c 1) t) with (outcome_of c t) by (destruct t; reflexivity).
  replace (outcome_of (withqe c 0) t) with (outcome_of c t) by (destruct t; reflexivity).
  destruct (outcome_of c t); cbn [on_outcome quitonerror withqe N.eqb Pos.eqb add_item add_report reports stop];
    rewrite ?IH1, ?IH0; split; reflexivity.
Qed.

(* items delivered before the first rejection / after *)
Fixpoint upto_reject (c : cfg) (l : list (tev * S)) : list (bytes * option P) * option exn :=
  match l with
  | [] => ([], None)
  | (t, _) :: l' =>
    match outcome_of c t with
    | Deliver raw p => let '(is, r) := upto_reject c l' in ((raw, p) :: is, r)
    | Skip => upto_reject c l'
    | Reject e => ([], Some e)
    | Eof => ([], None)
    | Foreign e => ([], Some e)
    end
  end.

Lemma upto_reject_qe c q l : upto_reject (withqe c q) l = upto_reject c l.
Proof.
  induction l as [|[t s'] l IH]; cbn [upto_reject]; [reflexivity|].
  replace (outcome_of (withqe c q) t) with (outcome_of c t) by (destruct t; reflexivity).
  destruct (outcome_of c t); rewrite ?IH; reflexivity.
Qed.

(* C12: under ERR_RAISE the reader delivers the items up to the first rejection and raises it *)
Lemma interp_raise c (l : list (tev * S)) e :
  let r := interp (withqe c 2) l e in
  (items r, raised r) = upto_reject c l /\ reports r = [].
Proof.
  induction l as [|[t s'] l IH]; cbn [Reader.interp upto_reject]; [destruct e; split; reflexivity|].
  replace (outcome_of (withqe c 2) t) with (outcome_of c t) by (destruct t; reflexivity).
  cbv zeta in IH. destruct IH as [IH1 IH2].
  destruct (outcome_of c t); cbn [on_outcome quitonerror withqe N.eqb Pos.eqb add_item add_report items raised reports stop].
  - destruct (upto_reject c l) as [is r]. injection IH1 as <- <-. rewrite IH2. split; reflexivity.
  - rewrite IH2. split; [exact IH1|reflexivity].
  - split; reflexivity.
  - split; reflexivity.
  - split; reflexivity.
Qed.

(* prefix relation between the IGNORE run and the RAISE run *)
Lemma upto_reject_prefix c (l : list (tev * S)) e :
  exists rest, items (interp (withqe c 0) l e) = fst (upto_reject c l) ++ rest /\
               (snd (upto_reject c l) = None -> rest = []).
Proof.
  induction l as [|[t s'] l (rest & IH1 & IH2)]; cbn [Reader.interp upto_reject].
  - exists []. destruct e; split; auto.
  - replace (outcome_of (withqe c 0) t) with (outcome_of c t) by (destruct t; reflexivity).
    destruct (outcome_of c t); cbn [on_outcome quitonerror withqe N.eqb Pos.eqb add_item items stop fst snd].
    + destruct (upto_reject c l) as [is r]. cbn [fst snd] in *. exists rest. rewrite IH1. split; auto.
    + exists rest. auto.
    + eexists. split; [reflexivity|discriminate].
    + exists []. split; auto.
    + eexists. split; [reflexivity|discriminate].
Qed.

(* C11: parsing=False leaves framing unchanged *)
Lemma interp_parsing_off c (l : list (tev * S)) e :
  Forall (fun x => match fst x with
                   | TFrame p raw => passes c p = true -> exists v, parse p raw = Ok v
                   | _ => True end) l ->
  map fst (items (interp (withparsing c false) l e)) = map fst (items (interp (withparsing c true) l e)) /\
  Forall (fun it => snd it = None) (items (interp (withparsing c false) l e)).
Proof.
  intros Hl. induction l as [|[t s'] l IH]; cbn [Reader.interp].
  - destruct e; split; constructor.
  - inversion Hl as [|? ? Ht Hl']; subst. destruct (IH Hl') as [IH1 IH2]. cbn [fst] in Ht.
    destruct t as [p raw| |x]; cbn [Reader.outcome_of].
    + unfold passes in *. cbn [protfilter withparsing parsing].
      destruct (negb (N.land (protfilter c) p =? 0)) eqn:Ep.
      * destruct (Ht eq_refl) as [v ->].
        cbn [on_outcome add_item items map fst]. rewrite IH1. split; [reflexivity|].
        constructor; [reflexivity|exact IH2].
      * cbn [on_outcome]. split; assumption.
    + cbn [on_outcome]. split; assumption.
    + destruct (classify_cases x) as [-> | [-> | ->]]; cbn [on_outcome quitonerror withparsing];
        repeat (match goal with |- context [if ?b then _ else _] => destruct b end);
        cbn [stop add_report items map]; split; auto; constructor.
Qed.

End G.

(* Src_reader.v — the stream-reading methods of UBXReader (gen/PySrcIO.v, translated from the source on every run)
   against the hand-written reader model (model/Reader.v). *)
From Coq Require Import ZArith List String Ascii Bool Lia ZifyBool.
From PyUbx Require Import Base Bytes Fletcher Frame Reader PyFloat Types Strs Walk Consts Tables Msg PyMini PySrcIO Tac Bytes_lemmas Src_common.
Import ListNotations.
Open Scope Z_scope.

Ltac io := cbv [bindIO retIO raiseIO liftR io_read io_readline io_set io_get io_eff g_reraise fn_result seqIO].

(* ---- bitwise operations: N (the model) and Z (Python ints) ---- *)
Lemma N2Z_land a b : Z.land (Z.of_N a) (Z.of_N b) = Z.of_N (N.land a b).
Proof.
  apply Z.bits_inj'. intros n Hn. rewrite Z.land_spec, <- (Z2N.id n Hn), !N2Z.inj_testbit. now rewrite N.land_spec.
Qed.
Lemma N2Z_lor a b : Z.lor (Z.of_N a) (Z.of_N b) = Z.of_N (N.lor a b).
Proof.
  apply Z.bits_inj'. intros n Hn. rewrite Z.lor_spec, <- (Z2N.id n Hn), !N2Z.inj_testbit. now rewrite N.lor_spec.
Qed.
Lemma N2Z_ldiff a b : Z.land (Z.of_N a) (Z.lnot (Z.of_N b)) = Z.of_N (N.ldiff a b).
Proof.
  rewrite <- Z.ldiff_land. apply Z.bits_inj'. intros n Hn.
  rewrite Z.ldiff_spec, <- (Z2N.id n Hn), !N2Z.inj_testbit. now rewrite N.ldiff_spec.
Qed.
Lemma N2Z_shiftl a (n : N) : Z.shiftl (Z.of_N a) (Z.of_N n) = Z.of_N (N.shiftl a n).
Proof.
  rewrite Z.shiftl_mul_pow2 by lia. rewrite N.shiftl_mul_pow2. now rewrite N2Z.inj_mul, N2Z.inj_pow.
Qed.
Lemma truthy_land (a b : N) : g_truth (gint (Z.land (Z.of_N a) (Z.of_N b))) = negb (N.land a b =? 0)%N.
Proof. rewrite N2Z_land. unfold g_truth, gint. destruct (N.land a b =? 0)%N eqn:E; lia. Qed.

Section R.
Context {S P : Type}.
Variable rd : nat -> S -> bytes * S.
Variable rdl : S -> bytes * S.
Variable parse : N -> bytes -> result P.
Variable nmea_hdr : N -> bool.
Variable c : cfg.
(* whether an error handler was given *)
Variable has_handler : bool.

Notation M := (@Reader.M S).
Notation read_bytes := (@Reader.read_bytes S rd).
Notation read_line := (@Reader.read_line S rdl).

Definition wset (w : world S) (s : S) : world S :=
  {| w_stream := s; w_eff := w_eff w; w_store := w_store w |}.

(* a model computation over the stream, seen as a computation over the world *)
Definition lift_m {A} (f : A -> result gv) (m : M A) : IO (world S) gv := fun w =>
  let '(r, s') := m (w_stream w) in
  (match r with Ok a => f a | Raise e => Raise e end, wset w s').

(* the attributes of the reader object: the three the reader itself looks at come from the model's configuration,
   the ones it only hands on to the protocol parsers are distinct tokens *)
Definition attr (name : string) : gv :=
  if String.eqb name "_protfilter" then gint (Z.of_N (protfilter c))
  else if String.eqb name "_quitonerror" then gint (Z.of_N (quitonerror c))
  else if String.eqb name "_parsing" then gbool (parsing c)
  else if String.eqb name "_errorhandler" then (if has_handler then Call "handler" [] [] else gnone)
  else gstr ("<" ++ name ++ ">").

(* a parsed message, as a value: which parser was asked about which bytes *)
Definition parsed (proto : N) (raw : bytes) : gv := Call "parsed" [gint (Z.of_N proto); gbytes raw] [].

Definition kw_is (kw : list (string * gv)) (want : list (string * string)) : bool :=
  Nat.eqb (length kw) (length want) &&
  forallb (fun p => String.eqb (fst (fst p)) (fst (snd p)) && g_eq (snd (fst p)) (gstr ("<" ++ snd (snd p) ++ ">")))
          (combine kw want).

(* the three protocol parsers: each has to be given the raw bytes and exactly the reader's options, by keyword *)
Definition ext (name : string) (pos : list gv) (kw : list (string * gv)) : result gv :=
  match pos with
  | [V (PBytes raw)] =>
      let go (proto : N) := match parse proto raw with Ok _ => Ok (parsed proto raw) | Raise e => Raise e end in
      if String.eqb name "self.parse" then
        if kw_is kw [("validate", "_validate"); ("msgmode", "_msgmode"); ("parsebitfield", "_parsebf")] then go 2%N else Raise EOther
      else if String.eqb name "NMEAReader.parse" then
        if kw_is kw [("validate", "_validate"); ("msgmode", "_msgmode")] then go 1%N else Raise EOther
      else if String.eqb name "RTCMReader.parse" then
        if kw_is kw [("validate", "_validate"); ("labelmsm", "_labelmsm")] then go 4%N else Raise EOther
      else Raise EOther
  | _ => Raise EOther
  end.

(* the methods a method calls have to be translated as well (the translator only translates a caller whose callees it
   translated) *)
Hypothesis T_read_bytes : mem_s "py_io_read_bytes" translated_io = true.
Hypothesis T_read_line : mem_s "py_io_read_line" translated_io = true.

Notation py_read_bytes := (@py_io_read_bytes S rd).
Notation py_read_line := (@py_io_read_line S rdl).
Notation py_parse_ubx := (@py_io_parse_ubx S rd attr ext).
Notation py_parse_nmea := (@py_io_parse_nmea S rdl attr ext).
Notation py_parse_rtcm3 := (@py_io_parse_rtcm3 S rd attr ext).
Notation py_do_error := (@py_io_do_error S attr).

(* ---- _read_bytes ---- *)
Lemma read_bytes_io : forall (n : nat) (w : world S),
  py_read_bytes (gint (Z.of_nat n)) w = lift_m (fun d => Ok (gbytes d)) (read_bytes n) w.
Proof.
  pose proof T_read_bytes as Hin. intros n w. first [untranslated Hin | clear Hin].
  all: destruct w as [s0 eff st]. all: unfold py_io_read_bytes, lift_m, Reader.read_bytes, wset. all: io.
  all: cbn [g_eq gint pv_eq w_stream w_eff w_store].
  all: destruct n as [|n]; [reflexivity|].
  all: replace (Z.of_nat (Datatypes.S n) =? 0) with false by lia.
  all: replace (Z.of_nat (Datatypes.S n) <? 0) with false by lia.
  all: rewrite Nat2Z.id. all: cbn [w_stream w_eff w_store]. all: destruct (rd (Datatypes.S n) s0) as [d s'].
  all: cbn [w_stream w_eff w_store]. all: destruct d as [|x d]; [reflexivity|].
  all: cbn [w_store w_stream w_eff g_len gbytes g_eq gint pv_eq g_lt length bind].
  all: replace (Z.of_nat (Datatypes.S (length d)) =? 0) with false by lia.
  all: replace (0 <? Z.of_nat (Datatypes.S (length d))) with true by lia.
  all: cbn [bind].
  all: destruct (Nat.ltb_spec (Datatypes.S (length d)) (Datatypes.S n)) as [H|H];
       [ replace (Z.of_nat (Datatypes.S (length d)) <? Z.of_nat (Datatypes.S n)) with true by lia; reflexivity
       | replace (Z.of_nat (Datatypes.S (length d)) <? Z.of_nat (Datatypes.S n)) with false by lia; reflexivity ].
Qed.

(* ---- _read_line ---- *)
Lemma skipn_last (l : bytes) : l <> [] -> skipn (length l - 1) l = [last l 0%N].
Proof.
  induction l as [|x l IH]; [congruence|]. intros _. destruct l as [|y l]; [reflexivity|].
  replace (length (x :: y :: l) - 1)%nat with (Datatypes.S (length (y :: l) - 1)) by (cbn [length]; lia).
  change (skipn (Datatypes.S (length (y :: l) - 1)) (x :: y :: l)) with (skipn (length (y :: l) - 1) (y :: l)).
  rewrite IH by congruence. reflexivity.
Qed.

Lemma read_line_io : forall w : world S,
  py_read_line w = lift_m (fun d => Ok (gbytes d)) read_line w.
Proof.
  pose proof T_read_line as Hin. intros w. first [untranslated Hin | clear Hin].
  all: destruct w as [s0 eff st]. all: unfold py_io_read_line, lift_m, Reader.read_line, wset. all: io. all: cbn [w_stream w_eff w_store].
  all: destruct (rdl s0) as [d s']. all: cbn [w_store w_stream w_eff g_len gbytes bind g_eq gint pv_eq].
  all: destruct d as [|x d]; [reflexivity|].
  all: cbn [length]. all: replace (Z.of_nat (Datatypes.S (length d)) =? 0) with false by lia.
  all: cbn [g_slice slice_of gint gnone bind g_eq pv_eq gbytes].
  all: change (-1) with (- Z.of_nat 1). all: rewrite pyslice_from_last by lia.
  all: assert (E : (if Nat.leb (length (x :: d)) 1 then x :: d else skipn (length (x :: d) - 1) (x :: d)) = [last (x :: d) 0%N])
         by (destruct d as [|y d]; [reflexivity|]; cbn [length Nat.leb]; apply (skipn_last (x :: y :: d)); congruence).
  all: rewrite E. all: cbn [beq]. all: rewrite andb_true_r. all: destruct (last (x :: d) 0 =? 10)%N; reflexivity.
Qed.

(* ---- the decision every _parse_x makes after framing: hand the frame to its parser when the protocol passes the
        filter and parsing is on ---- *)
Definition maybe_parse (proto : N) (raw : bytes) : result gv :=
  if passes c proto && parsing c
  then match parse proto raw with Ok _ => Ok (Tup [gbytes raw; parsed proto raw]) | Raise e => Raise e end
  else Ok (Tup [gbytes raw; gnone]).

Lemma attr_pf : attr "_protfilter" = gint (Z.of_N (protfilter c)).  Proof. reflexivity. Qed.
Lemma attr_parsing : attr "_parsing" = gbool (parsing c).  Proof. reflexivity. Qed.

Lemma read_bytes_ioZ (z : Z) (w : world S) : 0 <= z ->
  py_read_bytes (gint z) w = lift_m (fun d => Ok (gbytes d)) (read_bytes (Z.to_nat z)) w.
Proof. intros Hz. rewrite <- (Z2Nat.id z Hz) at 1. apply read_bytes_io. Qed.

Lemma pyslice_slice (l : bytes) a b : 0 <= a -> 0 <= b ->
  pyslice l a b = slice l (Z.to_nat a) (Z.to_nat b - Z.to_nat a).
Proof. intros Ha Hb. unfold slice. now apply pyslice_Z. Qed.

(* ---- _parse_ubx ---- *)
Definition ubx_rest (hdr : bytes) : M bytes :=
  bindM (read_bytes 4) (fun h =>
    let lenb := slice h 2 2 in
    let leni := N.to_nat (uint_of_le lenb) in
    bindM (read_bytes (leni + 2)) (fun body =>
      ret (hdr ++ slice h 0 1 ++ slice h 1 1 ++ lenb ++ slice body 0 leni ++ slice body leni 2)%list)).

Ltac natlit := change (Z.to_nat 0) with 0%nat; change (Z.to_nat 1) with 1%nat; change (Z.to_nat 2) with 2%nat;
               change (Z.to_nat 3) with 3%nat; change (Z.to_nat 4) with 4%nat; cbn [Nat.sub].

Lemma parse_ubx_io : mem_s "py_io_parse_ubx" translated_io = true -> forall hdr (w : world S),
  py_parse_ubx (gbytes hdr) w = lift_m (maybe_parse 2) (ubx_rest hdr) w.
Proof.
  intros Hin hdr w. first [untranslated Hin | clear Hin].
  all: unfold py_io_parse_ubx. all: unfold bindIO at 1. all: rewrite read_bytes_ioZ by lia. all: natlit.
  all: unfold lift_m at 1 2, ubx_rest, bindM. all: destruct w as [s0 eff st]. all: cbn [w_stream].
  all: destruct (read_bytes 4 s0) as [[h|e] s1]; [|reflexivity].
  all: unfold wset. all: cbn [w_stream w_eff w_store].
  all: unfold bindIO at 1. all: unfold liftR at 1. all: cbn [g_slice slice_of gbytes gint bind].
  all: rewrite !pyslice_slice by lia. all: natlit.
  all: set (lenb := slice h 2 2). all: set (u := uint_of_le lenb).
  all: io. all: cbn [bind g_int_from_le g_add gint gbytes]. all: fold u.
  all: rewrite read_bytes_ioZ by lia. all: unfold lift_m, wset. all: cbn [w_stream w_eff w_store].
  all: replace (Z.to_nat (Z.of_N u + 2)) with (N.to_nat u + 2)%nat by lia.
  all: destruct (read_bytes (N.to_nat u + 2) s1) as [[body|e] s2]; [|reflexivity].
  all: cbn [g_slice slice_of gbytes gint bind]. all: rewrite !pyslice_slice by lia. all: natlit.
  all: replace (Z.to_nat (Z.of_N u + 2) - Z.to_nat (Z.of_N u))%nat with 2%nat by lia.
  all: replace (Z.to_nat (Z.of_N u)) with (N.to_nat u) by lia. all: rewrite ?Nat.sub_0_r.
  all: cbn [bind g_add gbytes]. all: rewrite <- !app_assoc.
  all: rewrite attr_pf, attr_parsing. all: unfold g_band, gint. all: change 2 with (Z.of_N 2).
  all: fold (gint (Z.land (Z.of_N (protfilter c)) (Z.of_N 2))).
  all: cbn [bind]. all: rewrite truthy_land, truth_gbool.
  all: unfold maybe_parse, passes, ret.
  all: destruct (negb (N.land (protfilter c) 2 =? 0)%N); cbn [andb bind]; [|reflexivity].
  all: destruct (parsing c); [|reflexivity].
  all: unfold ext, attr. all: cbn [gbytes String.eqb Ascii.eqb Bool.eqb kw_is length Nat.eqb combine forallb fst snd andb append
                        g_eq gstr pv_eq bytes_of_string list_ascii_of_string map].
  all: rewrite !beq_refl. all: cbn [andb].
  all: destruct (parse 2%N _); reflexivity.
Qed.

(* the tail shared by the three _parse_x methods once the frame is assembled *)
Lemma parse_tail (proto : N) (name : string) (kws : list (string * string)) raw (w : world S)
  (Hext : forall kw, kw_is kw kws = true ->
          ext name [gbytes raw] kw = match parse proto raw with Ok _ => Ok (parsed proto raw) | Raise e => Raise e end) :
  forall kw, kw_is kw kws = true ->
  (doM c5 <- liftR (do b4 <- (do t3 <- g_band (attr "_protfilter") (gint (Z.of_N proto)); Ok (g_truth t3));
                    if b4 then Ok (g_truth (attr "_parsing")) else Ok false);
   if c5 then doM t6 <- liftR (ext name [gbytes raw] kw); retIO (Tup [gbytes raw; t6])
   else retIO (Tup [gbytes raw; gnone])) w = (maybe_parse proto raw, w).
Proof.
  intros kw Hkw. rewrite attr_pf, attr_parsing. unfold g_band, gint.
  fold (gint (Z.land (Z.of_N (protfilter c)) (Z.of_N proto))). io. cbn [bind]. rewrite truthy_land, truth_gbool.
  unfold maybe_parse, passes.
  destruct (negb (N.land (protfilter c) proto =? 0)%N); cbn [andb bind]; [|reflexivity].
  destruct (parsing c); [|reflexivity].
  rewrite (Hext kw Hkw). destruct (parse proto raw); reflexivity.
Qed.

(* ---- _parse_nmea ---- *)
Definition nmea_rest (hdr : bytes) : M bytes := bindM read_line (fun l => ret (hdr ++ l)%list).

Lemma parse_nmea_io : mem_s "py_io_parse_nmea" translated_io = true -> forall hdr (w : world S),
  py_parse_nmea (gbytes hdr) w = lift_m (maybe_parse 1) (nmea_rest hdr) w.
Proof.
  intros Hin hdr w. first [untranslated Hin | clear Hin].
  all: unfold py_io_parse_nmea. all: unfold bindIO at 1. all: rewrite read_line_io.
  all: unfold lift_m, nmea_rest, bindM, ret. all: destruct w as [s0 eff st]. all: cbn [w_stream].
  all: destruct (read_line s0) as [[l|e] s1]; [|reflexivity].
  all: unfold wset. all: cbn [w_stream w_eff w_store].
  all: unfold bindIO at 1. all: unfold liftR at 1. all: cbn [g_add gbytes].
  all: change (gint 1) with (gint (Z.of_N 1)).
  all: erewrite (parse_tail 1 "NMEAReader.parse" [("validate", "_validate"); ("msgmode", "_msgmode")]);
       [ reflexivity
       | intros kw Hkw; unfold ext; cbn [gbytes String.eqb Ascii.eqb Bool.eqb]; now rewrite Hkw
       | unfold attr; cbn [kw_is length Nat.eqb combine forallb fst snd andb String.eqb Ascii.eqb Bool.eqb append
                           g_eq gstr pv_eq bytes_of_string list_ascii_of_string map];
         now rewrite !beq_refl ].
Qed.

(* ---- _parse_rtcm3 ---- *)
Definition rtcm_rest (x1 x2 : N) : M bytes :=
  bindM (read_bytes 1) (fun h3 =>
    let size := N.to_nat (N.lor (nth 0 h3 0%N) (N.shiftl x2 8)) in
    bindM (read_bytes size) (fun pl =>
      bindM (read_bytes 3) (fun crc => ret ([x1; x2] ++ h3 ++ pl ++ crc)%list))).

Lemma read_bytes_nonempty n s d s' : (0 < n)%nat -> read_bytes n s = (Ok d, s') -> d <> [].
Proof.
  intros Hn H. unfold Reader.read_bytes in H. destruct n as [|n]; [lia|]. destruct (rd (Datatypes.S n) s) as [d0 s0].
  destruct d0 as [|x d0]; cbn [length] in H; [discriminate|].
  destruct (Nat.ltb _ _) in H; [discriminate|]. injection H as <- _. discriminate.
Qed.

Lemma parse_rtcm3_io : mem_s "py_io_parse_rtcm3" translated_io = true -> forall x1 x2 (w : world S),
  py_parse_rtcm3 (gbytes [x1; x2]) w = lift_m (maybe_parse 4) (rtcm_rest x1 x2) w.
Proof.
  intros Hin x1 x2 w. first [untranslated Hin | clear Hin].
  all: unfold py_io_parse_rtcm3. all: unfold bindIO at 1. all: rewrite read_bytes_ioZ by lia. all: natlit.
  all: unfold lift_m at 1 2, rtcm_rest, bindM. all: destruct w as [s0 eff st]. all: cbn [w_stream].
  all: destruct (read_bytes 1 s0) as [[h3|e] s1] eqn:E1; [|reflexivity].
  all: pose proof (read_bytes_nonempty 1 s0 h3 s1 ltac:(lia) E1) as Hne.
  all: destruct h3 as [|x3 h3]; [congruence|]. all: clear Hne.
  all: unfold wset. all: cbn [w_stream w_eff w_store].
  (* size = hdr3[0] | (hdr[1] << 8) *)
  all: do 4 (unfold bindIO at 1; unfold liftR at 1;
        cbn [g_index gbytes gint length Z.of_nat Pos.of_succ_nat Pos.succ Z.ltb Z.leb Z.compare Pos.compare Pos.compare_cont
             orb nth_error Z.to_nat Pos.to_nat Pos.iter_op Nat.add bind g_shl g_bor nth Z.add]).
  all: change (Pos.to_nat 1) with 1%nat. all: cbn [nth_error bind g_shl gint Z.ltb Z.compare g_bor].
  all: change 8 with (Z.of_N 8). all: rewrite N2Z_shiftl, N2Z_lor.
  all: set (sz := N.lor x3 (N.shiftl x2 8)).
  all: unfold bindIO at 1. all: fold (gint (Z.of_N sz)). all: rewrite read_bytes_ioZ by lia. all: unfold lift_m, wset. all: cbn [w_stream w_eff w_store].
  all: replace (Z.to_nat (Z.of_N sz)) with (N.to_nat sz) by lia.
  all: destruct (read_bytes (N.to_nat sz) s1) as [[pl|e] s2]; [|reflexivity].
  all: unfold bindIO at 1. all: rewrite read_bytes_ioZ by lia. all: natlit. all: unfold lift_m, wset. all: cbn [w_stream w_eff w_store].
  all: destruct (read_bytes 3 s2) as [[crc|e] s3]; [|reflexivity].
  all: do 3 (unfold bindIO at 1; unfold liftR at 1; cbn [g_add gbytes bind]).
  all: rewrite <- !app_assoc. all: change (gint 4) with (gint (Z.of_N 4)). all: unfold ret.
  all: erewrite (parse_tail 4 "RTCMReader.parse" [("validate", "_validate"); ("labelmsm", "_labelmsm")]);
       [ reflexivity
       | intros kw Hkw; unfold ext; cbn [gbytes String.eqb Ascii.eqb Bool.eqb]; now rewrite Hkw
       | unfold attr; cbn [kw_is length Nat.eqb combine forallb fst snd andb String.eqb Ascii.eqb Bool.eqb append
                           g_eq gstr pv_eq bytes_of_string list_ascii_of_string map];
         now rewrite !beq_refl ].
Qed.

(* ---- _do_error ---- *)
Definition log_effect (e : exn) (w : world S) : world S :=
  {| w_stream := w_stream w; w_eff := ((if has_handler then "errorhandler" else "logger.error")%string, [Exn e]) :: w_eff w;
     w_store := w_store w |}.

Lemma do_error_io : mem_s "py_io_do_error" translated_io = true -> forall (e : exn) (w : world S),
  py_do_error (Exn e) w =
  if (quitonerror c =? 2)%N then (Raise e, w)
  else if (quitonerror c =? 1)%N then (Ok gnone, log_effect e w)
  else (Ok gnone, w).
Proof.
  intros Hin e w. first [untranslated Hin | clear Hin].
  all: unfold py_io_do_error, log_effect. all: io. all: unfold attr. all: cbn [String.eqb Ascii.eqb Bool.eqb g_eq gint pv_eq].
  all: destruct (quitonerror c =? 2)%N eqn:E2; [replace (Z.of_N (quitonerror c) =? 2) with true by lia; reflexivity|].
  all: replace (Z.of_N (quitonerror c) =? 2) with false by lia.
  all: destruct (quitonerror c =? 1)%N eqn:E1;
       [replace (Z.of_N (quitonerror c) =? 1) with true by lia; destruct has_handler; reflexivity|].
  all: replace (Z.of_N (quitonerror c) =? 1) with false by lia. all: reflexivity.
Qed.
End R.

(* Src_reader.v — the stream-reading methods of UBXReader (gen/PySrcIO.v, translated from the source on every run)
   against the hand-written reader model (model/Reader.v). *)
From Coq Require Import ZArith List String Ascii Bool Lia ZifyBool.
From PyUbx Require Import Base Bytes Fletcher Frame Reader PyFloat Types Strs Walk Consts Tables Msg PyMini PySrcIO Tac Bytes_lemmas Src_common Read_iter.
Import ListNotations.
Open Scope Z_scope.

Ltac io := cbv [bindIO retIO raiseIO liftR io_read io_readline io_set io_get io_eff g_reraise fn_result seqIO].

(* ---- bitwise operations: N (the model) and Z (Python ints) ---- *)
Lemma N2Z_land a b : Z.land (Z.of_N a) (Z.of_N b) = Z.of_N (N.land a b).
Proof.
  apply Z.bits_inj'. intros n Hn. rewrite Z.land_spec, <- (Z2N.id n Hn), !N2Z.inj_testbit. now rewrite N.land_spec.
Qed.
Lemma N2Z_lor a b : Z.lor (Z.of_N a) (Z.of_N b) = Z.of_N (N.lor a b).
Proof.
  apply Z.bits_inj'. intros n Hn. rewrite Z.lor_spec, <- (Z2N.id n Hn), !N2Z.inj_testbit. now rewrite N.lor_spec.
Qed.
Lemma N2Z_ldiff a b : Z.land (Z.of_N a) (Z.lnot (Z.of_N b)) = Z.of_N (N.ldiff a b).
Proof.
  rewrite <- Z.ldiff_land. apply Z.bits_inj'. intros n Hn.
  rewrite Z.ldiff_spec, <- (Z2N.id n Hn), !N2Z.inj_testbit. now rewrite N.ldiff_spec.
Qed.
Lemma N2Z_shiftl a (n : N) : Z.shiftl (Z.of_N a) (Z.of_N n) = Z.of_N (N.shiftl a n).
Proof.
  rewrite Z.shiftl_mul_pow2 by lia. rewrite N.shiftl_mul_pow2. now rewrite N2Z.inj_mul, N2Z.inj_pow.
Qed.
Lemma truthy_land (a b : N) : g_truth (gint (Z.land (Z.of_N a) (Z.of_N b))) = negb (N.land a b =? 0)%N.
Proof. rewrite N2Z_land. unfold g_truth, gint. destruct (N.land a b =? 0)%N eqn:E; lia. Qed.

Section R.
Context {S P : Type}.
Variable rd : nat -> S -> bytes * S.
Variable rdl : S -> bytes * S.
Variable parse : N -> bytes -> result P.
Variable nmea_hdr : N -> bool.
Variable c : cfg.
(* whether an error handler was given *)
Variable has_handler : bool.

Notation M := (@Reader.M S).
Notation read_bytes := (@Reader.read_bytes S rd).
Notation read_line := (@Reader.read_line S rdl).

Definition wset (w : world S) (s : S) : world S :=
  {| w_stream := s; w_eff := w_eff w; w_store := w_store w |}.

(* a model computation over the stream, seen as a computation over the world *)
Definition lift_m {A} (f : A -> result gv) (m : M A) : IO (world S) gv := fun w =>
  let '(r, s') := m (w_stream w) in
  (match r with Ok a => f a | Raise e => Raise e end, wset w s').

(* the attributes of the reader object: the three the reader itself looks at come from the model's configuration,
   the ones it only hands on to the protocol parsers are distinct tokens *)
Definition attr (name : string) : gv :=
  if String.eqb name "_protfilter" then gint (Z.of_N (protfilter c))
  else if String.eqb name "_quitonerror" then gint (Z.of_N (quitonerror c))
  else if String.eqb name "_parsing" then gbool (parsing c)
  else if String.eqb name "_errorhandler" then (if has_handler then Call "handler" [] [] else gnone)
  else gstr ("<" ++ name ++ ">").

(* a parsed message, as a value: which parser was asked about which bytes *)
Definition parsed (proto : N) (raw : bytes) : gv := Call "parsed" [gint (Z.of_N proto); gbytes raw] [].

Definition kw_is (kw : list (string * gv)) (want : list (string * string)) : bool :=
  Nat.eqb (length kw) (length want) &&
  forallb (fun p => String.eqb (fst (fst p)) (fst (snd p)) && g_eq (snd (fst p)) (gstr ("<" ++ snd (snd p) ++ ">")))
          (combine kw want).

(* the three protocol parsers: each has to be given the raw bytes and exactly the reader's options, by keyword *)
Definition ext (name : string) (pos : list gv) (kw : list (string * gv)) : result gv :=
  match pos with
  | [V (PBytes raw)] =>
      let go (proto : N) := match parse proto raw with Ok _ => Ok (parsed proto raw) | Raise e => Raise e end in
      if String.eqb name "self.parse" then
        if kw_is kw [("validate", "_validate"); ("msgmode", "_msgmode"); ("parsebitfield", "_parsebf")] then go 2%N else Raise EOther
      else if String.eqb name "NMEAReader.parse" then
        if kw_is kw [("validate", "_validate"); ("msgmode", "_msgmode")] then go 1%N else Raise EOther
      else if String.eqb name "RTCMReader.parse" then
        if kw_is kw [("validate", "_validate"); ("labelmsm", "_labelmsm")] then go 4%N else Raise EOther
      else Raise EOther
  | _ => Raise EOther
  end.

(* the methods a method calls have to be translated as well (the translator only translates a caller whose callees it
   translated) *)
Hypothesis T_read_bytes : mem_s "py_io_read_bytes" translated_io = true.
Hypothesis T_read_line : mem_s "py_io_read_line" translated_io = true.

Notation py_read_bytes := (@py_io_read_bytes S rd).
Notation py_read_line := (@py_io_read_line S rdl).
Notation py_parse_ubx := (@py_io_parse_ubx S rd attr ext).
Notation py_parse_nmea := (@py_io_parse_nmea S rdl attr ext).
Notation py_parse_rtcm3 := (@py_io_parse_rtcm3 S rd attr ext).
Notation py_do_error := (@py_io_do_error S attr).

(* ---- _read_bytes ---- *)
Lemma read_bytes_io : forall (n : nat) (w : world S),
  py_read_bytes (gint (Z.of_nat n)) w = lift_m (fun d => Ok (gbytes d)) (read_bytes n) w.
Proof.
  pose proof T_read_bytes as Hin. intros n w. first [untranslated Hin | clear Hin].
  all: destruct w as [s0 eff st]. all: unfold py_io_read_bytes, lift_m, Reader.read_bytes, wset. all: io.
  all: cbn [g_eq gint pv_eq w_stream w_eff w_store].
  all: destruct n as [|n]; [reflexivity|].
  all: replace (Z.of_nat (Datatypes.S n) =? 0) with false by lia.
  all: replace (Z.of_nat (Datatypes.S n) <? 0) with false by lia.
  all: rewrite Nat2Z.id. all: cbn [w_stream w_eff w_store]. all: destruct (rd (Datatypes.S n) s0) as [d s'].
  all: cbn [w_stream w_eff w_store]. all: destruct d as [|x d]; [reflexivity|].
  all: cbn [w_store w_stream w_eff g_len gbytes g_eq gint pv_eq g_lt length bind].
  all: replace (Z.of_nat (Datatypes.S (length d)) =? 0) with false by lia.
  all: replace (0 <? Z.of_nat (Datatypes.S (length d))) with true by lia.
  all: cbn [bind].
  all: destruct (Nat.ltb_spec (Datatypes.S (length d)) (Datatypes.S n)) as [H|H];
       [ replace (Z.of_nat (Datatypes.S (length d)) <? Z.of_nat (Datatypes.S n)) with true by lia; reflexivity
       | replace (Z.of_nat (Datatypes.S (length d)) <? Z.of_nat (Datatypes.S n)) with false by lia; reflexivity ].
Qed.

(* ---- _read_line ---- *)
Lemma skipn_last (l : bytes) : l <> [] -> skipn (length l - 1) l = [last l 0%N].
Proof.
  induction l as [|x l IH]; [congruence|]. intros _. destruct l as [|y l]; [reflexivity|].
  replace (length (x :: y :: l) - 1)%nat with (Datatypes.S (length (y :: l) - 1)) by (cbn [length]; lia).
  change (skipn (Datatypes.S (length (y :: l) - 1)) (x :: y :: l)) with (skipn (length (y :: l) - 1) (y :: l)).
  rewrite IH by congruence. reflexivity.
Qed.

Lemma read_line_io : forall w : world S,
  py_read_line w = lift_m (fun d => Ok (gbytes d)) read_line w.
Proof.
  pose proof T_read_line as Hin. intros w. first [untranslated Hin | clear Hin].
  all: destruct w as [s0 eff st]. all: unfold py_io_read_line, lift_m, Reader.read_line, wset. all: io. all: cbn [w_stream w_eff w_store].
  all: destruct (rdl s0) as [d s']. all: cbn [w_store w_stream w_eff g_len gbytes bind g_eq gint pv_eq].
  all: destruct d as [|x d]; [reflexivity|].
  all: cbn [length]. all: replace (Z.of_nat (Datatypes.S (length d)) =? 0) with false by lia.
  all: cbn [g_slice slice_of gint gnone bind g_eq pv_eq gbytes].
  all: change (-1) with (- Z.of_nat 1). all: rewrite pyslice_from_last by lia.
  all: assert (E : (if Nat.leb (length (x :: d)) 1 then x :: d else skipn (length (x :: d) - 1) (x :: d)) = [last (x :: d) 0%N])
         by (destruct d as [|y d]; [reflexivity|]; cbn [length Nat.leb]; apply (skipn_last (x :: y :: d)); congruence).
  all: rewrite E. all: cbn [beq]. all: rewrite andb_true_r. all: destruct (last (x :: d) 0 =? 10)%N; reflexivity.
Qed.

(* ---- the decision every _parse_x makes after framing: hand the frame to its parser when the protocol passes the
        filter and parsing is on ---- *)
Definition maybe_parse (proto : N) (raw : bytes) : result gv :=
  if passes c proto && parsing c
  then match parse proto raw with Ok _ => Ok (Tup [gbytes raw; parsed proto raw]) | Raise e => Raise e end
  else Ok (Tup [gbytes raw; gnone]).

Lemma attr_pf : attr "_protfilter" = gint (Z.of_N (protfilter c)).  Proof. reflexivity. Qed.
Lemma attr_parsing : attr "_parsing" = gbool (parsing c).  Proof. reflexivity. Qed.

Lemma read_bytes_ioZ (z : Z) (w : world S) : 0 <= z ->
  py_read_bytes (gint z) w = lift_m (fun d => Ok (gbytes d)) (read_bytes (Z.to_nat z)) w.
Proof. intros Hz. rewrite <- (Z2Nat.id z Hz) at 1. apply read_bytes_io. Qed.

Lemma pyslice_slice (l : bytes) a b : 0 <= a -> 0 <= b ->
  pyslice l a b = slice l (Z.to_nat a) (Z.to_nat b - Z.to_nat a).
Proof. intros Ha Hb. unfold slice. now apply pyslice_Z. Qed.

(* ---- _parse_ubx ---- *)
Definition ubx_rest (hdr : bytes) : M bytes :=
  bindM (read_bytes 4) (fun h =>
    let lenb := slice h 2 2 in
    let leni := N.to_nat (uint_of_le lenb) in
    bindM (read_bytes (leni + 2)) (fun body =>
      ret (hdr ++ slice h 0 1 ++ slice h 1 1 ++ lenb ++ slice body 0 leni ++ slice body leni 2)%list)).

Ltac natlit := change (Z.to_nat 0) with 0%nat; change (Z.to_nat 1) with 1%nat; change (Z.to_nat 2) with 2%nat;
               change (Z.to_nat 3) with 3%nat; change (Z.to_nat 4) with 4%nat; cbn [Nat.sub].

Lemma parse_ubx_io : mem_s "py_io_parse_ubx" translated_io = true -> forall hdr (w : world S),
  py_parse_ubx (gbytes hdr) w = lift_m (maybe_parse 2) (ubx_rest hdr) w.
Proof.
  intros Hin hdr w. first [untranslated Hin | clear Hin].
  all: unfold py_io_parse_ubx. all: unfold bindIO at 1. all: rewrite read_bytes_ioZ by lia. all: natlit.
  all: unfold lift_m at 1 2, ubx_rest, bindM. all: destruct w as [s0 eff st]. all: cbn [w_stream].
  all: destruct (read_bytes 4 s0) as [[h|e] s1]; [|reflexivity].
  all: unfold wset. all: cbn [w_stream w_eff w_store].
  all: unfold bindIO at 1. all: unfold liftR at 1. all: cbn [g_slice slice_of gbytes gint bind].
  all: rewrite !pyslice_slice by lia. all: natlit.
  all: set (lenb := slice h 2 2). all: set (u := uint_of_le lenb).
  all: io. all: cbn [bind g_int_from_le g_add gint gbytes]. all: fold u.
  all: rewrite read_bytes_ioZ by lia. all: unfold lift_m, wset. all: cbn [w_stream w_eff w_store].
  all: replace (Z.to_nat (Z.of_N u + 2)) with (N.to_nat u + 2)%nat by lia.
  all: destruct (read_bytes (N.to_nat u + 2) s1) as [[body|e] s2]; [|reflexivity].
  all: cbn [g_slice slice_of gbytes gint bind]. all: rewrite !pyslice_slice by lia. all: natlit.
  all: replace (Z.to_nat (Z.of_N u + 2) - Z.to_nat (Z.of_N u))%nat with 2%nat by lia.
  all: replace (Z.to_nat (Z.of_N u)) with (N.to_nat u) by lia. all: rewrite ?Nat.sub_0_r.
  all: cbn [bind g_add gbytes]. all: rewrite <- !app_assoc.
  all: rewrite attr_pf, attr_parsing. all: unfold g_band, gint. all: change 2 with (Z.of_N 2).
  all: fold (gint (Z.land (Z.of_N (protfilter c)) (Z.of_N 2))).
  all: cbn [bind]. all: rewrite truthy_land, truth_gbool.
  all: unfold maybe_parse, passes, ret.
  all: destruct (negb (N.land (protfilter c) 2 =? 0)%N); cbn [andb bind]; [|reflexivity].
  all: destruct (parsing c); [|reflexivity].
  all: unfold ext, attr. all: cbn [gbytes String.eqb Ascii.eqb Bool.eqb kw_is length Nat.eqb combine forallb fst snd andb append
                        g_eq gstr pv_eq bytes_of_string list_ascii_of_string map].
  all: rewrite !beq_refl. all: cbn [andb].
  all: destruct (parse 2%N _); reflexivity.
Qed.

(* the tail shared by the three _parse_x methods once the frame is assembled *)
Lemma parse_tail (proto : N) (name : string) (kws : list (string * string)) raw (w : world S)
  (Hext : forall kw, kw_is kw kws = true ->
          ext name [gbytes raw] kw = match parse proto raw with Ok _ => Ok (parsed proto raw) | Raise e => Raise e end) :
  forall kw, kw_is kw kws = true ->
  (doM c5 <- liftR (do b4 <- (do t3 <- g_band (attr "_protfilter") (gint (Z.of_N proto)); Ok (g_truth t3));
                    if b4 then Ok (g_truth (attr "_parsing")) else Ok false);
   if c5 then doM t6 <- liftR (ext name [gbytes raw] kw); retIO (Tup [gbytes raw; t6])
   else retIO (Tup [gbytes raw; gnone])) w = (maybe_parse proto raw, w).
Proof.
  intros kw Hkw. rewrite attr_pf, attr_parsing. unfold g_band, gint.
  fold (gint (Z.land (Z.of_N (protfilter c)) (Z.of_N proto))). io. cbn [bind]. rewrite truthy_land, truth_gbool.
  unfold maybe_parse, passes.
  destruct (negb (N.land (protfilter c) proto =? 0)%N); cbn [andb bind]; [|reflexivity].
  destruct (parsing c); [|reflexivity].
  rewrite (Hext kw Hkw). destruct (parse proto raw); reflexivity.
Qed.

(* ---- _parse_nmea ---- *)
Definition nmea_rest (hdr : bytes) : M bytes := bindM read_line (fun l => ret (hdr ++ l)%list).

Lemma parse_nmea_io : mem_s "py_io_parse_nmea" translated_io = true -> forall hdr (w : world S),
  py_parse_nmea (gbytes hdr) w = lift_m (maybe_parse 1) (nmea_rest hdr) w.
Proof.
  intros Hin hdr w. first [untranslated Hin | clear Hin].
  all: unfold py_io_parse_nmea. all: unfold bindIO at 1. all: rewrite read_line_io.
  all: unfold lift_m, nmea_rest, bindM, ret. all: destruct w as [s0 eff st]. all: cbn [w_stream].
  all: destruct (read_line s0) as [[l|e] s1]; [|reflexivity].
  all: unfold wset. all: cbn [w_stream w_eff w_store].
  all: unfold bindIO at 1. all: unfold liftR at 1. all: cbn [g_add gbytes].
  all: change (gint 1) with (gint (Z.of_N 1)).
  all: erewrite (parse_tail 1 "NMEAReader.parse" [("validate", "_validate"); ("msgmode", "_msgmode")]);
       [ reflexivity
       | intros kw Hkw; unfold ext; cbn [gbytes String.eqb Ascii.eqb Bool.eqb]; now rewrite Hkw
       | unfold attr; cbn [kw_is length Nat.eqb combine forallb fst snd andb String.eqb Ascii.eqb Bool.eqb append
                           g_eq gstr pv_eq bytes_of_string list_ascii_of_string map];
         now rewrite !beq_refl ].
Qed.

(* ---- _parse_rtcm3 ---- *)
Definition rtcm_rest (x1 x2 : N) : M bytes :=
  bindM (read_bytes 1) (fun h3 =>
    let size := N.to_nat (N.lor (nth 0 h3 0%N) (N.shiftl x2 8)) in
    bindM (read_bytes size) (fun pl =>
      bindM (read_bytes 3) (fun crc => ret ([x1; x2] ++ h3 ++ pl ++ crc)%list))).

Lemma read_bytes_nonempty n s d s' : (0 < n)%nat -> read_bytes n s = (Ok d, s') -> d <> [].
Proof.
  intros Hn H. unfold Reader.read_bytes in H. destruct n as [|n]; [lia|]. destruct (rd (Datatypes.S n) s) as [d0 s0].
  destruct d0 as [|x d0]; cbn [length] in H; [discriminate|].
  destruct (Nat.ltb _ _) in H; [discriminate|]. injection H as <- _. discriminate.
Qed.

Lemma parse_rtcm3_io : mem_s "py_io_parse_rtcm3" translated_io = true -> forall x1 x2 (w : world S),
  py_parse_rtcm3 (gbytes [x1; x2]) w = lift_m (maybe_parse 4) (rtcm_rest x1 x2) w.
Proof.
  intros Hin x1 x2 w. first [untranslated Hin | clear Hin].
  all: unfold py_io_parse_rtcm3. all: unfold bindIO at 1. all: rewrite read_bytes_ioZ by lia. all: natlit.
  all: unfold lift_m at 1 2, rtcm_rest, bindM. all: destruct w as [s0 eff st]. all: cbn [w_stream].
  all: destruct (read_bytes 1 s0) as [[h3|e] s1] eqn:E1; [|reflexivity].
  all: pose proof (read_bytes_nonempty 1 s0 h3 s1 ltac:(lia) E1) as Hne.
  all: destruct h3 as [|x3 h3]; [congruence|]. all: clear Hne.
  all: unfold wset. all: cbn [w_stream w_eff w_store].
  (* size = hdr3[0] | (hdr[1] << 8) *)
  all: do 4 (unfold bindIO at 1; unfold liftR at 1;
        cbn [g_index gbytes gint length Z.of_nat Pos.of_succ_nat Pos.succ Z.ltb Z.leb Z.compare Pos.compare Pos.compare_cont
             orb nth_error Z.to_nat Pos.to_nat Pos.iter_op Nat.add bind g_shl g_bor nth Z.add]).
  all: change (Pos.to_nat 1) with 1%nat. all: cbn [nth_error bind g_shl gint Z.ltb Z.compare g_bor].
  all: change 8 with (Z.of_N 8). all: rewrite N2Z_shiftl, N2Z_lor. all: rewrite ?(N.lor_comm (N.shiftl x2 8) x3).
  all: set (sz := N.lor x3 (N.shiftl x2 8)).
  all: unfold bindIO at 1. all: fold (gint (Z.of_N sz)). all: rewrite read_bytes_ioZ by lia. all: unfold lift_m, wset. all: cbn [w_stream w_eff w_store].
  all: replace (Z.to_nat (Z.of_N sz)) with (N.to_nat sz) by lia.
  all: destruct (read_bytes (N.to_nat sz) s1) as [[pl|e] s2]; [|reflexivity].
  all: unfold bindIO at 1. all: rewrite read_bytes_ioZ by lia. all: natlit. all: unfold lift_m, wset. all: cbn [w_stream w_eff w_store].
  all: destruct (read_bytes 3 s2) as [[crc|e] s3]; [|reflexivity].
  all: do 3 (unfold bindIO at 1; unfold liftR at 1; cbn [g_add gbytes bind]).
  all: rewrite <- !app_assoc. all: change (gint 4) with (gint (Z.of_N 4)). all: unfold ret.
  all: erewrite (parse_tail 4 "RTCMReader.parse" [("validate", "_validate"); ("labelmsm", "_labelmsm")]);
       [ reflexivity
       | intros kw Hkw; unfold ext; cbn [gbytes String.eqb Ascii.eqb Bool.eqb]; now rewrite Hkw
       | unfold attr; cbn [kw_is length Nat.eqb combine forallb fst snd andb String.eqb Ascii.eqb Bool.eqb append
                           g_eq gstr pv_eq bytes_of_string list_ascii_of_string map];
         now rewrite !beq_refl ].
Qed.

(* ---- _do_error ---- *)
Definition log_effect (e : exn) (w : world S) : world S :=
  {| w_stream := w_stream w; w_eff := ((if has_handler then "errorhandler" else "logger.error")%string, [Exn e]) :: w_eff w;
     w_store := w_store w |}.

Lemma do_error_io : mem_s "py_io_do_error" translated_io = true -> forall (e : exn) (w : world S),
  py_do_error (Exn e) w =
  if (quitonerror c =? 2)%N then (Raise e, w)
  else if (quitonerror c =? 1)%N then (Ok gnone, log_effect e w)
  else (Ok gnone, w).
Proof.
  intros Hin e w. first [untranslated Hin | clear Hin].
  all: unfold py_io_do_error, log_effect. all: io. all: unfold attr. all: cbn [String.eqb Ascii.eqb Bool.eqb g_eq gint pv_eq].
  (* every integer test of the source, whichever way round it is written, is decided by the two facts about quitonerror *)
  all: destruct (quitonerror c =? 2)%N eqn:E2; destruct (quitonerror c =? 1)%N eqn:E1;
       repeat match goal with
              | |- context [Z.eqb ?a ?b] =>
                  first [replace (Z.eqb a b) with true by lia | replace (Z.eqb a b) with false by lia]
              end;
       try (destruct has_handler); reflexivity.
Qed.

(* ==== read(): one iteration of `while parsing:` against the model's `step` ==== *)
Hypothesis T_parse_ubx : mem_s "py_io_parse_ubx" translated_io = true.
Hypothesis T_parse_nmea : mem_s "py_io_parse_nmea" translated_io = true.
Hypothesis T_parse_rtcm3 : mem_s "py_io_parse_rtcm3" translated_io = true.
Hypothesis T_do_error : mem_s "py_io_do_error" translated_io = true.
(* the stream never returns more than it was asked for *)
Hypothesis rd_le : forall n s, (length (fst (rd n s)) <= n)%nat.
(* the model's NMEA header test is the generated table *)
Hypothesis nmea_hdr_table : forall x, nmea_hdr x = existsb (N.eqb x) nmea_hdr2.

Notation step := (@Reader.step S P rd rdl parse nmea_hdr).

Definition W (s : S) (eff : list (string * list gv)) (st : list (string * gv)) : world S :=
  {| w_stream := s; w_eff := eff; w_store := st |}.

Definition rel_parsed (raw : bytes) (v : gv) (po : option P) : Prop :=
  match po with
  | None => v = gnone
  | Some p => exists proto, v = parsed proto raw /\ parse proto raw = Ok p
  end.

Definition logname : string := if has_handler then "errorhandler" else "logger.error".

(* ==== read(): the whole call against the model ==== *)
Hypothesis T_read : mem_s "py_ioread" translated_io = true.

(* what one call of read() does in the model: iterate `step` until something is delivered, the stream ends or an
   exception leaves; `log`: what was reported to the logger / error handler on the way (newest first) *)
Notation rres := (@Read_iter.rres P).
Notation read_one := (@Read_iter.read_one S P rd rdl parse nmea_hdr c).

Definition effs (log : list exn) : list (string * list gv) := map (fun e => (logname, [Exn e])) log.

Notation py_read := (@py_ioread S rd rdl attr ext).

Definition read_ok (w : world S) (r : result gv * world S) : rres * S * list exn -> Prop := fun m =>
  match m with
  | (RItem raw po, s', log) =>
      exists st' v, r = (Ok (Tup [gbytes raw; v]), W s' (effs log ++ w_eff w)%list st') /\ rel_parsed raw v po
  | (REnd, s', log) => exists st', r = (Ok (Tup [gnone; gnone]), W s' (effs log ++ w_eff w)%list st')
  | (RRaise e, s', log) => exists st', r = (Raise e, W s' (effs log ++ w_eff w)%list st')
  | (RFuel, _, _) => True
  end.

(* ==== LOOP PROOFS: everything below is about the translated loop of read(); when read() could not be translated the
   build uses gen/Src_reader_un.v (this file up to here + an empty-premise proof of read_agree) instead ==== *)
Notation py_body1 := (@py_ioread_body1 S rd rdl attr ext).
Notation py_test1 := (@py_ioread_test1 S).

Definition Inv (w : world S) : Prop := assoc_s "read.parsing" (w_store w) = Some (gbool true).

Definition iter_ok (w : world S) (r : result ctl * world S) : Prop :=
  match step c (w_stream w) with
  | (Deliver raw po, s') =>
      exists st' v, r = (Ok CNormal, W s' (w_eff w) st') /\
        assoc_s "read.parsing" st' = Some (gbool false) /\ assoc_s "read.raw_data" st' = Some (gbytes raw) /\
        assoc_s "read.parsed_data" st' = Some v /\ rel_parsed raw v po
  | (Skip, s') => exists st', r = (Ok CCont, W s' (w_eff w) st') /\ assoc_s "read.parsing" st' = Some (gbool true)
  | (Reject e, s') =>
      if (quitonerror c =? 2)%N then exists st', r = (Raise e, W s' (w_eff w) st')
      else if (quitonerror c =? 1)%N
      then exists st', r = (Ok CCont, W s' ((logname, [Exn e]) :: w_eff w) st') /\ assoc_s "read.parsing" st' = Some (gbool true)
      else exists st', r = (Ok CCont, W s' (w_eff w) st') /\ assoc_s "read.parsing" st' = Some (gbool true)
  | (Eof, s') => exists st', r = (Ok (CRet (Tup [gnone; gnone])), W s' (w_eff w) st')
  | (Foreign e, s') => exists st', r = (Raise e, W s' (w_eff w) st')
  end.

Lemma read_bytes1 s d s' : read_bytes 1 s = (Ok d, s') -> exists x, d = [x].
Proof.
  intros H. unfold Reader.read_bytes in H. pose proof (rd_le 1 s) as Hle. destruct (rd 1 s) as [d0 s0]. cbn [fst] in Hle.
  destruct d0 as [|x [|y d0]]; cbn [length] in *; try lia; [discriminate|].
  cbn in H. injection H as <- _. now exists x.
Qed.

Notation frame1 := (@Reader.frame1 S rd rdl nmea_hdr).

(* frame1 with the three frame tails named *)
Definition frame1' : M framed :=
  bindM (read_bytes 1) (fun b1 =>
    match b1 with
    | [x1] =>
      if negb (is_preamble x1) then ret Noise else
      bindM (read_bytes 1) (fun b2 =>
        match b2 with
        | [x2] =>
          if (x1 =? 181)%N && (x2 =? 98)%N then bindM (ubx_rest [x1; x2]) (fun raw => ret (Frame 2 raw))
          else if (x1 =? 36)%N && nmea_hdr x2 then bindM (nmea_rest [x1; x2]) (fun raw => ret (Frame 1 raw))
          else if (x1 =? 211)%N && (N.ldiff x2 3 =? 0)%N then bindM (rtcm_rest x1 x2) (fun raw => ret (Frame 4 raw))
          else raiseM EUBXParse
        | _ => raiseM EOther
        end)
    | _ => ret Noise
    end).

Lemma frame1_alt s : frame1 s = frame1' s.
Proof.
  unfold Reader.frame1, frame1', ubx_rest, nmea_rest, rtcm_rest, bindM, ret.
  destruct (read_bytes 1 s) as [[b1|e] s1]; [|reflexivity].
  destruct b1 as [|x1 [|y b1]]; try reflexivity.
  destruct (negb (is_preamble x1)); [reflexivity|].
  destruct (read_bytes 1 s1) as [[b2|e] s2]; [|reflexivity].
  destruct b2 as [|x2 [|y b2]]; try reflexivity.
  destruct ((x1 =? 181)%N && (x2 =? 98)%N).
  { destruct (read_bytes 4 s2) as [[h|e] s3]; [|reflexivity].
    destruct (read_bytes _ s3) as [[bd|e] s4]; reflexivity. }
  destruct ((x1 =? 36)%N && nmea_hdr x2).
  { destruct (read_line s2) as [[l|e] s3]; reflexivity. }
  destruct ((x1 =? 211)%N && (N.ldiff x2 3 =? 0)%N); [|reflexivity].
  destruct (read_bytes 1 s2) as [[h3|e] s3]; [|reflexivity].
  destruct (read_bytes _ s3) as [[pl|e] s4]; [|reflexivity].
  destruct (read_bytes 3 s4) as [[crc|e] s5]; reflexivity.
Qed.

Lemma g_in_preamble x1 : g_in (V (PBytes [x1])) [V (PBytes [181%N]); V (PBytes [36%N]); V (PBytes [211%N])] = is_preamble x1.
Proof.
  unfold is_preamble. cbn [g_in existsb g_eq pv_eq beq].
  destruct (x1 =? 181)%N, (x1 =? 36)%N, (x1 =? 211)%N; reflexivity.
Qed.

Lemma hdr_ubx x1 x2 : g_eq (V (PBytes [x1; x2])) (V (PBytes [181%N; 98%N])) = (x1 =? 181)%N && (x2 =? 98)%N.
Proof. cbn [g_eq pv_eq beq]. now rewrite andb_true_r. Qed.

Lemma hdr_nmea x1 x2 :
  g_in (V (PBytes [x1; x2])) (map (fun b => V (PBytes [36%N; b])) nmea_hdr2) = (x1 =? 36)%N && nmea_hdr x2.
Proof.
  rewrite nmea_hdr_table. unfold g_in. generalize nmea_hdr2 as l. induction l as [|b l IH]; cbn [existsb map].
  - now rewrite andb_false_r.
  - rewrite IH. cbn [g_eq pv_eq beq]. rewrite andb_true_r. destruct (x1 =? 36)%N; cbn [andb orb]; reflexivity.
Qed.

Lemma hdr_rtcm x1 x2 :
  (if g_eq (V (PBytes [x1])) (V (PBytes [211%N])) then g_eq (V (PInt (Z.land (Z.of_N x2) (-4)))) (V (PInt 0)) else false)
  = (x1 =? 211)%N && (N.ldiff x2 3 =? 0)%N.
Proof.
  cbn [g_eq pv_eq beq]. rewrite andb_true_r. destruct (x1 =? 211)%N; [|reflexivity]. cbn [andb].
  change (-4) with (Z.lnot (Z.of_N 3)). rewrite N2Z_ldiff. destruct (N.ldiff x2 3 =? 0)%N eqn:E; lia.
Qed.

Arguments py_io_read_bytes : simpl never.
Arguments py_io_parse_ubx : simpl never.
Arguments py_io_parse_nmea : simpl never.
Arguments py_io_parse_rtcm3 : simpl never.
Arguments py_io_do_error : simpl never.

Ltac iostep := cbv beta iota zeta delta [seqIO bindIO retIO raiseIO liftR io_set io_get io_eff g_catchIO w_stream w_eff w_store
                    assoc_s String.eqb Ascii.eqb Bool.eqb fst snd bind g_add gbytes existsb exn_eqb app].

Notation py_do_error_ := (@py_io_do_error S attr).

(* the two handlers of read()'s try statement, as the source has them *)
Definition H1 : exn -> IO (world S) ctl := fun _ => retIO (CRet (Tup [gnone; gnone])).
Definition H2 : exn -> IO (world S) ctl := fun e =>
  doM _ <- io_set "read.err" (Exn e);
  seqIO (doM c34 <- retIO (g_truth (attr "_quitonerror"));
         if c34 then (doM t36 <- io_get "read.err"; doM t35 <- py_do_error_ t36; retIO CNormal) else retIO CNormal)
        (retIO CCont).

Definition protocol_exns : list exn := [EUBXMessage; EUBXType; EUBXParse; EUBXStream; ENmea; ERtcm].

(* what the try statement makes of its body's outcome *)
Lemma try_ok (m : IO (world S) ctl) w v w1 : m w = (Ok v, w1) ->
  g_catchIO (g_catchIO m [EEOF] H1) protocol_exns H2 w = (Ok v, w1).
Proof. intros H. unfold g_catchIO. rewrite H. reflexivity. Qed.

Lemma try_raise (m : IO (world S) ctl) w e w1 : m w = (Raise e, w1) ->
  g_catchIO (g_catchIO m [EEOF] H1) protocol_exns H2 w =
  match @classify P e with
  | Eof => (Ok (CRet (Tup [gnone; gnone])), w1)
  | Reject _ => H2 e w1
  | _ => (Raise e, w1)
  end.
Proof. intros H. unfold g_catchIO. rewrite H. destruct e; reflexivity. Qed.

Lemma H2_run e (w1 : world S) :
  H2 e w1 =
  let w2 := W (w_stream w1) (w_eff w1) (("read.err", Exn e) :: w_store w1) in
  if (quitonerror c =? 2)%N then (Raise e, w2)
  else if (quitonerror c =? 1)%N then (Ok CCont, W (w_stream w1) ((logname, [Exn e]) :: w_eff w1) (("read.err", Exn e) :: w_store w1))
  else (Ok CCont, w2).
Proof.
  destruct w1 as [s1 eff1 st1]. unfold H2.
  cbv beta iota zeta delta [seqIO bindIO retIO io_set io_get w_stream w_eff w_store assoc_s String.eqb Ascii.eqb Bool.eqb].
  unfold attr at 1. cbn [String.eqb Ascii.eqb Bool.eqb g_truth gint].
  destruct (Z.of_N (quitonerror c) =? 0) eqn:E0; cbn [negb].
  - replace (quitonerror c =? 2)%N with false by lia. replace (quitonerror c =? 1)%N with false by lia. reflexivity.
  - rewrite (do_error_io T_do_error). unfold log_effect, logname, W. cbn [w_stream w_eff w_store].
    destruct (quitonerror c =? 2)%N; [reflexivity|]. destruct (quitonerror c =? 1)%N; reflexivity.
Qed.

Lemma parse_ubx_io' hdr (w : world S) : py_parse_ubx (V (PBytes hdr)) w = lift_m (maybe_parse 2) (ubx_rest hdr) w.
Proof. exact (parse_ubx_io T_parse_ubx hdr w). Qed.
Lemma parse_nmea_io' hdr (w : world S) : py_parse_nmea (V (PBytes hdr)) w = lift_m (maybe_parse 1) (nmea_rest hdr) w.
Proof. exact (parse_nmea_io T_parse_nmea hdr w). Qed.
Lemma parse_rtcm3_io' x1 x2 (w : world S) : py_parse_rtcm3 (V (PBytes [x1; x2])) w = lift_m (maybe_parse 4) (rtcm_rest x1 x2) w.
Proof. exact (parse_rtcm3_io T_parse_rtcm3 x1 x2 w). Qed.

Lemma pf_band (proto : N) :
  g_band (attr "_protfilter") (gint (Z.of_N proto)) = Ok (gint (Z.land (Z.of_N (protfilter c)) (Z.of_N proto))).
Proof. reflexivity. Qed.
Lemma pf_band1 : g_band (attr "_protfilter") (gint 1) = Ok (gint (Z.land (Z.of_N (protfilter c)) (Z.of_N 1))).
Proof. reflexivity. Qed.
Lemma pf_band2 : g_band (attr "_protfilter") (gint 2) = Ok (gint (Z.land (Z.of_N (protfilter c)) (Z.of_N 2))).
Proof. reflexivity. Qed.
Lemma pf_band4 : g_band (attr "_protfilter") (gint 4) = Ok (gint (Z.land (Z.of_N (protfilter c)) (Z.of_N 4))).
Proof. reflexivity. Qed.
Lemma g_index1 x : g_index (V (PBytes [x])) (gint 0) = Ok (gint (Z.of_N x)).
Proof. reflexivity. Qed.
Lemma g_band_int a b : g_band (gint a) (gint b) = Ok (gint (Z.land a b)).
Proof. reflexivity. Qed.
Lemma mask_eq x2 : g_eq (gint (Z.land (Z.of_N x2) (-4))) (gint 0) = (N.ldiff x2 3 =? 0)%N.
Proof.
  cbn [g_eq pv_eq gint]. change (-4) with (Z.lnot (Z.of_N 3)). rewrite N2Z_ldiff. destruct (N.ldiff x2 3 =? 0)%N eqn:E; lia.
Qed.
Lemma beq1 x y : g_eq (V (PBytes [x])) (V (PBytes [y])) = (x =? y)%N.
Proof. cbn [g_eq pv_eq beq]. now rewrite andb_true_r. Qed.

Lemma classify_inv (e : exn) (o : @outcome P) : classify e = o ->
  (e = EEOF /\ o = Eof) \/ (is_protocol_exn e = true /\ o = Reject e) \/ (e <> EEOF /\ is_protocol_exn e = false /\ o = Foreign e).
Proof. intros <-. destruct e; cbn; auto; right; right; repeat split; discriminate. Qed.

(* symbolic execution of the translated loop body, using the facts in the context about the model's reads and tests *)
(* ---- stepping through a translated block one statement at a time: only the statement at the head is evaluated,
        what follows stays folded ---- *)
Lemma seqIO_eq (a b : IO (world S) ctl) w r : a w = r ->
  seqIO a b w = match r with
                | (Ok CNormal, w') => b w'
                | (Ok x, w') => (Ok x, w')
                | (Raise e, w') => (Raise e, w')
                end.
Proof. intros <-. unfold seqIO, bindIO, retIO. destruct (a w) as [[[]|e] w']; reflexivity. Qed.

Lemma bindIO_eq {A B} (m : IO (world S) A) (k : A -> IO (world S) B) w r : m w = r ->
  bindIO m k w = match r with (Ok v, w') => k v w' | (Raise e, w') => (Raise e, w') end.
Proof. intros <-. reflexivity. Qed.

(* evaluate a small computation (one statement, one condition): the goal is `t w = ?r` *)
Ltac ev1 :=
  first
    [ progress iostep
    | rewrite read_bytes_ioZ by lia; natlit
    | rewrite parse_ubx_io'
    | rewrite parse_nmea_io'
    | rewrite parse_rtcm3_io'
    | progress unfold lift_m, wset, maybe_parse, g_unpack2, passes
    | rewrite pf_band1 | rewrite pf_band2 | rewrite pf_band4
    | rewrite truthy_land | rewrite truth_gbool | rewrite attr_parsing
    | match goal with |- context [g_in (V (PBytes [?x])) [V (PBytes [?a]); V (PBytes [?b]); V (PBytes [?d])]] =>
        (* the three preamble bytes, in whatever order the source lists them *)
        replace (g_in (V (PBytes [x])) [V (PBytes [a]); V (PBytes [b]); V (PBytes [d])]) with (is_preamble x)
          by (unfold is_preamble; cbn [g_in existsb g_eq pv_eq beq];
              destruct (x =? 181)%N, (x =? 36)%N, (x =? 211)%N; reflexivity) end
    | rewrite hdr_ubx | rewrite g_index1 | rewrite g_band_int | rewrite mask_eq | rewrite beq1
    | match goal with |- context [g_in (V (PBytes [?a; ?b])) ?l] =>
        change (g_in (V (PBytes [a; b])) l) with (g_in (V (PBytes [a; b])) (map (fun z => V (PBytes [36%N; z])) nmea_hdr2));
        rewrite hdr_nmea end
    | match goal with H : read_bytes ?n ?s = _ |- context [read_bytes ?n ?s] => rewrite H end
    | match goal with H : ubx_rest ?h ?s = _ |- context [ubx_rest ?h ?s] => rewrite H end
    | match goal with H : nmea_rest ?h ?s = _ |- context [nmea_rest ?h ?s] => rewrite H end
    | match goal with H : rtcm_rest ?a ?b ?s = _ |- context [rtcm_rest ?a ?b ?s] => rewrite H end
    | match goal with H : parse ?p ?r = _ |- context [parse ?p ?r] => rewrite H end
    | match goal with H : parsing c = _ |- context [parsing c] => rewrite H end
    | match goal with H : negb ?b = _ |- context [negb ?b] => rewrite H end
    | match goal with H : N.eqb ?a ?b = _ |- context [N.eqb ?a ?b] => rewrite H end
    | match goal with H : nmea_hdr ?x = _ |- context [nmea_hdr ?x] => rewrite H end
    | progress cbn [andb orb negb N.eqb Pos.eqb]
    | match goal with |- context [if ?b then ?x else ?x] => replace (if b then x else x) with x by (destruct b; reflexivity) end
    (* a test the source evaluates before the one that decides (conjuncts in another order): both outcomes *)
    | match goal with |- context [if N.eqb ?a ?b then _ else _] => destruct (N.eqb a b) eqn:? end ].
Ltac ev := repeat ev1; reflexivity.

(* one step of the block at the head of the goal `prog w = _` *)
Ltac run1 :=
  lazymatch goal with
  | |- seqIO ?a ?b ?w = _ =>
      let r := fresh "r" in let H := fresh "H" in
      evar (r : (result ctl * world S)%type); assert (H : a w = r) by (subst r; ev);
      rewrite (seqIO_eq a b w r H); subst r; clear H; cbv beta iota
  | |- @bindIO _ ?A _ ?m ?k ?w = _ =>
      let r := fresh "r" in let H := fresh "H" in
      evar (r : (result A * world S)%type); assert (H : m w = r) by (subst r; ev);
      rewrite (bindIO_eq m k w r H); subst r; clear H; cbv beta iota
  end.
Ltac run := repeat run1; ev.

(* expose the try statement of the loop body *)
Ltac open_try :=
  unfold py_ioread_body1;
  match goal with
  | |- context [g_catchIO (g_catchIO ?m ?l1 ?h1) ?l2 ?h2 ?w] =>
      change (g_catchIO (g_catchIO m l1 h1) l2 h2 w) with (g_catchIO (g_catchIO m [EEOF] H1) protocol_exns H2 w)
  end.

(* the loop body ends normally / with `continue` / with `return`: run it *)
Ltac leaf_ok := open_try; erewrite try_ok; [reflexivity | run].
(* the try body raises e: run it up to there, then the handlers *)
Ltac leaf_raise := open_try; erewrite try_raise; [ | run].

(* the body's try block raised e: what the iteration yields, for each class of e *)
Ltac leaf_classify e :=
  let Ec := fresh "Ec" in
  destruct (classify e) as [? ?| |?| |?] eqn:Ec;
  destruct (classify_inv _ _ Ec) as [[-> Ho]|[[Hp Ho]|[Hn [Hp Ho]]]]; try discriminate Ho;
  [ (* Reject *)
    injection Ho as <-;
    destruct (quitonerror c =? 2)%N eqn:Eq2;
    [ eexists; leaf_raise; rewrite Ec, H2_run; cbn zeta; rewrite Eq2; reflexivity
    | destruct (quitonerror c =? 1)%N eqn:Eq1;
      (eexists; split; [leaf_raise; rewrite Ec, H2_run; cbn zeta; rewrite Eq2, Eq1; reflexivity
                       | cbn [assoc_s String.eqb Ascii.eqb Bool.eqb]; assumption]) ]
  | (* Eof *) eexists; leaf_raise; rewrite Ec; reflexivity
  | (* Foreign *) injection Ho as <-; eexists; leaf_raise; rewrite Ec; reflexivity ].

Ltac store_side := cbn [assoc_s String.eqb Ascii.eqb Bool.eqb]; first [assumption | reflexivity].

(* a frame of protocol `proto` was framed (Efr: what the model read): the decision the model's step makes next *)
Ltac frame_leaves proto Efr :=
  let pm := fresh "pm" in let ep := fresh "ep" in let Eparse := fresh "Eparse" in
  unfold ret;
  destruct (negb (N.land (protfilter c) proto =? 0)%N) eqn:Epass;
  [ destruct (parsing c) eqn:Epars;
    [ match goal with |- context [parse proto ?raw] => destruct (parse proto raw) as [pm|ep] eqn:Eparse end;
      [ (* delivered, parsed *)
        do 2 eexists; split; [leaf_ok|]; repeat split; try store_side; eexists; split; [reflexivity|eassumption]
      | (* the protocol parser raised *)
        leaf_classify ep ]
    | (* delivered raw *)
      do 2 eexists; split; [leaf_ok|]; repeat split; try store_side; reflexivity ]
  | (* filtered out *)
    eexists; split; [leaf_ok|store_side] ].

(* the header is none of the three protocols: UBXParseError, reported as any other rejection *)
Ltac unknown_hdr :=
  cbn [classify is_protocol_exn];
  destruct (quitonerror c =? 2)%N eqn:Eq2;
  [ eexists; leaf_raise; cbn [classify is_protocol_exn]; rewrite H2_run; cbn zeta; rewrite Eq2; reflexivity
  | destruct (quitonerror c =? 1)%N eqn:Eq1;
    (eexists; split; [leaf_raise; cbn [classify is_protocol_exn]; rewrite H2_run; cbn zeta; rewrite Eq2, Eq1; reflexivity
                     | store_side]) ].

Lemma body1_step (w : world S) : Inv w -> iter_ok w (py_body1 w).
Proof.
  intros HI. destruct w as [s0 eff st]. unfold Inv in HI. cbn [w_store] in HI.
  unfold iter_ok, Reader.step, passes. cbn [w_stream w_eff]. rewrite frame1_alt. unfold frame1', bindM.
  destruct (read_bytes 1 s0) as [[b1|e1] s1] eqn:E1.
  - destruct (read_bytes1 _ _ _ E1) as [x1 ->].
    destruct (negb (is_preamble x1)) eqn:Ep.
    + (* not a preamble byte: skipped *)
      unfold ret. eexists. split; [leaf_ok|store_side].
    + destruct (read_bytes 1 s1) as [[b2|e2] s2] eqn:E2.
      * destruct (read_bytes1 _ _ _ E2) as [x2 ->].
        (* which preamble *)
        assert (Hx : x1 = 181%N \/ x1 = 36%N \/ x1 = 211%N).
        { unfold is_preamble in Ep. destruct (x1 =? 181)%N eqn:A; [left; lia|]. destruct (x1 =? 36)%N eqn:B; [right; left; lia|].
          destruct (x1 =? 211)%N eqn:C; [right; right; lia|]. discriminate Ep. }
        destruct Hx as [->|[->| ->]]; cbn [N.eqb Pos.eqb andb].
        -- (* b5 *)
           destruct (x2 =? 98)%N eqn:E98.
           ++ destruct (ubx_rest [181%N; x2] s2) as [[raw|er] s3] eqn:Efr.
              ** frame_leaves 2%N Efr.
              ** leaf_classify er.
           ++ (* unknown header *) unfold raiseM. unknown_hdr.
        -- (* $ *)
           destruct (nmea_hdr x2) eqn:Enm.
           ++ destruct (nmea_rest [36%N; x2] s2) as [[raw|er] s3] eqn:Efr.
              ** frame_leaves 1%N Efr.
              ** leaf_classify er.
           ++ unfold raiseM. unknown_hdr.
        -- (* d3 *)
           destruct (N.ldiff x2 3 =? 0)%N eqn:Emask.
           ++ destruct (rtcm_rest 211%N x2 s2) as [[raw|er] s3] eqn:Efr.
              ** frame_leaves 4%N Efr.
              ** leaf_classify er.
           ++ unfold raiseM. unknown_hdr.
      * (* the second header byte cannot be read *)
        leaf_classify e2.
  - (* the first byte cannot be read *)
    leaf_classify e1.
Qed.

Lemma read_one_log fuel : forall s l,
  read_one fuel s l = let '(r, s', log) := read_one fuel s [] in (r, s', (log ++ l)%list).
Proof.
  intros s l. rewrite !(Read_iter.read_one_read1 rd rdl parse nmea_hdr c).
  destruct (Read_iter.read1 rd rdl parse nmea_hdr c fuel s) as [[[r s'] l1] k]. now rewrite app_nil_r.
Qed.

Notation py_loop fuel := (g_while fuel py_test1 py_body1).

Lemma test1_run (w : world S) v : assoc_s "read.parsing" (w_store w) = Some v -> py_test1 w = (Ok (g_truth v), w).
Proof. intros H. unfold py_ioread_test1. cbv beta iota zeta delta [bindIO retIO io_get]. rewrite H. reflexivity. Qed.

Definition loop_ok (w : world S) (r : result ctl * world S) : rres * S * list exn -> Prop := fun m =>
  match m with
  | (RItem raw po, s', log) =>
      exists st' v, r = (Ok CNormal, W s' (effs log ++ w_eff w)%list st') /\
        assoc_s "read.raw_data" st' = Some (gbytes raw) /\ assoc_s "read.parsed_data" st' = Some v /\ rel_parsed raw v po
  | (REnd, s', log) => exists st', r = (Ok (CRet (Tup [gnone; gnone])), W s' (effs log ++ w_eff w)%list st')
  | (RRaise e, s', log) => exists st', r = (Raise e, W s' (effs log ++ w_eff w)%list st')
  | (RFuel, _, _) => True
  end.

Lemma loop_run fuel : forall w : world S, Inv w -> loop_ok w (py_loop (Datatypes.S fuel) w) (read_one fuel (w_stream w) []).
Proof.
  induction fuel as [|f IH]; intros w HI; [exact I|].
  cbn [read_one]. pose proof (body1_step w HI) as Hb. unfold iter_ok in Hb.
  change (py_loop (Datatypes.S (Datatypes.S f)) w) with
    (bindIO py_test1 (fun t => if t then bindIO py_body1 (fun r => match r with
        | CNormal | CCont => py_loop (Datatypes.S f) | CBreak => retIO CNormal | CRet v => retIO (CRet v) end) else retIO CNormal) w).
  unfold bindIO at 1. rewrite (test1_run w _ HI). cbn [g_truth gbool Z.eqb negb]. unfold bindIO at 1.
  destruct (step c (w_stream w)) as [[raw po| |e| |e] s'].
  - (* delivered: the loop test fails on the next round *)
    destruct Hb as (st' & v & -> & Hp & Hr & Hv & Hrel). unfold loop_ok, effs. cbn [map app].
    change (py_loop (Datatypes.S f) (W s' (w_eff w) st')) with
      (bindIO py_test1 (fun t => if t then bindIO py_body1 (fun r => match r with
          | CNormal | CCont => py_loop f | CBreak => retIO CNormal | CRet v => retIO (CRet v) end) else retIO CNormal) (W s' (w_eff w) st')).
    unfold bindIO at 1. rewrite (test1_run (W s' (w_eff w) st') _ Hp). cbn [g_truth gbool Z.eqb negb retIO].
    exists st', v. repeat split; assumption.
  - (* skipped *)
    destruct Hb as (st' & -> & Hp). specialize (IH (W s' (w_eff w) st') Hp). unfold W in IH at 1 2. cbn [w_stream w_eff] in IH. exact IH.
  - (* rejected *)
    destruct (quitonerror c =? 2)%N.
    + destruct Hb as (st' & ->). exists st'. reflexivity.
    + destruct (quitonerror c =? 1)%N.
      * destruct Hb as (st' & -> & Hp). specialize (IH (W s' ((logname, [Exn e]) :: w_eff w) st') Hp).
        unfold loop_ok in *. unfold W in IH at 1 2 3 4. cbn [w_stream w_eff] in IH. rewrite (read_one_log f s' [e]).
        destruct (read_one f s' []) as [[r s''] log]. fold (W s' ((logname, [Exn e]) :: w_eff w) st') in IH.
        assert (Hl : (effs (log ++ [e]) ++ w_eff w = effs log ++ (logname, [Exn e]) :: w_eff w)%list).
        { unfold effs. rewrite map_app, <- app_assoc. reflexivity. }
        destruct r; rewrite ?Hl; exact IH.
      * destruct Hb as (st' & -> & Hp). specialize (IH (W s' (w_eff w) st') Hp). unfold W in IH at 1 2. cbn [w_stream w_eff] in IH. exact IH.
  - (* end of stream *)
    destruct Hb as (st' & ->). exists st'. reflexivity.
  - destruct Hb as (st' & ->). exists st'. reflexivity.
Qed.

(* read() as the source has it now, for every stream, configuration and starting state: what it returns, where it
   leaves the stream and what it reports are what the model's iteration of `step` gives *)
Theorem read_agree : forall fuel (w : world S),
  read_ok w (py_read (Datatypes.S fuel) w) (read_one fuel (w_stream w) []).
Proof.
  intros fuel w. destruct w as [s0 eff st].
  pose proof (loop_run fuel {| w_stream := s0; w_eff := eff; w_store := ("read.parsing", gbool true) :: st |} eq_refl) as HL.
  unfold loop_ok in HL. cbn [w_stream w_eff] in HL.
  assert (Hpy : py_read (Datatypes.S fuel) {| w_stream := s0; w_eff := eff; w_store := st |} =
                fn_result (seqIO (py_loop (Datatypes.S fuel))
                                 (doM t37 <- io_get "read.raw_data"; doM t38 <- io_get "read.parsed_data";
                                  retIO (CRet (Tup [t37; t38]))))
                          {| w_stream := s0; w_eff := eff; w_store := ("read.parsing", gbool true) :: st |}) by reflexivity.
  rewrite Hpy. clear Hpy. unfold read_ok. cbn [w_stream w_eff].
  destruct (read_one fuel s0 []) as [[[raw po| |e|] s'] log].
  - destruct HL as (st' & v & HL & Hr & Hv & Hrel). exists st', v. split; [|exact Hrel].
    unfold fn_result, seqIO. unfold bindIO at 1 2. rewrite HL.
    cbv beta iota zeta delta [bindIO retIO io_get W w_store w_stream w_eff]. rewrite Hr, Hv. reflexivity.
  - destruct HL as (st' & HL). exists st'. unfold fn_result, seqIO. unfold bindIO at 1 2. rewrite HL. reflexivity.
  - destruct HL as (st' & HL). exists st'. unfold fn_result, seqIO. unfold bindIO at 1 2. rewrite HL. reflexivity.
  - exact I.
Qed.
End R.

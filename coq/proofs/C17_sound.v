(* C17_sound.v — what the table obligations C17_set_partial / C17_poll_partial mean: for a definition that passes
   mode_entry_ok, EVERY frame of its class/id whose length its payload can have (the definition's minimum for a
   fixed-size definition, anything from the minimum on for one with repeating groups) is parsed by SETPOLL exactly
   as in the definition's own mode. *)
From PyUbx Require Import Base Bytes Frame Types Strs Walk Consts Tables Msg WfDef Tac Table_props.
Open Scope Z_scope.

Definition possible_len (ds : list adef) (t : Z) : Prop :=
  let t0 := Z.of_nat (def_min ds) + 8 in if def_variable ds then t0 <= t else t = t0.

Lemma lengths_ok_sound k ds want t :
  lengths_ok k ds want = true -> possible_len ds t -> inputmode_of k t = want.
Proof.
  unfold lengths_ok, possible_len. set (t0 := Z.of_nat (def_min ds) + 8).
  assert (H8 : 8 <= t0) by (unfold t0; lia).
  destruct (def_variable ds).
  - intros H Ht. apply andb_true_iff in H. destruct H as [Hs Hl].
    rewrite forallb_forall in Hs.
    destruct (Z_lt_le_dec t 11) as [Hlt|Hge].
    + assert (Hin : In t (filter (fun t => t0 <=? t) [8; 9; 10; 11])).
      { apply filter_In. split; [|lia]. cbn. lia. }
      specialize (Hs t Hin). apply N.eqb_eq in Hs. exact Hs.
    + rewrite c17_long by exact Hge. apply N.eqb_eq in Hl.
      destruct (Z_lt_le_dec t0 11) as [H0|H0].
      * replace (Z.max t0 11) with 11 in Hl by lia. exact Hl.
      * replace (Z.max t0 11) with t0 in Hl by lia. rewrite c17_long in Hl by exact H0. exact Hl.
  - intros H ->. apply N.eqb_eq in H. exact H.
Qed.

Theorem c17_resolves want e k v bf f :
  mode_entry_ok want e = true -> key_of_def (fst e) = Some k ->
  pyslice f 2 4 = k -> possible_len (snd e) (Z.of_nat (length f)) ->
  parse 3 v bf f = parse want v bf f.
Proof.
  unfold mode_entry_ok. intros H Hk Hf Hl. rewrite Hk in H.
  rewrite c17_setpoll, c17_inputmode_of, Hf. now rewrite (lengths_ok_sound k (snd e) want _ H Hl).
Qed.

(* every SET / POLL definition of the shipped tables outside the recorded ambiguities *)
Theorem c17_set_resolves e k v bf f :
  In e payloads_set -> mem_s (fst e) known_c17_set = false -> key_of_def (fst e) = Some k ->
  pyslice f 2 4 = k -> possible_len (snd e) (Z.of_nat (length f)) ->
  parse 3 v bf f = parse 1 v bf f.
Proof.
  intros Hin Hkn. pose proof c17_set_table as H. rewrite forallb_forall in H. specialize (H e Hin).
  rewrite Hkn in H. cbn [orb] in H. now apply c17_resolves.
Qed.
Theorem c17_poll_resolves e k v bf f :
  In e payloads_poll -> mem_s (fst e) known_c17_poll = false -> key_of_def (fst e) = Some k ->
  pyslice f 2 4 = k -> possible_len (snd e) (Z.of_nat (length f)) ->
  parse 3 v bf f = parse 2 v bf f.
Proof.
  intros Hin Hkn. pose proof c17_poll_table as H. rewrite forallb_forall in H. specialize (H e Hin).
  rewrite Hkn in H. cbn [orb] in H. now apply c17_resolves.
Qed.

(* Flocq_bridge.v — the model's SpecFloat operations are Flocq's correctly rounded operations, for every format.
   (Same statements as Flocq.IEEE754.PrimFloat's binary_round_aux_equiv / binary_round_equiv / binary_normalize_equiv,
   re-proved here for arbitrary prec/emax so that Flocq's PrimFloat.v - and with it Coq's primitive floats and
   63-bit integers and their axioms - is not loaded at all.) *)
From Coq Require Import ZArith Reals Lia Floats.SpecFloat.
From Flocq Require Import Core.Core IEEE754.BinarySingleNaN.
Open Scope R_scope.

Section Fmt.
Variables prec emax : Z.
Context (Hp : Prec_gt_0 prec) (Hm : Prec_lt_emax prec emax).

Lemma rne_equiv s m l : round_nearest_even m l = choice_mode mode_NE s m l.
Proof. case l; [reflexivity|intro c]. case c; [ | reflexivity..]. now simpl; unfold Round.cond_incr; case Z.even. Qed.

Lemma aux_equiv' sx mx ex lx :
  SpecFloat.binary_round_aux prec emax sx mx ex lx = binary_round_aux prec emax mode_NE sx mx ex lx.
Proof.
  unfold SpecFloat.binary_round_aux, binary_round_aux.
  set (mrse' := shr_fexp _ _ _ _ _). case mrse'; intros mrs' e'; simpl.
  now rewrite (rne_equiv sx).
Qed.

Lemma round_equiv' s m e : SpecFloat.binary_round prec emax s m e = binary_round prec emax mode_NE s m e.
Proof.
  unfold SpecFloat.binary_round, binary_round, shl_align_fexp.
  set (mez := shl_align _ _ _); case mez as [mz ez]. apply aux_equiv'.
Qed.

(* rounding a value that the format represents: same real, finite, same sign *)
Lemma round_exact s m e :
  generic_format radix2 (fexp prec emax) (F2R (Float radix2 (cond_Zopp s (Zpos m)) e)) ->
  Rabs (F2R (Float radix2 (cond_Zopp s (Zpos m)) e)) < bpow radix2 emax ->
  let z := SpecFloat.binary_round prec emax s m e in
  valid_binary prec emax z = true /\ SF2R radix2 z = F2R (Float radix2 (cond_Zopp s (Zpos m)) e) /\
  is_finite_SF z = true /\ sign_SF z = s.
Proof.
  intros Hg Hb z. unfold z. rewrite round_equiv'.
  pose proof (binary_round_correct prec emax Hp Hm mode_NE s m e) as H. cbv zeta in H.
  destruct H as [Hv H]. rewrite round_generic in H by (auto with typeclass_instances).
  rewrite Rlt_bool_true in H by exact Hb. destruct H as (Hr & Hf & Hs). auto.
Qed.

Lemma normalize_equiv' m e szero :
  SpecFloat.binary_normalize prec emax m e szero = B2SF (binary_normalize prec emax Hp Hm mode_NE m e szero).
Proof.
  case m as [ | p | p].
  - now simpl.
  - simpl; rewrite B2SF_SF2B; apply round_equiv'.
  - simpl; rewrite B2SF_SF2B; apply round_equiv'.
Qed.
End Fmt.

(* Rt_auto.v — which fields need no "representable value" premise: for integer fields (E, I, L, U of any
   width), X fields and bitfields, the encoding succeeding already implies that the value decodes from its
   own bytes.  With the shipped type table (atttype), this turns build_parse into an unconditional theorem
   for definitions made of such fields. *)
From PyUbx Require Import Base Bytes PyFloat Types Strs Walk Consts Tac Bytes_lemmas Walk_lemmas Bits_lemmas Codec_lemmas.
From PyUbx Require Import Trace_lemmas Shape_lemmas Build_lemmas Roundtrip_lemmas.
Open Scope Z_scope.
Open Scope list_scope.

Definition auto_kind (kd : fkind) : Prop :=
  match kd with
  | FBits t _ => t <> TCH
  | FField (T l (Some w)) None => (is_int_letter l = true /\ (0 < w)%nat) \/ l = lX
  | _ => False
  end.

Lemma int_enc_inv sg w z b : (0 < w)%nat -> int_enc sg w z = Ok b -> length b = w /\ int_dec sg b = z.
Proof.
  intros Hw H. assert (D: in_range sg w z \/ ~ in_range sg w z) by (unfold in_range; destruct sg; lia).
  destruct D as [D|D].
  - destruct (int_rt sg w z Hw D) as (bs & He & Hl & _ & Hd). rewrite He in H. injection H as <-. auto.
  - rewrite (int_refuse sg w z Hw D) in H. discriminate.
Qed.

Lemma v2b_int_inv l w v b : is_int_letter l = true -> v2b v (T l (Some w)) = Ok b ->
  exists z, v = PInt z /\ int_enc (l =? lI)%N w z = Ok b.
Proof.
  unfold is_int_letter. intros H.
  assert (Hl: l = lE \/ l = lI \/ l = lL \/ l = lU) by (unfold lE, lI, lL, lU in *; lia).
  destruct Hl as [-> | [-> | [-> | ->]]]; destruct v; cbn; try discriminate; eauto.
Qed.

Lemma v2b_x_inv w v b : v2b v (T lX (Some w)) = Ok b -> v = PBytes b /\ length b = w.
Proof.
  destruct v; cbn; try discriminate.
  destruct (Z.eqb_spec (Z.of_nat (length b0)) (Z.of_nat w)); cbn; [|discriminate].
  intros H; injection H as <-. split; [reflexivity|lia].
Qed.

Lemma auto_rt sr r b : auto_kind (fr_kind r) -> sized r -> encode_of atttype r = Ok b -> rt_ok atttype sr r.
Proof.
  unfold auto_kind, sized, rt_ok. intros Ha Hs He. exists b. split; [exact He|].
  unfold encode_of in He. destruct (fr_kind r) as [t sc|t fl|key t] eqn:Ek.
  - destruct t as [|l [w|]]; [tauto| |tauto]. destruct sc; [tauto|]. cbn in Hs. injection Hs as Hs.
    fold v2b in He. destruct Ha as [[Hl Hw]| ->].
    + apply v2b_int_inv in He as (z & Hv & He); [|exact Hl].
      apply int_enc_inv in He as [Hlen Hd]; [|exact Hw].
      split; [congruence|]. cbn [decode_of]. rewrite b2v_int by exact Hl. now rewrite Hd, Hv.
    + apply v2b_x_inv in He as [Hv Hlen]. split; [congruence|]. cbn [decode_of]. now rewrite Hv.
  - destruct (fr_val r) as [bfv| | | | | |] eqn:Ev; try discriminate.
    apply int_enc_u_inv in He as [Hlen Hd]. split; [exact Hlen|]. cbn [decode_of]. now rewrite Hd.
  - tauto.
Qed.

Lemma enc_all_each l : forall bs, enc_all atttype l = Ok bs -> Forall (fun r => exists b, encode_of atttype r = Ok b) l.
Proof.
  induction l as [|r l IH]; intros bs H; [constructor|]. cbn [enc_all] in H.
  destruct (encode_of atttype r) as [b|] eqn:E; [cbn [bind] in H|discriminate].
  destruct (enc_all atttype l) as [bs'|] eqn:E'; [|discriminate]. constructor; eauto.
Qed.

Section A.
Variable readonly_names : list string.
Variable cfgdb : list (string * (Z * aty)).
Variable storsize : list (Z * Z).
Variable scalround : Z.
Variable cls id : bytes.
Variable mode : N.
Variable bf : bool.
Variable k : attrs.
Variable budget : nat.
Notation walk_listB := (walk_list atttype readonly_names cfgdb storsize scalround cls id mode bf (Some k) budget).
Notation walk_listP := (walk_list atttype readonly_names cfgdb storsize scalround cls id mode bf None budget).
Notation s0 p := {| w_off := O; w_pay := p; w_attrs := []; w_trace := [] |}.

(* no premise on the values: for definitions whose leaves are integer / X / bitfield members, any build
   that succeeds parses back to the attributes that were supplied *)
Theorem build_parse_auto ds sB' :
  is_cfgval cls id mode = false ->            (* CFG-VALSET/VALGET have no keyword route (C14) *)
  Forall static ds -> Forall (leaves auto_kind) ds ->
  walk_listB ds [] (s0 []) = Ok sB' ->
  exists sP', walk_listP ds [] (s0 (w_pay sB')) = Ok sP' /\
              w_trace sP' = w_trace sB' /\ w_attrs sP' = w_attrs sB' /\ w_off sP' = length (w_pay sB').
Proof.
  intros Ec Hst Hlv H.
  apply (build_parse atttype readonly_names cfgdb storsize scalround cls id mode bf k budget (w_pay sB') ds sB' Hst H eq_refl).
  pose proof (build_from_empty _ _ _ _ _ _ _ _ _ _ _ _ _ H) as (_ & _ & Henc).
  apply enc_all_each in Henc. apply Forall_rev in Henc. rewrite rev_involutive in Henc.
  pose proof (walk_list_sized _ _ _ _ _ _ _ _ _ _ _ _ _ _ _ H) as (l & Hl & Hsz). cbn in Hl. rewrite app_nil_r in Hl. subst l.
  assert (Hk: Forall (fun r => auto_kind (fr_kind r)) (w_trace sB')).
  { pose proof (walk_list_shape_all _ _ _ _ _ _ _ _ _ _ _ _ _ _ _ H) as (l & Hl & Hsh). cbn in Hl. rewrite app_nil_r in Hl. subst l.
    rewrite Ec in Hsh. apply (shape_l_leaves bf auto_kind) in Hsh; [|exact Hlv]. apply Forall_rev in Hsh. now rewrite rev_involutive in Hsh. }
  rewrite Forall_forall in *. intros r Hr. destruct (Henc r Hr) as (b & Hb).
  eapply auto_rt; eauto.
Qed.
End A.

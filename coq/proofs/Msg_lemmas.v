(* Msg_lemmas.v — facts about construct / parse / serialize *)
From PyUbx Require Import Base Bytes Fletcher Frame PyFloat Types Strs Walk Consts Tables Msg.
From PyUbx Require Import Tac Bytes_lemmas Fletcher_lemmas Frame_lemmas Walk_lemmas.
Open Scope Z_scope.

(* table-dependent: ATTTYPE admits int for the U letter *)
Lemma v2b_U (w : nat) z : v2b (PInt z) (T lU (Some w)) = int_enc false w z.
Proof. reflexivity. Qed.

Section PayloadRoute.
Variable cls id : bytes.
Variable mode : N.
Variable bf : bool.
Variable bud : nat.

Notation walk_list := (walk_list atttype readonly_names cfgdb storsize scalround cls id mode bf None bud).
Notation single := (single atttype readonly_names scalround None).
Notation bitfield := (bitfield readonly_names None).
Notation bits_loop := (bits_loop readonly_names None).
Notation cfgval_loop := (cfgval_loop readonly_names cfgdb storsize).

Definition same_pay (s s' : wst) : Prop := w_pay s' = w_pay s.

Lemma set_attr_pay n v s s' : set_attr readonly_names n v s = Ok s' -> w_pay s' = w_pay s /\ w_off s' = w_off s.
Proof. unfold set_attr. destruct (mem_s n readonly_names); [discriminate|]. intros H; injection H as <-. auto. Qed.

Ltac bindok H := match type of H with
  | bind ?r _ = Ok _ => let x := fresh "x" in let E := fresh "E" in destruct r as [x|] eqn:E; [cbn [bind] in H|discriminate]
  end.

Lemma single_pay n t sc idx s s' : single n t sc idx s = Ok s' -> same_pay s s'.
Proof.
  unfold Walk.single, same_pay. intros H.
  bindok H. bindok H. destruct x0 as [v pay].
  assert (pay = w_pay s).
  { clear H. bindok E0. destruct sc; [bindok E0|]; injection E0 as _ <-; reflexivity. }
  subst pay. bindok H. injection H as <-. cbn [w_pay].
  destruct (starts_with "_HP" _).
  - bindok E1. bindok E1. bindok E1. apply set_attr_pay in E1 as [-> _]. reflexivity.
  - apply set_attr_pay in E1 as [-> _]. reflexivity.
Qed.

Lemma bits_loop_pay fl : forall idx bfv off s r, bits_loop fl idx bfv off s = Ok r -> w_pay (snd r) = w_pay s /\ w_off (snd r) = w_off s.
Proof.
  induction fl as [|[key keyt] fl IH]; intros idx bfv off s r H; cbn [Walk.bits_loop] in H.
  - injection H as <-. auto.
  - bindok H. bindok H. apply IH in H as [-> ->].
    destruct (starts_with "reserved" key); [injection E0 as <-; auto|apply set_attr_pay in E0; exact E0].
Qed.

Lemma bitfield_pay t fl idx s s' : bitfield t fl idx s = Ok s' -> same_pay s s'.
Proof.
  unfold Walk.bitfield, same_pay. intros H. bindok H. bindok H. destruct x0 as [bfv s1].
  injection H as <-. cbn [w_pay].
  apply bits_loop_pay in E0 as [E0 _]. exact E0.
Qed.

Lemma cfgval_loop_pay fuel : forall off len s s', cfgval_loop fuel off len s = Ok s' -> w_pay s' = w_pay s.
Proof.
  induction fuel as [|f IH]; intros off len s s' H; cbn [Walk.cfgval_loop] in H; [discriminate|].
  destruct (Nat.ltb off len); [|injection H as <-; reflexivity].
  bindok H. destruct x as [name t]. bindok H. bindok H. bindok H.
  apply IH in H. cbn [w_pay] in H. apply set_attr_pay in E2 as [E2 _]. congruence.
Qed.

Theorem walk_list_pay ds idx s s' : walk_list ds idx s = Ok s' -> w_pay s' = w_pay s.
Proof.
  apply (walk_list_inv_all atttype readonly_names cfgdb storsize scalround cls id mode bf None bud same_pay).
  - reflexivity.
  - unfold same_pay. intros; congruence.
  - intros; eapply single_pay; eauto.
  - intros; eapply bitfield_pay; eauto.
  - intros s0 s1 _ _ H. unfold same_pay. cbn [w_pay]. eapply cfgval_loop_pay; eauto.
Qed.
End PayloadRoute.

(* ---- what construct produces ---- *)
Definition payload_bytes (m : msg) : bytes := match m_payload m with Some p => p | None => [] end.

Lemma translate_ok {A} (r : result A) a : translate_exn r = Ok a -> r = Ok a.
Proof. destruct r as [x|e]; cbn; [congruence|destruct e; discriminate]. Qed.

Theorem construct_fields cls id mode bf k m :
  construct cls id mode bf k = Ok m ->
  m_cls m = cls /\ m_id m = id /\ m_mode m = mode /\ mode_ok mode = true /\ m_immutable m = true /\
  int_enc false 2 (Z.of_nat (length (payload_bytes m))) = Ok (m_length m) /\
  m_cksum m = fletcher (cls ++ id ++ m_length m ++ payload_bytes m)%list /\
  match k with
  | KwNone => m_payload m = None /\ m_attrs m = []
  | KwPayload p => m_payload m = Some p
  | KwAttrs [] => m_payload m = None
  | KwAttrs _ => exists p, m_payload m = Some p
  end.
Proof.
  unfold construct. destruct (mode_ok mode) eqn:Em; [|discriminate]. cbn [negb].
  intros H. apply translate_ok in H.
  assert (F: forall payload a,
    (do lc <- len_cksum cls id (match payload with Some p => p | None => [] end);
     Ok {| m_cls := cls; m_id := id; m_mode := mode; m_bf := bf; m_payload := payload;
           m_length := fst lc; m_cksum := snd lc; m_attrs := a; m_immutable := true |}) = Ok m ->
    m_cls m = cls /\ m_id m = id /\ m_mode m = mode /\ true = true /\ m_immutable m = true /\
    int_enc false 2 (Z.of_nat (length (payload_bytes m))) = Ok (m_length m) /\
    m_cksum m = fletcher (cls ++ id ++ m_length m ++ payload_bytes m)%list /\ m_payload m = payload /\ m_attrs m = a).
  { intros payload a H0. unfold len_cksum, U2 in H0. rewrite v2b_U in H0.
    destruct (int_enc false 2 _) as [l|] eqn:El; [|discriminate]. cbn [bind fst snd] in H0.
    injection H0 as <-. unfold payload_bytes. cbn. repeat split; auto. }
  destruct k as [|p|a].
  - apply (F None []) in H. intuition.
  - destruct (do_walk cls id mode bf (KwPayload p) p None) as [s|] eqn:Ew; [|discriminate]. cbn [bind] in H.
    apply (F (Some (w_pay s)) (w_attrs s)) in H. destruct H as (?&?&?&?&?&?&?&Hp&?). repeat split; auto.
    unfold do_walk in Ew. destruct (get_dict _ _ _ _ _) as [pd|]; [|discriminate]. cbn [bind] in Ew.
    apply walk_list_pay in Ew. cbn [w_pay] in Ew. congruence.
  - destruct a as [|x a].
    + apply (F None []) in H. intuition.
    + destruct (do_walk _ _ _ _ _ _ _) as [s|] eqn:Ew; [|discriminate]. cbn [bind] in H.
      apply (F (Some (w_pay s)) (w_attrs s)) in H. destruct H as (?&?&?&?&?&?&?&Hp&?). repeat split; auto. eauto.
Qed.


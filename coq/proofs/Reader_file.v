(* Reader_file.v — the reader over a file-like stream (io.BytesIO, binary file) *)
From PyUbx Require Import Base Bytes Reader Tac Bytes_lemmas Reader_generic.
Open Scope N_scope.


Section F.
Context {P : Type}.
Variable parse : N -> bytes -> result P.
Variable nmea_hdr : N -> bool.

Notation read_bytes := (read_bytes (S:=bytes) file_rd).
Notation read_line := (read_line (S:=bytes) file_rdl).
Notation frame1 := (frame1 file_rd file_rdl nmea_hdr).
Notation trace := (trace file_rd file_rdl nmea_hdr).
Notation read_all := (read_all file_rd file_rdl parse nmea_hdr).

(* ---- primitive reads ---- *)
Inductive rb_spec (n : nat) (s : bytes) : result bytes * bytes -> Prop :=
| rb_zero : n = O -> rb_spec n s (Ok [], s)
| rb_eof : n <> O -> s = [] -> rb_spec n s (Raise EEOF, [])
| rb_short : n <> O -> s <> [] -> (length s < n)%nat -> rb_spec n s (Raise EUBXStream, [])
| rb_ok : n <> O -> (n <= length s)%nat -> rb_spec n s (Ok (firstn n s), skipn n s).

Lemma read_bytes_spec n s : rb_spec n s (read_bytes n s).
Proof.
  unfold Reader.read_bytes, file_rd. destruct n as [|n]; [now constructor|].
  destruct s as [|b s]; [now constructor|].
  remember (Datatypes.S n) as m.
  destruct (length (firstn m (b :: s))) eqn:El.
  - rewrite firstn_length in El. simpl in El. lia.
  - destruct (Nat.ltb_spec (Datatypes.S n0) m) as [Hlt|Hge].
    + rewrite firstn_length in El.
      rewrite skipn_all2 by lia. apply rb_short; [lia|discriminate|lia].
    + rewrite firstn_length in El. apply rb_ok; lia.
Qed.

Lemma split_line_app s : let '(l, r) := split_line s in s = l ++ r.
Proof.
  induction s as [|b t IH]; simpl; [reflexivity|]. destruct (b =? 10); [reflexivity|].
  destruct (split_line t) as [l r]. simpl. now rewrite IH.
Qed.

Lemma split_line_nolf s : let '(l, r) := split_line s in
  (l = [] /\ s = [] /\ r = []) \/ (l <> [] /\ last l 0 = 10) \/ (l <> [] /\ last l 0 <> 10 /\ r = []).
Proof.
  induction s as [|b t IH]; simpl; [auto|].
  destruct (N.eqb_spec b 10) as [->|Hb].
  - right. left. split; [discriminate|reflexivity].
  - destruct (split_line t) as [l r]. right.
    destruct IH as [[-> [-> ->]]|[[Hl Hlast]|[Hl [Hlast ->]]]].
    + right. repeat split; try discriminate. simpl. exact Hb.
    + left. split; [discriminate|]. destruct l; [contradiction|]. exact Hlast.
    + right. repeat split; try discriminate. destruct l; [contradiction|]. exact Hlast.
Qed.

Inductive rl_spec (s : bytes) : result bytes * bytes -> Prop :=
| rl_eof : s = [] -> rl_spec s (Raise EEOF, [])
| rl_short : s <> [] -> rl_spec s (Raise EUBXStream, [])
| rl_ok l r : s = l ++ r -> l <> [] -> rl_spec s (Ok l, r).

Lemma read_line_spec s : rl_spec s (read_line s).
Proof.
  unfold Reader.read_line, file_rdl.
  pose proof (split_line_app s) as Ha. pose proof (split_line_nolf s) as Hn.
  destruct (split_line s) as [l r].
  destruct Hn as [[-> [-> ->]]|[[Hl Hlast]|[Hl [Hlast ->]]]].
  - now constructor.
  - destruct l as [|x l]; [contradiction|]. rewrite Hlast. cbn. apply rl_ok; [exact Ha|discriminate].
  - destruct l as [|x l]; [contradiction|].
    destruct (N.eqb_spec (last (x :: l) 0) 10); [contradiction|].
    apply rl_short. rewrite Ha. discriminate.
Qed.

(* ---- one framing step ---- *)
Definition first_is_preamble (raw : bytes) : Prop :=
  match raw with x :: _ => is_preamble x = true | [] => False end.

Inductive f1_spec (s : bytes) : result framed * bytes -> Prop :=
| f1_eof g : s = g -> f1_spec s (Raise EEOF, [])
| f1_err e g : (e = EUBXStream \/ e = EUBXParse) -> g <> [] -> forall s', s = g ++ s' -> f1_spec s (Raise e, s')
| f1_noise x s' : s = x :: s' -> is_preamble x = false -> f1_spec s (Ok Noise, s')
| f1_frame p raw s' : s = raw ++ s' -> (p = 1 \/ p = 2 \/ p = 4) -> protocol nmea_hdr raw = p ->
    first_is_preamble raw -> f1_spec s (Ok (Frame p raw), s').

Lemma read_bytes_ok n s : (n <= length s)%nat -> read_bytes n s = (Ok (firstn n s), skipn n s).
Proof. intros H. pose proof (read_bytes_spec n s) as R. inversion R; subst; try lia; try reflexivity.
  simpl in *. lia. Qed.
Lemma read_bytes_nil n : n <> O -> read_bytes n [] = (Raise EEOF, []).
Proof. destruct n; [congruence|reflexivity]. Qed.
Lemma read_bytes_short n s : s <> [] -> (length s < n)%nat -> read_bytes n s = (Raise EUBXStream, []).
Proof. intros H1 H2. pose proof (read_bytes_spec n s) as R. inversion R; subst; try lia; try congruence. Qed.

Lemma slice_exact {A} (l : list A) n : length l = n -> slice l 0 n = l.
Proof. intros <-. unfold slice. simpl. apply firstn_all. Qed.

(* case split on a read of n bytes from s *)
Ltac rbcase n s :=
  let Hle := fresh "Hle" in let Hgt := fresh "Hgt" in let Es := fresh "Es" in
  destruct (Nat.le_gt_cases n (length s)) as [Hle|Hgt];
  [ rewrite (read_bytes_ok n s Hle)
  | destruct s eqn:Es;
    [ rewrite read_bytes_nil by lia
    | rewrite read_bytes_short by (try discriminate; assumption) ] ].

Lemma frame1_spec s : f1_spec s (frame1 s).
Proof.
  unfold Reader.frame1.
  destruct s as [|x1 s1]; [apply f1_eof with (g := []); reflexivity|].
  unfold bindM at 1. rewrite read_bytes_ok by (simpl; lia). cbn [firstn skipn].
  destruct (is_preamble x1) eqn:Ep1; cbn [negb].
  2:{ unfold ret. apply f1_noise with (x := x1); [reflexivity|exact Ep1]. }
  destruct s1 as [|x2 s2].
  { unfold bindM. rewrite read_bytes_nil by lia. apply f1_eof with (g := [x1]). reflexivity. }
  unfold bindM at 1. rewrite read_bytes_ok by (simpl; lia). cbn [firstn skipn].
  destruct ((x1 =? 181) && (x2 =? 98)) eqn:Eubx.
  { apply andb_true_iff in Eubx as [Ex1 Ex2]. apply N.eqb_eq in Ex1, Ex2. subst x1 x2.
    unfold bindM at 1. rbcase 4%nat s2.
    2:{ apply f1_eof with (g := [181; 98]). reflexivity. }
    2:{ apply f1_err with (g := 181 :: 98 :: n :: l); auto; [discriminate|now rewrite app_nil_r]. }
    set (h := firstn 4 s2). set (s3 := skipn 4 s2).
    assert (Hh: length h = 4%nat) by (subst h; rewrite firstn_length; lia).
    set (leni := N.to_nat (uint_of_le (slice h 2 2))).
    unfold bindM at 1. rbcase (leni + 2)%nat s3.
    2:{ apply f1_eof with (g := 181 :: 98 :: s2). reflexivity. }
    2:{ apply f1_err with (g := 181 :: 98 :: s2); auto; [discriminate|now rewrite app_nil_r]. }
    set (body := firstn (leni + 2) s3).
    assert (Hb: length body = (leni + 2)%nat) by (subst body; rewrite firstn_length; lia).
    unfold ret.
    assert (Hraw: [181; 98] ++ slice h 0 1 ++ slice h 1 1 ++ slice h 2 2 ++ slice body 0 leni ++ slice body leni 2
                  = [181; 98] ++ h ++ body).
    { f_equal. clearbody leni.
      destruct h as [|h0 [|h1 [|h2 [|h3 [|? ?]]]]]; simpl in Hh; try lia.
      unfold slice at 1 2 3. cbn [skipn firstn app]. do 4 f_equal.
      unfold slice. cbn [skipn]. rewrite <- (firstn_skipn leni body) at 3. f_equal.
      apply firstn_all2. rewrite skipn_length. lia. }
    rewrite Hraw. apply f1_frame; auto; try reflexivity.
    cbn [app]. do 2 f_equal. rewrite <- (firstn_skipn 4 s2) at 1. fold h s3.
    rewrite <- (firstn_skipn (leni + 2) s3) at 1. fold body. now rewrite <- !app_assoc. }
  destruct ((x1 =? 36) && nmea_hdr x2) eqn:Enmea.
  { apply andb_true_iff in Enmea as [Ex1 Ex2]. apply N.eqb_eq in Ex1. subst x1.
    unfold bindM at 1.
    pose proof (read_line_spec s2) as R. destruct (read_line s2) as [rr s3].
    inversion R as [He|He|l r Hl Hne]; subst.
    - apply f1_eof with (g := [36; x2]). reflexivity.
    - apply f1_err with (g := 36 :: x2 :: s2); auto; [discriminate|now rewrite app_nil_r].
    - unfold ret. apply f1_frame; auto; try reflexivity.
      cbn [app protocol]. rewrite Ex2. destruct (x2 =? 98); reflexivity. }
  destruct ((x1 =? 211) && (N.ldiff x2 3 =? 0)) eqn:Ertcm.
  { apply andb_true_iff in Ertcm as [Ex1 Ex2]. apply N.eqb_eq in Ex1. subst x1.
    unfold bindM at 1.
    destruct s2 as [|x3 s3].
    { rewrite read_bytes_nil by lia. apply f1_eof with (g := [211; x2]). reflexivity. }
    rewrite read_bytes_ok by (simpl; lia). cbn [firstn skipn nth].
    set (size := N.to_nat _).
    unfold bindM at 1. rbcase size s3.
    2:{ apply f1_eof with (g := [211; x2; x3]). reflexivity. }
    2:{ apply f1_err with (g := 211 :: x2 :: x3 :: n :: l); auto; [discriminate|now rewrite app_nil_r]. }
    set (pl := firstn size s3). set (s4 := skipn size s3).
    unfold bindM at 1. rbcase 3%nat s4.
    2:{ apply f1_eof with (g := 211 :: x2 :: x3 :: s3). reflexivity. }
    2:{ apply f1_err with (g := 211 :: x2 :: x3 :: s3); auto; [discriminate|now rewrite app_nil_r]. }
    unfold ret. apply f1_frame; auto; try reflexivity.
    - cbn [app]. do 3 f_equal. rewrite <- (firstn_skipn size s3) at 1. fold pl s4.
      rewrite <- app_assoc. f_equal. symmetry. apply firstn_skipn.
    - cbn [app protocol]. cbn [N.eqb Pos.eqb andb]. rewrite Ex2. destruct nmea_hdr; reflexivity. }
  unfold raiseM. apply f1_err with (g := [x1; x2]); auto. discriminate.
Qed.


(* ------------------------------------------------------------------ *)
(* Whole-stream facts *)

Lemma f1_consumes s r s' : frame1 s = (r, s') ->
  (r = Raise EEOF /\ s' = []) \/ (length s' < length s)%nat.
Proof.
  intros E. pose proof (frame1_spec s) as H. rewrite E in H.
  inversion H; subst; auto; right; rewrite ?app_length;
    try (destruct g; [congruence|]); try (destruct raw; [contradiction|]); simpl; lia.
Qed.

(* the events of a trace consume the stream left to right *)
Inductive chain : bytes -> list (tev * bytes) -> Prop :=
| ch_nil s : chain s []
| ch_frame p raw s' l : first_is_preamble raw -> chain s' l -> chain (raw ++ s') ((TFrame p raw, s') :: l)
| ch_noise x s' l : chain s' l -> chain (x :: s') ((TNoise, s') :: l)
| ch_err e g s' l : g <> [] -> chain s' l -> chain (g ++ s') ((TErr e, s') :: l).

Theorem trace_file_spec fuel : forall s l e,
  (length s < fuel)%nat -> trace fuel s = (l, e) ->
  e = TEof [] /\ Forall (fun x => frame_ev nmea_hdr (fst x)) l /\ chain s l.
Proof.
  induction fuel as [|f IH]; intros s l e Hf H; [lia|].
  cbn [Reader.trace] in H.
  pose proof (frame1_spec s) as Hs. pose proof (f1_consumes s) as Hc.
  destruct (frame1 s) as [r s'] eqn:E. specialize (Hc _ _ eq_refl).
  inversion Hs as [g Hg|e0 g He0 Hgne s0 Hg|x s0 Hg Hx|p raw s0 Hg Hp Hpr Hfp]; subst.
  - injection H as <- <-. repeat split; constructor.
  - assert (Hlt: (length s' < f)%nat).
    { rewrite app_length in Hf. destruct g; [congruence|simpl in Hf; lia]. }
    destruct (trace f s') as [l0 e1] eqn:Et. destruct (IH _ _ _ Hlt Et) as (-> & Hfa & Hch).
    assert (e0 <> EEOF) by (destruct He0; subst; discriminate).
    destruct e0; try congruence; injection H as <- <-;
      (repeat split; [constructor; [exact He0|exact Hfa]|now constructor]).
  - assert (Hlt: (length s' < f)%nat) by (simpl in Hf; lia).
    destruct (trace f s') as [l0 e0] eqn:Et. destruct (IH _ _ _ Hlt Et) as (-> & Hfa & Hch).
    injection H as <- <-. repeat split; [constructor; [exact I|exact Hfa]|now constructor].
  - assert (Hlt: (length s' < f)%nat).
    { rewrite app_length in Hf. destruct raw; [contradiction|simpl in Hf; lia]. }
    destruct (trace f s') as [l0 e0] eqn:Et. destruct (IH _ _ _ Hlt Et) as (-> & Hfa & Hch).
    injection H as <- <-. repeat split; [constructor; [split; [exact Hp|reflexivity]|exact Hfa]|now constructor].
Qed.

Lemma trace_fuel_irrel f1 : forall f2 s, (length s < f1)%nat -> (length s < f2)%nat -> trace f1 s = trace f2 s.
Proof.
  induction f1 as [|f1 IH]; intros f2 s H1 H2; [lia|]. destruct f2 as [|f2]; [lia|].
  cbn [Reader.trace]. pose proof (f1_consumes s) as Hc.
  destruct (frame1 s) as [r s'] eqn:E. specialize (Hc _ _ eq_refl).
  assert (Hr: r = Raise EEOF \/ ((length s' < f1)%nat /\ (length s' < f2)%nat)).
  { destruct Hc as [[? ?]|?]; [left; assumption|right; lia]. }
  destruct Hr as [->|[Ha Hb]]; [reflexivity|].
  rewrite (IH f2 s' Ha Hb). reflexivity.
Qed.

(* ---- C07: delivered raws are non-overlapping slices of the input, in input order ---- *)
Inductive slices : list bytes -> bytes -> Prop :=
| sl_nil s : slices [] s
| sl_gap l b s : slices l s -> slices l (b :: s)
| sl_take l r s : slices l s -> slices (r :: l) (r ++ s).

Lemma slices_gap l g s : slices l s -> slices l (g ++ s).
Proof. induction g; simpl; auto using slices. Qed.

Lemma interp_slices c s l e : chain s l ->
  slices (map fst (items (interp parse c l e))) s /\
  Forall first_is_preamble (map fst (items (interp parse c l e))).
Proof.
  induction 1 as [s|p raw s' l Hpre Hch [IH1 IH2]|x s' l Hch [IH1 IH2]|x g s' l Hg Hch [IH1 IH2]]; cbn [Reader.interp].
  - destruct e; split; constructor.
  - cbn [Reader.outcome_of]. destruct (passes c p).
    + destruct (parsing c).
      * destruct (parse p raw) as [v|x].
        -- cbn [on_outcome add_item items map fst]. split; [now apply sl_take|now constructor].
        -- destruct (classify_cases (P:=P) x) as [-> | [-> | ->]]; cbn [on_outcome];
           repeat (match goal with |- context [if ?b then _ else _] => destruct b end);
           cbn [stop add_report items map]; split; try constructor; try (apply slices_gap; assumption); assumption.
      * cbn [on_outcome add_item items map fst]. split; [now apply sl_take|now constructor].
    + cbn [on_outcome]. split; [now apply slices_gap|assumption].
  - cbn [Reader.outcome_of on_outcome]. split; [now apply sl_gap|assumption].
  - cbn [Reader.outcome_of]. destruct (classify_cases (P:=P) x) as [-> | [-> | ->]]; cbn [on_outcome];
      repeat (match goal with |- context [if ?b then _ else _] => destruct b end);
      cbn [stop add_report items map]; split; try constructor; try (apply slices_gap; assumption); assumption.
Qed.


(* ------------------------------------------------------------------ *)
(* C09: cutting the stream *)

Inductive rd_pre : result bytes * bytes -> result bytes * bytes -> Prop :=
| rp_ok d rest j : rd_pre (Ok d, firstn j rest) (Ok d, rest)
| rp_eof r : rd_pre (Raise EEOF, []) r
| rp_short r : rd_pre (Raise EUBXStream, []) r.

Lemma read_bytes_pre n k s : rd_pre (read_bytes n (firstn k s)) (read_bytes n s).
Proof.
  destruct n as [|n]; [apply rp_ok|].
  destruct (Nat.le_gt_cases (Datatypes.S n) (length (firstn k s))) as [Hle|Hgt].
  - rewrite (read_bytes_ok _ _ Hle).
    assert (Hle': (Datatypes.S n <= length s)%nat) by (rewrite firstn_length in Hle; lia).
    rewrite (read_bytes_ok _ _ Hle').
    rewrite firstn_firstn. replace (Nat.min (Datatypes.S n) k) with (Datatypes.S n) by (rewrite firstn_length in Hle; lia).
    rewrite skipn_firstn_comm. apply rp_ok.
  - destruct (firstn k s) eqn:E.
    + rewrite read_bytes_nil by lia. constructor.
    + rewrite read_bytes_short by (try discriminate; assumption). constructor.
Qed.

Lemma split_line_pre k s :
  let '(l', r') := split_line (firstn k s) in
  let '(l, r) := split_line s in
  (l' = l /\ last l 0 = 10 /\ l <> [] /\ exists j, r' = firstn j r) \/ (r' = [] /\ (l' = [] \/ last l' 0 <> 10)).
Proof.
  revert k; induction s as [|b t IH]; intros k.
  - rewrite firstn_nil. simpl. right; auto.
  - destruct k as [|k].
    { rewrite firstn_O. change (split_line []) with (@nil N, @nil N). cbv beta iota.
      destruct (split_line (b :: t)) as [l r]. right. auto. }
    cbn [firstn split_line]. destruct (N.eqb_spec b 10) as [->|Hb].
    + left. repeat split; try discriminate. eauto.
    + specialize (IH k). destruct (split_line (firstn k t)) as [l' r'].
      destruct (split_line t) as [l r]. cbv beta iota zeta in IH |- *.
      destruct IH as [(-> & Hl & Hne & j & ->)|(-> & Hl)].
      * left. repeat split; try discriminate; eauto. destruct l; [contradiction|exact Hl].
      * right. split; [reflexivity|]. right. destruct l' as [|x l']; [simpl; exact Hb|].
        destruct Hl as [Hl|Hl]; [discriminate|exact Hl].
Qed.

Lemma read_line_pre k s : rd_pre (read_line (firstn k s)) (read_line s).
Proof.
  unfold Reader.read_line, file_rdl. pose proof (split_line_pre k s) as H.
  destruct (split_line (firstn k s)) as [l' r']. destruct (split_line s) as [l r].
  destruct H as [(-> & Hl & Hne & j & ->)|(-> & Hl)].
  - destruct l as [|x l]; [contradiction|]. rewrite Hl. cbn. apply rp_ok.
  - destruct l' as [|x l']; [constructor|].
    destruct Hl as [Hl|Hl]; [discriminate|].
    destruct (N.eqb_spec (last (x :: l') 0) 10); [contradiction|]. constructor.
Qed.

Inductive f1_pre : result framed * bytes -> result framed * bytes -> Prop :=
| fp_same r rest j : f1_pre (r, firstn j rest) (r, rest)
| fp_eof o : f1_pre (Raise EEOF, []) o
| fp_dead o : f1_pre (Raise EUBXStream, []) o.

Lemma bind_pre (m : M (S:=bytes) bytes) (k : bytes -> M (S:=bytes) framed) :
  (forall s j, rd_pre (m (firstn j s)) (m s)) ->
  (forall d s j, f1_pre (k d (firstn j s)) (k d s)) ->
  forall s j, f1_pre (bindM m k (firstn j s)) (bindM m k s).
Proof.
  intros Hm Hk s j. unfold bindM. specialize (Hm s j).
  destruct (m (firstn j s)) as [r' s1']. destruct (m s) as [r s1].
  inversion Hm; subst; try constructor. apply Hk.
Qed.

Lemma ret_pre (x : framed) s j : f1_pre (ret x (firstn j s)) (ret x s).
Proof. apply fp_same. Qed.
Lemma raise_pre e s j : f1_pre (raiseM (A:=framed) e (firstn j s)) (raiseM e s).
Proof. apply fp_same. Qed.

Lemma frame1_pre k s : f1_pre (frame1 (firstn k s)) (frame1 s).
Proof.
  revert s k. unfold Reader.frame1. apply bind_pre; [intros; apply read_bytes_pre|]. intros b1 s j.
  destruct b1 as [|x1 [|? ?]]; try apply ret_pre.
  destruct (negb _); [apply ret_pre|].
  apply bind_pre; [intros; apply read_bytes_pre|]. intros b2 s2 j2.
  destruct b2 as [|x2 [|? ?]]; try apply raise_pre.
  destruct (_ && _).
  { apply bind_pre; [intros; apply read_bytes_pre|]. intros h s3 j3.
    apply bind_pre; [intros; apply read_bytes_pre|]. intros body s4 j4. apply ret_pre. }
  destruct (_ && _).
  { apply bind_pre; [intros; apply read_line_pre|]. intros l s3 j3. apply ret_pre. }
  destruct (_ && _).
  { apply bind_pre; [intros; apply read_bytes_pre|]. intros h3 s3 j3.
    apply bind_pre; [intros; apply read_bytes_pre|]. intros pl s4 j4.
    apply bind_pre; [intros; apply read_bytes_pre|]. intros crc s5 j5. apply ret_pre. }
  apply raise_pre.
Qed.

Inductive prefix {A} : list A -> list A -> Prop :=
| pre_nil l : prefix [] l
| pre_cons x l' l : prefix l' l -> prefix (x :: l') (x :: l).

Lemma prefix_refl {A} (l : list A) : prefix l l.
Proof. induction l; constructor; auto. Qed.
Lemma prefix_app_same {A} (pre a b : list A) : prefix a b -> prefix (pre ++ a) (pre ++ b).
Proof. intros H. induction pre as [|x pre IHp]; simpl; [exact H|constructor; exact IHp]. Qed.

(* a run that never stops early: parsers raise only protocol errors and errors are not re-raised *)
Definition quiet_cfg (c : cfg) : Prop := quitonerror c <> 2.

Definition ev_items (c : cfg) (t : tev) : list (bytes * option P) :=
  match outcome_of parse c t with Deliver raw p => [(raw, p)] | _ => [] end.

Lemma interp_cons_quiet c t (s' : bytes) (l : list (tev * bytes)) (e : @tend bytes) :
  parse_protocol_only parse -> quiet_cfg c -> frame_ev nmea_hdr t ->
  items (interp parse c ((t, s') :: l) e) = ev_items c t ++ items (interp parse c l e) /\
              raised (interp parse c ((t, s') :: l) e) = raised (interp parse c l e) /\
              out_of_fuel (interp parse c ((t, s') :: l) e) = out_of_fuel (interp parse c l e) /\
              final (interp parse c ((t, s') :: l) e) = final (interp parse c l e).
Proof.
  intros Hp Hq Ht. cbn [Reader.interp].
  assert (Hq': (quitonerror c =? 2) = false) by (unfold quiet_cfg in Hq; lia).
  unfold ev_items.
  assert (Hrej: forall x k, is_protocol_exn x = true ->
     items (on_outcome c (classify x) s' k) = match @classify P x with Deliver raw p => [(raw, p)] | _ => [] end ++ items k /\
       raised (on_outcome c (classify x) s' k) = raised k /\
       out_of_fuel (on_outcome c (classify x) s' k) = out_of_fuel k /\
       final (on_outcome c (classify x) s' k) = final k).
  { intros x k Hx. rewrite (classify_protocol x Hx). cbn [on_outcome]. rewrite Hq'.
    destruct (quitonerror c =? 1); cbn; auto. }
  destruct t as [p raw| |x]; cbn [Reader.outcome_of].
  - destruct (passes c p); [|cbn; auto].
    destruct (parsing c); [|cbn; auto].
    destruct (parse p raw) as [v|x] eqn:Epr; [cbn; auto|].
    apply Hrej. eapply Hp; eauto.
  - cbn. auto.
  - apply Hrej. destruct Ht as [-> | ->]; reflexivity.
Qed.

Lemma interp_dead_quiet c (e0 : @tend bytes) (l : list (tev * bytes)) :
  parse_protocol_only parse -> quiet_cfg c ->
  items (interp parse c [(TErr EUBXStream, [])] e0) = [] .
Proof.
  intros Hp Hq. cbn [Reader.interp Reader.outcome_of classify is_protocol_exn on_outcome].
  assert (Hq': (quitonerror c =? 2) = false) by (unfold quiet_cfg in Hq; lia). rewrite Hq'.
  destruct (quitonerror c =? 1); destruct e0; reflexivity.
Qed.

Lemma trace_nil f : exists e, trace f [] = ([], e).
Proof. destruct f; eexists; reflexivity. Qed.

Theorem trace_prefix_items c fuel : forall s k,
  parse_protocol_only parse -> quiet_cfg c -> (length s < fuel)%nat ->
  prefix (items (let '(l, e) := trace fuel (firstn k s) in interp parse c l e))
         (items (let '(l, e) := trace fuel s in interp parse c l e)).
Proof.
  induction fuel as [|f IH]; intros s k Hp Hq Hf; [lia|].
  cbn [Reader.trace].
  pose proof (frame1_pre k s) as Hpre.
  pose proof (frame1_spec s) as Hs. pose proof (f1_consumes s) as Hc.
  pose proof (frame1_spec (firstn k s)) as Hs'.
  destruct (frame1 s) as [r s1] eqn:E. destruct (frame1 (firstn k s)) as [r' s1'] eqn:E'.
  specialize (Hc _ _ eq_refl).
  inversion Hpre as [r0 rest j Hr1 Hr2|o Hr1 Hr2|o Hr1 Hr2]; subst.
  - (* same result; continue on related rests *)
    destruct Hc as [[-> ->]|Hlt].
    { rewrite firstn_nil. apply prefix_refl. }
    assert (Hlt': (length s1 < f)%nat) by lia.
    specialize (IH s1 j Hp Hq Hlt').
    assert (Hev: forall t, frame_ev nmea_hdr t ->
       prefix (items (let '(l, e) := (let '(l, e) := trace f (firstn j s1) in ((t, firstn j s1) :: l, e)) in interp parse c l e))
              (items (let '(l, e) := (let '(l, e) := trace f s1 in ((t, s1) :: l, e)) in interp parse c l e))).
    { intros t Ht. destruct (trace f (firstn j s1)) as [l' e']. destruct (trace f s1) as [l e].
      destruct (interp_cons_quiet c t (firstn j s1) l' e' Hp Hq Ht) as (E1 & _).
      destruct (interp_cons_quiet c t s1 l e Hp Hq Ht) as (E2 & _).
      unfold bytes in *. rewrite E1, E2.
      apply prefix_app_same. exact IH. }
    inversion Hs as [g Hg|e0 g He0 Hgne s0 Hg|x s0 Hg Hx|p raw s0 Hg Hp3 Hpr Hfp]; subst.
    + constructor.
    + assert (e0 <> EEOF) by (destruct He0; subst; discriminate).
      destruct e0; try congruence; apply Hev; exact He0.
    + apply Hev. exact I.
    + apply Hev. split; [exact Hp3|reflexivity].
  - constructor.
  - (* short read at the cut: one stream error, then end of stream *)
    cbv beta iota. destruct (trace_nil f) as [e0 E0]. rewrite E0. cbv beta iota.
    pose proof (interp_dead_quiet c e0 [] Hp Hq) as Ed. unfold bytes in *. rewrite Ed. constructor.
Qed.

(* ------------------------------------------------------------------ *)
(* C06: clean streams *)

Fixpoint noise_events (ns rest : bytes) : list (tev * bytes) :=
  match ns with [] => [] | b :: t => (TNoise, t ++ rest) :: noise_events t rest end.

Fixpoint events_of (cs : list chunk) : list (tev * bytes) :=
  match cs with
  | [] => []
  | CNoise ns :: t => noise_events ns (flatten t) ++ events_of t
  | ch :: t => (TFrame (proto_of ch) (raw_of ch), flatten t) :: events_of t
  end.

Lemma split_line_clean body rest : Forall (fun b => b <> 10) body ->
  split_line (body ++ 10 :: rest) = (body ++ [10], rest).
Proof.
  induction 1 as [|b body Hb _ IH]; simpl; [reflexivity|].
  destruct (N.eqb_spec b 10); [contradiction|]. now rewrite IH.
Qed.

Lemma last_app1 (l : bytes) x d : last (l ++ [x]) d = x.
Proof. induction l as [|a l IH]; [reflexivity|]. simpl. destruct (l ++ [x]) eqn:E; [destruct l; discriminate|exact IH]. Qed.

Lemma frame1_chunk ch rest : wf_chunk nmea_hdr ch ->
  match ch with
  | CNoise _ => True
  | _ => frame1 (raw_of ch ++ rest) = (Ok (Frame (proto_of ch) (raw_of ch)), rest)
  end.
Proof.
  destruct ch as [c i p ck|h body|b2 b3 p crc|ns]; intros Hw; [| | |exact I].
  - destruct Hw as [Hn Hck]. cbn [raw_of proto_of]. unfold Reader.frame1.
    set (n := N.of_nat (length p)) in *.
    cbn [app]. unfold bindM at 1. rewrite read_bytes_ok by (simpl; lia). cbn [firstn skipn is_preamble N.eqb Pos.eqb orb negb].
    unfold bindM at 1. rewrite read_bytes_ok by (simpl; lia). cbn [firstn skipn N.eqb Pos.eqb andb].
    unfold bindM at 1. rewrite read_bytes_ok by (simpl; lia).
    rewrite enc_le2. cbn [firstn skipn app].
    assert (El: N.to_nat (uint_of_le (slice [c; i; n mod 256; n / 256 mod 256] 2 2)) = length p).
    { unfold slice. cbn [skipn firstn uint_of_le]. subst n. lia. }
    rewrite El.
    unfold bindM at 1. rewrite read_bytes_ok by (rewrite !app_length; lia).
    assert (Hfn: firstn (length p + 2) ((p ++ ck) ++ rest) = p ++ ck).
    { rewrite firstn_app. replace (length p + 2 - length (p ++ ck))%nat with 0%nat by (rewrite app_length; lia).
      rewrite firstn_O, app_nil_r. apply firstn_all2. rewrite app_length; lia. }
    assert (Hsk: skipn (length p + 2) ((p ++ ck) ++ rest) = rest).
    { rewrite skipn_app. replace (length p + 2 - length (p ++ ck))%nat with 0%nat by (rewrite app_length; lia).
      rewrite skipn_all2 by (rewrite app_length; lia). reflexivity. }
    rewrite <- app_assoc in Hfn, Hsk. rewrite <- app_assoc.
    unfold ret. rewrite Hfn, Hsk. f_equal. f_equal. f_equal.
    unfold slice. cbn [skipn firstn app]. do 6 f_equal.
    rewrite (firstn_app (length p)), Nat.sub_diag, firstn_O, app_nil_r, firstn_all.
    f_equal. rewrite skipn_app, Nat.sub_diag, skipn_all. cbn [skipn app].
    destruct ck as [|a0 [|a1 [|? ?]]]; simpl in Hck; try lia; reflexivity.
  - destruct Hw as [Hh Hb]. cbn [raw_of proto_of]. unfold Reader.frame1.
    cbn [app]. unfold bindM at 1. rewrite read_bytes_ok by (simpl; lia). cbn [firstn skipn is_preamble N.eqb Pos.eqb orb negb].
    unfold bindM at 1. rewrite read_bytes_ok by (simpl; lia). cbn [firstn skipn N.eqb Pos.eqb andb].
    rewrite Hh. unfold bindM at 1. unfold Reader.read_line, file_rdl.
    rewrite <- app_assoc. cbn [app]. rewrite split_line_clean by assumption.
    destruct (body ++ [10]) eqn:E; [destruct body; discriminate|]. rewrite <- E.
    rewrite last_app1. cbn [N.eqb Pos.eqb]. unfold ret. reflexivity.
  - destruct Hw as (H2 & Hn & Hcrc). cbn [raw_of proto_of]. unfold Reader.frame1.
    cbn [app]. unfold bindM at 1. rewrite read_bytes_ok by (simpl; lia). cbn [firstn skipn is_preamble N.eqb Pos.eqb orb negb].
    unfold bindM at 1. rewrite read_bytes_ok by (simpl; lia). cbn [firstn skipn N.eqb Pos.eqb andb].
    rewrite H2. cbn [N.eqb].
    unfold bindM at 1. rewrite read_bytes_ok by (simpl; lia). cbn [firstn skipn nth].
    replace (N.to_nat (N.lor b3 (N.shiftl b2 8))) with (length p) by lia.
    unfold bindM at 1. rewrite read_bytes_ok by (rewrite !app_length; lia).
    unfold bindM at 1. rewrite read_bytes_ok by (rewrite skipn_length, !app_length; lia).
    unfold ret. rewrite <- app_assoc.
    rewrite (firstn_app (length p)), Nat.sub_diag, firstn_O, app_nil_r, firstn_all.
    rewrite skipn_app, Nat.sub_diag, skipn_all. cbn [skipn app].
    destruct crc as [|c0 [|c1 [|c2 [|? ?]]]]; simpl in Hcrc; try lia. reflexivity.
Qed.

Theorem trace_clean cs : Forall (wf_chunk nmea_hdr) cs ->
  forall fuel, (length (flatten cs) < fuel)%nat -> trace fuel (flatten cs) = (events_of cs, TEof []).
Proof.
  induction 1 as [|ch cs Hw Hcs IH]; intros fuel Hf.
  - destruct fuel; [simpl in Hf; lia|]. reflexivity.
  - unfold flatten in *. cbn [map concat] in *. fold (flatten cs) in *.
    destruct ch as [c i p ck|h body|b2 b3 p crc|ns].
    1-3: (destruct fuel as [|f]; [lia|]; cbn [Reader.trace];
          rewrite (frame1_chunk _ (flatten cs) Hw);
          rewrite IH by (rewrite app_length in Hf; cbn [raw_of app length] in Hf; lia);
          reflexivity).
    cbn [raw_of events_of wf_chunk] in *.
    revert fuel Hf. induction ns as [|b ns IHn]; intros fuel Hf.
    + cbn [app noise_events]. apply IH. exact Hf.
    + inversion Hw as [|? ? Hb Hns]; subst.
      destruct fuel as [|f]; [lia|]. cbn [app Reader.trace].
      unfold Reader.frame1 at 1. unfold bindM at 1. rewrite read_bytes_ok by (simpl; lia).
      cbn [firstn skipn]. rewrite Hb. cbn [negb]. unfold ret.
      rewrite (IHn Hns f) by (simpl in Hf; lia). reflexivity.
Qed.

Fixpoint deliver_all (c : cfg) (cs : list chunk) : list (bytes * option P) :=
  match cs with [] => [] | ch :: t => deliver parse c ch ++ deliver_all c t end.

Definition is_frame (ch : chunk) : Prop := match ch with CNoise _ => False | _ => True end.

Lemma ev_items_frame c ch : parse_protocol_only parse -> is_frame ch ->
  ev_items c (TFrame (proto_of ch) (raw_of ch)) = deliver parse c ch.
Proof.
  intros Hp Hf. unfold ev_items. cbn [Reader.outcome_of].
  assert (E: deliver parse c ch =
    if passes c (proto_of ch) then if parsing c then
      match parse (proto_of ch) (raw_of ch) with Ok v => [(raw_of ch, Some v)] | Raise _ => [] end
      else [(raw_of ch, None)] else []) by (destruct ch; [reflexivity..|contradiction]).
  rewrite E. destruct (passes c _); [|reflexivity]. destruct (parsing c); [|reflexivity].
  destruct (parse _ _) as [v|x] eqn:Epr; [reflexivity|].
  rewrite (classify_protocol x (Hp _ _ _ Epr)). reflexivity.
Qed.

Lemma frame_ev_chunk ch : wf_chunk nmea_hdr ch -> is_frame ch ->
  frame_ev nmea_hdr (TFrame (proto_of ch) (raw_of ch)).
Proof.
  destruct ch as [c0 i p ck|h body|b2 b3 p crc|ns]; intros Hw Hf; [| | |contradiction];
    cbn [frame_ev proto_of]; (split; [auto|]); cbn [raw_of app protocol N.eqb Pos.eqb andb].
  - reflexivity.
  - destruct Hw as [-> _]. destruct (h =? 98); reflexivity.
  - destruct Hw as [-> _]. destruct (nmea_hdr b2); reflexivity.
Qed.

Lemma interp_clean c cs : Forall (wf_chunk nmea_hdr) cs -> parse_protocol_only parse -> quiet_cfg c ->
  let r := interp parse c (events_of cs) (TEof []) in
  items r = deliver_all c cs /\ raised r = None /\ final r = [] /\ out_of_fuel r = false.
Proof.
  intros Hw Hp Hq. induction Hw as [|ch cs Hch Hcs IH]; [cbn; auto|].
  cbv zeta in *. destruct IH as (I1 & I2 & I3 & I4).
  assert (Hfr: is_frame ch ->
     let r := interp parse c ((TFrame (proto_of ch) (raw_of ch), flatten cs) :: events_of cs) (TEof []) in
     items r = deliver parse c ch ++ deliver_all c cs /\ raised r = None /\ final r = [] /\ out_of_fuel r = false).
  { intros Hf. cbv zeta.
    destruct (interp_cons_quiet c _ (flatten cs) (events_of cs) (TEof []) Hp Hq (frame_ev_chunk ch Hch Hf))
      as (E1 & E2 & E3 & E4).
    unfold bytes in *. rewrite E1, E2, E3, E4, I1, I2, I3, I4, (ev_items_frame c ch Hp Hf). auto. }
  destruct ch as [c0 i p ck|h body|b2 b3 p crc|ns]; cbn [events_of deliver_all]; try (apply Hfr; exact I).
  cbn [deliver app]. clear Hfr Hch.
  induction ns as [|b ns IHn]; cbn [noise_events app]; [auto|].
  cbn [Reader.interp Reader.outcome_of on_outcome]. exact IHn.
Qed.

(* ================================================================== *)
(* The reader theorems about file_read_all *)
Notation run := (file_read_all parse nmea_hdr).
Notation ppo := (parse_protocol_only parse).

Definition events (s : bytes) : list (tev * bytes) := fst (trace (Datatypes.S (length s)) s).

Lemma run_interp c s :
  run c s = interp parse c (events s) (TEof []) /\
  Forall (fun x => frame_ev nmea_hdr (fst x)) (events s) /\ chain s (events s).
Proof.
  unfold file_read_all, events. rewrite read_all_interp.
  destruct (trace (Datatypes.S (length s)) s) as [l e] eqn:E.
  destruct (trace_file_spec _ s l e (Nat.lt_succ_diag_r _) E) as (-> & Hf & Hc).
  auto.
Qed.

Lemma interp_eof_fuel c (l : list (tev * bytes)) s0 : out_of_fuel (interp parse c l (TEof s0)) = false.
Proof.
  induction l as [|[t s'] l IH]; [reflexivity|]. cbn [Reader.interp].
  destruct (outcome_of parse c t); cbn [on_outcome];
    repeat (match goal with |- context [if ?b then _ else _] => destruct b end); cbn; auto.
Qed.

(* C08 (reader half): iteration terminates — the fuel |s|+1 is never exhausted *)
Theorem c08_read_terminates c s : out_of_fuel (run c s) = false.
Proof. destruct (run_interp c s) as (-> & _). apply interp_eof_fuel. Qed.

(* C07 *)
Theorem c07_slices c s :
  slices (map fst (items (run c s))) s /\ Forall first_is_preamble (map fst (items (run c s))).
Proof. destruct (run_interp c s) as (-> & _ & Hc). now apply interp_slices. Qed.

(* each delivered raw begins with a complete UBX, NMEA or RTCM3 preamble (two bytes) *)
Lemma interp_protocols c (l : list (tev * bytes)) e :
  Forall (fun x => frame_ev nmea_hdr (fst x)) l ->
  Forall (fun it => let p := protocol nmea_hdr (fst it) in p = 1 \/ p = 2 \/ p = 4) (items (interp parse c l e)).
Proof.
  induction 1 as [|[t s'] l Ht Hl IH]; cbn [Reader.interp]; [destruct e; constructor|].
  cbn [fst] in Ht. destruct t as [p raw| |x]; cbn [Reader.outcome_of].
  - destruct Ht as [Hp Hpr]. destruct (passes c p); [|exact IH].
    assert (Hd: forall v, Forall (fun it => let p0 := protocol nmea_hdr (fst it) in p0 = 1 \/ p0 = 2 \/ p0 = 4)
                                 (items (add_item (raw, v) (interp parse c l e)))).
    { intros v. cbn [add_item items]. constructor; [cbn [fst]; rewrite Hpr; exact Hp|exact IH]. }
    destruct (parsing c); [|apply Hd].
    destruct (parse p raw) as [v|x]; [apply Hd|].
    destruct (classify_cases (P:=P) x) as [-> | [-> | ->]]; cbn [on_outcome];
      repeat (match goal with |- context [if ?b then _ else _] => destruct b end);
      cbn [stop add_report items]; try constructor; exact IH.
  - exact IH.
  - destruct (classify_cases (P:=P) x) as [-> | [-> | ->]]; cbn [on_outcome];
      repeat (match goal with |- context [if ?b then _ else _] => destruct b end);
      cbn [stop add_report items]; try constructor; exact IH.
Qed.

Theorem c07_preambles c s :
  Forall (fun it => let p := protocol nmea_hdr (fst it) in p = 1 \/ p = 2 \/ p = 4) (items (run c s)).
Proof. destruct (run_interp c s) as (-> & Hf & _). now apply interp_protocols. Qed.

Lemma interp_quiet_end c (l : list (tev * bytes)) :
  ppo -> quiet_cfg c -> Forall (fun x => frame_ev nmea_hdr (fst x)) l ->
  raised (interp parse c l (TEof [])) = None /\ final (interp parse c l (TEof [])) = [].
Proof.
  intros Hp Hq Hl. induction Hl as [|[t s'] l Ht Hl IH]; [split; reflexivity|].
  destruct (interp_cons_quiet c t s' l (TEof []) Hp Hq Ht) as (_ & E2 & _ & E4).
  unfold bytes in *. rewrite E2, E4. exact IH.
Qed.

Theorem c07_eof_exact c s : ppo -> quitonerror c <> 2 ->
  raised (run c s) = None /\ final (run c s) = [].
Proof. intros Hp Hq. destruct (run_interp c s) as (-> & Hf & _). now apply interp_quiet_end. Qed.

(* C08: what can be raised *)
Lemma interp_raised_protocol c (l : list (tev * bytes)) e x :
  ppo -> Forall (fun x => frame_ev nmea_hdr (fst x)) l ->
  raised (interp parse c l e) = Some x -> is_protocol_exn x = true /\ quitonerror c = 2.
Proof.
  intros Hp Hl. induction Hl as [|[t s'] l Ht Hl IH]; [destruct e; discriminate|].
  cbn [Reader.interp].
  assert (Hrej: forall y, is_protocol_exn y = true ->
     raised (on_outcome c (classify y) s' (interp parse c l e)) = Some x -> is_protocol_exn x = true /\ quitonerror c = 2).
  { intros y Hy. rewrite (classify_protocol y Hy). cbn [on_outcome].
    destruct (N.eqb_spec (quitonerror c) 2) as [E2|E2].
    - cbn. intros H; injection H as <-. auto.
    - destruct (quitonerror c =? 1); cbn [add_report raised]; exact IH. }
  destruct t as [p raw| |y]; cbn [Reader.outcome_of].
  - destruct (passes c p); [|exact IH]. destruct (parsing c); [|exact IH].
    destruct (parse p raw) as [v|y] eqn:Epr; [exact IH|]. apply Hrej. eapply Hp; eauto.
  - exact IH.
  - apply Hrej. cbn [fst frame_ev] in Ht. destruct Ht as [-> | ->]; reflexivity.
Qed.

Theorem c08_read_raise_family c s x : ppo -> raised (run c s) = Some x ->
  is_protocol_exn x = true /\ quitonerror c = 2.
Proof. intros Hp. destruct (run_interp c s) as (-> & Hf & _). now apply interp_raised_protocol. Qed.

(* C09 *)
Theorem c09_prefix c s k : ppo -> quitonerror c <> 2 ->
  prefix (items (run c (firstn k s))) (items (run c s)).
Proof.
  intros Hp Hq. unfold file_read_all. rewrite !read_all_interp.
  rewrite (trace_fuel_irrel (Datatypes.S (length (firstn k s))) (Datatypes.S (length s)) (firstn k s))
    by (rewrite ?firstn_length; lia).
  apply trace_prefix_items; auto.
Qed.

(* C06 *)
Theorem c06_clean c cs : Forall (wf_chunk nmea_hdr) cs -> ppo -> quitonerror c <> 2 ->
  items (run c (flatten cs)) = deliver_all c cs /\
  raised (run c (flatten cs)) = None /\ final (run c (flatten cs)) = [].
Proof.
  intros Hw Hp Hq. unfold file_read_all. rewrite read_all_interp.
  rewrite (trace_clean cs Hw) by lia.
  destruct (interp_clean c cs Hw Hp Hq) as (E1 & E2 & E3 & _). auto.
Qed.

Lemma flatten_app a b : flatten (a ++ b) = flatten a ++ flatten b.
Proof. unfold flatten. now rewrite map_app, concat_app. Qed.

(* C09: every frame lying wholly before the cut is delivered *)
Theorem c09_clean c cs1 cs2 k : Forall (wf_chunk nmea_hdr) cs1 -> ppo -> quitonerror c <> 2 ->
  (length (flatten cs1) <= k)%nat ->
  prefix (deliver_all c cs1) (items (run c (firstn k (flatten (cs1 ++ cs2))))).
Proof.
  intros Hw Hp Hq Hk.
  destruct (c06_clean c cs1 Hw Hp Hq) as (<- & _).
  set (S0 := firstn k (flatten (cs1 ++ cs2))).
  assert (E: flatten cs1 = firstn (length (flatten cs1)) S0).
  { subst S0. rewrite firstn_firstn, Nat.min_l by exact Hk.
    rewrite flatten_app, firstn_app, Nat.sub_diag, firstn_O, app_nil_r, firstn_all. reflexivity. }
  rewrite E at 1. apply c09_prefix; assumption.
Qed.

(* C11 *)
Theorem c11_filter c F s : ppo -> quitonerror c <> 2 ->
  items (run (withpf c F) s) =
  filter (fun it => negb (N.land F (protocol nmea_hdr (fst it)) =? 0)) (items (run (withpf c 7) s)).
Proof.
  intros Hp Hq.
  destruct (run_interp (withpf c F) s) as (-> & Hf & _).
  destruct (run_interp (withpf c 7) s) as (-> & _ & _).
  now apply interp_filter.
Qed.

Theorem c11_parsing_off c s :
  Forall (fun x => match fst x with
                   | TFrame p raw => passes c p = true -> exists v, parse p raw = Ok v
                   | _ => True end) (events s) ->
  map fst (items (run (withparsing c false) s)) = map fst (items (run (withparsing c true) s)) /\
  Forall (fun it => snd it = None) (items (run (withparsing c false) s)).
Proof.
  intros H.
  destruct (run_interp (withparsing c false) s) as (-> & _ & _).
  destruct (run_interp (withparsing c true) s) as (-> & _ & _).
  now apply interp_parsing_off.
Qed.

(* C12 *)
Theorem c12_ignore_log c s : items (run (withqe c 0) s) = items (run (withqe c 1) s).
Proof.
  destruct (run_interp (withqe c 0) s) as (-> & _ & _).
  destruct (run_interp (withqe c 1) s) as (-> & _ & _).
  apply interp_ignore_log.
Qed.

Theorem c12_handler c s :
  reports (run (withqe c 1) s) = rejections parse c (events s) /\ reports (run (withqe c 0) s) = [].
Proof.
  destruct (run_interp (withqe c 0) s) as (-> & _ & _).
  destruct (run_interp (withqe c 1) s) as (-> & _ & _).
  apply interp_log_reports.
Qed.

Theorem c12_raise c s :
  (items (run (withqe c 2) s), raised (run (withqe c 2) s)) = upto_reject parse c (events s) /\
  reports (run (withqe c 2) s) = [] /\
  exists rest, items (run (withqe c 0) s) = fst (upto_reject parse c (events s)) ++ rest /\
               (snd (upto_reject parse c (events s)) = None -> rest = []).
Proof.
  destruct (run_interp (withqe c 2) s) as (-> & _ & _).
  destruct (run_interp (withqe c 0) s) as (-> & _ & _).
  destruct (interp_raise parse c (events s) (TEof [])) as [E1 E2].
  split; [exact E1|]. split; [exact E2|]. apply upto_reject_prefix.
Qed.


End F.

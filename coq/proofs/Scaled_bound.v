(* Scaled_bound.v — the scaled round trip stays within one unit of resolution (C03 / C15).
   parse: v = round(raw * s, 12); build: int(v / s).  For every raw value of at most 32 bits and every scale
   s >= 1e-12 (every float scale of the shipped tables except the recorded sub-1e-12 ones) the rebuilt integer
   differs from raw by at most 1.  Real-number error analysis over Flocq: the model's SpecFloat operations are
   Flocq's correctly rounded operations (Bmult_correct_aux, Bdiv_correct_aux, binary_normalize_correct through
   Flocq's own SpecFloat equivalence lemmas), each rounding is x(1+eps)+eta with |eps| <= 2^-53.
   AXIOMS (all from the Coq standard library's real numbers, via Flocq): ClassicalDedekindReals.sig_not_dec,
   ClassicalDedekindReals.sig_forall_dec, FunctionalExtensionality.functional_extensionality_dep,
   Classical_Prop.classic. *)
From Coq Require Import ZArith Reals Lia Lra Psatz Floats.SpecFloat.
From Flocq Require Import Core.Core IEEE754.BinarySingleNaN.
From PyUbx Require Import Base PyFloat Types Walk Consts Tables Flocq_bridge.
Open Scope R_scope.

Definition R_of (f : fl) : R := SF2R radix2 f.
Notation fexp64 := (FLT_exp (3 - 1024 - 53) 53).
Notation RN := (round radix2 fexp64 ZnearestE).

#[local] Instance Hprec : Prec_gt_0 53 := eq_refl.
#[local] Instance Hmax : Prec_lt_emax 53 1024 := eq_refl.

Definition fin (f : fl) : Prop := is_finite_SF f = true /\ valid_binary 53 1024 f = true.

Lemma aux_equiv sx mx ex lx :
  SpecFloat.binary_round_aux 53 1024 sx mx ex lx = binary_round_aux 53 1024 mode_NE sx mx ex lx.
Proof. exact (aux_equiv' 53 1024 sx mx ex lx). Qed.

Lemma fexp_eq : fexp 53 1024 = fexp64.
Proof. reflexivity. Qed.

(* ---- multiplication ---- *)
Lemma fmul_fin a b : fin a -> fin b ->
  let z := fmul a b in
  (fin z /\ R_of z = RN (R_of a * R_of b)) \/ (exists s, z = S754_infinity s).
Proof.
  intros [Fa Va] [Fb Vb]. unfold fmul.
  destruct a as [sa|sa| |sa ma ea]; try discriminate; destruct b as [sb|sb| |sb mb eb]; try discriminate; cbn [SFmul].
  - left. split; [split; reflexivity|]. unfold R_of. cbn. rewrite Rmult_0_l, round_0; auto with typeclass_instances.
  - left. split; [split; reflexivity|]. unfold R_of. cbn. rewrite Rmult_0_l, round_0; auto with typeclass_instances.
  - left. split; [split; reflexivity|]. unfold R_of. cbn. rewrite Rmult_0_r, round_0; auto with typeclass_instances.
  - change PyFloat.prec with 53%Z. change PyFloat.emax with 1024%Z. rewrite aux_equiv.
    cbn [valid_binary] in Va, Vb.
    pose proof (Bmult_correct_aux 53 1024 _ _ mode_NE sa ma ea Va sb mb eb Vb) as H.
    cbv zeta in H. destruct H as [Hv H].
    destruct (Rlt_bool _ _) eqn:E.
    + destruct H as (Hr & Hf & _). left. split; [split; assumption|]. unfold R_of. rewrite Hr. reflexivity.
    + right. rewrite H. unfold binary_overflow. cbn. eexists. reflexivity.
Qed.

(* ---- division ---- *)
Lemma R_of_finite s m e : R_of (S754_finite s m e) = F2R (Float radix2 (cond_Zopp s (Zpos m)) e).
Proof. reflexivity. Qed.

Lemma fdiv_fin a b z : fin a -> fin b -> fdiv a b = Ok z ->
  (fin z /\ R_of z = RN (R_of a / R_of b)) \/ (exists s, z = S754_infinity s).
Proof.
  intros [Fa Va] [Fb Vb]. unfold fdiv.
  destruct (is_fzero b) eqn:Zb; [discriminate|]. intros H. injection H as <-.
  destruct b as [sb|sb| |sb mb eb]; try discriminate.
  destruct a as [sa|sa| |sa ma ea]; try discriminate; cbn [SFdiv].
  - left. split; [split; reflexivity|]. unfold R_of at 1 2. cbn [SF2R]. unfold Rdiv. rewrite Rmult_0_l, round_0; auto with typeclass_instances.
  - change PyFloat.prec with 53%Z. change PyFloat.emax with 1024%Z.
    pose proof (Bdiv_correct_aux 53 1024 _ _ mode_NE sa ma ea sb mb eb) as H.
    cbv zeta in H.
    destruct (SFdiv_core_binary 53 1024 (Z.pos ma) ea (Z.pos mb) eb) as [[mz ez] lz].
    rewrite aux_equiv. destruct H as [Hv H].
    destruct (Rlt_bool _ _) eqn:E.
    + destruct H as (Hr & Hf & _). left. split; [split; assumption|]. unfold R_of. rewrite Hr. reflexivity.
    + right. rewrite H. unfold binary_overflow. cbn. eexists. reflexivity.
Qed.

(* ---- int / int and the decimal -> binary step of round(x, 12): positive integers, exponent 0 ---- *)
Lemma divpos_fin s (n d : positive) :
  let '(mz, ez, lz) := SFdiv_core_binary 53 1024 (Zpos n) 0 (Zpos d) 0 in
  let z := SpecFloat.binary_round_aux 53 1024 s mz ez lz in
  (fin z /\ R_of z = RN ((if s then -1 else 1) * (IZR (Zpos n) / IZR (Zpos d)))) \/ (exists s', z = S754_infinity s').
Proof.
  pose proof (Bdiv_correct_aux 53 1024 _ _ mode_NE s n 0 false d 0) as H. cbv zeta in H.
  destruct (SFdiv_core_binary 53 1024 (Z.pos n) 0 (Z.pos d) 0) as [[mz ez] lz].
  rewrite aux_equiv. rewrite Bool.xorb_false_r in H. destruct H as [Hv H].
  replace (F2R {| Fnum := cond_Zopp s (Z.pos n); Fexp := 0 |} / F2R {| Fnum := cond_Zopp false (Z.pos d); Fexp := 0 |})
    with ((if s then -1 else 1) * (IZR (Zpos n) / IZR (Zpos d))) in H.
  2:{ unfold F2R. cbn [Fnum Fexp bpow cond_Zopp]. destruct s; cbn [cond_Zopp]; [rewrite opp_IZR|]; field;
      apply not_0_IZR; discriminate. }
  destruct (Rlt_bool _ _) eqn:E.
  - destruct H as (Hr & Hf & _). left. split; [split; assumption|]. exact Hr.
  - right. rewrite H. unfold binary_overflow. cbn. eexists. reflexivity.
Qed.

(* ---- round half even of a non-negative rational ---- *)
From Coq Require Import ZifyBool.
Lemma rhe_spec num den : (0 < den)%Z -> (0 <= num)%Z ->
  (0 <= rhe num den /\ 2 * Z.abs (rhe num den * den - num) <= den)%Z.
Proof.
  intros Hd Hn. unfold rhe.
  pose proof (Z.div_mod num den ltac:(lia)) as Hdm.
  pose proof (Z.mod_pos_bound num den Hd) as Hm.
  assert (0 <= num / den)%Z by (apply Z.div_pos; lia).
  destruct (Z.compare_spec (2 * (num mod den)) den) as [E|E|E]; [destruct (Z.even (num / den))| |]; nia.
Qed.

Lemma IZR_pow2 e : (0 <= e)%Z -> IZR (2 ^ e) = bpow radix2 e.
Proof. exact (IZR_Zpower radix2 e). Qed.

Lemma F2R_neg_exp (m : Z) (e : Z) : (e < 0)%Z -> F2R (Float radix2 m e) = IZR m / IZR (2 ^ (- e)).
Proof.
  intros He. unfold F2R. cbn [Fnum Fexp]. rewrite <- (Z.opp_involutive e) at 1. rewrite bpow_opp.
  rewrite <- IZR_pow2 by lia. reflexivity.
Qed.
Lemma F2R_pos_exp (m : Z) (e : Z) : (0 <= e)%Z -> F2R (Float radix2 m e) = IZR (m * 2 ^ e).
Proof.
  intros He. unfold F2R. cbn [Fnum Fexp]. rewrite mult_IZR. rewrite <- IZR_pow2 by lia. reflexivity.
Qed.

Lemma abs_div_le a den b : 0 < den -> Rabs a <= b * den -> Rabs (a / den) <= b.
Proof.
  intros Hd H. unfold Rdiv. rewrite Rabs_mult. rewrite (Rabs_pos_eq (/ den)) by (left; apply Rinv_0_lt_compat; lra).
  apply Rle_trans with (b * den * / den); [apply Rmult_le_compat_r; [left; apply Rinv_0_lt_compat; lra|exact H]|right; field; lra].
Qed.

Definition ten12 : R := IZR (10 ^ 12).

Lemma round12_fin y v : fin y -> py_round_nd 12 y = Ok v ->
  fin v /\ exists d, Rabs (d - R_of y) <= / 2 * / ten12 /\ R_of v = RN d.
Proof.
  intros [Fy Vy]. destruct y as [sy|sy| |s m e]; try discriminate; cbn [py_round_nd].
  - intros H. injection H as <-. split; [split; reflexivity|]. exists 0. unfold R_of. cbn [SF2R].
    rewrite round_0 by auto with typeclass_instances. split; [|reflexivity].
    rewrite Rminus_0_r, Rabs_R0. unfold ten12. apply Rmult_le_pos; [lra|]. left. apply Rinv_0_lt_compat. apply IZR_lt. lia.
  - set (p10 := (10 ^ 12)%Z).
    set (n := if (0 <=? e)%Z then (Z.pos m * 2 ^ e * p10)%Z else rhe (Z.pos m * p10) (2 ^ (- e))).
    assert (Hp10 : (0 < p10)%Z) by (subst p10; lia).
    assert (Hn : (0 <= n)%Z /\ Rabs (IZR n - IZR (Zpos m) * bpow radix2 e * IZR p10) <= / 2).
    { subst n. destruct (0 <=? e)%Z eqn:Ee.
      - assert (0 <= e)%Z by lia. split; [nia|].
        rewrite !mult_IZR. rewrite IZR_pow2 by lia. rewrite Rminus_diag_eq by reflexivity. rewrite Rabs_R0. lra.
      - assert (He : (e < 0)%Z) by lia.
        assert (Hden : (0 < 2 ^ (- e))%Z) by (apply Z.pow_pos_nonneg; lia).
        destruct (rhe_spec (Z.pos m * p10) (2 ^ (- e)) Hden ltac:(lia)) as [H0 H1]. split; [exact H0|].
        set (r := rhe (Z.pos m * p10) (2 ^ (- e))) in *. set (den := (2 ^ (- e))%Z) in *.
        replace (bpow radix2 e) with (/ IZR den).
        2:{ subst den. rewrite <- (Z.opp_involutive e) at 2. rewrite bpow_opp. rewrite IZR_pow2 by lia. reflexivity. }
        assert (Hd : 0 < IZR den) by (apply IZR_lt; lia).
        apply IZR_le in H1. rewrite mult_IZR, abs_IZR, minus_IZR, !mult_IZR in H1.
        replace (IZR r - IZR (Z.pos m) * / IZR den * IZR p10) with ((IZR r * IZR den - IZR (Z.pos m) * IZR p10) / IZR den) by (field; lra).
        apply abs_div_le; [exact Hd|]. lra. }
    destruct Hn as [Hn0 Hn1].
    destruct (n =? 0)%Z eqn:En.
    + intros H. injection H as <-. split; [split; reflexivity|].
      exists 0. unfold R_of at 2. cbn [SF2R]. rewrite round_0 by auto with typeclass_instances. split; [|reflexivity].
      assert (n = 0)%Z by lia. rewrite H in Hn1. rewrite R_of_finite. unfold F2R. cbn [Fnum Fexp].
      assert (Ht : 0 < ten12) by (unfold ten12; apply IZR_lt; lia).
      replace (0 - IZR (cond_Zopp s (Z.pos m)) * bpow radix2 e) with (- (IZR (cond_Zopp s (Z.pos m)) * bpow radix2 e)) by ring.
      rewrite Rabs_Ropp. rewrite Rabs_mult. rewrite <- abs_IZR. rewrite abs_cond_Zopp. cbn [Z.abs].
      rewrite (Rabs_pos_eq (bpow radix2 e)) by apply bpow_ge_0.
      replace (0 - IZR (Z.pos m) * bpow radix2 e * IZR p10) with (- (IZR (Z.pos m) * bpow radix2 e * IZR p10)) in Hn1 by ring.
      rewrite Rabs_Ropp in Hn1. rewrite Rabs_pos_eq in Hn1.
      2:{ apply Rmult_le_pos; [apply Rmult_le_pos; [apply IZR_le; lia|apply bpow_ge_0]|apply IZR_le; lia]. }
      change (IZR p10) with ten12 in Hn1. apply Rmult_le_reg_r with ten12; [exact Ht|].
      replace (/ 2 * / ten12 * ten12) with (/ 2) by (field; lra). lra.
    + destruct n as [|pn|pn] eqn:Enn; [lia| |lia].
      pose proof (divpos_fin s pn (Z.to_pos p10)) as H.
      replace (Z.pos (Z.to_pos p10)) with p10 in H by (subst p10; reflexivity).
      change PyFloat.prec with 53%Z. change PyFloat.emax with 1024%Z.
      destruct (SFdiv_core_binary 53 1024 (Z.pos pn) 0 p10 0) as [[mz ez] lz].
      destruct H as [[Hf Hr]|[s' Hinf]].
      * destruct (is_inf _) eqn:Ei.
        { destruct Hf as [Hf _]. destruct (SpecFloat.binary_round_aux 53 1024 s mz ez lz); discriminate. }
        intros H. injection H as <-. split; [exact Hf|].
        eexists. split; [|exact Hr].
        rewrite R_of_finite. unfold F2R. cbn [Fnum Fexp]. change (IZR p10) with ten12 in *.
        assert (Ht : 0 < ten12) by (unfold ten12; apply IZR_lt; lia).
        replace ((if s then -1 else 1) * (IZR (Z.pos pn) / ten12) - IZR (cond_Zopp s (Z.pos m)) * bpow radix2 e)
          with ((if s then -1 else 1) * ((IZR (Z.pos pn) - IZR (Z.pos m) * bpow radix2 e * ten12) / ten12)).
        2:{ destruct s; cbn [cond_Zopp]; [rewrite opp_IZR|]; field; lra. }
        rewrite Rabs_mult. replace (Rabs (if s then -1 else 1)) with 1 by (destruct s; [rewrite Rabs_left|rewrite Rabs_pos_eq]; lra).
        rewrite Rmult_1_l. apply abs_div_le; [exact Ht|].
        replace (/ 2 * / ten12 * ten12) with (/ 2) by (field; lra). exact Hn1.
      * rewrite Hinf. cbn [is_inf]. discriminate.
Qed.

(* ---- float(int) is exact below 2^53 ---- *)
Lemma f_of_Z_fin z : (Z.abs z < 2 ^ 53)%Z -> fin (f_of_Z z) /\ R_of (f_of_Z z) = IZR z.
Proof.
  intros Hz. unfold f_of_Z. change PyFloat.prec with 53%Z. change PyFloat.emax with 1024%Z.
  rewrite (normalize_equiv' 53 1024 Hprec Hmax z 0 false).
  pose proof (binary_normalize_correct 53 1024 Hprec Hmax mode_NE z 0 false) as H. cbv zeta in H.
  set (b := binary_normalize 53 1024 Hprec Hmax mode_NE z 0 false) in *.
  assert (Hx : F2R (Float radix2 z 0) = IZR z) by (unfold F2R; cbn; ring).
  rewrite Hx in H.
  assert (Hg : generic_format radix2 (fexp 53 1024) (IZR z)).
  { rewrite <- Hx. apply generic_format_FLT. exists (Float radix2 z 0); [reflexivity| |]; cbn [Fnum Fexp].
    - change (radix2 ^ 53)%Z with (2 ^ 53)%Z. exact Hz.
    - unfold emin. lia. }
  rewrite round_generic in H by (auto with typeclass_instances).
  rewrite Rlt_bool_true in H.
  2:{ rewrite <- abs_IZR. change (bpow radix2 1024) with (IZR (2 ^ 1024)). apply IZR_lt.
      apply Z.lt_trans with (1 := Hz). apply Z.pow_lt_mono_r; lia. }
  destruct H as (Hr & Hf & _). split.
  - split; [rewrite is_finite_SF_B2SF; exact Hf|apply valid_binary_B2SF].
  - unfold R_of. rewrite SF2R_B2SF. exact Hr.
Qed.

(* ---- int(float) truncates ---- *)
Lemma int_of_float_fin w : fin w -> py_int_of_float w = Ok (Ztrunc (R_of w)).
Proof.
  intros [Fw _]. destruct w as [s|s| |s m e]; try discriminate; cbn [py_int_of_float].
  - unfold R_of. cbn [SF2R]. now rewrite Ztrunc_IZR.
  - f_equal. rewrite R_of_finite. destruct (0 <=? e)%Z eqn:Ee.
    + rewrite F2R_pos_exp by lia. rewrite Ztrunc_IZR. destruct s; cbn [cond_Zopp]; lia.
    + assert (He : (e < 0)%Z) by lia. rewrite F2R_neg_exp by exact He.
      assert (Hden : (0 < 2 ^ (- e))%Z) by (apply Z.pow_pos_nonneg; lia).
      destruct s; cbn [cond_Zopp].
      * rewrite opp_IZR. unfold Rdiv. rewrite Ropp_mult_distr_l_reverse. rewrite Ztrunc_opp.
        f_equal. rewrite Ztrunc_floor.
        2:{ apply Rmult_le_pos; [apply IZR_le; lia|left; apply Rinv_0_lt_compat; apply IZR_lt; lia]. }
        symmetry. apply (Zfloor_div (Z.pos m) (2 ^ (- e))). lia.
      * rewrite Ztrunc_floor.
        2:{ apply Rmult_le_pos; [apply IZR_le; lia|left; apply Rinv_0_lt_compat; apply IZR_lt; lia]. }
        symmetry. apply (Zfloor_div (Z.pos m) (2 ^ (- e))). lia.
Qed.


Lemma abs_mul a b A B : Rabs a <= A -> Rabs b <= B -> Rabs (a * b) <= A * B.
Proof.
  intros Ha Hb. rewrite Rabs_mult. apply Rmult_le_compat; auto using Rabs_pos.
Qed.
Lemma abs_add a b A B : Rabs a <= A -> Rabs b <= B -> Rabs (a + b) <= A + B.
Proof. intros Ha Hb. eapply Rle_trans; [apply Rabs_triang|lra]. Qed.
Lemma abs_1p e u : Rabs e <= u -> Rabs (1 + e) <= 1 + u.
Proof. intros H. apply abs_add; [rewrite Rabs_pos_eq; lra|exact H]. Qed.

Definition u53 : R := / 9007199254740992.
Definition tiny : R := 1 / 10 ^ 300.

Lemma core x T e1 e2 e3 h1 h2 h3 th :
  Rabs x <= 4294967296 -> 0 <= T <= 1000000000000 ->
  Rabs e1 <= u53 -> Rabs e2 <= u53 -> Rabs e3 <= u53 ->
  Rabs h1 <= tiny -> Rabs h2 <= tiny -> Rabs h3 <= tiny ->
  Rabs th <= 5 / 10 ^ 13 ->
  Rabs (x * ((1 + e1) * (1 + e2) * (1 + e3) - 1) + (h1 + th) * (1 + e2) * (1 + e3) * T + h2 * (1 + e3) * T + h3) < 1.
Proof.
  intros Hx HT H1 H2 H3 G1 G2 G3 Hth.
  assert (Hu : 0 < u53 <= / 1000000000000000) by (unfold u53; lra).
  assert (Ht : 0 < tiny <= / 1000000000000000000000000000000).
  { unfold tiny. split.
    - apply Rdiv_lt_0_compat; [lra|]. apply pow_lt. lra.
    - replace (1 / 10 ^ 300) with (/ 10 ^ 300) by (unfold Rdiv; ring).
      apply Rinv_le_contravar; [lra|].
      replace 1000000000000000000000000000000 with (10 ^ 30) by lra.
      apply Rle_pow; [lra|]. repeat constructor. }
  assert (HTa : Rabs T <= 1000000000000) by (rewrite Rabs_pos_eq; lra).
  set (p := (1 + e1) * (1 + e2) - 1).
  assert (Hp : Rabs p <= 3 * u53).
  { replace p with (e1 + e2 + e1 * e2) by (unfold p; ring).
    eapply Rle_trans; [apply abs_add; [apply abs_add; [exact H1|exact H2]|apply abs_mul; [exact H1|exact H2]]|]. nra. }
  set (A := (1 + e1) * (1 + e2) * (1 + e3) - 1).
  assert (HA : Rabs A <= 5 * u53).
  { replace A with (p + e3 + p * e3) by (unfold A, p; ring).
    eapply Rle_trans; [apply abs_add; [apply abs_add; [exact Hp|exact H3]|apply abs_mul; [exact Hp|exact H3]]|]. nra. }
  assert (HxA : Rabs (x * A) <= 4294967296 * (5 * u53)) by (apply abs_mul; assumption).
  assert (HB : Rabs ((h1 + th) * (1 + e2) * (1 + e3) * T) <= (tiny + 5 / 10 ^ 13) * (1 + u53) * (1 + u53) * 1000000000000).
  { apply abs_mul; [apply abs_mul; [apply abs_mul; [apply abs_add; assumption|apply abs_1p; assumption]|apply abs_1p; assumption]|exact HTa]. }
  assert (HC : Rabs (h2 * (1 + e3) * T) <= tiny * (1 + u53) * 1000000000000).
  { apply abs_mul; [apply abs_mul; [assumption|apply abs_1p; assumption]|exact HTa]. }
  eapply Rle_lt_trans; [apply abs_add; [apply abs_add; [apply abs_add; [exact HxA|exact HB]|exact HC]|exact G3]|].
  assert (E : 5 / 10 ^ 13 = / 2000000000000) by lra. rewrite E.
  unfold u53 in *. nra.
Qed.

(* ---- assembly ---- *)
From Flocq Require Import Relative.

Lemma RN_err t : exists eps eta, Rabs eps <= u53 /\ Rabs eta <= tiny /\ RN t = t * (1 + eps) + eta.
Proof.
  destruct (relative_error_N_FLT'_ex radix2 (3 - 1024 - 53) 53 ltac:(reflexivity) (fun x => negb (Z.even x)) t)
    as (eps & eta & He & Hh & _ & Hr).
  exists eps, eta. split; [|split; [|exact Hr]].
  - eapply Rle_trans; [exact He|]. unfold u_ro. change (bpow radix2 (- (53) + 1)) with (/ IZR (2 ^ 52)).
    unfold u53. 
    assert (H : / 2 * / IZR (2 ^ 52) = / 9007199254740992).
    { change (2 ^ 52)%Z with 4503599627370496%Z. lra. }
    rewrite H. apply Rle_trans with (/ 9007199254740992 / 1); [|lra].
    unfold Rdiv. apply Rmult_le_compat_l; [lra|]. apply Rinv_le_contravar; lra.
  - eapply Rle_trans; [exact Hh|]. unfold tiny.
    change (bpow radix2 (3 - 1024 - 53)) with (/ IZR (2 ^ 1074)).
    replace (1 / 10 ^ 300) with (/ 10 ^ 300) by (unfold Rdiv; ring).
    apply Rle_trans with (/ IZR (2 ^ 1074)).
    + assert (0 < / IZR (2 ^ 1074)) by (apply Rinv_0_lt_compat; apply IZR_lt; reflexivity). lra.
    + apply Rinv_le_contravar; [apply pow_lt; lra|].
      rewrite pow_IZR. apply IZR_le. vm_compute. discriminate.
Qed.

Lemma trunc_near (w : R) (z : Z) : Rabs (w - IZR z) < 1 -> (Z.abs (Ztrunc w - z) <= 1)%Z.
Proof.
  intros H. apply Rabs_def2 in H. destruct H as [H1 H2].
  assert (Hf : (z - 1 <= Zfloor w <= z)%Z).
  { split.
    - apply Zfloor_lub. rewrite minus_IZR. lra.
    - apply Zlt_succ_le. apply lt_IZR. eapply Rle_lt_trans; [apply Zfloor_lb|]. rewrite succ_IZR. lra. }
  assert (Hc : (z <= Zceil w <= z + 1)%Z).
  { split.
    - apply Zlt_succ_le. apply lt_IZR. unfold Z.succ. rewrite plus_IZR.
      pose proof (Zceil_ub w). lra.
    - apply Zceil_glb. rewrite plus_IZR. lra. }
  unfold Ztrunc. destruct (Rlt_bool w 0); lia.
Qed.

(* the scaled round trip of a 4-byte (or narrower) raw value stays within one unit, for every scale >= 1e-12:
   parse: v = round(raw * s, 12); build: int(v / s) *)
Theorem scaled_within_one raw s y v w r :
  (Z.abs raw <= 2 ^ 32)%Z -> fin s -> / ten12 <= R_of s ->
  fmul (f_of_Z raw) s = y -> py_round_nd 12 y = Ok v -> fdiv v s = Ok w -> py_int_of_float w = Ok r ->
  (Z.abs (r - raw) <= 1)%Z.
Proof.
  intros Hraw Fs HS Ey Ev Ew Er.
  assert (Ht : 0 < ten12) by (unfold ten12; apply IZR_lt; reflexivity).
  assert (HS0 : 0 < R_of s) by (eapply Rlt_le_trans; [apply Rinv_0_lt_compat; exact Ht|exact HS]).
  destruct (f_of_Z_fin raw) as [Fx Rx]; [lia|].
  pose proof (fmul_fin (f_of_Z raw) s Fx Fs) as Hy. cbv zeta in Hy. rewrite Ey in Hy.
  assert (Hsz : is_fzero s = false).
  { destruct s as [ss|ss| |ss ms es]; try reflexivity. unfold R_of in HS0. cbn in HS0. lra. }
  destruct Hy as [[Fy Ry]|[sy Hinf]].
  2:{ (* overflow: int() raises *)
      rewrite Hinf in Ev. unfold py_round_nd in Ev. injection Ev as <-. unfold fdiv in Ew. rewrite Hsz in Ew. injection Ew as <-.
      destruct Fs as [Fs _]. destruct s; try discriminate; cbn in Er; discriminate. }
  destruct (round12_fin y v Fy Ev) as (Fv & d & Hd & Rv).
  destruct (fdiv_fin v s w Fv Fs Ew) as [[Fw Rw]|[sw Hinf]].
  2:{ subst w. cbn in Er. discriminate. }
  rewrite (int_of_float_fin w Fw) in Er. injection Er as <-.
  apply trunc_near. rewrite Rw, Rv. rewrite Ry in Hd. rewrite Rx in Hd.
  set (x := IZR raw) in *. set (S := R_of s) in *.
  destruct (RN_err (x * S)) as (e1 & h1 & He1 & Hh1 & E1).
  destruct (RN_err d) as (e2 & h2 & He2 & Hh2 & E2).
  rewrite E1 in Hd. set (th := d - (x * S * (1 + e1) + h1)) in *.
  assert (Ed : d = x * S * (1 + e1) + h1 + th) by (unfold th; ring).
  clearbody th. rewrite E2.
  destruct (RN_err ((d * (1 + e2) + h2) / S)) as (e3 & h3 & He3 & Hh3 & E3). rewrite E3.
  set (T := / S).
  assert (HT : 0 <= T <= 1000000000000).
  { unfold T. split; [left; apply Rinv_0_lt_compat; exact HS0|].
    replace 1000000000000 with (/ / ten12) by (unfold ten12; rewrite Rinv_inv; cbn; lra).
    apply Rinv_le_contravar; [apply Rinv_0_lt_compat; exact Ht|exact HS]. }
  assert (HST : S * T = 1) by (unfold T; field; lra).
  replace ((d * (1 + e2) + h2) / S * (1 + e3) + h3 - x)
    with (x * ((1 + e1) * (1 + e2) * (1 + e3) * (S * T) - 1) + (h1 + th) * (1 + e2) * (1 + e3) * T + h2 * (1 + e3) * T + h3).
  2:{ rewrite Ed. unfold Rdiv. fold T. ring. }
  rewrite HST, Rmult_1_r.
  apply core; try assumption.
  - unfold x. rewrite <- abs_IZR. change 4294967296 with (IZR (2 ^ 32)). apply IZR_le. exact Hraw.
  - eapply Rle_trans; [exact Hd|]. unfold ten12. change (10 ^ 12)%Z with 1000000000000%Z. lra.
Qed.

(* ---- the same at the level of the walk's own operations (single: parse branch, then build branch) ---- *)
Definition scale_ge_1e12 (b : Z) : Prop := fin (b64_of_bits b) /\ / ten12 <= R_of (b64_of_bits b).

Theorem scaled_field_within_one raw b v q z :
  (Z.abs raw <= 2 ^ 32)%Z -> scale_ge_1e12 b ->
  (do m <- py_mul_scale (PInt raw) (SFloat b); py_round12 12 m) = Ok v ->
  py_div_scale v (SFloat b) = Ok q -> py_int_of_float q = Ok z ->
  (Z.abs (z - raw) <= 1)%Z.
Proof.
  intros Hraw [Fs HS] Hv Hq Hz. cbn [py_mul_scale] in Hv. unfold py_float_of_int in Hv.
  destruct (f_of_Z_fin raw) as [[Fx _] _]; [lia|].
  destruct (is_inf (f_of_Z raw)) eqn:Ei; [destruct (f_of_Z raw); discriminate|].
  cbn [bind py_round12] in Hv.
  destruct (py_round_nd 12 (fmul (f_of_Z raw) (b64_of_bits b))) as [vf|] eqn:Ev; [|discriminate].
  cbn [bind] in Hv. injection Hv as <-. cbn [py_div_scale] in Hq.
  exact (scaled_within_one raw (b64_of_bits b) _ vf q z Hraw Fs HS eq_refl Ev Hq Hz).
Qed.

(* decidable side condition on a scale's bit pattern: a positive finite double that is >= 10^-12 *)
Definition scale_okb (b : Z) : bool :=
  match b64_of_bits b with
  | S754_finite false m e =>
      valid_binary 53 1024 (S754_finite false m e) &&
      (if (0 <=? e)%Z then true else (2 ^ (- e) <=? Z.pos m * 10 ^ 12)%Z)
  | _ => false
  end.

Lemma scale_okb_sound b : scale_okb b = true -> scale_ge_1e12 b.
Proof.
  unfold scale_okb, scale_ge_1e12. destruct (b64_of_bits b) as [| | |s m e]; try discriminate.
  destruct s; [discriminate|]. intros H. apply Bool.andb_true_iff in H. destruct H as [Hv Hc].
  split; [split; [reflexivity|exact Hv]|].
  assert (Ht : 0 < ten12) by (unfold ten12; apply IZR_lt; reflexivity).
  rewrite R_of_finite. cbn [cond_Zopp]. destruct (0 <=? e)%Z eqn:Ee.
  - rewrite F2R_pos_exp by lia.
    apply Rle_trans with 1; [rewrite <- Rinv_1; apply Rinv_le_contravar; [lra|]; unfold ten12; apply IZR_le; lia|].
    apply IZR_le. assert (0 < 2 ^ e)%Z by (apply Z.pow_pos_nonneg; lia). nia.
  - assert (He : (e < 0)%Z) by lia. rewrite F2R_neg_exp by exact He.
    assert (Hden : (0 < 2 ^ (- e))%Z) by (apply Z.pow_pos_nonneg; lia).
    apply Z.leb_le in Hc. apply IZR_le in Hc. rewrite mult_IZR in Hc. fold ten12 in Hc.
    assert (Hd : 0 < IZR (2 ^ (- e))) by (apply IZR_lt; exact Hden).
    apply Rmult_le_reg_r with (ten12 * IZR (2 ^ (- e))); [apply Rmult_lt_0_compat; assumption|].
    replace (/ ten12 * (ten12 * IZR (2 ^ (- e)))) with (IZR (2 ^ (- e))) by (field; lra).
    replace (IZR (Z.pos m) / IZR (2 ^ (- e)) * (ten12 * IZR (2 ^ (- e)))) with (IZR (Z.pos m) * ten12) by (field; lra).
    exact Hc.
Qed.

(* every float scale factor that occurs in the shipped payload definitions *)
Fixpoint fscales (d : adef) : list Z :=
  match d with
  | AScaled _ _ (SFloat b) => [b]
  | AGroup _ _ body => (fix go (l : list adef) : list Z := match l with [] => [] | x :: t => (fscales x ++ go t)%list end) body
  | _ => []
  end.
Definition table_fscales : list Z :=
  flat_map (fun e => flat_map fscales (snd e)) (payloads_get ++ payloads_set ++ payloads_poll)%list.

(* the scales below the 12-decimal rounding grain (2^-43 ... : MGA / AID ephemeris fields) are the recorded
   finding KF-C03-small-scale; every other float scale of the tables satisfies the theorem's premise *)
Definition small_scale (b : Z) : bool :=
  match b64_of_bits b with
  | S754_finite false m e => negb (if (0 <=? e)%Z then true else (2 ^ (- e) <=? Z.pos m * 10 ^ 12)%Z)
  | _ => false
  end.
Lemma table_scales_ok : forallb (fun b => scale_okb b || small_scale b) table_fscales = true.
Proof. vm_compute. reflexivity. Qed.
Lemma table_scales_some_ok : Nat.leb 100 (length (filter scale_okb table_fscales)) = true.
Proof. vm_compute. reflexivity. Qed.

Theorem table_scaled_within_one raw b v q z :
  In b table_fscales -> small_scale b = false -> (Z.abs raw <= 2 ^ 32)%Z ->
  (do m <- py_mul_scale (PInt raw) (SFloat b); py_round12 12 m) = Ok v ->
  py_div_scale v (SFloat b) = Ok q -> py_int_of_float q = Ok z ->
  (Z.abs (z - raw) <= 1)%Z.
Proof.
  intros Hin Hs Hraw. pose proof table_scales_ok as H. rewrite forallb_forall in H. specialize (H b Hin).
  rewrite Hs, Bool.orb_false_r in H. apply scale_okb_sound in H. exact (scaled_field_within_one raw b v q z Hraw H).
Qed.

(* ---- the other direction (C15): build, then parse ---- *)

(* bound on W = V / S from the truncated quotient fitting 32 bits *)
Lemma W_bound W q e1 h1 :
  q = W * (1 + e1) + h1 -> Rabs q <= 4294967297 -> Rabs e1 <= u53 -> Rabs h1 <= tiny -> Rabs W <= 8589934592.
Proof.
  intros Eq Hq He Hh.
  assert (Hu : 0 < u53 <= / 1000000000000000) by (unfold u53; lra).
  assert (Ht : Rabs h1 <= 1).
  { eapply Rle_trans; [exact Hh|]. unfold tiny. apply Rle_trans with (1 / 1); [|lra].
    unfold Rdiv. apply Rmult_le_compat_l; [lra|]. apply Rinv_le_contravar; [lra|].
    replace 1 with (10 ^ 0) at 1 by reflexivity. apply Rle_pow; [lra|]. apply Nat.le_0_l. }
  assert (H1 : Rabs (W * (1 + e1)) <= 4294967298).
  { replace (W * (1 + e1)) with (q - h1) by (rewrite Eq; ring).
    eapply Rle_trans; [apply Rabs_triang|]. rewrite Rabs_Ropp. lra. }
  rewrite Rabs_mult in H1.
  assert (H2 : 1 - u53 <= Rabs (1 + e1)).
  { assert (Ha : - u53 <= e1 <= u53) by (apply Rabs_le_inv; exact He). rewrite Rabs_pos_eq; lra. }
  assert (H3 : 0 <= Rabs W) by apply Rabs_pos.
  assert (H4 : Rabs W * (1 - u53) <= 4294967298).
  { eapply Rle_trans; [|exact H1]. apply Rmult_le_compat_l; assumption. }
  nra.
Qed.

Lemma core2 S W e1 e2 e3 h1 h2 h3 th dl :
  0 < S -> Rabs W <= 8589934592 ->
  Rabs e1 <= u53 -> Rabs e2 <= u53 -> Rabs e3 <= u53 ->
  Rabs h1 <= tiny -> Rabs h2 <= tiny -> Rabs h3 <= tiny ->
  Rabs th <= 5 / 10 ^ 13 -> Rabs dl <= 1 ->
  Rabs (S * W * ((1 + e1) * (1 + e2) * (1 + e3) - 1) + (h1 + dl) * S * (1 + e2) * (1 + e3) + (h2 + th) * (1 + e3) + h3)
  <= S * (1 + / 1000) + / ten12.
Proof.
  intros HS HW H1 H2 H3 G1 G2 G3 Hth Hdl.
  assert (Hu : 0 < u53 <= / 1000000000000000) by (unfold u53; lra).
  assert (Ht : 0 < tiny <= / 1000000000000000000000000000000).
  { unfold tiny. split.
    - apply Rdiv_lt_0_compat; [lra|]. apply pow_lt. lra.
    - replace (1 / 10 ^ 300) with (/ 10 ^ 300) by (unfold Rdiv; ring).
      apply Rinv_le_contravar; [lra|].
      replace 1000000000000000000000000000000 with (10 ^ 30) by lra.
      apply Rle_pow; [lra|]. repeat constructor. }
  assert (HSa : Rabs S <= S) by (rewrite Rabs_pos_eq; lra).
  set (p := (1 + e1) * (1 + e2) - 1).
  assert (Hp : Rabs p <= 3 * u53).
  { replace p with (e1 + e2 + e1 * e2) by (unfold p; ring).
    eapply Rle_trans; [apply abs_add; [apply abs_add; [exact H1|exact H2]|apply abs_mul; [exact H1|exact H2]]|]. nra. }
  set (A := (1 + e1) * (1 + e2) * (1 + e3) - 1).
  assert (HA : Rabs A <= 5 * u53).
  { replace A with (p + e3 + p * e3) by (unfold A, p; ring).
    eapply Rle_trans; [apply abs_add; [apply abs_add; [exact Hp|exact H3]|apply abs_mul; [exact Hp|exact H3]]|]. nra. }
  assert (HX : Rabs (S * W * A) <= S * 8589934592 * (5 * u53)) by (apply abs_mul; [apply abs_mul|]; assumption).
  assert (HB : Rabs ((h1 + dl) * S * (1 + e2) * (1 + e3)) <= (tiny + 1) * S * (1 + u53) * (1 + u53)).
  { apply abs_mul; [apply abs_mul; [apply abs_mul; [apply abs_add; assumption|exact HSa]|apply abs_1p; assumption]|apply abs_1p; assumption]. }
  assert (HC : Rabs ((h2 + th) * (1 + e3)) <= (tiny + 5 / 10 ^ 13) * (1 + u53)).
  { apply abs_mul; [apply abs_add; assumption|apply abs_1p; assumption]. }
  eapply Rle_trans; [apply abs_add; [apply abs_add; [apply abs_add; [exact HX|exact HB]|exact HC]|exact G3]|].
  assert (E : 5 / 10 ^ 13 = / 2000000000000) by lra. rewrite E.
  unfold ten12. change (10 ^ 12)%Z with 1000000000000%Z.
  unfold u53 in *. nra.
Qed.

Lemma trunc_err (w : R) : Rabs (IZR (Ztrunc w) - w) <= 1.
Proof.
  unfold Ztrunc. destruct (Rlt_bool w 0).
  - pose proof (Zceil_ub w). assert (IZR (Zceil w) - 1 < w).
    { unfold Zceil. rewrite opp_IZR. pose proof (Zfloor_ub (- w)). lra. }
    apply Rabs_le. lra.
  - pose proof (Zfloor_lb w). pose proof (Zfloor_ub w). apply Rabs_le. lra.
Qed.

(* build then parse: a value v supplied for a scaled field of up to 32 bits comes back within one unit of
   resolution (the scale), up to one part in a thousand of that unit and the 12-decimal rounding grain *)
Theorem build_parse_within_unit vf s q z y v' :
  fin vf -> fin s -> 0 < R_of s ->
  fdiv vf s = Ok q -> py_int_of_float q = Ok z -> (Z.abs z <= 2 ^ 32)%Z ->
  fmul (f_of_Z z) s = y -> py_round_nd 12 y = Ok v' -> is_finite_SF v' = true ->
  Rabs (R_of v' - R_of vf) <= R_of s * (1 + / 1000) + / ten12.
Proof.
  intros Fv Fs HS0 Eq Ez Hz Ey Ev Ffin.
  assert (Ht : 0 < ten12) by (unfold ten12; apply IZR_lt; reflexivity).
  destruct (fdiv_fin vf s q Fv Fs Eq) as [[Fq Rq]|[sq Hinf]].
  2:{ subst q. cbn in Ez. discriminate. }
  rewrite (int_of_float_fin q Fq) in Ez. injection Ez as Ez.
  destruct (f_of_Z_fin z) as [Fx Rx]; [lia|].
  pose proof (fmul_fin (f_of_Z z) s Fx Fs) as Hy. cbv zeta in Hy. rewrite Ey in Hy.
  destruct Hy as [[Fy Ry]|[sy Hinf]].
  2:{ rewrite Hinf in Ev. unfold py_round_nd in Ev. injection Ev as <-. discriminate. }
  destruct (round12_fin y v' Fy Ev) as (Fv' & d & Hd & Rv').
  rewrite Rv'. rewrite Ry, Rx in Hd.
  set (S := R_of s) in *. set (V := R_of vf) in *.
  destruct (RN_err (V / S)) as (e1 & h1 & He1 & Hh1 & E1). rewrite E1 in Rq.
  destruct (RN_err (IZR z * S)) as (e2 & h2 & He2 & Hh2 & E2). rewrite E2 in Hd.
  destruct (RN_err d) as (e3 & h3 & He3 & Hh3 & E3). rewrite E3.
  set (th := d - (IZR z * S * (1 + e2) + h2)) in *.
  assert (Ed : d = IZR z * S * (1 + e2) + h2 + th) by (unfold th; ring). clearbody th.
  set (W := V / S) in *.
  set (dl := IZR z - R_of q).
  assert (Hdl : Rabs dl <= 1) by (unfold dl; rewrite <- Ez; apply trunc_err).
  assert (HW : Rabs W <= 8589934592).
  { apply (W_bound W (R_of q) e1 h1 Rq); [|assumption|assumption].
    replace (R_of q) with (IZR z - dl) by (unfold dl; ring).
    eapply Rle_trans; [apply Rabs_triang|]. rewrite Rabs_Ropp.
    assert (Rabs (IZR z) <= 4294967296) by (rewrite <- abs_IZR; change 4294967296 with (IZR (2 ^ 32)); apply IZR_le; exact Hz). lra. }
  assert (EV : V = W * S) by (unfold W; field; lra).
  assert (Ezr : IZR z = W * (1 + e1) + h1 + dl) by (unfold dl; rewrite Rq; ring).
  replace (d * (1 + e3) + h3 - V)
    with (S * W * ((1 + e1) * (1 + e2) * (1 + e3) - 1) + (h1 + dl) * S * (1 + e2) * (1 + e3) + (h2 + th) * (1 + e3) + h3)
    by (rewrite Ed, Ezr, EV; ring).
  apply core2; try assumption.
  eapply Rle_trans; [exact Hd|]. unfold ten12. change (10 ^ 12)%Z with 1000000000000%Z. lra.
Qed.


Theorem scaled_build_parse_within_unit vf b q z v' :
  fin vf -> fin (b64_of_bits b) -> 0 < R_of (b64_of_bits b) ->
  py_div_scale (PFloat vf) (SFloat b) = Ok q -> py_int_of_float q = Ok z -> (Z.abs z <= 2 ^ 32)%Z ->
  (do m <- py_mul_scale (PInt z) (SFloat b); py_round12 12 m) = Ok (PFloat v') -> is_finite_SF v' = true ->
  Rabs (R_of v' - R_of vf) <= R_of (b64_of_bits b) * (1 + / 1000) + / ten12.
Proof.
  intros Fv Fs HS Hq Hz Hr Hv Hfin. cbn [py_div_scale] in Hq. cbn [py_mul_scale] in Hv. unfold py_float_of_int in Hv.
  destruct (f_of_Z_fin z) as [[Fx _] _]; [lia|].
  destruct (is_inf (f_of_Z z)) eqn:Ei; [destruct (f_of_Z z); discriminate|].
  cbn [bind py_round12] in Hv.
  destruct (py_round_nd 12 (fmul (f_of_Z z) (b64_of_bits b))) as [vv|] eqn:Ev; [|discriminate].
  cbn [bind] in Hv. injection Hv as <-.
  exact (build_parse_within_unit vf (b64_of_bits b) q z _ vv Fv Fs HS Hq Hz Hr eq_refl Ev Hfin).
Qed.

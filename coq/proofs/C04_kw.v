(* C04_kw.v — the keyword route of "that output is accepted by UBXReader.parse in the same mode":
   corollary of the build->parse simulation (Msg_rt) and the raw-payload route (C04_lemmas). *)
From PyUbx Require Import Base Bytes Fletcher Frame PyFloat Types Strs Walk Consts Tables Msg WfDef.
From PyUbx Require Import Bytes_lemmas Msg_lemmas C04_lemmas Msg_rt.
Open Scope Z_scope.

Theorem c04_accepted_kw c i mode v bf a m ds :
  (c < 256)%N -> (i < 256)%N -> wf_kwargs (KwAttrs a) -> a <> [] ->
  variant_lookup mode ([c] ++ [i]) variants = None -> beq [c] [19%N] && negb (beq [i] [128%N]) = false ->
  construct [c] [i] mode bf (KwAttrs a) = Ok m ->
  get_dict [c] [i] mode (KwAttrs a) [] = Ok ds -> rt_defb ds = true -> is_cfgval [c] [i] mode = false ->
  exists m', parse mode v bf (serialize m) = Ok m' /\ serialize m' = serialize m.
Proof.
  intros Hc Hi Hwk Ha Hv Hmga H Hd Hrt Hcfg.
  destruct (construct_roundtrip_plain [c] [i] mode bf a m ds Ha Hv Hmga H Hd Hrt Hcfg) as (p & m1 & Hp & H1 & _ & Hs).
  pose proof (construct_payload_wfb _ _ _ _ _ _ Hwk H) as Hw.
  unfold payload_bytes in Hw. rewrite Hp in Hw.
  destruct (c04_accepted_payload c i mode v bf (KwPayload p) m1 Hc Hi) as (m' & Hm' & Hs').
  - right. exists p. split; [reflexivity|exact Hw].
  - exact H1.
  - exists m'. rewrite <- Hs. split; [exact Hm'|exact Hs'].
Qed.

(* Read_iter.v — iterating read() (what __next__ does) is the model's read_all: the link between the per-call function
   `read_one` that C06_read_from_source relates to the source, and `read_all`, the object of the C06-C12 theorems. *)
From Coq Require Import ZArith List Lia Bool.
From PyUbx Require Import Base Bytes Reader.
Import ListNotations.
Open Scope N_scope.

Section RI.
Context {S P : Type}.
Variable rd : nat -> S -> bytes * S.
Variable rdl : S -> bytes * S.
Variable parse : N -> bytes -> result P.
Variable nmea_hdr : N -> bool.
Variable c : cfg.

Notation step := (@Reader.step S P rd rdl parse nmea_hdr).
Notation read_all := (@Reader.read_all S P rd rdl parse nmea_hdr).
Notation run := (@Reader.run S P).

(* one call of read(): iterate `step` until something is delivered, the stream ends or an exception leaves;
   the reports made on the way, oldest first *)
Inductive rres := RItem (raw : bytes) (po : option P) | REnd | RRaise (e : exn) | RFuel.

Fixpoint read1 (fuel : nat) (s : S) : rres * S * list exn * nat :=     (* result, stream, reports, fuel left *)
  match fuel with
  | O => (RFuel, s, [], O)
  | Datatypes.S f =>
    match step c s with
    | (Deliver raw po, s') => (RItem raw po, s', [], f)
    | (Skip, s') => read1 f s'
    | (Reject e, s') =>
        if quitonerror c =? 2 then (RRaise e, s', [], f)
        else if quitonerror c =? 1 then let '(r, s'', l, k) := read1 f s' in (r, s'', e :: l, k)
        else read1 f s'
    | (Eof, s') => (REnd, s', [], f)
    | (Foreign e, s') => (RRaise e, s', [], f)
    end
  end.

(* the same with the reports accumulated newest first (the shape C06_read_from_source uses) *)
Fixpoint read_one (fuel : nat) (s : S) (log : list exn) : rres * S * list exn :=
  match fuel with
  | O => (RFuel, s, log)
  | Datatypes.S f =>
    match step c s with
    | (Deliver raw po, s') => (RItem raw po, s', log)
    | (Skip, s') => read_one f s' log
    | (Reject e, s') =>
        if quitonerror c =? 2 then (RRaise e, s', log)
        else if quitonerror c =? 1 then read_one f s' (e :: log)
        else read_one f s' log
    | (Eof, s') => (REnd, s', log)
    | (Foreign e, s') => (RRaise e, s', log)
    end
  end.

Lemma read_one_read1 fuel : forall s acc,
  read_one fuel s acc = let '(r, s', l, _) := read1 fuel s in (r, s', (rev l ++ acc)%list).
Proof.
  induction fuel as [|f IH]; intros s acc; cbn [read_one read1]; [reflexivity|].
  destruct (step c s) as [[raw po| |e| |e] s1]; try reflexivity.
  - apply IH.
  - destruct (quitonerror c =? 2); [reflexivity|]. destruct (quitonerror c =? 1); [|apply IH].
    rewrite IH. destruct (read1 f s1) as [[[r1 s2] l1] k1]. cbn [rev]. now rewrite <- app_assoc.
Qed.

Definition add_reports (l : list exn) (r : run) : run := fold_right (@add_report S P) r l.

(* iteration: call read() until it reports the end (or raises); every call continues with the fuel the last one left *)
Fixpoint reads (n : nat) (fuel : nat) (s : S) : run :=
  match n with
  | O => {| items := []; reports := []; raised := None; final := s; out_of_fuel := true |}
  | Datatypes.S n' =>
    match read1 fuel s with
    | (RItem raw po, s', l, k) => add_reports l (add_item (raw, po) (reads n' k s'))
    | (REnd, s', l, _) => add_reports l (stop s' None)
    | (RRaise e, s', l, _) => add_reports l (stop s' (Some e))
    | (RFuel, s', l, _) => add_reports l {| items := []; reports := []; raised := None; final := s'; out_of_fuel := true |}
    end
  end.

Lemma read1_fuel fuel : forall s r s' l k, read1 fuel s = (r, s', l, k) -> (k <= fuel)%nat /\ (r <> RFuel -> k < fuel)%nat.
Proof.
  induction fuel as [|f IH]; intros s r s' l k H; cbn [read1] in H.
  - injection H as <- _ _ <-. split; [lia|congruence].
  - destruct (step c s) as [[raw po| |e| |e] s1].
    + injection H as <- _ _ <-. split; [lia|intros _; lia].
    + destruct (IH _ _ _ _ _ H) as [A B]. split; [lia|intros Hr; specialize (B Hr); lia].
    + destruct (quitonerror c =? 2); [injection H as <- _ _ <-; split; [lia|intros _; lia]|].
      destruct (quitonerror c =? 1).
      * destruct (read1 f s1) as [[[r1 s2] l1] k1] eqn:E. injection H as <- _ _ <-.
        destruct (IH _ _ _ _ _ E) as [A B]. split; [lia|intros Hr; specialize (B Hr); lia].
      * destruct (IH _ _ _ _ _ H) as [A B]. split; [lia|intros Hr; specialize (B Hr); lia].
    + injection H as <- _ _ <-. split; [lia|intros _; lia].
    + injection H as <- _ _ <-. split; [lia|intros _; lia].
Qed.

(* read_all is: one read(), then read_all on what is left of the stream and of the fuel *)
Lemma read_all_read1 fuel : forall s,
  read_all c fuel s =
  match read1 fuel s with
  | (RItem raw po, s', l, k) => add_reports l (add_item (raw, po) (read_all c k s'))
  | (REnd, s', l, _) => add_reports l (stop s' None)
  | (RRaise e, s', l, _) => add_reports l (stop s' (Some e))
  | (RFuel, s', l, _) => add_reports l {| items := []; reports := []; raised := None; final := s'; out_of_fuel := true |}
  end.
Proof.
  induction fuel as [|f IH]; intros s; cbn [Reader.read_all read1]; [reflexivity|].
  destruct (step c s) as [[raw po| |e| |e] s1]; try reflexivity.
  - apply IH.
  - destruct (quitonerror c =? 2); [reflexivity|]. destruct (quitonerror c =? 1); [|apply IH].
    rewrite IH. destruct (read1 f s1) as [[[r1 s2] l1] k1]. destruct r1; reflexivity.
Qed.

(* hence read_all is the iteration of read() *)
Theorem read_all_is_iteration : forall n fuel s, (fuel <= n)%nat -> read_all c fuel s = reads (Datatypes.S n) fuel s.
Proof.
  induction n as [|n IH]; intros fuel s Hn.
  - assert (fuel = O) by lia. subst. reflexivity.
  - rewrite read_all_read1. cbn [reads]. destruct (read1 fuel s) as [[[r s'] l] k] eqn:E.
    destruct (read1_fuel _ _ _ _ _ _ E) as [A B].
    destruct r; try reflexivity.
    assert (k < fuel)%nat by (apply B; congruence).
    rewrite (IH k s') by lia. reflexivity.
Qed.
End RI.

(* Msg_rt.v — C03 at message level: UBXMessage(cls, id, mode, **kw) followed by UBXMessage(cls, id, mode,
   payload=that payload) gives the same attributes and the same frame, for every definition whose members are
   integer / X / bitfield fields, whenever the payload route selects the same definition as the keyword route. *)
From PyUbx Require Import Base Bytes Fletcher Frame PyFloat Types Strs Walk Consts Tables Msg WfDef.
From PyUbx Require Import Tac Bytes_lemmas Walk_lemmas Bits_lemmas Codec_lemmas Msg_lemmas.
From PyUbx Require Import Trace_lemmas Shape_lemmas Build_lemmas Len_lemmas Roundtrip_lemmas Rt_auto.
Open Scope Z_scope.
Open Scope list_scope.

(* ---- boolean deciders for the side conditions, so that table entries can be checked by computation ---- *)
Definition is_tch (t : aty) : bool := match t with TCH => true | _ => false end.
Definition is_rvar (r : rep) : bool := match r with RVar => true | _ => false end.

Fixpoint staticb (d : adef) : bool :=
  match d with
  | ASingle _ t | AScaled _ t _ | ABits _ t _ => negb (is_tch t)
  | AGroup _ r body => negb (is_rvar r) && (fix go l := match l with [] => true | x :: t => staticb x && go t end) body
  end.

Definition auto_typeb (t : aty) : bool :=
  match t with T l (Some w) => (is_int_letter l && Nat.ltb 0 w) || (l =? lX)%N | _ => false end.

Fixpoint autob (d : adef) : bool :=
  match d with
  | ASingle _ t => auto_typeb t
  | AScaled _ _ _ => false
  | ABits _ t _ => auto_typeb t
  | AGroup _ _ body => (fix go l := match l with [] => true | x :: t => autob x && go t end) body
  end.

Lemma staticb_ok d : staticb d = true -> static d.
Proof.
  induction d as [n t|n t sc|n t fl|n r body IH] using adef_ind'; cbn [staticb]; intros H.
  - constructor. destruct t; [discriminate|congruence].
  - constructor. destruct t; [discriminate|congruence].
  - constructor. destruct t; [discriminate|congruence].
  - apply andb_prop in H as [Hr Hb]. constructor; [destruct r; [congruence|congruence|discriminate]|].
    induction IH as [|d body Hd _ IHb]; [constructor|].
    apply andb_prop in Hb as [H1 H2]. constructor; auto.
Qed.

Lemma auto_typeb_field t : auto_typeb t = true -> auto_kind (FField t None).
Proof.
  destruct t as [|l [w|]]; cbn; try discriminate. intros H. apply orb_prop in H as [H|H].
  - apply andb_prop in H as [H1 H2]. left. split; [exact H1|]. apply Nat.ltb_lt. exact H2.
  - right. lia.
Qed.
Lemma auto_typeb_bits t fl : auto_typeb t = true -> auto_kind (FBits t fl).
Proof. destruct t; cbn; [discriminate|congruence]. Qed.

Lemma autob_ok d : autob d = true -> leaves auto_kind d.
Proof.
  induction d as [n t|n t sc|n t fl|n r body IH] using adef_ind'; cbn [autob]; intros H.
  - constructor. now apply auto_typeb_field.
  - discriminate.
  - constructor; [now apply auto_typeb_bits|now apply auto_typeb_field].
  - constructor. induction IH as [|d body Hd _ IHb]; [constructor|].
    apply andb_prop in H as [H1 H2]. constructor; auto.
Qed.

Definition rt_defb (ds : list adef) : bool := forallb staticb ds && forallb autob ds.

Lemma rt_defb_ok ds : rt_defb ds = true -> Forall static ds /\ Forall (leaves auto_kind) ds.
Proof.
  unfold rt_defb. intros H. apply andb_prop in H as [H1 H2]. rewrite forallb_forall in H1, H2.
  split; apply Forall_forall; intros d Hd; [apply staticb_ok|apply autob_ok]; auto.
Qed.

(* ---- the message-level statement ---- *)
Theorem construct_roundtrip cls id mode bf a m ds :
  a <> [] ->
  construct cls id mode bf (KwAttrs a) = Ok m ->
  get_dict cls id mode (KwAttrs a) [] = Ok ds ->
  rt_defb ds = true -> is_cfgval cls id mode = false ->
  exists p, m_payload m = Some p /\
    (get_dict cls id mode (KwPayload p) p = Ok ds ->           (* the payload selects the same definition *)
     exists m', construct cls id mode bf (KwPayload p) = Ok m' /\
                m_attrs m' = m_attrs m /\ m_payload m' = Some p /\ serialize m' = serialize m).
Proof.
  intros Hne Hc Hd Hrt Hcfg. apply rt_defb_ok in Hrt as [Hst Hlv].
  unfold construct in *. destruct (negb (mode_ok mode)); [discriminate|]. cbv zeta in *.
  apply translate_ok in Hc. destruct a as [|a0 a']; [congruence|].
  unfold do_walk in *. rewrite Hd in Hc. cbn [bind] in Hc.
  match type of Hc with bind ?r _ = _ => destruct r as [sB|] eqn:EB; [cbn [bind] in Hc|discriminate] end.
  destruct (len_cksum cls id (w_pay sB)) as [lc|] eqn:El; [cbn [bind] in Hc|discriminate]. injection Hc as <-.
  cbn [m_payload m_attrs]. exists (w_pay sB). split; [reflexivity|]. intros Hd'.
  destruct (build_parse_auto readonly_names cfgdb storsize scalround cls id mode bf (a0 :: a') budget ds sB Hcfg Hst Hlv EB)
    as (sP & EP & _ & Hattrs & _).
  rewrite Hd'. cbn [bind]. rewrite EP. cbn [bind].
  assert (Hp: w_pay sP = w_pay sB) by (apply walk_list_pay in EP; exact EP).
  rewrite Hp, El. cbn [bind translate_exn]. eexists. split; [reflexivity|].
  cbn [m_attrs m_payload]. split; [exact Hattrs|]. split; [reflexivity|]. unfold serialize. cbn. reflexivity.
Qed.

(* outside the variant selectors and the MGA class, the definition does not depend on how the message is given *)
Lemma get_dict_indep cls id mode k1 p1 k2 p2 :
  variant_lookup mode (cls ++ id) variants = None -> beq cls [19%N] && negb (beq id [128%N]) = false ->
  get_dict cls id mode k1 p1 = get_dict cls id mode k2 p2.
Proof.
  intros Hv Hm. unfold get_dict. rewrite Hv. unfold identity. rewrite Hm. reflexivity.
Qed.

Corollary construct_roundtrip_plain cls id mode bf a m ds :
  a <> [] ->
  variant_lookup mode (cls ++ id) variants = None -> beq cls [19%N] && negb (beq id [128%N]) = false ->
  construct cls id mode bf (KwAttrs a) = Ok m ->
  get_dict cls id mode (KwAttrs a) [] = Ok ds ->
  rt_defb ds = true -> is_cfgval cls id mode = false ->
  exists p m', m_payload m = Some p /\ construct cls id mode bf (KwPayload p) = Ok m' /\
               m_attrs m' = m_attrs m /\ serialize m' = serialize m.
Proof.
  intros Hne Hv Hm Hc Hd Hrt Hcfg.
  destruct (construct_roundtrip cls id mode bf a m ds Hne Hc Hd Hrt Hcfg) as (p & Hp & K).
  destruct K as (m' & A & B & _ & D).
  - rewrite <- Hd. apply get_dict_indep; assumption.
  - exists p, m'. auto.
Qed.

(* how much of the shipped tables this covers: entries whose definition passes the decider *)
Definition rt_entries : list (N * string) :=
  map (fun me => (fst me, fst (snd me))) (filter (fun me => rt_defb (snd (snd me))) all_entries).

(* ---- C15: for a fixed-size definition the built payload has exactly the definition's size ---- *)
Inductive fixedd : adef -> Prop :=
| fx_single n t : t <> TCH -> fixedd (ASingle n t)
| fx_scaled n t sc : t <> TCH -> fixedd (AScaled n t sc)
| fx_bits n t fl : t <> TCH -> fixedd (ABits n t fl)
| fx_group n k body : Forall fixedd body -> fixedd (AGroup n (RFixed k) body).

Definition sum_min (ds : list adef) : nat := fold_right (fun x a => min_size x + a)%nat O ds.

Lemma widths_app a b : widths (a ++ b) = (widths a + widths b)%nat.
Proof. induction a; cbn [app widths]; [reflexivity|rewrite IHa; lia]. Qed.

Lemma sized_size r t sc : fr_kind r = FField t sc -> t <> TCH -> sized r -> fr_size r = size_of t.
Proof.
  unfold sized. intros -> Ht. destruct t as [|l [w|]]; [congruence| |]; cbn; intros H; [now injection H|discriminate].
Qed.
Lemma sized_size_bits r t fl : fr_kind r = FBits t fl -> t <> TCH -> sized r -> fr_size r = size_of t.
Proof.
  unfold sized. intros -> Ht. destruct t as [|l [w|]]; [congruence| |]; cbn; intros H; [now injection H|discriminate].
Qed.

Lemma shape_widths bf idx d l : shape bf false idx d l -> fixedd d -> Forall sized l -> widths l = min_size d.
Proof.
  intros H. revert idx d l H.
  apply (shape_ind' bf false
    (fun idx d l _ => fixedd d -> Forall sized l -> widths l = min_size d)
    (fun idx ds l _ => Forall fixedd ds -> Forall sized l -> widths l = sum_min ds)
    (fun idx body i ls _ => Forall fixedd body -> Forall sized (concat ls) -> widths (concat ls) = (length ls * sum_min body)%nat)).
  - intros idx n t r _ _ Hk Hf Hs. inversion Hf; subst. apply Forall_inv in Hs. cbn [widths min_size].
    rewrite (sized_size r t None Hk) by assumption. lia.
  - intros idx n t sc r _ _ Hk Hf Hs. inversion Hf; subst. apply Forall_inv in Hs. cbn [widths min_size].
    rewrite (sized_size r t (Some sc) Hk) by assumption. lia.
  - intros idx n t fl r _ _ Hk Hf Hs. inversion Hf; subst. apply Forall_inv in Hs. cbn [widths min_size].
    rewrite (sized_size_bits r t fl Hk) by assumption. lia.
  - intros idx n t fl r _ _ _ Hk Hf Hs. inversion Hf; subst. apply Forall_inv in Hs. cbn [widths min_size].
    rewrite (sized_size r t None Hk) by assumption. lia.
  - intros idx n r body l Hc. discriminate.
  - intros idx n r body ls _ _ IH Hc Hf Hs. inversion Hf; subst. cbn [count_ok] in Hc. cbn [min_size].
    rewrite (IH H0 Hs). fold (sum_min body). f_equal. lia.
  - intros. reflexivity.
  - intros idx d ds l1 l2 _ IH1 _ IH2 Hf Hs. apply Forall_cons_iff in Hf as [Hd Hds]. apply Forall_app in Hs as [Hs1 Hs2].
    rewrite widths_app, IH1, IH2 by assumption. reflexivity.
  - intros. reflexivity.
  - intros idx body i l ls _ IH1 _ IH2 Hf Hs. cbn [concat length] in *. apply Forall_app in Hs as [Hs1 Hs2].
    rewrite widths_app, IH1, IH2 by assumption. lia.
Qed.

Lemma shape_l_widths bf idx ds l : shape_l bf false idx ds l -> Forall fixedd ds -> Forall sized l -> widths l = sum_min ds.
Proof.
  induction 1 as [|idx d ds l1 l2 H1 H2 IH]; intros Hf Hs; [reflexivity|].
  apply Forall_cons_iff in Hf as [Hd Hds]. apply Forall_app in Hs as [Hs1 Hs2].
  rewrite widths_app, (shape_widths _ _ _ _ H1 Hd Hs1), IH by assumption. reflexivity.
Qed.

Fixpoint fixedb (d : adef) : bool :=
  match d with
  | ASingle _ t | AScaled _ t _ | ABits _ t _ => negb (is_tch t)
  | AGroup _ (RFixed _) body => (fix go l := match l with [] => true | x :: t => fixedb x && go t end) body
  | AGroup _ _ _ => false
  end.
Lemma fixedb_ok d : fixedb d = true -> fixedd d.
Proof.
  induction d as [n t|n t sc|n t fl|n r body IH] using adef_ind'; cbn [fixedb]; intros H.
  - constructor. destruct t; [discriminate|congruence].
  - constructor. destruct t; [discriminate|congruence].
  - constructor. destruct t; [discriminate|congruence].
  - destruct r; try discriminate. constructor.
    induction IH as [|d body Hd _ IHb]; [constructor|].
    apply andb_prop in H as [H1 H2]. constructor; auto.
Qed.

Definition len_typeb (t : aty) : bool :=
  match t with T l (Some w) => negb (l =? lC)%N && (negb (l =? lR)%N || Nat.eqb w 4 || Nat.eqb w 8) | _ => false end.
Fixpoint lenb (d : adef) : bool :=
  match d with
  | ASingle _ t | AScaled _ t _ | ABits _ t _ => len_typeb t
  | AGroup _ _ body => (fix go l := match l with [] => true | x :: t => lenb x && go t end) body
  end.
Lemma len_typeb_ok t : len_typeb t = true -> len_type t.
Proof.
  destruct t as [|l [w|]]; cbn; try discriminate. intros H. apply andb_prop in H as [H1 H2].
  split; [intros ->; discriminate|]. intros ->. cbn in H2. apply orb_prop in H2 as [H2|H2]; [left|right]; now apply Nat.eqb_eq.
Qed.
Lemma lenb_ok d : lenb d = true -> leaves len_kind d.
Proof.
  induction d as [n t|n t sc|n t fl|n r body IH] using adef_ind'; cbn [lenb]; intros H.
  - constructor. now apply len_typeb_ok.
  - constructor. now apply len_typeb_ok.
  - constructor; [cbn; destruct t; [discriminate|congruence]|now apply len_typeb_ok].
  - constructor. induction IH as [|d body Hd _ IHb]; [constructor|].
    apply andb_prop in H as [H1 H2]. constructor; auto.
Qed.

(* message level: any keyword values; a fixed-size definition without C-type members *)
Theorem construct_length cls id mode bf a m ds :
  a <> [] ->
  construct cls id mode bf (KwAttrs a) = Ok m ->
  get_dict cls id mode (KwAttrs a) [] = Ok ds ->
  forallb fixedb ds && forallb lenb ds = true -> is_cfgval cls id mode = false ->
  exists p, m_payload m = Some p /\ length p = def_min ds /\ msg_length m = Z.of_nat (def_min ds).
Proof.
  intros Hne Hc Hd Hb Hcfg. apply andb_prop in Hb as [Hfx Hln]. rewrite forallb_forall in Hfx, Hln.
  assert (HF: Forall fixedd ds) by (apply Forall_forall; intros d Hin; apply fixedb_ok; auto).
  assert (HL: Forall (leaves len_kind) ds) by (apply Forall_forall; intros d Hin; apply lenb_ok; auto).
  unfold construct in Hc. destruct (negb (mode_ok mode)); [discriminate|]. cbv zeta in Hc.
  apply translate_ok in Hc. destruct a as [|a0 a']; [congruence|].
  unfold do_walk in Hc. rewrite Hd in Hc. cbn [bind] in Hc.
  match type of Hc with bind ?r _ = _ => destruct r as [sB|] eqn:EB; [cbn [bind] in Hc|discriminate] end.
  destruct (len_cksum cls id (w_pay sB)) as [lc|] eqn:El; [cbn [bind] in Hc|discriminate]. injection Hc as <-.
  cbn [m_payload]. exists (w_pay sB). split; [reflexivity|].
  pose proof (build_length atttype readonly_names cfgdb storsize scalround cls id mode bf _ _ ds sB Hcfg HL EB) as [H1 H2].
  pose proof (walk_list_sized _ _ _ _ _ _ _ _ _ _ _ _ _ _ _ EB) as (l & Hl & Hsz). cbn in Hl. rewrite app_nil_r in Hl. subst l.
  pose proof (walk_list_shape_all _ _ _ _ _ _ _ _ _ _ _ _ _ _ _ EB) as (l & Hl & Hsh). cbn in Hl. rewrite app_nil_r in Hl. subst l.
  rewrite Hcfg in Hsh. apply shape_l_widths in Hsh; [|exact HF|apply Forall_rev; exact Hsz].
  assert (Hw: widths (rev (w_trace sB)) = widths (w_trace sB)).
  { clear. induction (w_trace sB) as [|r l IH]; [reflexivity|]. cbn [rev]. rewrite widths_app, IH. cbn [widths]. lia. }
  assert (Hlen: length (w_pay sB) = def_min ds) by (unfold def_min; fold (sum_min ds); lia).
  split; [exact Hlen|].
  unfold msg_length. cbn [m_length]. unfold len_cksum in El.
  destruct (Msg.v2b (PInt (Z.of_nat (length (w_pay sB)))) U2) as [lb|] eqn:Ev; [cbn [bind] in El|discriminate]. injection El as <-. cbn [fst].
  unfold U2 in Ev. rewrite v2b_U in Ev. apply int_enc_u_inv in Ev as [_ Hv]. rewrite Hv, Hlen. reflexivity.
Qed.

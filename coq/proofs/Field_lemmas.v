(* Field_lemmas.v — what one field of a definition does, in each route (C02, C03, C15) *)
From PyUbx Require Import Base Bytes Fletcher Frame PyFloat Types Strs Walk Consts Tables Msg WfDef.
From PyUbx Require Import Tac Bytes_lemmas Walk_lemmas Msg_lemmas Codec_lemmas Bits_lemmas Exn_lemmas.
From Coq Require Import Floats.SpecFloat.
Open Scope Z_scope.

(* ---- payload route: an unscaled integer field ---- *)
Lemma single_parse_int n l w idx s :
  is_int_letter l = true -> starts_with "_HP" (n ++ suffix idx) = false ->
  mem_s (n ++ suffix idx)%string readonly_names = false ->
  single atttype readonly_names scalround None n (T l (Some w)) None idx s =
  Ok {| w_off := (w_off s + w)%nat; w_pay := w_pay s;
        w_attrs := upsert (n ++ suffix idx) (PInt (int_dec (l =? lI)%N (slice (w_pay s) (w_off s) w))) (w_attrs s);
        w_trace := {| fr_base := n; fr_idx := idx; fr_off := w_off s; fr_size := w; fr_kind := FField (T l (Some w)) None;
                      fr_val := PInt (int_dec (l =? lI)%N (slice (w_pay s) (w_off s) w)) |} :: w_trace s |}.
Proof.
  intros Hl Hhp Hro. unfold single. cbn [attsiz_nat bind].
  rewrite (b2v_int l w _ Hl). cbn [bind]. rewrite Hhp. unfold set_attr. rewrite Hro. reflexivity.
Qed.

(* ---- payload route: flags of a bitfield ---- *)
Lemma bits_loop_parse_cons key keyt w fl idx bfv off s :
  keyt = T lU (Some w) ->
  bits_loop readonly_names None ((key, keyt) :: fl) idx bfv off s =
  (do s' <- (if starts_with "reserved" key then Ok s
             else set_attr readonly_names (key ++ suffix idx) (PInt (ext bfv off (Z.of_nat w))) s);
   bits_loop readonly_names None fl idx bfv (off + Z.of_nat w) s').
Proof. intros ->. reflexivity. Qed.

(* ---- keyword route then payload route for an integer field: the supplied value comes back ---- *)
Theorem int_field_roundtrip l w z :
  is_int_letter l = true -> (0 < w)%nat -> in_range (l =? lI)%N w z ->
  exists bs, val2bytes atttype (PInt z) (T l (Some w)) = Ok bs /\ length bs = w /\
             bytes2val bs (T l (Some w)) = Ok (PInt z).
Proof. exact (c18_int_rt l w z). Qed.

(* ---- the recorded findings as refutation witnesses (evaluated on the model) ---- *)
Definition f1e5 : fl := b64_of_bits 4532020583610935537.          (* 1e-05 *)
Definition enc_scaled_i4 (v : fl) (sc : fl) : result bytes :=
  do q <- fdiv v sc; do z <- py_int_of_float q; int_enc true 4 z.
Definition dec_scaled_i4 (b : bytes) (sc : fl) : result fl :=
  py_round_nd 12 (fmul (f_of_Z (int_dec true b)) sc).

(* NAV-PVT headMot: raw 365390516 parses to 3653.90516 and rebuilds as 365390515 *)
Lemma scaled_refuted :
  exists raw : Z, -2 ^ 31 <= raw < 2 ^ 31 /\
    (do b <- int_enc true 4 raw; do v <- dec_scaled_i4 b f1e5; do b' <- enc_scaled_i4 v f1e5; Ok (int_dec true b'))
    = Ok (raw - 1).
Proof. exists 365390516. split; [lia|]. vm_compute. reflexivity. Qed.

(* a scale below the 12-decimal rounding grain: raw 1 at 2^-43 parses to 0.0 *)
Lemma smallscale_refuted :
  py_round_nd 12 (fmul (f_of_Z 1) (b64_of_bits 4413928609240219648)) = Ok (S754_zero false).
Proof. vm_compute. reflexivity. Qed.

(* a C-type value of the wrong length is copied verbatim (no length check): 3 bytes into C006 *)
Lemma clen_refuted : val2bytes atttype (PStr [97; 98; 99]%N) (T lC (Some 6%nat)) = Ok [97; 98; 99]%N.
Proof. reflexivity. Qed.

From PyUbx Require Import Base Bytes Fletcher Frame Tac Bytes_lemmas Fletcher_lemmas.
Open Scope N_scope.

Lemma app_split_len {A} (a b c d : list A) : a ++ b = c ++ d -> length a = length c -> a = c /\ b = d.
Proof.
  revert c; induction a as [|x a IH]; intros [|y c] H Hl; simpl in *; try discriminate; auto.
  injection H as -> H. injection Hl as Hl. destruct (IH _ H Hl) as [-> ->]. auto.
Qed.

(* ------------------------------------------------------------------ *)
(* Shape of a well-formed frame *)

Lemma mk_frame_eq c i p :
  mk_frame c i p =
  181 :: 98 :: c :: i :: (N.of_nat (length p) mod 256) :: ((N.of_nat (length p) / 256) mod 256)
    :: p ++ fletcher ([c; i] ++ enc_le 2 (N.of_nat (length p)) ++ p).
Proof. unfold mk_frame. rewrite fletcher_is_spec. reflexivity. Qed.

Lemma mk_frame_length c i p : length (mk_frame c i p) = (8 + length p)%nat.
Proof. rewrite mk_frame_eq. cbn [length]. rewrite app_length, fletcher_length. lia. Qed.

Lemma mk_frame_wfb c i p : c < 256 -> i < 256 -> wfb p -> wfb (mk_frame c i p).
Proof.
  intros Hc Hi Hp. rewrite mk_frame_eq.
  repeat (apply wfb_cons; split; [lia|]). apply wfb_app. split; [assumption|apply fletcher_wfb].
Qed.

Lemma WellFormed_wfb f : WellFormed f -> wfb f.
Proof. intros (c & i & p & Hc & Hi & Hp & _ & ->). now apply mk_frame_wfb. Qed.

(* ------------------------------------------------------------------ *)
(* What parse_front computes on an input of at least 8 bytes *)

Definition front_of (c i : N) (l1 l2 : N) (p : bytes) : front :=
  {| f_cls := [c]; f_id := [i];
     f_payload := if beq [l1; l2] [0; 0] then None else Some p |}.

Lemma parse_front_long v c i l1 l2 p ck :
  length ck = 2%nat ->
  parse_front v (181 :: 98 :: c :: i :: l1 :: l2 :: p ++ ck) =
  if valcksum v then
    if negb (Z.of_nat (length p) =? Z.of_N (l1 + 256 * l2))%Z then Raise EUBXParse
    else if negb (beq ck (fletcher ([c; i; l1; l2] ++
              (if beq [l1; l2] [0; 0] then [] else p)))) then Raise EUBXParse
    else Ok (front_of c i l1 l2 p)
  else Ok (front_of c i l1 l2 p).
Proof.
  intros Hck. unfold parse_front.
  set (m := 181 :: 98 :: c :: i :: l1 :: l2 :: p ++ ck).
  assert (Hlen: length m = (8 + length p)%nat) by (subst m; cbn [length]; rewrite app_length; lia).
  rewrite Hlen.
  rewrite !pyslice_Z by lia.
  replace (Z.to_nat (Z.of_nat (8 + length p) - 2)) with (6 + length p)%nat by lia.
  rewrite Nat2Z.id.
  change (Z.to_nat 0) with 0%nat. change (Z.to_nat 2) with 2%nat.
  change (Z.to_nat 3) with 3%nat. change (Z.to_nat 4) with 4%nat. change (Z.to_nat 6) with 6%nat.
  subst m. cbn [skipn firstn Nat.sub].
  replace (6 + length p - 6)%nat with (length p) by lia.
  rewrite firstn_app, Nat.sub_diag, firstn_O, app_nil_r, firstn_all.
  change (skipn (6 + length p) (181 :: 98 :: c :: i :: l1 :: l2 :: p ++ ck))
    with (skipn (length p) (p ++ ck)).
  rewrite skipn_app, skipn_all, Nat.sub_diag. cbn [skipn app].
  replace (8 + length p - (6 + length p))%nat with 2%nat by lia.
  rewrite (firstn_all2 (n:=2) ck) by lia.
  cbn [beq]. rewrite !N.eqb_refl. cbn [andb negb].
  replace (Z.of_nat (8 + length p) - 8 =? Z.of_N (uint_of_le [l1; l2]))%Z
    with (Z.of_nat (length p) =? Z.of_N (l1 + 256 * l2))%Z
    by (cbn [uint_of_le]; f_equal; lia).
  unfold front_of. cbn [beq app].
  destruct ((l1 =? 0) && ((l2 =? 0) && true)); reflexivity.
Qed.

(* shorter inputs are always rejected when validating *)
Lemma parse_front_short v m : valcksum v = true -> (length m < 8)%nat -> parse_front v m = Raise EUBXParse.
Proof.
  intros Hv Hl. unfold parse_front. rewrite Hv.
  destruct (negb (beq _ _)); [reflexivity|].
  destruct (negb (_ =? _)%Z) eqn:E; [reflexivity|].
  exfalso. apply negb_false_iff, Z.eqb_eq in E. lia.
Qed.

Lemma parse_front_cases v m : (exists r, parse_front v m = Ok r) \/ parse_front v m = Raise EUBXParse.
Proof.
  unfold parse_front. destruct (valcksum v); [|eauto].
  repeat (match goal with |- context [if ?b then _ else _] => destruct b end); eauto.
Qed.

(* decompose any list of length >= 8 *)
Lemma long_shape (m : bytes) : (8 <= length m)%nat ->
  exists b0 b1 c i l1 l2 p ck, m = b0 :: b1 :: c :: i :: l1 :: l2 :: p ++ ck /\ length ck = 2%nat.
Proof.
  intros H.
  destruct m as [|b0 [|b1 [|c [|i [|l1 [|l2 rest]]]]]]; simpl in H; try lia.
  exists b0, b1, c, i, l1, l2, (firstn (length rest - 2) rest), (skipn (length rest - 2) rest).
  rewrite firstn_skipn. split; [reflexivity|]. rewrite skipn_length. lia.
Qed.

(* ------------------------------------------------------------------ *)
(* Soundness: whatever VALCKSUM accepts is a well-formed frame *)
Theorem parse_front_sound v f r :
  wfb f -> valcksum v = true -> parse_front v f = Ok r ->
  exists c i p, c < 256 /\ i < 256 /\ wfb p /\ N.of_nat (length p) < 65536 /\
    f = mk_frame c i p /\
    r = {| f_cls := [c]; f_id := [i]; f_payload := match p with [] => None | _ => Some p end |}.
Proof.
  intros Hw Hv H.
  destruct (Nat.lt_ge_cases (length f) 8) as [Hs|Hl].
  { rewrite parse_front_short in H by assumption. discriminate. }
  destruct (long_shape f Hl) as (b0 & b1 & c & i & l1 & l2 & p & ck & -> & Hck).
  assert (Hh: b0 = 181 /\ b1 = 98).
  { unfold parse_front in H. rewrite Hv in H.
    destruct (negb (beq _ _)) eqn:E in H; [discriminate|].
    apply negb_false_iff, beq_eq in E. rewrite pyslice_Z in E by lia. cbn in E. now injection E. }
  destruct Hh as [-> ->].
  rewrite parse_front_long in H by assumption. rewrite Hv in H.
  destruct (negb (_ =? _)%Z) eqn:El in H; [discriminate|].
  apply negb_false_iff, Z.eqb_eq in El.
  destruct (negb (beq ck _)) eqn:Ec in H; [discriminate|].
  apply negb_false_iff, beq_eq in Ec. injection H as <-.
  repeat (apply wfb_cons in Hw as [? Hw]). apply wfb_app in Hw as [Hp Hk].
  assert (Hl12: N.of_nat (length p) = l1 + 256 * l2) by lia.
  exists c, i, p. repeat split; try assumption; try lia.
  - rewrite mk_frame_eq. rewrite Hl12.
    assert (E1: (l1 + 256 * l2) mod 256 = l1) by lia.
    assert (E2: (l1 + 256 * l2) / 256 mod 256 = l2) by lia.
    rewrite E1, E2. do 6 f_equal. f_equal.
    rewrite Ec. f_equal. cbn [app]. do 2 f_equal.
    rewrite enc_le2, E1, E2. cbn [app]. do 2 f_equal.
    destruct (beq [l1; l2] [0; 0]) eqn:Ez; [|reflexivity].
    apply beq_eq in Ez. injection Ez as -> ->.
    destruct p; [reflexivity|cbn [length] in Hl12; lia].
  - unfold front_of. f_equal.
    destruct (beq [l1; l2] [0; 0]) eqn:Ez.
    + apply beq_eq in Ez. injection Ez as -> ->. destruct p; [reflexivity|cbn [length] in Hl12; lia].
    + destruct p; [|reflexivity]. cbn [length] in Hl12.
      assert (l1 = 0 /\ l2 = 0) as [-> ->] by lia. discriminate.
Qed.

(* Completeness: every well-formed frame is accepted, and the parts are the frame's fields *)
Theorem parse_front_complete v c i p :
  c < 256 -> i < 256 -> wfb p -> N.of_nat (length p) < 65536 ->
  parse_front v (mk_frame c i p) =
  Ok {| f_cls := [c]; f_id := [i]; f_payload := match p with [] => None | _ => Some p end |}.
Proof.
  intros Hc Hi Hp Hn. rewrite mk_frame_eq.
  set (n := N.of_nat (length p)) in *.
  rewrite parse_front_long by apply fletcher_length.
  assert (E: n mod 256 + 256 * (n / 256 mod 256) = n) by lia.
  rewrite E. replace (Z.of_nat (length p) =? Z.of_N n)%Z with true by (subst n; lia).
  cbn [negb].
  assert (Hf: front_of c i (n mod 256) (n / 256 mod 256) p =
     {| f_cls := [c]; f_id := [i]; f_payload := match p with [] => None | _ => Some p end |}).
  { unfold front_of. f_equal.
    destruct (beq _ [0; 0]) eqn:Ez.
    - apply beq_eq in Ez. injection Ez as E1 E2.
      destruct p; [reflexivity|]. subst n. simpl length in *. lia.
    - destruct p; [|reflexivity]. subst n. discriminate. }
  rewrite Hf.
  assert (Hk: beq (fletcher ([c; i] ++ enc_le 2 n ++ p))
              (fletcher ([c; i; n mod 256; n / 256 mod 256] ++
                 (if beq [n mod 256; n / 256 mod 256] [0; 0] then [] else p))) = true).
  { apply beq_eq. f_equal. rewrite enc_le2. cbn [app]. do 4 f_equal.
    destruct (beq _ [0; 0]) eqn:Ez; [|reflexivity].
    apply beq_eq in Ez. injection Ez as E1 E2.
    destruct p; [reflexivity|]. subst n. simpl length in *. lia. }
  rewrite Hk. cbn [negb]. destruct (valcksum v); reflexivity.
Qed.

(* ------------------------------------------------------------------ *)
(* Corruptions *)

Lemma wf_body_split f : WellFormed f ->
  exists body ck, f = 181 :: 98 :: body ++ ck /\ ck = fletcher body /\ (4 <= length body)%nat /\
    length f = (8 + N.to_nat (uint_of_le (slice f 4 2)))%nat.
Proof.
  intros (c & i & p & Hc & Hi & Hp & Hn & ->).
  exists ([c; i] ++ enc_le 2 (N.of_nat (length p)) ++ p), (fletcher ([c; i] ++ enc_le 2 (N.of_nat (length p)) ++ p)).
  split; [|split; [reflexivity|split]].
  - unfold mk_frame. rewrite fletcher_is_spec. reflexivity.
  - rewrite !app_length, enc_le_length. cbn [length]. lia.
  - rewrite mk_frame_length, mk_frame_eq. unfold slice. cbn [skipn firstn uint_of_le].
    set (n := N.of_nat (length p)) in *. lia.
Qed.

(* a single substituted byte never yields another well-formed frame *)
Theorem subst_not_wellformed l x y r :
  WellFormed (l ++ x :: r) -> y < 256 -> x <> y -> ~ WellFormed (l ++ y :: r).
Proof.
  intros Hx Hy Hne Hy'.
  pose proof (WellFormed_wfb _ Hx) as Hwx.
  apply wfb_app in Hwx as [_ Hwx]. apply wfb_cons in Hwx as [Hxb _].
  destruct (wf_body_split _ Hx) as (bx & cx & Ex & Ecx & Hbx & Hlx).
  destruct (wf_body_split _ Hy') as (by_ & cy & Ey & Ecy & Hby & Hly).
  assert (Hlen: length (l ++ x :: r) = length (l ++ y :: r)) by (rewrite !app_length; reflexivity).
  assert (Hck: length cx = 2%nat /\ length cy = 2%nat) by (subst cx cy; split; apply fletcher_length).
  destruct Hck as [Hcx Hcy].
  assert (Hbl: length bx = length by_).
  { rewrite Ex, Ey in Hlen. cbn [length] in Hlen. rewrite !app_length in Hlen. lia. }
  destruct l as [|h0 [|h1 l2]].
  - cbn [app] in Ex, Ey. injection Ex as -> _. injection Ey as -> _. congruence.
  - cbn [app] in Ex, Ey. injection Ex as _ -> _. injection Ey as _ -> _. congruence.
  - cbn [app] in Ex, Ey. injection Ex as _ _ Ex. injection Ey as _ _ Ey.
    destruct (Nat.lt_ge_cases (length l2) (length bx)) as [Hin|Hout].
    + (* the changed byte is inside class..payload: checksum bytes agree but must differ *)
      assert (Hx2: bx = l2 ++ x :: firstn (length bx - length l2 - 1) r /\ cx = skipn (length bx - length l2 - 1) r).
      { assert (E: (l2 ++ x :: firstn (length bx - length l2 - 1) r) ++ skipn (length bx - length l2 - 1) r = bx ++ cx).
        { rewrite <- Ex, <- app_assoc. cbn [app]. now rewrite firstn_skipn. }
        symmetry in E. apply app_split_len in E; [tauto|].
        rewrite app_length. cbn [length]. rewrite firstn_length.
        assert (length r = (length bx + 2 - length l2 - 1)%nat).
        { apply (f_equal (@length _)) in Ex. rewrite !app_length in Ex. cbn [length] in Ex. lia. }
        lia. }
      assert (Hy2: by_ = l2 ++ y :: firstn (length bx - length l2 - 1) r /\ cy = skipn (length bx - length l2 - 1) r).
      { assert (E: (l2 ++ y :: firstn (length bx - length l2 - 1) r) ++ skipn (length bx - length l2 - 1) r = by_ ++ cy).
        { rewrite <- Ey, <- app_assoc. cbn [app]. now rewrite firstn_skipn. }
        symmetry in E. apply app_split_len in E; [tauto|].
        rewrite app_length. cbn [length]. rewrite firstn_length.
        assert (length r = (length bx + 2 - length l2 - 1)%nat).
        { apply (f_equal (@length _)) in Ex. rewrite !app_length in Ex. cbn [length] in Ex. lia. }
        lia. }
      destruct Hx2 as [Hbx2 Hcx2]. destruct Hy2 as [Hby2 Hcy2].
      assert (cx = cy) by congruence.
      rewrite Ecx, Ecy, Hbx2, Hby2 in H.
      revert H. apply fletcher_subst_detect; assumption.
    + (* the changed byte is a checksum byte: bodies agree, so checksums must agree *)
      assert (Hb: bx = by_).
      { assert (firstn (length bx) (l2 ++ x :: r) = firstn (length bx) (l2 ++ y :: r)).
        { rewrite !firstn_app. replace (length bx - length l2)%nat with 0%nat by lia. reflexivity. }
        rewrite Ex, Ey in H. rewrite firstn_app, Nat.sub_diag, firstn_O, app_nil_r, firstn_all in H.
        rewrite Hbl in H. rewrite firstn_app, Nat.sub_diag, firstn_O, app_nil_r, firstn_all in H.
        exact H. }
      assert (Hc: cx = cy) by congruence.
      subst by_. rewrite Hc in Ex. rewrite <- Ey in Ex.
      apply app_inv_head in Ex. congruence.
Qed.

(* a proper prefix of a well-formed frame is never well-formed *)
Theorem truncate_not_wellformed f k : WellFormed f -> (k < length f)%nat -> ~ WellFormed (firstn k f).
Proof.
  intros Hf Hk Ht.
  destruct (wf_body_split _ Hf) as (_ & _ & _ & _ & _ & Hl).
  destruct (wf_body_split _ Ht) as (_ & _ & _ & _ & _ & Hl').
  rewrite firstn_length in Hl'.
  assert (Hk8: (8 <= k)%nat) by lia.
  assert (Hs: slice (firstn k f) 4 2 = slice f 4 2).
  { unfold slice. rewrite <- (firstn_skipn k f) at 2.
    rewrite skipn_app. rewrite firstn_app.
    rewrite firstn_length. replace (4 - Nat.min k (length f))%nat with 0%nat by lia.
    rewrite skipn_O.
    assert (2 <= length (skipn 4 (firstn k f)))%nat by (rewrite skipn_length, firstn_length; lia).
    replace (2 - length (skipn 4 (firstn k f)))%nat with 0%nat by lia.
    rewrite firstn_O, app_nil_r. reflexivity. }
  rewrite Hs in Hl'. lia.
Qed.

(* without validation the trailing two bytes are never looked at *)
Theorem parse_front_novalidate_ck v body c1 c2 :
  valcksum v = false -> (6 <= length body)%nat -> length c1 = 2%nat -> length c2 = 2%nat ->
  parse_front v (body ++ c1) = parse_front v (body ++ c2).
Proof.
  intros Hv Hb H1 H2.
  destruct body as [|b0 [|b1 [|c [|i [|l1 [|l2 p]]]]]]; simpl in Hb; try lia.
  unfold parse_front. rewrite Hv.
  cbn [app]. cbn [length]. rewrite !app_length, H1, H2.
  rewrite !pyslice_Z by lia.
  replace (Z.to_nat (Z.of_nat (S (S (S (S (S (S (length p + 2))))))) - 2)) with (6 + length p)%nat by lia.
  change (Z.to_nat 2) with 2%nat. change (Z.to_nat 3) with 3%nat.
  change (Z.to_nat 4) with 4%nat. change (Z.to_nat 6) with 6%nat.
  cbn [skipn firstn Nat.sub].
  replace (6 + length p - 6)%nat with (length p) by lia.
  rewrite !firstn_app, Nat.sub_diag, !firstn_O, !app_nil_r, firstn_all. reflexivity.
Qed.

(* Src_serialize.v — UBXMessage.serialize against the model's. *)
From Coq Require Import ZArith List String Ascii Bool Lia ZifyBool Floats.SpecFloat.
From PyUbx Require Import Base Bytes Fletcher Frame PyFloat Types Strs Walk Consts Tables Msg PyMini PySrc Tac Bytes_lemmas Fletcher_lemmas Src_common.
Import ListNotations.
Open Scope Z_scope.

Lemma serialize_agree : mem_s "py_serialize" translated = true ->
  forall m : msg,
  py_serialize (gbytes (m_cksum m)) (gbytes (m_length m)) (optg (m_payload m)) (gbytes (m_cls m)) (gbytes (m_id m)) =
  Ok (Tup [gbytes (serialize m); Tup []; Tup []]).
Proof.
  intros Hin m. first [untranslated Hin | clear Hin].
  all: unfold py_serialize, serialize, optg, ubx_hdr.
  all: destruct (m_payload m); cbn [g_is_none gbytes gnone bind g_add]; rewrite <- ?app_assoc; reflexivity.
Qed.

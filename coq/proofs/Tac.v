(* Tac.v — shared tactic setup for proof files *)
From Coq Require Export ZArith Lia ZifyN ZifyNat ZifyBool.
Ltac Zify.zify_post_hook ::= Z.to_euclidean_division_equations.

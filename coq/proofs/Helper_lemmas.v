(* Helper_lemmas.v — att2idx / att2name invert the suffixing the message walk applies (C18):
   for a base name without '_' and any list of repeat indices >= 1,
   att2name (base ++ suffix idx) = base   and   att2idx (base ++ suffix idx) = idx. *)
From PyUbx Require Import Base Strs Helpers Tac.
Open Scope N_scope.

Definition no_us (s : string) : Prop := forall c, In c (list_ascii_of_string s) -> c <> underscore.

Lemma no_us_nil : no_us "".
Proof. intros c []. Qed.
Lemma no_us_cons c s : c <> underscore -> no_us s -> no_us (String c s).
Proof. intros Hc Hs d [<-|Hd]; [exact Hc|exact (Hs d Hd)]. Qed.
Lemma no_us_inv c s : no_us (String c s) -> c <> underscore /\ no_us s.
Proof. intros H. split; [apply H; left; reflexivity|intros d Hd; apply H; right; exact Hd]. Qed.
Lemma no_us_app a b : no_us a -> no_us b -> no_us (a ++ b).
Proof.
  induction a as [|c a IH]; cbn [append]; intros Ha Hb; [exact Hb|].
  apply no_us_inv in Ha. destruct Ha as [Hc Ha]. apply no_us_cons; auto.
Qed.

(* ---- split("_") ---- *)
Lemma app_String_assoc (a : string) c b : (a ++ String c b)%string = ((a ++ String c EmptyString) ++ b)%string.
Proof. induction a as [|d a IH]; cbn [append]; [reflexivity|now rewrite IH]. Qed.
Lemma app_empty_r (a : string) : (a ++ "")%string = a.
Proof. induction a as [|d a IH]; cbn [append]; [reflexivity|now rewrite IH]. Qed.

Lemma split_us_plain s rest cur : no_us s -> split_us (s ++ rest) cur = split_us rest (cur ++ s).
Proof.
  revert cur. induction s as [|c s IH]; intros cur Hs; cbn [append].
  - now rewrite app_empty_r.
  - apply no_us_inv in Hs. destruct Hs as [Hc Hs]. cbn [split_us].
    destruct (Ascii.eqb c underscore) eqn:E; [apply Ascii.eqb_eq in E; contradiction|].
    rewrite IH by exact Hs. now rewrite <- app_String_assoc.
Qed.
Lemma split_us_sep rest cur : split_us (String underscore rest) cur = cur :: split_us rest EmptyString.
Proof. cbn [split_us]. now rewrite Ascii.eqb_refl. Qed.

(* ---- decimal printing then int() ---- *)
Lemma N_of_digit d : d < 10 -> N_of_ascii (digit_char d) = 48 + d.
Proof. intros H. unfold digit_char. apply N_ascii_embedding. lia. Qed.

Lemma digit_not_us d : d < 10 -> digit_char d <> underscore.
Proof.
  intros H E. apply (f_equal N_of_ascii) in E. rewrite N_of_digit in E by exact H.
  change (N_of_ascii underscore) with 95 in E. lia.
Qed.

(* the value read back: generalised over the accumulator string *)
Lemma digits_aux_read f : forall n acc, n < 2 ^ N.of_nat f ->
  digits_val (digits_aux 10 digit_char f n acc) 0 = digits_val acc n.
Proof.
  induction f as [|f IH]; intros n acc Hn.
  - cbn [digits_aux]. change (2 ^ N.of_nat 0) with 1 in Hn. now replace n with 0 by lia.
  - cbn [digits_aux]. destruct (n =? 0) eqn:E.
    + apply N.eqb_eq in E. now subst n.
    + apply N.eqb_neq in E. rewrite IH.
      * cbn [digits_val]. rewrite N_of_digit by (apply N.mod_lt; lia).
        replace ((48 <=? 48 + n mod 10) && (48 + n mod 10 <=? 57))%bool with true
          by (pose proof (N.mod_lt n 10); lia).
        f_equal. pose proof (N.div_mod n 10). lia.
      * rewrite Nat2N.inj_succ, N.pow_succ_r' in Hn.
        apply N.div_lt_upper_bound; [lia|]. lia.
Qed.

Lemma digits_aux_no_us f : forall n acc, no_us acc -> no_us (digits_aux 10 digit_char f n acc).
Proof.
  induction f as [|f IH]; intros n acc Ha; cbn [digits_aux]; [exact Ha|].
  destruct (n =? 0); [exact Ha|]. apply IH. apply no_us_cons; [|exact Ha].
  apply digit_not_us. apply N.mod_lt. lia.
Qed.

Lemma dec_read n : digits_val (dec_of_N n) 0 = Some n.
Proof.
  unfold dec_of_N. destruct (n =? 0) eqn:E.
  - apply N.eqb_eq in E. subst n. reflexivity.
  - rewrite digits_aux_read; [reflexivity|].
    rewrite Nat2N.inj_succ, N2Nat.id, N.pow_succ_r'. pose proof (N.size_gt n). lia.
Qed.
Lemma dec_no_us n : no_us (dec_of_N n).
Proof.
  unfold dec_of_N. destruct (n =? 0).
  - apply no_us_cons; [discriminate|apply no_us_nil].
  - apply digits_aux_no_us, no_us_nil.
Qed.

Lemma pad2_read s : digits_val (pad2 s) 0 = digits_val s 0.
Proof. unfold pad2. destruct (Nat.ltb _ _); reflexivity. Qed.
Lemma pad2_no_us s : no_us s -> no_us (pad2 s).
Proof. unfold pad2. intros H. destruct (Nat.ltb _ _); [|exact H]. apply no_us_cons; [discriminate|exact H]. Qed.
Lemma pad2_nonempty s : pad2 s <> EmptyString.
Proof. unfold pad2. destruct s as [|c s]; [discriminate|]. destruct (Nat.ltb _ _); discriminate. Qed.

Definition idx_str (i : nat) : string := pad2 (dec_of_N (N.of_nat i)).
Lemma idx_str_int i : py_int_str (idx_str i) = Some (N.of_nat i).
Proof.
  unfold py_int_str, idx_str. pose proof (pad2_nonempty (dec_of_N (N.of_nat i))) as Hne.
  destruct (pad2 (dec_of_N (N.of_nat i))) eqn:E; [contradiction|]. rewrite <- E.
  rewrite pad2_read. apply dec_read.
Qed.
Lemma idx_str_no_us i : no_us (idx_str i).
Proof. apply pad2_no_us, dec_no_us. Qed.

(* ---- the suffix and its split ---- *)
Definition all_pos (idx : list nat) : Prop := Forall (fun i => i <> O) idx.

Lemma split_suffix idx : all_pos idx -> forall cur,
  split_us (suffix idx) cur = cur :: map idx_str idx.
Proof.
  induction idx as [|i t IH]; intros Hp cur; [reflexivity|].
  inversion Hp as [|? ? Hi Ht]; subst. cbn [suffix map].
  destruct (Nat.eqb i 0) eqn:E; [apply Nat.eqb_eq in E; contradiction|].
  change ("_" ++ pad2 (dec_of_N (N.of_nat i)))%string with (String underscore (idx_str i)).
  cbn [append]. rewrite split_us_sep. f_equal.
  rewrite split_us_plain by apply idx_str_no_us. cbn [append]. apply IH. exact Ht.
Qed.

Lemma split_name base idx : no_us base -> all_pos idx ->
  split_underscore (base ++ suffix idx) = base :: map idx_str idx.
Proof.
  intros Hb Hp. unfold split_underscore. rewrite split_us_plain by exact Hb.
  cbn [append]. apply split_suffix. exact Hp.
Qed.

(* att2name: the base name comes back, for every index path (nested groups included) *)
Theorem att2name_suffix base idx : no_us base -> all_pos idx -> att2name (base ++ suffix idx) = base.
Proof. intros Hb Hp. unfold att2name. now rewrite split_name. Qed.

Lemma go_map l : forall acc,
  (fix go (l : list string) (acc : list N) : idx_result :=
     match l with
     | [] => IdxMany (rev acc)
     | a :: t => match py_int_str a with Some n => go t (n :: acc) | None => IdxNone end
     end) (map idx_str l) acc = IdxMany (rev acc ++ map N.of_nat l).
Proof.
  induction l as [|i t IH]; intros acc; cbn [map].
  - now rewrite app_nil_r.
  - rewrite idx_str_int. rewrite IH. cbn [rev]. now rewrite <- app_assoc.
Qed.

(* att2idx: 0 for an ungrouped name, the index for one level, the tuple of indices for nested groups *)
Theorem att2idx_suffix base idx : no_us base -> all_pos idx ->
  att2idx (base ++ suffix idx) =
  match idx with
  | [] => IdxNone
  | [i] => IdxOne (N.of_nat i)
  | _ => IdxMany (map N.of_nat idx)
  end.
Proof.
  intros Hb Hp. unfold att2idx. rewrite split_name by assumption.
  destruct idx as [|i [|j t]]; cbn [map].
  - reflexivity.
  - now rewrite idx_str_int.
  -     rewrite !idx_str_int. rewrite go_map. reflexivity.
Qed.

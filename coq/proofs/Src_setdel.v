(* Src_setdel.v — UBXMessage.__setattr__ / __delattr__. *)
From Coq Require Import ZArith List String Ascii Bool Lia ZifyBool Floats.SpecFloat.
From PyUbx Require Import Base Bytes Fletcher Frame PyFloat Types Strs Walk Consts Tables Msg PyMini PySrc Tac Bytes_lemmas Fletcher_lemmas Src_common.
Import ListNotations.
Open Scope Z_scope.

Lemma setattr_agree : mem_s "py_setattr" translated = true ->
  forall (imm : bool) name value,
  py_setattr (gbool imm) name value =
  if imm then Raise EUBXMessage else Ok (Tup [gnone; Tup []; Tup [Call "super.__setattr__" [name; value] []]]).
Proof.
  intros Hin imm name value. first [untranslated Hin | clear Hin].
  all: unfold py_setattr. rewrite ?truth_gbool. destruct imm; reflexivity.
Qed.

Lemma delattr_agree : mem_s "py_delattr" translated = true ->
  forall (imm : bool) name,
  py_delattr (gbool imm) name =
  if imm then Raise EUBXMessage else Ok (Tup [gnone; Tup []; Tup [Call "super.__delattr__" [name] []]]).
Proof.
  intros Hin imm name. first [untranslated Hin | clear Hin].
  all: unfold py_delattr. rewrite ?truth_gbool. destruct imm; reflexivity.
Qed.

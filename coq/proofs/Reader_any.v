(* Reader_any.v — the quitonerror / parsing statements of C12 and C11 for EVERY stream implementation:
   S is any state type, rd / rdl are any functions (file, socket, a serial port whose reads come back short while
   data follows, a stream that invents bytes, ...), any fuel.  Framing is a function of the stream alone
   (read_all_interp), and the three error policies / the parsing flag only interpret the framing trace. *)
From PyUbx Require Import Base Bytes Reader Reader_generic Tac.
Open Scope N_scope.

Section Any.
Context {S P : Type}.
Variable rd : nat -> S -> bytes * S.
Variable rdl : S -> bytes * S.
Variable parse : N -> bytes -> result P.
Variable nmea_hdr : N -> bool.
Notation run c fuel s := (read_all rd rdl parse nmea_hdr c fuel s).
Notation events fuel s := (fst (trace rd rdl nmea_hdr fuel s)).

Lemma run_is_interp c fuel s :
  run c fuel s = interp parse c (fst (trace rd rdl nmea_hdr fuel s)) (snd (trace rd rdl nmea_hdr fuel s)).
Proof. rewrite read_all_interp. destruct (trace rd rdl nmea_hdr fuel s) as [l e]. reflexivity. Qed.

Theorem c12_ignore_log_any c fuel s : items (run (withqe c 0) fuel s) = items (run (withqe c 1) fuel s).
Proof. rewrite !run_is_interp. apply interp_ignore_log. Qed.

Theorem c12_handler_any c fuel s :
  reports (run (withqe c 1) fuel s) = rejections parse c (events fuel s) /\ reports (run (withqe c 0) fuel s) = [].
Proof. rewrite !run_is_interp. apply interp_log_reports. Qed.

Theorem c12_raise_any c fuel s :
  (items (run (withqe c 2) fuel s), raised (run (withqe c 2) fuel s)) = upto_reject parse c (events fuel s) /\
  reports (run (withqe c 2) fuel s) = [] /\
  exists rest, items (run (withqe c 0) fuel s) = fst (upto_reject parse c (events fuel s)) ++ rest /\
               (snd (upto_reject parse c (events fuel s)) = None -> rest = []).
Proof.
  rewrite !run_is_interp.
  destruct (interp_raise parse c (events fuel s) (snd (trace rd rdl nmea_hdr fuel s))) as [E1 E2].
  split; [exact E1|]. split; [exact E2|]. apply upto_reject_prefix.
Qed.

Theorem c11_parsing_off_any c fuel s :
  Forall (fun x => match fst x with
                   | TFrame p raw => passes c p = true -> exists v, parse p raw = Ok v
                   | _ => True end) (events fuel s) ->
  map fst (items (run (withparsing c false) fuel s)) = map fst (items (run (withparsing c true) fuel s)) /\
  Forall (fun it => snd it = None) (items (run (withparsing c false) fuel s)).
Proof. intros H. rewrite !run_is_interp. now apply interp_parsing_off. Qed.

Theorem c11_filter_any c F fuel s :
  parse_protocol_only parse -> quitonerror c <> 2 ->
  Forall (fun x => frame_ev nmea_hdr (fst x)) (events fuel s) ->
  items (run (withpf c F) fuel s) =
  filter (fun it => negb (N.land F (protocol nmea_hdr (fst it)) =? 0)) (items (run (withpf c 7) fuel s)).
Proof. intros Hp Hq Hf. rewrite !run_is_interp. now apply interp_filter. Qed.
End Any.

(* ---- the side condition of c11_filter_any holds for every stream whose read(n) returns at most n bytes ---- *)
Section Ev.
Context {S P : Type}.
Variable rd : nat -> S -> bytes * S.
Variable rdl : S -> bytes * S.
Variable nmea_hdr : N -> bool.
Hypothesis rd_le : forall n s, (length (fst (rd n s)) <= n)%nat.

Lemma read_bytes_cases n s :
  (exists d, fst (read_bytes rd n s) = Ok d /\ length d = n) \/
  fst (read_bytes rd n s) = Raise EEOF \/ fst (read_bytes rd n s) = Raise EUBXStream.
Proof.
  unfold read_bytes. destruct n as [|k]; [left; exists []; split; reflexivity|].
  pose proof (rd_le (Datatypes.S k) s) as Hl. destruct (rd (Datatypes.S k) s) as [d s']. cbn [fst] in Hl.
  destruct (length d) as [|m] eqn:El; [right; left; reflexivity|].
  destruct (Nat.ltb (Datatypes.S m) (Datatypes.S k)) eqn:Elt; [right; right; reflexivity|].
  left. exists d. split; [reflexivity|]. apply Nat.ltb_ge in Elt. lia.
Qed.

Lemma read_line_cases s :
  (exists d, fst (read_line rdl s) = Ok d) \/ fst (read_line rdl s) = Raise EEOF \/ fst (read_line rdl s) = Raise EUBXStream.
Proof.
  unfold read_line. destruct (rdl s) as [d s']. destruct d as [|x t]; [right; left; reflexivity|].
  destruct (last (x :: t) 0 =? 10); [left; eexists; reflexivity|right; right; reflexivity].
Qed.

Definition ok_out (r : result framed) : Prop :=
  match r with
  | Ok Noise => True
  | Ok (Frame p raw) => frame_ev nmea_hdr (TFrame p raw)
  | Raise e => e = EEOF \/ e = EUBXStream \/ e = EUBXParse
  end.

Ltac rb H := let d := fresh "d" in let E := fresh "E" in let L := fresh "L" in
  destruct H as [(d & E & L)|[E|E]].

Lemma frame1_ok s : ok_out (fst (frame1 rd rdl nmea_hdr s)).
Proof.
  unfold frame1, bindM, ret, raiseM.
  pose proof (read_bytes_cases 1 s) as H1. destruct (read_bytes rd 1 s) as [r1 s1]. cbn [fst] in H1.
  rb H1; subst r1; cbn [fst ok_out]; auto.
  destruct d as [|x1 [|? ?]]; try discriminate. clear L.
  destruct (negb (is_preamble x1)); [exact I|].
  pose proof (read_bytes_cases 1 s1) as H2. destruct (read_bytes rd 1 s1) as [r2 s2]. cbn [fst] in H2.
  rb H2; subst r2; cbn [fst ok_out]; auto.
  destruct d as [|x2 [|? ?]]; try discriminate. clear L.
  destruct ((x1 =? 181) && (x2 =? 98)) eqn:Eu.
  - pose proof (read_bytes_cases 4 s2) as H3. destruct (read_bytes rd 4 s2) as [r3 s3]. cbn [fst] in H3.
    rb H3; subst r3; cbn [fst ok_out]; auto.
    match goal with |- context [read_bytes rd ?n s3] => pose proof (read_bytes_cases n s3) as H4; destruct (read_bytes rd n s3) as [r4 s4] end.
    cbn [fst] in H4. rb H4; subst r4; cbn [fst ok_out]; auto.
    split; [auto|]. cbn [app protocol]. rewrite Eu. reflexivity.
  - destruct ((x1 =? 36) && nmea_hdr x2) eqn:En.
    + pose proof (read_line_cases s2) as H3. destruct (read_line rdl s2) as [r3 s3]. cbn [fst] in H3.
      destruct H3 as [(d & E)|[E|E]]; subst r3; cbn [fst ok_out]; auto.
      split; [auto|]. cbn [app protocol]. rewrite Eu, En. reflexivity.
    + destruct ((x1 =? 211) && (N.ldiff x2 3 =? 0)) eqn:Er; [|cbn [fst ok_out]; auto].
      pose proof (read_bytes_cases 1 s2) as H3. destruct (read_bytes rd 1 s2) as [r3 s3]. cbn [fst] in H3.
      rb H3; subst r3; cbn [fst ok_out]; auto.
      match goal with |- context [read_bytes rd ?n s3] => pose proof (read_bytes_cases n s3) as H4; destruct (read_bytes rd n s3) as [r4 s4] end.
      cbn [fst] in H4. rb H4; subst r4; cbn [fst ok_out]; auto.
      pose proof (read_bytes_cases 3 s4) as H5. destruct (read_bytes rd 3 s4) as [r5 s5]. cbn [fst] in H5.
      rb H5; subst r5; cbn [fst ok_out]; auto.
      split; [auto|]. cbn [app protocol]. rewrite Eu, En, Er. reflexivity.
Qed.

Lemma trace_frame_ev fuel : forall s, Forall (fun x => frame_ev nmea_hdr (fst x)) (fst (trace rd rdl nmea_hdr fuel s)).
Proof.
  induction fuel as [|f IH]; intros s; cbn [trace]; [constructor|].
  pose proof (frame1_ok s) as H. destruct (frame1 rd rdl nmea_hdr s) as [[[|p r]|e] s']; cbn [fst ok_out] in H.
  - specialize (IH s'). destruct (trace rd rdl nmea_hdr f s') as [l e]. cbn [fst] in *. constructor; [exact I|exact IH].
  - specialize (IH s'). destruct (trace rd rdl nmea_hdr f s') as [l e]. cbn [fst] in *. constructor; [exact H|exact IH].
  - destruct H as [->|[->| ->]].
    + constructor.
    + specialize (IH s'). destruct (trace rd rdl nmea_hdr f s') as [l e]. cbn [fst] in *. constructor; [left; reflexivity|exact IH].
    + specialize (IH s'). destruct (trace rd rdl nmea_hdr f s') as [l e]. cbn [fst] in *. constructor; [right; reflexivity|exact IH].
Qed.
End Ev.

(* C11 for every stream whose read(n) never returns more than n bytes *)
Theorem c11_filter_any_stream {S P : Type} (rd : nat -> S -> bytes * S) (rdl : S -> bytes * S)
  (parse : N -> bytes -> result P) (nmea_hdr : N -> bool) c F fuel s :
  (forall n s, (length (fst (rd n s)) <= n)%nat) ->
  parse_protocol_only parse -> quitonerror c <> 2 ->
  items (read_all rd rdl parse nmea_hdr (withpf c F) fuel s) =
  filter (fun it => negb (N.land F (protocol nmea_hdr (fst it)) =? 0)) (items (read_all rd rdl parse nmea_hdr (withpf c 7) fuel s)).
Proof. intros Hrd Hp Hq. apply c11_filter_any; auto. apply trace_frame_ev. exact Hrd. Qed.

From PyUbx Require Import Base Bytes Fletcher Frame Tac Bytes_lemmas Fletcher_lemmas Frame_lemmas.
Open Scope N_scope.

Lemma c05_sound v f r : wfb f -> valcksum v = true -> parse_front v f = Ok r -> WellFormed f.
Proof.
  intros Hw Hv H. destruct (parse_front_sound v f r Hw Hv H) as (c & i & p & ? & ? & ? & ? & ? & _).
  exists c, i, p. auto.
Qed.

Lemma c05_fields v f r : wfb f -> valcksum v = true -> parse_front v f = Ok r ->
  exists c i p, f = mk_frame c i p /\ f_cls r = [c] /\ f_id r = [i] /\
    f_payload r = match p with [] => None | _ => Some p end.
Proof.
  intros Hw Hv H. destruct (parse_front_sound v f r Hw Hv H) as (c & i & p & ? & ? & ? & ? & ? & ->).
  exists c, i, p. auto.
Qed.

Lemma c05_complete v f : WellFormed f -> exists r, parse_front v f = Ok r.
Proof.
  intros (c & i & p & Hc & Hi & Hp & Hn & ->). eexists. apply parse_front_complete; assumption.
Qed.

Lemma c05_reject_not_wf v f : wfb f -> valcksum v = true -> ~ WellFormed f -> parse_front v f = Raise EUBXParse.
Proof.
  intros Hw Hv Hn. destruct (parse_front_cases v f) as [[r Hr]|Hr]; [|exact Hr].
  exfalso. apply Hn. eapply c05_sound; eauto.
Qed.

Lemma c05_subst v l x y r : WellFormed (l ++ x :: r) -> y < 256 -> x <> y -> valcksum v = true ->
  parse_front v (l ++ y :: r) = Raise EUBXParse.
Proof.
  intros Hwf Hy Hne Hv. apply c05_reject_not_wf; [|assumption|].
  - apply WellFormed_wfb in Hwf. apply wfb_app in Hwf as [Hl Hr]. apply wfb_cons in Hr as [_ Hr].
    apply wfb_app. split; [assumption|]. apply wfb_cons. auto.
  - eapply subst_not_wellformed; eauto.
Qed.

Lemma c05_truncate v f k : WellFormed f -> (k < length f)%nat -> valcksum v = true ->
  parse_front v (firstn k f) = Raise EUBXParse.
Proof.
  intros Hwf Hk Hv. apply c05_reject_not_wf; [|assumption|].
  - apply wfb_firstn. now apply WellFormed_wfb.
  - now apply truncate_not_wellformed.
Qed.

(* a non-trivial state meets the hypotheses *)
Example c05_nonvacuous :
  WellFormed [181; 98; 1; 2; 0; 0; 3; 10] /\
  parse_front 1 [181; 98; 1; 2; 0; 0; 3; 10] = Ok {| f_cls := [1]; f_id := [2]; f_payload := None |} /\
  parse_front 1 [181; 98; 1; 2; 0; 0; 170; 187; 204; 3; 10] = Raise EUBXParse /\
  parse_front 1 [181; 98; 0; 0] = Raise EUBXParse.
Proof.
  split; [|split; [|split]]; try (vm_compute; reflexivity).
  exists 1, 2, []. repeat split; try lia. constructor.
Qed.

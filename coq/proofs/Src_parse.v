(* Src_parse.v — UBXReader.parse against the model's parse. *)
From Coq Require Import ZArith List String Ascii Bool Lia ZifyBool Floats.SpecFloat.
From PyUbx Require Import Base Bytes Fletcher Frame PyFloat Types Strs Walk Consts Tables Msg PyMini PySrc Tac Bytes_lemmas Fletcher_lemmas Src_common.
Import ListNotations.
Open Scope Z_scope.

(* parse(message, msgmode, validate, parsebitfield) for msgmode, validate non-negative ints and parsebitfield a bool:
   the source's body, with its final UBXMessage(...) call handed to the model's constructor, is the model's parse *)
Lemma parse_agree : mem_s "py_parse" translated = true ->
  forall msgmode validate bf message,
  (do c <- py_parse (gbytes message) (gint (Z.of_N msgmode)) (gint (Z.of_N validate)) (gbool bf); run_call c)
  = parse msgmode validate bf message.
Proof.
  intros Hin msgmode validate bf message. first [untranslated Hin | clear Hin].
  all: unfold py_parse, parse, parse_front, valcksum.
  all: cbn [g_len g_sub g_add g_band g_slice slice_of g_le g_lt g_in existsb gbytes gint bind g_eq pv_eq g_is_none gnone negb
       g_calc_checksum g_getinputmode g_bytes2val].
  all: rewrite ?(Z.land_comm 1 (Z.of_N validate)), ?truth_land1, ?bytes2val_U2, <- ?app_assoc, ?app_nil_r.
  all: cbn [bind g_eq pv_eq].
  all: atoms;
    cbn [bind orb andb negb run_call String.eqb Ascii.eqb Bool.eqb f_cls f_id f_payload];
    atoms; cbn [bind orb andb negb run_call String.eqb Ascii.eqb Bool.eqb f_cls f_id f_payload];
    try reflexivity; try (exfalso; lia);
    cbn [gbytes gint]; rewrite ?N2Z.id, ?truth_gbool;
    atoms; try (exfalso; lia); cbn [bind orb andb negb run_call String.eqb Ascii.eqb Bool.eqb f_cls f_id f_payload];
    cbn [gbytes gint]; rewrite ?N2Z.id, ?truth_gbool;
    try match goal with |- context [Z.of_N ?m <? 0] => destruct (Z.of_N m <? 0) eqn:?; [exfalso; lia|] end;
    cbn [orb]; reflexivity.
Qed.

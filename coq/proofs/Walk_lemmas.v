(* Walk_lemmas.v — generic facts about the definition walk *)
From PyUbx Require Import Base Bytes PyFloat Types Strs Walk Tac Bytes_lemmas.
Open Scope Z_scope.

(* induction principle for the nested inductive adef *)
Section Ind.
Variable P : adef -> Prop.
Hypothesis Hs : forall n t, P (ASingle n t).
Hypothesis Hsc : forall n t s, P (AScaled n t s).
Hypothesis Hb : forall n t fl, P (ABits n t fl).
Hypothesis Hg : forall n r body, Forall P body -> P (AGroup n r body).
Fixpoint adef_ind' (d : adef) : P d :=
  match d with
  | ASingle n t => Hs n t
  | AScaled n t s => Hsc n t s
  | ABits n t fl => Hb n t fl
  | AGroup n r body =>
      Hg n r body ((fix go (l : list adef) : Forall P l :=
                      match l with [] => Forall_nil _ | x :: t => Forall_cons _ (adef_ind' x) (go t) end) body)
  end.
End Ind.

Section W.
Variable atttype : list (N * list kind).
Variable readonly_names : list string.
Variable cfgdb : list (string * (Z * aty)).
Variable storsize : list (Z * Z).
Variable scalround : Z.
Variable cls id : bytes.
Variable mode : N.
Variable bf : bool.
Variable kw : option attrs.
Variable budget : nat.

Notation walk := (walk atttype readonly_names cfgdb storsize scalround cls id mode bf kw budget).
Notation walk_list := (walk_list atttype readonly_names cfgdb storsize scalround cls id mode bf kw budget).
Notation single := (single atttype readonly_names scalround kw).
Notation bitfield := (bitfield readonly_names kw).
Notation bits_loop := (bits_loop readonly_names kw).
Notation cfgval_loop := (cfgval_loop readonly_names cfgdb storsize).
Notation count := (count cls id mode).
Notation set_attr := (set_attr readonly_names).

(* the top-level rep_loop, to re-express the anonymous inner fix *)
Fixpoint rep_loop (c : Z) (body : list adef) (idx : list nat) (fuel : nat) (i : Z) (s : wst) : result wst :=
  match fuel with
  | O => Raise EOther
  | S f =>
    if c <? i then Ok s
    else match walk_list body (idx ++ [Z.to_nat i])%list s with
         | Ok s1 => rep_loop c body idx f (i + 1) s1
         | Raise e => Raise e
         end
  end.

Lemma walk_group n r body idx s :
  walk idx (AGroup n r body) s =
  if is_cfgval cls id mode then
    match kw with
    | Some _ => Raise EUBXMessage
    | None =>
        do s' <- cfgval_loop (S (length (w_pay s))) (w_off s) (length (w_pay s) - w_off s) s;
        Ok {| w_off := w_off s; w_pay := w_pay s'; w_attrs := w_attrs s'; w_trace := w_trace s' |}
    end
  else match count r body s with
       | Raise e => Raise e
       | Ok c => if Z.of_nat budget <? c then Raise EOther else rep_loop c body idx budget 1 s
       end.
Proof.
  cbn [Walk.walk]. destruct (is_cfgval cls id mode); [reflexivity|].
  destruct (count r body s) as [c|e]; [|reflexivity].
  destruct (Z.of_nat budget <? c); [reflexivity|].
  assert (E: forall ds idx' s0,
     (fix walk_list0 (ds : list adef) (idx'0 : list nat) (s1 : wst) {struct ds} : result wst :=
        match ds with
        | [] => Ok s1
        | d' :: t => match walk idx'0 d' s1 with Ok s2 => walk_list0 t idx'0 s2 | Raise e => Raise e end
        end) ds idx' s0 = walk_list ds idx' s0).
  { induction ds as [|d ds IHd]; intros; cbn; [reflexivity|]. destruct (walk idx' d s0); auto. }
  match goal with |- ?f budget 1 s = _ =>
    assert (G: forall fuel i s0, f fuel i s0 = rep_loop c body idx fuel i s0) end.
  { induction fuel as [|f IH]; intros i s0; cbn [rep_loop]; [reflexivity|].
    destruct (c <? i); [reflexivity|]. rewrite E.
    destruct (walk_list body (idx ++ [Z.to_nat i])%list s0); [apply IH|reflexivity]. }
  apply G.
Qed.

(* ---- a generic invariant-preservation principle for the walk ----
   If every primitive step (single, bitfield, cfgval) preserves a relation R between the state
   before and after, and R is reflexive and transitive, then walk preserves R. *)
Section Inv.
Variable R : wst -> wst -> Prop.
Hypothesis R_refl : forall s, R s s.
Hypothesis R_trans : forall a b c, R a b -> R b c -> R a c.
Hypothesis R_single : forall n t sc idx s s', single n t sc idx s = Ok s' -> R s s'.
Hypothesis R_bits : forall t fl idx s s', bitfield t fl idx s = Ok s' -> R s s'.
Hypothesis R_cfg : forall s s1,
  kw = None -> is_cfgval cls id mode = true ->
  cfgval_loop (S (length (w_pay s))) (w_off s) (length (w_pay s) - w_off s) s = Ok s1 ->
  R s {| w_off := w_off s; w_pay := w_pay s1; w_attrs := w_attrs s1; w_trace := w_trace s1 |}.

Lemma walk_list_inv ds :
  Forall (fun d => forall idx s s', walk idx d s = Ok s' -> R s s') ds ->
  forall idx s s', walk_list ds idx s = Ok s' -> R s s'.
Proof.
  induction 1 as [|d ds Hd _ IH]; intros idx s s' H; cbn in H.
  - injection H as <-. apply R_refl.
  - destruct (walk idx d s) as [s1|] eqn:E; [|discriminate].
    eapply R_trans; [eapply Hd; eauto|eapply IH; eauto].
Qed.

Theorem walk_inv d : forall idx s s', walk idx d s = Ok s' -> R s s'.
Proof.
  induction d as [n t|n t sc|n t fl|n r body IHb] using adef_ind'; intros idx s s' H.
  - cbn in H. eapply R_single; eauto.
  - cbn in H. eapply R_single; eauto.
  - cbn in H. destruct bf; [eapply R_bits|eapply R_single]; eauto.
  - rewrite walk_group in H. destruct (is_cfgval cls id mode) eqn:Ecfg.
    + destruct kw eqn:Ek; [discriminate|].
      destruct (cfgval_loop _ _ _ s) as [s1|] eqn:E; [|discriminate]. cbn in H. injection H as <-.
      apply R_cfg; auto.
    + destruct (count r body s) as [c|]; [|discriminate].
      destruct (Z.of_nat budget <? c); [discriminate|].
      revert H. generalize 1 as i. generalize s. generalize budget as fuel.
      induction fuel as [|f IHf]; intros s0 i H; cbn in H; [discriminate|].
      destruct (c <? i); [injection H as <-; apply R_refl|].
      destruct (walk_list body (idx ++ [Z.to_nat i])%list s0) as [s1|] eqn:E; [|discriminate].
      eapply R_trans; [eapply walk_list_inv; eauto|eapply IHf; eauto].
Qed.

Corollary walk_list_inv_all ds idx s s' : walk_list ds idx s = Ok s' -> R s s'.
Proof.
  apply walk_list_inv. apply Forall_forall. intros d _. apply walk_inv.
Qed.
End Inv.

(* ---- the same principle for the set of exceptions the walk can raise ---- *)
Section Exn.
Variable A : exn -> Prop.
Hypothesis A_other : A EOther.
Hypothesis A_single : forall n t sc idx s e, single n t sc idx s = Raise e -> A e.
Hypothesis A_bits : forall t fl idx s e, bitfield t fl idx s = Raise e -> A e.
Hypothesis A_cfg : forall fuel off len s e, cfgval_loop fuel off len s = Raise e -> A e.
Hypothesis A_count : forall r body s e, count r body s = Raise e -> A e.
Hypothesis A_msg : A EUBXMessage.

Lemma walk_list_exn ds :
  Forall (fun d => forall idx s e, walk idx d s = Raise e -> A e) ds ->
  forall idx s e, walk_list ds idx s = Raise e -> A e.
Proof.
  induction 1 as [|d ds Hd _ IH]; intros idx s e H; cbn in H; [discriminate|].
  destruct (walk idx d s) as [s1|e1] eqn:E; [eapply IH; eauto|]. injection H as <-. eapply Hd; eauto.
Qed.

Theorem walk_exn d : forall idx s e, walk idx d s = Raise e -> A e.
Proof.
  induction d as [n t|n t sc|n t fl|n r body IHb] using adef_ind'; intros idx s e H.
  - cbn in H. eapply A_single; eauto.
  - cbn in H. eapply A_single; eauto.
  - cbn in H. destruct bf; [eapply A_bits|eapply A_single]; eauto.
  - rewrite walk_group in H. destruct (is_cfgval cls id mode).
    + destruct kw; [injection H as <-; exact A_msg|].
      destruct (cfgval_loop _ _ _ s) as [s1|e1] eqn:E; [discriminate|].
      cbn in H. injection H as <-. eapply A_cfg; eauto.
    + destruct (count r body s) as [c|e1] eqn:Ec; [|injection H as <-; eapply A_count; eauto].
      destruct (Z.of_nat budget <? c); [injection H as <-; exact A_other|].
      revert H. generalize 1 as i. generalize s. generalize budget as fuel.
      induction fuel as [|f IHf]; intros s0 i H; cbn in H.
      * injection H as <-. exact A_other.
      * destruct (c <? i); [discriminate|].
        destruct (walk_list body (idx ++ [Z.to_nat i])%list s0) as [s1|e1] eqn:E.
        -- eapply IHf; eauto.
        -- injection H as <-. eapply walk_list_exn; eauto.
Qed.

Corollary walk_list_exn_all ds idx s e : walk_list ds idx s = Raise e -> A e.
Proof. apply walk_list_exn. apply Forall_forall. intros d _. apply walk_exn. Qed.
End Exn.

End W.

(* Sphp_lemmas.v — val2sphp (C18): the standard-precision part is the truncated quotient, the high-precision part
   is within half a unit of 100 x the fractional part, and never exceeds 100 in magnitude.  Flocq error analysis
   (division, subtraction, multiplication are Flocq's correctly rounded operations); axioms: the four real-number
   axioms of the standard library. *)
From Coq Require Import ZArith Reals Lia Lra Psatz Floats.SpecFloat.
From Flocq Require Import Core.Core IEEE754.BinarySingleNaN.
From PyUbx Require Import Base PyFloat Types Helpers Flocq_bridge Scaled_bound.
Open Scope R_scope.

#[local] Instance Hp : Prec_gt_0 53 := eq_refl.
#[local] Instance Hm : Prec_lt_emax 53 1024 := eq_refl.

Lemma fsub_B (a b : binary_float 53 1024) :
  fsub (B2SF a) (B2SF b) = B2SF (Bminus mode_NE a b).
Proof.
  unfold fsub. change PyFloat.prec with 53%Z. change PyFloat.emax with 1024%Z.
  destruct a as [sa|sa| |sa ma ea Ha]; destruct b as [sb|sb| |sb mb eb Hb]; try reflexivity;
    try (cbn; destruct (Bool.eqb _ _); reflexivity).
  cbn [B2SF SFsub Bminus]. rewrite (normalize_equiv' 53 1024 Hp Hm).
  unfold Fplus_naive. rewrite cond_Zopp_negb. reflexivity.
Qed.

Lemma fin_B a : fin a -> exists b : binary_float 53 1024, a = B2SF b /\ is_finite b = true /\ B2R b = R_of a.
Proof.
  intros [Fa Va]. exists (SF2B a Va). split; [now rewrite B2SF_SF2B|]. split; [now rewrite is_finite_SF2B|].
  unfold R_of. now rewrite B2R_SF2B.
Qed.

Lemma fsub_fin a b : fin a -> fin b ->
  (fin (fsub a b) /\ R_of (fsub a b) = RN (R_of a - R_of b)) \/ (exists s, fsub a b = S754_infinity s).
Proof.
  intros Ha Hb. destruct (fin_B a Ha) as (ba & -> & Fa & Ra). destruct (fin_B b Hb) as (bb & -> & Fb & Rb).
  rewrite fsub_B. pose proof (Bminus_correct 53 1024 Hp Hm mode_NE ba bb Fa Fb) as H.
  rewrite <- Ra, <- Rb.
  destruct (Rlt_bool _ _).
  - destruct H as (Hr & Hf & _). left. split.
    + split; [rewrite is_finite_SF_B2SF; exact Hf|apply valid_binary_B2SF].
    + unfold R_of. rewrite SF2R_B2SF. exact Hr.
  - destruct H as [H _]. right. rewrite H. unfold binary_overflow. cbn. eexists. reflexivity.
Qed.

Lemma round_int_fin x r : fin x -> py_round_int x = Ok r -> Rabs (IZR r - R_of x) <= / 2.
Proof.
  intros [Fx _]. destruct x as [s|s| |s m e]; try discriminate; unfold py_round_int.
  - intros H; injection H as <-. unfold R_of. cbn. replace (0 - 0) with 0 by ring. rewrite Rabs_R0. lra.
  - rewrite R_of_finite. destruct (0 <=? e)%Z eqn:Ee; intros H;
      match type of H with Ok ?t = Ok _ => assert (Hr : r = t) by congruence end; subst r; clear H.
    + rewrite F2R_pos_exp by lia.
      replace (IZR (if s then - (Z.pos m * 2 ^ e) else Z.pos m * 2 ^ e) - IZR (cond_Zopp s (Z.pos m) * 2 ^ e)) with 0.
      { rewrite Rabs_R0. lra. }
      destruct s; cbn [cond_Zopp]; [rewrite <- Z.mul_opp_l|]; ring.
    + assert (He : (e < 0)%Z) by lia. rewrite F2R_neg_exp by exact He.
      assert (Hden : (0 < 2 ^ (- e))%Z) by (apply Z.pow_pos_nonneg; lia).
      destruct (rhe_spec (Z.pos m) (2 ^ (- e)) Hden ltac:(lia)) as [H0 H1].
      set (r := rhe (Z.pos m) (2 ^ (- e))) in *. set (den := (2 ^ (- e))%Z) in *.
      assert (Hd : 0 < IZR den) by (apply IZR_lt; lia).
      apply IZR_le in H1. rewrite mult_IZR, abs_IZR, minus_IZR, mult_IZR in H1.
      assert (Hcore : Rabs (IZR r - IZR (Z.pos m) / IZR den) <= / 2).
      { replace (IZR r - IZR (Z.pos m) / IZR den) with ((IZR r * IZR den - IZR (Z.pos m)) / IZR den) by (field; lra).
        apply abs_div_le; [exact Hd|]. lra. }
      destruct s; cbn [cond_Zopp].
      * rewrite !opp_IZR. replace (- IZR r - - IZR (Z.pos m) / IZR den) with (- (IZR r - IZR (Z.pos m) / IZR den)) by (field; lra).
        rewrite Rabs_Ropp. exact Hcore.
      * exact Hcore.
Qed.

Lemma hp_core f e1 h1 e2 h2 hp :
  Rabs f <= 1 -> Rabs e1 <= u53 -> Rabs h1 <= tiny -> Rabs e2 <= u53 -> Rabs h2 <= tiny ->
  Rabs (hp - ((f * (1 + e1) + h1) * 100 * (1 + e2) + h2)) <= / 2 ->
  Rabs (f - hp / 100) <= 5 / 1000 + / 1000000000000 /\ Rabs hp <= 100 + 6 / 10.
Proof.
  intros Hf H1 G1 H2 G2 Hh.
  assert (Hu : 0 < u53 <= / 1000000000000000) by (unfold u53; lra).
  assert (Ht : 0 < tiny <= / 1000000000000000000000000000000).
  { unfold tiny. split.
    - apply Rdiv_lt_0_compat; [lra|]. apply pow_lt. lra.
    - replace (1 / 10 ^ 300) with (/ 10 ^ 300) by (unfold Rdiv; ring).
      apply Rinv_le_contravar; [lra|].
      replace 1000000000000000000000000000000 with (10 ^ 30) by lra.
      apply Rle_pow; [lra|]. repeat constructor. }
  set (y := (f * (1 + e1) + h1) * 100 * (1 + e2) + h2) in *.
  (* y = 100 f + err, |err| small *)
  assert (Herr : Rabs (y - 100 * f) <= / 1000000000000).
  { replace (y - 100 * f) with (100 * (f * (e1 + e2 + e1 * e2)) + 100 * (h1 * (1 + e2)) + h2) by (unfold y; ring).
    assert (Ha : Rabs (e1 + e2 + e1 * e2) <= 3 * u53).
    { eapply Rle_trans; [apply abs_add; [apply abs_add; [exact H1|exact H2]|apply abs_mul; [exact H1|exact H2]]|]. nra. }
    assert (Hb : Rabs (f * (e1 + e2 + e1 * e2)) <= 1 * (3 * u53)) by (apply abs_mul; assumption).
    assert (Hc : Rabs (h1 * (1 + e2)) <= tiny * (1 + u53)) by (apply abs_mul; [assumption|apply abs_1p; assumption]).
    assert (H100 : Rabs 100 <= 100) by (rewrite Rabs_pos_eq; lra).
    eapply Rle_trans; [apply abs_add; [apply abs_add; [apply abs_mul; [exact H100|exact Hb]|apply abs_mul; [exact H100|exact Hc]]|exact G2]|].
    unfold u53 in *. nra. }
  clearbody y. apply Rabs_le_inv in Herr. apply Rabs_le_inv in Hh. apply Rabs_le_inv in Hf.
  split; apply Rabs_le; lra.
Qed.

(* val2sphp(val, scale): (standard precision part, high precision part) of val / scale.  For every finite val and
   non-zero finite scale whose quotient fits 53 bits: sp is the truncated quotient, hp is within half a unit (plus
   rounding noise) of 100 x the fractional part, and |hp| <= 100 *)
Theorem val2sphp_consistent v sc sp hp :
  fin v -> fin sc -> val2sphp v sc = Ok (sp, hp) -> (Z.abs sp < 2 ^ 53)%Z ->
  exists q, fdiv v sc = Ok q /\ sp = Ztrunc (R_of q) /\
            Rabs (R_of q - IZR sp - IZR hp / 100) <= 5 / 1000 + / 1000000000000 /\ (Z.abs hp <= 100)%Z.
Proof.
  intros Fv Fs H Hsp. unfold val2sphp in H.
  destruct (fdiv v sc) as [q|] eqn:Eq; [|discriminate]. cbn [bind] in H.
  destruct (fdiv_fin v sc q Fv Fs Eq) as [[Fq Rq]|[sq Hinf]].
  2:{ subst q. cbn in H. discriminate. }
  rewrite (int_of_float_fin q Fq) in H. cbn [bind] in H.
  set (sp0 := Ztrunc (R_of q)) in *.
  unfold py_float_of_int in H. destruct (is_inf (f_of_Z sp0)) eqn:Ei; [discriminate|]. cbn [bind] in H.
  destruct (py_round_int (fmul (fsub q (f_of_Z sp0)) (f_of_Z 100))) as [hp0|] eqn:Eh; [|discriminate].
  cbn [bind] in H. injection H as <- <-.
  destruct (f_of_Z_fin sp0 Hsp) as [Fsp Rsp].
  destruct (f_of_Z_fin 100 ltac:(cbn; lia)) as [F100 R100].
  destruct (fsub_fin q (f_of_Z sp0) Fq Fsp) as [[Fd Rd]|[sd Hinf]].
  2:{ rewrite Hinf in Eh. destruct (f_of_Z 100) as [s1|s1| |s1 m1 e1] eqn:E100; try (destruct F100; discriminate); cbn in Eh; try discriminate.
      all: unfold R_of in R100; cbn in R100; lra. }
  pose proof (fmul_fin (fsub q (f_of_Z sp0)) (f_of_Z 100) Fd F100) as Hy. cbv zeta in Hy.
  destruct Hy as [[Fy Ry]|[sy Hinf]].
  2:{ rewrite Hinf in Eh. cbn in Eh. discriminate. }
  pose proof (round_int_fin _ _ Fy Eh) as Hhp.
  exists q. split; [reflexivity|]. split; [reflexivity|].
  rewrite Ry, Rd, Rsp, R100 in Hhp.
  set (f := R_of q - IZR sp0) in *.
  destruct (RN_err f) as (e1 & h1 & He1 & Hh1 & E1). rewrite E1 in Hhp.
  destruct (RN_err ((f * (1 + e1) + h1) * 100)) as (e2 & h2 & He2 & Hh2 & E2). rewrite E2 in Hhp.
  assert (Hf : Rabs f <= 1).
  { unfold f, sp0. replace (R_of q - IZR (Ztrunc (R_of q))) with (- (IZR (Ztrunc (R_of q)) - R_of q)) by ring.
    rewrite Rabs_Ropp. apply trunc_err. }
  destruct (hp_core f e1 h1 e2 h2 (IZR hp0) Hf He1 Hh1 He2 Hh2 Hhp) as [Hc1 Hc2].
  split.
  - replace (R_of q - IZR sp0 - IZR hp0 / 100) with (f - IZR hp0 / 100) by (unfold f; ring). exact Hc1.
  - rewrite <- abs_IZR in Hc2.
    assert (Hlt : IZR (Z.abs hp0) < IZR 101) by (eapply Rle_lt_trans; [exact Hc2|]; lra).
    apply lt_IZR in Hlt. lia.
Qed.

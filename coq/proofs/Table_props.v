(* Table_props.v — obligations on the generated tables, discharged by vm_compute over the whole (finite)
   table as found in the working tree.  The `known_*` lists are the recorded findings (known_findings.json);
   any OTHER failing entry breaks the corresponding lemma. *)
From PyUbx Require Import Base Bytes Frame PyFloat Types Strs Walk Consts Tables Msg WfDef Tac.
Open Scope Z_scope.

(* ---------------- C16 ---------------- *)
Definition known_c16 : list (N * string * rule) :=
  [(0%N, "AID-ALP-ACK", RUnreachable); (0%N, "SEC-UNIQID-V2", RUnreachable); (0%N, "UBX-NOMINAL", RUnreachable);
   (0%N, "RXM-PMP-V0", RUnreachable); (0%N, "RXM-PMP-V1", RUnreachable);
   (1%N, "CFG-NMEAv0", RUnreachable); (1%N, "CFG-NMEAvX", RUnreachable);
   (0%N, "CFG-FIXSEED", RCollide); (1%N, "CFG-FIXSEED", RCollide); (0%N, "CFG-TP", RCollide); (1%N, "CFG-TP", RCollide);
   (0%N, "SEC-OSNMA", RGroupSize); (1%N, "ESF-MEAS", RGroupSize);
   (0%N, "FOO-BAR", RBadType); (1%N, "CFG-NVS", RDupName);
   (0%N, "CFG-NAV5", RDupName); (1%N, "CFG-NAV5", RDupName); (0%N, "CFG-SMGR", RDupName); (1%N, "CFG-SMGR", RDupName);
   (0%N, "CFG-ESFWT", RDupName); (1%N, "CFG-ESFWT", RDupName)]%string.

Definition failure_eqb (a b : N * string * rule) : bool :=
  let '(m1, n1, r1) := a in let '(m2, n2, r2) := b in (m1 =? m2)%N && String.eqb n1 n2 && rule_eqb r1 r2.
Definition is_known_c16 (f : N * string * rule) : bool := existsb (failure_eqb f) known_c16.
Definition has_known_c16 (me : N * (string * list adef)) : bool :=
  existsb (fun k => let '(m, n, _) := k in (m =? fst me)%N && String.eqb n (fst (snd me))) known_c16.

(* every grammar violation in the shipped GET/SET/POLL tables is a recorded finding *)
Lemma c16_tables_wf : forallb is_known_c16 table_failures = true.
Proof. vm_compute. reflexivity. Qed.

(* ... and every other entry obeys the whole grammar *)
Lemma c16_entries_wf :
  forallb (fun me => has_known_c16 me || match entry_rules me with [] => true | _ => false end) all_entries = true.
Proof. vm_compute. reflexivity. Qed.

Lemma c16_msgid_classes : forallb msgid_class_ok msgids = true.
Proof. vm_compute. reflexivity. Qed.

(* consequently: a nominal instance of every declared (message, mode) can be built from keywords and parsed
   back, in both bitfield views, exposing pairwise distinct attribute names *)
Lemma c16_usable :
  forallb (fun me => has_known_c16 me || (nominal_ok true (snd (snd me)) && nominal_ok false (snd (snd me)))) all_entries = true.
Proof. vm_compute. reflexivity. Qed.

(* every variant selector named in VARIANTS is one the model knows *)
Definition selector_names : list string :=
  ["get_cfgtp5_dict"; "get_mga_dict"; "get_rxmpmreq_dict"; "get_rxmpmp_dict"; "get_rxmrlm_dict"; "get_cfgnmea_dict";
   "get_aopstatus_dict"; "get_relposned_dict"; "get_timvcocal_dict"; "get_cfgdat_dict"; "get_secsig_dict";
   "get_alpsrv_dict"]%string.
Lemma c16_variants_known : forallb (fun v => mem_s (snd v) selector_names) variants = true.
Proof. vm_compute. reflexivity. Qed.

(* ---------------- C17 ---------------- *)
Definition known_c17_set : list string := ["AID-ALP"; "ESF-RESETALG"; "LOG-ERASE"; "LOG-STRING"; "NAV-RESETODO"]%string.
Definition known_c17_poll : list string := ["AID-ALM"; "AID-AOP"; "AID-EPH"]%string.

Lemma c17_set_table : forallb (fun e => mem_s (fst e) known_c17_set || mode_entry_ok 1%N e) payloads_set = true.
Proof. vm_compute. reflexivity. Qed.
Lemma c17_poll_table : forallb (fun e => mem_s (fst e) known_c17_poll || mode_entry_ok 2%N e) payloads_poll = true.
Proof. vm_compute. reflexivity. Qed.

(* getinputmode only looks at the class/id bytes and the total length *)
Lemma c17_inputmode_of data : getinputmode data = inputmode_of (pyslice data 2 4) (Z.of_nat (length data)).
Proof. reflexivity. Qed.

(* from 11 bytes on the length no longer matters *)
Lemma c17_long k t : 11 <= t -> inputmode_of k t = inputmode_of k 11.
Proof.
  intros H. unfold inputmode_of.
  replace (t =? im_len_poll) with false by (unfold im_len_poll; lia).
  replace (11 =? im_len_poll) with false by reflexivity.
  replace (t <=? im_short_len) with false by (unfold im_short_len; lia).
  replace (11 <=? im_short_len) with false by reflexivity. reflexivity.
Qed.

Lemma c17_setpoll v bf f : parse 3 v bf f = parse (getinputmode f) v bf f.
Proof.
  unfold parse. assert (H: (getinputmode f <? 4)%N = true) by (unfold getinputmode; destruct (_ || _ || _); reflexivity).
  rewrite H. cbn [N.ltb N.compare negb]. destruct (parse_front v f); [|reflexivity]. cbn [bind].
  replace (3 =? 3)%N with true by reflexivity.
  assert (E: (getinputmode f =? 3)%N = false) by (unfold getinputmode; destruct (_ || _ || _); reflexivity).
  rewrite E. reflexivity.
Qed.

(* ---------------- C14 ---------------- *)
Definition known_dup_ids : list Z := [271843348].          (* 0x10340014 *)
Definition known_noninverse : list string := ["CFG_BDS_USE_PRN_1_TO_5"]%string.

Lemma c14_sizecodes : forallb cfg_sizecode_ok cfgdb = true.
Proof. vm_compute. reflexivity. Qed.
Lemma c14_names_nodup : nodup_s cfg_names = true.
Proof. vm_compute. reflexivity. Qed.
Lemma c14_ids_nodup_partial : forallb (fun z => existsb (Z.eqb z) known_dup_ids) (dup_ids cfg_ids) = true.
Proof. vm_compute. reflexivity. Qed.
Lemma c14_lookup_inverse_partial :
  forallb (fun e => mem_s (fst e) known_noninverse || cfg_lookup_inverse e) cfgdb = true.
Proof. vm_compute. reflexivity. Qed.

(* undocumented key ids: named CFG_0x<hex>, typed X<storage size of the top hex digit> *)
Lemma c14_unknown_key key d n :
  cfg_find key cfgdb = None -> 0 <= key -> top_hex_digit key = d -> d <= 9 -> assoc_Z d storsize = Some n ->
  cfgkey2name_ key = Ok (("CFG_0x" ++ hex_of_N (Z.to_N key))%string, T lX (Some (Z.to_nat n))).
Proof.
  intros Hf Hk Hd Hd9 Hs. unfold cfgkey2name_, cfgkey2name. rewrite Hf.
  replace (key <? 0) with false by lia. rewrite Hd. replace (9 <? d) with false by lia. rewrite Hs. reflexivity.
Qed.

Lemma c14_limit_set l t items : cfg_limit_set < Z.of_nat (length items) -> config_set l t items = Raise EUBXMessage.
Proof. intros H. unfold config_set. replace (cfg_limit_set <? Z.of_nat (length items)) with true by lia. reflexivity. Qed.
Lemma c14_limit_del l t keys : cfg_limit_del < Z.of_nat (length keys) -> config_del l t keys = Raise EUBXMessage.
Proof. intros H. unfold config_del. replace (cfg_limit_del <? Z.of_nat (length keys)) with true by lia. reflexivity. Qed.
Lemma c14_limit_poll l t keys : cfg_limit_poll < Z.of_nat (length keys) -> config_poll l t keys = Raise EUBXMessage.
Proof. intros H. unfold config_poll. replace (cfg_limit_poll <? Z.of_nat (length keys)) with true by lia. reflexivity. Qed.
Lemma c14_limit_is_64 : cfg_limit_set = 64 /\ cfg_limit_del = 64 /\ cfg_limit_poll = 64.
Proof. repeat split; reflexivity. Qed.

(* Src_lencksum.v — UBXMessage._do_len_checksum against the model's len_cksum. *)
From Coq Require Import ZArith List String Ascii Bool Lia ZifyBool Floats.SpecFloat.
From PyUbx Require Import Base Bytes Fletcher Frame PyFloat Types Strs Walk Consts Tables Msg PyMini PySrc Tac Bytes_lemmas Fletcher_lemmas Src_common.
Import ListNotations.
Open Scope Z_scope.

Lemma do_len_checksum_agree : mem_s "py_do_len_checksum" translated = true ->
  forall (p : option bytes) cls id,
  py_do_len_checksum (optg p) (gbytes cls) (gbytes id) =
  do lc <- len_cksum cls id (match p with Some b => b | None => [] end);
  Ok (Tup [gnone; Tup [gbytes (fst lc); gbytes (snd lc)]; Tup []]).
Proof.
  intros Hin p cls id. first [untranslated Hin | clear Hin].
  all: unfold py_do_len_checksum, len_cksum, optg. cbv [U2 lU].
  all: destruct p as [b|];
    cbn [g_is_none gbytes gnone gint bind g_len g_val2bytes g_add g_calc_checksum fst snd];
    match goal with |- context [v2b ?v ?t] => destruct (v2b v t) as [l|e] end;
    cbn [bind g_add gbytes g_calc_checksum fst snd]; rewrite <- ?app_assoc; reflexivity.
Qed.

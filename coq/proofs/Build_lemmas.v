(* Build_lemmas.v — the keyword route over whole definitions (C03, C15): the payload is the concatenation,
   in definition order, of one encoding per field; each encoding is a function of that field's own value
   alone, so no value can alter the bytes of another field; values come from the keyword of the field's
   suffixed name or the nominal value. *)
From PyUbx Require Import Base Bytes PyFloat Types Strs Walk Tac Bytes_lemmas Walk_lemmas Bits_lemmas Trace_lemmas.
Open Scope Z_scope.
Open Scope list_scope.

Section B.
Variable atttype : list (N * list kind).
Variable readonly_names : list string.
Variable cfgdb : list (string * (Z * aty)).
Variable storsize : list (Z * Z).
Variable scalround : Z.
Variable cls id : bytes.
Variable mode : N.
Variable bf : bool.
Variable k : attrs.
Variable budget : nat.

Notation walk_list := (walk_list atttype readonly_names cfgdb storsize scalround cls id mode bf (Some k) budget).
Notation single := (single atttype readonly_names scalround (Some k)).
Notation bitfield := (bitfield readonly_names (Some k)).
Notation bits_loop := (bits_loop readonly_names (Some k)).
Notation set_attr := (set_attr readonly_names).
Notation val2bytes := (val2bytes atttype).

(* the bytes one record contributes: a function of its kind, width and value only *)
Definition encode_of (r : frec) : result bytes :=
  match fr_kind r with
  | FField t None => val2bytes (fr_val r) t
  | FField t (Some a) => do q <- py_div_scale (fr_val r) a; do z <- py_int_of_float q; val2bytes (PInt z) t
  | FBits _ _ => match fr_val r with PInt bfv => int_enc false (fr_size r) bfv | _ => Raise EOther end
  | FCfg _ _ => Raise EOther
  end.

Fixpoint enc_all (l : list frec) : result bytes :=
  match l with [] => Ok [] | r :: t => do b <- encode_of r; do bs <- enc_all t; Ok (b ++ bs) end.

Lemma enc_all_app l1 l2 b1 b2 : enc_all l1 = Ok b1 -> enc_all l2 = Ok b2 -> enc_all (l1 ++ l2) = Ok (b1 ++ b2).
Proof.
  revert b1. induction l1 as [|r l1 IH]; cbn [enc_all app]; intros b1 H1 H2.
  - injection H1 as <-. exact H2.
  - destruct (encode_of r) as [b|]; [cbn [bind] in *|discriminate].
    destruct (enc_all l1) as [bs|]; [cbn [bind] in *|discriminate]. injection H1 as <-.
    rewrite (IH bs eq_refl H2). cbn [bind]. now rewrite app_assoc.
Qed.

(* the flags of a bitfield OR-ed together, as the keywords give them *)
Fixpoint pack (flags : list (string * aty)) (idx : list nat) (acc off : Z) : result Z :=
  match flags with
  | [] => Ok acc
  | (key, keyt) :: rest =>
      do atts <- attsiz keyt;
      do z <- flag_value (kwget k (key ++ suffix idx)%string (PInt 0)) atts;
      pack rest idx (Z.lor acc (Z.shiftl z off)) (off + atts)
  end.

(* where a record's value comes from *)
Definition from_kw (r : frec) : Prop :=
  match fr_kind r with
  | FField t _ => exists nv, nomval t = Ok nv /\ fr_val r = kwget k (fr_base r ++ suffix (fr_idx r))%string nv
  | FBits _ fl => exists z, pack fl (fr_idx r) 0 0 = Ok z /\ fr_val r = PInt z
  | FCfg _ _ => False
  end.

Definition RB (s s' : wst) : Prop :=
  exists l, w_trace s' = l ++ w_trace s /\
            chain (w_off s) (rev l) (w_off s') /\
            Forall from_kw l /\
            exists bs, enc_all (rev l) = Ok bs /\ w_pay s' = w_pay s ++ bs.

Lemma RB_refl s : RB s s.
Proof. exists []. split; [reflexivity|]. split; [constructor|]. split; [constructor|]. exists []. split; [reflexivity|now rewrite app_nil_r]. Qed.

Lemma RB_trans a b c : RB a b -> RB b c -> RB a c.
Proof.
  intros (l1 & Ht1 & Hc1 & Hf1 & b1 & He1 & Hp1) (l2 & Ht2 & Hc2 & Hf2 & b2 & He2 & Hp2).
  exists (l2 ++ l1). split; [rewrite Ht2, Ht1; now rewrite app_assoc|].
  split; [rewrite rev_app_distr; eapply chain_app; eauto|].
  split; [apply Forall_app; auto|].
  exists (b1 ++ b2). split; [rewrite rev_app_distr; apply enc_all_app; auto|].
  rewrite Hp2, Hp1. now rewrite app_assoc.
Qed.

Ltac bindok H := match type of H with
  | bind ?r _ = Ok _ => let x := fresh "x" in let E := fresh "E" in destruct r as [x|] eqn:E; [cbn [bind] in H|discriminate]
  end.

Lemma set_attr_frame' n v s s' : set_attr n v s = Ok s' ->
  w_pay s' = w_pay s /\ w_off s' = w_off s /\ w_trace s' = w_trace s.
Proof. unfold Walk.set_attr. destruct (mem_s n readonly_names); [discriminate|]. intros H; injection H as <-. auto. Qed.

Lemma single_RB n t sc idx s s' : single n t sc idx s = Ok s' -> RB s s'.
Proof.
  unfold Walk.single, RB. intros H. cbv zeta in H.
  bindok H. rename x into asiz. bindok H. destruct x as [v pay].
  bindok E0. rename x into nv. bindok E0. rename x into valb. injection E0 as <- <-.
  bindok H. rename x into s2. injection H as <-. cbn [w_pay w_trace w_off].
  assert (Hs2: w_pay s2 = w_pay s ++ valb /\ w_trace s2 = w_trace s).
  { destruct (starts_with "_HP" _).
    - bindok E0. bindok E0. bindok E0. apply set_attr_frame' in E0 as (A & _ & C). cbn in A, C. auto.
    - apply set_attr_frame' in E0 as (A & _ & C). cbn in A, C. auto. }
  destruct Hs2 as [Hp Ht]. eexists [_]. split; [rewrite Ht; reflexivity|]. split; [|split].
  - cbn [rev app]. constructor; [reflexivity|]. cbn [fr_size]. constructor.
  - constructor; [|constructor]. unfold from_kw. cbn [fr_kind fr_val fr_base fr_idx]. eauto.
  - exists valb. split; [|exact Hp]. cbn [rev app enc_all]. unfold encode_of. cbn [fr_kind fr_val].
    destruct sc as [a|]; rewrite E2; cbn [bind]; now rewrite app_nil_r.
Qed.

Lemma bits_loop_pack fl : forall idx acc off s r, bits_loop fl idx acc off s = Ok r ->
  pack fl idx acc off = Ok (fst r) /\ w_pay (snd r) = w_pay s /\ w_off (snd r) = w_off s /\ w_trace (snd r) = w_trace s.
Proof.
  induction fl as [|[key keyt] fl IH]; intros idx acc off s r H; cbn [Walk.bits_loop pack] in *.
  - injection H as <-. auto.
  - bindok H. rename x into atts. cbn [bind]. bindok H. destruct x as [v acc'].
    bindok E0. rename x into z. injection E0 as <- <-. cbn [bind].
    bindok H. rename x into s1. apply IH in H as (-> & -> & -> & ->). split; [reflexivity|].
    destruct (starts_with "reserved" key); [injection E0 as <-; auto|].
    apply set_attr_frame' in E0 as (A & B & C). auto.
Qed.

Lemma bitfield_RB t fl idx s s' : bitfield t fl idx s = Ok s' -> RB s s'.
Proof.
  unfold Walk.bitfield, RB. intros H. cbv zeta in H. bindok H. rename x into bsiz. bindok H. destruct x as [bfv s1].
  bindok H. rename x into pay. bindok E1. rename x into b. injection E1 as <-.
  injection H as <-. cbn [w_pay w_trace w_off].
  apply bits_loop_pack in E0 as (Hk & Hp & _ & Ht). cbn [fst snd] in *.
  eexists [_]. split; [rewrite Ht; reflexivity|]. split; [|split].
  - cbn [rev app]. constructor; [reflexivity|]. cbn [fr_size]. constructor.
  - constructor; [|constructor]. unfold from_kw. cbn [fr_kind fr_val fr_idx]. eauto.
  - exists b. split; [|now rewrite Hp]. cbn [rev app enc_all]. unfold encode_of. cbn [fr_kind fr_val fr_size].
    rewrite E2. cbn [bind]. now rewrite app_nil_r.
Qed.

(* every definition list, every index path, every keyword dictionary, every budget *)
Theorem walk_list_build ds idx s s' : walk_list ds idx s = Ok s' -> RB s s'.
Proof.
  apply (walk_list_inv_all atttype readonly_names cfgdb storsize scalround cls id mode bf (Some k) budget RB).
  - exact RB_refl.
  - exact RB_trans.
  - intros; eapply single_RB; eauto.
  - intros; eapply bitfield_RB; eauto.
  - intros s0 s1 Hk. discriminate.
Qed.

Corollary build_from_empty ds s' :
  walk_list ds [] {| w_off := O; w_pay := []; w_attrs := []; w_trace := [] |} = Ok s' ->
  chain O (rev (w_trace s')) (w_off s') /\ Forall from_kw (w_trace s') /\ enc_all (rev (w_trace s')) = Ok (w_pay s').
Proof.
  intros H. apply walk_list_build in H as (l & Ht & Hc & Hf & bs & He & Hp). cbn in *.
  rewrite app_nil_r in Ht. subst l. subst bs. auto.
Qed.
End B.

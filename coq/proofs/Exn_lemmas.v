(* Exn_lemmas.v — which exceptions the definition walk can raise (C08 parse half, C15) *)
From PyUbx Require Import Base Bytes Fletcher Frame PyFloat Types Strs Walk Consts Tables Msg WfDef.
From PyUbx Require Import Tac Bytes_lemmas Walk_lemmas Msg_lemmas.
From Coq Require Import Floats.SpecFloat.
Open Scope Z_scope.

(* the exception classes _do_attributes translates or lets through as UBX errors, plus the model's own
   "declined" marker *)
Definition base_exn (e : exn) : Prop :=
  e = EAttribute \/ e = EIndex \/ e = EStruct \/ e = EType \/ e = EValue \/ e = EOverflow \/
  e = EUBXMessage \/ e = EUBXType \/ e = EOther.

Lemma bind_raise {A B} (r : result A) (k : A -> result B) e :
  bind r k = Raise e -> r = Raise e \/ exists a, r = Ok a /\ k a = Raise e.
Proof. destruct r as [a|e']; cbn; [eauto|intros H; injection H as <-; auto]. Qed.

Ltac be := unfold base_exn; tauto.

(* ---- primitives ---- *)
Lemma attsiz_exn t e : attsiz t = Raise e -> e = EValue.
Proof. destruct t as [|l [n|]]; cbn; congruence. Qed.
Lemma attsiz_nat_exn t e : attsiz_nat t = Raise e -> e = EValue.
Proof. destruct t as [|l [n|]]; cbn; congruence. Qed.

Lemma int_enc_exn sg w z e : int_enc sg w z = Raise e -> e = EOverflow.
Proof.
  unfold int_enc. destruct sg; [destruct w; [destruct (z =? 0)|destruct (_ && _)]|destruct (_ && _)]; congruence.
Qed.

Lemma py_float_of_int_exn z e : py_float_of_int z = Raise e -> e = EOverflow.
Proof. unfold py_float_of_int. destruct (is_inf _); congruence. Qed.

Lemma arr_dec_exn n : forall b e, arr_dec n b = Raise e -> e = EIndex.
Proof.
  induction n as [|n IH]; intros b e H; cbn in H; [discriminate|].
  destruct b as [|x t]; [congruence|]. destruct (arr_dec n t) eqn:E; cbn in H; [discriminate|].
  injection H as <-. eapply IH; eauto.
Qed.

Lemma arr_enc_exn n : forall l e, arr_enc n l = Raise e -> e = EIndex \/ e = EAttribute \/ e = EOverflow.
Proof.
  induction n as [|n IH]; intros l e H; cbn [arr_enc] in H; [discriminate|].
  destruct l as [|v l]; [injection H as <-; auto|].
  destruct v; try (injection H as <-; auto).
  apply bind_raise in H as [H|(b & _ & H)]; [apply int_enc_exn in H; auto|].
  apply bind_raise in H as [H|(r & _ & H)]; [eapply IH; eauto|discriminate].
Qed.

Lemma bytes2val_exn b t e : bytes2val b t = Raise e -> base_exn e.
Proof.
  unfold bytes2val. destruct t as [|l sz]; [discriminate|].
  destruct (_ || _); [discriminate|]. destruct (is_int_letter l); [discriminate|].
  destruct (_ =? lR)%N.
  { intros H. apply bind_raise in H as [H|(n & _ & H)]; [apply attsiz_exn in H; subst; be|].
    destruct (n =? 4); destruct (negb _); try discriminate; injection H as <-; be. }
  destruct (_ =? lA)%N; [|intros H; injection H as <-; be].
  intros H. apply bind_raise in H as [H|(n & _ & H)]; [apply attsiz_nat_exn in H; subst; be|].
  apply bind_raise in H as [H|(xs & _ & H)]; [apply arr_dec_exn in H; subst; be|discriminate].
Qed.

Lemma nomval_exn t e : nomval t = Raise e -> base_exn e.
Proof.
  unfold nomval. destruct t as [|l sz]; [discriminate|].
  destruct (_ || _).
  { intros H. apply bind_raise in H as [H|(n & _ & H)]; [apply attsiz_nat_exn in H; subst; be|discriminate]. }
  destruct (_ =? lR)%N; [discriminate|]. destruct (is_int_letter l); [discriminate|].
  destruct (_ =? lA)%N; [|intros H; injection H as <-; be].
  intros H. apply bind_raise in H as [H|(n & _ & H)]; [apply attsiz_nat_exn in H; subst; be|discriminate].
Qed.

Lemma b32_round_exn f e : b32_round f = Raise e -> e = EOverflow.
Proof. unfold b32_round. destruct f; try discriminate. destruct (is_inf _); congruence. Qed.

(* with the generated ATTTYPE every admitted letter has a branch: `valb` is always bound *)
Lemma val2bytes_exn v t e : val2bytes atttype v t = Raise e -> base_exn e.
Proof.
  unfold val2bytes.
  destruct (assoc_N (letter_of t) atttype) as [ks|] eqn:Ea; [|intros H; injection H as <-; be].
  destruct (negb _); [intros H; injection H as <-; be|].
  destruct (_ =? lX)%N eqn:EX.
  { destruct v; try (intros H; injection H as <-; be).
    intros H. apply bind_raise in H as [H|(n & _ & H)]; [apply attsiz_exn in H; subst; be|].
    destruct (negb _); [injection H as <-; be|discriminate]. }
  destruct (_ =? lC)%N eqn:EC.
  { destruct v; try discriminate; intros H; injection H as <-; be. }
  destruct (is_int_letter _) eqn:EI.
  { destruct v; try (intros H; injection H as <-; be).
    intros H. apply bind_raise in H as [H|(n & _ & H)]; [apply attsiz_nat_exn in H; subst; be|].
    apply int_enc_exn in H; subst; be. }
  destruct (_ =? lR)%N eqn:ER.
  { intros H. apply bind_raise in H as [H|(n & _ & H)]; [apply attsiz_exn in H; subst; be|].
    apply bind_raise in H as [H|(f & _ & H)].
    - destruct v; try (injection H as <-; be); [apply py_float_of_int_exn in H; subst; be|discriminate].
    - destruct (n =? 4); [|discriminate].
      apply bind_raise in H as [H|(g & _ & H)]; [apply b32_round_exn in H; subst; be|discriminate]. }
  destruct (_ =? lA)%N eqn:EA.
  { intros H. apply bind_raise in H as [H|(n & _ & H)]; [apply attsiz_nat_exn in H; subst; be|].
    destruct v; try (injection H as <-; be).
    destruct (negb _); [injection H as <-; be|].
    apply arr_enc_exn in H as [-> | [-> | ->]]; be. }
  (* no other letter is in ATTTYPE *)
  exfalso. unfold atttype in Ea. cbn [assoc_N] in Ea.
  unfold lX, lC, lR, lA, is_int_letter, lE, lI, lL, lU in *.
  repeat (match type of Ea with (if ?c then _ else _) = _ => destruct c eqn:?; [lia|] end). discriminate.
Qed.

Lemma py_mul_scale_exn v s e : py_mul_scale v s = Raise e -> base_exn e.
Proof.
  unfold py_mul_scale. destruct v; destruct s; try (intros H; injection H as <-; be); try discriminate;
  intros H; apply bind_raise in H as [H|(ff & _ & H)]; try discriminate; apply py_float_of_int_exn in H; subst; be.
Qed.

Lemma py_round_nd_exn nd f e : py_round_nd nd f = Raise e -> e = EOverflow.
Proof.
  unfold py_round_nd. destruct f; try discriminate. destruct (_ =? 0); [discriminate|].
  destruct (SFdiv_core_binary _ _ _ _ _ _) as [[mz ez] lz]. destruct (is_inf _); congruence.
Qed.

Lemma py_round12_exn nd v e : py_round12 nd v = Raise e -> base_exn e.
Proof.
  unfold py_round12. destruct v; try (intros H; injection H as <-; be); try discriminate.
  intros H. apply bind_raise in H as [H|(r & _ & H)]; [apply py_round_nd_exn in H; subst; be|discriminate].
Qed.

Lemma py_add_exn a b e : py_add a b = Raise e -> base_exn e.
Proof.
  unfold py_add. destruct a; destruct b; try (intros H; injection H as <-; be); try discriminate;
  intros H; apply bind_raise in H as [H|(ff & _ & H)]; try discriminate; apply py_float_of_int_exn in H; subst; be.
Qed.

Lemma py_int_of_float_exn f e : py_int_of_float f = Raise e -> base_exn e.
Proof. unfold py_int_of_float. destruct f; try discriminate; intros H; injection H as <-; be. Qed.

(* division by the scale: ZeroDivisionError only when the scale is zero *)
Definition zero_scale (s : scale) : bool :=
  match s with SInt z => z =? 0 | SFloat b => is_fzero (b64_of_bits b) end.

Lemma int_truediv_exn a b e : int_truediv a b = Raise e -> (e = EZeroDiv /\ b = 0) \/ e = EOverflow.
Proof.
  unfold int_truediv. destruct (Z.eqb_spec b 0); [intros H; injection H as <-; auto|].
  destruct (a =? 0); [discriminate|].
  destruct (SFdiv_core_binary _ _ _ _ _ _) as [[mz ez] lz]. destruct (is_inf _); [|discriminate].
  intros H; injection H as <-; auto.
Qed.
Lemma fdiv_exn a b e : fdiv a b = Raise e -> e = EZeroDiv /\ is_fzero b = true.
Proof. unfold fdiv. destruct (is_fzero b) eqn:E; [intros H; injection H as <-; auto|discriminate]. Qed.

Lemma py_div_scale_exn v s e : py_div_scale v s = Raise e ->
  base_exn e \/ e = EZeroDiv.
Proof.
  unfold py_div_scale. destruct v; destruct s; try (intros H; injection H as <-; left; be).
  - intros H. apply int_truediv_exn in H as [[-> _]| ->]; [auto|left; be].
  - intros H. apply bind_raise in H as [H|(ff & _ & H)]; [apply py_float_of_int_exn in H; subst; left; be|].
    apply fdiv_exn in H as [-> _]. auto.
  - intros H. apply bind_raise in H as [H|(gg & _ & H)]; [apply py_float_of_int_exn in H; subst; left; be|].
    apply fdiv_exn in H as [-> _]. auto.
  - intros H. apply fdiv_exn in H as [-> _]. auto.
Qed.

Lemma flag_value_exn v a e : flag_value v a = Raise e -> base_exn e.
Proof.
  unfold flag_value. destruct v; try (intros H; injection H as <-; be).
  - destruct (_ && _); [discriminate|]. intros H; injection H as <-; be.
  - destruct (fcompare_Z f 0) as [[| |]|]; destruct (fcompare_Z f (2 ^ a)) as [[| |]|]; intros H; injection H as <-; be.
Qed.

Lemma set_attr_exn ro n v s e : set_attr ro n v s = Raise e -> e = EAttribute.
Proof. unfold set_attr. destruct (mem_s n ro); congruence. Qed.
Lemma get_attr_exn s n e : get_attr s n = Raise e -> e = EAttribute.
Proof. unfold get_attr. destruct (assoc_s n (w_attrs s)); congruence. Qed.

(* ------------------------------------------------------------------ *)
(* ZeroDivisionError needs a zero scale or an empty variable-by-size group in the DEFINITION *)
Definition zero_scale' (s : scale) : bool :=
  match s with SInt z => (z =? 0) || is_fzero (f_of_Z z) | SFloat b => is_fzero (b64_of_bits b) end.

Definition bad_lengroup (body : list adef) : bool :=
  match lengroup body with Ok lg => lg =? 0 | Raise _ => false end.

Fixpoint zdp (d : adef) : bool :=
  match d with
  | AScaled _ _ s => zero_scale' s
  | AGroup _ r body =>
      (match r with RVar => bad_lengroup body | _ => false end) ||
      (fix ex (l : list adef) : bool := match l with [] => false | x :: t => zdp x || ex t end) body
  | _ => false
  end.
Definition zdp_list (l : list adef) : bool := existsb zdp l.

Lemma zdp_group n r body : zdp (AGroup n r body) = (match r with RVar => bad_lengroup body | _ => false end) || zdp_list body.
Proof. cbn [zdp]. f_equal. Qed.

Definition A (d : adef) (e : exn) : Prop := base_exn e \/ (e = EZeroDiv /\ zdp d = true).

Lemma py_div_scale_exn' v s e : py_div_scale v s = Raise e -> base_exn e \/ (e = EZeroDiv /\ zero_scale' s = true).
Proof.
  unfold py_div_scale. destruct v; destruct s; try (intros H; injection H as <-; left; be).
  - intros H. apply int_truediv_exn in H as [[-> ->]| ->]; [right; auto|left; be].
  - intros H. apply bind_raise in H as [H|(ff & _ & H)]; [apply py_float_of_int_exn in H; subst; left; be|].
    apply fdiv_exn in H as [-> Hz]. right. auto.
  - intros H. apply bind_raise in H as [H|(gg & Hg & H)]; [apply py_float_of_int_exn in H; subst; left; be|].
    apply fdiv_exn in H as [-> Hz]. right. split; [reflexivity|]. cbn [zero_scale'].
    unfold py_float_of_int in Hg. destruct (is_inf (f_of_Z z)); [discriminate|]. injection Hg as <-. rewrite Hz. apply orb_true_r.
  - intros H. apply fdiv_exn in H as [-> Hz]. right. auto.
Qed.

Section WalkExn.
Variable cls id : bytes.
Variable mode : N.
Variable bf : bool.
Variable kw : option attrs.
Variable bud : nat.

Notation walk := (walk atttype readonly_names cfgdb storsize scalround cls id mode bf kw bud).
Notation walk_list := (walk_list atttype readonly_names cfgdb storsize scalround cls id mode bf kw bud).
Notation single := (single atttype readonly_names scalround kw).
Notation bitfield := (bitfield readonly_names kw).
Notation bits_loop := (bits_loop readonly_names kw).
Notation cfgval_loop := (cfgval_loop readonly_names cfgdb storsize).
Notation count := (count cls id mode).

Lemma single_exn n t sc idx s e : single n t sc idx s = Raise e ->
  base_exn e \/ (e = EZeroDiv /\ match sc with Some a => zero_scale' a = true | None => False end).
Proof.
  unfold Walk.single. intros H.
  apply bind_raise in H as [H|(asiz & _ & H)].
  { destruct t; [discriminate|]. apply attsiz_nat_exn in H; subst; left; be. }
  apply bind_raise in H as [H|(vp & _ & H)].
  { destruct kw as [k|].
    - apply bind_raise in H as [H|(nv & _ & H)]; [apply nomval_exn in H; auto|].
      apply bind_raise in H as [H|(valb & _ & H)]; [|discriminate].
      destruct sc as [a|]; [|apply val2bytes_exn in H; auto].
      apply bind_raise in H as [H|(q & _ & H)]; [apply py_div_scale_exn' in H; tauto|].
      apply bind_raise in H as [H|(z & _ & H)]; [apply py_int_of_float_exn in H; auto|].
      apply val2bytes_exn in H; auto.
    - apply bind_raise in H as [H|(v0 & _ & H)]; [apply bytes2val_exn in H; auto|].
      apply bind_raise in H as [H|(v & _ & H)]; [|discriminate].
      destruct sc as [a|]; [|discriminate].
      apply bind_raise in H as [H|(m & _ & H)]; [apply py_mul_scale_exn in H; auto|].
      apply py_round12_exn in H; auto. }
  destruct vp as [v pay].
  apply bind_raise in H as [H|(s2 & _ & H)]; [|discriminate].
  destruct (starts_with "_HP" _).
  - apply bind_raise in H as [H|(b & _ & H)]; [apply get_attr_exn in H; subst; left; be|].
    apply bind_raise in H as [H|(sum & _ & H)]; [apply py_add_exn in H; auto|].
    apply bind_raise in H as [H|(r & _ & H)]; [apply py_round12_exn in H; auto|].
    apply set_attr_exn in H; subst; left; be.
  - apply set_attr_exn in H; subst; left; be.
Qed.

Lemma bits_loop_exn fl : forall idx bfv off s e, bits_loop fl idx bfv off s = Raise e -> base_exn e.
Proof.
  induction fl as [|[key keyt] fl IH]; intros idx bfv off s e H; cbn [Walk.bits_loop] in H; [discriminate|].
  apply bind_raise in H as [H|(atts & _ & H)]; [apply attsiz_exn in H; subst; be|].
  apply bind_raise in H as [H|(vb & _ & H)].
  { destruct kw; [|discriminate].
    apply bind_raise in H as [H|(z & _ & H)]; [apply flag_value_exn in H; auto|discriminate]. }
  destruct vb as [v b'].
  apply bind_raise in H as [H|(s' & _ & H)]; [|eapply IH; eauto].
  destruct (starts_with "reserved" key); [discriminate|apply set_attr_exn in H; subst; be].
Qed.

Lemma bitfield_exn t fl idx s e : bitfield t fl idx s = Raise e -> base_exn e.
Proof.
  unfold Walk.bitfield. intros H.
  apply bind_raise in H as [H|(bsiz & _ & H)]; [apply attsiz_nat_exn in H; subst; be|].
  apply bind_raise in H as [H|(r & _ & H)]; [eapply bits_loop_exn; eauto|].
  destruct r as [bfv s'].
  apply bind_raise in H as [H|(pay & _ & H)]; [|discriminate].
  destruct kw; [|discriminate].
  apply bind_raise in H as [H|(b & _ & H)]; [apply int_enc_exn in H; subst; be|discriminate].
Qed.

Lemma cfgkey2name_exn key e : cfgkey2name cfgdb storsize key = Raise e -> base_exn e.
Proof.
  unfold cfgkey2name. destruct (cfg_find key cfgdb); [discriminate|].
  destruct (key <? 0); [intros H; injection H as <-; be|].
  destruct (9 <? _); [intros H; injection H as <-; be|].
  destruct (assoc_Z _ _); [discriminate|intros H; injection H as <-; be].
Qed.

Lemma cfgval_loop_exn fuel : forall off len s e, cfgval_loop fuel off len s = Raise e -> base_exn e.
Proof.
  induction fuel as [|f IH]; intros off len s e H; cbn [Walk.cfgval_loop] in H; [injection H as <-; be|].
  destruct (Nat.ltb off len); [|discriminate].
  apply bind_raise in H as [H|(na & _ & H)]; [apply cfgkey2name_exn in H; auto|].
  destruct na as [name t].
  apply bind_raise in H as [H|(atts & _ & H)]; [apply attsiz_nat_exn in H; subst; be|].
  apply bind_raise in H as [H|(v & _ & H)]; [apply bytes2val_exn in H; auto|].
  apply bind_raise in H as [H|(s' & _ & H)]; [apply set_attr_exn in H; subst; be|].
  eapply IH; eauto.
Qed.

Lemma member_size_exn d e : member_size d = Raise e -> base_exn e.
Proof.
  destruct d as [n t|n t s|n t fl|n r body]; cbn; try (intros H; apply attsiz_exn in H; subst; be).
  - intros H; injection H as <-; be.
  - destruct r; intros H; injection H as <-; be.
Qed.
Lemma lengroup_exn body : forall e, lengroup body = Raise e -> base_exn e.
Proof.
  induction body as [|d t IH]; intros e H; cbn [lengroup] in H; [discriminate|].
  apply bind_raise in H as [H|(a & _ & H)]; [eapply member_size_exn; eauto|].
  apply bind_raise in H as [H|(b & _ & H)]; [eapply IH; eauto|discriminate].
Qed.

Lemma count_exn r body s e : count r body s = Raise e ->
  base_exn e \/ (e = EZeroDiv /\ r = RVar /\ bad_lengroup body = true).
Proof.
  unfold Walk.count. destruct r as [k|a|]; [discriminate| |].
  - intros H. apply bind_raise in H as [H|(g & _ & H)]; [apply get_attr_exn in H; subst; left; be|].
    apply bind_raise in H as [H|(g' & _ & H)].
    + destruct (is_esfmeas_set cls id mode); [|discriminate].
      destruct (truthy _); [|discriminate]. destruct g; try discriminate; injection H as <-; left; be.
    + destruct g'; try discriminate; injection H as <-; left; be.
  - intros H. apply bind_raise in H as [H|(lg & Hl & H)]; [apply lengroup_exn in H; auto|].
    destruct (Z.eqb_spec lg 0); [|discriminate]. injection H as <-. right. repeat split.
    unfold bad_lengroup. rewrite Hl. subst. reflexivity.
Qed.

Lemma A_sub n r body d' e : In d' body -> A d' e -> A (AGroup n r body) e.
Proof.
  intros Hin [Hb|[-> Hz]]; [left; exact Hb|]. right. split; [reflexivity|].
  rewrite zdp_group. apply orb_true_iff. right. unfold zdp_list. apply existsb_exists. eauto.
Qed.

Lemma walk_list_exn_d ds :
  Forall (fun d => forall idx s e, walk idx d s = Raise e -> A d e) ds ->
  forall idx s e, walk_list ds idx s = Raise e -> exists d, In d ds /\ A d e.
Proof.
  induction 1 as [|d ds Hd _ IH]; intros idx s e H; cbn [Walk.walk_list] in H; [discriminate|].
  destruct (walk idx d s) as [s1|e1] eqn:E.
  - destruct (IH _ _ _ H) as (d' & Hin & Ha). exists d'. split; [right; exact Hin|exact Ha].
  - injection H as <-. exists d. split; [left; reflexivity|eapply Hd; eauto].
Qed.

Lemma rep_loop_exn n r c body idx :
  Forall (fun d => forall idx s e, walk idx d s = Raise e -> A d e) body ->
  forall fuel i s e,
  rep_loop atttype readonly_names cfgdb storsize scalround cls id mode bf kw bud c body idx fuel i s = Raise e ->
  A (AGroup n r body) e.
Proof.
  intros Hb. induction fuel as [|f IHf]; intros i s0 e H; cbn [rep_loop] in H; [injection H as <-; left; be|].
  destruct (c <? i); [discriminate|].
  destruct (walk_list body (idx ++ [Z.to_nat i])%list s0) as [s1|e1] eqn:E.
  - eapply IHf; eauto.
  - injection H as <-. apply (walk_list_exn_d body Hb) in E as (d' & Hin & Ha). eapply A_sub; eauto.
Qed.

Theorem walk_exn_d d : forall idx s e, walk idx d s = Raise e -> A d e.
Proof.
  induction d as [n t|n t sc|n t fl|n r body IHb] using adef_ind'; intros idx s e H.
  - cbn [Walk.walk] in H. apply single_exn in H as [H|[_ []]]. left; exact H.
  - cbn [Walk.walk] in H. apply single_exn in H as [H|[-> Hz]]; [left; exact H|right; auto].
  - cbn [Walk.walk] in H. destruct bf; [apply bitfield_exn in H; left; exact H|].
    apply single_exn in H as [H|[_ []]]. left; exact H.
  - rewrite walk_group in H. destruct (is_cfgval cls id mode).
    + destruct kw; [injection H as <-; left; be|].
      destruct (cfgval_loop _ _ _ s) as [s1|e1] eqn:E; [discriminate|].
      cbn [bind] in H. injection H as <-. left. eapply cfgval_loop_exn; eauto.
    + destruct (count r body s) as [c|e1] eqn:Ec.
      2:{ injection H as <-. apply count_exn in Ec as [Hb|(-> & -> & Hz)]; [left; exact Hb|].
          right. split; [reflexivity|]. rewrite zdp_group, Hz. reflexivity. }
      destruct (Z.of_nat bud <? c); [injection H as <-; left; be|].
      eapply rep_loop_exn; eauto.
Qed.

Corollary walk_list_exn_all ds idx s e : walk_list ds idx s = Raise e ->
  base_exn e \/ (e = EZeroDiv /\ zdp_list ds = true).
Proof.
  intros H. apply walk_list_exn_d in H.
  - destruct H as (d & Hin & [Hb|[-> Hz]]); [left; exact Hb|right]. split; [reflexivity|].
    unfold zdp_list. apply existsb_exists. eauto.
  - apply Forall_forall. intros d _. apply walk_exn_d.
Qed.
End WalkExn.

(* Src_checksum.v — ubxhelpers.calc_checksum / isvalid_checksum against the model's fletcher / isvalid_checksum. *)
From Coq Require Import ZArith List String Ascii Bool Lia ZifyBool Floats.SpecFloat.
From PyUbx Require Import Base Bytes Fletcher Frame PyFloat Types Strs Walk Consts Tables Msg PyMini PySrc Tac Bytes_lemmas Fletcher_lemmas Src_common.
Import ListNotations.
Open Scope Z_scope.

Lemma land_N (x : N) : Z.land (Z.of_N x) 255 = Z.of_N (N.land x 255).
Proof.
  change 255 with (Z.ones 8). change 255%N with (N.ones 8). rewrite Z.land_ones by lia. rewrite N.land_ones.
  rewrite N2Z.inj_mod. reflexivity.
Qed.

Lemma mod_N (x : N) : (Z.of_N x) mod 256 = Z.of_N (N.land x 255).
Proof. change 255%N with (N.ones 8). rewrite N.land_ones. rewrite N2Z.inj_mod. reflexivity. Qed.

Definition st_of (p : N * N) : gv * gv := (gint (Z.of_N (fst p)), gint (Z.of_N (snd p))).

Lemma calc_checksum_agree : mem_s "py_calc_checksum" translated = true ->
  forall bs, py_calc_checksum (gbytes bs) = Ok (gbytes (fletcher bs)).
Proof.
  intros Hin bs. first [untranslated Hin | clear Hin].
  all: unfold py_calc_checksum. cbn [g_iter gbytes bind].
  all: match goal with |- context [g_fold ?F _ _] => set (FF := F) end.
  all: assert (H : forall l p, g_fold FF (map (fun c => gint (Z.of_N c)) l) (st_of p) = Ok (st_of (fold_left fl_step l p))) by
    (induction l as [|c l IH]; intros [a b]; [reflexivity|];
     cbn [map g_fold fold_left]; unfold FF at 1; cbv beta; unfold st_of at 1;
     repeat progress (cbn [fst snd g_add g_band g_mod gint bind Z.eqb]; rewrite <- ?N2Z.inj_add, ?land_N, ?mod_N);
     rewrite <- (IH (fl_step (a, b) c)); reflexivity).
  all: change (gint 0, gint 0) with (st_of (0%N, 0%N)). rewrite H. cbn [bind].
  all: pose proof (fletcher_wfb bs) as Hw. unfold fletcher, fletcher_pair in *.
  all: destruct (fold_left fl_step bs (0%N, 0%N)) as [a b]. unfold st_of. cbn [fst snd].
  all: inversion Hw as [|x l Ha Hl]; subst. inversion Hl as [|y l' Hb _]; subst.
  all: unfold g_bytes_of, gint. cbn [ints_to_bytes].
  all: destruct ((Z.of_N a <? 0) || (255 <? Z.of_N a)) eqn:E1; [lia|].
  all: destruct ((Z.of_N b <? 0) || (255 <? Z.of_N b)) eqn:E2; [lia|].
  all: cbn [bind]. rewrite !N2Z.id. reflexivity.
Qed.

Lemma isvalid_checksum_agree : mem_s "py_isvalid_checksum" translated = true ->
  forall m, py_isvalid_checksum (gbytes m) = Ok (gbool (isvalid_checksum m)).
Proof.
  intros Hin m. first [untranslated Hin | clear Hin].
  all: unfold py_isvalid_checksum, isvalid_checksum.
  all: cbn [g_len g_sub g_slice slice_of g_calc_checksum gbytes gint gnone bind g_eq pv_eq].
  all: change (-2) with (- (2)); rewrite ?pyslice_neg_hi, ?pyslice_from_neg by lia.
  all: first [reflexivity | rewrite beq_sym; reflexivity].
Qed.

(* Variant_lemmas.v — which definition a multi-variant message selects when parsed from a payload (C02), and that the
   length-discriminated variants have exactly the discriminating length (table obligation). *)
From PyUbx Require Import Base Bytes Types Strs Walk Consts Tables Msg WfDef.
Open Scope string_scope.

Definition variant_len_rows : list (list (string * list adef) * string * nat) :=
  [(payloads_get, "CFG-NMEAvX", 4%nat); (payloads_get, "CFG-NMEAv0", 12%nat); (payloads_get, "CFG-NMEA", 20%nat);
   (payloads_get, "NAV-AOPSTATUS-L", 20%nat); (payloads_get, "NAV-AOPSTATUS", 16%nat);
   (payloads_set, "RXM-PMREQ", 16%nat); (payloads_set, "RXM-PMREQ-S", 8%nat);
   (payloads_set, "CFG-DAT-NUM", 2%nat); (payloads_set, "TIM-VCOCAL-V0", 1%nat); (payloads_poll, "CFG-TP5-TPX", 1%nat)].
Definition variant_len_ok (r : list (string * list adef) * string * nat) : bool :=
  match assoc_s (snd (fst r)) (fst (fst r)) with
  | Some d => Nat.eqb (def_min d) (snd r) && negb (def_variable d)
  | None => false
  end.
Lemma variant_lengths : forallb variant_len_ok variant_len_rows = true.
Proof. vm_compute. reflexivity. Qed.

(* the dispatch table routes these class/ids to these selectors *)
Lemma routes :
  variant_lookup 0 [6; 23]%N variants = Some "get_cfgnmea_dict" /\
  variant_lookup 0 [1; 96]%N variants = Some "get_aopstatus_dict" /\
  variant_lookup 1 [2; 65]%N variants = Some "get_rxmpmreq_dict" /\
  variant_lookup 0 [2; 89]%N variants = Some "get_rxmrlm_dict" /\
  variant_lookup 0 [1; 60]%N variants = Some "get_relposned_dict" /\
  variant_lookup 0 [39; 9]%N variants = Some "get_secsig_dict" /\
  variant_lookup 0 [11; 50]%N variants = Some "get_alpsrv_dict".
Proof. vm_compute. repeat split; reflexivity. Qed.

(* selection from a payload: by length ... *)
Theorem sel_cfgnmea p : get_dict [6%N] [23%N] 0 (KwPayload p) p =
  if Nat.eqb (length p) 4 then tab payloads_get "CFG-NMEAvX"
  else if Nat.eqb (length p) 12 then tab payloads_get "CFG-NMEAv0" else tab payloads_get "CFG-NMEA".
Proof. unfold get_dict. cbn [app]. rewrite (proj1 routes). reflexivity. Qed.
Theorem sel_aopstatus p : get_dict [1%N] [96%N] 0 (KwPayload p) p =
  if Nat.eqb (length p) 20 then tab payloads_get "NAV-AOPSTATUS-L" else tab payloads_get "NAV-AOPSTATUS".
Proof. unfold get_dict. cbn [app]. rewrite (proj1 (proj2 routes)). reflexivity. Qed.
Theorem sel_rxmpmreq p : get_dict [2%N] [65%N] 1 (KwPayload p) p =
  if Nat.eqb (length p) 16 then tab payloads_set "RXM-PMREQ" else tab payloads_set "RXM-PMREQ-S".
Proof. unfold get_dict. cbn [app]. rewrite (proj1 (proj2 (proj2 routes))). reflexivity. Qed.
(* ... or by one payload byte *)
Theorem sel_rxmrlm p : get_dict [2%N] [89%N] 0 (KwPayload p) p =
  if beq (slice p 1 1) [1%N] then tab payloads_get "RXM-RLM-S" else tab payloads_get "RXM-RLM-L".
Proof. unfold get_dict. cbn [app]. rewrite (proj1 (proj2 (proj2 (proj2 routes)))). reflexivity. Qed.
Theorem sel_relposned p : get_dict [1%N] [60%N] 0 (KwPayload p) p =
  if beq (slice p 0 1) [0%N] then tab payloads_get "NAV-RELPOSNED-V0" else tab payloads_get "NAV-RELPOSNED".
Proof. unfold get_dict. cbn [app]. rewrite (proj1 (proj2 (proj2 (proj2 (proj2 routes))))). reflexivity. Qed.
Theorem sel_secsig p : get_dict [39%N] [9%N] 0 (KwPayload p) p =
  if beq (slice p 0 1) [1%N] then tab payloads_get "SEC-SIG-V1" else tab payloads_get "SEC-SIG-V2".
Proof. unfold get_dict. cbn [app]. rewrite (proj1 (proj2 (proj2 (proj2 (proj2 (proj2 routes)))))). reflexivity. Qed.
Theorem sel_alpsrv p : get_dict [11%N] [50%N] 0 (KwPayload p) p =
  if beq (slice p 1 1) [255%N] then tab payloads_get "AID-ALPSRV-SEND" else tab payloads_get "AID-ALPSRV-REQ".
Proof. unfold get_dict. cbn [app]. rewrite (proj2 (proj2 (proj2 (proj2 (proj2 (proj2 routes)))))). reflexivity. Qed.

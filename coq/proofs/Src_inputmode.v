(* Src_inputmode.v — ubxhelpers.getinputmode against the model's. *)
From Coq Require Import ZArith List String Ascii Bool Lia ZifyBool Floats.SpecFloat.
From PyUbx Require Import Base Bytes Fletcher Frame PyFloat Types Strs Walk Consts Tables Msg PyMini PySrc Tac Bytes_lemmas Fletcher_lemmas Src_common.
Import ListNotations.
Open Scope Z_scope.

Lemma getinputmode_agree : mem_s "py_getinputmode" translated = true ->
  forall d, py_getinputmode (gbytes d) = Ok (gint (Z.of_N (getinputmode d))).
Proof.
  intros Hin d. first [untranslated Hin | clear Hin].
  all: unfold py_getinputmode, getinputmode, im_len_poll, im_valget, im_short_ids, im_short_len.
  all: cbn [g_len g_sub g_slice slice_of g_le g_lt g_in existsb gbytes gint bind g_eq pv_eq].
  all: atoms; cbn [bind orb andb negb]; try reflexivity; exfalso; lia.
Qed.

(* Src_getdict.v — UBXMessage._get_dict against the model's get_dict. *)
From Coq Require Import ZArith List String Ascii Bool Lia ZifyBool Floats.SpecFloat.
From PyUbx Require Import Base Bytes Fletcher Frame PyFloat Types Strs Walk Consts Tables Msg PyMini PySrc Tac Bytes_lemmas Fletcher_lemmas Src_common Src_selectors.
Import ListNotations.
Open Scope Z_scope.

(* ---- str as bytes ---- *)
Lemma bos_length s : length (bytes_of_string s) = String.length s.
Proof. unfold bytes_of_string. rewrite map_length. induction s; cbn; congruence. Qed.

Lemma bos_substring s : forall a n, bytes_of_string (substring a n s) = firstn n (skipn a (bytes_of_string s)).
Proof.
  unfold bytes_of_string. induction s as [|c s IH]; intros a n.
  - destruct a, n; reflexivity.
  - destruct a as [|a].
    + destruct n as [|n]; [reflexivity|]. cbn. f_equal. apply (IH 0%nat n).
    + cbn. apply IH.
Qed.

Lemma bos_inj a : forall b, bytes_of_string a = bytes_of_string b -> a = b.
Proof.
  unfold bytes_of_string. induction a as [|c a IH]; intros [|d b] H; cbn in H; try discriminate; [reflexivity|].
  injection H as H1 H2. f_equal; [|now apply IH].
  rewrite <- (ascii_N_embedding c), <- (ascii_N_embedding d). now rewrite H1.
Qed.

Lemma eqb_bos a b : String.eqb a b = beq (bytes_of_string a) (bytes_of_string b).
Proof.
  destruct (String.eqb a b) eqn:E.
  - apply String.eqb_eq in E. subst. now rewrite beq_refl.
  - symmetry. apply beq_neq. intros H. apply bos_inj in H. apply String.eqb_neq in E. contradiction.
Qed.

Lemma last_n_bos n s : (0 < n)%nat -> bytes_of_string (last_n n s) = pyslice_from (bytes_of_string s) (- Z.of_nat n).
Proof.
  intros Hn. rewrite pyslice_from_last by exact Hn. rewrite bos_length. unfold last_n.
  destruct (Nat.leb (String.length s) n) eqn:E; [reflexivity|].
  rewrite bos_substring. apply firstn_all2. rewrite skipn_length, bos_length.
  apply Nat.leb_gt in E. lia.
Qed.

Lemma nominal_test ident :
  beq (pyslice_from (bytes_of_string ident) (-7)) (bytes_of_string "NOMINAL") = String.eqb (last_n 7 ident) "NOMINAL".
Proof. rewrite eqb_bos, (last_n_bos 7) by lia. reflexivity. Qed.

(* ---- _get_dict ---- *)
Definition to_def (r : result gv) : result (list adef) :=
  match r with Ok (Tup (Def d :: _)) => Ok d | Ok _ => Raise EType | Raise e => Raise e end.

Lemma catch_as_def (R : result gv) a b :
  to_def (g_catch (do t <- R; Ok (Tup [t; a; b])) EKey (Raise EUBXMessage)) = as_def R.
Proof. destruct R as [[v|d|l|f p kw|n|x]|e]; try reflexivity. destruct e; reflexivity. Qed.

Lemma catch_tab t s a b :
  to_def (g_catch (do x <- g_tab t (gstr s); Ok (Tup [x; a; b])) EKey (Raise EUBXMessage)) = tab t s.
Proof. rewrite catch_as_def. rewrite <- (as_def_tab t s). destruct (g_tab t (gstr s)); reflexivity. Qed.

Lemma variant_lookup_in m msg : forall l f, variant_lookup m msg l = Some f ->
  exists key, In (m, key, f) l /\ key = msg.
Proof.
  induction l as [|[[m' k'] f'] l IH]; intros f H; [discriminate|]. cbn [variant_lookup] in H.
  destruct ((m' =? m)%N && beq k' msg) eqn:E.
  - injection H as <-. apply andb_prop in E. destruct E as [E1 E2]. apply N.eqb_eq in E1. apply beq_eq in E2.
    subst. exists msg. split; [now left|reflexivity].
  - destruct (IH f H) as (key & Hin & Hk). exists key. split; [now right|exact Hk].
Qed.

Lemma variant_keys_len : forallb (fun v => Nat.eqb (length (snd (fst v))) 2) variants = true.
Proof. vm_compute. reflexivity. Qed.

Lemma get_dict_agree : mem_s "py_get_dict" translated = true ->
  forallb (fun v => mem_s (snd v) py_selectors) variants = true ->
  forall cls id mode k pay,
  mode_ok mode = true ->
  forallb (fun c => (c <? 128)%N) (bytes_of_string (identity cls id (Some pay))) = true ->
  to_def (py_get_dict (gint (Z.of_N mode)) (gbytes cls) (gbytes id) (gstr (identity cls id (Some pay))) k)
  = get_dict cls id mode k pay.
Proof.
  intros Hin Hsel cls id mode k pay Hm Hascii. first [untranslated Hin | clear Hin].
  all: unfold py_get_dict, get_dict.
  all: set (ident := identity cls id (Some pay)) in *.
  all: assert (Hmode : mode = 0%N \/ mode = 1%N \/ mode = 2%N) by (unfold mode_ok in Hm; lia).
  all: cbn [g_add gbytes bind].
  all: assert (Hh : forall X, g_catch X EKey
           (do t16 <- g_index (Tup [gstr "GET"; gstr "SET"; gstr "POLL"]) (gint (Z.of_N mode)); Raise EUBXMessage)
           = g_catch X EKey (Raise EUBXMessage))
         by (intros X; destruct Hmode as [->|[->| ->]]; reflexivity).
  all: try rewrite Hh; clear Hh.
  all: assert (Hget : g_variants_get variants_modes (gint (Z.of_N mode)) (gbytes (cls ++ id)%list) (gbool false) =
                      Ok (match variant_lookup mode (cls ++ id)%list variants with Some f => Fn f | None => gbool false end))
         by (unfold g_variants_get, gint, gbytes; rewrite N2Z.id; destruct Hmode as [->|[->| ->]]; reflexivity).
  all: rewrite Hget; cbn [bind]; clear Hget.
  all: destruct (variant_lookup mode (cls ++ id)%list variants) as [f|] eqn:EV.
  - (* a selector is registered *)
    destruct (variant_lookup_in _ _ _ _ EV) as (key & Hkin & Hkey).
    pose proof (proj1 (forallb_forall _ _) variant_keys_len _ Hkin) as Hlen.
    pose proof (proj1 (forallb_forall _ _) Hsel _ Hkin) as Hfs.
    pose proof (proj1 (Forall_forall _ _) selectors_agree _ Hkin) as Hag.
    cbn [fst snd] in Hlen, Hfs. unfold agree_entry in Hag. specialize (Hag Hfs k).
    rewrite <- Hkey in *. destruct key as [|c [|d [|? ?]]]; try discriminate Hlen.
    cbn [g_truth bind g_index gint gbytes]. cbn [length Z.of_nat Pos.of_succ_nat Pos.succ Z.ltb Z.compare Z.leb orb nth_error Z.to_nat bind g_eq pv_eq gint].
    unfold two_of in Hag.
    destruct (Z.of_N c =? 19) eqn:E19.
    + replace (c =? 19)%N with true in Hag by lia. cbn [py_call].
      rewrite <- Hag. apply catch_as_def.
    + replace (c =? 19)%N with false in Hag by lia. cbn [g_truth bind py_call].
      rewrite <- Hag. apply catch_as_def.
  - (* plain lookup by identity *)
    cbn [g_truth gbool bind Z.eqb negb].
    destruct Hmode as [->|[->| ->]]; cbn [Z.of_N g_eq pv_eq gint Z.eqb Pos.eqb N.eqb bind].
    + (* GET: the NOMINAL test *)
      unfold gstr at 1. cbn [g_slice]. rewrite Hascii. cbn [slice_of bind g_eq pv_eq gstr gint gnone].
      change (Z.neg 7) with (-7). rewrite ?(beq_sym (bytes_of_string "NOMINAL")). rewrite nominal_test.
      destruct (String.eqb (last_n 7 ident) "NOMINAL"); [reflexivity|]. apply catch_tab.
    + apply catch_tab.
    + apply catch_tab.
Qed.

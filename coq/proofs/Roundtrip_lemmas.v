(* Roundtrip_lemmas.v — C03 over whole definitions: a message built from keywords, parsed again, yields the
   very trace the build wrote (same names, index paths, offsets, widths, values) and the same attribute
   dictionary, provided every supplied value is one its field can represent (it decodes from its own
   encoding).  Proved by a lockstep simulation of the two routes of the walk. *)
From PyUbx Require Import Base Bytes PyFloat Types Strs Walk Tac Bytes_lemmas Walk_lemmas Bits_lemmas Codec_lemmas.
From PyUbx Require Import Trace_lemmas Build_lemmas.
Open Scope Z_scope.
Open Scope list_scope.

(* definitions the simulation covers: no CH field (it is sized by the payload, not the definition) and no
   group sized by the remaining payload (the keyword route always gives it zero repeats) *)
Inductive static : adef -> Prop :=
| st_single n t : t <> TCH -> static (ASingle n t)
| st_scaled n t sc : t <> TCH -> static (AScaled n t sc)
| st_bits n t fl : t <> TCH -> static (ABits n t fl)
| st_group n r body : r <> RVar -> Forall static body -> static (AGroup n r body).

Section RT.
Variable atttype : list (N * list kind).
Variable readonly_names : list string.
Variable cfgdb : list (string * (Z * aty)).
Variable storsize : list (Z * Z).
Variable scalround : Z.
Variable cls id : bytes.
Variable mode : N.
Variable bf : bool.
Variable k : attrs.
Variable budget : nat.
Variable Pfin : bytes.                        (* the payload the build ends with *)

Notation walkB := (walk atttype readonly_names cfgdb storsize scalround cls id mode bf (Some k) budget).
Notation walkP := (walk atttype readonly_names cfgdb storsize scalround cls id mode bf None budget).
Notation walk_listB := (walk_list atttype readonly_names cfgdb storsize scalround cls id mode bf (Some k) budget).
Notation walk_listP := (walk_list atttype readonly_names cfgdb storsize scalround cls id mode bf None budget).
Notation rep_loopB := (rep_loop atttype readonly_names cfgdb storsize scalround cls id mode bf (Some k) budget).
Notation rep_loopP := (rep_loop atttype readonly_names cfgdb storsize scalround cls id mode bf None budget).
Notation singleB := (single atttype readonly_names scalround (Some k)).
Notation singleP := (single atttype readonly_names scalround None).
Notation bitfieldB := (bitfield readonly_names (Some k)).
Notation bitfieldP := (bitfield readonly_names None).
Notation bits_loopB := (bits_loop readonly_names (Some k)).
Notation bits_loopP := (bits_loop readonly_names None).
Notation set_attr := (set_attr readonly_names).
Notation encode_of := (encode_of atttype).
Notation RB := (RB atttype k).

(* a supplied value its field can represent *)
Definition rt_ok (r : frec) : Prop :=
  exists b, encode_of r = Ok b /\ length b = fr_size r /\ decode_of scalround (fr_kind r) b = Ok (fr_val r).

Definition Sim (sB sP : wst) : Prop :=
  w_off sP = w_off sB /\ w_off sB = length (w_pay sB) /\ w_pay sP = Pfin /\ w_attrs sP = w_attrs sB.

(* what is known of the build's end state; inherited by every earlier state *)
Definition G (sB : wst) : Prop := (exists rest, Pfin = w_pay sB ++ rest) /\ Forall rt_ok (w_trace sB).

Definition Ext (s s' : wst) : Prop :=
  (exists bs, w_pay s' = w_pay s ++ bs) /\ (exists l, w_trace s' = l ++ w_trace s).

Lemma RB_Ext s s' : RB s s' -> Ext s s'.
Proof. intros (l & Ht & _ & _ & bs & _ & Hp). split; eauto. Qed.

Lemma Ext_refl s : Ext s s.
Proof. split; [exists []; now rewrite app_nil_r|exists []; reflexivity]. Qed.

Lemma Ext_trans a b c : Ext a b -> Ext b c -> Ext a c.
Proof.
  intros [(b1 & H1) (l1 & T1)] [(b2 & H2) (l2 & T2)]. split.
  - exists (b1 ++ b2). now rewrite H2, H1, app_assoc.
  - exists (l2 ++ l1). now rewrite T2, T1, app_assoc.
Qed.

Lemma G_back s s' : Ext s s' -> G s' -> G s.
Proof.
  intros [(bs & Hp) (l & Ht)] [(rest & Hr) Hf]. split.
  - exists (bs ++ rest). now rewrite Hr, Hp, app_assoc.
  - rewrite Ht in Hf. apply Forall_app in Hf. tauto.
Qed.

Lemma walk_list_Ext ds idx s s' : walk_listB ds idx s = Ok s' -> Ext s s'.
Proof. intros H. apply RB_Ext. eapply walk_list_build; eauto. Qed.

Lemma rep_loop_Ext c body idx : forall fuel i s s', rep_loopB c body idx fuel i s = Ok s' -> Ext s s'.
Proof.
  induction fuel as [|f IH]; intros i s s' H; cbn [rep_loop] in H; [discriminate|].
  destruct (c <? i); [injection H as <-; apply Ext_refl|].
  destruct (walk_listB body (idx ++ [Z.to_nat i]) s) as [s1|] eqn:E; [|discriminate].
  eapply Ext_trans; [eapply walk_list_Ext; eauto|eapply IH; eauto].
Qed.

(* the conclusion of every simulation step *)
Definition Post (sB sB' sP sP' : wst) : Prop :=
  Sim sB' sP' /\ exists l, w_trace sB' = l ++ w_trace sB /\ w_trace sP' = l ++ w_trace sP.

Ltac bindok H := match type of H with
  | bind ?r _ = Ok _ => let x := fresh "x" in let E := fresh "E" in destruct r as [x|] eqn:E; [cbn [bind] in H|discriminate]
  end.

Lemma set_attr_sim n v sB sB' sP : set_attr n v sB = Ok sB' -> w_attrs sP = w_attrs sB ->
  set_attr n v sP = Ok {| w_off := w_off sP; w_pay := w_pay sP; w_attrs := w_attrs sB'; w_trace := w_trace sP |} /\
  w_off sB' = w_off sB /\ w_pay sB' = w_pay sB /\ w_trace sB' = w_trace sB.
Proof.
  unfold Walk.set_attr. intros H Ha. destruct (mem_s n readonly_names); [discriminate|]. injection H as <-.
  cbn. rewrite Ha. auto.
Qed.

Lemma single_sim n t sc idx sB sB' sP : t <> TCH ->
  singleB n t sc idx sB = Ok sB' -> G sB' -> Sim sB sP ->
  exists sP', singleP n t sc idx sP = Ok sP' /\ Post sB sB' sP sP'.
Proof.
  intros Hch H [(rest & Hrest) Hrt] (Ho & Hlen & Hpay & Hat).
  unfold Walk.single in *. cbv zeta in *.
  assert (Hsz: forall s0 : wst, match t with TCH => Ok (length (w_pay s0)) | _ => attsiz_nat t end = attsiz_nat t)
    by (destruct t; [congruence|reflexivity]).
  rewrite Hsz in *. destruct (attsiz_nat t) as [asiz|] eqn:Ea; [cbn [bind] in *|discriminate].
  bindok H. destruct x as [v pay]. bindok E. rename x into nv. bindok E. rename x into valb. injection E as <- <-.
  set (v := kwget k _ nv) in *.
  bindok H. rename x into s2.
  injection H as <-. cbn [w_trace w_pay] in *.
  (* the record just written can be decoded from its own bytes *)
  apply Forall_inv in Hrt. destruct Hrt as (b & Hb & Hbl & Hbd).
  unfold Build_lemmas.encode_of in Hb. cbn [fr_kind fr_val fr_size] in *.
  assert (b = valb) by (destruct sc; rewrite E1 in Hb; now injection Hb). subst b.
  (* attribute bookkeeping is identical on both sides *)
  set (s1B := {| w_off := w_off sB; w_pay := w_pay sB ++ valb; w_attrs := w_attrs sB; w_trace := w_trace sB |}) in *.
  set (s1P := {| w_off := w_off sP; w_pay := w_pay sP; w_attrs := w_attrs sP; w_trace := w_trace sP |}).
  assert (Hs2: exists a2, w_attrs s2 = a2 /\ w_pay s2 = w_pay sB ++ valb /\ w_trace s2 = w_trace sB /\
     (if starts_with "_HP" (n ++ suffix idx)
      then do b <- get_attr s1P (drop 3 (n ++ suffix idx)); do sum <- py_add b v; do r <- py_round12 scalround sum;
           set_attr (drop 3 (n ++ suffix idx)) r s1P
      else set_attr (n ++ suffix idx) v s1P) =
     Ok {| w_off := w_off sP; w_pay := w_pay sP; w_attrs := a2; w_trace := w_trace sP |}).
  { exists (w_attrs s2). split; [reflexivity|]. destruct (starts_with "_HP" _).
    - destruct (get_attr s1B _) as [b0|] eqn:Eg; [cbn [bind] in E|discriminate].
      destruct (py_add b0 v) as [sum|] eqn:Es; [cbn [bind] in E|discriminate].
      destruct (py_round12 scalround sum) as [r0|] eqn:Er; [cbn [bind] in E|discriminate].
      unfold get_attr in *. cbn [w_attrs s1B s1P] in *. rewrite Hat, Eg. cbn [bind]. rewrite Es. cbn [bind]. rewrite Er. cbn [bind].
      apply (set_attr_sim _ _ _ _ s1P) in E as (A & B & C & D); [|exact Hat]. cbn in *. auto.
    - apply (set_attr_sim _ _ _ _ s1P) in E as (A & B & C & D); [|exact Hat]. cbn in *. auto. }
  destruct Hs2 as (a2 & Ha2 & Hp2 & Ht2 & Hset).
  (* the parse side reads exactly those bytes *)
  assert (Hsl: slice (w_pay sP) (w_off sP) asiz = valb).
  { rewrite Hpay, Hrest, Hp2, Ho, Hlen, <- app_assoc. apply slice_mid. now rewrite Hbl. }
  rewrite Hsl.
  assert (Hdec: (do v0 <- bytes2val valb t;
                 do v1 <- match sc with Some k0 => do m <- py_mul_scale v0 k0; py_round12 scalround m | None => Ok v0 end;
                 Ok (v1, w_pay sP)) = Ok (v, w_pay sP)).
  { cbn [decode_of] in Hbd. destruct sc as [a|].
    - bindok Hbd. cbn [bind]. rewrite Hbd. reflexivity.
    - rewrite Hbd. reflexivity. }
  rewrite Hdec. cbn [bind]. fold s1P. rewrite Hset. cbn [bind].
  eexists. split; [reflexivity|]. split.
  - unfold Sim. cbn [w_off w_pay w_attrs]. rewrite Hp2, app_length, Hbl, Ho, Hlen. auto.
  - eexists [_]. cbn [w_trace app]. rewrite Ht2, Ho. split; reflexivity.
Qed.

(* ---- bit flags ---- *)
Definition hi_clear (a off : Z) : Prop := forall i, off <= i -> Z.testbit a i = false.

Lemma hi_clear_ins acc off z atts : 0 <= off -> 0 <= z < 2 ^ atts -> 0 <= atts -> hi_clear acc off ->
  hi_clear (ins acc off z) (off + atts).
Proof.
  intros Ho Hz Ha Hc i Hi. rewrite ins_testbit by lia. rewrite Hc by lia. cbn [orb].
  destruct (Z.leb_spec off i); [|reflexivity]. cbn [andb]. apply small_testbit with atts; lia.
Qed.

Lemma bits_loop_sim fl : forall idx acc off sB F sB',
  bits_loopB fl idx acc off sB = Ok (F, sB') -> 0 <= off -> hi_clear acc off ->
  (forall o w, 0 <= o -> 0 <= w -> o + w <= off -> ext F o w = ext acc o w) /\
  w_off sB' = w_off sB /\ w_pay sB' = w_pay sB /\ w_trace sB' = w_trace sB /\
  forall sP, w_attrs sP = w_attrs sB ->
    bits_loopP fl idx F off sP =
    Ok (F, {| w_off := w_off sP; w_pay := w_pay sP; w_attrs := w_attrs sB'; w_trace := w_trace sP |}).
Proof.
  induction fl as [|[key keyt] fl IH]; intros idx acc off sB F sB' H Ho Hc; cbn [Walk.bits_loop] in *.
  - injection H as <- <-. repeat split; auto. intros sP Ha. rewrite <- Ha. now destruct sP.
  - destruct (attsiz keyt) as [atts|] eqn:Ea; [cbn [bind] in *|discriminate].
    destruct (flag_value _ atts) as [z|] eqn:Ez; [cbn [bind] in H|discriminate].
    apply flag_value_range in Ez as [Hz Hv].
    assert (Hatts: 0 <= atts).
    { destruct (Z.le_gt_cases 0 atts); [assumption|]. rewrite Z.pow_neg_r in Hz by lia. lia. }
    bindok H. rename x into sB1.
    apply IH in H as (Hlow & Hoff & Hpay & Htr & Hparse); [|lia|apply hi_clear_ins; auto].
    fold (ins acc off z) in *.
    assert (Hext: ext F off atts = z).
    { rewrite Hlow by lia. apply ext_ins_same; auto. intros i Hi. apply Hc. lia. }
    split; [|].
    { intros o w Ho' Hw Hle. rewrite Hlow by lia. apply ext_ins_other with atts; auto. }
    assert (Hfr: w_off sB1 = w_off sB /\ w_pay sB1 = w_pay sB /\ w_trace sB1 = w_trace sB).
    { destruct (starts_with "reserved" key); [injection E as <-; auto|].
      unfold Walk.set_attr in E. destruct (mem_s _ readonly_names); [discriminate|]. injection E as <-. auto. }
    destruct Hfr as (A & B & C). rewrite Hoff, Hpay, Htr. repeat split; auto.
    intros sP Ha. fold (ext F off atts). rewrite Hext, <- Hv.
    destruct (starts_with "reserved" key).
    + injection E as <-. cbn [bind]. apply Hparse. exact Ha.
    + apply (set_attr_sim _ _ _ _ sP) in E as (E' & _); [|exact Ha]. rewrite E'. cbn [bind].
      rewrite (Hparse {| w_off := w_off sP; w_pay := w_pay sP; w_attrs := w_attrs sB1; w_trace := w_trace sP |} eq_refl). reflexivity.
Qed.

Lemma int_enc_u_inv w z b : int_enc false w z = Ok b -> length b = w /\ Z.of_N (uint_of_le b) = z.
Proof.
  unfold int_enc. destruct ((0 <=? z) && (z <? 2 ^ (8 * Z.of_nat w))) eqn:E; [|discriminate].
  intros H; injection H as <-. split; [apply enc_le_length|].
  rewrite uint_of_le_enc; [lia|]. apply N2Z.inj_lt. rewrite pow256. lia.
Qed.

Lemma bitfield_sim t fl idx sB sB' sP : t <> TCH ->
  bitfieldB t fl idx sB = Ok sB' -> G sB' -> Sim sB sP ->
  exists sP', bitfieldP t fl idx sP = Ok sP' /\ Post sB sB' sP sP'.
Proof.
  intros Hch H [(rest & Hrest) _] (Ho & Hlen & Hpay & Hat).
  unfold Walk.bitfield in *. cbv zeta in *.
  destruct (attsiz_nat t) as [bsiz|] eqn:Ea; [cbn [bind] in *|discriminate].
  bindok H. destruct x as [F sB1]. bindok H. rename x into pay. bindok E0. rename x into b. injection E0 as <-.
  injection H as <-. cbn [w_pay w_trace w_off w_attrs] in *.
  apply bits_loop_sim in E as (_ & Hoff & Hp1 & Ht1 & Hparse); [|lia|intros i _; apply Z.bits_0].
  apply int_enc_u_inv in E1 as [Hbl Hbv].
  assert (Hsl: slice (w_pay sP) (w_off sP) bsiz = b).
  { rewrite Hpay, Hrest, Hp1, Ho, Hlen, <- app_assoc. apply slice_mid. now rewrite Hbl. }
  rewrite Hsl, Hbv, (Hparse sP Hat). cbn [bind w_pay w_attrs w_trace].
  eexists. split; [reflexivity|]. split.
  - unfold Sim. cbn [w_off w_pay w_attrs]. rewrite Hp1, app_length, Hbl, Ho, Hlen. auto.
  - eexists [_]. cbn [w_trace app]. rewrite Ht1, Ho. split; reflexivity.
Qed.

(* ---- groups ---- *)
Lemma count_sim r body sB sP : r <> RVar -> w_attrs sP = w_attrs sB ->
  count cls id mode r body sP = count cls id mode r body sB.
Proof.
  intros Hr Ha. destruct r as [n|a|]; [reflexivity| |congruence].
  unfold count, get_attr. now rewrite Ha.
Qed.

Lemma Post_refl sB sP : Sim sB sP -> Post sB sB sP sP.
Proof. intros H. split; [exact H|]. exists []. split; reflexivity. Qed.

Lemma Post_trans a b c pa pb pc : Post a b pa pb -> Post b c pb pc -> Post a c pa pc.
Proof.
  intros [_ (l1 & A1 & B1)] [S2 (l2 & A2 & B2)]. split; [exact S2|].
  exists (l2 ++ l1). rewrite A2, A1, B2, B1, !app_assoc. split; reflexivity.
Qed.

Definition PD (d : adef) : Prop := forall idx sB sB' sP,
  static d -> walkB idx d sB = Ok sB' -> G sB' -> Sim sB sP ->
  exists sP', walkP idx d sP = Ok sP' /\ Post sB sB' sP sP'.

Lemma walk_list_sim ds : Forall PD ds -> Forall static ds ->
  forall idx sB sB' sP, walk_listB ds idx sB = Ok sB' -> G sB' -> Sim sB sP ->
  exists sP', walk_listP ds idx sP = Ok sP' /\ Post sB sB' sP sP'.
Proof.
  induction 1 as [|d ds Hd _ IH]; intros Hst idx sB sB' sP H HG HS; cbn [Walk.walk_list] in *.
  - injection H as <-. exists sP. split; [reflexivity|apply Post_refl; exact HS].
  - apply Forall_cons_iff in Hst as [Hsd Hst].
    destruct (walkB idx d sB) as [sB1|] eqn:E; [|discriminate].
    assert (HG1: G sB1) by (eapply G_back; [eapply walk_list_Ext; eauto|exact HG]).
    destruct (Hd idx sB sB1 sP Hsd E HG1 HS) as (sP1 & EP & HP1). rewrite EP.
    destruct (IH Hst idx sB1 sB' sP1 H HG (proj1 HP1)) as (sP' & EP' & HP').
    exists sP'. split; [exact EP'|eapply Post_trans; eauto].
Qed.

Lemma rep_loop_sim c body idx : Forall PD body -> Forall static body ->
  forall fuel i sB sB' sP, rep_loopB c body idx fuel i sB = Ok sB' -> G sB' -> Sim sB sP ->
  exists sP', rep_loopP c body idx fuel i sP = Ok sP' /\ Post sB sB' sP sP'.
Proof.
  intros HP Hst. induction fuel as [|f IH]; intros i sB sB' sP H HG HS; cbn [rep_loop] in *; [discriminate|].
  destruct (c <? i).
  - injection H as <-. exists sP. split; [reflexivity|apply Post_refl; exact HS].
  - destruct (walk_listB body (idx ++ [Z.to_nat i]) sB) as [sB1|] eqn:E; [|discriminate].
    assert (HG1: G sB1) by (eapply G_back; [eapply rep_loop_Ext; eauto|exact HG]).
    destruct (walk_list_sim body HP Hst _ sB sB1 sP E HG1 HS) as (sP1 & EP & HP1). rewrite EP.
    destruct (IH (i + 1) sB1 sB' sP1 H HG (proj1 HP1)) as (sP' & EP' & HP').
    exists sP'. split; [exact EP'|eapply Post_trans; eauto].
Qed.

Theorem walk_sim d : PD d.
Proof.
  induction d as [n t|n t sc|n t fl|n r body IHb] using adef_ind'; intros idx sB sB' sP Hst H HG HS.
  - inversion Hst; subst. cbn [Walk.walk] in *. eapply single_sim; eauto.
  - inversion Hst; subst. cbn [Walk.walk] in *. eapply single_sim; eauto.
  - inversion Hst; subst. cbn [Walk.walk] in *. destruct bf; [eapply bitfield_sim|eapply single_sim]; eauto.
  - inversion Hst as [| | |n' r' body' Hr Hb]; subst. rewrite walk_group in *.
    destruct (is_cfgval cls id mode); [discriminate|].
    rewrite (count_sim r body sB sP Hr (proj2 (proj2 (proj2 HS)))).
    destruct (count cls id mode r body sB) as [c|]; [|discriminate].
    destruct (Z.of_nat budget <? c); [discriminate|].
    eapply rep_loop_sim; eauto.
Qed.

(* C03 for whole definitions: built from keywords then parsed, a message gives back the trace the build wrote
   and the same attribute dictionary *)
Theorem build_parse ds sB' :
  Forall static ds ->
  walk_listB ds [] {| w_off := O; w_pay := []; w_attrs := []; w_trace := [] |} = Ok sB' ->
  w_pay sB' = Pfin -> Forall rt_ok (w_trace sB') ->
  exists sP', walk_listP ds [] {| w_off := O; w_pay := Pfin; w_attrs := []; w_trace := [] |} = Ok sP' /\
              w_trace sP' = w_trace sB' /\ w_attrs sP' = w_attrs sB' /\ w_off sP' = length Pfin.
Proof.
  intros Hst H Hp Hrt.
  destruct (walk_list_sim ds) with (idx := @nil nat) (sB := {| w_off := O; w_pay := []; w_attrs := []; w_trace := [] |})
    (sB' := sB') (sP := {| w_off := O; w_pay := Pfin; w_attrs := []; w_trace := [] |}) as (sP' & EP & HS & l & A & B); auto.
  - apply Forall_forall. intros d _. apply walk_sim.
  - split; [exists []; now rewrite app_nil_r|exact Hrt].
  - repeat split.
  - exists sP'. split; [exact EP|]. cbn in A, B. rewrite app_nil_r in *. destruct HS as (Ho & Hl & _ & Ha).
    repeat split; [congruence|exact Ha|]. rewrite Ho, Hl, Hp. reflexivity.
Qed.
End RT.

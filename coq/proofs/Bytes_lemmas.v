From PyUbx Require Import Base Bytes Tac.
Open Scope N_scope.

Lemma beq_eq a b : beq a b = true <-> a = b.
Proof.
  revert b; induction a as [|x a IH]; destruct b as [|y b]; simpl; split; try congruence; try discriminate; auto.
  - rewrite andb_true_iff, N.eqb_eq, IH. intros [-> ->]; auto.
  - intros H; injection H as -> ->. rewrite N.eqb_refl. simpl. apply IH; auto.
Qed.
Lemma beq_refl a : beq a a = true.
Proof. now apply beq_eq. Qed.
Lemma beq_neq a b : beq a b = false <-> a <> b.
Proof. split; intros H. - intros E. apply beq_eq in E. congruence.
  - destruct (beq a b) eqn:E; auto. apply beq_eq in E. contradiction. Qed.

Lemma wfbb_wfb bs : wfbb bs = true <-> wfb bs.
Proof.
  unfold wfbb, wfb. rewrite forallb_forall, Forall_forall.
  split; intros H x Hx; specialize (H x Hx); lia.
Qed.

Lemma wfb_cons b l : wfb (b :: l) <-> b < 256 /\ wfb l.
Proof. split; [intros H; inversion H; auto | intros [? ?]; constructor; auto]. Qed.
Lemma wfb_app a b : wfb (a ++ b) <-> wfb a /\ wfb b.
Proof. unfold wfb. apply Forall_app. Qed.
Lemma wfb_firstn k l : wfb l -> wfb (firstn k l).
Proof. revert k; induction l as [|x l IH]; intros [|k] H; simpl; try constructor; apply wfb_cons in H as [? ?]; auto. apply IH; auto. Qed.
Lemma wfb_skipn k l : wfb l -> wfb (skipn k l).
Proof. revert k; induction l as [|x l IH]; intros [|k] H; simpl; auto. apply wfb_cons in H as [? ?]; auto. Qed.
Lemma wfb_nil : wfb [].
Proof. constructor. Qed.
#[export] Hint Resolve wfb_nil wfb_firstn wfb_skipn : wfb.

(* ---- pyslice ---- *)
Lemma pyslice_nat {A} (l : list A) (a b : nat) :
  pyslice l (Z.of_nat a) (Z.of_nat b) = firstn (b - a) (skipn a l).
Proof.
  unfold pyslice, norm_idx. cbv zeta.
  set (len := length l).
  assert (Ea: (Z.of_nat a <? 0)%Z = false) by (apply Z.ltb_ge; lia).
  assert (Eb: (Z.of_nat b <? 0)%Z = false) by (apply Z.ltb_ge; lia).
  rewrite !Ea, !Eb.
  destruct (Z.ltb_spec (Z.of_nat len) (Z.of_nat a));
  destruct (Z.ltb_spec (Z.of_nat len) (Z.of_nat b)).
  - rewrite Z.sub_diag. simpl. rewrite (skipn_all2 l) by (fold len; lia). now rewrite firstn_nil.
  - rewrite (skipn_all2 l (n:=a)) by (fold len; lia). rewrite firstn_nil.
    replace (Z.to_nat (Z.of_nat b - Z.of_nat len)) with 0%nat by lia. reflexivity.
  - rewrite Nat2Z.id. replace (Z.to_nat (Z.of_nat len - Z.of_nat a)) with (len - a)%nat by lia.
    rewrite !firstn_all2; auto; rewrite skipn_length; fold len; lia.
  - rewrite Nat2Z.id. f_equal. lia.
Qed.

Lemma pyslice_Z {A} (l : list A) (a b : Z) : (0 <= a)%Z -> (0 <= b)%Z ->
  pyslice l a b = firstn (Z.to_nat b - Z.to_nat a) (skipn (Z.to_nat a) l).
Proof. intros Ha Hb. rewrite <- (Z2Nat.id a Ha) at 1. rewrite <- (Z2Nat.id b Hb) at 1. apply pyslice_nat. Qed.

Lemma pyslice_wfb l a b : wfb l -> wfb (pyslice l a b).
Proof. intros H. unfold pyslice. auto with wfb. Qed.

Lemma pyslice_sub {A} (l : list A) a b : exists g r, l = g ++ pyslice l a b ++ r.
Proof.
  unfold pyslice. set (x := Z.to_nat _). set (y := Z.to_nat _).
  exists (firstn y l), (skipn x (skipn y l)).
  rewrite firstn_skipn. now rewrite firstn_skipn.
Qed.

(* ---- little-endian ---- *)
Lemma enc_le_length w v : length (enc_le w v) = w.
Proof. revert v; induction w; simpl; auto. Qed.

Lemma enc_le_wfb w v : wfb (enc_le w v).
Proof. revert v; induction w as [|w IH]; intros v; simpl; constructor; [lia|apply IH]. Qed.

Lemma uint_of_le_enc w v : v < 256 ^ N.of_nat w -> uint_of_le (enc_le w v) = v.
Proof.
  revert v; induction w as [|w IH]; intros v Hv.
  - simpl in *. lia.
  - cbn [enc_le uint_of_le]. rewrite IH.
    + pose proof (N.div_mod v 256). lia.
    + rewrite Nat2N.inj_succ, N.pow_succ_r' in Hv.
      apply N.div_lt_upper_bound; lia.
Qed.

Lemma uint_of_le_bound bs : wfb bs -> uint_of_le bs < 256 ^ N.of_nat (length bs).
Proof.
  induction bs as [|b t IH]; intros H; cbn [uint_of_le length].
  - simpl. lia.
  - apply wfb_cons in H as [Hb Ht]. specialize (IH Ht).
    rewrite Nat2N.inj_succ, N.pow_succ_r'. nia.
Qed.

Lemma enc_le_uint bs : wfb bs -> enc_le (length bs) (uint_of_le bs) = bs.
Proof.
  induction bs as [|b t IH]; intros H; cbn [uint_of_le length enc_le]; [reflexivity|].
  apply wfb_cons in H as [Hb Ht].
  set (X := uint_of_le t) in *.
  assert (E1: (b + 256 * X) mod 256 = b) by lia.
  assert (E2: (b + 256 * X) / 256 = X) by lia.
  rewrite E1, E2. f_equal. apply IH; assumption.
Qed.

Lemma enc_le2 v : enc_le 2 v = [v mod 256; (v / 256) mod 256].
Proof. reflexivity. Qed.

Lemma uint_of_le_inj a b : wfb a -> wfb b -> length a = length b -> uint_of_le a = uint_of_le b -> a = b.
Proof.
  intros Ha Hb Hl He. rewrite <- (enc_le_uint a Ha), <- (enc_le_uint b Hb). now rewrite Hl, He.
Qed.

Lemma slice_mid {A} (a b c : list A) n : n = length b -> slice (a ++ b ++ c)%list (length a) n = b.
Proof.
  intros ->. unfold slice. rewrite skipn_app, skipn_all, Nat.sub_diag. cbn [skipn app].
  rewrite firstn_app, firstn_all, Nat.sub_diag. cbn [firstn]. now rewrite app_nil_r.
Qed.


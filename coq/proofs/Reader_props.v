(* Reader_props.v — small corollaries used by the property files *)
From PyUbx Require Import Base Bytes Reader Tac Reader_generic Reader_file.
Open Scope N_scope.

Lemma c09_no_raise (P : Type) (parse : N -> bytes -> result P) (nmea_hdr : N -> bool) c s k :
  parse_protocol_only parse -> quitonerror c <> 2 ->
  raised (file_read_all parse nmea_hdr c (firstn k s)) = None /\
  final (file_read_all parse nmea_hdr c (firstn k s)) = [] /\
  out_of_fuel (file_read_all parse nmea_hdr c (firstn k s)) = false.
Proof.
  intros Hp Hq.
  destruct (c07_eof_exact parse nmea_hdr c (firstn k s) Hp Hq) as [A B].
  repeat split; auto. apply c08_read_terminates.
Qed.

Lemma c09_no_partial (P : Type) (parse : N -> bytes -> result P) (nmea_hdr : N -> bool) c s k it :
  parse_protocol_only parse -> quitonerror c <> 2 ->
  In it (items (file_read_all parse nmea_hdr c (firstn k s))) -> In it (items (file_read_all parse nmea_hdr c s)).
Proof.
  intros Hp Hq.
  pose proof (c09_prefix parse nmea_hdr c s k Hp Hq) as H.
  induction H as [|x l' l H IH]; simpl; [tauto|]. intros [->|Hin]; auto.
Qed.

Lemma c06_reject_skips (P : Type) (parse : N -> bytes -> result P) c a ch b :
  deliver parse c ch = [] -> deliver_all parse c (a ++ ch :: b) = deliver_all parse c (a ++ b).
Proof.
  intros H. induction a as [|x a IH]; cbn [app deliver_all]; [now rewrite H|now rewrite IH].
Qed.

Lemma c06_nonvacuous :
  Forall (wf_chunk (fun b => (b =? 71) || (b =? 80)))
    [CUbx 1 2 [] [3; 10]; CNoise [0; 255]; CNmea 71 [78; 71]; CRtcm 0 0 [] [71; 234; 75]; CRtcm 0 2 [5; 6] [1; 2; 3]].
Proof. repeat constructor; try discriminate; try (cbn; lia). Qed.

From PyUbx Require Import Base Bytes Fletcher Tac Bytes_lemmas.
Open Scope N_scope.

Lemma land255 x : N.land x 255 = x mod 256.
Proof. change 255 with (N.ones 8). rewrite N.land_ones. reflexivity. Qed.

Definition step' (st : N * N) (b : N) : N * N := (fst st + b, snd st + fst st + b).

Lemma fold_step_mod bs : forall a c a' c', a = a' mod 256 -> c = c' mod 256 ->
  fold_left fl_step bs (a, c) =
  (fst (fold_left step' bs (a', c')) mod 256, snd (fold_left step' bs (a', c')) mod 256).
Proof.
  induction bs as [|b bs IH]; intros a c a' c' Ha Hc; cbn [fold_left].
  - cbn. now subst.
  - unfold fl_step at 2, step' at 2 4. cbn [fst snd]. rewrite !land255. apply IH; subst; lia.
Qed.

Lemma fold_step'_closed bs : forall a c,
  fold_left step' bs (a, c) = (a + sumA bs, c + N.of_nat (length bs) * a + sumB bs).
Proof.
  induction bs as [|b bs IH]; intros a c; cbn [fold_left].
  - cbn. f_equal; lia.
  - unfold step' at 2. cbn [fst snd]. rewrite IH. cbn [sumA sumB length].
    rewrite !Nat2N.inj_succ. f_equal; [lia|]. rewrite <- !N.add_1_l. ring.
Qed.

Theorem fletcher_pair_spec bs : fletcher_pair bs = (sumA bs mod 256, sumB bs mod 256).
Proof.
  unfold fletcher_pair. rewrite (fold_step_mod bs 0 0 0 0) by reflexivity.
  rewrite fold_step'_closed. cbn [fst snd]. f_equal; f_equal; lia.
Qed.

(* the coded loop IS the 8-bit Fletcher definition, for every byte string *)
Theorem fletcher_is_spec bs : fletcher bs = fletcher_spec bs.
Proof. unfold fletcher, fletcher_spec. now rewrite fletcher_pair_spec. Qed.

Lemma fletcher_length bs : length (fletcher bs) = 2%nat.
Proof. rewrite fletcher_is_spec. reflexivity. Qed.

Lemma fletcher_wfb bs : wfb (fletcher bs).
Proof. rewrite fletcher_is_spec. unfold fletcher_spec. repeat constructor; lia. Qed.

Lemma sumA_app l r : sumA (l ++ r) = sumA l + sumA r.
Proof. induction l; cbn; lia. Qed.

(* a single substituted byte always changes ck_a *)
Theorem fletcher_subst_detect l x y r : x < 256 -> y < 256 -> x <> y ->
  fletcher (l ++ x :: r) <> fletcher (l ++ y :: r).
Proof.
  intros Hx Hy Hne. rewrite !fletcher_is_spec. unfold fletcher_spec.
  rewrite !sumA_app. cbn [sumA]. intros H. injection H as H _. apply Hne.
  set (L := sumA l) in *. set (R := sumA r) in *. lia.
Qed.

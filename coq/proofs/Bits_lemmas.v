(* Bits_lemmas.v — bit flags: what is inserted is what is extracted; other flags are untouched *)
From PyUbx Require Import Base Bytes PyFloat Types Strs Walk Tac.
Open Scope Z_scope.

(* as coded: extraction (bf >> off) & ((1 << w) - 1); insertion bf | (v << off) *)
Definition ext (bf off w : Z) : Z := Z.land (Z.shiftr bf off) (2 ^ w - 1).
Definition ins (bf off v : Z) : Z := Z.lor bf (Z.shiftl v off).

Lemma ones_Z w : 0 <= w -> 2 ^ w - 1 = Z.ones w.
Proof. intros H. rewrite Z.ones_equiv. lia. Qed.

Lemma ext_testbit bf off w i : 0 <= w -> 0 <= off -> 0 <= i ->
  Z.testbit (ext bf off w) i = (i <? w) && Z.testbit bf (i + off).
Proof.
  intros Hw Ho Hi. unfold ext. rewrite ones_Z by assumption. rewrite Z.land_spec, Z.shiftr_spec by assumption.
  destruct (Z.ltb_spec i w).
  - rewrite Z.ones_spec_low by lia. now rewrite andb_true_r.
  - rewrite Z.ones_spec_high by lia. now rewrite andb_false_r.
Qed.

Lemma ins_testbit bf off v i : 0 <= off -> 0 <= i ->
  Z.testbit (ins bf off v) i = Z.testbit bf i || ((off <=? i) && Z.testbit v (i - off)).
Proof.
  intros Ho Hi. unfold ins. rewrite Z.lor_spec. f_equal. rewrite Z.shiftl_spec by assumption.
  destruct (Z.leb_spec off i); [reflexivity|]. now rewrite Z.testbit_neg_r by lia.
Qed.

Lemma small_testbit v w i : 0 <= v < 2 ^ w -> w <= i -> Z.testbit v i = false.
Proof.
  intros Hv Hi. destruct (Z.eq_dec v 0) as [->|Hz]; [apply Z.bits_0|].
  apply Z.bits_above_log2; [lia|]. apply Z.log2_lt_pow2; [lia|].
  eapply Z.lt_le_trans; [apply Hv|]. apply Z.pow_le_mono_r; lia.
Qed.

Definition clear (bf off w : Z) := forall i, off <= i < off + w -> Z.testbit bf i = false.

(* what you insert is what you extract *)
Theorem ext_ins_same bf off w v : 0 <= off -> 0 <= w -> 0 <= v < 2 ^ w -> clear bf off w ->
  ext (ins bf off v) off w = v.
Proof.
  intros Ho Hw Hv Hc. apply Z.bits_inj'. intros i Hi. rewrite ext_testbit, ins_testbit by lia.
  destruct (Z.ltb_spec i w).
  - rewrite Hc by lia. replace (off <=? i + off) with true by lia.
    replace (i + off - off) with i by lia. reflexivity.
  - symmetry. now apply small_testbit with w.
Qed.

(* other flags are untouched *)
Theorem ext_ins_other bf off w v off' w' : 0 <= off -> 0 <= off' -> 0 <= w' -> 0 <= v < 2 ^ w ->
  (off' + w' <= off \/ off + w <= off') -> ext (ins bf off v) off' w' = ext bf off' w'.
Proof.
  intros Ho Ho' Hw' Hv Hd. apply Z.bits_inj'. intros i Hi. rewrite !ext_testbit, ins_testbit by lia.
  destruct (Z.ltb_spec i w'); [|reflexivity]. cbn [andb].
  destruct (Z.leb_spec off (i + off')); [|now rewrite orb_false_r].
  rewrite (small_testbit v w) by lia. now rewrite orb_false_r.
Qed.

Theorem ins_keeps_clear bf off w v off' w' : 0 <= off -> 0 <= w -> 0 <= v < 2 ^ w -> off + w <= off' ->
  clear bf off' w' -> clear (ins bf off v) off' w'.
Proof.
  intros Ho Hw Hv Hd Hc i Hi. rewrite ins_testbit, Hc by lia. cbn [orb].
  destruct (Z.leb_spec off i); [|reflexivity]. apply small_testbit with w; lia.
Qed.

(* the keyword route refuses any value that does not fit its flag *)
Lemma flag_value_range v atts z : flag_value v atts = Ok z -> 0 <= z < 2 ^ atts /\ v = PInt z.
Proof.
  unfold flag_value. destruct v; try discriminate.
  - destruct ((0 <=? z0) && (z0 <? 2 ^ atts)) eqn:E; [|discriminate]. intros H; injection H as <-. split; [lia|reflexivity].
  - destruct (fcompare_Z f 0) as [[| |]|]; destruct (fcompare_Z f (2 ^ atts)) as [[| |]|]; discriminate.
Qed.

(* the former defect, kept as a witness that the check is what prevents it *)
Example overwide_would_corrupt : ext (ins 0 0 3) 1 1 = 1.
Proof. reflexivity. Qed.

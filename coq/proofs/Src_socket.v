(* Src_socket.v — SocketWrapper._recv and SocketWrapper.read (gen/PySrcIO.v, translated from the source on every run)
   against the socket model (model/Socket.v). *)
From Coq Require Import ZArith List String Ascii Bool Lia ZifyBool.
From PyUbx Require Import Base Bytes Reader Socket PyFloat Types Strs PyMini PySrcIO Tac Bytes_lemmas Src_common.
Import ListNotations.
Open Scope Z_scope.

(* recv() on a socket whose future results are the list: data, or OSError / TimeoutError (also once the list is used up) *)
Definition rcv (l : list ev) : result bytes * list ev :=
  match l with
  | [] => (Raise EOther, [])
  | Fail :: t => (Raise EOther, t)
  | Chunk d :: t => (Ok d, t)
  end.

Section SK.
Variable attr : string -> gv.
Variable bufsize : Z.
Hypothesis attr_bufsize : attr "_bufsize" = gint bufsize.
Hypothesis T_recv : mem_s "py_sock_recv" translated_io = true.
Hypothesis T_read : mem_s "py_sockread" translated_io = true.

Definition SW (l : list ev) (eff : list (string * list gv)) (st : list (string * gv)) : world (list ev) :=
  {| w_stream := l; w_eff := eff; w_store := st |}.
Definition has_buf (st : list (string * gv)) (b : bytes) : Prop := assoc_s "self._buffer" st = Some (gbytes b).

(* what _recv / read leave alone in the store: every variable but their own locals (whatever they are called) and the
   buffer *)
Definition frame (st' st : list (string * gv)) : Prop :=
  forall k, String.eqb k "self._buffer" = false -> String.prefix "_recv." k = false -> String.prefix "read." k = false ->
            assoc_s k st' = assoc_s k st.
Lemma frame_refl st : frame st st.  Proof. intros k _ _ _. reflexivity. Qed.
Lemma frame_trans a b c : frame a b -> frame b c -> frame a c.
Proof. intros H1 H2 k A B C. now rewrite (H1 k A B C), (H2 k A B C). Qed.
Lemma eqb_by_prefix p k lit : String.prefix p k = false -> String.prefix p lit = true -> String.eqb k lit = false.
Proof.
  intros Hk Hl. destruct (String.eqb k lit) eqn:E; [|reflexivity]. apply String.eqb_eq in E. subst. congruence.
Qed.
Ltac frame_tac := let k := fresh "k" in let A := fresh in let B := fresh in let C := fresh in
  intros k A B C; cbn [assoc_s];
  repeat match goal with
         | |- context [String.eqb k ?lit] =>
             first [ rewrite A | rewrite (eqb_by_prefix "_recv." k lit B eq_refl) | rewrite (eqb_by_prefix "read." k lit C eq_refl) ]
         end; reflexivity.

Ltac io := cbv beta iota zeta delta [fn_result seqIO bindIO retIO raiseIO liftR io_recv io_set io_get g_catchIO
                                      w_stream w_eff w_store existsb exn_eqb rcv].
Ltac look := cbn [assoc_s String.eqb Ascii.eqb Bool.eqb].
Ltac go := repeat (progress (io; look; unfold gint; cbn [g_len g_add g_eq pv_eq gbytes length Z.of_nat Z.eqb bind fst snd g_truth negb])).

(* _recv(): one recv() result consumed; data appended to the buffer; False on failure or on an empty result *)
Lemma recv_io l eff st b : has_buf st b ->
  exists st', py_sock_recv rcv attr (SW l eff st) =
              (Ok (gbool (fst (recv {| buf := b; evs := l |}))), SW (evs (snd (recv {| buf := b; evs := l |}))) eff st')
              /\ has_buf st' (buf (snd (recv {| buf := b; evs := l |}))) /\ frame st' st.
Proof.
  intros Hb. first [pose proof T_recv as Hin; untranslated Hin | idtac].
  all: unfold py_sock_recv, SW, has_buf in *. all: rewrite attr_bufsize. all: unfold recv; cbn [evs buf].
  all: destruct l as [|[[|x d]|] t]; go; rewrite ?Hb; go.
  all: eexists; split; [reflexivity|]; split; [cbn [fst snd buf]; look; first [exact Hb | reflexivity] | frame_tac].
Qed.

(* ---- read(num) ---- *)
(* the top-up loop of read(): (true, buffer, events left) when the buffer holds num bytes, (false, ..) when a recv failed *)
Fixpoint loop_spec (n : nat) (b : bytes) (l : list ev) : bool * bytes * list ev :=
  if Nat.leb n (length b) then (true, b, l)
  else match l with
       | [] => (false, b, [])
       | Fail :: t => (false, b, t)
       | Chunk [] :: t => (false, b, t)
       | Chunk d :: t => loop_spec n (b ++ d)%list t
       end.

Lemma sock_read_aux_spec n : forall l b,
  sock_read_aux n b l =
  let '(ok, b', l') := loop_spec n b l in
  if ok then (firstn n b', {| buf := skipn n b'; evs := l' |}) else ([], {| buf := b'; evs := l' |}).
Proof.
  induction l as [|e t IH]; intros b; cbn [sock_read_aux loop_spec]; destruct (Nat.leb n (length b)); try reflexivity.
  destruct e as [[|x d]|]; try reflexivity. apply IH.
Qed.

Lemma pyslice_from_nat (l : bytes) (n : nat) : pyslice_from l (Z.of_nat n) = skipn n l.
Proof.
  unfold pyslice_from, norm_idx. cbv zeta.
  destruct (Z.of_nat n <? 0) eqn:E0; [lia|]. rewrite E0.
  destruct (Z.of_nat (length l) <? Z.of_nat n) eqn:E1.
  - rewrite Nat2Z.id. rewrite (skipn_all2 (n := n)) by lia. now rewrite skipn_all.
  - now rewrite Nat2Z.id.
Qed.

Notation py_test := (@py_sockread_test1 (list ev)).
Notation py_body := (@py_sockread_body1 (list ev) rcv attr).

Lemma g_while_S {W} fuel (c : IO W bool) (b : IO W ctl) w :
  g_while (Datatypes.S fuel) c b w =
  match c w with
  | (Ok true, w1) => match b w1 with
                     | (Ok CNormal, w2) | (Ok CCont, w2) => g_while fuel c b w2
                     | (Ok CBreak, w2) => (Ok CNormal, w2)
                     | (Ok (CRet v), w2) => (Ok (CRet v), w2)
                     | (Raise e, w2) => (Raise e, w2)
                     end
  | (Ok false, w1) => (Ok CNormal, w1)
  | (Raise e, w1) => (Raise e, w1)
  end.
Proof.
  cbn [g_while]. unfold bindIO, retIO. destruct (c w) as [[[|]|e] w1]; try reflexivity.
  destruct (b w1) as [[[]|e] w2]; reflexivity.
Qed.

Lemma test_io (n : nat) l eff st b : has_buf st b ->
  py_test (gint (Z.of_nat n)) (SW l eff st) = (Ok (negb (Nat.leb n (length b))), SW l eff st).
Proof.
  intros Hb. first [pose proof T_read as Hin; untranslated Hin | idtac].
  all: unfold py_sockread_test1, SW, has_buf in *; io; look; rewrite Hb; cbn [g_len gbytes bind]; unfold gint; cbn [g_lt].
  all: destruct (Nat.leb_spec n (length b)); cbn [negb]; [replace (Z.of_nat (length b) <? Z.of_nat n) with false by lia
                                                         |replace (Z.of_nat (length b) <? Z.of_nat n) with true by lia]; reflexivity.
Qed.

Lemma body_io (n : nat) l eff st b : has_buf st b ->
  exists st', py_body (gint (Z.of_nat n)) (SW l eff st) =
              (Ok (if fst (recv {| buf := b; evs := l |}) then CNormal else CRet (gbytes [])),
               SW (evs (snd (recv {| buf := b; evs := l |}))) eff st')
              /\ has_buf st' (buf (snd (recv {| buf := b; evs := l |}))) /\ frame st' st.
Proof.
  intros Hb. first [pose proof T_read as Hin; untranslated Hin | idtac].
  all: destruct (recv_io l eff st b Hb) as (st1 & Hr & Hb1 & Hfr).
  all: unfold py_sockread_body1; unfold bindIO at 1 2 3; rewrite Hr.
  all: destruct (fst (recv {| buf := b; evs := l |})); cbn [g_truth gbool Z.eqb negb retIO].
  all: exists st1; split; [reflexivity|split; [exact Hb1|exact Hfr]].
Qed.

Lemma loop_io (n : nat) : forall l b eff st fuel, has_buf st b -> (length l < fuel)%nat ->
  exists st', g_while fuel (py_test (gint (Z.of_nat n))) (py_body (gint (Z.of_nat n))) (SW l eff st) =
              (let '(ok, b', l') := loop_spec n b l in
               (Ok (if ok then CNormal else CRet (gbytes [])), SW l' eff st'))
              /\ has_buf st' (snd (fst (loop_spec n b l))) /\ frame st' st.
Proof.
  induction l as [|e t IH]; intros b eff st fuel Hb Hf.
  - destruct fuel as [|f]; [cbn [length] in Hf; lia|].
    rewrite g_while_S, (test_io n [] eff st b Hb). cbn [loop_spec].
    destruct (Nat.leb n (length b)); cbn [negb fst snd]; [exists st; split; [reflexivity|split; [exact Hb|apply frame_refl]]|].
    destruct (body_io n [] eff st b Hb) as (st1 & Hr & Hb1 & Hfr). rewrite Hr. cbn [recv evs buf fst snd] in *.
    exists st1. split; [reflexivity|split; [exact Hb1|exact Hfr]].
  - destruct fuel as [|f]; [cbn [length] in Hf; lia|].
    rewrite g_while_S, (test_io n (e :: t) eff st b Hb). cbn [loop_spec].
    destruct (Nat.leb n (length b)); cbn [negb fst snd]; [exists st; split; [reflexivity|split; [exact Hb|apply frame_refl]]|].
    destruct (body_io n (e :: t) eff st b Hb) as (st1 & Hr & Hb1 & Hfr). rewrite Hr. clear Hr.
    destruct e as [[|x d]|]; cbn [recv evs buf fst snd] in *.
    + exists st1. split; [reflexivity|split; [exact Hb1|exact Hfr]].
    + cbn [length] in Hf. destruct (IH (b ++ x :: d)%list eff st1 f Hb1 ltac:(lia)) as (st2 & Hw & Hb2 & Hfr2).
      rewrite Hw. exists st2. split; [reflexivity|split; [exact Hb2|exact (frame_trans _ _ _ Hfr2 Hfr)]].
    + exists st1. split; [reflexivity|split; [exact Hb1|exact Hfr]].
Qed.

(* read(num): for every sequence of recv() results and every buffer, the source's read() returns what the model's
   sock_read returns, consumes the same recv() results and leaves the same buffer *)
Theorem read_io (n : nat) l b eff st fuel : has_buf st b -> (length l < fuel)%nat ->
  exists st', py_sockread rcv attr fuel (gint (Z.of_nat n)) (SW l eff st) =
              (Ok (gbytes (fst (sock_read_aux n b l))), SW (evs (snd (sock_read_aux n b l))) eff st')
              /\ has_buf st' (buf (snd (sock_read_aux n b l))) /\ frame st' st.
Proof.
  intros Hb Hf. first [pose proof T_read as Hin; untranslated Hin | idtac].
  all: destruct (loop_io n l b eff st fuel Hb Hf) as (st1 & Hw & Hb1 & Hfr).
  all: rewrite sock_read_aux_spec. all: unfold py_sockread, fn_result, seqIO. all: unfold bindIO at 1 2. all: rewrite Hw. all: clear Hw.
  all: destruct (loop_spec n b l) as [[ok b'] l']; cbn [fst snd] in *.
  all: destruct ok; cbn [fst snd buf evs retIO]; [|exists st1; split; [reflexivity|split; [exact Hb1|exact Hfr]]].
  all: unfold SW, has_buf in *.
  all: repeat (progress (io; look; rewrite ?Hb1; unfold gint; cbn [g_slice slice_of gbytes gnone bind g_bytes_conv])).
  all: change 0 with (Z.of_nat 0); rewrite ?pyslice_nat, ?pyslice_from_nat; cbn [skipn Nat.sub]; rewrite ?Nat.sub_0_r.
  all: eexists; split; [reflexivity|]; split; [look; reflexivity|].
  all: eapply frame_trans; [|exact Hfr]; frame_tac.
Qed.

(* ---- readline() ---- *)
Hypothesis T_readline : mem_s "py_sockreadline" translated_io = true.
Definition has_line (st : list (string * gv)) (ln : bytes) : Prop := assoc_s "readline.line" st = Some (gbytes ln).

Notation rl_test := (@py_sockreadline_test1 (list ev)).
Notation rl_body := (@py_sockreadline_body1 (list ev) rcv attr).

(* read(1) returns at most one byte *)
Lemma read1_shape b l : fst (sock_read_aux 1 b l) = [] \/ exists x, fst (sock_read_aux 1 b l) = [x].
Proof.
  rewrite sock_read_aux_spec. destruct (loop_spec 1 b l) as [[ok b'] l']. destruct ok; [|now left].
  cbn [fst]. destruct b' as [|x b']; [now left|right; now exists x].
Qed.

Lemma last1 (ln : bytes) (x : N) : pyslice_from (ln ++ [x])%list (-1) = [x].
Proof.
  change (-1) with (- Z.of_nat 1). rewrite pyslice_from_last by lia. rewrite app_length. cbn [length].
  destruct (Nat.leb_spec (length ln + 1) 1) as [H|H].
  - destruct ln; [reflexivity|cbn [length] in H; lia].
  - replace (length ln + 1 - 1)%nat with (length ln) by lia. rewrite skipn_app, skipn_all, Nat.sub_diag. reflexivity.
Qed.

(* one pass through the loop body: read(1); a byte is appended and ends the line when it is LF, nothing ends it too *)
Lemma rl_body_io fuel l b ln eff st : has_buf st b -> has_line st ln -> (length l < fuel)%nat ->
  exists st',
    rl_body fuel (SW l eff st) =
    (Ok (match fst (sock_read_aux 1 b l) with [x] => if (x =? 10)%N then CBreak else CNormal | _ => CBreak end),
     SW (evs (snd (sock_read_aux 1 b l))) eff st')
    /\ has_buf st' (buf (snd (sock_read_aux 1 b l)))
    /\ has_line st' (match fst (sock_read_aux 1 b l) with [x] => (ln ++ [x])%list | _ => ln end).
Proof.
  intros Hb Hl Hf. first [pose proof T_readline as Hin; untranslated Hin | idtac].
  all: destruct (read_io 1 l b eff st fuel Hb Hf) as (st1 & Hr & Hb1 & Hfr).
  all: assert (Hl1 : assoc_s "readline.line" st1 = Some (gbytes ln)) by (rewrite (Hfr "readline.line"%string eq_refl eq_refl eq_refl); exact Hl).
  all: assert (Hb1' : assoc_s "self._buffer" st1 = Some (gbytes (buf (snd (sock_read_aux 1 b l))))) by exact Hb1.
  all: unfold py_sockreadline_body1, seqIO. all: unfold bindIO at 1 2. all: change (gint 1) with (gint (Z.of_nat 1)). all: rewrite Hr.
  all: unfold SW, has_buf, has_line in *.
  all: destruct (read1_shape b l) as [E|[x E]]; rewrite E.
  all: repeat (progress (io; look; rewrite ?Hl1, ?Hb1'; unfold gint;
                          cbn [g_len g_add g_eq pv_eq gbytes length Z.of_nat Pos.of_succ_nat Z.eqb Pos.eqb bind g_slice slice_of gnone])).
  all: rewrite ?last1; cbn [beq andb].
  all: try (rewrite ?(N.eqb_sym 10%N x), andb_true_r; destruct (x =? 10)%N).
  all: eexists; split; [reflexivity|]; split; look; first [exact Hb1' | exact Hl1 | reflexivity].
Qed.

(* the model's readline loop, with running out of iterations made visible *)
Fixpoint rl_opt (f : nat) (line : bytes) (s : sock) : option (bytes * sock) :=
  match f with
  | O => None
  | Datatypes.S f' =>
    let '(d, s') := sock_read 1 s in
    match d with
    | [x] => if (x =? 10)%N then Some ((line ++ [x])%list, s') else rl_opt f' (line ++ [x])%list s'
    | _ => Some (line, s')
    end
  end.

Lemma rl_opt_aux f : forall line s r, rl_opt f line s = Some r -> sock_readline_aux f line s = r.
Proof.
  induction f as [|f IH]; intros line s r H; cbn [rl_opt sock_readline_aux] in *; [discriminate|].
  destruct (sock_read 1 s) as [d s']. destruct d as [|x [|y d]]; try (injection H as <-; reflexivity).
  destruct (x =? 10)%N; [injection H as <-; reflexivity|]. now apply IH.
Qed.

Lemma events_shrink n b l : (length (evs (snd (sock_read_aux n b l))) <= length l)%nat.
Proof.
  rewrite sock_read_aux_spec. revert b. induction l as [|e t IH]; intros b; cbn [loop_spec].
  - destruct (Nat.leb n (length b)); cbn; lia.
  - destruct (Nat.leb n (length b)); [cbn; lia|]. destruct e as [[|x d]|]; try (cbn; lia).
    specialize (IH (b ++ x :: d)%list). destruct (loop_spec n (b ++ x :: d)%list t) as [[ok b'] l']. destruct ok; cbn in *; lia.
Qed.

Lemma rl_test_io (w : world (list ev)) : rl_test w = (Ok true, w).
Proof. first [pose proof T_readline as Hin; untranslated Hin | idtac]. all: reflexivity. Qed.

Lemma rl_loop Fi eff : forall f k b l ln st r, has_buf st b -> has_line st ln -> (length l < Fi)%nat -> (f <= k)%nat ->
  rl_opt f ln {| buf := b; evs := l |} = Some r ->
  exists st', g_while k rl_test (rl_body Fi) (SW l eff st) = (Ok CNormal, SW (evs (snd r)) eff st')
              /\ has_buf st' (buf (snd r)) /\ has_line st' (fst r).
Proof.
  induction f as [|f IH]; intros k b l ln st r Hb Hl Hf Hk H; cbn [rl_opt] in H; [discriminate|].
  destruct k as [|k]; [lia|]. rewrite g_while_S, rl_test_io.
  destruct (rl_body_io Fi l b ln eff st Hb Hl Hf) as (st1 & Hr & Hb1 & Hl1). rewrite Hr. clear Hr.
  unfold sock_read in H. cbn [buf evs] in H.
  destruct (sock_read_aux 1 b l) as [d s'] eqn:E. cbn [fst snd] in *.
  destruct d as [|x [|y d]].
  - injection H as <-. exists st1. cbn [fst snd]. split; [reflexivity|split; assumption].
  - destruct (x =? 10)%N.
    + injection H as <-. exists st1. cbn [fst snd]. split; [reflexivity|split; assumption].
    + destruct s' as [b' l']. cbn [buf evs] in *.
      assert (Hf' : (length l' < Fi)%nat).
      { pose proof (events_shrink 1 b l) as Hs. rewrite E in Hs. cbn [snd evs] in Hs. lia. }
      apply (IH k b' l' (ln ++ [x])%list st1 r Hb1 Hl1 Hf' ltac:(lia) H).
  - injection H as <-. exists st1. cbn [fst snd]. split; [reflexivity|split; assumption].
Qed.

(* readline(): for every sequence of recv() results and every buffer, the source's readline() returns the line the model's
   loop returns, consumes the same recv() results and leaves the same buffer (whenever the model's loop ends within `fuel`
   rounds; Socket_lemmas shows it does for fuel = 1 + the number of bytes the socket will ever deliver) *)
Theorem readline_io fuel l b eff st r : has_buf st b -> (length l < fuel)%nat ->
  rl_opt fuel [] {| buf := b; evs := l |} = Some r ->
  exists st', py_sockreadline rcv attr fuel (SW l eff st) = (Ok (gbytes (fst r)), SW (evs (snd r)) eff st')
              /\ has_buf st' (buf (snd r)).
Proof.
  intros Hb Hf H. first [pose proof T_readline as Hin; untranslated Hin | idtac].
  all: unfold py_sockreadline, fn_result, seqIO. all: unfold bindIO at 1 2 3 4. all: unfold SW at 1; cbv beta iota zeta delta [retIO io_set w_stream w_eff w_store].
  all: destruct (rl_loop fuel eff fuel fuel b l [] (("readline.line", gbytes []) :: st) r) as (st1 & Hw & Hb1 & Hl1);
       [unfold has_buf in *; look; exact Hb | reflexivity | exact Hf | lia | exact H | ].
  all: unfold SW in Hw. all: rewrite Hw. all: unfold SW, has_line in *; io; look; rewrite Hl1. all: exists st1; split; [reflexivity|exact Hb1].
Qed.
End SK.

(* Src_socket.v — SocketWrapper._recv and SocketWrapper.read (gen/PySrcIO.v, translated from the source on every run)
   against the socket model (model/Socket.v). *)
From Coq Require Import ZArith List String Ascii Bool Lia ZifyBool.
From PyUbx Require Import Base Bytes Reader Socket PyFloat Types Strs PyMini PySrcIO Tac Bytes_lemmas Src_common.
Import ListNotations.
Open Scope Z_scope.

(* recv() on a socket whose future results are the list: data, or OSError / TimeoutError (also once the list is used up) *)
Definition rcv (l : list ev) : result bytes * list ev :=
  match l with
  | [] => (Raise EOther, [])
  | Fail :: t => (Raise EOther, t)
  | Chunk d :: t => (Ok d, t)
  end.

Section SK.
Variable attr : string -> gv.
Variable bufsize : Z.
Hypothesis attr_bufsize : attr "_bufsize" = gint bufsize.
Hypothesis T_recv : mem_s "py_sock_recv" translated_io = true.
Hypothesis T_read : mem_s "py_sockread" translated_io = true.

Definition SW (l : list ev) (eff : list (string * list gv)) (st : list (string * gv)) : world (list ev) :=
  {| w_stream := l; w_eff := eff; w_store := st |}.
Definition has_buf (st : list (string * gv)) (b : bytes) : Prop := assoc_s "self._buffer" st = Some (gbytes b).

Ltac io := cbv beta iota zeta delta [fn_result seqIO bindIO retIO raiseIO liftR io_recv io_set io_get g_catchIO
                                      w_stream w_eff w_store existsb exn_eqb rcv].
Ltac look := cbn [assoc_s String.eqb Ascii.eqb Bool.eqb].
Ltac go := repeat (progress (io; look; unfold gint; cbn [g_len g_add g_eq pv_eq gbytes length Z.of_nat Z.eqb bind fst snd])).

(* _recv(): one recv() result consumed; data appended to the buffer; False on failure or on an empty result *)
Lemma recv_io l eff st b : has_buf st b ->
  exists st', py_sock_recv rcv attr (SW l eff st) =
              (Ok (gbool (fst (recv {| buf := b; evs := l |}))), SW (evs (snd (recv {| buf := b; evs := l |}))) eff st')
              /\ has_buf st' (buf (snd (recv {| buf := b; evs := l |}))).
Proof.
  intros Hb. first [pose proof T_recv as Hin; untranslated Hin | idtac].
  all: unfold py_sock_recv, SW, has_buf in *. all: rewrite attr_bufsize. all: unfold recv; cbn [evs buf].
  all: destruct l as [|[[|x d]|] t]; go; rewrite ?Hb; go.
  all: eexists; split; [reflexivity|]; cbn [fst snd buf]; look; first [exact Hb | reflexivity].
Qed.

(* ---- read(num) ---- *)
(* the top-up loop of read(): (true, buffer, events left) when the buffer holds num bytes, (false, ..) when a recv failed *)
Fixpoint loop_spec (n : nat) (b : bytes) (l : list ev) : bool * bytes * list ev :=
  if Nat.leb n (length b) then (true, b, l)
  else match l with
       | [] => (false, b, [])
       | Fail :: t => (false, b, t)
       | Chunk [] :: t => (false, b, t)
       | Chunk d :: t => loop_spec n (b ++ d)%list t
       end.

Lemma sock_read_aux_spec n : forall l b,
  sock_read_aux n b l =
  let '(ok, b', l') := loop_spec n b l in
  if ok then (firstn n b', {| buf := skipn n b'; evs := l' |}) else ([], {| buf := b'; evs := l' |}).
Proof.
  induction l as [|e t IH]; intros b; cbn [sock_read_aux loop_spec]; destruct (Nat.leb n (length b)); try reflexivity.
  destruct e as [[|x d]|]; try reflexivity. apply IH.
Qed.

Lemma pyslice_from_nat (l : bytes) (n : nat) : pyslice_from l (Z.of_nat n) = skipn n l.
Proof.
  unfold pyslice_from, norm_idx. cbv zeta.
  destruct (Z.of_nat n <? 0) eqn:E0; [lia|]. rewrite E0.
  destruct (Z.of_nat (length l) <? Z.of_nat n) eqn:E1.
  - rewrite Nat2Z.id. rewrite (skipn_all2 (n := n)) by lia. now rewrite skipn_all.
  - now rewrite Nat2Z.id.
Qed.

Notation py_test := (@py_sockread_test1 (list ev)).
Notation py_body := (@py_sockread_body1 (list ev) rcv attr).

Lemma g_while_S {W} fuel (c : IO W bool) (b : IO W ctl) w :
  g_while (Datatypes.S fuel) c b w =
  match c w with
  | (Ok true, w1) => match b w1 with
                     | (Ok CNormal, w2) | (Ok CCont, w2) => g_while fuel c b w2
                     | (Ok CBreak, w2) => (Ok CNormal, w2)
                     | (Ok (CRet v), w2) => (Ok (CRet v), w2)
                     | (Raise e, w2) => (Raise e, w2)
                     end
  | (Ok false, w1) => (Ok CNormal, w1)
  | (Raise e, w1) => (Raise e, w1)
  end.
Proof.
  cbn [g_while]. unfold bindIO, retIO. destruct (c w) as [[[|]|e] w1]; try reflexivity.
  destruct (b w1) as [[[]|e] w2]; reflexivity.
Qed.

Lemma test_io (n : nat) l eff st b : has_buf st b ->
  py_test (gint (Z.of_nat n)) (SW l eff st) = (Ok (negb (Nat.leb n (length b))), SW l eff st).
Proof.
  intros Hb. first [pose proof T_read as Hin; untranslated Hin | idtac].
  all: unfold py_sockread_test1, SW, has_buf in *; io; look; rewrite Hb; cbn [g_len gbytes bind]; unfold gint; cbn [g_lt].
  all: destruct (Nat.leb_spec n (length b)); cbn [negb]; [replace (Z.of_nat (length b) <? Z.of_nat n) with false by lia
                                                         |replace (Z.of_nat (length b) <? Z.of_nat n) with true by lia]; reflexivity.
Qed.

Lemma body_io (n : nat) l eff st b : has_buf st b ->
  exists st', py_body (gint (Z.of_nat n)) (SW l eff st) =
              (Ok (if fst (recv {| buf := b; evs := l |}) then CNormal else CRet (gbytes [])),
               SW (evs (snd (recv {| buf := b; evs := l |}))) eff st')
              /\ has_buf st' (buf (snd (recv {| buf := b; evs := l |}))).
Proof.
  intros Hb. first [pose proof T_read as Hin; untranslated Hin | idtac].
  all: destruct (recv_io l eff st b Hb) as (st1 & Hr & Hb1).
  all: unfold py_sockread_body1; unfold bindIO at 1 2 3; rewrite Hr.
  all: destruct (fst (recv {| buf := b; evs := l |})); cbn [g_truth gbool Z.eqb negb retIO].
  all: exists st1; split; [reflexivity|exact Hb1].
Qed.

Lemma loop_io (n : nat) : forall l b eff st fuel, has_buf st b -> (length l < fuel)%nat ->
  exists st', g_while fuel (py_test (gint (Z.of_nat n))) (py_body (gint (Z.of_nat n))) (SW l eff st) =
              (let '(ok, b', l') := loop_spec n b l in
               (Ok (if ok then CNormal else CRet (gbytes [])), SW l' eff st'))
              /\ has_buf st' (snd (fst (loop_spec n b l))).
Proof.
  induction l as [|e t IH]; intros b eff st fuel Hb Hf.
  - destruct fuel as [|f]; [cbn [length] in Hf; lia|].
    rewrite g_while_S, (test_io n [] eff st b Hb). cbn [loop_spec].
    destruct (Nat.leb n (length b)); cbn [negb fst snd]; [exists st; split; [reflexivity|exact Hb]|].
    destruct (body_io n [] eff st b Hb) as (st1 & Hr & Hb1). rewrite Hr. cbn [recv evs buf fst snd] in *.
    exists st1. split; [reflexivity|exact Hb1].
  - destruct fuel as [|f]; [cbn [length] in Hf; lia|].
    rewrite g_while_S, (test_io n (e :: t) eff st b Hb). cbn [loop_spec].
    destruct (Nat.leb n (length b)); cbn [negb fst snd]; [exists st; split; [reflexivity|exact Hb]|].
    destruct (body_io n (e :: t) eff st b Hb) as (st1 & Hr & Hb1). rewrite Hr. clear Hr.
    destruct e as [[|x d]|]; cbn [recv evs buf fst snd] in *.
    + exists st1. split; [reflexivity|exact Hb1].
    + cbn [length] in Hf. destruct (IH (b ++ x :: d)%list eff st1 f Hb1 ltac:(lia)) as (st2 & Hw & Hb2).
      rewrite Hw. exists st2. split; [reflexivity|exact Hb2].
    + exists st1. split; [reflexivity|exact Hb1].
Qed.

(* read(num): for every sequence of recv() results and every buffer, the source's read() returns what the model's
   sock_read returns, consumes the same recv() results and leaves the same buffer *)
Theorem read_io (n : nat) l b eff st fuel : has_buf st b -> (length l < fuel)%nat ->
  exists st', py_sockread rcv attr fuel (gint (Z.of_nat n)) (SW l eff st) =
              (Ok (gbytes (fst (sock_read_aux n b l))), SW (evs (snd (sock_read_aux n b l))) eff st')
              /\ has_buf st' (buf (snd (sock_read_aux n b l))).
Proof.
  intros Hb Hf. first [pose proof T_read as Hin; untranslated Hin | idtac].
  all: destruct (loop_io n l b eff st fuel Hb Hf) as (st1 & Hw & Hb1).
  all: rewrite sock_read_aux_spec. all: unfold py_sockread, fn_result, seqIO. all: unfold bindIO at 1 2. all: rewrite Hw. all: clear Hw.
  all: destruct (loop_spec n b l) as [[ok b'] l']; cbn [fst snd] in *.
  all: destruct ok; cbn [fst snd buf evs retIO]; [|exists st1; split; [reflexivity|exact Hb1]].
  all: unfold SW, has_buf in *.
  all: repeat (progress (io; look; rewrite ?Hb1; unfold gint; cbn [g_slice slice_of gbytes gnone bind g_bytes_conv])).
  all: change 0 with (Z.of_nat 0); rewrite ?pyslice_nat, ?pyslice_from_nat; cbn [skipn Nat.sub]; rewrite ?Nat.sub_0_r.
  all: eexists; split; [reflexivity|]; look; reflexivity.
Qed.
End SK.

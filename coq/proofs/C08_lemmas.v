(* C08_lemmas.v — parse / construct raise only UBX errors (or the model's "declined" marker) *)
From PyUbx Require Import Base Bytes Fletcher Frame PyFloat Types Strs Walk Consts Tables Msg WfDef.
From PyUbx Require Import Tac Bytes_lemmas Frame_lemmas Walk_lemmas Msg_lemmas Exn_lemmas.
Open Scope Z_scope.

Definition all_defs : list (list adef) := map snd payloads_get ++ map snd payloads_set ++ map snd payloads_poll.

(* table obligation: no shipped definition has a zero scale or an empty variable-by-size group *)
Lemma no_zero_div_in_tables : forallb (fun ds => negb (zdp_list ds)) all_defs = true.
Proof. vm_compute. reflexivity. Qed.

Lemma tab_in t name d : tab t name = Ok d -> In d (map snd t).
Proof.
  unfold tab. destruct (assoc_s name t) as [x|] eqn:E; [|discriminate]. intros H; injection H as <-.
  induction t as [|[k v] t IH]; cbn in *; [discriminate|].
  destruct (String.eqb name k); [injection E as ->; auto|auto].
Qed.
Lemma tab_exn t name e : tab t name = Raise e -> e = EUBXMessage.
Proof. unfold tab. destruct (assoc_s name t); congruence. Qed.

Definition from_tables (pd : list adef) : Prop := pd = [] \/ In pd all_defs.

Lemma in_get d : In d (map snd payloads_get) -> from_tables d.
Proof. intros H. right. unfold all_defs. apply in_or_app. auto. Qed.
Lemma in_set d : In d (map snd payloads_set) -> from_tables d.
Proof. intros H. right. unfold all_defs. apply in_or_app. right. apply in_or_app. auto. Qed.
Lemma in_poll d : In d (map snd payloads_poll) -> from_tables d.
Proof. intros H. right. unfold all_defs. apply in_or_app. right. apply in_or_app. auto. Qed.

Lemma disc_byte_exn k name a e : disc_byte k name a = Raise e -> base_exn e.
Proof.
  unfold disc_byte. destruct (kw_has k name); [apply val2bytes_exn|].
  destruct k; try discriminate; intros H; injection H as <-; unfold base_exn; tauto.
Qed.

Ltac tabcase H :=
  match type of H with
  | tab payloads_get _ = Ok _ => apply tab_in in H; apply in_get; exact H
  | tab payloads_set _ = Ok _ => apply tab_in in H; apply in_set; exact H
  | tab payloads_poll _ = Ok _ => apply tab_in in H; apply in_poll; exact H
  end.
Ltac tabexn H :=
  match type of H with
  | tab _ _ = Raise _ => apply tab_exn in H; subst; unfold base_exn; tauto
  end.

Ltac sel_step H :=
  first
  [ discriminate
  | tabcase H
  | tabexn H
  | match type of H with bind ?r _ = _ => let E := fresh "E" in destruct r eqn:E; cbn [bind] in H end
  | match type of H with (if ?c then _ else _) = _ => destruct c end
  | match type of H with match ?o with Some _ => _ | None => _ end = _ => destruct o end
  | match type of H with (let '(_, _) := ?p in _) = _ => destruct p end
  | match type of H with Raise _ = Raise _ => injection H as <- end ].

Ltac sel_fin :=
  try (match goal with E : disc_byte _ _ _ = Raise _ |- base_exn _ => apply disc_byte_exn in E; exact E end);
  try (match goal with E : (if _ then _ else _) = Raise _ |- base_exn _ => repeat (sel_step E) end);
  try (match goal with E : Raise _ = Raise _ |- base_exn _ => injection E as <- end);
  try (unfold base_exn; tauto).

Lemma selector_spec name msg mode k :
  (forall pd, selector name msg mode k = Ok pd -> from_tables pd) /\
  (forall e, selector name msg mode k = Raise e -> base_exn e).
Proof.
  unfold selector.
  repeat (match goal with |- context [if String.eqb name ?s then _ else _] => destruct (String.eqb name s) end).
  all: split; intros x H; repeat (sel_step H); sel_fin.
Qed.

Lemma get_dict_spec cls id mode k pay :
  (forall pd, get_dict cls id mode k pay = Ok pd -> from_tables pd) /\
  (forall e, get_dict cls id mode k pay = Raise e -> base_exn e).
Proof.
  unfold get_dict. destruct (variant_lookup _ _ _); [apply selector_spec|].
  split; intros x H; repeat (sel_step H); sel_fin.
  injection H as <-. left. reflexivity.
Qed.

Lemma from_tables_no_zdp pd : from_tables pd -> zdp_list pd = false.
Proof.
  intros [->|Hin]; [reflexivity|].
  pose proof no_zero_div_in_tables as H. rewrite forallb_forall in H. specialize (H pd Hin).
  now apply negb_true_iff in H.
Qed.

Definition ubx_or_declined (e : exn) : Prop := e = EUBXMessage \/ e = EUBXType \/ e = EOther.

Lemma translate_base {A} (r : result A) e :
  (forall e0, r = Raise e0 -> base_exn e0) -> translate_exn r = Raise e -> ubx_or_declined e.
Proof.
  intros Hb H. destruct r as [a|e0]; [discriminate|]. specialize (Hb e0 eq_refl).
  unfold ubx_or_declined. unfold base_exn in Hb. cbn in H.
  destruct Hb as [->|[->|[->|[->|[->|[->|[->|[->| ->]]]]]]]]; injection H as <-; tauto.
Qed.

Lemma len_cksum_exn cls id p e : len_cksum cls id p = Raise e -> base_exn e.
Proof.
  unfold len_cksum, U2. rewrite v2b_U. intros H.
  apply bind_raise in H as [H|(l & _ & H)]; [apply int_enc_exn in H; subst; unfold base_exn; tauto|discriminate].
Qed.

Lemma do_walk_exn cls id mode bf k pay kwo e : do_walk cls id mode bf k pay kwo = Raise e -> base_exn e.
Proof.
  unfold do_walk. intros H. destruct (get_dict_spec cls id mode k pay) as [Hok Hex].
  apply bind_raise in H as [H|(pd & Hpd & H)]; [apply Hex; exact H|].
  apply walk_list_exn_all in H as [Hb|[_ Hz]]; [exact Hb|].
  rewrite (from_tables_no_zdp pd (Hok _ Hpd)) in Hz. discriminate.
Qed.

(* every constructor route: a message, UBXMessageError, UBXTypeError — or the model declines *)
Theorem construct_exn cls id mode bf k e : construct cls id mode bf k = Raise e -> ubx_or_declined e.
Proof.
  unfold construct. destruct (negb (mode_ok mode)); [intros H; injection H as <-; left; reflexivity|].
  apply translate_base. intros e0 H.
  assert (F: forall payload a,
    (do lc <- len_cksum cls id (match payload with Some p => p | None => [] end);
     Ok {| m_cls := cls; m_id := id; m_mode := mode; m_bf := bf; m_payload := payload;
           m_length := fst lc; m_cksum := snd lc; m_attrs := a; m_immutable := true |}) = Raise e0 -> base_exn e0).
  { intros payload a H0. apply bind_raise in H0 as [H0|(lc & _ & H0)]; [eapply len_cksum_exn; eauto|discriminate]. }
  destruct k as [|p|a].
  - exact (F None [] H).
  - apply bind_raise in H as [H|(s & _ & H)]; [eapply do_walk_exn; eauto|exact (F (Some (w_pay s)) (w_attrs s) H)].
  - destruct a as [|x a]; [exact (F None [] H)|].
    apply bind_raise in H as [H|(s & _ & H)]; [eapply do_walk_exn; eauto|exact (F (Some (w_pay s)) (w_attrs s) H)].
Qed.

(* C08 (parse half): for EVERY byte string and every option value *)
Theorem parse_exn msgmode v bf f e : parse msgmode v bf f = Raise e -> e = EUBXParse \/ ubx_or_declined e.
Proof.
  unfold parse. destruct (negb _); [intros H; injection H as <-; auto|].
  intros H. apply bind_raise in H as [H|(fr & _ & H)].
  - destruct (parse_front_cases v f) as [[r Hr]|Hr]; rewrite Hr in H; [discriminate|injection H as <-; auto].
  - right. destruct (f_payload fr); eapply construct_exn; eauto.
Qed.

Lemma parse_exn4 msgmode v bf f e :
  parse msgmode v bf f = Raise e -> e = EUBXParse \/ e = EUBXMessage \/ e = EUBXType \/ e = EOther.
Proof. intros H. destruct (parse_exn msgmode v bf f e H) as [->|[->|[->| ->]]]; auto. Qed.

(* config helpers: what the static methods can raise (they are NOT wrapped by the constructor's handler:
   a bad value escapes as TypeError/OverflowError/ValueError) — recorded, not claimed by any property *)

(* Src_common.v — lemmas and tactics shared by the Src_*.v files: the function bodies regenerated from /repo's source by harness/py2coq.py (gen/PySrc.v) compute what the hand-written model computes.  The tactics are written to survive re-orderings and equivalent rewrites of the source. *)
From Coq Require Import ZArith List String Ascii Bool Lia ZifyBool Floats.SpecFloat.
From PyUbx Require Import Base Bytes Fletcher Frame PyFloat Types Strs Walk Consts Tables Msg PyMini PySrc Tac Bytes_lemmas Fletcher_lemmas.
Import ListNotations.
Open Scope Z_scope.

Lemma sob_bos s : string_of_bytes (bytes_of_string s) = s.
Proof.
  unfold string_of_bytes, bytes_of_string. induction s as [|c s IH]; [reflexivity|].
  cbn [list_ascii_of_string map string_of_list_ascii]. rewrite ascii_N_embedding. f_equal. exact IH.
Qed.

Lemma as_def_tab t s : as_def (do x <- g_tab t (gstr s); Ok x) = tab t s.
Proof. unfold g_tab, gstr, tab. rewrite sob_bos. destruct (assoc_s s t); reflexivity. Qed.

Lemma slice_py (p : bytes) (a b : nat) : pyslice p (Z.of_nat a) (Z.of_nat b) = slice p a (b - a).
Proof. unfold slice. apply pyslice_nat. Qed.

Lemma v2b_U1_nokey v : v2b v (T 85%N (Some 1%nat)) <> Raise EKey.
Proof.
  unfold v2b, val2bytes. cbn. destruct v; cbn; try discriminate.
  unfold int_enc. repeat match goal with |- context [if ?c then _ else _] => destruct c end; discriminate.
Qed.

Lemma float_eq_int_0 f : float_eq_int f 0 = is_fzero f.
Proof.
  destruct f as [s|s| |s m e]; try reflexivity. unfold float_eq_int, is_fzero.
  assert (H : 0 < 2 ^ e \/ e < 0) by (destruct (Z_lt_le_dec e 0); [now right|left; now apply Z.pow_pos_nonneg]).
  destruct (0 <=? e) eqn:E.
  - destruct H as [H|H]; [|lia]. destruct s; cbn [cond_Zopp]; nia.
  - destruct s; cbn [cond_Zopp]; lia.
Qed.

Lemma pv_eq_zero v : pv_eq v (PInt 0) = pyval_is_zero v.
Proof. destruct v; try reflexivity. cbn. apply float_eq_int_0. Qed.

Lemma beq_sym a b : beq a b = beq b a.
Proof.
  destruct (beq a b) eqn:E1, (beq b a) eqn:E2; try reflexivity.
  - apply beq_eq in E1. subst. now rewrite beq_refl in E2.
  - apply beq_eq in E2. subst. now rewrite beq_refl in E1.
Qed.

(* negative slice bounds written out: l[a:-k] = l[a:len-k], l[-k:] = l[len-k:len]  (k = 1, 2: for larger k the two
   differ on lists shorter than k) *)
Lemma norm_idx_neg len k : 0 < k <= 2 -> 0 <= len -> norm_idx len (- k) = norm_idx len (len - k).
Proof.
  intros Hk Hl. unfold norm_idx.
  destruct (- k <? 0) eqn:E1; [|lia]. destruct (len - k <? 0) eqn:E2;
    repeat match goal with |- context [?a <? ?b] => destruct (a <? b) eqn:? end; lia.
Qed.

Lemma norm_idx_range len i : 0 <= len -> 0 <= norm_idx len i <= len.
Proof.
  intros Hl. unfold norm_idx. destruct (i <? 0) eqn:E1;
    repeat match goal with |- context [?a <? ?b] => destruct (a <? b) eqn:? end; lia.
Qed.

Lemma norm_idx_len len : 0 <= len -> norm_idx len len = len.
Proof.
  intros Hl. unfold norm_idx. destruct (len <? 0) eqn:E1; [lia|].
  repeat match goal with |- context [?a <? ?b] => destruct (a <? b) eqn:? end; lia.
Qed.

Lemma pyslice_neg_hi {A} (l : list A) a k : 0 < k <= 2 ->
  pyslice l a (- k) = pyslice l a (Z.of_nat (length l) - k).
Proof. intros Hk. unfold pyslice. cbv zeta. rewrite norm_idx_neg by lia. reflexivity. Qed.

Lemma pyslice_from_neg {A} (l : list A) k : 0 < k <= 2 ->
  pyslice_from l (- k) = pyslice l (Z.of_nat (length l) - k) (Z.of_nat (length l)).
Proof.
  intros Hk. unfold pyslice_from, pyslice. cbv zeta. rewrite norm_idx_neg by lia.
  set (a := Z.to_nat (norm_idx (Z.of_nat (length l)) (Z.of_nat (length l) - k))).
  symmetry. apply firstn_all2. rewrite skipn_length.
  pose proof (norm_idx_len (Z.of_nat (length l)) ltac:(lia)).
  pose proof (norm_idx_range (Z.of_nat (length l)) (Z.of_nat (length l) - k) ltac:(lia)).
  lia.
Qed.

Lemma pyslice_from_last {A} (l : list A) (n : nat) : (0 < n)%nat ->
  pyslice_from l (- Z.of_nat n) = if Nat.leb (length l) n then l else skipn (length l - n) l.
Proof.
  intros Hn. unfold pyslice_from, norm_idx.
  destruct (- Z.of_nat n <? 0) eqn:E0; [|lia].
  destruct (Nat.leb_spec (length l) n) as [H|H].
  - destruct (- Z.of_nat n + Z.of_nat (length l) <? 0) eqn:E1; [reflexivity|].
    assert (length l = n) by lia. replace (- Z.of_nat n + Z.of_nat (length l)) with 0 by lia.
    cbn [Z.ltb Z.compare]. destruct (Z.of_nat (length l) <? 0) eqn:E2; [lia|reflexivity].
  - destruct (- Z.of_nat n + Z.of_nat (length l) <? 0) eqn:E1; [lia|].
    destruct (Z.of_nat (length l) <? - Z.of_nat n + Z.of_nat (length l)) eqn:E2; [lia|].
    f_equal. lia.
Qed.

Lemma truth_gbool b : g_truth (gbool b) = b.
Proof. destruct b; reflexivity. Qed.

(* comparisons of two literals are computed; one with a variable on either side stays a Z.eqb for lia
   (cbn on `16 =? x` would open the match on the literal and leave a term lia cannot read) *)
Ltac zeqb_consts :=
  repeat match goal with |- context [Z.eqb ?a ?b] =>
    let v := eval vm_compute in (Z.eqb a b) in
    match v with true => change (Z.eqb a b) with true | false => change (Z.eqb a b) with false end end.
Ltac kcbn0 := repeat (progress (cbn [bind kwin kwget String.eqb Ascii.eqb Bool.eqb negb andb orb fst snd
                   g_eq g_len g_slice slice_of g_add g_val2bytes g_is_none gint gbytes gnone pv_eq as_def]; zeqb_consts)).
Ltac kcbn := kcbn0; rewrite ?truth_gbool;
             repeat (progress (cbn [bind kwin kwget String.eqb Ascii.eqb Bool.eqb negb andb orb fst snd
                  g_eq g_len g_slice slice_of g_add g_val2bytes g_is_none g_truth gint gbytes gbool gnone pv_eq as_def]; zeqb_consts)).

Ltac step :=
  kcbn;
  match goal with
  | |- as_def (do x <- g_tab _ (gstr _); Ok x) = tab _ _ => apply as_def_tab
  | |- ?x = ?x => reflexivity
  | |- context [assoc_s ?n ?a] => is_var a; destruct (assoc_s n a) eqn:?
  | |- context [v2b ?v ?t] =>
      let H := fresh "Hv" in let e := fresh "e" in
      destruct (v2b v t) as [?|e] eqn:H;
      [|destruct e; try reflexivity; exfalso; exact (v2b_U1_nokey _ H)]
  | |- context [g_msgids (gbytes ?x)] =>
      change (g_msgids (gbytes x)) with (match assoc_b x msgids with Some n => Ok (gstr n) | None => Raise EKey end);
      destruct (assoc_b x msgids) eqn:?
  | |- context [pv_eq ?v (PInt 0)] => rewrite (pv_eq_zero v)
  | |- context [if ?c then _ else _] => destruct c eqn:?
  | |- _ => exfalso; lia
  end.

(* py_selector on a literal name: open the dispatch chains and the selected function *)
Ltac open_sel :=
  unfold py_selector, selector; kcbn;
  match goal with
  | |- as_def (?f _ _ _) = _ => unfold f
  | |- as_def (?f _) = _ => unfold f
  end;
  unfold disc_byte, kw_has, kw_val, pay_len; cbv [U1 lU].

Ltac sel_agree :=
  intros Hin k; (exfalso; vm_compute in Hin; discriminate Hin) || (clear Hin; open_sel; destruct k as [|p|a]; kcbn;
  repeat match goal with
         | |- context [pyslice ?p ?x ?y] =>
             first [ change (pyslice p x y) with (pyslice p (Z.of_nat 0) (Z.of_nat 1))
                   | change (pyslice p x y) with (pyslice p (Z.of_nat 1) (Z.of_nat 2)) ];
             rewrite slice_py; cbn [Nat.sub]
         end;
  repeat step).

(* a function the translator could not handle is emitted as a stub and is absent from `translated`: the statement
   about it is then empty, and its tie to the source is the correspondence check alone *)
Ltac untranslated Hin := exfalso; vm_compute in Hin; discriminate Hin.

(* replace every atomic test by its value, then compute; contradictory combinations are closed by lia *)
Ltac atoms :=
  repeat match goal with |- context [beq ?x (pyslice ?m ?i ?j)] =>
           lazymatch x with pyslice _ _ _ => fail | _ => rewrite (beq_sym x (pyslice m i j)) end end;
  repeat match goal with
         | |- context [(?x ++ [])%list] => rewrite (app_nil_r x)
         | |- context [beq ?x ?y] => destruct (beq x y) eqn:?; cbn [f_payload]
         | |- context [N.testbit ?x ?y] => destruct (N.testbit x y) eqn:?
         | |- context [Z.eqb ?x ?y] => destruct (Z.eqb x y) eqn:?
         | |- context [Z.leb ?x ?y] => destruct (Z.leb x y) eqn:?
         | |- context [Z.ltb ?x ?y] => destruct (Z.ltb x y) eqn:?
         | |- context [N.eqb ?x ?y] => destruct (N.eqb x y) eqn:?
         | |- context [N.ltb ?x ?y] => destruct (N.ltb x y) eqn:?
         end.

Lemma truth_land1 (v : N) : g_truth (gint (Z.land (Z.of_N v) 1)) = N.testbit v 0.
Proof.
  unfold g_truth, gint. rewrite <- (Z.testbit_of_N v 0). change (Z.of_N 0) with 0.
  change 1 with (Z.ones 1). rewrite Z.land_ones by lia. rewrite <- Z.bit0_mod.
  destruct (Z.testbit (Z.of_N v) 0); reflexivity.
Qed.

Lemma bytes2val_U2 b : bytes2val b (T 85%N (Some 2%nat)) = Ok (PInt (Z.of_N (uint_of_le b))).
Proof. reflexivity. Qed.


(* ---- UBXMessage methods: attributes of self that are read are inputs; the result is
        Tup [return value; Tup [attributes assigned]; Tup [calls on super()]] ---- *)
Definition optg (p : option bytes) : gv := match p with Some b => gbytes b | None => gnone end.

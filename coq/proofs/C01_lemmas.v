From PyUbx Require Import Base Bytes Fletcher Frame PyFloat Types Strs Walk Consts Tables Msg.
From PyUbx Require Import Tac Bytes_lemmas Fletcher_lemmas Frame_lemmas Walk_lemmas Msg_lemmas.
Open Scope Z_scope.

Lemma int_enc_u2_inv n l : int_enc false 2 (Z.of_nat n) = Ok l -> l = enc_le 2 (N.of_nat n) /\ (N.of_nat n < 65536)%N.
Proof.
  unfold int_enc. destruct ((0 <=? Z.of_nat n) && (Z.of_nat n <? 2 ^ (8 * Z.of_nat 2))) eqn:E; [|discriminate].
  intros H; injection H as <-. split.
  - rewrite <- (nat_N_Z n), N2Z.id. reflexivity.
  - change (2 ^ (8 * Z.of_nat 2)) with 65536 in E. lia.
Qed.

Lemma serialize_eq m c i p :
  m_cls m = [c] -> m_id m = [i] -> payload_bytes m = p ->
  int_enc false 2 (Z.of_nat (length p)) = Ok (m_length m) ->
  m_cksum m = fletcher ([c] ++ [i] ++ m_length m ++ p)%list ->
  serialize m = mk_frame c i p /\ (N.of_nat (length p) < 65536)%N /\ msg_length m = Z.of_nat (length p).
Proof.
  intros Hc Hi Hp Hl Hk. apply int_enc_u2_inv in Hl as [Hl Hn].
  assert (Es: serialize m = (ubx_hdr ++ m_cls m ++ m_id m ++ m_length m ++ payload_bytes m ++ m_cksum m)%list) by reflexivity.
  split; [|split; [exact Hn|]].
  - rewrite Es, Hc, Hi, Hp, Hk, Hl. unfold mk_frame. rewrite <- fletcher_is_spec. reflexivity.
  - unfold msg_length. rewrite Hl.
    rewrite uint_of_le_enc by (change (256 ^ N.of_nat 2)%N with 65536%N; exact Hn). lia.
Qed.

Theorem c01_roundtrip msgmode v bf f m :
  WellFormed f -> parse msgmode v bf f = Ok m ->
  serialize m = f /\
  exists c i p, f = mk_frame c i p /\ m_cls m = [c] /\ m_id m = [i] /\
    msg_length m = Z.of_nat (length p) /\
    m_payload m = match p with [] => None | _ => Some p end.
Proof.
  intros (c & i & p & Hc & Hi & Hp & Hn & ->) H.
  unfold parse in H. destruct (negb (msgmode <? 4)%N); [discriminate|].
  rewrite parse_front_complete in H by assumption. cbn [bind f_cls f_id f_payload] in H.
  set (mode := if (msgmode =? 3)%N then _ else _) in H.
  assert (G: exists k, construct [c] [i] mode (match p with [] => true | _ => bf end) k = Ok m /\
                       k = match p with [] => KwNone | _ => KwPayload p end).
  { destruct p; eexists; split; eauto. }
  destruct G as (k & Hk & Ek). apply construct_fields in Hk.
  destruct Hk as (Hcls & Hid & _ & _ & _ & Hlen & Hck & Hpay).
  assert (Hpb: payload_bytes m = p /\ m_payload m = match p with [] => None | _ => Some p end).
  { unfold payload_bytes. subst k. destruct p; [destruct Hpay as [-> _]|rewrite Hpay]; auto. }
  destruct Hpb as [Hpb Hpo]. rewrite Hpb in *.
  destruct (serialize_eq m c i p Hcls Hid Hpb Hlen Hck) as (Hs & _ & Hl).
  split; [exact Hs|]. exists c, i, p. auto.
Qed.

Theorem c01_repr msgmode v bf f m m' :
  parse msgmode v bf f = Ok m -> repr_construct m = Ok m' -> serialize m' = serialize m.
Proof.
  intros H H'.
  assert (Hm: exists cls id mode bf0 k, construct cls id mode bf0 k = Ok m).
  { unfold parse in H. destruct (negb _); [discriminate|].
    destruct (parse_front v f) as [fr|]; [|discriminate]. cbn [bind] in H.
    destruct (f_payload fr); eauto 8. }
  destruct Hm as (cls & id & mode & bf0 & k & Hk). apply construct_fields in Hk.
  destruct Hk as (Hcls & Hid & _ & _ & _ & Hlen & Hck & _).
  unfold repr_construct in H'. apply construct_fields in H'.
  destruct H' as (Hcls' & Hid' & _ & _ & _ & Hlen' & Hck' & Hpay').
  assert (Hpb: payload_bytes m' = payload_bytes m).
  { unfold payload_bytes in *. destruct (m_payload m); [rewrite Hpay'|destruct Hpay' as [-> _]]; reflexivity. }
  rewrite Hpb in *. rewrite Hlen in Hlen'. injection Hlen' as Hl.
  assert (Es: forall x, serialize x = (ubx_hdr ++ m_cls x ++ m_id x ++ m_length x ++ payload_bytes x ++ m_cksum x)%list) by reflexivity.
  rewrite !Es. rewrite Hpb, Hcls', Hid', <- Hl, Hck', Hck, Hcls, Hid, <- Hl. reflexivity.
Qed.

(* with bitfields parsed (the default), evaluating repr() re-runs exactly the same constructor call *)
Theorem c01_repr_total_bf msgmode v f m :
  parse msgmode v true f = Ok m -> repr_construct m = Ok m.
Proof.
  intros H. unfold parse in H. destruct (negb _); [discriminate|].
  destruct (parse_front v f) as [fr|]; [|discriminate]. cbn [bind] in H.
  set (mode := if (msgmode =? 3)%N then _ else _) in H. unfold repr_construct.
  destruct (f_payload fr) as [p|] eqn:Ep.
  - pose proof H as H0. apply construct_fields in H0. destruct H0 as (-> & -> & -> & _ & _ & _ & _ & ->). exact H.
  - pose proof H as H0. apply construct_fields in H0. destruct H0 as (-> & -> & -> & _ & _ & _ & _ & -> & _). exact H.
Qed.

(* Shape_lemmas.v — which fields the walk touches, and in which order: the trace is the definition
   unfolded, every group member carrying the index path of its repeats (_01, _02, ...; nested _01_01 ...).
   Holds on both routes (payload given, keywords given), every budget. *)
From PyUbx Require Import Base Bytes PyFloat Types Strs Walk Tac Bytes_lemmas Walk_lemmas.
Open Scope Z_scope.
Open Scope list_scope.

Definition is_fcfg (r : frec) : Prop := match fr_kind r with FCfg _ _ => True | _ => False end.

Section Sh.
Variable bf : bool.
Variable cfgmsg : bool.                       (* is_cfgval cls id mode *)

(* for a fixed-count group the number of repeats is the constant of the definition *)
Definition count_ok (r : rep) (c : nat) : Prop :=
  match r with RFixed k => Z.of_nat c = Z.max 0 k | _ => True end.

Inductive shape : list nat -> adef -> list frec -> Prop :=
| sh_single idx n t r :
    fr_base r = n -> fr_idx r = idx -> fr_kind r = FField t None -> shape idx (ASingle n t) [r]
| sh_scaled idx n t sc r :
    fr_base r = n -> fr_idx r = idx -> fr_kind r = FField t (Some sc) -> shape idx (AScaled n t sc) [r]
| sh_bits idx n t fl r :
    bf = true -> fr_idx r = idx -> fr_kind r = FBits t fl -> shape idx (ABits n t fl) [r]
| sh_rawbits idx n t fl r :
    bf = false -> fr_base r = n -> fr_idx r = idx -> fr_kind r = FField t None -> shape idx (ABits n t fl) [r]
| sh_cfg idx n r body l :
    cfgmsg = true -> Forall is_fcfg l -> shape idx (AGroup n r body) l
| sh_group idx n r body ls :
    cfgmsg = false -> shape_reps idx body 1 ls -> count_ok r (length ls) ->
    shape idx (AGroup n r body) (concat ls)
with shape_l : list nat -> list adef -> list frec -> Prop :=
| shl_nil idx : shape_l idx [] []
| shl_cons idx d ds l1 l2 : shape idx d l1 -> shape_l idx ds l2 -> shape_l idx (d :: ds) (l1 ++ l2)
with shape_reps : list nat -> list adef -> Z -> list (list frec) -> Prop :=
| shr_nil idx body i : shape_reps idx body i []
| shr_cons idx body i l ls :
    shape_l (idx ++ [Z.to_nat i]) body l -> shape_reps idx body (i + 1) ls -> shape_reps idx body i (l :: ls).
End Sh.

Section S.
Variable atttype : list (N * list kind).
Variable readonly_names : list string.
Variable cfgdb : list (string * (Z * aty)).
Variable storsize : list (Z * Z).
Variable scalround : Z.
Variable cls id : bytes.
Variable mode : N.
Variable bf : bool.
Variable kw : option attrs.
Variable budget : nat.

Notation walk := (walk atttype readonly_names cfgdb storsize scalround cls id mode bf kw budget).
Notation walk_list := (walk_list atttype readonly_names cfgdb storsize scalround cls id mode bf kw budget).
Notation rep_loop := (rep_loop atttype readonly_names cfgdb storsize scalround cls id mode bf kw budget).
Notation single := (single atttype readonly_names scalround kw).
Notation bitfield := (bitfield readonly_names kw).
Notation bits_loop := (bits_loop readonly_names kw).
Notation cfgval_loop := (cfgval_loop readonly_names cfgdb storsize).
Notation set_attr := (set_attr readonly_names).
Notation shape := (shape bf (is_cfgval cls id mode)).
Notation shape_l := (shape_l bf (is_cfgval cls id mode)).
Notation shape_reps := (shape_reps bf (is_cfgval cls id mode)).

Ltac bindok H := match type of H with
  | bind ?r _ = Ok _ => let x := fresh "x" in let E := fresh "E" in destruct r as [x|] eqn:E; [cbn [bind] in H|discriminate]
  end.

Lemma set_attr_trace n v s s' : set_attr n v s = Ok s' -> w_trace s' = w_trace s.
Proof. unfold Walk.set_attr. destruct (mem_s n readonly_names); [discriminate|]. intros H; injection H as <-. auto. Qed.

(* one record, with the base name, index path and kind the definition gives *)
Lemma single_rec n t sc idx s s' : single n t sc idx s = Ok s' ->
  exists r, w_trace s' = r :: w_trace s /\ fr_base r = n /\ fr_idx r = idx /\ fr_kind r = FField t sc.
Proof.
  unfold Walk.single. intros H. cbv zeta in H. bindok H. bindok H. destruct x0 as [v pay]. bindok H.
  injection H as <-. cbn [w_trace].
  assert (Ht: w_trace x0 = w_trace s).
  { destruct (starts_with "_HP" _).
    - bindok E1. bindok E1. bindok E1. apply set_attr_trace in E1. exact E1.
    - apply set_attr_trace in E1. exact E1. }
  rewrite Ht. eexists. split; [reflexivity|]. cbn. auto.
Qed.

Lemma bits_loop_trace fl : forall idx bfv off s r, bits_loop fl idx bfv off s = Ok r -> w_trace (snd r) = w_trace s.
Proof.
  induction fl as [|[key keyt] fl IH]; intros idx bfv off s r H; cbn [Walk.bits_loop] in H.
  - injection H as <-. auto.
  - bindok H. bindok H. destruct x0 as [v b']. bindok H. apply IH in H as ->.
    destruct (starts_with "reserved" key); [injection E1 as <-; auto|]. eapply set_attr_trace; eauto.
Qed.

Lemma bitfield_rec t fl idx s s' : bitfield t fl idx s = Ok s' ->
  exists r, w_trace s' = r :: w_trace s /\ fr_idx r = idx /\ fr_kind r = FBits t fl.
Proof.
  unfold Walk.bitfield. intros H. cbv zeta in H. bindok H. bindok H. destruct x0 as [bfv s1]. bindok H.
  injection H as <-. cbn [w_trace]. apply bits_loop_trace in E0. cbn [snd] in E0. rewrite E0.
  eexists. split; [reflexivity|]. cbn. auto.
Qed.

Lemma cfgval_loop_recs fuel : forall off len s s', cfgval_loop fuel off len s = Ok s' ->
  exists l, w_trace s' = l ++ w_trace s /\ Forall is_fcfg l.
Proof.
  induction fuel as [|f IH]; intros off len s s' H; cbn [Walk.cfgval_loop] in H; [discriminate|].
  destruct (Nat.ltb off len).
  - bindok H. destruct x as [name t]. bindok H. bindok H. bindok H.
    apply IH in H as (l & Ht & Hf). cbn [w_trace] in Ht. apply set_attr_trace in E2.
    exists (l ++ [{| fr_base := name; fr_idx := []; fr_off := off; fr_size := (4 + x)%nat;
                    fr_kind := FCfg (Z.of_N (uint_of_le (slice (w_pay s) off 4))) t; fr_val := x0 |}]).
    split; [rewrite Ht, E2, <- app_assoc; reflexivity|].
    apply Forall_app. split; [exact Hf|]. constructor; [exact I|constructor].
  - injection H as <-. exists []. split; [reflexivity|constructor].
Qed.

Definition P (idx : list nat) (d : adef) : Prop :=
  forall s s', walk idx d s = Ok s' -> exists l, w_trace s' = l ++ w_trace s /\ shape idx d (rev l).

Lemma walk_list_shape ds : (forall idx, Forall (P idx) ds) ->
  forall idx s s', walk_list ds idx s = Ok s' -> exists l, w_trace s' = l ++ w_trace s /\ shape_l idx ds (rev l).
Proof.
  intros HP idx. specialize (HP idx). induction HP as [|d ds Hd _ IH]; intros s s' H; cbn [Walk.walk_list] in H.
  - injection H as <-. exists []. split; [reflexivity|constructor].
  - destruct (walk idx d s) as [s1|] eqn:E; [|discriminate].
    apply Hd in E as (l1 & Ht1 & Hs1). apply IH in H as (l2 & Ht2 & Hs2).
    exists (l2 ++ l1). split; [rewrite Ht2, Ht1, app_assoc; reflexivity|].
    rewrite rev_app_distr. constructor; assumption.
Qed.

Lemma rep_loop_shape c body idx : (forall idx', Forall (P idx') body) ->
  forall fuel i s s', rep_loop c body idx fuel i s = Ok s' ->
  exists ls, w_trace s' = rev (concat ls) ++ w_trace s /\ shape_reps idx body i ls /\
             Z.of_nat (length ls) = Z.max 0 (c - i + 1).
Proof.
  intros HP. induction fuel as [|f IH]; intros i s s' H; cbn [Walk_lemmas.rep_loop] in H; [discriminate|].
  destruct (c <? i) eqn:Eci.
  - injection H as <-. exists []. cbn. split; [reflexivity|]. split; [constructor|lia].
  - destruct (walk_list body (idx ++ [Z.to_nat i]) s) as [s1|] eqn:E; [|discriminate].
    apply (walk_list_shape body HP) in E as (l & Ht & Hs).
    apply IH in H as (ls & Ht' & Hr & Hn).
    exists (rev l :: ls). cbn [concat length]. split; [|split].
    + rewrite Ht', Ht, rev_app_distr, rev_involutive, <- app_assoc. reflexivity.
    + constructor; assumption.
    + lia.
Qed.

Theorem walk_shape d : forall idx, P idx d.
Proof.
  induction d as [n t|n t sc|n t fl|n r body IHb] using adef_ind'; intros idx s s' H.
  - cbn [Walk.walk] in H. apply single_rec in H as (r & Ht & Hb & Hi & Hk).
    exists [r]. split; [exact Ht|]. cbn. constructor; auto.
  - cbn [Walk.walk] in H. apply single_rec in H as (r & Ht & Hb & Hi & Hk).
    exists [r]. split; [exact Ht|]. cbn. constructor; auto.
  - cbn [Walk.walk] in H. destruct bf eqn:Ebf.
    + apply bitfield_rec in H as (r & Ht & Hi & Hk). exists [r]. split; [exact Ht|]. cbn. apply sh_bits; auto.
    + apply single_rec in H as (r & Ht & Hb & Hi & Hk). exists [r]. split; [exact Ht|]. cbn. apply sh_rawbits; auto.
  - rewrite walk_group in H. destruct (is_cfgval cls id mode) eqn:Ecfg.
    + destruct kw; [discriminate|]. bindok H. injection H as <-. cbn [w_trace].
      apply cfgval_loop_recs in E as (l & Ht & Hf). exists l. split; [exact Ht|].
      apply sh_cfg; [reflexivity|]. apply Forall_rev. exact Hf.
    + destruct (count cls id mode r body s) as [c|] eqn:Ec; [|discriminate].
      destruct (Z.of_nat budget <? c); [discriminate|].
      assert (HP: forall idx', Forall (P idx') body).
      { intros idx'. apply Forall_forall. intros d Hin. rewrite Forall_forall in IHb. apply IHb. exact Hin. }
      apply (rep_loop_shape c body idx HP) in H as (ls & Ht & Hr & Hn).
      exists (rev (concat ls)). split; [exact Ht|]. rewrite rev_involutive.
      rewrite Ecfg in Hr. apply sh_group; [reflexivity|exact Hr|].
      destruct r as [k| | ]; cbn [count_ok]; auto. cbn in Ec. injection Ec as <-. lia.
Qed.

Corollary walk_list_shape_all ds idx s s' : walk_list ds idx s = Ok s' ->
  exists l, w_trace s' = l ++ w_trace s /\ shape_l idx ds (rev l).
Proof.
  apply walk_list_shape. intros idx'. apply Forall_forall. intros d _. apply walk_shape.
Qed.
End S.

(* ---- consequences of the shape: record widths and kinds are those of the definition ---- *)
Definition sized (r : frec) : Prop :=
  match fr_kind r with
  | FField TCH _ => True
  | FField t _ | FBits t _ => attsiz_nat t = Ok (fr_size r)
  | FCfg _ t => exists n, attsiz_nat t = Ok n /\ fr_size r = (4 + n)%nat
  end.

Section Sized.
Variable atttype : list (N * list kind).
Variable readonly_names : list string.
Variable cfgdb : list (string * (Z * aty)).
Variable storsize : list (Z * Z).
Variable scalround : Z.
Variable cls id : bytes.
Variable mode : N.
Variable bf : bool.
Variable kw : option attrs.
Variable budget : nat.
Notation walk_list := (walk_list atttype readonly_names cfgdb storsize scalround cls id mode bf kw budget).
Notation single := (single atttype readonly_names scalround kw).
Notation bitfield := (bitfield readonly_names kw).
Notation cfgval_loop := (cfgval_loop readonly_names cfgdb storsize).

Ltac bindok H := match type of H with
  | bind ?r _ = Ok _ => let x := fresh "x" in let E := fresh "E" in destruct r as [x|] eqn:E; [cbn [bind] in H|discriminate]
  end.

Definition RS (s s' : wst) : Prop := exists l, w_trace s' = l ++ w_trace s /\ Forall sized l.

Lemma cfgval_loop_sized fuel : forall off len s s', cfgval_loop fuel off len s = Ok s' -> RS s s'.
Proof.
  induction fuel as [|f IH]; intros off len s s' H; cbn [Walk.cfgval_loop] in H; [discriminate|].
  destruct (Nat.ltb off len).
  - bindok H. destruct x as [name t]. bindok H. bindok H. bindok H.
    apply IH in H as (l & Ht & Hf). cbn [w_trace] in Ht.
    unfold Walk.set_attr in E2. destruct (mem_s name readonly_names); [discriminate|]. injection E2 as <-. cbn [w_trace] in Ht.
    eexists (l ++ [_]). split; [rewrite Ht, <- app_assoc; reflexivity|].
    apply Forall_app. split; [exact Hf|]. constructor; [|constructor]. unfold sized. cbn. eauto.
  - injection H as <-. exists []. split; [reflexivity|constructor].
Qed.

Theorem walk_list_sized ds idx s s' : walk_list ds idx s = Ok s' -> RS s s'.
Proof.
  apply (walk_list_inv_all atttype readonly_names cfgdb storsize scalround cls id mode bf kw budget RS).
  - intros s0. exists []. split; [reflexivity|constructor].
  - intros a b c (l1 & H1 & F1) (l2 & H2 & F2). exists (l2 ++ l1). split; [now rewrite H2, H1, app_assoc|].
    apply Forall_app; auto.
  - intros n t sc idx0 s0 s1 H. pose proof H as H'. apply single_rec in H' as (r & Ht & _ & _ & Hk).
    exists [r]. split; [exact Ht|]. constructor; [|constructor].
    unfold Walk.single in H. cbv zeta in H. bindok H. bindok H. destruct x0 as [v pay]. bindok H.
    injection H as <-. cbn [w_trace] in Ht. injection Ht as <- _. unfold sized. cbn [fr_kind fr_size].
    destruct t; [exact I|exact E].
  - intros t fl idx0 s0 s1 H. pose proof H as H'. apply bitfield_rec in H' as (r & Ht & _ & Hk).
    exists [r]. split; [exact Ht|]. constructor; [|constructor].
    unfold Walk.bitfield in H. cbv zeta in H. bindok H. bindok H. destruct x0 as [bfv s2]. bindok H.
    injection H as <-. cbn [w_trace] in Ht. injection Ht as <- _. unfold sized. cbn [fr_kind fr_size]. exact E.
  - intros s0 s1 _ _ H. apply cfgval_loop_sized in H. exact H.
Qed.
End Sized.

(* every record's kind is a leaf of the definition *)
Inductive leaves (Q : fkind -> Prop) : adef -> Prop :=
| lv_single n t : Q (FField t None) -> leaves Q (ASingle n t)
| lv_scaled n t sc : Q (FField t (Some sc)) -> leaves Q (AScaled n t sc)
| lv_bits n t fl : Q (FBits t fl) -> Q (FField t None) -> leaves Q (ABits n t fl)
| lv_group n r body : Forall (leaves Q) body -> leaves Q (AGroup n r body).

Scheme shape_ind' := Induction for shape Sort Prop
  with shape_l_ind' := Induction for shape_l Sort Prop
  with shape_reps_ind' := Induction for shape_reps Sort Prop.

Section Leaves.
Variable bf : bool.
Variable Q : fkind -> Prop.

Lemma shape_leaves idx d l : shape bf false idx d l -> leaves Q d -> Forall (fun r => Q (fr_kind r)) l.
Proof.
  intros H. revert idx d l H.
  apply (shape_ind' bf false
    (fun idx d l _ => leaves Q d -> Forall (fun r => Q (fr_kind r)) l)
    (fun idx ds l _ => Forall (leaves Q) ds -> Forall (fun r => Q (fr_kind r)) l)
    (fun idx body i ls _ => Forall (leaves Q) body -> Forall (fun r => Q (fr_kind r)) (concat ls))).
  - intros idx n t r _ _ Hk Hl. inversion Hl; subst. constructor; [now rewrite Hk|constructor].
  - intros idx n t sc r _ _ Hk Hl. inversion Hl; subst. constructor; [now rewrite Hk|constructor].
  - intros idx n t fl r _ _ Hk Hl. inversion Hl; subst. constructor; [now rewrite Hk|constructor].
  - intros idx n t fl r _ _ _ Hk Hl. inversion Hl; subst. constructor; [now rewrite Hk|constructor].
  - intros idx n r body l Hc. discriminate.
  - intros idx n r body ls _ _ IH _ Hl. inversion Hl; subst. auto.
  - intros. constructor.
  - intros idx d ds l1 l2 _ IH1 _ IH2 Hl. apply Forall_cons_iff in Hl as [Hd Hds]. apply Forall_app. auto.
  - intros. constructor.
  - intros idx body i l ls _ IH1 _ IH2 Hl. cbn [concat]. apply Forall_app. auto.
Qed.

Lemma shape_l_leaves idx ds l : shape_l bf false idx ds l -> Forall (leaves Q) ds -> Forall (fun r => Q (fr_kind r)) l.
Proof.
  induction 1 as [|idx d ds l1 l2 H1 H2 IH]; intros Hl; [constructor|].
  apply Forall_cons_iff in Hl as [Hd Hds]. apply Forall_app. split; [eapply shape_leaves; eauto|auto].
Qed.
End Leaves.

From PyUbx Require Import Base Bytes Frame Types Walk Tables Msg Msg_lemmas.

Lemma c13_setattr cls id mode bf k m name v :
  construct cls id mode bf k = Ok m -> setattr_ m name v = Raise EUBXMessage.
Proof. intros H. apply construct_fields in H. destruct H as (_&_&_&_&Hi&_). unfold setattr_. now rewrite Hi. Qed.

Lemma c13_delattr cls id mode bf k m name :
  construct cls id mode bf k = Ok m -> delattr_ m name = Raise EUBXMessage.
Proof. intros H. apply construct_fields in H. destruct H as (_&_&_&_&Hi&_). unfold delattr_. now rewrite Hi. Qed.

Lemma parse_is_construct msgmode v bf f m :
  parse msgmode v bf f = Ok m -> exists cls id mode bf0 k, construct cls id mode bf0 k = Ok m.
Proof.
  unfold parse. destruct (negb _); [discriminate|].
  destruct (parse_front v f) as [fr|]; [|discriminate]. cbn [bind].
  destruct (f_payload fr); eauto 8.
Qed.

Lemma c13_parsed_immutable msgmode v bf f m name x :
  parse msgmode v bf f = Ok m ->
  setattr_ m name x = Raise EUBXMessage /\ delattr_ m name = Raise EUBXMessage.
Proof.
  intros H. destruct (parse_is_construct _ _ _ _ _ H) as (c & i & md & b & k & Hk).
  split; [eapply c13_setattr|eapply c13_delattr]; eauto.
Qed.

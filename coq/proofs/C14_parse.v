(* C14_parse.v — C14 at message level, parse side: a CFG-VALGET response carrying ANY list of items (known or
   unknown key ids, any values, any number of items that fits a frame) parses to version / layer / position and
   then one attribute per item, in order, named by the key and equal to its value. *)
From PyUbx Require Import Base Bytes Fletcher Frame PyFloat Types Strs Walk Consts Tables Msg WfDef.
From PyUbx Require Import Tac Bytes_lemmas Walk_lemmas Codec_lemmas Msg_lemmas Field_lemmas Cfgval_lemmas.
From PyUbx Require C14_lemmas Len_lemmas.
Open Scope Z_scope.
Open Scope list_scope.

Notation item_ok := (item_ok readonly_names cfgdb storsize).

Lemma valget_dict p : get_dict [6%N] [139%N] 0%N (KwPayload p) p =
  Ok [ASingle "version" (T lU (Some 1%nat)); ASingle "layer" (T lU (Some 1%nat)); ASingle "position" (T lU (Some 2%nat));
      AGroup "group" RVar [ASingle "cfgData" (T lU (Some 1%nat))]].
Proof. reflexivity. Qed.

Lemma walk_single a b c d e f g h i j k idx n t s :
  Walk.walk a b c d e f g h i j k idx (ASingle n t) s = Walk.single a b e j n t None idx s.
Proof. reflexivity. Qed.

Theorem valget_parse ver lay p0 p1 items bf :
  (ver < 256)%N -> (lay < 256)%N -> (p0 < 256)%N -> (p1 < 256)%N ->
  Forall item_ok items ->
  let p := ver :: lay :: p0 :: p1 :: concat (map item_bytes items) in
  Z.of_nat (length p) < 65536 ->
  exists m, construct [6%N] [139%N] 0%N bf (KwPayload p) = Ok m /\
            m_payload m = Some p /\
            m_attrs m = fold_left set_item items
                          [("version", PInt (Z.of_N ver)); ("layer", PInt (Z.of_N lay));
                           ("position", PInt (Z.of_N (p0 + 256 * p1)))]%string.
Proof.
  intros Hv Hl H0 H1 Hok p Hlen.
  unfold construct. cbn [mode_ok N.eqb negb orb]. cbv zeta.
  unfold do_walk. rewrite valget_dict. cbn [bind].
  cbn [Walk.walk_list].
  rewrite walk_single, single_parse_int by reflexivity. cbn [w_off w_pay w_attrs w_trace].
  rewrite walk_single, single_parse_int by reflexivity. cbn [w_off w_pay w_attrs w_trace].
  rewrite walk_single, single_parse_int by reflexivity. cbn [w_off w_pay w_attrs w_trace].
  match goal with |- context [Walk.walk ?a ?b ?c ?d ?e ?f ?g ?h ?i ?j ?k ?idx (AGroup ?n ?r ?body) ?s] =>
    rewrite (walk_group a b c d e f g h i j k n r body idx s); set (s3 := s) end.
  replace (is_cfgval [6%N] [139%N] 0%N) with true by reflexivity.
  destruct (cfgval_items readonly_names cfgdb storsize items (S (length (w_pay s3))) [ver; lay; p0; p1] s3 4%nat Hok)
    as (s' & E & A1 & A2 & A3); [reflexivity|lia| |].
  { cbn [w_pay s3]. unfold p. cbn [length].
    assert (forall l, Forall item_ok l -> (length l <= length (concat (map item_bytes l)))%nat) as G.
    { induction 1 as [|it l Hit _ IH]; [cbn; lia|]. cbn [map concat length]. rewrite app_length.
      pose proof (item_len _ _ _ it Hit). lia. }
    specialize (G items Hok). lia. }
  cbn [length] in E. replace (w_off s3) with 4%nat by reflexivity. rewrite E. cbn [bind Walk.walk_list].
  cbn [w_pay w_attrs]. rewrite A2. cbn [w_pay s3].
  unfold len_cksum, U2. rewrite v2b_U.
  destruct (int_enc false 2 (Z.of_nat (length p))) as [lb|] eqn:El.
  2:{ unfold int_enc in El. replace ((0 <=? Z.of_nat (length p)) && (Z.of_nat (length p) <? 2 ^ (8 * Z.of_nat 2))) with true in El by lia. discriminate. }
  cbn [bind translate_exn]. eexists. split; [reflexivity|]. cbn [m_payload m_attrs]. split; [reflexivity|].
  rewrite A1. cbn [w_attrs s3]. f_equal.
  unfold p, slice, int_dec. cbn -[concat map item_bytes N.mul N.add Z.of_N]. repeat f_equal; lia.
Qed.

(* ---- CFG-VALSET (SET), flags view ---- *)
Lemma valset_dict p : get_dict [6%N] [138%N] 1%N (KwPayload p) p =
  Ok [ASingle "version" (T lU (Some 1%nat));
      ABits "layers" (T lX (Some 1%nat)) [("ram", T lU (Some 1%nat)); ("bbr", T lU (Some 1%nat)); ("flash", T lU (Some 1%nat))];
      ABits "transaction" (T lX (Some 1%nat)) [("action", T lU (Some 2%nat))];
      ASingle "reserved0" (T lU (Some 1%nat));
      AGroup "group" RVar [ASingle "cfgData" (T lU (Some 1%nat))]].
Proof. reflexivity. Qed.

Lemma walk_bits_t a b c d e f g h j k idx n t fl s :
  Walk.walk a b c d e f g h true j k idx (ABits n t fl) s = Walk.bitfield b j t fl idx s.
Proof. reflexivity. Qed.

Definition bfval (s : wst) (w : nat) : Z := Z.of_N (uint_of_le (slice (w_pay s) (w_off s) w)).

Lemma bf_layers s :
  Walk.bitfield readonly_names None (T lX (Some 1%nat))
    [("ram", T lU (Some 1%nat)); ("bbr", T lU (Some 1%nat)); ("flash", T lU (Some 1%nat))]%string [] s =
  Ok {| w_off := (w_off s + 1)%nat; w_pay := w_pay s;
        w_attrs := upsert "flash" (PInt (Bits_lemmas.ext (bfval s 1) 2 1))
                     (upsert "bbr" (PInt (Bits_lemmas.ext (bfval s 1) 1 1))
                        (upsert "ram" (PInt (Bits_lemmas.ext (bfval s 1) 0 1)) (w_attrs s)));
        w_trace := {| fr_base := ""; fr_idx := []; fr_off := w_off s; fr_size := 1;
                      fr_kind := FBits (T lX (Some 1%nat))
                                   [("ram", T lU (Some 1%nat)); ("bbr", T lU (Some 1%nat)); ("flash", T lU (Some 1%nat))]%string;
                      fr_val := PInt (bfval s 1) |} :: w_trace s |}.
Proof. reflexivity. Qed.

Lemma bf_transaction s :
  Walk.bitfield readonly_names None (T lX (Some 1%nat)) [("action", T lU (Some 2%nat))]%string [] s =
  Ok {| w_off := (w_off s + 1)%nat; w_pay := w_pay s;
        w_attrs := upsert "action" (PInt (Bits_lemmas.ext (bfval s 1) 0 2)) (w_attrs s);
        w_trace := {| fr_base := ""; fr_idx := []; fr_off := w_off s; fr_size := 1;
                      fr_kind := FBits (T lX (Some 1%nat)) [("action", T lU (Some 2%nat))]%string;
                      fr_val := PInt (bfval s 1) |} :: w_trace s |}.
Proof. reflexivity. Qed.

Theorem valset_parse ver lay tr r0 items :
  (ver < 256)%N -> (lay < 256)%N -> (tr < 256)%N -> (r0 < 256)%N ->
  Forall item_ok items ->
  let p := ver :: lay :: tr :: r0 :: concat (map item_bytes items) in
  Z.of_nat (length p) < 65536 ->
  exists m, construct [6%N] [138%N] 1%N true (KwPayload p) = Ok m /\
            m_payload m = Some p /\
            m_attrs m = fold_left set_item items
                          [("version", PInt (Z.of_N ver));
                           ("ram", PInt (Bits_lemmas.ext (Z.of_N lay) 0 1)); ("bbr", PInt (Bits_lemmas.ext (Z.of_N lay) 1 1));
                           ("flash", PInt (Bits_lemmas.ext (Z.of_N lay) 2 1));
                           ("action", PInt (Bits_lemmas.ext (Z.of_N tr) 0 2));
                           ("reserved0", PInt (Z.of_N r0))]%string.
Proof.
  intros Hv Hl H0 H1 Hok p Hlen.
  unfold construct. cbn [mode_ok N.eqb negb orb]. cbv zeta.
  unfold do_walk. rewrite valset_dict. cbn [bind].
  cbn [Walk.walk_list].
  rewrite walk_single, single_parse_int by reflexivity. cbn [w_off w_pay w_attrs w_trace].
  rewrite walk_bits_t, bf_layers. cbn [w_off w_pay w_attrs w_trace].
  rewrite walk_bits_t, bf_transaction. cbn [w_off w_pay w_attrs w_trace].
  rewrite walk_single, single_parse_int by reflexivity. cbn [w_off w_pay w_attrs w_trace].
  match goal with |- context [Walk.walk ?a ?b ?c ?d ?e ?f ?g ?h ?i ?j ?k ?idx (AGroup ?n ?r ?body) ?s] =>
    rewrite (walk_group a b c d e f g h i j k n r body idx s); set (s3 := s) end.
  replace (is_cfgval [6%N] [138%N] 1%N) with true by reflexivity.
  destruct (cfgval_items readonly_names cfgdb storsize items (S (length (w_pay s3))) [ver; lay; tr; r0] s3 4%nat Hok)
    as (s' & E & A1 & A2 & A3); [reflexivity|lia| |].
  { cbn [w_pay s3]. unfold p. cbn [length].
    assert (forall l, Forall item_ok l -> (length l <= length (concat (map item_bytes l)))%nat) as G.
    { induction 1 as [|it l Hit _ IH]; [cbn; lia|]. cbn [map concat length]. rewrite app_length.
      pose proof (item_len _ _ _ it Hit). lia. }
    specialize (G items Hok). lia. }
  cbn [length] in E. replace (w_off s3) with 4%nat by reflexivity. rewrite E. cbn [bind Walk.walk_list].
  cbn [w_pay w_attrs]. rewrite A2. cbn [w_pay s3].
  unfold len_cksum, U2. rewrite v2b_U.
  destruct (int_enc false 2 (Z.of_nat (length p))) as [lb|] eqn:El.
  2:{ unfold int_enc in El. replace ((0 <=? Z.of_nat (length p)) && (Z.of_nat (length p) <? 2 ^ (8 * Z.of_nat 2))) with true in El by lia. discriminate. }
  cbn [bind translate_exn]. eexists. split; [reflexivity|]. cbn [m_payload m_attrs]. split; [reflexivity|].
  rewrite A1. cbn [w_attrs s3]. f_equal.
  unfold bfval. cbn [w_off w_pay].
  unfold p, slice, int_dec. cbn -[concat map item_bytes N.mul N.add Z.of_N Bits_lemmas.ext].
  replace (ver + 256 * 0)%N with ver by lia. replace (lay + 256 * 0)%N with lay by lia.
  replace (tr + 256 * 0)%N with tr by lia. replace (r0 + 256 * 0)%N with r0 by lia. reflexivity.
Qed.

(* ---- config_set then parse: the message carries exactly the keys and values given ---- *)
(* what one (key, value) argument of config_set becomes in the payload, as a function of the tables *)
Definition to_citem (kv : cfgkey * pyval) : result citem :=
  let '(k, v) := kv in
  do ka <- match k with KName s => cfgname2key s | KId z => do r <- cfgkey2name_ z; Ok (z, snd r) end;
  do na <- cfgkey2name_ (fst ka);
  do valb <- Msg.v2b v (snd ka);
  do val <- bytes2val valb (snd ka);
  Ok {| ci_key := Z.to_N (fst ka); ci_name := fst na; ci_type := snd ka; ci_valb := valb; ci_val := val |}.

Lemma cfg_items_bytes items : forall cits lis,
  cfg_items items = Ok lis -> Forall2 (fun kv it => to_citem kv = Ok it) items cits ->
  lis = concat (map item_bytes cits).
Proof.
  induction items as [|[k v] items IH]; intros cits lis H HF; inversion HF as [|kv it items' cits' Hit HF']; subst.
  - cbn in H. now injection H as <-.
  - cbn [cfg_items] in H. unfold to_citem in Hit.
    match type of H with bind ?r _ = _ => destruct r as [ka|] eqn:Eka; [cbn [bind] in H, Hit|discriminate] end.
    destruct (cfgkey2name_ (fst ka)) as [na|] eqn:Ena; [cbn [bind] in Hit|discriminate].
    unfold U4 in H. rewrite v2b_U in H.
    destruct (int_enc false 4 (fst ka)) as [keyb|] eqn:Ek; [cbn [bind] in H|discriminate].
    destruct (Msg.v2b v (snd ka)) as [valb|] eqn:Ev; [cbn [bind] in H, Hit|discriminate].
    destruct (cfg_items items) as [rest|] eqn:Er; [cbn [bind] in H|discriminate]. injection H as <-.
    destruct (bytes2val valb (snd ka)) as [val|]; [cbn [bind] in Hit|discriminate]. injection Hit as <-.
    cbn [map concat]. unfold item_bytes at 1. cbn [ci_key ci_valb].
    rewrite (IH cits' rest eq_refl HF'), <- app_assoc. f_equal.
    unfold int_enc in Ek. destruct (_ && _); [|discriminate]. apply Len_lemmas.ok_inj in Ek. now rewrite <- Ek.
Qed.

Lemma construct_payload_len cls id mode bf p m :
  construct cls id mode bf (KwPayload p) = Ok m -> Z.of_nat (length p) < 65536.
Proof.
  unfold construct. destruct (negb (mode_ok mode)); [discriminate|]. cbv zeta. intros H. apply translate_ok in H.
  destruct (do_walk cls id mode bf (KwPayload p) p None) as [s|] eqn:E; [cbn [bind] in H|discriminate].
  unfold do_walk in E. destruct (get_dict _ _ _ _ _) as [ds|]; [cbn [bind] in E|discriminate].
  apply walk_list_pay in E. cbn [w_pay] in E. rewrite E in H.
  unfold len_cksum, U2 in H. rewrite v2b_U in H. unfold int_enc in H.
  destruct ((0 <=? Z.of_nat (length p)) && (Z.of_nat (length p) <? 2 ^ (8 * Z.of_nat 2))) eqn:Eb; [|discriminate]. lia.
Qed.

Lemma named_eq c i mode p : named c i mode p = (do ci <- msgstr2bytes c i; construct (fst ci) (snd ci) mode true (KwPayload p)).
Proof. reflexivity. Qed.

Lemma config_set_inv layers transaction items m :
  config_set layers transaction items = Ok m ->
  exists lis, cfg_items items = Ok lis /\ 0 <= layers < 256 /\ 0 <= transaction < 256 /\
    construct [6%N] [138%N] 1%N true
      (KwPayload (Z.to_N (if (transaction =? 0)%Z then 0%Z else 1%Z) :: Z.to_N layers :: Z.to_N transaction :: 0%N :: lis)) = Ok m.
Proof.
  unfold config_set. intros H. destruct (cfg_limit_set <? _); [discriminate|].
  unfold U1 in H. rewrite !v2b_U in H.
  assert (Hb: forall z b, int_enc false 1 z = Ok b -> 0 <= z < 256 /\ b = [Z.to_N z]).
  { intros z b. unfold int_enc. destruct (_ && _) eqn:E; [|discriminate]. intros Hx. apply Len_lemmas.ok_inj in Hx.
    split; [lia|]. rewrite <- Hx. cbn. f_equal. apply N.mod_small. lia. }
  assert (BO: forall A B (a : A) (k : A -> result B), bind (Ok a) k = k a) by reflexivity.
  remember (named "CFG" "CFG-VALSET" 1) as F eqn:HF in H.      (* keep the kernel from unfolding it below *)
  destruct (int_enc false 1 (if transaction =? 0 then 0 else 1)) as [ver|] eqn:E1; [rewrite BO in H|discriminate].
  destruct (int_enc false 1 layers) as [lay|] eqn:E2; [rewrite BO in H|discriminate].
  destruct (int_enc false 1 transaction) as [tr|] eqn:E3; [rewrite BO in H|discriminate].
  destruct (cfg_items items) as [lis|] eqn:E4; [rewrite BO in H|discriminate].
  apply Hb in E1 as [R1 ->]. apply Hb in E2 as [R2 ->]. apply Hb in E3 as [R3 ->].
  change ([Z.to_N (if transaction =? 0 then 0 else 1)] ++ [Z.to_N layers] ++ [Z.to_N transaction] ++ [0%N] ++ lis)
    with (Z.to_N (if transaction =? 0 then 0 else 1) :: Z.to_N layers :: Z.to_N transaction :: 0%N :: lis) in H.
  subst F. rewrite named_eq, C14_lemmas.valset_addr, BO in H. cbn [fst snd] in H.
  exists lis. split; [reflexivity|]. split; [exact R2|]. split; [exact R3|]. exact H.
Qed.

Theorem config_set_parse layers transaction items cits m :
  config_set layers transaction items = Ok m ->
  Forall2 (fun kv it => to_citem kv = Ok it) items cits -> Forall item_ok cits ->
  m_attrs m = fold_left set_item cits
                [("version", PInt (if (transaction =? 0)%Z then 0 else 1));
                 ("ram", PInt (Bits_lemmas.ext layers 0 1)); ("bbr", PInt (Bits_lemmas.ext layers 1 1));
                 ("flash", PInt (Bits_lemmas.ext layers 2 1));
                 ("action", PInt (Bits_lemmas.ext transaction 0 2));
                 ("reserved0", PInt 0)]%string.
Proof.
  intros H HF Hok. apply config_set_inv in H as (lis & E4 & R2 & R3 & H).
  pose proof (cfg_items_bytes items cits lis E4 HF) as Hlis. subst lis.
  pose proof (construct_payload_len _ _ _ _ _ _ H) as Hlen.
  assert (V1: (Z.to_N (if (transaction =? 0)%Z then 0%Z else 1%Z) < 256)%N) by (destruct (transaction =? 0)%Z; lia).
  assert (V2: (Z.to_N layers < 256)%N) by lia.
  assert (V3: (Z.to_N transaction < 256)%N) by lia.
  assert (V4: (0 < 256)%N) by lia.
  destruct (valset_parse _ _ _ _ cits V1 V2 V3 V4 Hok Hlen) as (m' & Hc & _ & Ha).
  cbv zeta in Hc. rewrite Hc in H. apply Len_lemmas.ok_inj in H. subst m'. rewrite Ha.
  rewrite (Z2N.id layers), (Z2N.id transaction) by lia.
  rewrite (Z2N.id (if (transaction =? 0)%Z then 0%Z else 1%Z)) by (destruct (transaction =? 0)%Z; lia). reflexivity.
Qed.

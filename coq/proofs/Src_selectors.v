(* Src_selectors.v — ubxvariants.py: every selector, as _get_dict calls it, against the model's selector. *)
From Coq Require Import ZArith List String Ascii Bool Lia ZifyBool Floats.SpecFloat.
From PyUbx Require Import Base Bytes Fletcher Frame PyFloat Types Strs Walk Consts Tables Msg PyMini PySrc Tac Bytes_lemmas Fletcher_lemmas Src_common.
Import ListNotations.
Open Scope Z_scope.

(* ---- the variant selectors, as _get_dict calls them ---- *)
Definition two_of (key : bytes) : bool := match key with c :: _ => (c =? 19)%N | [] => false end.

(* one row of VARIANTS: (mode, class/id, function name) *)
Definition agree_entry (v : N * list N * string) : Prop :=
  let '(m, key, f) := v in
  mem_s f py_selectors = true ->
  forall k, as_def (py_selector f (two_of key) (gbytes key) (gint (Z.of_N m)) k) = selector f key m k.

Lemma selectors_agree : Forall agree_entry variants.
Proof.
  unfold variants. repeat (apply Forall_cons; [unfold agree_entry, two_of; cbn [N.eqb Pos.eqb]; sel_agree|]).
  apply Forall_nil.
Qed.

(* Src_identity.v — the UBXMessage.identity property against the model's identity. *)
From Coq Require Import ZArith List String Ascii Bool Lia ZifyBool Floats.SpecFloat.
From PyUbx Require Import Base Bytes Fletcher Frame PyFloat Types Strs Walk Consts Tables Msg PyMini PySrc Tac Bytes_lemmas Fletcher_lemmas Src_common.
Import ListNotations.
Open Scope Z_scope.

Lemma bos_app a b : bytes_of_string (a ++ b) = (bytes_of_string a ++ bytes_of_string b)%list.
Proof. unfold bytes_of_string. induction a as [|c a IH]; cbn; [reflexivity|]. now rewrite IH. Qed.

Lemma gstr_add a b : g_add (gstr a) (gstr b) = Ok (gstr (a ++ b)).
Proof. unfold gstr. cbn [g_add]. now rewrite bos_app. Qed.

Lemma fmt_02x_N (n : N) : g_fmt_02x (gint (Z.of_N n)) = Ok (gstr (hex02 n)).
Proof. unfold g_fmt_02x, gint. destruct (Z.of_N n <? 0) eqn:E; [lia|]. now rewrite N2Z.id. Qed.

Lemma sapp_assoc (a b c : string) : ((a ++ b) ++ c = a ++ (b ++ c))%string.
Proof. induction a as [|x a IH]; cbn; [reflexivity|]. now rewrite IH. Qed.

Lemma identity_agree : mem_s "py_identity" translated = true ->
  forall (p : option bytes) cls id,
  py_identity (optg p) (gbytes cls) (gbytes id) = Ok (Tup [gstr (identity cls id p); Tup []; Tup []]).
Proof.
  intros Hin p cls id. first [untranslated Hin | clear Hin].
  all: unfold py_identity, identity.
  all: assert (Hsl : forall b : bytes, pyslice b 0 1 = firstn 1 b)
         by (intros b; change 0 with (Z.of_nat 0); change 1 with (Z.of_nat 1); rewrite slice_py; reflexivity).
  all: destruct p as [b|]; cbn [optg g_eq gbytes gnone pv_eq bind g_is_none g_add g_slice slice_of gint];
       rewrite ?Hsl;
       destruct (beq cls [19%N]) eqn:E1; cbn [bind andb negb]; try destruct (beq id [128%N]) eqn:E2; cbn [bind andb negb];
       rewrite <- ?app_assoc; cbn [firstn]; rewrite ?app_nil_r.
  all: unfold g_msgids, g_in_classes, g_classes, g_int_from_le; cbn [gbytes gint].
  all: match goal with |- context [assoc_b ?k msgids] => destruct (assoc_b k msgids) as [nm|] end;
       cbn [bind g_try exn_eqb]; try reflexivity.
  all: destruct (assoc_b cls classes) as [c|]; cbn [bind g_fmt_str gstr].
  all: repeat match goal with |- context [V (PStr (bytes_of_string ?x))] => change (V (PStr (bytes_of_string x))) with (gstr x) end.
  all: repeat match goal with |- context [V (PInt (Z.of_N ?x))] => change (V (PInt (Z.of_N x))) with (gint (Z.of_N x)) end.
  all: rewrite ?fmt_02x_N; cbn [bind]; rewrite ?gstr_add; cbn [bind]; rewrite ?gstr_add; cbn [bind];
       rewrite ?gstr_add; cbn [bind]; rewrite ?gstr_add; cbn [bind]; rewrite ?sapp_assoc; try reflexivity.
Qed.

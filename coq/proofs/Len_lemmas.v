(* Len_lemmas.v — C15: the payload of a message built from keywords has exactly the length its definition
   implies (the sum of the widths of the fields walked), for every definition without C-type members; each
   field's encoding has its own width whatever value was supplied. *)
From PyUbx Require Import Base Bytes PyFloat Types Strs Walk Tac Bytes_lemmas Walk_lemmas Bits_lemmas.
From PyUbx Require Import Trace_lemmas Shape_lemmas Build_lemmas.
Open Scope Z_scope.
Open Scope list_scope.

Lemma ok_inj {A} (x y : A) : @Ok A x = Ok y -> x = y.
Proof. congruence. Qed.

Lemma int_enc_length sg w z b : int_enc sg w z = Ok b -> length b = w.
Proof.
  unfold int_enc. destruct sg.
  - destruct w; [destruct (z =? 0); [|discriminate]; intros H; now injection H as <-|].
    destruct (_ && _); [|discriminate]. intros H. assert (E: forall x y : bytes, Ok x = Ok y -> x = y) by congruence.
    apply E in H. rewrite <- H. apply enc_le_length.
  - destruct (_ && _); [|discriminate]. intros H. assert (E: forall x y : bytes, Ok x = Ok y -> x = y) by congruence.
    apply E in H. rewrite <- H. apply enc_le_length.
Qed.

Lemma arr_enc_length n : forall xs b, arr_enc n xs = Ok b -> length b = n.
Proof.
  induction n as [|n IH]; intros xs b H; cbn [arr_enc] in H; [now injection H as <-|].
  destruct xs as [|v t]; [discriminate|]. destruct v; try discriminate.
  destruct (int_enc false 1 z) as [b1|] eqn:E1; [cbn [bind] in H|discriminate].
  destruct (arr_enc n t) as [r|] eqn:E2; [cbn [bind] in H|discriminate]. injection H as <-.
  rewrite app_length. apply int_enc_length in E1. apply IH in E2. lia.
Qed.

Definition len_type (t : aty) : Prop :=
  match t with T l (Some w) => l <> lC /\ (l = lR -> w = 4%nat \/ w = 8%nat) | _ => False end.
Definition len_kind (kd : fkind) : Prop :=
  match kd with FField t _ => len_type t | FBits t _ => t <> TCH | FCfg _ _ => False end.

Section L.
Variable atttype : list (N * list kind).

Lemma val2bytes_length v l w b : len_type (T l (Some w)) ->
  val2bytes atttype v (T l (Some w)) = Ok b -> length b = w.
Proof.
  intros [Hc Hr]. unfold val2bytes. cbn [letter_of].
  destruct (assoc_N l atttype); [|discriminate]. destruct (negb _); [discriminate|].
  destruct (l =? lX)%N eqn:EX.
  { destruct v; try discriminate. cbn [attsiz bind]. destruct (negb _) eqn:E; [discriminate|].
    intros H; injection H as <-. lia. }
  destruct (l =? lC)%N eqn:EC; [lia|].
  destruct (is_int_letter l).
  { destruct v; try discriminate. cbn [attsiz_nat bind]. apply int_enc_length. }
  destruct (l =? lR)%N eqn:ER.
  { cbn [attsiz bind]. intros H.
    match type of H with bind ?r _ = _ => destruct r; [cbn [bind] in H|discriminate] end.
    destruct (Z.of_nat w =? 4) eqn:E4.
    - match type of H with bind ?r _ = _ => destruct r; [cbn [bind] in H|discriminate] end.
      apply ok_inj in H. rewrite <- H, enc_le_length. lia.
    - apply ok_inj in H. rewrite <- H, enc_le_length. destruct Hr as [Hr|Hr]; lia. }
  destruct (l =? lA)%N; [|discriminate].
  cbn [attsiz_nat bind]. destruct v; try discriminate. destruct (negb _); [discriminate|]. apply arr_enc_length.
Qed.

Lemma encode_length r b : len_kind (fr_kind r) -> sized r -> encode_of atttype r = Ok b -> length b = fr_size r.
Proof.
  unfold len_kind, sized, encode_of. destruct (fr_kind r) as [t sc|t fl|key t]; [| |tauto].
  - intros Hl Hs He. destruct t as [|l [w|]]; [destruct Hl| |destruct Hl]. cbn in Hs. injection Hs as <-.
    destruct sc as [a|].
    + destruct (py_div_scale _ a); [cbn [bind] in He|discriminate].
      destruct (py_int_of_float _); [cbn [bind] in He|discriminate]. eapply val2bytes_length; eauto.
    + eapply val2bytes_length; eauto.
  - intros _ _ He. destruct (fr_val r); try discriminate. eapply int_enc_length; eauto.
Qed.

Fixpoint widths (l : list frec) : nat := match l with [] => O | r :: t => (fr_size r + widths t)%nat end.

Lemma chain_widths o l o' : chain o l o' -> o' = (o + widths l)%nat.
Proof. induction 1 as [|o r l o' _ _ IH]; cbn [widths]; lia. Qed.

Lemma enc_all_length l : forall bs, enc_all atttype l = Ok bs ->
  Forall (fun r => len_kind (fr_kind r) /\ sized r) l -> length bs = widths l.
Proof.
  induction l as [|r l IH]; intros bs H Hf; cbn [enc_all widths] in *; [now injection H as <-|].
  apply Forall_cons_iff in Hf as [[Hk Hs] Hf].
  destruct (encode_of atttype r) as [b|] eqn:E; [cbn [bind] in H|discriminate].
  destruct (enc_all atttype l) as [bs'|] eqn:E'; [cbn [bind] in H|discriminate]. injection H as <-.
  rewrite app_length, (IH bs' eq_refl Hf), (encode_length r b Hk Hs E). reflexivity.
Qed.

(* each field's bytes in the payload are the encoding of that field's own value, at its own offset: a value
   can only ever determine its own bytes *)
Lemma enc_all_slices l : forall o o' bs pre, chain o l o' -> enc_all atttype l = Ok bs ->
  Forall (fun r => len_kind (fr_kind r) /\ sized r) l -> length pre = o ->
  Forall (fun r => exists b, encode_of atttype r = Ok b /\ slice (pre ++ bs) (fr_off r) (fr_size r) = b) l.
Proof.
  induction l as [|r l IH]; intros o o' bs pre Hc He Hf Hp; [constructor|].
  inversion Hc as [|o1 r1 l1 o1' Hoff Hc']; subst. cbn [enc_all] in He.
  apply Forall_cons_iff in Hf as [[Hk Hs] Hf].
  destruct (encode_of atttype r) as [b|] eqn:E; [cbn [bind] in He|discriminate].
  destruct (enc_all atttype l) as [bs'|] eqn:E'; [cbn [bind] in He|discriminate]. injection He as <-.
  pose proof (encode_length r b Hk Hs E) as Hlen.
  constructor.
  - exists b. split; [exact E|]. rewrite Hoff. apply slice_mid. now rewrite Hlen.
  - specialize (IH _ _ bs' (pre ++ b) Hc' eq_refl Hf). rewrite <- app_assoc in IH. apply IH.
    rewrite app_length, Hlen. reflexivity.
Qed.

Variable readonly_names : list string.
Variable cfgdb : list (string * (Z * aty)).
Variable storsize : list (Z * Z).
Variable scalround : Z.
Variable cls id : bytes.
Variable mode : N.
Variable bf : bool.
Variable k : attrs.
Variable budget : nat.
Notation walk_listB := (walk_list atttype readonly_names cfgdb storsize scalround cls id mode bf (Some k) budget).

(* whatever the supplied values, a build that succeeds produced exactly the bytes the definition implies *)
Theorem build_length ds s' :
  is_cfgval cls id mode = false -> Forall (leaves len_kind) ds ->
  walk_listB ds [] {| w_off := O; w_pay := []; w_attrs := []; w_trace := [] |} = Ok s' ->
  length (w_pay s') = w_off s' /\ w_off s' = widths (w_trace s').
Proof.
  intros Ec Hlv H.
  pose proof (build_from_empty _ _ _ _ _ _ _ _ _ _ _ _ _ H) as (Hch & _ & Henc).
  pose proof (walk_list_sized _ _ _ _ _ _ _ _ _ _ _ _ _ _ _ H) as (l & Hl & Hsz). cbn in Hl. rewrite app_nil_r in Hl. subst l.
  pose proof (walk_list_shape_all _ _ _ _ _ _ _ _ _ _ _ _ _ _ _ H) as (l & Hl & Hsh). cbn in Hl. rewrite app_nil_r in Hl. subst l.
  rewrite Ec in Hsh. apply (shape_l_leaves bf len_kind) in Hsh; [|exact Hlv].
  apply chain_widths in Hch. cbn in Hch.
  assert (Hw: widths (rev (w_trace s')) = widths (w_trace s')).
  { clear. induction (w_trace s') as [|r l IH]; [reflexivity|]. cbn [rev widths].
    assert (A: forall a b, widths (a ++ b) = (widths a + widths b)%nat)
      by (induction a; intros; cbn [app widths]; [reflexivity|rewrite IHa; lia]).
    rewrite A, IH. cbn [widths]. lia. }
  rewrite (enc_all_length _ _ Henc).
  - rewrite Hch, Hw. auto.
  - apply Forall_rev in Hsz. rewrite Forall_forall in *. intros r Hr. split; [apply Hsh|apply Hsz]; auto.
Qed.

Theorem build_slices ds s' :
  is_cfgval cls id mode = false -> Forall (leaves len_kind) ds ->
  walk_listB ds [] {| w_off := O; w_pay := []; w_attrs := []; w_trace := [] |} = Ok s' ->
  Forall (fun r => exists b, encode_of atttype r = Ok b /\ slice (w_pay s') (fr_off r) (fr_size r) = b) (w_trace s').
Proof.
  intros Ec Hlv H.
  pose proof (build_from_empty _ _ _ _ _ _ _ _ _ _ _ _ _ H) as (Hch & _ & Henc).
  pose proof (walk_list_sized _ _ _ _ _ _ _ _ _ _ _ _ _ _ _ H) as (l & Hl & Hsz). cbn in Hl. rewrite app_nil_r in Hl. subst l.
  pose proof (walk_list_shape_all _ _ _ _ _ _ _ _ _ _ _ _ _ _ _ H) as (l & Hl & Hsh). cbn in Hl. rewrite app_nil_r in Hl. subst l.
  rewrite Ec in Hsh. apply (shape_l_leaves bf len_kind) in Hsh; [|exact Hlv].
  assert (Hf: Forall (fun r => len_kind (fr_kind r) /\ sized r) (rev (w_trace s'))).
  { apply Forall_rev in Hsz. rewrite Forall_forall in *. intros r Hr. split; [apply Hsh|apply Hsz]; auto. }
  pose proof (enc_all_slices _ _ _ _ [] Hch Henc Hf eq_refl) as Hs. cbn [app] in Hs.
  apply Forall_rev in Hs. now rewrite rev_involutive in Hs.
Qed.
End L.

(* driver.ml — line protocol between the harness and the extracted Coq model.
   One command per input line, one canonical observation per output line. *)
type ostring = String.t
open Model

(* ---------- conversions between OCaml values and Coq inductives ---------- *)
let rec pos_of_int n = if n = 1 then XH else if n land 1 = 0 then XO (pos_of_int (n lsr 1)) else XI (pos_of_int (n lsr 1))
let n_of_int n = if n = 0 then N0 else Npos (pos_of_int n)
let rec int_of_pos = function XH -> 1 | XO p -> 2 * int_of_pos p | XI p -> 2 * int_of_pos p + 1
let int_of_n = function N0 -> 0 | Npos p -> int_of_pos p
let rec nat_of_int n = if n <= 0 then O else S (nat_of_int (n - 1))
let rec int_of_nat = function O -> 0 | S k -> 1 + int_of_nat k

(* arbitrary-size integers travel as hex strings *)
let hexval c = match c with '0'..'9' -> Char.code c - 48 | 'a'..'f' -> Char.code c - 87 | 'A'..'F' -> Char.code c - 55 | _ -> failwith "hex"
let pos_of_hex (s : ostring) : positive option =
  (* most significant digit first *)
  let acc = ref None in
  String.iter (fun c ->
    let d = hexval c in
    for b = 3 downto 0 do
      let bit = (d lsr b) land 1 in
      acc := (match !acc with
        | None -> if bit = 1 then Some XH else None
        | Some p -> Some (if bit = 1 then XI p else XO p))
    done) s;
  !acc
let n_of_hex s = match pos_of_hex s with None -> N0 | Some p -> Npos p
let z_of_str s =
  (* "-<hex>" or "<hex>" *)
  if String.length s > 0 && s.[0] = '-' then
    (match pos_of_hex (String.sub s 1 (String.length s - 1)) with None -> Z0 | Some p -> Zneg p)
  else (match pos_of_hex s with None -> Z0 | Some p -> Zpos p)
let bits_of_pos p = (* least significant first *)
  let rec go p acc = match p with XH -> 1 :: acc | XO q -> go q (0 :: acc) | XI q -> go q (1 :: acc) in
  List.rev (go p []) |> List.rev |> fun l -> l
let hex_of_pos p =
  (* go builds most-significant-first list *)
  let rec go p acc = match p with XH -> 1 :: acc | XO q -> go q (0 :: acc) | XI q -> go q (1 :: acc) in
  let msf = go p [] in
  let n = List.length msf in
  let pad = (4 - n mod 4) mod 4 in
  let bits = List.init pad (fun _ -> 0) @ msf in
  let buf = Buffer.create 16 in
  let rec emit = function
    | a :: b :: c :: d :: t -> Buffer.add_char buf "0123456789abcdef".[a*8+b*4+c*2+d]; emit t
    | [] -> ()
    | _ -> failwith "hexpos" in
  emit bits; Buffer.contents buf
let str_of_n = function N0 -> "0" | Npos p -> hex_of_pos p
let str_of_z = function Z0 -> "0" | Zpos p -> hex_of_pos p | Zneg p -> "-" ^ hex_of_pos p

let bytes_of_hex (s : ostring) : n list =
  let s = if s = "-" then "" else s in
  let n = String.length s / 2 in
  List.init n (fun i -> n_of_int (hexval s.[2*i] * 16 + hexval s.[2*i+1]))
let hex_of_bytes (l : n list) : ostring =
  if l = [] then "-" else
  let buf = Buffer.create 64 in
  List.iter (fun b -> let v = int_of_n b in
    if v > 255 then Buffer.add_string buf (Printf.sprintf "[%d]" v)
    else Buffer.add_string buf (Printf.sprintf "%02x" v)) l;
  Buffer.contents buf

let exn_name = function
  | EUBXParse -> "UBXParseError" | EUBXMessage -> "UBXMessageError" | EUBXType -> "UBXTypeError"
  | EUBXStream -> "UBXStreamError" | ENmea -> "NMEAError" | ERtcm -> "RTCMError" | EEOF -> "EOFError"
  | EAttribute -> "AttributeError" | EStruct -> "struct.error" | EType -> "TypeError"
  | EValue -> "ValueError" | EOverflow -> "OverflowError" | EIndex -> "IndexError" | EKey -> "KeyError"
  | EUnbound -> "UnboundLocalError" | EZeroDiv -> "ZeroDivisionError" | EMemory -> "MemoryError"
  | EOther -> "Other"

let opt_bytes = function None -> "None" | Some b -> hex_of_bytes b

let exn_of_name = function
  | "UBXParseError" -> EUBXParse | "UBXMessageError" -> EUBXMessage | "UBXTypeError" -> EUBXType
  | "UBXStreamError" -> EUBXStream | "NMEAError" -> ENmea | "RTCMError" -> ERtcm | "EOFError" -> EEOF
  | "AttributeError" -> EAttribute | "struct.error" -> EStruct | "TypeError" -> EType
  | "ValueError" -> EValue | "OverflowError" -> EOverflow | "IndexError" -> EIndex | "KeyError" -> EKey
  | "UnboundLocalError" -> EUnbound | "ZeroDivisionError" -> EZeroDiv | "MemoryError" -> EMemory
  | _ -> EOther

(* ---------- reader ---------- *)
(* oracle table: proto:rawhex:outcome,...   outcome = OK | <exception name> *)
let parse_table (s : ostring) : (int * ostring, ostring) Hashtbl.t =
  let h = Hashtbl.create 16 in
  if s <> "-" then
    List.iter (fun e ->
      match String.split_on_char ':' e with
      | [p; raw; o] -> Hashtbl.replace h (int_of_string p, raw) o
      | _ -> failwith "table") (String.split_on_char ',' s);
  h
let oracle tbl (proto : n) (raw : n list) : bool result =
  match Hashtbl.find_opt tbl (int_of_n proto, hex_of_bytes raw) with
  | Some "OK" -> Ok true
  | Some "NONE" -> Ok false      (* the parser returned None rather than raising *)
  | Some nm -> Raise (exn_of_name nm)
  | None -> Raise EOther      (* the implementation never asked its parser about this frame *)
let nmea_fn (s : ostring) : n -> bool =
  let l = if s = "C" then List.map int_of_n nmea_hdr2 else List.map int_of_n (bytes_of_hex s) in
  fun b -> List.mem (int_of_n b) l
let mk_cfg pf qe parsing = { protfilter = n_of_int (int_of_string pf); quitonerror = n_of_int (int_of_string qe); parsing = (parsing = "1") }
let show_run (r : ('s, bool) run) (final : ostring) : ostring =
  let items = String.concat "," (List.map (fun (raw, p) -> hex_of_bytes raw ^ (match p with Some true -> ":1" | _ -> ":0")) r.items) in
  let reps = String.concat "," (List.map exn_name r.reports) in
  Printf.sprintf "ITEMS %s REPORTS %s RAISED %s FINAL %s FUEL %d"
    (if items = "" then "-" else items) (if reps = "" then "-" else reps)
    (match r.raised with None -> "None" | Some e -> exn_name e) final (if r.out_of_fuel then 1 else 0)
let events_of_string (s : ostring) : ev list =
  if s = "-" then [] else
  List.map (fun e -> if e = "F" then Fail else if e = "E" then Chunk [] else Chunk (bytes_of_hex e)) (String.split_on_char ',' s)


(* ---------- Coq strings ---------- *)
let char_of_ascii (Ascii (b0,b1,b2,b3,b4,b5,b6,b7)) =
  let v b i = if b then 1 lsl i else 0 in
  Char.chr (v b0 0 + v b1 1 + v b2 2 + v b3 3 + v b4 4 + v b5 5 + v b6 6 + v b7 7)
let ascii_of_char c =
  let n = Char.code c in let b i = (n lsr i) land 1 = 1 in
  Ascii (b 0, b 1, b 2, b 3, b 4, b 5, b 6, b 7)
let rec ostr (s : Model.string) : ostring =
  let buf = Buffer.create 16 in
  let rec go = function EmptyString -> () | String (a, t) -> Buffer.add_char buf (char_of_ascii a); go t in
  go s; Buffer.contents buf
let cstr (s : ostring) : Model.string =
  let r = ref EmptyString in
  for i = String.length s - 1 downto 0 do r := String (ascii_of_char s.[i], !r) done; !r

(* ---------- Python values on the wire ----------
   I:<hex int> F:<16 hex bits> B:<hex> S:<hex utf8> L:<v|v|...> (L:- empty) N O *)
let hex16 (zb : z) : ostring =
  let s = str_of_z zb in String.make (16 - String.length s) '0' ^ s
let rec show_val (v : pyval) : ostring =
  match v with
  | PInt zz -> "I:" ^ str_of_z zz
  | PFloat f -> (match f with S754_nan -> "F:nan" | _ -> "F:" ^ hex16 (bits_of_b64 f))
  | PBytes b -> "B:" ^ hex_of_bytes b
  | PStr b -> "S:" ^ hex_of_bytes b
  | PList l -> "L:" ^ (if l = [] then "-" else String.concat "|" (List.map show_val l))
  | PNone -> "N"
  | POther -> "O"
let rec read_val (s : ostring) : pyval =
  if s = "N" then PNone else if s = "O" then POther else
  let tag = s.[0] and body = String.sub s 2 (String.length s - 2) in
  match tag with
  | 'I' -> PInt (z_of_str body)
  | 'F' -> if body = "nan" then PFloat S754_nan else PFloat (b64_of_bits (z_of_str body))
  | 'B' -> PBytes (bytes_of_hex body)
  | 'S' -> PStr (bytes_of_hex body)
  | 'L' -> if body = "-" then PList [] else PList (List.map read_val (String.split_on_char '|' body))
  | _ -> failwith "val"
let show_attrs (a : (Model.string * pyval) list) : ostring =
  String.concat " " (List.map (fun (k, v) -> ostr k ^ "=" ^ show_val v) a)
let read_kv (t : ostring) : Model.string * pyval =
  match String.index_opt t '=' with
  | Some i -> (cstr (String.sub t 0 i), read_val (String.sub t (i + 1) (String.length t - i - 1)))
  | None -> failwith "kv"
(* attribute type on the wire: CH | <letter code>:<size or n> *)
let read_aty (s : ostring) : aty =
  if s = "CH" then TCH else
  match String.split_on_char ':' s with
  | [l; "n"] -> T (n_of_int (int_of_string l), None)
  | [l; k] -> T (n_of_int (int_of_string l), Some (nat_of_int (int_of_string k)))
  | _ -> failwith "aty"
let show_msg (m : msg) : ostring =
  Printf.sprintf "OK cls=%s id=%s mode=%d payload=%s len=%s ident=%s ser=%s | %s"
    (hex_of_bytes m.m_cls) (hex_of_bytes m.m_id) (int_of_n m.m_mode) (opt_bytes m.m_payload)
    (str_of_z (msg_length m)) (ostr (msg_identity m)) (hex_of_bytes (serialize m)) (show_attrs m.m_attrs)
let show_res = function Ok m -> show_msg m | Raise e -> "RAISE " ^ exn_name e
let read_key (t : ostring) : cfgkey =
  if String.length t > 2 && t.[0] = 'K' then KId (z_of_str (String.sub t 2 (String.length t - 2)))
  else KName (cstr (String.sub t 2 (String.length t - 2)))
let show_float (f : spec_float) = show_val (PFloat f)

(* ---------- commands ---------- *)
let handle (toks : ostring list) : ostring =
  match toks with
  | ["CK"; h] -> hex_of_bytes (fletcher (bytes_of_hex h))
  | ["CKSPEC"; h] -> hex_of_bytes (fletcher_spec (bytes_of_hex h))
  | ["ISVALID"; h] -> if isvalid_checksum (bytes_of_hex h) then "1" else "0"
  | ["WF"; h] -> if wellformedb (bytes_of_hex h) then "1" else "0"
  | ["FRONT"; v; h] ->
      (match parse_front (n_of_int (int_of_string v)) (bytes_of_hex h) with
       | Ok f -> Printf.sprintf "OK %s %s %s" (hex_of_bytes f.f_cls) (hex_of_bytes f.f_id) (opt_bytes f.f_payload)
       | Raise e -> "RAISE " ^ exn_name e)
  | ["INTENC"; sg; w; z] ->
      (match int_enc (sg = "1") (nat_of_int (int_of_string w)) (z_of_str z) with
       | Ok b -> "OK " ^ hex_of_bytes b | Raise e -> "RAISE " ^ exn_name e)
  | ["INTDEC"; sg; h] -> str_of_z (int_dec (sg = "1") (bytes_of_hex h))
  | ["READ"; pf; qe; parsing; nm; stream; table] ->
      let r = file_read_all (oracle (parse_table table)) (nmea_fn nm) (mk_cfg pf qe parsing) (bytes_of_hex stream) in
      show_run r (hex_of_bytes r.final)
  | ["SOCK"; pf; qe; parsing; nm; evs; table] ->
      let r = sock_run (oracle (parse_table table)) (nmea_fn nm) (mk_cfg pf qe parsing) (events_of_string evs) in
      show_run r (hex_of_bytes (sock_abs r.final))
  | ["PROTOCOL"; nm; h] -> string_of_int (int_of_n (protocol (nmea_fn nm) (bytes_of_hex h)))
  | "PARSE" :: mode :: v :: bf :: [h] ->
      show_res (parse (n_of_int (int_of_string mode)) (n_of_int (int_of_string v)) (bf = "1") (bytes_of_hex h))
  | "PARSERT" :: mode :: v :: bf :: [h] ->
      (match parse (n_of_int (int_of_string mode)) (n_of_int (int_of_string v)) (bf = "1") (bytes_of_hex h) with
       | Raise e -> "RAISE " ^ exn_name e
       | Ok m -> (match repr_construct m with
                  | Raise e -> "REPR-RAISE " ^ exn_name e
                  | Ok m2 -> "OK " ^ hex_of_bytes (serialize m2)))
  | "CONSTRUCT" :: c :: i :: mode :: bf :: "PAYLOAD" :: [p] ->
      show_res (construct (bytes_of_hex c) (bytes_of_hex i) (n_of_int (int_of_string mode)) (bf = "1") (KwPayload (bytes_of_hex p)))
  | "CONSTRUCT" :: c :: i :: mode :: bf :: ["NONE"] ->
      show_res (construct (bytes_of_hex c) (bytes_of_hex i) (n_of_int (int_of_string mode)) (bf = "1") KwNone)
  | "BUILD" :: c :: i :: mode :: bf :: kvs ->
      show_res (construct (bytes_of_hex c) (bytes_of_hex i) (n_of_int (int_of_string mode)) (bf = "1") (KwAttrs (List.map read_kv kvs)))
  | ["NAMED"; c; i] ->
      (match msgstr2bytes (cstr c) (cstr i) with
       | Ok (a, b) -> "OK " ^ hex_of_bytes a ^ " " ^ hex_of_bytes b | Raise e -> "RAISE " ^ exn_name e)
  | ["INTS"; c; i] ->
      (match msgclass2bytes (z_of_str c) (z_of_str i) with
       | Ok (a, b) -> "OK " ^ hex_of_bytes a ^ " " ^ hex_of_bytes b | Raise e -> "RAISE " ^ exn_name e)
  | "CFGSET" :: l :: t :: items ->
      show_res (config_set (z_of_str l) (z_of_str t)
        (List.map (fun it -> match String.index_opt it '=' with
           | Some i -> (read_key (String.sub it 0 i), read_val (String.sub it (i+1) (String.length it - i - 1)))
           | None -> failwith "item") items))
  | "CFGDEL" :: l :: t :: keys -> show_res (config_del (z_of_str l) (z_of_str t) (List.map read_key keys))
  | "CFGPOLL" :: l :: t :: keys -> show_res (config_poll (z_of_str l) (z_of_str t) (List.map read_key keys))
  | ["CFGNAME2KEY"; nm] ->
      (match cfgname2key (cstr nm) with
       | Ok (k, t) -> "OK " ^ str_of_z k ^ " " ^ (match attsiz t with Ok zz -> str_of_z zz | Raise _ -> "n") ^ " " ^ string_of_int (int_of_n (letter_of t))
       | Raise e -> "RAISE " ^ exn_name e)
  | ["CFGKEY2NAME"; k] ->
      (match cfgkey2name_ (z_of_str k) with
       | Ok (nm, t) -> "OK " ^ ostr nm ^ " " ^ (match attsiz t with Ok zz -> str_of_z zz | Raise _ -> "n") ^ " " ^ string_of_int (int_of_n (letter_of t))
       | Raise e -> "RAISE " ^ exn_name e)
  | ["INPUTMODE"; h] -> string_of_int (int_of_n (getinputmode (bytes_of_hex h)))
  | ["IDENT"; c; i; p] ->
      ostr (identity (bytes_of_hex c) (bytes_of_hex i) (if p = "None" then None else Some (bytes_of_hex p)))
  | ["V2B"; t; v] -> (match v2b (read_val v) (read_aty t) with Ok b -> "OK " ^ hex_of_bytes b | Raise e -> "RAISE " ^ exn_name e)
  | ["B2V"; t; h] -> (match bytes2val (bytes_of_hex h) (read_aty t) with Ok v -> "OK " ^ show_val v | Raise e -> "RAISE " ^ exn_name e)
  | ["NOMVAL"; t] -> (match nomval (read_aty t) with Ok v -> "OK " ^ show_val v | Raise e -> "RAISE " ^ exn_name e)
  | ["WFTABLE"] ->
      let rn = function RBadType -> "badtype" | RFlagType -> "flagtype" | RFlagsOverflow -> "flagsoverflow"
        | RGroupSize -> "groupsize" | RVarGroup -> "vargroup" | RCHPlace -> "chplace" | RDupName -> "dupname"
        | RCollide -> "collide" | RHPBase -> "hpbase" | RUnreachable -> "unreachable" | RNoClass -> "noclass" in
      let fs = List.map (fun ((m, nm), r) -> Printf.sprintf "%d:%s:%s" (int_of_n m) (ostr nm) (rn r)) table_failures in
      let nom = List.filter_map (fun (m, (nm, ds)) ->
          if nominal_ok true ds && nominal_ok false ds then None else Some (Printf.sprintf "%d:%s:nominal" (int_of_n m) (ostr nm))) all_entries in
      String.concat " " (List.sort_uniq compare (fs @ nom))
  | ["MODETABLE"] ->
      let bad want tab = List.filter_map (fun (nm, ds) -> if mode_entry_ok (n_of_int want) (nm, ds) then None else Some (Printf.sprintf "%d:%s" want (ostr nm))) tab in
      String.concat " " (bad 1 payloads_set @ bad 2 payloads_poll)
  | ["GETBITS"; h; m] ->
      (match get_bits (bytes_of_hex h) (n_of_hex m) with
       | None -> "LOOP" | Some (Ok v) -> "OK " ^ str_of_n v | Some (Raise e) -> "RAISE " ^ exn_name e)
  | ["ATT2NAME"; a] -> ostr (att2name (cstr a))
  | ["ATT2IDX"; a] ->
      (match att2idx (cstr a) with IdxNone -> "0" | IdxOne k -> str_of_n k
        | IdxMany l -> "(" ^ String.concat "," (List.map str_of_n l) ^ ")")
  | ["SPHP"; v; sc] ->
      (match val2sphp (b64_of_bits (z_of_str v)) (b64_of_bits (z_of_str sc)) with
       | Ok (a, b) -> "OK " ^ str_of_z a ^ " " ^ str_of_z b | Raise e -> "RAISE " ^ exn_name e)
  | ["ROUND"; nd; f] -> (match py_round_nd (z_of_str nd) (b64_of_bits (z_of_str f)) with Ok r -> "OK " ^ show_float r | Raise e -> "RAISE " ^ exn_name e)
  | ["FMUL"; a; b] -> show_float (fmul (b64_of_bits (z_of_str a)) (b64_of_bits (z_of_str b)))
  | ["FADD"; a; b] -> show_float (fadd (b64_of_bits (z_of_str a)) (b64_of_bits (z_of_str b)))
  | ["FDIV"; a; b] -> (match fdiv (b64_of_bits (z_of_str a)) (b64_of_bits (z_of_str b)) with Ok r -> "OK " ^ show_float r | Raise e -> "RAISE " ^ exn_name e)
  | ["IDIV"; a; b] -> (match int_truediv (z_of_str a) (z_of_str b) with Ok r -> "OK " ^ show_float r | Raise e -> "RAISE " ^ exn_name e)
  | ["FOFZ"; a] -> show_float (f_of_Z (z_of_str a))
  | ["INTOF"; f] -> (match py_int_of_float (b64_of_bits (z_of_str f)) with Ok r -> "OK " ^ str_of_z r | Raise e -> "RAISE " ^ exn_name e)
  | ["ROUNDINT"; f] -> (match py_round_int (b64_of_bits (z_of_str f)) with Ok r -> "OK " ^ str_of_z r | Raise e -> "RAISE " ^ exn_name e)
  | _ -> "ERR unknown command"

let () =
  try
    while true do
      let line = input_line stdin in
      let toks = String.split_on_char ' ' (String.trim line) |> List.filter (fun s -> s <> "") in
      let out = try handle toks with Failure m -> "ERR " ^ m | Not_found -> "ERR notfound" | Stack_overflow -> "ERR stack" in
      print_string out; print_char '\n'
    done
  with End_of_file -> flush stdout

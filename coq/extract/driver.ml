(* driver.ml — line protocol between the harness and the extracted Coq model.
   One command per input line, one canonical observation per output line. *)
open Model

(* ---------- conversions between OCaml values and Coq inductives ---------- *)
let rec pos_of_int n = if n = 1 then XH else if n land 1 = 0 then XO (pos_of_int (n lsr 1)) else XI (pos_of_int (n lsr 1))
let n_of_int n = if n = 0 then N0 else Npos (pos_of_int n)
let rec int_of_pos = function XH -> 1 | XO p -> 2 * int_of_pos p | XI p -> 2 * int_of_pos p + 1
let int_of_n = function N0 -> 0 | Npos p -> int_of_pos p
let rec nat_of_int n = if n <= 0 then O else S (nat_of_int (n - 1))
let rec int_of_nat = function O -> 0 | S k -> 1 + int_of_nat k

(* arbitrary-size integers travel as hex strings *)
let hexval c = match c with '0'..'9' -> Char.code c - 48 | 'a'..'f' -> Char.code c - 87 | 'A'..'F' -> Char.code c - 55 | _ -> failwith "hex"
let pos_of_hex (s : string) : positive option =
  (* most significant digit first *)
  let acc = ref None in
  String.iter (fun c ->
    let d = hexval c in
    for b = 3 downto 0 do
      let bit = (d lsr b) land 1 in
      acc := (match !acc with
        | None -> if bit = 1 then Some XH else None
        | Some p -> Some (if bit = 1 then XI p else XO p))
    done) s;
  !acc
let n_of_hex s = match pos_of_hex s with None -> N0 | Some p -> Npos p
let z_of_str s =
  (* "-<hex>" or "<hex>" *)
  if String.length s > 0 && s.[0] = '-' then
    (match pos_of_hex (String.sub s 1 (String.length s - 1)) with None -> Z0 | Some p -> Zneg p)
  else (match pos_of_hex s with None -> Z0 | Some p -> Zpos p)
let bits_of_pos p = (* least significant first *)
  let rec go p acc = match p with XH -> 1 :: acc | XO q -> go q (0 :: acc) | XI q -> go q (1 :: acc) in
  List.rev (go p []) |> List.rev |> fun l -> l
let hex_of_pos p =
  (* go builds most-significant-first list *)
  let rec go p acc = match p with XH -> 1 :: acc | XO q -> go q (0 :: acc) | XI q -> go q (1 :: acc) in
  let msf = go p [] in
  let n = List.length msf in
  let pad = (4 - n mod 4) mod 4 in
  let bits = List.init pad (fun _ -> 0) @ msf in
  let buf = Buffer.create 16 in
  let rec emit = function
    | a :: b :: c :: d :: t -> Buffer.add_char buf "0123456789abcdef".[a*8+b*4+c*2+d]; emit t
    | [] -> ()
    | _ -> failwith "hexpos" in
  emit bits; Buffer.contents buf
let str_of_n = function N0 -> "0" | Npos p -> hex_of_pos p
let str_of_z = function Z0 -> "0" | Zpos p -> hex_of_pos p | Zneg p -> "-" ^ hex_of_pos p

let bytes_of_hex (s : string) : n list =
  let s = if s = "-" then "" else s in
  let n = String.length s / 2 in
  List.init n (fun i -> n_of_int (hexval s.[2*i] * 16 + hexval s.[2*i+1]))
let hex_of_bytes (l : n list) : string =
  if l = [] then "-" else
  let buf = Buffer.create 64 in
  List.iter (fun b -> let v = int_of_n b in
    if v > 255 then Buffer.add_string buf (Printf.sprintf "[%d]" v)
    else Buffer.add_string buf (Printf.sprintf "%02x" v)) l;
  Buffer.contents buf

let exn_name = function
  | EUBXParse -> "UBXParseError" | EUBXMessage -> "UBXMessageError" | EUBXType -> "UBXTypeError"
  | EUBXStream -> "UBXStreamError" | ENmea -> "NMEAError" | ERtcm -> "RTCMError" | EEOF -> "EOFError"
  | EAttribute -> "AttributeError" | EStruct -> "struct.error" | EType -> "TypeError"
  | EValue -> "ValueError" | EOverflow -> "OverflowError" | EIndex -> "IndexError" | EKey -> "KeyError"
  | EUnbound -> "UnboundLocalError" | EZeroDiv -> "ZeroDivisionError" | EMemory -> "MemoryError"
  | EOther -> "Other"

let opt_bytes = function None -> "None" | Some b -> hex_of_bytes b

let exn_of_name = function
  | "UBXParseError" -> EUBXParse | "UBXMessageError" -> EUBXMessage | "UBXTypeError" -> EUBXType
  | "UBXStreamError" -> EUBXStream | "NMEAError" -> ENmea | "RTCMError" -> ERtcm | "EOFError" -> EEOF
  | "AttributeError" -> EAttribute | "struct.error" -> EStruct | "TypeError" -> EType
  | "ValueError" -> EValue | "OverflowError" -> EOverflow | "IndexError" -> EIndex | "KeyError" -> EKey
  | "UnboundLocalError" -> EUnbound | "ZeroDivisionError" -> EZeroDiv | "MemoryError" -> EMemory
  | _ -> EOther

(* ---------- reader ---------- *)
(* oracle table: proto:rawhex:outcome,...   outcome = OK | <exception name> *)
let parse_table (s : string) : (int * string, string) Hashtbl.t =
  let h = Hashtbl.create 16 in
  if s <> "-" then
    List.iter (fun e ->
      match String.split_on_char ':' e with
      | [p; raw; o] -> Hashtbl.replace h (int_of_string p, raw) o
      | _ -> failwith "table") (String.split_on_char ',' s);
  h
let oracle tbl (proto : n) (raw : n list) : bool result =
  match Hashtbl.find_opt tbl (int_of_n proto, hex_of_bytes raw) with
  | Some "OK" -> Ok true
  | Some "NONE" -> Ok false      (* the parser returned None rather than raising *)
  | Some nm -> Raise (exn_of_name nm)
  | None -> Raise EOther      (* the implementation never asked its parser about this frame *)
let nmea_fn (s : string) : n -> bool =
  let l = List.map int_of_n (bytes_of_hex s) in fun b -> List.mem (int_of_n b) l
let mk_cfg pf qe parsing = { protfilter = n_of_int (int_of_string pf); quitonerror = n_of_int (int_of_string qe); parsing = (parsing = "1") }
let show_run (r : ('s, bool) run) (final : string) : string =
  let items = String.concat "," (List.map (fun (raw, p) -> hex_of_bytes raw ^ (match p with Some true -> ":1" | _ -> ":0")) r.items) in
  let reps = String.concat "," (List.map exn_name r.reports) in
  Printf.sprintf "ITEMS %s REPORTS %s RAISED %s FINAL %s FUEL %d"
    (if items = "" then "-" else items) (if reps = "" then "-" else reps)
    (match r.raised with None -> "None" | Some e -> exn_name e) final (if r.out_of_fuel then 1 else 0)
let events_of_string (s : string) : ev list =
  if s = "-" then [] else
  List.map (fun e -> if e = "F" then Fail else if e = "E" then Chunk [] else Chunk (bytes_of_hex e)) (String.split_on_char ',' s)

(* ---------- commands ---------- *)
let handle (toks : string list) : string =
  match toks with
  | ["CK"; h] -> hex_of_bytes (fletcher (bytes_of_hex h))
  | ["CKSPEC"; h] -> hex_of_bytes (fletcher_spec (bytes_of_hex h))
  | ["ISVALID"; h] -> if isvalid_checksum (bytes_of_hex h) then "1" else "0"
  | ["WF"; h] -> if wellformedb (bytes_of_hex h) then "1" else "0"
  | ["FRONT"; v; h] ->
      (match parse_front (n_of_int (int_of_string v)) (bytes_of_hex h) with
       | Ok f -> Printf.sprintf "OK %s %s %s" (hex_of_bytes f.f_cls) (hex_of_bytes f.f_id) (opt_bytes f.f_payload)
       | Raise e -> "RAISE " ^ exn_name e)
  | ["INTENC"; sg; w; z] ->
      (match int_enc (sg = "1") (nat_of_int (int_of_string w)) (z_of_str z) with
       | Ok b -> "OK " ^ hex_of_bytes b | Raise e -> "RAISE " ^ exn_name e)
  | ["INTDEC"; sg; h] -> str_of_z (int_dec (sg = "1") (bytes_of_hex h))
  | ["READ"; pf; qe; parsing; nm; stream; table] ->
      let r = file_read_all (oracle (parse_table table)) (nmea_fn nm) (mk_cfg pf qe parsing) (bytes_of_hex stream) in
      show_run r (hex_of_bytes r.final)
  | ["SOCK"; pf; qe; parsing; nm; evs; table] ->
      let r = sock_run (oracle (parse_table table)) (nmea_fn nm) (mk_cfg pf qe parsing) (events_of_string evs) in
      show_run r (hex_of_bytes (abs r.final))
  | ["PROTOCOL"; nm; h] -> string_of_int (int_of_n (protocol (nmea_fn nm) (bytes_of_hex h)))
  | _ -> "ERR unknown command"

let () =
  try
    while true do
      let line = input_line stdin in
      let toks = String.split_on_char ' ' (String.trim line) |> List.filter (fun s -> s <> "") in
      let out = try handle toks with Failure m -> "ERR " ^ m | Not_found -> "ERR notfound" | Stack_overflow -> "ERR stack" in
      print_string out; print_char '\n'
    done
  with End_of_file -> flush stdout

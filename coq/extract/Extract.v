(* Extract.v — extraction of the executable model to OCaml.
   Only ExtrOcamlBasic is used: bool/option/unit/list/prod/sumbool/sumor map to OCaml types,
   andb/orb are inlined; N, Z, positive, nat, string and ascii stay Coq inductives. *)
From PyUbx Require Import Base Bytes Fletcher Frame Reader Socket PyFloat Types Strs Walk Consts Tables Msg Helpers WfDef.
Require Import ExtrOcamlBasic.
Extraction "model.ml"
  fletcher fletcher_spec isvalid_checksum parse_front wellformedb mk_frame
  pyslice enc_le uint_of_le int_enc int_dec
  file_read_all sock_run sock_abs protocol flatten deliver
  parse construct serialize msg_length msg_identity repr_construct setattr_ delattr_ getinputmode
  msgstr2bytes msgclass2bytes config_set config_del config_poll cfgname2key cfgkey2name_
  v2b bytes2val nomval identity bits_of_b64 b64_of_bits nmea_hdr2
  table_failures entry_rules all_entries nominal_ok mode_entry_ok get_bits att2idx att2name val2sphp
  py_round_nd py_int_of_float py_round_int int_truediv fdiv fmul fadd f_of_Z.

(* Extract.v — extraction of the executable model to OCaml.
   Only ExtrOcamlBasic is used: bool/option/unit/list/prod/sumbool/sumor map to OCaml types,
   andb/orb are inlined; N, Z, positive, nat, string and ascii stay Coq inductives. *)
From PyUbx Require Import Base Bytes Fletcher Frame Reader Socket.
Require Import ExtrOcamlBasic.
Extraction "model.ml"
  fletcher fletcher_spec isvalid_checksum parse_front wellformedb mk_frame
  pyslice enc_le uint_of_le int_enc int_dec
  file_read_all sock_run abs protocol flatten deliver.

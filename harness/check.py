#!/venv/bin/python
"""Entry point:  check.py <property-id> <quick|thorough>

Implements the MANIFEST contract for every property:
  exit 0                       property held on everything explored
  exit 1 + "VIOLATION property=<id> replay=<path>[ no-failing-input-found]"
Always rewrites evidence/<id>.json.
"""
import hashlib
import importlib
import json
import os
import random
import sys
import time
import traceback

sys.path.insert(0, os.path.dirname(os.path.abspath(__file__)))
import common  # noqa: E402

common.ensure_env()


class Ctx:
    def __init__(self, prop, tier, seed):
        self.prop = prop
        self.tier = tier
        self.seed = seed
        self.rng = random.Random(seed * 1000003 + int(hashlib.sha1(prop.encode()).hexdigest()[:6], 16))
        self.t0 = time.time()
        self.bld = None
        self.evaluations = 0
        self.distinct = set()
        self.nontrivial = set()
        self.samples = []
        self.distribution = {}
        self.disagreements = []      # model vs implementation
        self.failures = []           # property failures on the implementation
        self.traces = 0
        self.exhaustive_parts = []
        self.notes = []
        self.rule = ""
        self.obl = []                # obligation reports
        self.known_seen = []
        self.coqchk = []
        self.vm_pool = {}            # op -> [(cmd, model output)] sample for the in-Coq cross-check of extraction

    # -- bookkeeping ---------------------------------------------------------
    def count(self, key, n=1):
        self.distribution[key] = self.distribution.get(key, 0) + n

    def sample(self, x, cap=8):
        if len(self.samples) < cap:
            self.samples.append(x)

    def quick(self):
        return self.tier == "quick"

    # -- correspondence --------------------------------------------------------
    def correspond(self, cmds, impl_fn=None, canon=None, nontrivial=None, label="corr", shards=16):
        """Run every command on the extracted model and on the implementation; record
        disagreements.  `canon(cmd, line)` may canonicalise an output line (both sides).
        `nontrivial(cmd, out)` says whether a case counts as non-trivial."""
        import impl
        impl_fn = impl_fn or impl.impl_exec
        cmds = list(cmds)
        if not cmds:
            return []
        try:
            mout = common.run_model(cmds, shards=shards)
        except Exception as e:  # model not runnable: every case is an unresolved tie
            self.notes.append("model not runnable: %r" % (e,))
            mout = ["ERR model-unavailable"] * len(cmds)
        res = []
        cap = 12 if self.quick() else 60
        for cmd, mo in zip(cmds, mout):
            op = cmd.split(" ", 1)[0]
            pool = self.vm_pool.setdefault(op, [])
            if len(pool) < cap and len(cmd) < 6000:
                pool.append((cmd, mo))
            elif len(cmd) < 6000 and self.rng.random() < 0.01:
                pool[self.rng.randrange(cap)] = (cmd, mo)
            io_ = impl_fn(cmd)
            a, b = (canon(cmd, mo), canon(cmd, io_)) if canon else (mo, io_)
            self.evaluations += 1
            self.traces += 1
            h = hashlib.blake2b((cmd + "|" + b).encode(), digest_size=8).digest()
            if h not in self.distinct:
                self.distinct.add(h)
                if nontrivial is None or nontrivial(cmd, b):
                    self.nontrivial.add(h)
            self.count(label + ":" + b.split(" ")[0][:24])
            if a != b:
                self.disagreements.append({"cmd": cmd, "model": mo, "impl": io_, "label": label})
            res.append((cmd, mo, io_))
        if cmds:
            self.sample({"cmd": cmds[0][:200], "model": mout[0][:200]})
        return res

    def fail(self, what, inp, expected, observed):
        self.failures.append({"what": what, "input": inp, "expected": expected, "observed": observed})


# which source functions each translation-tie theorem is about (keys as in harness/modelled_digests.json)
_SEL = ["ubxvariants.py:get_%s_dict" % n for n in ("cfgtp5", "mga", "rxmpmreq", "rxmpmp", "rxmrlm", "cfgnmea", "aopstatus", "relposned",
                                                    "timvcocal", "cfgdat", "secsig", "alpsrv")]
_RD = ["ubxreader.py:UBXReader.%s" % n for n in ("_read_bytes", "_read_line", "_parse_ubx", "_parse_nmea", "_parse_rtcm3", "_do_error", "read")]
THEOREM_FUNCS = {
    "C01_serialize_from_source": ["ubxmessage.py:UBXMessage.serialize"],
    "C02_selectors_from_source": _SEL,
    "C02_get_dict_from_source": ["ubxmessage.py:UBXMessage._get_dict"] + _SEL,
    "C02_identity_from_source": ["ubxmessage.py:UBXMessage.identity"],
    "C05_parse_from_source": ["ubxreader.py:UBXReader.parse"],
    "C13_setattr_from_source": ["ubxmessage.py:UBXMessage.__setattr__"],
    "C13_delattr_from_source": ["ubxmessage.py:UBXMessage.__delattr__"],
    "C15_len_checksum_from_source": ["ubxmessage.py:UBXMessage._do_len_checksum"],
    "C17_getinputmode_from_source": ["ubxhelpers.py:getinputmode"],
    "C18_checksum_from_source": ["ubxhelpers.py:calc_checksum"],
    "C18_isvalid_from_source": ["ubxhelpers.py:isvalid_checksum", "ubxhelpers.py:calc_checksum"],
    "C06_read_bytes_from_source": [_RD[0]], "C06_read_line_from_source": [_RD[1]],
    "C06_parse_ubx_from_source": [_RD[2], _RD[0]], "C06_parse_nmea_from_source": [_RD[3], _RD[1]],
    "C06_parse_rtcm3_from_source": [_RD[4], _RD[0]], "C06_do_error_from_source": [_RD[5]],
    "C06_read_from_source": _RD,
    "C10_read_from_source_over_socket": _RD,
    "C10_recv_from_source": ["socket_wrapper.py:SocketWrapper._recv"],
    "C10_sock_read_from_source": ["socket_wrapper.py:SocketWrapper._recv", "socket_wrapper.py:SocketWrapper.read"],
    "C10_sock_readline_from_source": ["socket_wrapper.py:SocketWrapper._recv", "socket_wrapper.py:SocketWrapper.read",
                                      "socket_wrapper.py:SocketWrapper.readline"],
    "C10_rl_opt_is_model": [],
}


def translation_tie_downgrade(ctx):
    """See the comment at the call site.  Returns {"theorems": [...], "functions": [...]} or None, and moves the theorems
    from `failed` to `not_reestablished` in ctx.obl."""
    if ctx.bld is None:
        return None
    rep = ctx.bld.translate_report
    drift, restructured = set(rep.get("source_drift", [])), set(rep.get("restructured", []))
    out = {"theorems": [], "functions": set()}
    for o in ctx.obl:
        if not o["file"].endswith("_src.v") or not o["failed"]:
            continue
        funcs = set()
        for t in o["failed"]:
            funcs |= set(THEOREM_FUNCS.get(t, ["?"]))
        changed = funcs & drift
        if "?" in funcs or not changed or not changed <= restructured:
            continue          # nothing changed (our own breakage) or an expression-level change: the failure stands
        o.setdefault("not_reestablished", []).extend(o["failed"])
        out["theorems"] += o["failed"]
        out["functions"] |= changed
        o["failed"] = []
    return out if out["theorems"] else None


def main():
    if len(sys.argv) < 3:
        print("usage: check.py <Cxx> <quick|thorough>")
        return 2
    prop, tier = sys.argv[1], sys.argv[2]
    tier = os.environ.get("VERIF_TIER", tier)
    if tier not in ("quick", "thorough"):
        tier = "quick"
    try:
        seed = int(os.environ.get("VERIF_SEED", "0"))
    except ValueError:
        seed = 0
    ctx = Ctx(prop, tier, seed)
    # replay files of earlier runs of this check with this seed are stale now
    import glob
    for old in glob.glob(os.path.join(common.VERIF, "replays", "%s-%d-*.json" % (prop, seed))):
        try:
            os.remove(old)
        except OSError:
            pass
    mod = importlib.import_module("props." + prop.lower())
    viol = []
    try:
        ctx.bld = common.build()
        # proof obligations
        for vf in mod.PROPFILES:
            ctx.obl.append(common.obligations(ctx.bld, vf))
        if tier == "thorough" and os.environ.get("VERIF_NO_COQCHK") != "1":
            for vf in mod.PROPFILES:
                ck = common.coqchk(vf)
                ctx.coqchk.append(ck)
                if not ck["ok"]:
                    ctx.disagreements.append({"cmd": ck["cmd"], "model": "", "impl": ck["detail"][-300:] + " " + str(ck["bad"])[:300], "label": "coqchk"})
        # correspondence + search on the implementation
        mod.run(ctx)
        # a *_from_source theorem (translation tie) that no longer checks because the function it is about was
        # RE-ARRANGED (its statement structure differs from the pinned one), not changed inside an expression: the
        # hand-written model is then tied to that function by the correspondence alone, as it was for every function
        # before the translation layer existed; the search is run a second time with another seed, and only what the
        # correspondence or the search find is reported.  An expression-level change (same statement structure) that
        # breaks the theorem stays a failed obligation.
        downgraded = translation_tie_downgrade(ctx)
        if downgraded:
            ctx.notes.append("translation tie not re-established after a restructuring of %s: %s; tie by correspondence on "
                             "this run, search repeated with a second seed" % (sorted(downgraded["functions"]), downgraded["theorems"]))
            ctx.translation_tie = downgraded
            import random as _random
            ctx.rng = _random.Random(seed + 7919)
            mod.run(ctx)
    except Exception:  # the machinery itself failed: fail closed
        ctx.notes.append("harness exception: " + traceback.format_exc()[-3000:])
        ctx.disagreements.append({"cmd": "<harness>", "model": "", "impl": "exception", "label": "harness"})

    # extraction cross-check: a sample of the executed commands is re-evaluated inside Coq (vm_compute)
    vm = {"checked": 0, "ok": 0, "bad": [], "skipped": 0, "error": None}
    try:
        import vmcheck
        pairs = [x for op in sorted(ctx.vm_pool) for x in ctx.vm_pool[op]]
        if pairs and ctx.bld is not None and ctx.bld.ok:
            vm = vmcheck.run(prop, pairs)
            for b in vm["bad"]:
                ctx.disagreements.append({"cmd": b["cmd"], "model": b["driver"], "impl": "(vm_compute in Coq differs)", "label": "extraction"})
            if vm["error"]:
                ctx.notes.append("vm cross-check: " + str(vm["error"])[:300])
    except Exception:  # pylint: disable=broad-except
        ctx.notes.append("vm cross-check failed to run: " + traceback.format_exc()[-500:])

    known = common.load_known(prop)
    open_known = [k for k in known if k.get("status") == "open"]
    matcher = getattr(mod, "matches_known", None)
    new_failures = []
    reproduced = {}
    for f in ctx.failures:
        hit = None
        if matcher:
            for k in open_known:
                if matcher(k, f):
                    hit = k
                    break
        if hit is not None:
            reproduced.setdefault(hit["id"], f)
        else:
            new_failures.append(f)
    # replay listed witnesses explicitly
    replay_known = getattr(mod, "replay_known", None)
    for k in open_known:
        if k["id"] in reproduced:
            continue
        if replay_known:
            try:
                r = replay_known(ctx, k)
            except Exception as e:  # pylint: disable=broad-except
                r = None
                ctx.notes.append("replay_known %s failed: %r" % (k["id"], e))
            if r:
                reproduced[k["id"]] = r
    for k in open_known:
        if k["id"] in reproduced:
            print("KNOWN-FINDING: property=%s %s" % (prop, k["what"]))
        else:
            ctx.notes.append("known finding %s no longer reproduces" % k["id"])

    obl_total = sum(len(o["theorems"]) - len(o.get("not_reestablished", [])) for o in ctx.obl)
    obl_done = sum(len(o["discharged"]) for o in ctx.obl)
    obl_failed = [(o["file"], t) for o in ctx.obl for t in o["failed"]]
    broken = []
    for f, t in obl_failed:
        broken.append("theorem:%s (%s)" % (t, f))
    kinds = sorted(set(d["label"] for d in ctx.disagreements))
    for k in kinds:
        broken.append("correspondence:%s" % k)

    rc = 0
    nrep = 0
    if new_failures:
        rc = 1
        # one replay per distinct kind of failure, at most 5
        seen = set()
        for f in new_failures:
            if f["what"] in seen:
                continue
            seen.add(f["what"])
            path = common.write_replay(prop, seed, nrep, {
                "kind": "failing-input", "broken": broken, "what": f["what"], "input": f["input"],
                "expected": f["expected"], "observed": f["observed"]})
            print("VIOLATION property=%s replay=%s" % (prop, path))
            nrep += 1
            if nrep >= 5:
                break
    elif broken:
        rc = 1
        detail = [o["detail"] for o in ctx.obl if o["detail"]]
        path = common.write_replay(prop, seed, 0, {
            "kind": "no-failing-input-found", "broken": broken,
            "obligation_detail": detail,
            "disagreements": ctx.disagreements[:20],
            "note": "the theorem or correspondence named in 'broken' no longer checks; the search "
                    "found no input on which the property itself fails on the implementation"})
        print("VIOLATION property=%s replay=%s no-failing-input-found" % (prop, path))

    axioms = sorted(set(a for o in ctx.obl for l in o["axioms"].values() for a in l))
    ev = {
        "property_id": prop,
        "tier": tier,
        "seed": seed,
        "level": "proof",
        "coverage": {
            "obligations": max(obl_total, 1) if obl_total else 0,
            "discharged": obl_done,
            "checker_cmd": "; ".join(o["checker_cmd"] for o in ctx.obl) or "none",
            "trusted_base": [
                "Coq 8.16.1 kernel (coqc, vm_compute; no native_compute)",
                "axioms reported by Print Assumptions on this run: %s" % (axioms or "none (closed under the global context)"),
                "harness/translate.py (tables and code constants regenerated from /repo on this run)",
                "harness/py2coq.py + coq/model/PyMini.v (function bodies translated from /repo on this run into Gallina over "
                "PyMini's reading of Python's ==, len, slicing, in, +, -, &, truthiness and dict lookup; the *_from_source "
                "theorems prove the translated bodies equal to the hand-written model)",
                "extraction with ExtrOcamlBasic only + coq/extract/driver.ml",
                "correspondence harness (harness/*.py): differential testing, validates the model, not the proof",
            ] + list(getattr(mod, "TRUSTED", [])),
            "theorems": {o["file"]: {"discharged": o["discharged"], "failed": o["failed"],
                                     "translation_tie_not_reestablished_after_restructuring": o.get("not_reestablished", [])}
                         for o in ctx.obl},
            "evaluations": ctx.evaluations,
            "distinct_nontrivial": len(ctx.nontrivial),
            "rule": ctx.rule or getattr(mod, "RULE", ""),
            "samples": ctx.samples or ["(no correspondence cases ran)"],
            "traces_validated_against_impl": ctx.traces,
            "disagreements": len(ctx.disagreements),
            "property_failures_found": len(ctx.failures),
            "known_findings_reproduced": sorted(reproduced),
            "exhaustive": bool(ctx.exhaustive_parts),
            "exhaustive_parts": ctx.exhaustive_parts,
            "distribution": dict(sorted(ctx.distribution.items())[:80]),
            "coqchk": [{"cmd": c["cmd"], "ok": c["ok"], "axioms_of_whole_context": c["axioms"], "wall_s": c["wall"]} for c in ctx.coqchk],
            "extraction_crosscheck": {"evaluated_in_coq_by_vm_compute": vm["checked"], "agree_with_ocaml": vm["ok"],
                                      "differ": len(vm["bad"]), "not_expressible": vm["skipped"]},
            "translator": ctx.bld.translate_report.get("summary", {}) if ctx.bld else {},
            "source_functions_translated": (ctx.bld.translate_report.get("py2coq", {}).get("translated", [])
                                            + ctx.bld.translate_report.get("py2coq_io", {}).get("translated", [])) if ctx.bld else [],
            "source_functions_not_translated": dict(ctx.bld.translate_report.get("py2coq", {}).get("untranslated", {}),
                                                    **ctx.bld.translate_report.get("py2coq_io", {}).get("untranslated", {})) if ctx.bld else {},
            "source_functions_changed_since_pinned": ctx.bld.translate_report.get("source_drift", []) if ctx.bld else [],
            "source_functions_restructured_since_pinned": ctx.bld.translate_report.get("restructured", []) if ctx.bld else [],
            "translator_template_mismatches": ctx.bld.translate_report.get("template_mismatches", []) if ctx.bld else [],
            "build_wall_s": round(ctx.bld.wall, 1) if ctx.bld else None,
            "notes": ctx.notes[:20],
        },
        "assumptions": list(getattr(mod, "ASSUMPTIONS", [])),
        "wall_s": round(time.time() - ctx.t0, 2),
        "violations": len(new_failures) if new_failures else (1 if broken else 0),
    }
    common.write_evidence(prop, ev)
    if rc == 0:
        print("OK property=%s tier=%s obligations=%d/%d cases=%d disagreements=0 wall=%.1fs" % (
            prop, tier, obl_done, obl_total, ctx.evaluations, time.time() - ctx.t0))
    return rc


if __name__ == "__main__":
    sys.exit(main())

"""Generators and an independent spec decoder for UBX message definitions.

`decode_spec` is a small, direct reading of the documented payload grammar (README / ubxtypes_*):
little-endian unsigned, two's complement, IEEE-754, scaled (rounded to SCALROUND decimals as the
library documents), bit-sliced flags, groups with _NN suffixes.  It is the oracle the C02/C03
searches compare the implementation against; it deliberately does not share code with pyubx2."""
import struct

from pyubx2 import UBX_CLASSES, UBX_MSGIDS, UBX_PAYLOADS_GET, UBX_PAYLOADS_POLL, UBX_PAYLOADS_SET
from pyubx2.ubxtypes_core import SCALROUND

import gen

TABLES = {0: UBX_PAYLOADS_GET, 1: UBX_PAYLOADS_SET, 2: UBX_PAYLOADS_POLL}
MODENAME = {0: "GET", 1: "SET", 2: "POLL"}
BITF = ("X001", "X002", "X004", "X006", "X008", "X024")


def name2key():
    out = {}
    for k, v in UBX_MSGIDS.items():
        out.setdefault(v, k)
    return out


def key_for_def(name):
    """class/id(/type) bytes for a payload definition name, incl. variant names (longest msgid-name prefix)."""
    n2k = name2key()
    if name in n2k:
        return n2k[name]
    best = None
    for nm, k in n2k.items():
        if name.startswith(nm) and (best is None or len(nm) > len(best[0])):
            best = (nm, k)
    return best[1] if best else None


# how a payload must look for a variant definition to be selected: (def name) -> constraint
VARIANT_RULES = {
    (2, "CFG-TP5-TPX"): ("len", 1), (2, "CFG-TP5"): ("lennot", 1),
    (1, "RXM-PMREQ"): ("len", 16), (1, "RXM-PMREQ-S"): ("lennot", 16),
    (1, "RXM-PMP-V0"): ("byte", 0, 0), (1, "RXM-PMP-V1"): ("bytenot", 0, 0),
    (0, "RXM-RLM-S"): ("byte", 1, 1), (0, "RXM-RLM-L"): ("bytenot", 1, 1),
    (0, "CFG-NMEAvX"): ("len", 4), (0, "CFG-NMEAv0"): ("len", 12), (0, "CFG-NMEA"): ("lennotin", (4, 12)),
    (0, "NAV-AOPSTATUS-L"): ("len", 20), (0, "NAV-AOPSTATUS"): ("lennot", 20),
    (0, "NAV-RELPOSNED-V0"): ("byte", 0, 0), (0, "NAV-RELPOSNED"): ("bytenot", 0, 0),
    (1, "TIM-VCOCAL-V0"): ("len", 1), (1, "TIM-VCOCAL"): ("lennot", 1),
    (1, "CFG-DAT-NUM"): ("len", 2), (1, "CFG-DAT"): ("lennot", 2),
    (0, "SEC-SIG-V1"): ("byte", 0, 1), (0, "SEC-SIG-V2"): ("bytenot", 0, 1),
    (0, "AID-ALPSRV-SEND"): ("byte", 1, 255), (0, "AID-ALPSRV-REQ"): ("bytenot", 1, 255),
}
# GET-mode RXM-PMP is served by the SET table through the variant selector
GET_VIA_SET = {"RXM-PMP-V0", "RXM-PMP-V1"}


def all_defs():
    """(mode, name, definition dict, key bytes) for every payload definition with a message id."""
    out = []
    for mode, tab in TABLES.items():
        for name, d in tab.items():
            k = key_for_def(name)
            if k is None:
                continue
            out.append((mode, name, d, k))
    return out


def attsiz(t):
    return -1 if t == "CH" else int(t[1:4])


def flat_size(d, counts=1):
    """payload size of a definition with every counted / variable group repeated `counts` times"""
    n = 0
    for k, v in d.items():
        if isinstance(v, tuple):
            if v[0] in BITF:
                n += attsiz(v[0])
            else:
                rep = v[0] if isinstance(v[0], int) else counts
                n += rep * flat_size(v[1], counts)
        else:
            t = v[0] if isinstance(v, list) else v
            n += 0 if t == "CH" else attsiz(t)
    return n


class Gen:
    """Structure-aware payload generator for one definition."""

    def __init__(self, rng, d, mode, name, key, count_choice, fill):
        self.rng, self.d, self.mode, self.name, self.key = rng, d, mode, name, key
        # int: repeats for every counted/variable group; tuple: one count per size attribute, in order of
        # declaration, cyclically (so that one group can be empty while a later one is not, and vice versa)
        self.count_seq = tuple(count_choice) if isinstance(count_choice, (tuple, list)) else (count_choice,)
        self.count_choice = self.count_seq[0]
        self.fill = fill                       # "zero" | "ones" | "random" | "edge"
        self.counts = {}                       # size attribute name -> chosen count
        self.overrides = {}                    # attribute base name -> raw integer to place in that field
        self._collect(d)

    def _collect(self, d):
        for k, v in d.items():
            if isinstance(v, tuple) and v[0] not in BITF:
                if isinstance(v[0], str) and v[0] != "None":
                    if v[0] not in self.counts:
                        self.counts[v[0]] = self.count_seq[len(self.counts) % len(self.count_seq)]
                self._collect(v[1])

    def rawint(self, nbytes, signed):
        bits = 8 * nbytes
        f = self.fill
        if f == "zero":
            return 0
        if f == "ones":
            return (1 << bits) - 1
        if f == "sync":     # the UBX sync characters inside the payload
            self._syncn = getattr(self, "_syncn", 0) + 1
            pat = (b"\xb5\x62" * nbytes)[:nbytes] if nbytes > 1 else (b"\xb5" if self._syncn % 2 else b"\x62")
            return int.from_bytes(pat, "little")
        if f == "edge":
            return self.rng.choice([0, 1, (1 << (bits - 1)) - 1, 1 << (bits - 1), (1 << bits) - 1, (1 << bits) - 2])
        return self.rng.getrandbits(bits)

    def field(self, name, t):
        if t == "CH":
            n = self.rng.randrange(0, 12)
            return bytes(self.rng.choice(b"abc XYZ09\xc3\xa9\xff") for _ in range(n))
        n = attsiz(t)
        c = t[0]
        if name in self.overrides and name not in self.counts and c in "UEILX":
            return (self.overrides[name] & ((1 << (8 * n)) - 1)).to_bytes(n, "little")
        if name in self.counts and c in "UEIL":
            mx = (1 << (8 * n)) - 1
            return min(self.counts[name], mx).to_bytes(n, "little")
        if c == "R":
            if self.fill in ("zero",):
                return bytes(n)
            if self.fill == "ones":
                return b"\xff" * n
            v = self.rng.choice([0.0, -0.0, 1.5, -2.25, 1e-7, 123456.789, 3.4e38, 1e-45, float("inf")])
            if self.rng.random() < 0.5:
                return bytes(self.rng.getrandbits(8) for _ in range(n))
            try:
                return struct.pack("<f" if n == 4 else "<d", v)
            except OverflowError:
                return bytes(n)
        return self.rawint(n, c == "I").to_bytes(n, "little")

    def bitfield(self, t, flags):
        n = attsiz(t)
        v = self.rawint(n, False)
        off = 0
        for fk, ft in flags.items():
            w = attsiz(ft)
            if fk in self.counts:
                v &= ~(((1 << w) - 1) << off)
                v |= (min(self.counts[fk], (1 << w) - 1)) << off
            elif fk in self.overrides:
                v &= ~(((1 << w) - 1) << off)
                v |= (self.overrides[fk] & ((1 << w) - 1)) << off
            off += w
        return v.to_bytes(n, "little")

    def emit(self, d, top=True):
        out = b""
        for k, v in d.items():
            if isinstance(v, tuple):
                if v[0] in BITF:
                    out += self.bitfield(v[0], v[1])
                else:
                    if isinstance(v[0], int):
                        rep = v[0]
                    elif v[0] == "None":
                        rep = self.count_choice
                    else:
                        rep = self.counts.get(v[0], 0)
                        if self.key[0:2] == b"\x10\x02" and self.mode == 1 and self.calib:
                            rep += 1
                    for _ in range(rep):
                        out += self.emit(v[1], False)
            else:
                t = v[0] if isinstance(v, list) else v
                out += self.field(k, t)
        return out

    def payload(self):
        self.calib = False
        p = self.emit(self.d)
        # ESF-MEAS SET: calibTtagValid (bit 3 of flags) adds one more group member
        if self.key[0:2] == b"\x10\x02" and self.mode == 1 and len(p) >= 6:
            self.calib = bool(p[4] & 0x08)
            if self.calib:
                p = self.emit_fixed(p)
        p = bytearray(p)
        # discriminators
        if len(self.key) == 3 and p:
            p[0] = self.key[2]
        rule = VARIANT_RULES.get((self.mode, self.name))
        if self.name in GET_VIA_SET:
            rule = VARIANT_RULES.get((1, self.name))
        if rule:
            if rule[0] == "byte" and len(p) > rule[1]:
                p[rule[1]] = rule[2]
            elif rule[0] == "bytenot" and len(p) > rule[1] and p[rule[1]] == rule[2]:
                p[rule[1]] = (rule[2] + 1) % 256
        # TIM-VCOCAL SET: type 0 is the 1-byte "stop calibration" form, any other type the full form
        if self.mode == 1 and self.name == "TIM-VCOCAL-V0" and p:
            p[0] = 0
        if self.mode == 1 and self.name == "TIM-VCOCAL" and p and p[0] == 0:
            p[0] = 2
        return bytes(p)

    def emit_fixed(self, p):
        # regenerate with the same leading bytes but one more repeat (payload prefix kept)
        q = self.emit(self.d)
        return p[:8] + q[8:] if len(q) > 8 else q

    def satisfies_variant(self, p):
        rule = VARIANT_RULES.get((self.mode, self.name))
        if self.name in GET_VIA_SET:
            rule = VARIANT_RULES.get((1, self.name))
        if not rule:
            return True
        if rule[0] == "len":
            return len(p) == rule[1]
        if rule[0] == "lennot":
            return len(p) != rule[1]
        if rule[0] == "lennotin":
            return len(p) not in rule[1]
        if rule[0] == "byte":
            return len(p) > rule[1] and p[rule[1]] == rule[2]
        if rule[0] == "bytenot":
            return not (len(p) > rule[1] and p[rule[1]] == rule[2])
        return True


# ---------------------------------------------------------------------------------------------
# independent spec decoder
# ---------------------------------------------------------------------------------------------

class SpecError(Exception):
    pass


def dec_scalar(b, t):
    c = t[0]
    if t == "CH":
        return b.decode("utf-8", "backslashreplace")
    n = attsiz(t)
    if len(b) != n:
        raise SpecError("short field")
    if c in "UEL":
        return sum(x << (8 * i) for i, x in enumerate(b))
    if c == "I":
        u = sum(x << (8 * i) for i, x in enumerate(b))
        return u - (1 << (8 * n)) if u >> (8 * n - 1) else u
    if c in "XC":
        return bytes(b)
    if c == "R":
        return struct.unpack("<f" if n == 4 else "<d", bytes(b))[0]
    if c == "A":
        return list(b)
    raise SpecError("type " + t)


def suffix(idx):
    return "".join("_%02d" % i for i in idx)


def decode_spec(d, payload, bf, key, mode):
    """Expected ordered attribute list [(name, value)] for a payload laid out per definition d."""
    out = []
    vals = {}
    pos = [0]

    def put(n, v):
        if n in vals:
            for i, (k, _) in enumerate(out):
                if k == n:
                    out[i] = (n, v)
        else:
            out.append((n, v))
        vals[n] = v

    def walk(dd, idx, top):
        items = list(dd.items())
        for k, v in items:
            if isinstance(v, tuple):
                if v[0] in BITF:
                    n = attsiz(v[0])
                    raw = payload[pos[0]:pos[0] + n]
                    if len(raw) != n:
                        raise SpecError("short bitfield")
                    if bf:
                        x = sum(b << (8 * i) for i, b in enumerate(raw))
                        off = 0
                        for fk, ft in v[1].items():
                            w = attsiz(ft)
                            if not fk.startswith("reserved"):
                                put(fk + suffix(idx), (x >> off) & ((1 << w) - 1))
                            off += w
                    else:
                        put(k + suffix(idx), bytes(raw))
                    pos[0] += n
                else:
                    if isinstance(v[0], int):
                        rep = v[0]
                    elif v[0] == "None":
                        sz = flat_size(v[1])
                        rep = (len(payload) - pos[0]) // sz if sz else 0
                    else:
                        rep = vals[v[0]]
                        if key[0:2] == b"\x10\x02" and mode == 1 and vals.get("calibTtagValid", 0):
                            rep += 1
                    for i in range(rep):
                        walk(v[1], idx + [i + 1], False)
            else:
                if isinstance(v, list):
                    t, sc = v
                else:
                    t, sc = v, 1
                if t == "CH":
                    raw = payload[pos[0]:]
                    n = len(payload)     # as coded: the offset advances by the whole payload length
                else:
                    n = attsiz(t)
                    raw = payload[pos[0]:pos[0] + n]
                val = dec_scalar(raw, t)
                if sc != 1:
                    val = round(val * sc, SCALROUND)
                name = k + suffix(idx)
                if name.startswith("_HP"):
                    put(name[3:], round(vals[name[3:]] + val, SCALROUND))
                else:
                    put(name, val)
                pos[0] += n
    walk(d, [], True)
    return out, pos[0]


def frame(key, payload):
    return gen.ubx_frame(key[0], key[1], payload)


import re as _re


def leaf_types(d, acc=None):
    """{attribute base name: (type string, scale or None)} for all leaves incl. raw bitfield names and flags"""
    acc = {} if acc is None else acc
    for k, v in d.items():
        if isinstance(v, tuple):
            if v[0] in BITF:
                acc[k] = (v[0], None)
                for fk, ft in v[1].items():
                    acc.setdefault(fk, ("FLAG" + ft[1:4], None))
            else:
                leaf_types(v[1], acc)
        elif isinstance(v, list):
            acc[k] = (v[0], v[1])
        else:
            acc[k] = (v, None)
    return acc


def base_name(attr):
    return _re.sub(r"(_\d\d+)+$", "", attr)


def def_for(key, mode, name=None):
    """the payload definition dict a (key, mode[, name]) refers to in the implementation's tables"""
    if name is not None and name in TABLES[mode]:
        return TABLES[mode][name]
    nm = UBX_MSGIDS.get(key)
    return TABLES[mode].get(nm)


def wrong_length_C(d, kw):
    """does kw supply a C-type attribute with a value whose byte length differs from the field size?"""
    lt = leaf_types(d)
    for k, v in kw.items():
        t = lt.get(base_name(k))
        if t and t[0] != "CH" and t[0][0] == "C" and isinstance(v, (bytes, str)):
            n = len(v.encode("utf-8", "backslashreplace")) if isinstance(v, str) else len(v)
            if n != int(t[0][1:4]):
                return True
    return False


def has_bitfield(d):
    """Does the definition contain a bitfield (at any depth)?"""
    for v in d.values():
        if isinstance(v, tuple) and isinstance(v[1], dict):
            if isinstance(v[0], str) and v[0] in BITF:
                return True
            if has_bitfield(v[1]):
                return True
    return False

import subprocess, json, os, sys
WT="/tmp/wt_dev"
def sh(c, **k): return subprocess.run(c, shell=True, stdout=subprocess.PIPE, stderr=subprocess.STDOUT, **k).stdout.decode()
MUTS=[("m1 getinputmode ==8 -> ==9","src/pyubx2/ubxhelpers.py","len(data) == 8","len(data) == 9"),
("m2 calc_checksum check_b += char","src/pyubx2/ubxhelpers.py","check_b += check_a","check_b += char"),
("m3 parse lenb slice","src/pyubx2/ubxreader.py","lenb = message[4:6]","lenb = message[4:5]"),
("m4 _get_dict 0x13->0x12","src/pyubx2/ubxmessage.py","if variant and msg[0] == 0x13:","if variant and msg[0] == 0x12:"),
("m5 identity payload[0:1]->[1:2]","src/pyubx2/ubxmessage.py","self._ubxClass + self._ubxID + payload[0:1]","self._ubxClass + self._ubxID + payload[1:2]"),
("m6 _read_bytes < -> <=","src/pyubx2/ubxreader.py","if 0 < len(data) < size:","if 0 < len(data) <= size:"),
("m7 rtcm3 << 8 -> << 7","src/pyubx2/ubxreader.py","size = hdr3[0] | (hdr[1] << 8)","size = hdr3[0] | (hdr[1] << 7)"),
("m8 read mask ~0x03 -> ~0x07","src/pyubx2/ubxreader.py","(byte2[0] & ~0x03) == 0","(byte2[0] & ~0x07) == 0"),
("m9 _do_error ERR_LOG -> ERR_IGNORE","src/pyubx2/ubxreader.py","if self._quitonerror == ERR_LOG:","if self._quitonerror == ERR_IGNORE:"),
("m11 read rtcm test and -> or","src/pyubx2/ubxreader.py",'elif byte1 == b"\\xd3" and (byte2[0] & ~0x03) == 0:','elif byte1 == b"\\xd3" or (byte2[0] & ~0x03) == 0:'),
("m13 rxmpmreq lpd == 16 -> == 15","src/pyubx2/ubxvariants.py","    if lpd == 16:","    if lpd == 15:"),
("m10 serialize order","src/pyubx2/ubxmessage.py","            + self._ubxID\n            + self._length","            + self._length\n            + self._ubxID"),
]
out=[]
if len(sys.argv)>1: MUTS=[m for m in MUTS if m[0].split()[0] in sys.argv[1:]]
for name,f,a,b in MUTS:
    sh("git -C %s checkout -q -- ."%WT)
    p=os.path.join(WT,f); s=open(p,newline='').read(); crlf="\r\n" in s; t=s.replace("\r\n","\n")
    if a not in t: out.append((name,"PATTERN NOT FOUND")); print(out[-1],flush=True); continue
    t=t.replace(a,b,1); t=t.replace("\n","\r\n") if crlf else t; open(p,'w',newline='').write(t)
    o=sh("cd /tmp/vdev && VERIF_REPO=%s timeout 3000 /venv/bin/python harness/setup.py 2>&1 | tail -3"%WT)
    rep=json.load(open('/tmp/vdev/coq/gen/translate_report.json'))
    line=[l for l in o.splitlines() if l.startswith("build ok")]
    out.append((name, line[-1] if line else o[-200:], rep.get("restructured"), {**rep.get("py2coq",{}).get("untranslated",{}), **rep.get("py2coq_io",{}).get("untranslated",{})}))
    print(out[-1],flush=True)
sh("git -C %s checkout -q -- ."%WT)

#!/venv/bin/python
"""setup: build the whole framework from files on disk (offline): regenerate gen/*.v from /repo,
build the Coq development, extract and compile the OCaml driver."""
import os
import sys

sys.path.insert(0, os.path.dirname(os.path.abspath(__file__)))
import common  # noqa: E402

common.ensure_env()
b = common.build()
print(b.log[-3000:])
print("build ok=%s driver=%s failed=%s wall=%.1fs" % (b.ok, b.driver_ok, b.failed, b.wall))
sys.exit(0 if (b.ok and b.driver_ok) else 1)

#!/usr/bin/env python3
"""seedrun.py <seed-dir> <property> [...] — apply a recorded seeded patch to /repo, run quick checks, undo; update meta.json"""
import json, os, subprocess, sys, time
VERIF = os.path.dirname(os.path.dirname(os.path.abspath(__file__)))
d = os.path.abspath(sys.argv[1].rstrip("/"))
props = sys.argv[2:]
def sh(c, cwd=None):
    p = subprocess.run(c, shell=True, cwd=cwd, stdout=subprocess.PIPE, stderr=subprocess.STDOUT)
    return p.returncode, p.stdout.decode("utf-8", "replace")
rc, st = sh("git -C /repo status --porcelain --untracked-files=no"); assert not st.strip(), "/repo dirty"
rc, o = sh("git -C /repo apply %s/patch.diff" % d); assert rc == 0, o
meta = json.load(open(d + "/meta.json"))
try:
    for p in props:
        t0 = time.time()
        rc, o = sh("/venv/bin/python harness/check.py %s quick" % p, cwd=VERIF)
        lines = [l for l in o.splitlines() if l.startswith(("VIOLATION", "OK "))]
        ent = {"check": p, "tier": "quick", "exit": rc, "wall_s": round(time.time() - t0, 1), "lines": [l[:300] for l in lines], "rerun": True}
        for l in lines:
            if l.startswith("VIOLATION") and "replay=" in l:
                rp = l.split("replay=")[1].split()[0]
                if os.path.exists(rp):
                    r = json.load(open(rp)); ent["replay_kind"] = r.get("kind"); ent["replay_what"] = r.get("what"); ent["replay_input"] = str(r.get("input"))[:400]
                    break
        meta["ran"] = [x for x in meta["ran"] if x["check"] != p] + [ent]
        print(p, "exit", rc, ent.get("replay_kind"), ent.get("replay_what"))
finally:
    sh("git -C /repo checkout -- .")
meta["detected_by"] = [r["check"] for r in meta["ran"] if r["exit"] != 0]
json.dump(meta, open(d + "/meta.json", "w"), indent=1)

#!/usr/bin/env python3
"""lanes.py <jobs.json> [nlanes]

Development tool (not a registered check): run seed drills / harmless-rewrite drills side by side without touching /repo.
Each lane owns a copy of /verif (rsync, build output included) and runs checks from it with VERIF_REPO pointing at a
scratch worktree that has the change applied.

jobs.json: [{"kind": "seed", "wt": "/tmp/wt4_c01", "id": "S55-...", "props": ["C01", "C02"]},
            {"kind": "harmless", "wt": "/tmp/wt_h01", "id": "H01", "props": ["C01", ...]}]
Results: seeds -> /verif/seeded/<id>/meta.json (via seedtest.py);  harmless -> /verif/_work/harmless_<id>.json
"""
import json
import os
import queue
import subprocess
import sys
import threading

VERIF = os.path.dirname(os.path.dirname(os.path.abspath(__file__)))


def sh(cmd, cwd=None, env=None, timeout=7200):
    p = subprocess.run(cmd, shell=True, cwd=cwd, env=env, stdout=subprocess.PIPE, stderr=subprocess.STDOUT, timeout=timeout)
    return p.returncode, p.stdout.decode("utf-8", "replace")


def lane(k, q, out):
    copy = "/tmp/vlane%d" % (k + BASE)
    sh("rsync -a --delete --exclude .git --exclude _work --exclude 'replays/*' %s/ %s/" % (VERIF, copy))
    while True:
        try:
            job = q.get_nowait()
        except queue.Empty:
            return
        if job["kind"] == "seed":
            rc, o = sh("/venv/bin/python harness/seedtest.py %s %s %s" % (job["wt"], job["id"], " ".join(job["props"])),
                       cwd=VERIF, env=dict(os.environ, SEEDTEST_COPY=copy))
            tail = [l for l in o.splitlines() if l.startswith(("confirmed", "C"))][-6:]
            out.append((job["id"], tail))
            print("=== %s\n%s" % (job["id"], "\n".join(tail)), flush=True)
        else:
            res = {}
            for p in job["props"]:
                rc, o = sh("/venv/bin/python harness/check.py %s quick" % p, cwd=copy, env=dict(os.environ, VERIF_REPO=job["wt"]))
                lines = [l for l in o.splitlines() if l.startswith(("VIOLATION", "OK "))]
                res[p] = {"rc": rc, "lines": [l[:200] for l in lines]}
                if rc != 0:
                    rp = [l.split("replay=")[1].split()[0] for l in lines if "replay=" in l][:1]
                    if rp and os.path.exists(rp[0].replace(VERIF, copy, 1)):
                        r = json.load(open(rp[0].replace(VERIF, copy, 1)))
                        res[p]["replay"] = {k2: str(r.get(k2))[:600] for k2 in ("kind", "broken", "what", "input", "expected", "observed", "disagreements")}
            os.makedirs(os.path.join(VERIF, "_work"), exist_ok=True)
            json.dump(res, open(os.path.join(VERIF, "_work", "harmless_%s.json" % job["id"]), "w"), indent=1)
            bad = [p for p in res if res[p]["rc"] != 0]
            out.append((job["id"], bad))
            print("=== %s alarms: %s" % (job["id"], bad), flush=True)


BASE = 0


def main():
    global BASE
    jobs = json.load(open(sys.argv[1]))
    n = int(sys.argv[2]) if len(sys.argv) > 2 else 4
    BASE = int(sys.argv[3]) if len(sys.argv) > 3 else 0     # first lane number (several drills side by side)
    q = queue.Queue()
    for j in jobs:
        q.put(j)
    out = []
    ths = [threading.Thread(target=lane, args=(k, q, out)) for k in range(n)]
    for t in ths:
        t.start()
    for t in ths:
        t.join()
    print("ALLDONE")


if __name__ == "__main__":
    main()

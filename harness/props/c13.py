"""C13 — messages are immutable and parsing/generating has no side effects."""
import hashlib
import os
import tempfile
import threading

import pyubx2
import pyubx2.ubxtypes_configdb as cdb
import pyubx2.ubxtypes_core as core
from pyubx2 import UBXMessage, UBXReader
from pyubx2 import exceptions as ube
from pyubx2.ubxvariants import VARIANTS

import common
import gen
import impl
import msggen
import sweep

PROPFILES = ["props/C13.v", "props/C13_src.v"]
RULE = ("messages from parse and from all constructor routes x attribute names {each existing attribute, private "
        "(_payload,_immutable,_mode,_ubxClass,_length,_checksum), new, read-only properties} x {set, delete}: must raise "
        "UBXMessageError and leave serialize()/attributes unchanged; file-descriptor-level capture of stdout/stderr "
        "around parse/construct/serialize/str/repr of every definition; structural digest of the five table modules and "
        "VARIANTS before/after; a fixed probe set (PARSE/BUILD lines, compared with the model) re-evaluated after random "
        "operation histories and concurrently in 8 threads. non-trivial = distinct (message, name, op).")
ASSUMPTIONS = ["real thread interleavings are sampled, not enumerated; the all-interleavings argument is structural "
               "(no shared mutable state is written: digest check + purity of the model)"]


def digest_tables():
    h = hashlib.sha256()

    def walk(x):
        if isinstance(x, dict):
            h.update(b"{")
            for k, v in x.items():
                walk(k); walk(v)
            h.update(b"}")
        elif isinstance(x, (list, tuple)):
            h.update(b"[" if isinstance(x, list) else b"(")
            for v in x:
                walk(v)
            h.update(b"]")
        elif callable(x):
            h.update(("fn:" + getattr(x, "__name__", "?")).encode())
        else:
            h.update(repr((type(x).__name__, x)).encode())
    for t in (pyubx2.UBX_PAYLOADS_GET, pyubx2.UBX_PAYLOADS_SET, pyubx2.UBX_PAYLOADS_POLL, core.UBX_MSGIDS,
              core.UBX_CLASSES, core.ATTTYPE, cdb.UBX_CONFIG_DATABASE, cdb.UBX_CONFIG_STORSIZE, VARIANTS):
        walk(t)
    # every other piece of module-level or class-level data of the package (caches, memos, counters ...)
    import sys
    import types
    for mname in sorted(m for m in sys.modules if m == "pyubx2" or m.startswith("pyubx2.")):
        mod = sys.modules[mname]
        for k in sorted(vars(mod)):
            v = vars(mod)[k]
            if k.startswith("__") or isinstance(v, (types.ModuleType, types.FunctionType, type)) or callable(v):
                continue
            if isinstance(v, (dict, list, set, tuple, bytes, str, int, float, bool, bytearray, type(None))):
                h.update((mname + "." + k).encode())
                try:
                    walk(sorted(v) if isinstance(v, set) else v)
                except TypeError:
                    walk(repr(v))
    for cls in (pyubx2.UBXMessage, pyubx2.UBXReader, pyubx2.SocketWrapper):
        for k in sorted(vars(cls)):
            v = vars(cls)[k]
            if not k.startswith("__") and isinstance(v, (dict, list, set, tuple, bytes, str, int, float, bool)):
                h.update((cls.__name__ + "." + k).encode())
                walk(sorted(v) if isinstance(v, set) else v)
    return h.hexdigest()


class FdCapture:
    """capture everything written to file descriptors 1 and 2"""

    def __enter__(self):
        import sys
        sys.stdout.flush(); sys.stderr.flush()
        self.tmp = tempfile.TemporaryFile(dir=common.workdir())
        self.o1, self.o2 = os.dup(1), os.dup(2)
        os.dup2(self.tmp.fileno(), 1)
        os.dup2(self.tmp.fileno(), 2)
        return self

    def __exit__(self, *a):
        import sys
        sys.stdout.flush(); sys.stderr.flush()
        os.dup2(self.o1, 1); os.dup2(self.o2, 2)
        os.close(self.o1); os.close(self.o2)
        self.tmp.seek(0)
        self.data = self.tmp.read()
        self.tmp.close()


def order_independence(ctx):
    """All (mode, definition) probes evaluated in FRESH interpreters in three different orders: every result
    must be the same in each order, and equal to the (stateless) model's."""
    import json
    import subprocess
    rng = ctx.rng
    cmds = []
    for mode, name, d, key in msggen.all_defs():
        for cnt in (1, 2):
            g = msggen.Gen(rng, d, mode, name, key, cnt, "random")
            cmds.append("PARSE %d 1 1 %s" % (mode, msggen.frame(key, g.payload()).hex()))
        base = {"type": key[2]} if len(key) == 3 else {}
        nm = sweep.names_of(d, True)
        kw = dict(base)
        if nm:
            kw[nm[0]] = 0
        if kw:
            cmds.append(sweep.build_cmd(key, mode, True, kw))
    path = os.path.join(common.workdir(), "probes.txt")
    with open(path, "w") as f:
        f.write("\n".join(cmds) + "\n")
    runs = {}
    for seed in (0, -1, 1 + ctx.seed):
        p = subprocess.run([common.PY, os.path.join(common.VERIF, "harness", "probe_runner.py"), path, str(seed)],
                           stdout=subprocess.PIPE, stderr=subprocess.PIPE, timeout=900)
        try:
            runs[seed] = json.loads(p.stdout.decode())
        except Exception:  # pylint: disable=broad-except
            ctx.notes.append("probe_runner failed: " + p.stderr.decode()[-500:])
            ctx.disagreements.append({"cmd": "<probe_runner>", "model": "", "impl": "failed", "label": "PROBE"})
            return
    ref = runs[0]
    for seed, r in runs.items():
        for i, c in enumerate(cmds):
            if r[str(i)] != ref[str(i)]:
                ctx.fail("order-dependent", {"cmd": c[:400], "order_seed": seed},
                         "the same result whatever was processed before", "differs between processing orders: %s | %s" % (ref[str(i)][:150], r[str(i)][:150]))
                break
    ctx.evaluations += 3 * len(cmds)
    ctx.count("order_probes", len(cmds))
    # and against the model
    try:
        mout = common.run_model(cmds, shards=16)
    except Exception as e:  # pylint: disable=broad-except
        ctx.notes.append("model not runnable: %r" % (e,))
        return
    for i, (c, mo) in enumerate(zip(cmds, mout)):
        if mo == "RAISE Other":
            continue
        a = impl.canon_model_line(mo)
        for seed, r in runs.items():
            if r[str(i)] != a:
                ctx.disagreements.append({"cmd": c[:2000], "model": mo[:1000], "impl": r[str(i)][:1000], "label": "PROBE-ORDER"})
                break


def sample_messages(ctx):
    rng = ctx.rng
    out = []
    defs = msggen.all_defs()
    pick = defs if not ctx.quick() else rng.sample(defs, 120)
    if ctx.quick():
        # message families with code of their own (variant selectors, special cases in the walk): always present
        vkeys = {k for tab in VARIANTS.values() for k in tab}
        special = [x for x in defs if x[3][0:2] in vkeys or x[3][0:2] in (b"\x10\x02", b"\x13\x80", b"\x0a\x31", b"\x02\x73")]
        pick = pick + [x for x in special if x not in pick]
    for mode, name, d, key in pick:
        g = msggen.Gen(rng, d, mode, name, key, 1, "random")
        if key[0:2] == b"\x10\x02":
            g.overrides["calibTtagValid"] = len(out) % 2        # ESF-MEAS: both settings of the flag that adds a member
        p = g.payload()
        f = msggen.frame(key, p)
        out.append(("parse", f, mode))
        out.append(("payload", key, mode, p))
        # payloads that do not fit the definition exactly (a trailing fragment of a group, a missing tail): diagnostics
        # on such frames are side effects too
        for q in (p + bytes(rng.randrange(1, 6)), p + b"\x01" * 17, p[:-1] if p else p):
            if len(q) != len(p) and len(q) < 65536:
                out.append(("parse", msggen.frame(key, q), mode))
        base = {"type": key[2]} if len(key) == 3 else {}
        nm = sweep.names_of(d, True)
        kw = dict(base)
        if nm:
            kw[nm[0]] = 0
        if kw:
            out.append(("kw", key, mode, kw))
        out.append(("none", key, mode))
    # code paths that consult or extend shared tables: configuration key/value lists with documented and
    # undocumented key ids (every size code), in parse and in construction
    for cid, mode in ((0x8b, 0), (0x8a, 1)):
        for code, n in ((1, 1), (2, 1), (3, 2), (4, 4), (5, 8)):
            kid = (code << 28) | 0x0990099
            body = bytes([0, 1, 0, 0]) + kid.to_bytes(4, "little") + bytes(range(1, n + 1)) + (0x20910005).to_bytes(4, "little") + b"\x01"
            out.append(("parse", gen.ubx_frame(6, cid, body), mode))
            out.append(("payload", bytes([6, cid]), mode, body))
    out.append(("payload", b"\x06\x31", 2, b"\x00"))          # CFG-TP5 POLL (former debug print)
    out.append(("kw", b"\x06\x31", 2, {"tpIdx": 1}))
    return out


def make(spec):
    if spec[0] == "parse":
        return UBXReader.parse(spec[1], msgmode=spec[2])
    if spec[0] == "payload":
        return UBXMessage(spec[1][0:1], spec[1][1:2], spec[2], payload=spec[3])
    if spec[0] == "kw":
        return UBXMessage(spec[1][0:1], spec[1][1:2], spec[2], **spec[3])
    return UBXMessage(spec[1][0:1], spec[1][1:2], spec[2])


def run(ctx):
    rng = ctx.rng
    d0 = digest_tables()
    specs = sample_messages(ctx)
    # ---- no output at fd level, immutability ----
    nmsg = 0
    with FdCapture() as cap:
        msgs = []
        for sp in specs:
            try:
                m = make(sp)
            except (ube.UBXMessageError, ube.UBXTypeError, ube.UBXParseError):
                continue
            m.serialize(); str(m); repr(m); _ = (m.identity, m.length, m.payload, m.msgmode)
            msgs.append((sp, m))
    if cap.data:
        ctx.fail("output-written", {"op": "FDCAPTURE", "n": len(specs)}, "nothing on stdout/stderr", cap.data[:300].decode("utf-8", "replace"))
    src_names = source_names()
    ctx.count("attribute_names_taken_from_the_source", len(src_names))
    for sp, m in msgs:
        nmsg += 1
        before = (m.serialize(), dict(m.__dict__))
        pub = [k for k in m.__dict__ if not k.startswith("_")]
        names = pub[:3] + pub[-1:] + ["_payload", "_immutable", "_mode", "_ubxClass", "_ubxID", "_length", "_checksum",
                                      "brand_new", "payload", "identity", "length"]
        if nmsg % 7 == 1:
            names += src_names      # every identifier-like string / attribute name the class's source mentions
        for nm in names:
            for op in ("set", "del"):
                ctx.evaluations += 1
                key = (sp[0], nm, op)
                ctx.nontrivial.add(hash((nmsg, nm, op)))
                try:
                    if op == "set":
                        setattr(m, nm, 1)
                    else:
                        delattr(m, nm)
                    ctx.fail("mutation-allowed", {"op": op, "name": nm, "msg": repr(m)[:120]}, "UBXMessageError", "no exception")
                except ube.UBXMessageError:
                    pass
                except Exception as e:  # pylint: disable=broad-except
                    ctx.fail("mutation-wrong-exception", {"op": op, "name": nm, "msg": repr(m)[:120]}, "UBXMessageError", type(e).__name__)
                after = (m.serialize() if "_payload" in m.__dict__ else None, dict(m.__dict__))
                if after != before:
                    ctx.fail("state-changed", {"op": op, "name": nm, "msg": repr(before[0])[:120]}, "unchanged", "changed")
                    break
    ctx.count("messages", nmsg)
    # ---- probes: model correspondence, history independence, threads ----
    probes = []
    for sp in specs[:: (3 if ctx.quick() else 1)]:
        if sp[0] == "parse":
            probes.append("PARSE %d 1 1 %s" % (sp[2], sp[1].hex()))
        elif sp[0] == "kw":
            probes.append(sweep.build_cmd(sp[1], sp[2], True, sp[3]))
        elif sp[0] == "payload":
            probes.append("CONSTRUCT %s %s %d 1 PAYLOAD %s" % (sp[1][0:1].hex(), sp[1][1:2].hex(), sp[2], gen.hx(sp[3])))
    # mode resolution under SETPOLL of the short polls and of other 9/10-byte frames (in this order, then reversed)
    for k2, pl in ((b"\x06\x00", b"\x01"), (b"\x06\x01", b"\x01\x07"), (b"\x06\x02", b"\x00"), (b"\x06\x31", b"\x00"),
                   (b"\x06\x3e", b"\x00\x00"), (b"\x06\x01", b"\xf0\x00"), (b"\x06\x00", b"\x03"), (b"\x06\x31", b"\x01")):
        probes.append("PARSE 3 1 1 " + gen.ubx_frame(k2[0], k2[1], pl).hex())
    probes += [p for p in reversed(probes[-8:])]
    # values that are equal as Python objects but not as encodings, one after the other (both signs of zero, int and
    # float zero, in a keyword-built message and in config_set): what was encoded before must not matter
    for z in (0.0, -0.0, 0, -0.0, 0.0):
        probes.append(sweep.build_cmd(b"\x06\x06", 1, True, {"majA": z, "rotX": z}))        # CFG-DAT (R8, R4)
        probes.append("CFGSET 1 0 CFG_NAVSPG_USRDAT_ROTX=%s CFG_NAVSPG_USRDAT_MAJA=%s" % (impl.show_val(z), impl.show_val(z)))
    # lookups that must keep failing / keep their answer whatever was parsed before
    for code in (1, 2, 3, 4, 5):
        probes.append("CFGNAME2KEY CFG_0x%x" % ((code << 28) | 0x0990099))
        probes.append("CFGKEY2NAME %x" % ((code << 28) | 0x0990099))
    ctx.correspond(probes, canon=lambda c, l: impl.canon_model_line(l), nontrivial=lambda c, o: o.startswith("OK"), label="PROBE")
    ctx.disagreements = [d for d in ctx.disagreements if d["model"] != "RAISE Other"]
    fresh = [impl.impl_exec(c) for c in probes]

    def history(r, n):
        for _ in range(n):
            sp = r.choice(specs)
            try:
                with impl.quiet():
                    m = make(sp)
                    m.serialize(); str(m)
            except Exception:  # pylint: disable=broad-except
                pass
            if r.random() < 0.1:
                impl.impl_exec("PARSE 0 1 1 " + bytes(r.randrange(256) for _ in range(r.randrange(0, 30))).hex())

    import random
    for hno in range(5 if ctx.quick() else 50):
        history(random.Random(ctx.seed * 977 + hno), 40)
        again = [impl.impl_exec(c) for c in probes[hno:: 5]]
        if again != fresh[hno:: 5]:
            bad = [c for c, a, b in zip(probes[hno::5], again, fresh[hno::5]) if a != b][0]
            ctx.fail("history-dependent", {"cmd": bad[:300], "history": hno}, "same result as in a fresh state", "differs")
    results = {}

    def worker(t):
        r = random.Random(ctx.seed * 131 + t)
        out = []
        for i, c in enumerate(probes):
            if i % 8 == t % 8 or True:
                out.append(impl.impl_exec(c))
            if i % 5 == 0:
                history(r, 2)
        results[t] = out
    ths = [threading.Thread(target=worker, args=(t,)) for t in range(8)]
    for t in ths:
        t.start()
    for t in ths:
        t.join()
    for t, out in results.items():
        if out != fresh:
            bad = [c for c, a, b in zip(probes, out, fresh) if a != b][0]
            ctx.fail("thread-dependent", {"cmd": bad[:300], "thread": t}, "same result as single-threaded", "differs")
    ctx.evaluations += 8 * len(probes)
    order_independence(ctx)
    if digest_tables() != d0:
        ctx.fail("tables-mutated", {"op": "DIGEST"}, "tables unchanged", "digest differs")


def source_names():
    """Identifier-like string constants and attribute names that occur in ubxmessage.py: a name the code treats
    specially has to be written there."""
    import ast
    import re
    import pyubx2.ubxmessage as um
    out = set()
    try:
        tree = ast.parse(open(um.__file__, encoding="utf-8").read())
    except (OSError, SyntaxError):
        return []
    for n in ast.walk(tree):
        if isinstance(n, ast.Constant) and isinstance(n.value, str) and re.fullmatch(r"[A-Za-z_][A-Za-z0-9_]{0,30}", n.value):
            out.add(n.value)
        elif isinstance(n, ast.Attribute):
            out.add(n.attr)
    return sorted(out)[:400]

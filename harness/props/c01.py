"""C01 — parsing then serializing a UBX frame reproduces it byte for byte."""
from pyubx2 import GET, POLL, SET, UBX_MSGIDS, UBXMessage, UBXReader  # noqa: F401 (eval(repr) needs the names)

import gen
import impl
import msggen

PROPFILES = ["props/C01.v", "props/C01_src.v"]
RULE = ("well-formed frames: every message id x msgmode{GET,SET,POLL,SETPOLL} x parsebitfield x payload lengths "
        "{0,1,2,definition-1,definition,definition+1,+7, 64,300} x fills, sentinel bytes (00 20 0a 0d ff) at either end of the payload in the definition's own mode, payloads containing pieces of the repr()/str() syntax itself or the protocols' sync bytes, frames whose checksum bytes are CR LF / sync bytes / quotes, serialize() and repr() called repeatedly, structure-aware conforming payloads, unknown "
        "class/ids (thorough: all 65536 x lengths 0..2); PARSE and PARSERT (eval(repr)) correspondence + search on the "
        "implementation: serialize()==input, msg_cls/msg_id/length/payload == frame fields, eval(repr(m)).serialize() "
        "== input. non-trivial = distinct accepted frames.")
ASSUMPTIONS = ["Python's repr(bytes)/eval text round trip is not modelled (the model's repr is the argument tuple); "
               "it is exercised on every accepted case"]


def frames(ctx):
    rng = ctx.rng
    out = []
    defs = msggen.all_defs()
    for mode, name, d, key in defs:
        nom = msggen.flat_size(d, 1)
        lens = sorted(set([0, 1, 2, max(nom - 1, 0), nom, nom + 1, nom + 7] + ([64, 300] if not ctx.quick() else [])))
        for L in lens:
            for fill in ((None,) if ctx.quick() else (0, 0xff, None)):
                pl = bytes(rng.randrange(256) for _ in range(L)) if fill is None else bytes([fill]) * L
                if len(key) == 3 and L:
                    pl = key[2:3] + pl[1:]
                out.append((key, pl))
        # content-sensitive handling (stripping, decoding, terminators): sentinel bytes at either end of the payload,
        # parsed in the definition's own mode (a frame is otherwise parsed in a rotating mode)
        for L in sorted(set([2, nom + 1] if ctx.quick() else [1, 2, 7, nom, nom + 1]) - {0}):
            body = bytes(rng.randrange(1, 256) for _ in range(L))
            for sent in ((0x00, 0x20) if ctx.quick() else (0x00, 0x20, 0x0a, 0x0d, 0xff)):
                for pl in ((body[:-1] + bytes([sent]), bytes([sent]) + body[1:]) if ctx.quick() else
                           (body[:-1] + bytes([sent]), bytes([sent]) + body[1:], bytes([sent]) * L)):
                    if len(key) == 3 and L:
                        pl = key[2:3] + pl[1:]
                    out.append((key, pl, mode))
        for cnt in ((1,) if ctx.quick() else (0, 1, 3)):
            g = msggen.Gen(rng, d, mode, name, key, cnt, "random")
            out.append((key, g.payload(), mode))
    if ctx.quick():
        for _ in range(600):
            out.append((bytes([rng.randrange(256), rng.randrange(256)]), bytes(rng.randrange(256) for _ in range(rng.choice([0, 1, 2, 5, 40])))))
    else:
        for c in range(256):
            for i in range(256):
                for L in (0, 1, 2):
                    out.append((bytes([c, i]), bytes(rng.randrange(256) for _ in range(L))))
        ctx.exhaustive_parts.append("all 65536 class/id pairs x payload lengths 0..2")
    # payloads that contain pieces of the message's own repr()/str() syntax (text-level post-processing of repr must
    # not touch the bytes literal), quotes, backslashes, newlines
    toks = [b", payload=None", b", parsebitfield=True", b", parsebitfield=False", b"UBXMessage(", b"payload=b'", b"')", b"\\x00",
            b"'", b'"', b"\\", b"\r\n", b"<UBX(", b")>", b"b'", b", "]
    for key, mode in ((b"\x04\x02", 0), (b"\x04\x04", 0), (b"\x77\x01", 0), (b"\x05\x01", 0), (b"\x06\x01", 1), (b"\x0a\x04", 0)):
        for t in toks:
            for pl in (t, b"ab" + t + b"cd", t + t, b"x" * 7 + t):
                out.append((key, pl, mode))
    # payloads holding the protocols' own sync / terminator bytes
    for key, mode in ((b"\x06\x08", 1), (b"\x01\x02", 0), (b"\x06\x01", 1), (b"\x06\x01", 2), (b"\x77\x01", 0), (b"\x06\x8a", 1)):
        for t in (b"\xb5\x62", b"\x24\x47", b"\xd3\x00", b"\r\n"):
            for pl in (t * 3, b"\x00" + t * 2 + b"\x01", t + bytes(4), bytes(4) + t):
                out.append((key, pl, mode))
    # a maximal-length payload
    out.append((b"\x77\x01", bytes(65535)))
    return out


def run(ctx):
    rng = ctx.rng
    fr = frames(ctx)
    cmds = []
    cases = []
    special = []
    for key in (b"\x06\x08", b"\x01\x02", b"\x77\x01"):
        for tgt in gen.SPECIAL_CHECKSUMS:
            f = gen.frame_with_checksum(key[0], key[1], tgt, rng)
            if f:
                special.append(f)
    ctx.count("frames_with_special_checksum_bytes", len(special))
    for n, item in enumerate(fr + [("raw", f) for f in special]):
        if item[0] == "raw":
            key, pl = item[1][2:4], item[1][6:-2]
        else:
            key, pl = item[0], item[1]
        f = gen.ubx_frame(key[0], key[1], pl)
        mode = item[2] if len(item) > 2 and n % 5 else n % 4
        bf = (n // 4) % 2
        val = 1 if n % 7 else 0
        cases.append((f, mode, bf, val))
        cmds.append("PARSE %d %d %d %s" % (mode, val, bf, f.hex()))
        if n % 3 == 0:
            cmds.append("PARSERT %d %d %d %s" % (mode, val, bf, f.hex()))
    declined = lambda c, o: None
    res = ctx.correspond(cmds, canon=lambda c, l: impl.canon_model_line(l) if not l.startswith("RAISE Other") else l,
                         nontrivial=lambda c, o: o.startswith("OK"), label="PARSE")
    # model declines (group count above its budget) are not disagreements
    ctx.disagreements = [d for d in ctx.disagreements if d["model"] != "RAISE Other"]
    # ---- search on the implementation ----
    for f, mode, bf, val in cases:
        try:
            with impl.quiet():
                m = UBXReader.parse(f, msgmode=mode, validate=val, parsebitfield=bf)
        except Exception:
            continue
        inp = {"op": "PARSE", "hex": f.hex() if len(f) < 400 else f[:40].hex() + "...", "mode": mode, "bf": bf, "validate": val}
        plen = len(f) - 8
        ser = m.serialize()
        if m.serialize() != ser or m.serialize() != ser or repr(m) != repr(m):
            ctx.fail("serialize-not-repeatable", inp, ser[:64].hex(), m.serialize()[:64].hex())
            continue
        if ser != f:
            ctx.fail("serialize-differs", inp, f[:64].hex(), ser[:64].hex())
            continue
        if m.msg_cls != f[2:3] or m.msg_id != f[3:4] or m.length != plen or (m.payload or b"") != f[6:-2]:
            ctx.fail("fields-differ", inp, "cls/id/length/payload of the frame", repr((m.msg_cls, m.msg_id, m.length)))
        if (m.payload is None) != (plen == 0):
            ctx.fail("payload-none", inp, "None iff empty", repr(m.payload)[:40])
        try:
            with impl.quiet():
                m2 = eval(repr(m))  # pylint: disable=eval-used
            if m2.serialize() != f:
                ctx.fail("repr-roundtrip-differs", inp, f[:64].hex(), m2.serialize()[:64].hex())
        except Exception as e:  # pylint: disable=broad-except
            ctx.fail("repr-eval-raises", inp, "a message", type(e).__name__)

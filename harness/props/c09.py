"""C09 — a stream cut at any byte yields a prefix of the uncut stream's output."""
import readerlib as rl
import readerprops as rp

PROPFILES = ["props/C09.v"]
ASSUMPTIONS = rp.ASSUMPTIONS
TRUSTED = rp.TRUSTED
RULE = ("streams (clean frame sequences with noise, and garbage) x EVERY cut position 0..len x quitonerror{0,1} x "
        "random protfilter/parsing; READ correspondence on every cut run + search on the implementation: items of "
        "the cut run are a prefix of the uncut run's items (raw and str(parsed)), no exception, nothing unread; for "
        "clean streams every frame lying wholly before the cut is delivered. non-trivial = cut runs with >=1 item.")


def run(ctx):
    rng = ctx.rng
    streams = []
    for _ in range(25 if ctx.quick() else 150):
        parts = rl.clean_stream(rng, k=rng.randrange(1, 5))
        streams.append((parts, b"".join(f for _, f in parts)))
    for _ in range(25 if ctx.quick() else 150):
        streams.append((None, rl.garbage_stream(rng)))
    # zero-length RTCM3 in the middle (the former premature-EOF defect)
    pool = dict((k, f) for k, f in rl.frame_pool())
    parts = [("ubx", pool["ubx"]), ("rtcm0", pool["rtcm0"]), ("nmea", pool["nmea"]), ("ubx0", pool["ubx0"])]
    streams.append((parts, b"".join(f for _, f in parts)))
    seen = set()
    streams = [(pt, st) for pt, st in streams if not (st in seen or seen.add(st))]      # one configuration per distinct stream
    cases = []
    for parts, s in streams:
        if len(s) > (160 if ctx.quick() else 400):
            continue
        pf = 7 if rng.random() < 0.6 else rng.randrange(8)
        qe = rng.randrange(2)
        parsing = rng.random() < 0.8
        # the reader's other options, fixed per stream (so that cut runs compare with their own uncut run)
        val, mm, bfo = (1, 0, True) if rng.random() < 0.5 else (rng.randrange(2), rng.choice([0, 0, 1, 2, 3]), rng.random() < 0.5)
        for k in range(len(s) + 1):
            cases.append({"stream": s[:k], "pf": pf, "qe": qe, "parsing": parsing, "full": s, "k": k, "parts": parts,
                          "validate": val, "msgmode": mm, "bf": bfo})
    obs = rp.correspond_runs(ctx, cases, "READ")
    ctx.exhaustive_parts.append("every cut position of %d streams (%d cut runs)" % (len(streams), len(cases)))
    full = {}
    for c, o in zip(cases, obs):
        if c["k"] == len(c["full"]):
            full[(c["full"], c["pf"], c["qe"], c["parsing"])] = rp.items_key(o["items"])
    for c, o in zip(cases, obs):
        ref = full[(c["full"], c["pf"], c["qe"], c["parsing"])]
        got = rp.items_key(o["items"])
        inp = {"op": "READ", "stream": c["full"].hex(), "cut": c["k"], "pf": c["pf"], "qe": c["qe"], "parsing": c["parsing"],
               "validate": c["validate"], "msgmode": c["msgmode"], "parsebitfield": c["bf"]}
        if o["raised"] is not None:
            ctx.fail("cut-run-raised", inp, "ends without raising", o["raised"])
        elif got != ref[:len(got)]:
            ctx.fail("not-a-prefix", inp, [(r.hex(), p) for r, p in ref][:6], [(r.hex(), p) for r, p in got][:6])
        elif o["final"]:
            ctx.fail("cut-run-unread", inp, "nothing unread", o["final"].hex())
        elif c["parts"] is not None:
            # frames wholly before the cut
            pos = 0
            before = []
            for kind, f in c["parts"]:
                pos += len(f)
                if pos <= c["k"]:
                    before.append((kind, f))
            exp = rp.expected_clean(before, c["pf"], c["parsing"], c["validate"], c["msgmode"], c["bf"])
            if got[:len(exp)] != exp:
                ctx.fail("frame-before-cut-not-delivered", inp, [(r.hex(), p) for r, p in exp][:6],
                         [(r.hex(), p) for r, p in got][:6])
    socket_cuts(ctx, rng, streams, full)


def socket_cuts(ctx, rng, streams, full):
    """The cut stream arriving through a socket whose peer closes (or times out) at the cut: iteration must end, without
    raising, with a prefix of what the uncut stream yields from a file."""
    from props import c10
    scases = []
    for parts, s in streams[: (20 if ctx.quick() else 150)]:
        if len(s) > 160 or not s:
            continue
        for k in sorted(set(rng.sample(range(len(s) + 1), min(len(s) + 1, 10 if ctx.quick() else 40)))):
            cut = s[:k]
            if not cut:
                continue
            cuts = sorted(rng.sample(range(1, len(cut)), min(len(cut) - 1, rng.randrange(0, 3)))) if len(cut) > 1 else []
            c = c10.mk_case(cut, rl.split_at(cut, cuts), rng.choice([1, 7, 64, 4096]), rng.choice(["close", "close", "timeout"]), 7, 0, True)
            c["full"] = s
            c["k"] = k
            scases.append(c)
    sobs = rp.correspond_runs(ctx, scases, "SOCK")
    rl.install()
    try:
        for c, o in zip(scases, sobs):
            inp = {"op": "SOCK-CUT", "stream": c["full"].hex(), "cut": c["k"], "chunks": rl.events_str(c["events"])[:200],
                   "bufsize": c["bufsize"], "end": c["end"]}
            ref = rp.items_key(rl.run_reader(c["full"], 7, 0, True)["items"])
            got = rp.items_key(o["items"])
            if o["raised"] is not None:
                ctx.fail("cut-run-raised", inp, "ends without raising", o["raised"])
            elif got != ref[:len(got)]:
                ctx.fail("not-a-prefix", inp, [(r.hex(), p) for r, p in ref][:6], [(r.hex(), p) for r, p in got][:6])
    finally:
        rl.uninstall()

"""C11 — protfilter and parsing flags only filter; they never change what is framed."""
from pyubx2 import protocol

import readerlib as rl
import readerprops as rp

PROPFILES = ["props/C11.v"]
ASSUMPTIONS = rp.ASSUMPTIONS
TRUSTED = rp.TRUSTED
RULE = ("clean and garbage streams (incl. frames whose payload embeds another protocol's preamble and malformed "
        "filtered-out frames) x all 8 protocol masks x parsing{True,False} x quitonerror{0,1}; READ correspondence + "
        "search on the implementation: items(F) == [it for it in items(7) if protocol(raw) & F]; with parsing=False "
        "over accepted-only streams the raw sequence is unchanged and every parsed is None.")


def run(ctx):
    rng = ctx.rng
    streams = []
    for _ in range(40 if ctx.quick() else 400):
        parts = rl.clean_stream(rng, k=rng.randrange(1, 7))
        streams.append((parts, b"".join(f for _, f in parts)))
    for _ in range(40 if ctx.quick() else 400):
        streams.append((None, rl.garbage_stream(rng)))
    seen = set()
    streams = [(pt, st) for pt, st in streams if not (st in seen or seen.add(st))]      # one configuration per distinct stream
    cases = []
    for parts, s in streams:
        qe = rng.randrange(2)
        val, mm, bfo = (1, 0, True) if rng.random() < 0.5 else (rng.randrange(2), rng.choice([0, 0, 1, 2, 3]), rng.random() < 0.5)
        for pf in range(8):
            for parsing in (True, False):
                cases.append({"stream": s, "pf": pf, "qe": qe, "parsing": parsing, "parts": parts,
                              "validate": val, "msgmode": mm, "bf": bfo})
    ctx.exhaustive_parts.append("all 8 masks x parsing in {True,False} on each of %d streams" % len(streams))
    obs = rp.correspond_runs(ctx, cases, "READ")
    by = {}
    for c, o in zip(cases, obs):
        by[(c["stream"], c["pf"], c["parsing"], c["qe"])] = o
    for c, o in zip(cases, obs):
        inp = {"op": "READ", "stream": c["stream"].hex(), "pf": c["pf"], "qe": c["qe"], "parsing": c["parsing"],
               "validate": c["validate"], "msgmode": c["msgmode"], "parsebitfield": c["bf"]}
        ref = by[(c["stream"], 7, c["parsing"], c["qe"])]
        exp = [it for it in rp.items_key(ref["items"]) if protocol(it[0]) & c["pf"]]
        got = rp.items_key(o["items"])
        if got != exp:
            ctx.fail("filter-changes-framing", inp, [(r.hex(), p) for r, p in exp][:6], [(r.hex(), p) for r, p in got][:6])
        if not c["parsing"]:
            if any(p is not None for _, p in o["items"]):
                ctx.fail("parsing-off-parsed", inp, "every parsed is None", str(got)[:200])
            on = by[(c["stream"], c["pf"], True, c["qe"])]
            accepted_only = not on["reports"] and not any(out not in ("OK", "NONE") for _, _, out in on["table"])
            if c["qe"] == 1 and accepted_only and [r for r, _ in o["items"]] != [r for r, _ in on["items"]]:
                ctx.fail("parsing-off-raws-differ", inp, [r.hex() for r, _ in on["items"]][:6],
                         [r.hex() for r, _ in o["items"]][:6])

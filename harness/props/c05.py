"""C05 — checksum validation never lets a malformed or corrupted frame through."""
import pyubx2.ubxhelpers as uh

import common
import gen
import impl
from pyubx2 import UBXReader
from pyubx2 import exceptions as ube

PROPFILES = ["props/C05.v", "props/C05_src.v"]
RULE = ("FRONT <validate> <hex>: UBXReader.parse up to the constructor call, model vs implementation, on "
        "valid frames, every single-byte substitution, insertions, deletions, truncations, bursts, all strings "
        "over a frame alphabet up to a length bound, random bytes; non-trivial = distinct (input, outcome) whose "
        "outcome is an acceptance or whose input derives from a valid frame. Search: any input the real "
        "UBXReader.parse accepts under VALCKSUM that the Coq predicate wellformedb rejects; VALNONE attribute "
        "equality under checksum corruption.")
ASSUMPTIONS = ["CPython slicing / int.from_bytes behave as modelled in Bytes.v (validated by this correspondence)"]
TRUSTED = ["wellformedb (Frame.v) as the executable oracle for WellFormed"]


def attrs_of(m):
    return {k: v for k, v in m.__dict__.items() if not k.startswith("_")}


def run(ctx):
    rng = ctx.rng
    frames = gen.sample_frames(rng, n=10 if ctx.quick() else 40)
    inputs = []
    for f in frames:
        inputs.append(f)
    small = [f for f in frames if len(f) <= (12 if ctx.quick() else 24)]
    nsub = 0
    for f in small[: (4 if ctx.quick() else 16)]:
        for g in gen.substitutions(f):
            inputs.append(g); nsub += 1
    ctx.exhaustive_parts.append("all 255 substitutions at every position of %d frames (%d inputs)" % (
        min(len(small), 4 if ctx.quick() else 16), nsub))
    vals = [0x00, 0xb5, 0x62, 0xff, 0x01]
    for f in frames:
        inputs.extend(gen.insertions(f, vals if len(f) < 30 else [0]))
        inputs.extend(gen.deletions(f))
        inputs.extend(gen.truncations(f))
        inputs.extend(gen.bursts(f, rng, 10 if ctx.quick() else 60))
        # zero the length field / keep trailing bytes (the as-found defect region)
        inputs.append(f[:4] + b"\x00\x00" + f[6:])
    alpha = [0xb5, 0x62, 0x00, 0x01, 0x02, 0x80, 0xff]
    maxlen = 5 if ctx.quick() else 7
    n0 = len(inputs)
    inputs.extend(gen.all_strings(alpha, maxlen))
    ctx.exhaustive_parts.append("all %d strings of length <= %d over %s" % (
        len(inputs) - n0, maxlen, [hex(a) for a in alpha]))
    # b5 62 prefix + all short tails over a smaller alphabet (runts and overlapping slices)
    for t in gen.all_strings([0, 1, 3, 0x0a, 0x80], 4 if ctx.quick() else 6):
        inputs.append(b"\xb5\x62" + t)
    for _ in range(300 if ctx.quick() else 5000):
        inputs.append(bytes(rng.randrange(256) for _ in range(rng.randrange(0, 20))))
    # long input with wrong length field (error-message path)
    inputs.append(b"\xb5\x62\x01\x02\x05\x00" + bytes(70000))
    # long frames (chunked / folded checksum routines change behaviour at 4096, 8192, ...): with the textbook checksum,
    # with the checksum the implementation's own routine computes (a malformed frame if the two differ), and with
    # the last byte corrupted
    for body in gen.long_bodies(rng, ctx.quick()):
        if len(body) < 6:
            continue
        pl = body[: min(len(body), 65535)]
        content = bytes([0x77, 0x01]) + len(pl).to_bytes(2, "little") + pl
        f = b"\xb5\x62" + content + gen.fletcher(content)
        inputs.append(f)
        inputs.append(b"\xb5\x62" + content + uh.calc_checksum(content))
        inputs.append(f[:-1] + bytes([f[-1] ^ 0x10]))
    # every possible pair of header bytes in front of an otherwise valid frame (only b5 62 may be accepted)
    body = frames[1][2:] if len(frames) > 1 else gen.ubx_frame(5, 1, b"\x06\x01")[2:]
    hdrs = [bytes([a, b]) for a in range(256) for b in range(256)]
    if ctx.quick():
        hdrs = [h for h in hdrs if h[0] in (0xb5, 0x24, 0xd3, 0x62, 0x00, 0xff) or h[1] in (0x62, 0x00) or (h[0] * 7 + h[1]) % 11 == 0]
    else:
        ctx.exhaustive_parts.append("all 65536 two-byte headers in front of a valid frame body")
    for h in hdrs:
        inputs.append(h + body)
    # ... and in front of bodies that themselves contain b5 62 (a header test must look at offset 0 only)
    for emb in (gen.ubx_frame(1, 2, b"\xb5\x62" + bytes(26)), gen.ubx_frame(6, 8, b"\x00\xb5\x62\x00\x01\x00"),
                gen.ubx_frame(0x77, 1, b"\xb5\x62\xb5\x62")):
        inputs.append(emb)
        for h in hdrs[:: (1 if not ctx.quick() else 7)] + [b"\x00\x00", b"\xb5\x00", b"\x00\x62", b"\x62\xb5", b"\xb4\x62", b"\xb5\x63"]:
            inputs.append(h + emb[2:])
    for keyb in (b"\x06\x08", b"\x05\x01"):
        for tgt in gen.SPECIAL_CHECKSUMS:
            f = gen.frame_with_checksum(keyb[0], keyb[1], tgt, rng)
            if f:
                inputs.append(f)
                inputs.append(f[:-2])
                inputs.append(f + b"\r\n")
    ctx.count("inputs", len(inputs))

    cmds = []
    for x in inputs:
        cmds.append("FRONT 1 " + gen.hx(x))
    for x in inputs[:: 7]:
        cmds.append("FRONT 0 " + gen.hx(x))
        cmds.append("FRONT 3 " + gen.hx(x))
    ctx.correspond(cmds, nontrivial=lambda c, o: o.startswith("OK"), label="FRONT")

    # ---- search: the property itself on the real parse() ----
    accepted = []
    # validate=VALCKSUM must mean the same under every msgmode and parsebitfield setting (the default ones on every
    # input, the other seven combinations on a rotating subset and on every corruption of the first frames)
    combos = [(mm, bf) for mm in (0, 1, 2, 3) for bf in (True, False)]
    for n, x in enumerate(inputs):
        todo = [(0, True)] + ([combos[1 + n % 7]] if (n % 3 == 0 or n < 4000) else [])
        for mm, bf in todo:
            try:
                with impl.quiet():
                    m = UBXReader.parse(x, validate=1, msgmode=mm, parsebitfield=bf)
                accepted.append((x, m))
            except ube.UBXParseError:
                pass
            except (ube.UBXMessageError, ube.UBXTypeError):
                pass  # rejected later by the constructor (C08's business); still "no message returned"
            except Exception as e:  # foreign exception: C08 reports it; here it is "not UBXParseError"
                ctx.count("foreign:" + type(e).__name__)
    if accepted:
        wf = common.wf_oracle([x for x, _ in accepted])
        for (x, m), w in zip(accepted, wf):
            if w != "1":
                ctx.fail("accepted-malformed", {"op": "PARSE", "validate": 1, "hex": x.hex()},
                         "UBXParseError (not a well-formed frame)", "accepted: %r" % (m,))
    ctx.count("accepted_by_real_parse", len(accepted))
    # VALNONE: corrupted checksum bytes -> same attributes
    nval = 0
    for f in frames:
        try:
            with impl.quiet():
                good = UBXReader.parse(f, validate=0)
        except Exception:
            continue
        for ck in (b"\x00\x00", b"\xff\xff", bytes([f[-2] ^ 1, f[-1]]), bytes([f[-2], f[-1] ^ 0x80])):
            g = f[:-2] + ck
            nval += 1
            # VALNONE under SETPOLL / parsebitfield settings: still no checksum test (attributes are C17's business)
            for mm, bf in ((3, True), (3, False), (1, False)):
                try:
                    with impl.quiet():
                        UBXReader.parse(g, validate=0, msgmode=mm, parsebitfield=bf)
                except ube.UBXParseError as e:
                    # a mode that has no such message is a UBXMessageError; a UBXParseError here is the validation
                    if "checksum" in str(e).lower():
                        ctx.fail("valnone-validates", {"op": "PARSE", "validate": 0, "msgmode": mm, "parsebitfield": bf, "hex": g.hex()},
                                 "no checksum test", str(e)[:80])
                except Exception:  # pylint: disable=broad-except
                    pass
            try:
                with impl.quiet():
                    m = UBXReader.parse(g, validate=0)
                if attrs_of(m) != attrs_of(good) or m.payload != good.payload or m.identity != good.identity:
                    ctx.fail("valnone-differs", {"op": "PARSE", "validate": 0, "hex": g.hex()},
                             "same attributes as intact frame", repr(m))
            except Exception as e:
                ctx.fail("valnone-raises", {"op": "PARSE", "validate": 0, "hex": g.hex()},
                         "same attributes as intact frame", type(e).__name__)
    ctx.count("valnone_cases", nval)
    ctx.evaluations += nval

"""C12 — quitonerror decides how a rejected frame is reported, not which frames arrive."""
import impl
import readerlib as rl
import readerprops as rp

PROPFILES = ["props/C12.v"]
ASSUMPTIONS = rp.ASSUMPTIONS
TRUSTED = rp.TRUSTED
RULE = ("sequences of good and corrupted frames of the three protocols and arbitrary garbage streams x quitonerror "
        "{0,1,2} x handler {function, bound method, falsy callable object, absent} x random protfilter/parsing; READ correspondence (items, handler calls in "
        "order with exception class, raised exception) + search on the implementation: items(IGNORE)==items(LOG); "
        "RAISE delivers the IGNORE items up to the first rejection and raises exactly the first exception the LOG "
        "handler received; no handler call without a rejection; the same three comparisons over streams whose read() returns short (cap 1, 3, 16 bytes) while data follows.")


def inp_base(s, pf, parsing):
    return {"op": "READ", "stream": s.hex(), "pf": pf, "parsing": parsing}


def run(ctx):
    rng = ctx.rng
    streams = []
    clean = {}
    for _ in range(60 if ctx.quick() else 600):
        parts = rl.clean_stream(rng, k=rng.randrange(1, 7))
        streams.append(b"".join(f for _, f in parts))
        clean[streams[-1]] = parts
    for _ in range(60 if ctx.quick() else 600):
        streams.append(rl.garbage_stream(rng))
    streams = list(dict.fromkeys(streams))        # one configuration per distinct stream
    cases = []
    for s in streams:
        pf = 7 if rng.random() < 0.6 else rng.randrange(8)
        parsing = rng.random() < 0.85
        val, mm, bfo = (1, 0, True) if rng.random() < 0.4 else (rng.randrange(2), rng.choice([0, 1, 2, 3, 3]), rng.random() < 0.5)
        for qe in (0, 1, 2):
            for handler in (True, False, "obj", "method", "ret"):
                cases.append({"stream": s, "pf": pf, "qe": qe, "parsing": parsing, "handler": handler,
                              "validate": val, "msgmode": mm, "bf": bfo})
    obs = rp.correspond_runs(ctx, cases, "READ")
    by = {}
    for c, o in zip(cases, obs):
        by[(c["stream"], c["pf"], c["parsing"], c["qe"], c["handler"])] = o
    for s in streams:
        for (pf, parsing) in set((c["pf"], c["parsing"]) for c in cases if c["stream"] == s):
            ig = by[(s, pf, parsing, 0, True)]
            lg = by[(s, pf, parsing, 1, True)]
            rs = by[(s, pf, parsing, 2, True)]
            lgn = by[(s, pf, parsing, 1, False)]
            if s in clean and parsing:
                # a clean stream: the rejected frames are exactly those its protocol parser refuses when called
                # directly under the reader's options - one handler call each, with that exception, in order
                o = [c for c in cases if c["stream"] == s][0]
                want = []
                for kind, raw in clean[s]:
                    pr = rp.kind_proto(kind)
                    if pr == 0 or not (pf & pr):
                        continue
                    try:
                        rp.direct_parse(pr, raw, o["validate"], o["msgmode"], o["bf"])
                    except rp.PROT_ERRS as e:
                        want.append(impl.exn_name(e))
                if lg["reports"] != want:
                    ctx.fail("handler-calls-differ-from-rejected-frames", dict(inp_base(s, pf, parsing), validate=o["validate"],
                                                                               msgmode=o["msgmode"], parsebitfield=o["bf"]),
                             str(want)[:300], str(lg["reports"])[:300])
            for hk in ("obj", "method", "ret"):
                # the kind of callable must not matter (a falsy callable object is still a handler)
                if by[(s, pf, parsing, 1, hk)]["reports"] != lg["reports"]:
                    ctx.fail("handler-kind-matters", dict(inp_base(s, pf, parsing), handler=hk), str(lg["reports"])[:200],
                             str(by[(s, pf, parsing, 1, hk)]["reports"])[:200])
            inp = {"op": "READ", "stream": s.hex(), "pf": pf, "parsing": parsing}
            if rp.items_key(ig["items"]) != rp.items_key(lg["items"]):
                ctx.fail("ignore-vs-log-items", inp, str(rp.items_key(ig["items"]))[:300], str(rp.items_key(lg["items"]))[:300])
            if ig["reports"] or ig["log_records"]:
                ctx.fail("handler-called-under-ignore", inp, "no report", str(ig["reports"]))
            if ig["raised"] or lg["raised"]:
                ctx.fail("raised-under-ignore-or-log", inp, "no exception", str((ig["raised"], lg["raised"])))
            if len(lgn["reports"]) != len(lg["reports"]):
                ctx.fail("logger-vs-handler-count", inp, len(lg["reports"]), len(lgn["reports"]))
            if lg["reports"]:
                if rs["raised"] != lg["reports"][0]:
                    ctx.fail("raise-differs-from-first-rejection", inp, lg["reports"][0], str(rs["raised"]))
                got = rp.items_key(rs["items"])
                if got != rp.items_key(ig["items"])[:len(got)]:
                    ctx.fail("raise-items-not-prefix", inp, str(rp.items_key(ig["items"]))[:300], str(got)[:300])
            else:
                if rs["raised"] is not None or rp.items_key(rs["items"]) != rp.items_key(ig["items"]):
                    ctx.fail("raise-without-rejection", inp, "same as IGNORE", str(rs["raised"]))

    capped(ctx, rng, streams)
    logging_setups(ctx, rng, streams)


def logging_setups(ctx, rng, streams):
    """The error handler is the application's: it must be called whatever the logging configuration is (library
    logger silenced, logging disabled process-wide)."""
    rl.install()
    try:
        n = 0
        for s in streams[: (40 if ctx.quick() else 400)]:
            ref = rl.run_reader(s, 7, 1, True, 1, 0, True)
            for cfg in ("critical", "disabled"):
                for hk in (True, "obj"):
                    o = rl.run_reader(s, 7, 1, True, 1, 0, hk, logcfg=cfg)
                    n += 1
                    if o["reports"] != ref["reports"] or rp.items_key(o["items"]) != rp.items_key(ref["items"]):
                        ctx.fail("handler-depends-on-logging-setup", {"op": "READ-LOGCFG", "stream": s.hex(), "logging": cfg, "handler": str(hk)},
                                 str(ref["reports"])[:200], str(o["reports"])[:200])
        ctx.evaluations += n
        ctx.count("logging_setup_runs", n)
    finally:
        rl.uninstall()


def capped(ctx, rng, streams):
    """Streams whose read(n) returns fewer bytes than asked although more data follows (implementation only: the
    model's streams never return short before the end).  The three policies must still agree on what is delivered."""
    rl.install()
    try:
        n = 0
        for s in streams[: (60 if ctx.quick() else 600)]:
            for cap in (1, 3, 16):
                runs = {}
                for qe in (0, 1, 2):
                    runs[qe] = rl.run_reader(s, 7, qe, True, 1, 0, True, readcap=cap)
                    n += 1
                ig, lg, rs = runs[0], runs[1], runs[2]
                inp = {"op": "READ-CAPPED", "stream": s.hex(), "cap": cap}
                if rp.items_key(ig["items"]) != rp.items_key(lg["items"]):
                    ctx.fail("ignore-vs-log-items", inp, str(rp.items_key(ig["items"]))[:300], str(rp.items_key(lg["items"]))[:300])
                elif ig["raised"] or lg["raised"]:
                    ctx.fail("raised-under-ignore-or-log", inp, "no exception", str((ig["raised"], lg["raised"])))
                elif lg["reports"]:
                    got = rp.items_key(rs["items"])
                    if rs["raised"] != lg["reports"][0] or got != rp.items_key(ig["items"])[:len(got)]:
                        ctx.fail("raise-differs-from-first-rejection", inp, lg["reports"][0], str(rs["raised"]))
                elif rs["raised"] is not None or rp.items_key(rs["items"]) != rp.items_key(ig["items"]):
                    ctx.fail("raise-without-rejection", inp, "same as IGNORE", str(rs["raised"]))
        ctx.evaluations += n
        ctx.count("capped_runs", n)
    finally:
        rl.uninstall()

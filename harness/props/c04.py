"""C04 — every message the library builds serializes to a well-formed UBX frame."""
from pyubx2 import UBX_CLASSES, UBX_MSGIDS, UBXMessage, UBXReader
from pyubx2.ubxtypes_configdb import UBX_CONFIG_DATABASE

import common
import gen
import impl
import msggen
import sweep

PROPFILES = ["props/C04.v"]
RULE = ("every (mode, definition) x route {keywords (nominal, single attributes from a value pool, counted groups), raw "
        "payload (conforming and arbitrary), config_set/del/poll} x addressing {names, ints, bytes}; BUILD/CONSTRUCT/CFG* "
        "correspondence + search on the implementation: serialize() of everything that constructs is a well-formed "
        "frame by the Coq predicate wellformedb (header, LE length = actual length, Fletcher-8 textbook sums), parse "
        "in the same mode accepts it, the three addressing forms give identical frames.")


def run(ctx):
    rng = ctx.rng
    cmds = []
    built = []      # (description, thunk) evaluated on the implementation
    defs = msggen.all_defs()
    for mode, name, d, key in defs:
        base = {}
        if len(key) == 3:
            base["type"] = key[2]
        nm = sweep.names_of(d, True)
        kws = [dict(base)]
        for an in (nm[:6] if ctx.quick() else nm[:30]):
            for v in rng.sample(sweep.POOL, 2 if ctx.quick() else 4):
                kws.append({**base, an: v})
        for kw in kws:
            if kw:
                cmds.append(sweep.build_cmd(key, mode, True, kw))
                built.append(("kw", key, mode, kw))
        for cnt in (0, 2):
            g = msggen.Gen(rng, d, mode, name, key, cnt, "random")
            p = g.payload()
            cmds.append("CONSTRUCT %s %s %d 1 PAYLOAD %s" % (key[0:1].hex(), key[1:2].hex(), mode, gen.hx(p)))
            built.append(("payload", key, mode, p))
        cmds.append("CONSTRUCT %s %s %d 1 NONE" % (key[0:1].hex(), key[1:2].hex(), mode))
        built.append(("none", key, mode, None))
        # a raw payload AND attribute keywords in one call (implementation only: whatever the constructor makes of
        # the combination, what it returns must serialize to a well-formed frame)
        if nm:
            g = msggen.Gen(rng, d, mode, name, key, 1, "random")
            for an in nm[:2]:
                for v in rng.sample(sweep.POOL, 2):
                    built.append(("payload+kw", key, mode, g.payload(), {**base, an: v}))
    # long raw payloads (NAV-POSLLH followed by surplus bytes, stored verbatim); lengths around 4096, 8192, ..., the 16-bit limit
    for body in gen.long_bodies(rng, ctx.quick()):
        cmds.append("CONSTRUCT 01 02 0 1 PAYLOAD %s" % gen.hx(body))
        built.append(("payload", b"\x01\x02", 0, body))
    # messages whose serialization ends in CR LF / sync bytes / zero bytes (what text-oriented clean-ups would eat)
    for keyb in (b"\x06\x08", b"\x01\x02"):
        for tgt in gen.SPECIAL_CHECKSUMS:
            f = gen.frame_with_checksum(keyb[0], keyb[1], tgt, rng)
            if f:
                cmds.append("CONSTRUCT %s %s %d 1 PAYLOAD %s" % (keyb[0:1].hex(), keyb[1:2].hex(), 1 if keyb[0] == 6 else 0, gen.hx(f[6:-2])))
                built.append(("payload", keyb, 1 if keyb[0] == 6 else 0, f[6:-2]))
    # integer addressing: msgclass2bytes on every (class, id) pair
    for c in range(256):
        for i in (range(256) if not ctx.quick() else list(range(0, 256, 5)) + [0x80, 0x13, 0xff, 1, 2, 6]):
            cmds.append("INTS %x %x" % (c, i))
    # config helpers
    keys = list(UBX_CONFIG_DATABASE.items())
    for _ in range(60 if ctx.quick() else 600):
        n = rng.choice([0, 1, 2, 5, 63, 64, 65])
        items = []
        for _ in range(n):
            nmk, (kid, ty) = rng.choice(keys)
            val = cfgval(rng, ty)
            items.append((nmk if rng.random() < 0.5 else kid, val))
        lay, tr = rng.choice([0, 1, 2, 7]), rng.choice([0, 1, 2, 3])
        cmds.append("CFGSET %x %x %s" % (lay, tr, " ".join("%s=%s" % (kstr(k), impl.show_val(v)) for k, v in items)))
        built.append(("cfgset", lay, tr, items))
        ks = [k for k, _ in items]
        cmds.append("CFGDEL %x %x %s" % (lay, tr, " ".join(kstr(k) for k in ks)))
        built.append(("cfgdel", lay, tr, ks))
        pos = rng.choice([0, 1, 64, 65535])
        cmds.append("CFGPOLL %x %x %s" % (lay, pos, " ".join(kstr(k) for k in ks)))
        built.append(("cfgpoll", lay, pos, ks))
    canon = lambda c, l: impl.canon_model_line(l)
    ctx.correspond(cmds, canon=canon, nontrivial=lambda c, o: o.startswith("OK"), label="BUILD")
    ctx.disagreements = [d for d in ctx.disagreements if d["model"] != "RAISE Other"]

    # ---- search on the implementation ----
    sers = []
    for b in built:
        try:
            with impl.quiet():
                m = make(b)
        except Exception:
            continue
        sers.append((b, m))
    wf = common.wf_oracle([m.serialize() for _, m in sers], shards=8)
    for (b, m), w in zip(sers, wf):
        inp = {"op": b[0], "args": common.srepr(b[1:], 300)}
        nf = len(ctx.failures)
        if w != "1":
            ctx.fail("not-wellformed", inp, "well-formed frame", m.serialize()[:80].hex())
            continue
        try:
            with impl.quiet():
                m2 = UBXReader.parse(m.serialize(), msgmode=m.msgmode, validate=1)
            if m2.serialize() != m.serialize():
                ctx.fail("reparse-differs", inp, m.serialize()[:60].hex(), m2.serialize()[:60].hex())
        except Exception as e:  # pylint: disable=broad-except
            ctx.fail("not-accepted-by-parse", inp, "accepted in the same mode", type(e).__name__ + ": " + str(e)[:100])
        for f in ctx.failures[nf:]:
            f["built"] = b
    # a caller-owned mutable buffer as payload, serialized repeatedly: every serialization is the frame the same
    # bytes give, and the caller's buffer is left as it was
    nbuf = 0
    for b in [x for x in built if x[0] == "payload"][:: (5 if ctx.quick() else 1)]:
        key, mode, p = b[1], b[2], b[3]
        try:
            with impl.quiet():
                ref = UBXMessage(key[0:1], key[1:2], mode, payload=bytes(p)).serialize()
        except Exception:  # pylint: disable=broad-except
            continue
        buf = bytearray(p)
        inp = {"op": "payload-bytearray", "args": common.srepr((key, mode, p[:60]), 300)}
        try:
            with impl.quiet():
                m = UBXMessage(key[0:1], key[1:2], mode, payload=buf)
                outs = [bytes(m.serialize()) for _ in range(3)]
                repr(m), str(m)
                outs.append(bytes(m.serialize()))
        except Exception as e:  # pylint: disable=broad-except
            ctx.fail("bytearray-payload-raises", inp, "same as bytes payload", type(e).__name__ + ": " + str(e)[:100])
            continue
        nbuf += 1
        if any(o != ref for o in outs):
            i = next(i for i, o in enumerate(outs) if o != ref)
            ctx.fail("serialize-not-repeatable", dict(inp, call=i + 1), ref[:60].hex(), outs[i][:60].hex())
        elif bytes(buf) != bytes(p):
            ctx.fail("caller-buffer-modified", inp, bytes(p)[:40].hex(), bytes(buf)[:40].hex())
    ctx.count("bytearray_payload_messages", nbuf)
    ctx.evaluations += nbuf
    # addressing
    nadd = 0
    for key, name in UBX_MSGIDS.items():
        if len(key) != 2 or key[0:1] not in UBX_CLASSES:
            continue
        for mode in (0, 1, 2):
            if name not in msggen.TABLES[mode]:
                continue
            frames = []
            for form in ((UBX_CLASSES[key[0:1]], name), (key[0], key[1]), (key[0:1], key[1:2])):
                try:
                    with impl.quiet():
                        frames.append(UBXMessage(form[0], form[1], mode).serialize())
                except Exception as e:  # pylint: disable=broad-except
                    frames.append(type(e).__name__)
            nadd += 1
            if len(set(frames)) != 1:
                ctx.fail("addressing-forms-differ", {"op": "ADDR", "name": name, "mode": mode}, "identical frames", common.srepr(frames, 200))
    # message types keyed by class, id AND payload type (MGA-*): the three addressing forms, with a payload that
    # starts with the type byte
    for key, name in UBX_MSGIDS.items():
        if len(key) != 3 or key[0:1] not in UBX_CLASSES:
            continue
        for mode in (0, 1, 2):
            # no keywords at all: the three forms give the same (empty-payload) frame or the same refusal
            frames0 = []
            for form in ((UBX_CLASSES[key[0:1]], name), (key[0], key[1]), (key[0:1], key[1:2])):
                try:
                    with impl.quiet():
                        frames0.append(UBXMessage(form[0], form[1], mode).serialize())
                except Exception as e:  # pylint: disable=broad-except
                    frames0.append(type(e).__name__)
            nadd += 1
            if len(set(frames0)) != 1:
                ctx.fail("addressing-forms-differ", {"op": "ADDR", "name": name, "mode": mode, "keywords": "none"}, "identical frames", common.srepr(frames0, 300))
            pl = key[2:3] + bytes(7)
            frames = []
            for form in ((UBX_CLASSES[key[0:1]], name), (key[0], key[1]), (key[0:1], key[1:2])):
                try:
                    with impl.quiet():
                        frames.append(UBXMessage(form[0], form[1], mode, payload=pl).serialize())
                except Exception as e:  # pylint: disable=broad-except
                    frames.append(type(e).__name__)
            nadd += 1
            if len(set(frames)) != 1:
                ctx.fail("addressing-forms-differ", {"op": "ADDR", "name": name, "mode": mode, "payload": pl.hex()}, "identical frames", common.srepr(frames, 300))
            elif isinstance(frames[0], bytes) and frames[0][2:4] != key[0:2]:
                ctx.fail("addressing-wrong-class-id", {"op": "ADDR", "name": name, "mode": mode}, key[0:2].hex(), frames[0][2:4].hex())
    ctx.count("addressing_cases", nadd)
    ctx.evaluations += nadd + len(sers)


def matches_known(k, f):
    """known finding: a C-type keyword value of the wrong length (see C15) makes the built frame unparsable"""
    if k["id"] != "KF-C04-wrong-length-C":
        return False
    if f["what"] not in ("not-accepted-by-parse", "reparse-differs"):
        return False
    b = f.get("built")
    if not b or b[0] != "kw":
        return False
    _, key, mode, kw = b
    for name, d in msggen.TABLES[mode].items():
        if msggen.key_for_def(name) == key and msggen.wrong_length_C(d, kw):
            return True
    return False


def replay_known(ctx, k):
    w = k["witness"]
    try:
        with impl.quiet():
            m = UBXMessage(w["cls"], w["id"], w["mode"], **w["kw"])
            UBXReader.parse(m.serialize(), msgmode=m.msgmode)
    except Exception as e:  # pylint: disable=broad-except
        return {"what": "not-accepted-by-parse", "observed": type(e).__name__}
    return None


def kstr(k):
    return ("N:" + k) if isinstance(k, str) else ("K:%x" % k)


def cfgval(rng, ty):
    c = ty[0]
    n = int(ty[1:4])
    if c in "UEL":
        return rng.choice([0, 1, (1 << (8 * n)) - 1, rng.getrandbits(8 * n)])
    if c == "I":
        return rng.choice([0, -1, (1 << (8 * n - 1)) - 1, -(1 << (8 * n - 1))])
    if c == "X":
        return bytes(rng.getrandbits(8) for _ in range(n))
    if c == "R":
        return rng.choice([0.0, -0.0, 1.5, -2.25e3, 1e-7, 0])
    return 0


def make(b):
    kind = b[0]
    if kind == "kw":
        _, key, mode, kw = b
        return UBXMessage(key[0:1], key[1:2], mode, **kw)
    if kind == "payload":
        _, key, mode, p = b
        return UBXMessage(key[0:1], key[1:2], mode, payload=p)
    if kind == "payload+kw":
        _, key, mode, p, kw = b
        return UBXMessage(key[0:1], key[1:2], mode, payload=p, **kw)
    if kind == "none":
        _, key, mode, _p = b
        return UBXMessage(key[0:1], key[1:2], mode)
    if kind == "cfgset":
        return UBXMessage.config_set(b[1], b[2], b[3])
    if kind == "cfgdel":
        return UBXMessage.config_del(b[1], b[2], b[3])
    return UBXMessage.config_poll(b[1], b[2], b[3])

"""C15 — bad attribute values are refused, never silently mis-encoded."""
from pyubx2 import UBXMessage
from pyubx2 import exceptions as ube

import common
import impl
import msggen
import sweep

PROPFILES = ["props/C15.v", "props/C15_src.v"]
RULE = ("every (mode, definition) x every attribute kind (plain, scaled, bit flag, grouped, variant discriminator) x values "
        "from a pool: ints at/over each range edge, negative, huge, bool, floats incl. nan/inf/-0.0, str/bytes of lengths "
        "0..size+2, lists of wrong length/element type, None, tuple; BUILD correspondence + search on the implementation: "
        "either UBXMessageError/UBXTypeError, or payload length == the length the definition implies and every field decodes "
        "(independent spec decoder) to the supplied value (within one unit of resolution when scaled) or to nominal when "
        "not supplied; never another exception class. non-trivial = distinct (definition, attribute, value) accepted.")
ASSUMPTIONS = []


def near(sup, got, scale):
    if isinstance(sup, bool):
        sup = int(sup)
    if isinstance(sup, (int, float)) and isinstance(got, (int, float)):
        if sup != sup:
            return got != got
        if scale is not None:
            return abs(got - sup) <= abs(scale) * 1.0000001 + 1e-12
        return got == sup or (isinstance(got, float) and abs(got - sup) <= abs(sup) * 1e-6)   # R4 single precision
    if isinstance(sup, str) and isinstance(got, (bytes, str)):
        return (got.encode() if isinstance(got, str) else got) == sup.encode("utf-8", "backslashreplace")
    if isinstance(sup, bytes) and isinstance(got, str):      # CH: bytes in, decoded text out
        return sup.decode("utf-8", "backslashreplace") == got
    return sup == got


def run(ctx):
    rng = ctx.rng
    cmds = []
    cases = []
    for mode, name, d, key in msggen.all_defs():
        for bf in (True, False):
            base = {"type": key[2]} if len(key) == 3 else {}
            for disc, val in (("RXM-PMREQ", ("version", 1)), ("RXM-PMP-V1", ("version", 1)), ("NAV-RELPOSNED", ("version", 1)),
                              ("SEC-SIG-V1", ("version", 1)), ("RXM-PMP-V0", ("version", 0)), ("NAV-RELPOSNED-V0", ("version", 0)),
                              ("SEC-SIG-V2", ("version", 2)), ("RXM-RLM-S", ("type", 1)), ("RXM-RLM-L", ("type", 2)),
                              ("AID-ALPSRV-SEND", ("type", 255)), ("AID-ALPSRV-REQ", ("type", 1)), ("TIM-VCOCAL-V0", ("type", 0)),
                              ("TIM-VCOCAL", ("type", 2)), ("CFG-DAT-NUM", ("datumNum", 3)), ("CFG-TP5-TPX", ("tpIdx", 1))):
                if name == disc:
                    base[val[0]] = val[1]
            nm = sweep.names_of(d, bf)
            lt = msggen.leaf_types(d)
            counts = {c: 1 for c in count_names(d)}
            # type-directed: every distinct (type, scaled?) of the definition gets the bad values that matter for it
            seen_kinds = set()
            pick = []
            for an in nm:
                t = lt.get(msggen.base_name(an))
                kind = (t[0], t[1] is not None) if t else None
                if kind not in seen_kinds:
                    seen_kinds.add(kind)
                    pick.append((an, True))
            extra = nm if not ctx.quick() else rng.sample(nm, min(len(nm), 4))
            pick += [(an, False) for an in extra[:60]]
            for an, directed in pick:
                t = lt.get(msggen.base_name(an))
                vals = list(rng.sample(sweep.POOL, 3 if ctx.quick() else 10))
                if directed and t:
                    vals += bad_values_for(t[0], rng)
                for v in vals:
                    kw = {**base, an: v}
                    if an != msggen.base_name(an):        # a group member: make its group repeat
                        kw = {**counts, **kw}
                    cases.append((mode, name, d, key, bf, kw, an))
                    cmds.append(sweep.build_cmd(key, mode, bf, kw))
            for v in rng.sample(sweep.POOL, 4):      # the discriminators themselves
                for dn in ("type", "version", "datumNum", "tpIdx"):
                    if dn in base or rng.random() < 0.05:
                        kw = {**base, dn: v}
                        cases.append((mode, name, d, key, bf, kw, dn))
                        cmds.append(sweep.build_cmd(key, mode, bf, kw))
    ctx.correspond(cmds, canon=lambda c, l: impl.canon_model_line(l), nontrivial=lambda c, o: o.startswith("OK"), label="BUILD")
    ctx.disagreements = [d for d in ctx.disagreements if d["model"] != "RAISE Other"]
    C16_BAD = {(0, "CFG-FIXSEED"), (1, "CFG-FIXSEED"), (0, "CFG-TP"), (1, "CFG-TP"), (0, "FOO-BAR"), (1, "CFG-NVS"),
               (1, "CFG-NMEAv0"), (1, "CFG-NMEAvX"), (0, "UBX-NOMINAL"), (0, "RXM-PMP-V0"), (0, "RXM-PMP-V1")}
    for mode, name, d, key, bf, kw, an in cases:
        inp = {"op": "BUILD", "mode": mode, "name": name, "bf": bf, "kw": common.srepr(kw, 200)}
        try:
            with impl.quiet():
                m = UBXMessage(key[0:1], key[1:2], mode, parsebitfield=bf, **kw)
        except (ube.UBXMessageError, ube.UBXTypeError):
            continue
        except Exception as e:  # pylint: disable=broad-except
            ctx.fail("foreign-exception:" + type(e).__name__, inp, "UBXMessageError/UBXTypeError or a message", "%s: %s" % (type(e).__name__, str(e)[:80]))
            continue
        if (mode, name) in C16_BAD:
            continue
        # which definition did the constructor use?  (variants: ask the message)
        used = used_def(m, mode, name, d)
        p = m.payload or b""
        try:
            exp, consumed = msggen.decode_spec(used, p, bf, key, mode)
        except Exception as e:  # pylint: disable=broad-except
            ctx.fail("payload-length-not-implied", inp, "payload laid out per its definition", "spec decoder: %s; payload %s" % (str(e)[:40], p[:40].hex()))
            ctx.failures[-1]["ctx"] = (mode, name, used, kw)
            continue
        has_ch = any(v == "CH" for v in used.values() if isinstance(v, str))
        if consumed != len(p) and not has_ch:
            ctx.fail("payload-length-not-implied", inp, "%d bytes" % consumed, "%d bytes" % len(p))
            ctx.failures[-1]["ctx"] = (mode, name, used, kw)
            continue
        lt = msggen.leaf_types(used)
        for k, got in exp:
            t = lt.get(msggen.base_name(k))
            scale = t[1] if t else None
            if k in kw:
                if not near(kw[k], got, scale) and not k.startswith("reserved"):
                    ctx.fail("field-does-not-hold-supplied-value", dict(inp, attribute=k), common.srepr(kw[k], 60), common.srepr(got, 60))
                    ctx.failures[-1]["ctx"] = (mode, name, used, kw)
                    break
            else:
                from props.c03 import is_nominal
                if not is_nominal(got) and not merged_hp(k, kw):
                    ctx.fail("other-field-altered", dict(inp, attribute=k), "nominal", common.srepr(got, 60))
                    ctx.failures[-1]["ctx"] = (mode, name, used, kw)
                    break


def count_names(d):
    from props.c03 import needed_counts
    return needed_counts(d)


def bad_values_for(t, rng):
    """values at and just beyond what a field of this type can hold, and of the wrong shape"""
    if t == "CH":
        return ["", "x" * 40, b"\xff\xfe", 5, None]
    if t.startswith("FLAG"):
        w = int(t[4:7])
        return [0, (1 << w) - 1, 1 << w, -1, 1.0, True, None, "1"]
    c, n = t[0], int(t[1:4])
    if c in "UEL":
        return [0, (1 << (8 * n)) - 1, 1 << (8 * n), -1, 1.0, None, "1", b"\x01"]
    if c == "I":
        return [-(1 << (8 * n - 1)), (1 << (8 * n - 1)) - 1, 1 << (8 * n - 1), -(1 << (8 * n - 1)) - 1, 0.5, None]
    if c == "X":
        return [bytes(n), bytes(max(n - 1, 0)), bytes(n + 1), b"", 0, "ab", [0] * n]
    if c == "C":
        return [bytes(n), "a" * n, 0, None, [65] * n]
    if c == "R":
        return [0.0, -0.0, 1e39 if n == 4 else 1e308, float("nan"), float("inf"), 7, 10**400, "1.0", None]
    if c == "A":
        return [[0] * n, [255] * n, [1] * (n - 1), [1] * (n // 2), [], [1] * (n + 1), [256] + [0] * (n - 1), [-1] * n,
                [1.0] * n, ["a"] * n, bytes(n), None, 5]
    return []


def merged_hp(k, kw):
    return ("_HP" + k) in kw or any(x.startswith("_HP") for x in kw)


def used_def(m, mode, name, d):
    ident = m.identity
    for tab in (msggen.TABLES[mode], msggen.TABLES[1], msggen.TABLES[0]):
        pass
    # variants whose selection depends on keywords: resolve through the library's own selector, which is what C02 checks
    try:
        return m._get_dict(**{k: v for k, v in m.__dict__.items() if not k.startswith("_")}) if False else _sel(m, mode, name, d)
    except Exception:  # pylint: disable=broad-except
        return d


def _sel(m, mode, name, d):
    from pyubx2.ubxvariants import VARIANTS
    msg = m.msg_cls + m.msg_id
    if VARIANTS[mode].get(msg):
        kw = {k: v for k, v in m.__dict__.items() if not k.startswith("_")}
        with impl.quiet():
            if msg[0] == 0x13:
                return VARIANTS[mode][msg](msg, mode, **kw)
            return VARIANTS[mode][msg](**kw)
    return msggen.TABLES[mode].get(m.identity, d)


def matches_known(k, f):
    c = f.get("ctx")
    if not c or k["id"] != "KF-C15-wrong-length-C":
        return False
    mode, name, used, kw = c
    return msggen.wrong_length_C(used, kw)


def replay_known(ctx, k):
    w = k["witness"]
    with impl.quiet():
        m = UBXMessage(w["cls"], w["id"], w["mode"], **w["kw"])
    return {"what": "payload-length-not-implied"} if len(m.payload) != w["implied_len"] else None

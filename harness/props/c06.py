"""C06 — the stream reader delivers every well-formed frame, in order, typed by protocol."""
import itertools

import readerlib as rl
import readerprops as rp

PROPFILES = ["props/C06.v", "props/C06_src.v"]
ASSUMPTIONS = rp.ASSUMPTIONS
TRUSTED = rp.TRUSTED
RULE = ("clean streams = sequences of frames from a pool of 19 (valid / bad-checksum / zero-length / unknown UBX, "
        "valid / bad NMEA, valid / bad-CRC / zero-length / >255-byte RTCM3) with optional preamble-free noise: all "
        "ordered pairs exhaustively, random longer sequences; x protfilter x quitonerror{0,1} x parsing x validate x msgmode{GET,SET,POLL,SETPOLL} x parsebitfield. "
        "READ correspondence (model vs UBXReader with the real parsers' answers as oracle) + search: yielded "
        "(raw, str(parsed)) list == abstract deliver list computed by calling each protocol parser directly. "
        "non-trivial = distinct (stream, config, observation) with at least one item or report.")


def run(ctx):
    rng = ctx.rng
    pool = rl.frame_pool()
    seqs = [[a] for a in pool] + [list(t) for t in itertools.product(pool, repeat=2)]
    ctx.exhaustive_parts.append("all %d ordered sequences of 1-2 frames from the pool of %d" % (len(seqs), len(pool)))
    if not ctx.quick():
        trip = [list(t) for t in itertools.product(pool, repeat=3)]
        seqs += rng.sample(trip, 1500)
    for _ in range(250 if ctx.quick() else 3000):
        seqs.append(rl.clean_stream(rng, k=rng.randrange(1, 8)))
    cases = []
    for i, parts in enumerate(seqs):
        stream = b"".join(f for _, f in parts)
        cfgs = [(7, 1, True, 1, 0, True)]
        if i % 3 == 0:
            cfgs.append((rng.randrange(8), rng.randrange(2), rng.random() < 0.7, rng.randrange(2), 0, True))
        if i % 3 == 1:
            # the reader's msgmode / parsebitfield options must reach the protocol parser of every frame
            cfgs.append((7, rng.randrange(2), True, rng.randrange(2), rng.choice([1, 2, 3, 3]), rng.random() < 0.5))
        for pf, qe, parsing, val, mm, bf in cfgs:
            cases.append({"stream": stream, "pf": pf, "qe": qe, "parsing": parsing, "validate": val, "parts": parts,
                          "msgmode": mm, "bf": bf})
    obs = rp.correspond_runs(ctx, cases, "READ")
    for c, o in zip(cases, obs):
        exp = rp.expected_clean(c["parts"], c["pf"], c["parsing"], c["validate"], c["msgmode"], c["bf"])
        got = rp.items_key(o["items"])
        inp = {"op": "READ", "stream": c["stream"].hex(), "pf": c["pf"], "qe": c["qe"], "parsing": c["parsing"],
               "validate": c["validate"], "msgmode": c["msgmode"], "parsebitfield": c["bf"], "kinds": [k for k, _ in c["parts"]]}
        if got != exp:
            ctx.fail("clean-stream-items", inp, [(r.hex(), p) for r, p in exp][:8], [(r.hex(), p) for r, p in got][:8])
        elif o["raised"] is not None:
            ctx.fail("clean-stream-raised", inp, "iteration ends", o["raised"])
        elif o["final"]:
            ctx.fail("clean-stream-unread", inp, "nothing unread", o["final"].hex())
        for k, _ in c["parts"]:
            ctx.count("kind:" + k)
    growing(ctx, rng)


def growing(ctx, rng):
    """A reader that reported the end of data is polled again after whole frames were appended to the stream: they
    are delivered (iterator protocol and read() alike)."""
    rl.install()
    try:
        n = 0
        for _ in range(60 if ctx.quick() else 600):
            a = rl.clean_stream(rng, k=rng.randrange(0, 4))
            b = rl.clean_stream(rng, k=rng.randrange(1, 4))
            fa, fb = b"".join(f for _, f in a), b"".join(f for _, f in b)
            for use_iter in (True, False):
                i1, i2, unread, err = rl.run_growing(fa, fb, use_iter)
                n += 1
                inp = {"op": "READ-GROWING", "first": fa.hex()[:300], "appended": fb.hex()[:300], "iterator": use_iter}
                exp = rp.expected_clean(a + b, 7, True)
                got = rp.items_key(i1 + i2)
                if err:
                    ctx.fail("growing-stream-raised", inp, "iteration ends", err)
                elif got != exp:
                    ctx.fail("appended-frames-not-delivered", inp, [(r.hex()[:40], p) for r, p in exp][:8], [(r.hex()[:40], p) for r, p in got][:8])
                elif unread:
                    ctx.fail("clean-stream-unread", inp, "nothing unread", "%d bytes" % unread)
        ctx.evaluations += n
        ctx.count("growing_stream_runs", n)
    finally:
        rl.uninstall()

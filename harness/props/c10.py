"""C10 — reader output does not depend on how the transport chunks the bytes."""
import socket
import threading

from pyubx2 import SocketWrapper, UBXReader

import impl
import readerlib as rl
import readerprops as rp

PROPFILES = ["props/C10.v", "props/C10_src.v"]
ASSUMPTIONS = rp.ASSUMPTIONS + [
    "the kernel's TCP delivery and thread scheduling are not modelled: the theorem quantifies over ALL sequences "
    "of recv() results (which is what the OS can produce); a socketpair()+sender-thread run validates that the "
    "scripted socket and the real socket API agree (runtime part: partial)"]
TRUSTED = rp.TRUSTED
RULE = ("SOCK correspondence: UBXReader over SocketWrapper over a scripted socket vs the model's socket state machine, "
        "for ALL 2^(n-1) segmentations of short streams and random segmentations of long mixed streams x bufsize "
        "{1,2,3,7,4096} x end {close, timeout, OSError} (+ early empty/failed recv); search: items over the socket == "
        "items over BytesIO; SocketWrapper.read(n) returns exactly n bytes or nothing, readline() up to LF; "
        "real socketpair with a concurrent sender thread. non-trivial = runs with >=1 item.")


def pre_split(chunks, bufsize):
    out = []
    for c in chunks:
        if c is None or c == "O" or len(c) == 0:
            out.append(c)
        else:
            out.extend(c[i:i + bufsize] for i in range(0, len(c), bufsize))
    return out


def run(ctx):
    rng = ctx.rng
    pool = dict(rl.frame_pool())
    short = [pool["ubx0"] + b"\x24\x47\x41\x0a", b"\xd3\x00\x01\x78" + b"\x00\x00\x00" + b"\xb5\x62\x01",
             b"\x00\xb5\x62\x05\x01\x02\x00\x06\x01\x0f\x38", pool["rtcm0"] + pool["ubx0"][:5]]
    cases = []
    nseg = 0
    for s in short:
        s = s[: (10 if ctx.quick() else 12)]
        for cuts in rl.segmentations(len(s)):
            chunks = rl.split_at(s, cuts)
            end = ("close", "timeout", "oserror")[nseg % 3]
            bs = (4096, 1, 2, 3, 7)[nseg % 5]
            nseg += 1
            cases.append(mk_case(s, chunks, bs, end, 7, 1, True))
    ctx.exhaustive_parts.append("all segmentations of %d streams of <= %d bytes (%d schedules)" % (
        len(short), 10 if ctx.quick() else 12, nseg))
    for _ in range(150 if ctx.quick() else 2500):
        s = rl.garbage_stream(rng) if rng.random() < 0.4 else b"".join(f for _, f in rl.clean_stream(rng))
        if not s:
            continue
        ncut = rng.randrange(0, 7)
        cuts = sorted(rng.sample(range(1, len(s)), min(len(s) - 1, ncut))) if len(s) > 1 else []
        chunks = rl.split_at(s, cuts)
        if rng.random() < 0.15:   # a failure/empty recv in the middle: later data never arrives
            chunks.insert(rng.randrange(len(chunks) + 1), rng.choice([b"", None, "O"]))
        cases.append(mk_case(s, chunks, rng.choice([1, 2, 3, 7, 4096]), rng.choice(["close", "timeout", "oserror"]),
                             7 if rng.random() < 0.6 else rng.randrange(8), rng.randrange(3), rng.random() < 0.8))
    obs = rp.correspond_runs(ctx, cases, "SOCK")
    # ---- search: same items as from a file holding the bytes the socket delivers ----
    rl.install()
    try:
        for c, o in zip(cases, obs):
            if len(c["until_fail"]) != len(c["events"]):
                # a failed/empty recv before the last data: outside the property's quantifier (failures come
                # after the last byte); such schedules are covered by the SOCK correspondence only
                ctx.count("midstream_failure_schedules")
                continue
            delivered = b"".join(e for e in c["until_fail"])
            ref = rl.run_reader(delivered, c["pf"], c["qe"], c["parsing"])
            inp = {"op": "SOCK", "stream": delivered.hex(), "chunks": rl.events_str(c["events"]), "bufsize": c["bufsize"],
                   "end": c["end"], "pf": c["pf"], "qe": c["qe"], "parsing": c["parsing"]}
            if rp.items_key(o["items"]) != rp.items_key(ref["items"]):
                ctx.fail("socket-items-differ-from-file", inp, [(r.hex(), p) for r, p in rp.items_key(ref["items"])][:6],
                         [(r.hex(), p) for r, p in rp.items_key(o["items"])][:6])
            if o["requested"] and any(n != c["bufsize"] for n in o["requested"]):
                ctx.fail("recv-size", inp, "recv(bufsize)", str(set(o["requested"])))
    finally:
        rl.uninstall()
    wrapper_api(ctx, rng)
    real_socket(ctx, rng, 3 if ctx.quick() else 25)


def mk_case(s, chunks, bufsize, end, pf, qe, parsing):
    endev = {"close": b"", "timeout": None, "oserror": "O"}[end]
    model_events = pre_split(chunks, bufsize) + [endev]
    until = []
    for e in chunks:
        if e is None or e == "O" or len(e) == 0:
            break
        until.append(e)
    return {"events": list(chunks), "model_events": model_events, "bufsize": bufsize,
            "end": "close" if end == "close" else "timeout" if end == "timeout" else "oserror",
            "pf": pf, "qe": qe, "parsing": parsing, "until_fail": until, "stream": None}


def wrapper_api(ctx, rng):
    """SocketWrapper.read(n) / readline() against the abstract byte sequence."""
    for _ in range(200 if ctx.quick() else 3000):
        data = bytes(rng.choice([0x0a, 0x0a, 0x0d, 0x41, 0x00, rng.randrange(256)]) for _ in range(rng.randrange(0, 30)))
        cuts = sorted(rng.sample(range(1, len(data)), min(max(len(data) - 1, 0), rng.randrange(0, 5)))) if len(data) > 1 else []
        chunks = rl.split_at(data, cuts)
        fs = rl.FakeSock(chunks, rng.choice(["close", "timeout", "oserror"]))
        w = SocketWrapper(fs, bufsize=rng.choice([1, 2, 5, 4096]))
        pos = 0
        ok = True
        for _ in range(12):
            if rng.random() < 0.5:
                n = rng.randrange(0, 9)
                try:
                    with impl.watchdog(20.0):
                        d = w.read(n)
                except impl.Hang:
                    ctx.fail("wrapper-read-hangs", {"op": "WRAP", "data": data.hex(), "chunks": rl.events_str(chunks), "pos": pos, "call": "read(%d)" % n},
                             "returns", "no return within 20 s")
                    break
                exp = data[pos:pos + n] if pos + n <= len(data) else b""
                op = "read(%d)" % n
            else:
                try:
                    with impl.watchdog(20.0):
                        d = w.readline()
                except impl.Hang:
                    ctx.fail("wrapper-readline-hangs", {"op": "WRAP", "data": data.hex(), "chunks": rl.events_str(chunks), "pos": pos, "call": "readline()"},
                             "returns", "no return within 20 s")
                    break
                i = data.find(b"\n", pos)
                exp = data[pos:] if i < 0 else data[pos:i + 1]
                op = "readline()"
            ctx.evaluations += 1
            if d != exp:
                ctx.fail("wrapper-" + op.split("(")[0], {"op": "WRAP", "data": data.hex(), "chunks": rl.events_str(chunks), "pos": pos, "call": op},
                         exp.hex(), bytes(d).hex())
                ok = False
                break
            pos += len(d)
            if len(d) == 0 and (op != "read(0)"):
                break
        fs.close()
        ctx.count("wrapper_ok" if ok else "wrapper_bad")


def real_socket(ctx, rng, n):
    """Runtime validation: a real socketpair with a concurrent sender thread."""
    import time
    for i in range(n):
        s = b"".join(f for _, f in rl.clean_stream(rng, k=rng.randrange(2, 8)))
        a, b = socket.socketpair()
        b.settimeout(0.5)
        cuts = sorted(rng.sample(range(1, len(s)), min(len(s) - 1, rng.randrange(0, 8))))
        chunks = rl.split_at(s, cuts)
        use_close = i % 2 == 0

        def sender():
            for ch in chunks:
                a.sendall(ch)
                time.sleep(rng.random() * 0.002)
            if use_close:
                a.close()
        t = threading.Thread(target=sender)
        t.start()
        got = []
        bs = rng.choice([1, 7, 64, 4096])
        try:
            with impl.quiet(), impl.watchdog(30.0):
                for raw, parsed in UBXReader(b, quitonerror=0, bufsize=bs):
                    got.append((raw, parsed))
        except impl.Hang:
            ctx.fail("real-socket-hangs", {"op": "REALSOCK", "stream": s.hex(), "chunks": [c.hex() for c in chunks], "bufsize": bs},
                     "iteration ends", "no end within 30 s")
        finally:
            t.join()
            b.close()
            if not use_close:
                a.close()
        ref = rl.run_reader(s, 7, 0, True)
        ctx.evaluations += 1
        ctx.count("real_socket_runs")
        if rp.items_key(got) != rp.items_key(ref["items"]):
            ctx.fail("real-socket-items-differ", {"op": "REALSOCK", "stream": s.hex(), "chunks": [c.hex() for c in chunks]},
                     len(ref["items"]), len(got))

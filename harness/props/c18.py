"""C18 — scalar encodings and helper conversions are exact inverses over their domain."""
import datetime
import struct

from pyubx2 import ubxhelpers as uh
from pyubx2.ubxtypes_core import ATTTYPE
import pyubx2.ubxtypes_core as core

import gen
import impl

PROPFILES = ["props/C18.v", "props/C18_src.v"]
RULE = ("V2B/B2V/NOMVAL correspondence for every attribute type in ubxtypes_core (+ unknown letters and malformed "
        "sizes): 1- and 2-byte integer types exhaustively, wider ones at range edges +-2 and random, floats of all "
        "classes, wrong-type values, wrong-length bytes; CK/ISVALID on all byte strings <= 3 over a small alphabet + "
        "random; float engine primitives (ROUND/FMUL/FDIV/IDIV/INTOF/ROUNDINT) on boundary and random operands; search "
        "on the implementation: bytes2val(val2bytes(v)) == v with exactly the type's width, out-of-range refused, "
        "nomval encodes to zeros, calc_checksum == independent Fletcher-8, helper pairs utc2itow/itow2utc (every "
        "sampled millisecond of the week), val2sphp, get_bits vs shift/mask, protocol(), att2idx/att2name on generated "
        "names. non-trivial = distinct (command, outcome).")
ASSUMPTIONS = ["utc2itow / itow2utc run through datetime/timedelta, which is not modelled: that pair is checked on the "
               "implementation only (dense sample of the week) — partial",
               "R4 double->single rounding: modelled (binary_round 24 128) and tied by correspondence; no theorem"]


def types_in_use():
    import re
    return sorted({v for k, v in vars(core).items() if isinstance(v, str) and re.fullmatch(r"[ACEILRUX]\d{3}|CH", v)})


def tspec(t):
    if t == "CH":
        return "CH"
    try:
        n = str(int(t[1:4]))
    except ValueError:
        n = "n"
    return "%d:%s" % (ord(t[0]) if t else 0, n)


def run(ctx):
    rng = ctx.rng
    cmds = []
    types = types_in_use() + ["Z002", "Y001", "Uxyz", "I00a"]
    ints = []
    for t in types:
        ts = tspec(t)
        cmds.append("NOMVAL " + ts)
        if t == "CH" or t[0] not in "EILU":
            continue
    # integers
    for t in [x for x in types_in_use() if x[0] in "EILU"]:
        n = int(t[1:4])
        sg = t[0] == "I"
        lo, hi = (-(1 << (8 * n - 1)), (1 << (8 * n - 1)) - 1) if sg else (0, (1 << (8 * n)) - 1)
        if n <= (1 if ctx.quick() else 2) or (n == 2 and t in ("U002", "I002")):
            vals = range(lo - 2, hi + 3) if n == 1 or not ctx.quick() else list(range(lo - 2, lo + 300)) + list(range(hi - 300, hi + 3)) + [rng.randrange(lo, hi) for _ in range(2000)]
            if n == 1:
                ctx.exhaustive_parts.append("all values of %s (+-2 beyond the range)" % t)
        else:
            vals = [lo - 2, lo - 1, lo, lo + 1, -1, 0, 1, hi - 1, hi, hi + 1, hi + 2] + [rng.randrange(lo, hi + 1) for _ in range(40)]
        for v in vals:
            cmds.append("V2B %s I:%s" % (tspec(t), impl.zstr(v)))
            ints.append((t, v))
        for _ in range(30):
            b = bytes(rng.getrandbits(8) for _ in range(rng.choice([n, n, n, max(n - 1, 0), n + 1, 0])))
            cmds.append("B2V %s %s" % (tspec(t), gen.hx(b)))
    if not ctx.quick():
        for b0 in range(256):
            for b1 in range(256):
                cmds.append("B2V %s %02x%02x" % (tspec("I002"), b0, b1))
                cmds.append("B2V %s %02x%02x" % (tspec("U002"), b0, b1))
        ctx.exhaustive_parts.append("all 65536 two-byte patterns for I002/U002 decode")
    # other types x value pool
    pool = [0, 1, -1, 255, 256, True, None, 0.0, -0.0, 1.5, 1e-45, 3.4028235e38, 3.5e38, 1e308, float("inf"), -float("inf"),
            float("nan"), 10**400, "", "a", "abc", "éx", b"", b"\x01", b"\x01\x02", b"abcdef", bytes(30), bytes(32),
            [], [1], [0] * 250, [1] * 256, [256] * 256, [1.0] * 250, ["a"] * 256, [-1] * 250, (1, 2)]
    for t in types:
        for v in pool:
            cmds.append("V2B %s %s" % (tspec(t), impl.show_val(v)))
        for L in sorted({0, 1, 2, 3, 4, 7, 8, 9} | ({int(t[1:4])} if t != "CH" and t[1:4].isdigit() else set())):
            cmds.append("B2V %s %s" % (tspec(t), gen.hx(bytes(rng.getrandbits(8) for _ in range(min(L, 300))))))
    for _ in range(200 if ctx.quick() else 3000):
        x = struct.unpack("<d", struct.pack("<Q", rng.getrandbits(64)))[0]
        cmds.append("V2B %s %s" % (tspec("R004"), impl.show_val(x)))
        cmds.append("V2B %s %s" % (tspec("R008"), impl.show_val(x)))
        cmds.append("B2V %s %s" % (tspec("R004"), bytes(rng.getrandbits(8) for _ in range(4)).hex()))
        cmds.append("B2V %s %s" % (tspec("R008"), bytes(rng.getrandbits(8) for _ in range(8)).hex()))
    # checksum
    alpha = [0, 1, 0x7f, 0x80, 0xff]
    for s in gen.all_strings(alpha, 3 if ctx.quick() else 5):
        cmds.append("CK " + gen.hx(s))
        cmds.append("ISVALID " + gen.hx(s))
    ctx.exhaustive_parts.append("checksum of all strings <= %d over %s" % (3 if ctx.quick() else 5, alpha))
    for _ in range(300 if ctx.quick() else 3000):
        s = bytes(rng.getrandbits(8) for _ in range(rng.randrange(0, 300)))
        cmds.append("CK " + gen.hx(s))
        f = gen.ubx_frame(rng.randrange(256), rng.randrange(256), s[:40], bad=rng.random() < 0.3)
        cmds.append("ISVALID " + f.hex())
    for s in gen.long_bodies(rng, ctx.quick()):
        cmds.append("CK " + gen.hx(s))
    # float engine
    fb = lambda x: "%x" % struct.unpack("<Q", struct.pack("<d", x))[0]
    for _ in range(400 if ctx.quick() else 6000):
        raw = rng.randrange(-2**31, 2**31)
        sc = rng.choice([1e-1, 1e-2, 1e-3, 1e-5, 1e-7, 1e-9, 2**-31, 2**-43, 0.0625, 3600.0, 2**-5, 1e-4])
        x = raw * sc
        cmds.append("FMUL %s %s" % (fb(float(raw)), fb(sc)))
        cmds.append("ROUND c %s" % fb(x))
        cmds.append("FDIV %s %s" % (fb(round(x, 12)), fb(sc)))
        cmds.append("INTOF %s" % fb(x / sc if sc else 0.0))
        cmds.append("ROUNDINT %s" % fb(x * 1000))
        a, b = rng.randrange(-10**rng.randrange(1, 40), 10**rng.randrange(1, 40)), rng.choice([15, 16, 60, 600, 3600, 4096, 65536, 3, -7])
        cmds.append("IDIV %s %s" % (impl.zstr(a), impl.zstr(b)))
        cmds.append("FOFZ %s" % impl.zstr(a))
        y = struct.unpack("<d", struct.pack("<Q", rng.getrandbits(64)))[0]
        if y == y and abs(y) != float("inf"):
            cmds.append("ROUND c %s" % fb(y))
    ctx.correspond(cmds, canon=lambda c, l: impl.canon_model_line(l), nontrivial=lambda c, o: not o.startswith("RAISE"), label="CODEC")

    # ---- search on the implementation ----
    for t, v in ints:
        n = int(t[1:4])
        sg = t[0] == "I"
        lo, hi = (-(1 << (8 * n - 1)), (1 << (8 * n - 1)) - 1) if sg else (0, (1 << (8 * n)) - 1)
        try:
            b = uh.val2bytes(v, t)
        except OverflowError:
            if lo <= v <= hi:
                ctx.fail("in-range-refused", {"cmd": "V2B %s I:%s" % (tspec(t), impl.zstr(v))}, "accepted", "OverflowError")
            continue
        except Exception as e:  # pylint: disable=broad-except
            ctx.fail("wrong-exception", {"cmd": "V2B %s I:%s" % (tspec(t), impl.zstr(v))}, "bytes or OverflowError", type(e).__name__)
            continue
        if not lo <= v <= hi:
            ctx.fail("out-of-range-accepted", {"cmd": "V2B %s I:%s" % (tspec(t), impl.zstr(v))}, "refused", b.hex())
        elif len(b) != n or uh.bytes2val(b, t) != v or b != ref_int(v, n):
            ctx.fail("int-roundtrip", {"cmd": "V2B %s I:%s" % (tspec(t), impl.zstr(v))}, "%d bytes decoding to %d" % (n, v), b.hex())
    for t in types_in_use():
        if t == "CH":
            continue
        z = uh.val2bytes(uh.nomval(t), t)
        if z != bytes(int(t[1:4])):
            ctx.fail("nomval-not-zero", {"cmd": "NOMVAL " + tspec(t)}, "all zero bytes", z.hex())
    for _ in range(500 if ctx.quick() else 5000):
        s = bytes(rng.getrandbits(8) for _ in range(rng.randrange(0, 100)))
        if uh.calc_checksum(s) != gen.fletcher(s):
            ctx.fail("checksum-differs", {"cmd": "CK " + gen.hx(s)}, gen.fletcher(s).hex(), uh.calc_checksum(s).hex())
        f = b"\xb5\x62" + s + gen.fletcher(s)
        if not uh.isvalid_checksum(f):
            ctx.fail("isvalid-rejects-valid", {"cmd": "ISVALID " + f.hex()}, "True", "False")
        if len(s) and uh.isvalid_checksum(f[:-1] + bytes([f[-1] ^ 1])):
            ctx.fail("isvalid-accepts-bad", {"cmd": "ISVALID " + f.hex()}, "False", "True")
    for s in gen.long_bodies(rng, ctx.quick()):
        if uh.calc_checksum(s) != gen.fletcher(s):
            ctx.fail("checksum-differs", {"cmd": "CK len=%d %s..." % (len(s), s[:16].hex())}, gen.fletcher(s).hex(), uh.calc_checksum(s).hex())
        f = b"\xb5\x62" + s + gen.fletcher(s)
        if not uh.isvalid_checksum(f):
            ctx.fail("isvalid-rejects-valid", {"cmd": "ISVALID len=%d %s..." % (len(f), f[:16].hex())}, "True", "False")
        g = b"\xb5\x62" + s + uh.calc_checksum(s)
        if g != f and uh.isvalid_checksum(g):
            ctx.fail("isvalid-accepts-bad", {"cmd": "ISVALID len=%d %s..." % (len(g), g[:16].hex())}, "False", "True")
    # signed zeros and the nominal value of the float types, in both orders within one process (an encoder must not
    # remember an earlier, numerically equal value)
    for t in ("R004", "R008"):
        w = int(t[1:4])
        fmt = "<f" if w == 4 else "<d"
        for seq in ((0.0, -0.0, 0.0), (-0.0, 0.0, -0.0), (0, -0.0), (-0.0, 0)):
            for v in seq:
                got = uh.val2bytes(v, t)
                exp = struct.pack(fmt, v)
                if got != exp:
                    ctx.fail("float-encoding-depends-on-history", {"cmd": "V2B %s %r after %r" % (t, v, seq)}, exp.hex(), got.hex())
        if uh.val2bytes(uh.nomval(t), t) != bytes(w):
            ctx.fail("nomval-not-zero", {"cmd": "NOMVAL " + t}, "all zero bytes", uh.val2bytes(uh.nomval(t), t).hex())
    helper_pairs(ctx, rng)
    ctx.evaluations += len(ints)


def ref_int(v, n):
    return bytes(((v >> (8 * i)) & 0xFF) for i in range(n))


def helper_pairs(ctx, rng):
    # utc2itow / itow2utc over the week
    epoch = datetime.datetime(1980, 1, 6)
    step = 9973 if ctx.quick() else 997
    ms_list = list(range(18000, 604800000, step * 50)) + [rng.randrange(18000, 604800000) for _ in range(3000 if ctx.quick() else 40000)]
    ms_list += [264755562, 18000, 604799999, 1000 * 3600 * 24 - 1, 1000 * 3600 * 24, 1000 * 3600 * 24 + 1]
    # the first and the last 18 s (the leap-second offset) of a UTC week, and both sides of the week boundary
    ms_list += [0, 1, 17999, 18001, 604782000 - 1, 604782000, 604782000 + 1, 604800000 - 1, 604800000, 604800000 + 1,
                604817999, 604818000 - 1]
    ms_list += [rng.randrange(604782000, 604818000) for _ in range(200)] + [rng.randrange(0, 18000) for _ in range(200)]
    n = 0
    for ms in ms_list:
        # ms = milliseconds since the start of the UTC week + 18 s  (the time of week in the GPS time scale)
        w = rng.randrange(0, 2400)
        t = epoch + datetime.timedelta(weeks=w, milliseconds=ms - 18000)
        wno, itow = uh.utc2itow(t)
        n += 1
        # the pair must name the instant it was computed from: EPOCH0 + wno weeks + itow ms - 18 s
        if epoch + datetime.timedelta(weeks=wno, milliseconds=itow - 18000) != t:
            ctx.fail("utc2itow-names-another-instant", {"op": "HELPER", "fn": "utc2itow", "utc": t.isoformat()},
                     t.isoformat(), "wno=%d itow=%d" % (wno, itow))
            break
        if ms >= 18000 and (itow != ms or wno != w):
            ctx.fail("utc2itow-wrong-ms", {"op": "HELPER", "fn": "utc2itow", "utc": t.isoformat()}, (w, ms), (wno, itow))
            break
        back = uh.itow2utc(itow)
        if back != t.time():
            ctx.fail("itow2utc-not-inverse", {"op": "HELPER", "fn": "itow2utc", "itow": itow}, t.time().isoformat(), back.isoformat())
            break
    ctx.count("itow_cases", n)
    # val2sphp: sp*scale + hp*scale/100 reconstructs the value to within half a high-precision unit
    for _ in range(2000 if ctx.quick() else 20000):
        v = rng.uniform(-180, 180)
        sp, hp = uh.val2sphp(v, 1e-7)
        rec = sp * 1e-7 + hp * 1e-9
        if abs(rec - v) > 0.51e-9 or not -100 <= hp <= 100:
            ctx.fail("val2sphp-inconsistent", {"op": "HELPER", "fn": "val2sphp", "val": v.hex()}, "within 0.5e-9", repr((sp, hp)))
            break
    # get_bits vs shift/mask, contiguous and non-contiguous masks
    for _ in range(2000 if ctx.quick() else 20000):
        nb = rng.choice([1, 2, 4])
        b = bytes(rng.getrandbits(8) for _ in range(nb))
        mask = rng.getrandbits(8 * nb) or 1
        tz = (mask & -mask).bit_length() - 1
        exp = (int.from_bytes(b, "big") >> tz) & (mask >> tz)
        got = uh.get_bits(b, mask)
        if got != exp:
            ctx.fail("get_bits-wrong", {"op": "HELPER", "fn": "get_bits", "bitfield": b.hex(), "mask": mask}, exp, got)
            break
    # protocol() agrees with the framing dispatch for every 2-byte prefix
    from pynmeagps import NMEA_HDR
    for b1 in range(256):
        for b2 in range(256):
            raw = bytes([b1, b2, 0, 0])
            exp = 2 if raw[:2] == b"\xb5\x62" else 1 if raw[:2] in NMEA_HDR else 4 if (b1 == 0xd3 and b2 < 4) else 0
            if uh.protocol(raw) != exp:
                ctx.fail("protocol-wrong", {"op": "HELPER", "fn": "protocol", "raw": raw.hex()}, exp, uh.protocol(raw))
                return
    ctx.exhaustive_parts.append("protocol() on all 65536 two-byte prefixes")
    # att2idx / att2name on generated names
    for _ in range(1000 if ctx.quick() else 10000):
        base = rng.choice(["svid", "gnssId", "cno", "x", "reserved0", "iTOW"])
        idx = [rng.randrange(1, rng.choice([10, 100, 300])) for _ in range(rng.randrange(0, 4))]
        name = base + "".join("_%02d" % i for i in idx)
        exp = 0 if not idx else idx[0] if len(idx) == 1 else tuple(idx)
        if uh.att2idx(name) != exp or uh.att2name(name) != base:
            ctx.fail("att2idx-att2name", {"op": "HELPER", "fn": "att2idx", "name": name}, repr((exp, base)),
                     repr((uh.att2idx(name), uh.att2name(name))))
            break
    ctx.evaluations += 70000

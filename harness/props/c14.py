"""C14 — configuration-database messages carry exactly the keys and values given."""
from pyubx2 import UBXMessage, UBXReader
from pyubx2 import exceptions as ube
from pyubx2.ubxhelpers import cfgkey2name, cfgname2key
from pyubx2.ubxtypes_configdb import UBX_CONFIG_DATABASE, UBX_CONFIG_STORSIZE

import gen
import common
import impl
from props.c04 import cfgval, kstr

PROPFILES = ["props/C14.v"]
RULE = ("all 1242 database keys x both addressings (CFGNAME2KEY/CFGKEY2NAME, exhaustive) + undocumented key ids with size "
        "codes 0..7; CFGSET/CFGDEL/CFGPOLL correspondence over list lengths {0,1,2,63,64,65}, header values, boundary and "
        "random values of the key's type, wrong-type/out-of-range values; PARSE of CFG-VALSET / CFG-VALGET frames holding "
        "known and unknown keys; search on the implementation: payload == independent layout (header + LE32 key id + "
        "value at the size code's width), >64 refused, parse yields one attribute per key named by the key (CFG_0x.. for "
        "unknown ids) equal to its value, name->id->name identity. non-trivial = distinct accepted cases.")

SIZ = {1: 1, 2: 1, 3: 2, 4: 4, 5: 8}


def enc_val(ty, v):
    import struct
    c, n = ty[0], int(ty[1:4])
    if c in "UEIL" and (isinstance(v, bool) or not isinstance(v, int)):
        raise ValueError("int expected")
    if c in "UEL":
        return v.to_bytes(n, "little")
    if c == "I":
        return v.to_bytes(n, "little", signed=True)
    if c == "X":
        if not isinstance(v, bytes) or len(v) != n:
            raise ValueError("X value")
        return v
    if isinstance(v, bool) or not isinstance(v, (int, float)):
        raise ValueError("numeric value expected")
    if c == "R":
        return struct.pack("<f" if n == 4 else "<d", v)
    raise ValueError(ty)


def run(ctx):
    rng = ctx.rng
    db = list(UBX_CONFIG_DATABASE.items())
    cmds = []
    for name, (kid, ty) in db:
        cmds.append("CFGNAME2KEY " + name)
        cmds.append("CFGKEY2NAME %x" % kid)
    ctx.exhaustive_parts.append("all %d keys x name->id and id->name" % len(db))
    for code in range(0, 16):
        for _ in range(6):
            k = (code << 28) | rng.getrandbits(28)
            cmds.append("CFGKEY2NAME %x" % k)
    for k in (0, 1, 5, 0xffffffff, 0x12345, -5, 1 << 40):
        cmds.append("CFGKEY2NAME " + impl.zstr(k))
    # undocumented ids that differ from a documented one in a single bit (reserved bits, group, item): an id is
    # known only if ALL its 32 bits are a database id
    dbids = {kid for _, (kid, _) in db}
    near = []
    for name, (kid, ty) in rng.sample(db, 40 if ctx.quick() else 400):
        for bit in rng.sample(range(32), 8 if ctx.quick() else 32):
            k2 = kid ^ (1 << bit)
            if k2 not in dbids:
                near.append(k2)
                cmds.append("CFGKEY2NAME %x" % k2)
    cmds.append("CFGNAME2KEY CFG_NO_SUCH_KEY")
    cases = []
    for it in range(120 if ctx.quick() else 1500):
        n = rng.choice([0, 1, 1, 2, 3, 5, 63, 64, 65, 66])
        items = []
        for _ in range(n):
            name, (kid, ty) = rng.choice(db)
            r = rng.random()
            if r < 0.8:
                key, val = (name if rng.random() < 0.5 else kid), cfgval(rng, ty)
            elif r < 0.9:     # undocumented id with a valid size code
                code = rng.choice([1, 2, 3, 4, 5])
                key = (code << 28) | rng.getrandbits(28)
                val = bytes(rng.getrandbits(8) for _ in range(SIZ[code]))
            else:             # bad value
                key, val = name, rng.choice([-1, 2**70, 1.5, b"\x01", "x", None])
            items.append((key, val))
        if items and it % 3 == 0:
            # the same key more than once (same spelling and the other spelling), with different values: each
            # occurrence is an item of its own, in the position given
            k0, v0 = rng.choice(items)
            if good_item(k0, v0):
                ty0 = key_ty(k0)
                for _ in range(rng.randrange(1, 4)):
                    if len(items) < 66:
                        items.insert(rng.randrange(len(items) + 1), (k0, cfgval(rng, ty0) if ty0 else v0))
        lay, tr, pos = rng.choice([0, 1, 2, 4, 7, 255]), rng.choice([0, 1, 2, 3]), rng.choice([0, 1, 64, 65535])
        cases.append((lay, tr, pos, items))
        cmds.append("CFGSET %x %x %s" % (lay, tr, " ".join("%s=%s" % (kstr(k), impl.show_val(v)) for k, v in items)))
        cmds.append("CFGDEL %x %x %s" % (lay, tr, " ".join(kstr(k) for k, _ in items)))
        cmds.append("CFGPOLL %x %x %s" % (lay, pos, " ".join(kstr(k) for k, _ in items)))
    # boundary values of every key type, alone in the list, by name and by id
    bytype = {}
    for name, (kid, ty) in db:
        bytype.setdefault(ty, []).append((name, kid))
    for ty, ks in sorted(bytype.items()):
        c, n = ty[0], int(ty[1:4])
        if c == "I":
            vals = [-(1 << (8 * n - 1)), -(1 << (8 * n - 1)) + 1, -1, 0, (1 << (8 * n - 1)) - 1]
        elif c in "UEL":
            vals = [0, 1, (1 << (8 * n)) - 1]
        elif c == "X":
            vals = [bytes(n), b"\xff" * n]
        else:
            # zeros of both signs and of both numeric types one after the other (equal as Python values, different as
            # encodings: what one call wrote must not decide what the next writes), then ordinary values
            vals = [0.0, -0.0, 0, -0.0, 0.0, -1.5, 3.0e38 if n == 4 else 1e308]
        for name, kid in rng.sample(ks, min(len(ks), 3)):
            for v in vals:
                for key in (name, kid):
                    lay, tr, pos = rng.choice([0, 1, 7]), rng.choice([0, 1, 3]), 0
                    cases.append((lay, tr, pos, [(key, v)]))
                    cmds.append("CFGSET %x %x %s=%s" % (lay, tr, kstr(key), impl.show_val(v)))
    # parse of VALSET / VALGET frames with any list of known/unknown keys (built independently)
    frames = []
    for it in range(150 if ctx.quick() else 2000):
        n = rng.choice([0, 1, 2, 3, 10, 64])
        body = b""
        exp = []
        for _ in range(n):
            if rng.random() < 0.75:
                name, (kid, ty) = rng.choice(db)
                v = cfgval(rng, ty)
                if ty[0] == "R":
                    v = float(v)      # the value pool also holds an int zero for float keys (builders accept it); a parse returns floats
                body += kid.to_bytes(4, "little") + enc_val(ty, v)
                if ty == "R004":      # the value as representable at the key's storage width
                    import struct
                    v = struct.unpack("<f", struct.pack("<f", v))[0]
                exp.append((kid, name, v, ty))
            else:
                code = rng.choice([1, 2, 3, 4, 5])
                kid = (code << 28) | rng.getrandbits(28)
                if near and rng.random() < 0.5:
                    kid = rng.choice(near)
                    code = (kid >> 28) & 7
                    if code not in SIZ or int(hex(kid)[2:3], 16) != code:
                        continue
                if kid in {k for _, (k, _) in db}:
                    continue
                v = bytes(rng.getrandbits(8) for _ in range(SIZ[code]))
                body += kid.to_bytes(4, "little") + v
                exp.append((kid, "CFG_%s" % hex(kid), v, "X%03d" % SIZ[code]))
        hdr = bytes([rng.choice([0, 1]), rng.choice([0, 1, 7]), rng.randrange(4), 0])
        for (cid, mode) in ((0x8a, 1), (0x8b, 0)):
            f = gen.ubx_frame(6, cid, hdr + body)
            frames.append((f, mode, exp, hdr))
            cmds.append("PARSE %d 1 1 %s" % (mode, f.hex()))
    ctx.correspond(cmds, canon=lambda c, l: impl.canon_model_line(l), nontrivial=lambda c, o: o.startswith("OK"), label="CFG")
    ctx.disagreements = [d for d in ctx.disagreements if d["model"] != "RAISE Other"]

    # ---- search on the implementation ----
    ids = {}
    for name, (kid, ty) in db:
        code = (kid >> 28) & 7
        if UBX_CONFIG_STORSIZE.get(code) != int(ty[1:4]):
            ctx.fail("size-code-mismatch", {"op": "CFGDB", "name": name}, "storage size of size code %d" % code, ty)
        try:
            n2k = cfgname2key(name)
        except Exception as e:  # pylint: disable=broad-except
            n2k = "%s: %s" % (type(e).__name__, str(e)[:60])
        if n2k != (kid, ty):
            ctx.fail("name2key", {"op": "CFGDB", "name": name}, (kid, ty), n2k)
        try:
            back = cfgkey2name(kid)
        except Exception as e:  # pylint: disable=broad-except
            back = "%s: %s" % (type(e).__name__, str(e)[:60])
        if back != (name, ty):
            ctx.fail("lookup-not-inverse", {"op": "CFGDB", "name": name, "id": hex(kid)}, (name, ty), back)
            ctx.failures[-1]["keyid"] = kid
        ids.setdefault(kid, []).append(name)
    for k2 in near:
        code = (k2 >> 28) & 7
        try:
            got = cfgkey2name(k2)
        except Exception as e:  # pylint: disable=broad-except  (ids with bit 31 set: outside the property, see DESIGN 0.3)
            got = type(e).__name__
        want = ("CFG_%s" % hex(k2), "X%03d" % SIZ[code]) if code in SIZ and int(hex(k2)[2:3], 16) == code else None
        if want is not None and got != want:
            ctx.fail("undocumented-id-resolved-to-a-documented-key", {"op": "CFGKEY2NAME", "id": hex(k2)}, want, got)
    for lay, tr, pos, items in cases:
        ok_items = all(good_item(k, v) for k, v in items)
        inp = {"op": "CFGSET", "layers": lay, "transaction": tr, "n": len(items), "items": common.srepr(items, 300)}
        try:
            with impl.quiet():
                m = UBXMessage.config_set(lay, tr, items)
        except ube.UBXMessageError:
            if len(items) <= 64 and ok_items:
                ctx.fail("config_set-refused", inp, "accepted", "UBXMessageError")
            continue
        except Exception as e:  # pylint: disable=broad-except
            if ok_items and len(items) <= 64:
                ctx.fail("config_set-raises", inp, "a message", type(e).__name__)
            continue
        if len(items) > 64:
            ctx.fail("more-than-64-accepted", inp, "UBXMessageError", "accepted")
            continue
        if ok_items:
            exp = bytes([0 if tr == 0 else 1, lay, tr, 0]) + b"".join(
                key_id(k).to_bytes(4, "little") + enc_val(key_ty(k), v) for k, v in items)
            if m.payload != exp:
                ctx.fail("config_set-layout", inp, exp[:60].hex(), m.payload[:60].hex())
        try:
            with impl.quiet():
                d = UBXMessage.config_del(lay, tr, [k for k, _ in items])
                p = UBXMessage.config_poll(lay, pos, [k for k, _ in items])
            if all(good_key(k) for k, _ in items):
                kb = b"".join(key_id(k).to_bytes(4, "little") for k, _ in items)
                if d.payload != bytes([0 if tr == 0 else 1, lay, tr, 0]) + kb:
                    ctx.fail("config_del-layout", inp, "header + key ids", d.payload[:40].hex())
                if p.payload != bytes([0, lay]) + pos.to_bytes(2, "little") + kb:
                    ctx.fail("config_poll-layout", inp, "header + key ids", p.payload[:40].hex())
        except Exception as e:  # pylint: disable=broad-except
            if all(good_key(k) for k, _ in items) and len(items) <= 64 and 0 <= lay <= 255 and 0 <= tr <= 255 and 0 <= pos <= 65535:
                ctx.fail("config_del/poll-refused", dict(inp, position=pos), "a message (all keys valid, <= 64 of them)",
                         "%s: %s" % (type(e).__name__, str(e)[:80]))
    for f, mode, exp, hdr in frames:
        inp = {"op": "PARSE", "hex": f[:120].hex(), "mode": mode}
        try:
            with impl.quiet():
                m = UBXReader.parse(f, msgmode=mode)
        except Exception as e:  # pylint: disable=broad-except
            ctx.fail("cfgval-parse-raises", inp, "one attribute per key", type(e).__name__)
            continue
        got = {k: v for k, v in m.__dict__.items() if k.startswith("CFG_")}
        want = {}
        for kid, name, v, ty in exp:
            nm = name if len(ids.get(kid, [name])) == 1 or not name.startswith("CFG_BDS") else ids[kid][0]
            want[nm] = v
        if not same_map(got, want):
            only_w = {k: v for k, v in want.items() if k not in got or not same_val(got[k], v)}
            only_g = {k: v for k, v in got.items() if k not in want or not same_val(want[k], v)}
            ctx.fail("cfgval-parse-attrs", inp, str(sorted(only_w.items()))[:300], str(sorted(only_g.items()))[:300])
    ctx.evaluations += len(cases) + len(frames) + len(db)


def same_val(a, b):
    if isinstance(a, float) and isinstance(b, float):
        return a == b or (a != a and b != b)
    return a == b and type(a) == type(b) or (isinstance(a, bool) != isinstance(b, bool) and a == b)


def same_map(a, b):
    return a.keys() == b.keys() and all(same_val(a[k], b[k]) for k in a)


def key_id(k):
    return UBX_CONFIG_DATABASE[k][0] if isinstance(k, str) else k


def key_ty(k):
    if isinstance(k, str):
        return UBX_CONFIG_DATABASE[k][1]
    for _, (kid, ty) in UBX_CONFIG_DATABASE.items():
        if kid == k:
            return ty
    return "X%03d" % SIZ[(k >> 28) & 7]


def good_key(k):
    return isinstance(k, str) or 0 <= k < 2**32


def good_item(k, v):
    try:
        enc_val(key_ty(k), v)
        return True
    except Exception:  # pylint: disable=broad-except
        return False


def matches_known(k, f):
    return k["id"] == "KF-C14-dup-keyid" and f["what"] == "lookup-not-inverse" and f.get("keyid") == 0x10340014


def replay_known(ctx, k):
    return None

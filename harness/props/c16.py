"""C16 — every declared message type is usable and its fields have distinct names."""
import common
import impl
import msggen
import sweep
from pyubx2 import UBXMessage, UBXReader
from pyubx2 import exceptions as ube

PROPFILES = ["props/C16.v"]
RULE = ("exhaustive over the GET/SET/POLL payload tables, message ids, classes and variant table as found in the "
        "working tree (regenerated into gen/Tables.v on this run): the executable grammar wf_def of the Coq model is "
        "evaluated on every entry (WFTABLE) and compared with the recorded findings; search on the implementation: a "
        "nominal instance of every (message, mode) is built from keywords and parsed back in both bitfield views, the "
        "attribute names are pairwise distinct and every definition attribute is exposed; an instance with one and with two members per group parses in both views. non-trivial = table entries.")
ASSUMPTIONS = ["this property is about data: the tie is the translator (fail-closed), not a behavioural correspondence"]

KNOWN_IDS = {"KF-C16-length-collision": ["0:CFG-FIXSEED", "1:CFG-FIXSEED", "0:CFG-TP", "1:CFG-TP"],
             "KF-C16-cfgnvs-dup-flags": ["1:CFG-NVS"],
             "KF-C16-size-in-bitfield": ["1:ESF-MEAS", "0:SEC-OSNMA"],
             "KF-C16-foobar": ["0:FOO-BAR"],
             "KF-C16-reserved-name-clash": ["0:CFG-NAV5", "1:CFG-NAV5", "0:CFG-SMGR", "1:CFG-SMGR", "0:CFG-ESFWT", "1:CFG-ESFWT"],
             "KF-C16-unreachable": ["0:AID-ALP-ACK", "0:SEC-UNIQID-V2", "0:UBX-NOMINAL", "0:RXM-PMP-V0", "0:RXM-PMP-V1",
                                    "1:CFG-NMEAv0", "1:CFG-NMEAvX"]}


def run(ctx):
    out = common.run_model(["WFTABLE"])[0]
    fails = out.split() if out and not out.startswith("ERR") else []
    if out.startswith("ERR"):
        ctx.disagreements.append({"cmd": "WFTABLE", "model": out, "impl": "", "label": "WFTABLE"})
    ctx.count("model_table_failures", len(fails))
    ctx.sample({"WFTABLE": out[:600]})
    known_entries = set(e for v in KNOWN_IDS.values() for e in v)
    for f in fails:
        m, name, rule = f.split(":")
        if "%s:%s" % (m, name) not in known_entries:
            ctx.fail("grammar-violation:" + rule, {"op": "TABLE", "mode": int(m), "name": name, "rule": rule},
                     "definition obeys the documented grammar", "rule '%s' violated (Coq wf_def on the regenerated table)" % rule)
    # ---- the implementation: nominal instance of every (message, mode) ----
    n = 0
    for mode, name, d, key in msggen.all_defs():
        tag = "%d:%s" % (mode, name)
        sp = shape_problem(d)
        if sp:
            # not even the shape the documented grammar prescribes (the translator fails closed on it, so there is
            # no model verdict): shown on the implementation by populating the offending member
            ctx.fail("grammar-violation:shape", {"op": "TABLE", "mode": mode, "name": name}, "definition obeys the documented grammar", sp)
            continue
        for bf in (True, False):
            n += 1
            ctx.evaluations += 1
            ctx.nontrivial.add(hash((tag, bf)))
            prob = nominal_problem(mode, name, d, key, bf)
            if prob and tag not in known_entries:
                ctx.fail("not-usable", {"op": "NOMINAL", "mode": mode, "name": name, "bf": bf}, "nominal instance builds and parses", prob)
            elif prob:
                ctx.failures.append({"what": "known:" + tag, "input": {"op": "NOMINAL", "mode": mode, "name": name},
                                     "expected": "", "observed": prob})
            # ... and a populated one (every counted / variable group repeated once and twice) parses
            for cnt in (1, 2):
                prob = populated_problem(mode, name, d, key, bf, cnt)
                ctx.evaluations += 1
                if prob and tag not in known_entries:
                    ctx.fail("not-usable", {"op": "POPULATED", "mode": mode, "name": name, "bf": bf, "count": cnt},
                             "an instance with %d member(s) per group parses" % cnt, prob)
                    break
    ctx.exhaustive_parts.append("all %d (mode, definition) pairs x both bitfield views" % (n // 2))
    ctx.evaluations += len(fails)


def nominal_problem(mode, name, d, key, bf):
    """build a nominal instance from keywords (with its discriminator), parse it back, compare names"""
    kw = {}
    if len(key) == 3:
        kw["type"] = key[2]
    nm = sweep.names_of(d, bf)
    if name in ("RXM-PMREQ", "RXM-PMP-V1", "NAV-RELPOSNED", "SEC-SIG-V1"): kw["version"] = 1
    if name in ("RXM-PMP-V0", "NAV-RELPOSNED-V0"): kw["version"] = 0
    if name == "SEC-SIG-V2": kw["version"] = 2
    if name == "RXM-RLM-S": kw["type"] = 1
    if name == "RXM-RLM-L": kw["type"] = 2
    if name == "AID-ALPSRV-SEND": kw["type"] = 255
    if name == "AID-ALPSRV-REQ": kw["type"] = 1
    if name == "TIM-VCOCAL-V0": kw["type"] = 0
    if name == "TIM-VCOCAL": kw["type"] = 2
    if name == "CFG-DAT-NUM": kw["datumNum"] = 3
    if name == "CFG-TP5-TPX": kw["tpIdx"] = 1
    payload_only = name in ("CFG-NMEA", "CFG-NMEAvX", "CFG-NMEAv0", "NAV-AOPSTATUS", "NAV-AOPSTATUS-L") and mode == 0 \
        or (key[0:2] == b"\x06\x8b" and mode == 0) or (key[0:2] == b"\x06\x8a" and mode == 1)
    try:
        with impl.quiet():
            if payload_only:
                import random
                g = msggen.Gen(random.Random(1), d, mode, name, key, 0, "zero")
                m = UBXMessage(key[0:1], key[1:2], mode, payload=g.payload(), parsebitfield=bf)
            else:
                if not kw and nm:
                    kw[nm[0]] = nominal_for(d, nm[0])
                if not kw:
                    return None     # an empty definition: nothing to build
                try:
                    m = UBXMessage(key[0:1], key[1:2], mode, parsebitfield=bf, **kw)
                except ube.UBXMessageError:
                    # not keyword-constructible (e.g. MGA-ANO SET: the type byte is only looked at in a payload):
                    # the nominal instance is built from a nominal payload instead
                    import random
                    g = msggen.Gen(random.Random(1), d, mode, name, key, 0, "zero")
                    m = UBXMessage(key[0:1], key[1:2], mode, payload=g.payload(), parsebitfield=bf)
                    payload_only = True
            m2 = UBXReader.parse(m.serialize(), msgmode=mode, parsebitfield=bf)
    except Exception as e:  # pylint: disable=broad-except
        return "%s: %s" % (type(e).__name__, str(e)[:120])
    a1 = [k for k in m.__dict__ if not k.startswith("_")]
    a2 = [k for k in m2.__dict__ if not k.startswith("_")]
    if m2.payload is not None and a1 != a2:
        return "built and parsed attribute names differ: %s vs %s" % (a1[:6], a2[:6])
    exp = exposed_names(d, bf)
    missing = [x for x in exp if x not in a1]
    if missing and not payload_only:
        return "definition attributes not exposed: %s" % missing[:5]
    if len(set(exp)) != len(exp):
        return "two payload fields share one attribute name: %s" % sorted(set(x for x in exp if exp.count(x) > 1))[:4]
    return None


def shape_problem(d, path=""):
    """The documented shapes: name -> type string | [type string, scale number] | (bitfield type, {flag: type string})
    | (group size: int, "None" or attribute name, {member definitions})."""
    if not isinstance(d, dict):
        return "%s: a definition must be a dict, found %s" % (path or "<top>", type(d).__name__)
    for k, v in d.items():
        here = "%s%s" % (path, k)
        if not isinstance(k, str):
            return "%s: attribute names are strings" % here
        if isinstance(v, str):
            continue
        if isinstance(v, list):
            if len(v) != 2 or not isinstance(v[0], str) or not isinstance(v[1], (int, float)) or isinstance(v[1], bool):
                return "%s: a scaled attribute is [type, scale]; found %r" % (here, v)
            continue
        if isinstance(v, tuple):
            if len(v) != 2 or not isinstance(v[1], dict):
                return "%s: a group / bitfield is (size or type, {members}); found %r" % (here, v)[:200]
            if v[0] in msggen.BITF:
                for fk, ft in v[1].items():
                    if not isinstance(fk, str) or not isinstance(ft, str):
                        return "%s.%s: a bit flag is name -> type string" % (here, fk)
                continue
            if not (isinstance(v[0], int) and not isinstance(v[0], bool)) and not isinstance(v[0], str):
                return "%s: group size must be an int, 'None' or an attribute name; found %r" % (here, v[0])
            r = shape_problem(v[1], here + ".")
            if r:
                return r
            continue
        return "%s: unexpected %s in a definition" % (here, type(v).__name__)
    return None


def populated_problem(mode, name, d, key, bf, cnt):
    import random
    try:
        g = msggen.Gen(random.Random(7), d, mode, name, key, cnt, "zero")
        p = g.payload()
        if not g.satisfies_variant(p):
            return None
    except Exception as e:  # pylint: disable=broad-except
        return "definition cannot be laid out: %s: %s" % (type(e).__name__, str(e)[:100])
    if key[0:2] in (b"\x06\x8b", b"\x06\x8a"):
        return None          # key/value lists: C14
    try:
        with impl.quiet():
            UBXReader.parse(msggen.frame(key, p), msgmode=mode, parsebitfield=bf)
    except Exception as e:  # pylint: disable=broad-except
        return "%s: %s" % (type(e).__name__, str(e)[:120])
    return None


def exposed_names(d, bf):
    """top-level attribute names a definition exposes in a bitfield view (groups repeat 0 times in a nominal instance)"""
    out = []
    for k, v in d.items():
        if isinstance(v, tuple):
            if v[0] in msggen.BITF:
                if bf:
                    out += [fk for fk in v[1] if not fk.startswith("reserved")]
                else:
                    out.append(k)
        elif not k.startswith("_HP"):
            out.append(k)
    return out


def is_flag(d, name):
    lt = msggen.leaf_types(d)
    t = lt.get(msggen.base_name(name))
    return bool(t and t[0].startswith("FLAG"))


def nominal_for(d, name):
    t = msggen.leaf_types(d).get(msggen.base_name(name))
    if not t:
        return 0
    ty = t[0]
    if ty.startswith("FLAG"):
        return 0
    if ty == "CH":
        return ""
    c = ty[0]
    n = int(ty[1:4])
    return {"X": bytes(n), "C": bytes(n), "R": 0.0, "A": [0] * n}.get(c, 0)


def matches_known(k, f):
    tags = KNOWN_IDS.get(k["id"], [])
    if f["what"].startswith("known:"):
        return f["what"][6:] in tags
    return False


def replay_known(ctx, k):
    if k["id"] == "KF-C16-reserved-name-clash":
        # the reserved flag of `mask` and the attribute reserved0 read the same keyword
        try:
            with impl.quiet():
                UBXMessage("CFG", "CFG-NAV5", 0, reserved0=39413)
        except ube.UBXTypeError:
            return {"what": "name-clash"}
        return None
    if k["id"] == "KF-C16-unreachable":
        from pyubx2 import UBX_MSGIDS, UBX_PAYLOADS_GET
        return {"what": "unreachable"} if "AID-ALP-ACK" in UBX_PAYLOADS_GET and "AID-ALP-ACK" not in UBX_MSGIDS.values() else None
    return None

"""C07 — the reader neither invents, duplicates, reorders nor abandons stream bytes."""
import gen
import readerlib as rl
import readerprops as rp

PROPFILES = ["props/C07.v"]
ASSUMPTIONS = rp.ASSUMPTIONS
TRUSTED = rp.TRUSTED
RULE = ("all byte strings up to a length bound over the alphabet {b5,62,24,47,d3,00,01,0a,ff} (exhaustive), random "
        "mixtures of valid frames, mutated frames, preamble fragments and noise; x protfilter x quitonerror{0,1} x "
        "parsing. READ correspondence + search on the implementation: raw items are in-order non-overlapping "
        "slices of the input each starting with b5/24/d3; nothing raised; BytesIO fully consumed at StopIteration.")

ALPHA = [0xb5, 0x62, 0x24, 0x47, 0xd3, 0x00, 0x01, 0x0a, 0xff]


def run(ctx):
    rng = ctx.rng
    maxlen = 4 if ctx.quick() else 5
    streams = list(gen.all_strings(ALPHA, maxlen))
    ctx.exhaustive_parts.append("all %d strings of length <= %d over %s" % (len(streams), maxlen, [hex(a) for a in ALPHA]))
    # preamble prefix + exhaustive short tails (exercises every framing branch deeper)
    for pre in (b"\xb5\x62", b"\x24\x47", b"\xd3\x00", b"\xd3\x01", b"\xd3\x02", b"\xd3\x03", b"\xb5\x00", b"\x24\x01", b"\xd3\x04"):
        for t in gen.all_strings([0x00, 0x01, 0x02, 0x0a, 0xb5, 0xd3], 3 if ctx.quick() else 4):
            streams.append(pre + t)
    # every second byte after each of the three first preamble bytes (the whole dispatch table), with tails long
    # enough for any frame the dispatch may start
    tails = [bytes(12), b"\x01\x00" + bytes(9) + b"\x0a", b"\xff" * 5]
    for b1 in (0xb5, 0x24, 0xd3):
        for b2 in range(256):
            streams.append(bytes([b1, b2]) + tails[b2 % 3])
    ctx.exhaustive_parts.append("all 3 x 256 two-byte headers (reader dispatch) with frame-length tails")
    if not ctx.quick():
        for b1 in range(256):
            for b2 in range(256):
                streams.append(bytes([b1, b2]) + tails[(b1 + b2) % 3])
        ctx.exhaustive_parts.append("all 65536 two-byte prefixes")
    for _ in range(600 if ctx.quick() else 8000):
        streams.append(rl.garbage_stream(rng))
    for _ in range(150 if ctx.quick() else 1500):
        streams.append(b"".join(f for _, f in rl.clean_stream(rng)))
    for _ in range(100 if ctx.quick() else 1000):
        streams.append(bytes(rng.randrange(256) for _ in range(rng.randrange(0, 60))))
    cases = []
    for i, s in enumerate(streams):
        if i % 4 == 0:
            cfg = (rng.randrange(8), rng.randrange(2), rng.random() < 0.7, rng.randrange(2))
        elif i % 4 == 1:
            cfg = (7, i % 2, False, 1)         # parsing off: the framing itself is what gets delivered
        elif i % 4 == 2:
            cfg = (7, i % 2, True, 0)          # no checksum/CRC validation
        else:
            cfg = (7, i % 2, True, 1)
        cases.append({"stream": s, "pf": cfg[0], "qe": cfg[1], "parsing": cfg[2], "validate": cfg[3],
                      "msgmode": rng.choice([0, 0, 0, 1, 2, 3]), "bf": rng.random() < 0.8})
    # the dispatch table again with parsing off (every header, whatever its position in the loop above)
    for b1 in (0xb5, 0x24, 0xd3):
        for b2 in range(256):
            cases.append({"stream": bytes([b1, b2]) + tails[b2 % 3], "pf": 7, "qe": 1, "parsing": False, "validate": 1})
    obs = rp.correspond_runs(ctx, cases, "READ")
    for c, o in zip(cases, obs):
        s = c["stream"]
        raws = [r for r, _ in o["items"]]
        inp = {"op": "READ", "stream": s.hex(), "pf": c["pf"], "qe": c["qe"], "parsing": c["parsing"], "validate": c.get("validate", 1)}
        if o["raised"] is not None:
            ctx.fail("raised-with-errors-not-raised", inp, "no exception", o["raised"])
            continue
        if not rp.is_slices(raws, s):
            ctx.fail("not-slices", inp, "in-order non-overlapping slices", [r.hex() for r in raws])
        if any(not rl.is_preamble2(r) for r in raws):
            ctx.fail("no-preamble", inp, "each raw starts with b5 62 / $+NMEA talker byte / d3 0[0-3]", [r.hex()[:40] for r in raws])
        if o["final"]:
            ctx.fail("bytes-left-unread", inp, "nothing left unread at end of iteration", o["final"].hex())
    growing(ctx, rng)


def growing(ctx, rng):
    """The stream grows after the reader reported end of data, at an arbitrary byte (mid-frame included): polled
    again, the reader may only stop when nothing is left unread, and what it returns are still slices in order."""
    rl.install()
    try:
        n = 0
        for _ in range(80 if ctx.quick() else 800):
            s = b"".join(f for _, f in rl.clean_stream(rng, k=rng.randrange(1, 5))) if rng.random() < 0.7 else rl.garbage_stream(rng)
            if len(s) < 2:
                continue
            k = rng.randrange(0, len(s))
            for use_iter in (True, False):
                i1, i2, unread, err = rl.run_growing(s[:k], s[k:], use_iter, qe=rng.randrange(2))
                n += 1
                inp = {"op": "READ-GROWING", "stream": s.hex()[:400], "grown_at": k, "iterator": use_iter}
                raws = [r for r, _ in i1 + i2]
                if err:
                    ctx.fail("growing-stream-raised", inp, "iteration ends", err)
                elif unread:
                    ctx.fail("end-of-stream-with-data-unread", inp, "0 bytes unread", "%d bytes unread" % unread)
                elif not rp.is_slices(raws, s):
                    ctx.fail("not-slices-in-order", inp, "slices of the input in order", [r.hex()[:40] for r in raws][:8])
        ctx.evaluations += n
        ctx.count("growing_stream_runs", n)
    finally:
        rl.uninstall()

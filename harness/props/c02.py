"""C02 — parsed attributes are exactly the field values the definition prescribes."""
from pyubx2 import UBXReader

import impl
import msggen

PROPFILES = ["props/C02.v", "props/C02_src.v"]
RULE = ("every (mode, definition) of the GET/SET/POLL tables incl. every variant (payloads built to satisfy the variant's "
        "discriminator) x repeat counts {0,1,2,5,(thorough: 17, 255)} for counted / variable / nested groups x fills {zero, "
        "all-ones, random, boundary} x parsebitfield{0,1}; PARSE correspondence (ordered attribute lists, bit-exact values) "
        "+ search: an independent spec decoder (harness/msggen.decode_spec: little-endian, two's complement, IEEE-754, "
        "scaled+12-decimal rounding, bit slices, _NN suffixes, raw bytes for bitfields when parsebitfield=0) must agree "
        "with what UBXReader.parse exposes: same names, same order, same values. non-trivial = distinct payloads parsed.")
ASSUMPTIONS = ["the scaled decoding is stated with the library's documented 12-decimal rounding (SCALROUND)"]


def same(a, b):
    # bit-exact for floats (-0.0 is not 0.0; all NaNs alike)
    if isinstance(a, float) and isinstance(b, float):
        return impl.show_val(a) == impl.show_val(b)
    return type(a) == type(b) and a == b or (isinstance(a, bool) != isinstance(b, bool) and a == b)


def run(ctx):
    rng = ctx.rng
    cmds = []
    cases = []
    counts = (0, 1, 2, 5, (0, 2), (2, 0), (1, 0, 3)) if ctx.quick() else (0, 1, 2, 5, 17, 255, (0, 2), (2, 0), (1, 0, 3), (3, 1, 0))
    fills = ("zero", "ones", "random", "edge")
    for mode, name, d, key in msggen.all_defs():
        ngroups = len(msggen.Gen(rng, d, mode, name, key, 1, "zero").counts)
        for cnt in counts:
            if isinstance(cnt, tuple) and ngroups < 2:
                continue      # mixed counts only matter with two or more counted groups
            for fill in (fills if not ctx.quick() else (rng.choice(fills), "random")):
                g = msggen.Gen(rng, d, mode, name, key, cnt, fill)
                p = g.payload()
                if not g.satisfies_variant(p):
                    ctx.count("variant_unsatisfiable")
                    continue
                if len(p) > 65535:
                    ctx.count("payload_longer_than_a_frame_can_carry")
                    continue
                for bf in (0, 1):
                    f = msggen.frame(key, p)
                    cmds.append("PARSE %d 1 %d %s" % (mode, bf, f.hex()))
                    cases.append((mode, name, d, key, p, bf, f))
                    if mode in (1, 2):
                        # the same frame with the mode left to SETPOLL, under both bitfield views (every option has to
                        # reach the parse that finally runs)
                        cmds.append("PARSE 3 1 %d %s" % (bf, f.hex()))
    # variant sweep: every row of VARIANTS x every payload length around the lengths the selectors test x every
    # discriminator byte value the selectors test (and neighbours): model and implementation must select alike
    from pyubx2.ubxvariants import VARIANTS
    nsweep = 0
    for vmode in sorted(VARIANTS):
        for vkey in sorted(VARIANTS[vmode]):
            for ln in list(range(0, 42 if ctx.quick() else 300)):
                for d0, d1 in ((0, 0), (1, 1), (2, 0xff), (0xff, 2), (rng.randrange(256), rng.randrange(256))):
                    p = bytes([d0, d1][:ln]) + bytes(max(ln - 2, 0))
                    cmds.append("PARSE %d 1 %d %s" % (vmode, nsweep % 2, msggen.frame(vkey, p).hex()))
                    nsweep += 1
    ctx.count("variant_sweep_parses", nsweep)
    ctx.exhaustive_parts.append("every VARIANTS row x payload lengths 0..%d x 5 discriminator byte pairs" % (41 if ctx.quick() else 299))
    ctx.correspond(cmds, canon=lambda c, l: impl.canon_model_line(l), nontrivial=lambda c, o: o.startswith("OK"), label="PARSE")
    ctx.count("model_declined", len([d for d in ctx.disagreements if d["model"] == "RAISE Other"]))
    ctx.disagreements = [d for d in ctx.disagreements if d["model"] != "RAISE Other"]
    known_bad = {(0, "CFG-FIXSEED"), (1, "CFG-FIXSEED"), (0, "CFG-TP"), (1, "CFG-TP"), (0, "FOO-BAR"), (1, "CFG-NVS"),
                 (0, "RXM-PMP-V0"), (0, "RXM-PMP-V1"), (1, "CFG-NMEAv0"), (1, "CFG-NMEAvX"), (0, "UBX-NOMINAL"),
                 (0, "AID-ALP-ACK"), (0, "SEC-UNIQID-V2")}
    for mode, name, d, key, p, bf, f in cases:
        if (mode, name) in known_bad:
            continue          # C16's recorded findings: these definitions are unusable or unreachable as declared
        if (mode, name) in ((1, "ESF-MEAS"), (0, "SEC-OSNMA")) and not bf:
            continue          # C16: group size lives in a bitfield
        if key[0:2] in (b"\x06\x8b", b"\x06\x8a") and ((mode == 0 and key[1] == 0x8b) or (mode == 1 and key[1] == 0x8a)):
            continue          # key/value lists: C14
        inp = {"op": "PARSE", "mode": mode, "name": name, "bf": bf, "hex": f[:160].hex()}
        try:
            exp, used = msggen.decode_spec(d, p, bf, key, mode)
        except msggen.SpecError as e:
            ctx.count("spec_error:" + str(e)[:20])
            continue
        try:
            with impl.quiet():
                m = UBXReader.parse(f, msgmode=mode, parsebitfield=bf)
        except Exception as e:  # pylint: disable=broad-except
            ctx.fail("conforming-payload-rejected", inp, "%d attributes" % len(exp), "%s: %s" % (type(e).__name__, str(e)[:100]))
            continue
        got = [(k, v) for k, v in m.__dict__.items() if not k.startswith("_")]
        if len(cases) < 4000 or hash(f) % 4 == 0:
            # the same parse under an application's own numeric / warning settings: same attributes
            import decimal
            import warnings
            try:
                with decimal.localcontext() as dctx, warnings.catch_warnings(), impl.quiet():
                    dctx.prec = 5
                    dctx.rounding = decimal.ROUND_UP
                    warnings.simplefilter("error")
                    m_amb = UBXReader.parse(f, msgmode=mode, parsebitfield=bf)
                amb = [(k, v) for k, v in m_amb.__dict__.items() if not k.startswith("_")]
                if len(amb) != len(got) or any(a[0] != b[0] or not same(a[1], b[1]) for a, b in zip(amb, got)):
                    ctx.fail("parse-depends-on-ambient-settings", inp, "same attributes under decimal prec=5 / warnings as errors",
                             str([a for a, b in zip(amb, got) if a != b][:3])[:200])
            except Exception as e:  # pylint: disable=broad-except
                ctx.fail("parse-depends-on-ambient-settings", inp, "same attributes under decimal prec=5 / warnings as errors",
                         "%s: %s" % (type(e).__name__, str(e)[:80]))
        if [k for k, _ in got] != [k for k, _ in exp]:
            if len(p) == 0:
                ctx.failures.append({"what": "known:empty-payload", "input": inp, "expected": [k for k, _ in exp], "observed": []})
                continue
            a, b = [k for k, _ in exp], [k for k, _ in got]
            i = next((i for i, (x, y) in enumerate(zip(a, b)) if x != y), min(len(a), len(b)))
            ctx.fail("attribute-names-differ", inp, a[max(i - 2, 0):i + 3], b[max(i - 2, 0):i + 3])
            continue
        for (k, v), (_, w) in zip(exp, got):
            if not same(v, w):
                ctx.fail("attribute-value-differs", dict(inp, attribute=k), repr(v)[:80], repr(w)[:80])
                break


def matches_known(k, f):
    return k["id"] == "KF-C02-empty-payload" and f["what"] == "known:empty-payload"


def replay_known(ctx, k):
    with impl.quiet():
        m = UBXReader.parse(bytes.fromhex(k["witness"]["hex"]))
    return {"what": "known:empty-payload"} if not hasattr(m, "message") else None

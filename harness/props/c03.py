"""C03 — messages built from keyword attributes encode exactly the values supplied."""
from pyubx2 import UBXMessage, UBXReader
from pyubx2 import exceptions as ube

import common
import impl
import msggen
import sweep

PROPFILES = ["props/C03.v"]
RULE = ("every keyword-constructible (mode, definition): parse a conforming payload (counts {0,1,2}, fills {zero, ones, "
        "random, boundary}), feed ALL reported attribute values back as keywords (and random subsets, omitted ones must come "
        "back zero/blank) -> BUILD correspondence + search on the implementation: the rebuilt payload equals the original "
        "byte for byte (reserved bits aside) / parsing the built message returns the supplied values. non-trivial = "
        "distinct (definition, payload) rebuilt.")
ASSUMPTIONS = ["in-range values are presented as the attribute value the parser reports for a raw field value"]

PAYLOAD_ONLY = {(0, "CFG-NMEA"), (0, "CFG-NMEAvX"), (0, "CFG-NMEAv0"), (0, "NAV-AOPSTATUS"), (0, "NAV-AOPSTATUS-L")}
C16_BAD = {(0, "CFG-FIXSEED"), (1, "CFG-FIXSEED"), (0, "CFG-TP"), (1, "CFG-TP"), (0, "FOO-BAR"), (1, "CFG-NVS"),
           (0, "RXM-PMP-V0"), (0, "RXM-PMP-V1"), (1, "CFG-NMEAv0"), (1, "CFG-NMEAvX"), (0, "UBX-NOMINAL"),
           (1, "ESF-MEAS"), (0, "SEC-OSNMA"), (0, "AID-ALP-ACK"), (0, "SEC-UNIQID-V2")}


def mask_reserved(d, p, bf):
    """zero the bytes of reserved* attributes and the bits of reserved* flags (they are not attributes)"""
    p = bytearray(p)
    pos = [0]

    def walk(dd, counts):
        for k, v in dd.items():
            if isinstance(v, tuple):
                if v[0] in msggen.BITF:
                    n = msggen.attsiz(v[0])
                    x = int.from_bytes(p[pos[0]:pos[0] + n], "little")
                    off = 0
                    for fk, ft in v[1].items():
                        w = msggen.attsiz(ft)
                        if fk.startswith("reserved"):
                            x &= ~(((1 << w) - 1) << off)
                        off += w
                    x &= (1 << off) - 1 if off < 8 * n else (1 << (8 * n)) - 1   # bits beyond the declared flags
                    p[pos[0]:pos[0] + n] = x.to_bytes(n, "little")[:len(p[pos[0]:pos[0] + n])]
                    pos[0] += n
                else:
                    rep = v[0] if isinstance(v[0], int) else counts.get(id(v), 0)
                    for _ in range(rep):
                        walk(v[1], counts)
            else:
                t = v[0] if isinstance(v, list) else v
                n = len(p) if t == "CH" else msggen.attsiz(t)
                pos[0] += n
    return bytes(p)


def run(ctx):
    rng = ctx.rng
    cmds = []
    cases = []
    rawcases = []
    for mode, name, d, key in msggen.all_defs():
        if (mode, name) in PAYLOAD_ONLY or (mode, name) in C16_BAD:
            continue
        if key[0:2] in (b"\x06\x8b", b"\x06\x8a"):
            continue
        lt = msggen.leaf_types(d)
        for cnt in (0, 1, 2):
            for fill in (("random", "edge") if ctx.quick() else ("zero", "ones", "random", "edge", "random")):
                g = msggen.Gen(rng, d, mode, name, key, cnt, fill)
                p = g.payload()
                if not g.satisfies_variant(p):
                    continue
                f = msggen.frame(key, p)
                try:
                    with impl.quiet():
                        m = UBXReader.parse(f, msgmode=mode)
                except Exception:  # pylint: disable=broad-except
                    continue
                kw = {k: v for k, v in m.__dict__.items() if not k.startswith("_")}
                if not kw:
                    continue
                cases.append((mode, name, d, key, p, kw, lt, "all"))
                cmds.append(sweep.build_cmd(key, mode, True, kw))
                # a random subset: omitted attributes must come back nominal
                sub = {k: v for k, v in kw.items() if rng.random() < 0.5 or k in ("type", "version", "datumNum", "tpIdx")
                       or k in needed_counts(d)}
                if sub and sub != kw:
                    cases.append((mode, name, d, key, p, sub, lt, "subset"))
                    cmds.append(sweep.build_cmd(key, mode, True, sub))
                # the raw-bitfield view: parsed with parsebitfield=False, every bitfield is one bytes-valued attribute
                # (whose name may itself end in _<digit>), fed back with parsebitfield=False
                if msggen.has_bitfield(d):
                    try:
                        with impl.quiet():
                            m0 = UBXReader.parse(f, msgmode=mode, parsebitfield=False)
                    except Exception:  # pylint: disable=broad-except
                        m0 = None
                    if m0 is not None:
                        kw0 = {k: v for k, v in m0.__dict__.items() if not k.startswith("_")}
                        if kw0:
                            rawcases.append((mode, name, key, p, kw0))
                            cmds.append(sweep.build_cmd(key, mode, False, kw0))
    ctx.correspond(cmds, canon=lambda c, l: impl.canon_model_line(l), nontrivial=lambda c, o: o.startswith("OK"), label="BUILD")
    ctx.disagreements = [d for d in ctx.disagreements if d["model"] != "RAISE Other"]
    # ---- search on the implementation ----
    for mode, name, key, p, kw0 in rawcases:
        inp = {"op": "REBUILD-RAW-BITFIELDS", "mode": mode, "name": name, "payload": p[:120].hex(), "kw": common.srepr(kw0, 300)}
        try:
            with impl.quiet():
                m = UBXMessage(key[0:1], key[1:2], mode, parsebitfield=False, **kw0)
        except ube.UBXMessageError:
            continue
        except Exception as e:  # pylint: disable=broad-except
            ctx.fail("parsed-values-refused", inp, "construction succeeds", "%s: %s" % (type(e).__name__, str(e)[:100]))
            ctx.failures[-1]["ctx"] = (mode, name, kw0, None)
            continue
        ctx.evaluations += 1
        if (m.payload or b"") != p and not scaled_only_diff(m, p, mode, key):
            diff = [i for i in range(min(len(p), len(m.payload or b""))) if p[i] != (m.payload or b"")[i]][:4]
            ctx.fail("rebuilt-payload-differs", dict(inp, first_diff_offsets=diff), p[:60].hex(), (m.payload or b"")[:60].hex())
            ctx.failures[-1]["ctx"] = (mode, name, kw0, "payload")
    for mode, name, d, key, p, kw, lt, kind in cases:
        inp = {"op": "REBUILD", "mode": mode, "name": name, "kind": kind, "payload": p[:120].hex(), "kw": common.srepr(kw, 300)}
        try:
            with impl.quiet():
                m = UBXMessage(key[0:1], key[1:2], mode, **kw)
        except ube.UBXMessageError as e:
            # not keyword-constructible (outside the property's quantifier): e.g. MGA-ANO SET, whose type byte is
            # only looked at in a payload; C16/C04 own the usability of definitions
            ctx.count("not_keyword_constructible:" + name)
            continue
        except ube.UBXTypeError as e:
            ctx.fail("parsed-values-refused", inp, "construction succeeds", "%s: %s" % (type(e).__name__, str(e)[:100]))
            ctx.failures[-1]["ctx"] = (mode, name, kw, None)
            continue
        except Exception as e:  # pylint: disable=broad-except
            ctx.fail("foreign-exception", inp, "construction succeeds", type(e).__name__)
            continue
        try:
            with impl.quiet():
                back = UBXReader.parse(m.serialize(), msgmode=mode)
        except Exception as e:  # pylint: disable=broad-except
            ctx.fail("built-message-unparsable", inp, "parses", type(e).__name__)
            ctx.failures[-1]["ctx"] = (mode, name, kw, None)
            continue
        battrs = {k: v for k, v in back.__dict__.items() if not k.startswith("_")}
        bad = [k for k in kw if k in battrs and not same(battrs[k], kw[k])]
        if bad:
            ctx.fail("supplied-value-not-returned", dict(inp, attribute=bad[0]), common.srepr(kw[bad[0]], 60), common.srepr(battrs[bad[0]], 60))
            ctx.failures[-1]["ctx"] = (mode, name, kw, bad)
            continue
        if kind == "all":
            a = mask_reserved(d, p, True)
            b = mask_reserved(d, m.payload or b"", True)
            if m.payload != p and not reserved_only_diff(d, p, m.payload or b""):
                diff = [i for i in range(min(len(p), len(m.payload or b""))) if p[i] != (m.payload or b"")[i]][:4]
                ctx.fail("rebuilt-payload-differs", dict(inp, first_diff_offsets=diff), p[:60].hex(), (m.payload or b"")[:60].hex())
                ctx.failures[-1]["ctx"] = (mode, name, kw, "payload")
        else:
            omitted = [k for k in battrs if k not in kw and not is_nominal(battrs[k])]
            if omitted:
                ctx.fail("omitted-attribute-not-nominal", dict(inp, attribute=omitted[0]), "zero/blank", common.srepr(battrs[omitted[0]], 60))


def scaled_only_diff(m, p, mode, key):
    """Do the rebuilt and the original payload parse (raw-bitfield view) to the same attributes?  (A scaled field may come
    back one unit off: the recorded finding of this property, reported by the default-view search.)"""
    try:
        with impl.quiet():
            a = UBXReader.parse(msggen.frame(key, p), msgmode=mode, parsebitfield=False)
            b = UBXReader.parse(m.serialize(), msgmode=mode, parsebitfield=False)
    except Exception:  # pylint: disable=broad-except
        return False
    da = {k: v for k, v in a.__dict__.items() if not k.startswith("_")}
    db = {k: v for k, v in b.__dict__.items() if not k.startswith("_")}
    if list(da) != list(db):
        return False
    return all(same(da[k], db[k]) or isinstance(da[k], float) for k in da)


def needed_counts(d):
    out = set()

    def walk(dd):
        for k, v in dd.items():
            if isinstance(v, tuple) and v[0] not in msggen.BITF:
                if isinstance(v[0], str) and v[0] != "None":
                    out.add(v[0])
                walk(v[1])
    walk(d)
    return out


def reserved_only_diff(d, p, q):
    """do p and q differ only in reserved attributes / reserved or undeclared flag bits?"""
    if len(p) != len(q):
        return False
    try:
        a1, _ = msggen.decode_spec(d, p, True, b"\x00\x00", 0)
        a2, _ = msggen.decode_spec(d, q, True, b"\x00\x00", 0)
    except Exception:  # pylint: disable=broad-except
        return False
    f = lambda l: [(k, v) for k, v in l if not k.startswith("reserved")]
    return all(same(x[1], y[1]) and x[0] == y[0] for x, y in zip(f(a1), f(a2))) and len(f(a1)) == len(f(a2))


def same(a, b):
    # bit-exact for floats (-0.0 is not 0.0; all NaNs alike); bool and int compare as numbers
    if isinstance(a, float) or isinstance(b, float):
        return impl.show_val(a) == impl.show_val(b)
    return a == b


def is_nominal(v):
    if isinstance(v, (int, float)):
        return v == 0
    if isinstance(v, (bytes, str)):
        return v.strip(b"\x00" if isinstance(v, bytes) else "\x00") in (b"", "")
    if isinstance(v, list):
        return all(x == 0 for x in v)
    return False


def matches_known(k, f):
    c = f.get("ctx")
    if not c:
        return False
    mode, name, kw, bad = c
    d = msggen.TABLES[mode].get(name)
    if d is None:
        return False
    lt = msggen.leaf_types(d)
    has_hp = any(n.startswith("_HP") for n in lt)
    scales = [lt[msggen.base_name(a)][1] for a in kw if msggen.base_name(a) in lt and lt[msggen.base_name(a)][1] is not None]
    if k["id"] == "KF-C03-ch-non-utf8":
        chs = [a for a in kw if lt.get(msggen.base_name(a), ("",))[0] == "CH"]
        return any(isinstance(kw[a], str) and "\\x" in kw[a] for a in chs)
    if k["id"] == "KF-C03-reserved-name-clash":
        return name in ("CFG-NAV5", "CFG-SMGR", "CFG-ESFWT")
    if name in ("CFG-NAV5", "CFG-SMGR", "CFG-ESFWT"):
        return False
    has_var = has_var_group(d)
    if k["id"] == "KF-C03-var-group":
        return has_var and bad in ("payload", None)
    if k["id"] == "KF-C03-hp-merge":
        return has_hp
    if k["id"] == "KF-C03-scaled-truncation":
        return any(isinstance(s, float) and not exact_scale(s) and s >= 1e-12 for s in scales) and not has_hp
    if k["id"] == "KF-C03-small-scale":
        return any(isinstance(s, float) and s < 1e-12 for s in scales) and not has_hp
    return False


def has_var_group(d):
    for k, v in d.items():
        if isinstance(v, tuple) and v[0] not in msggen.BITF:
            if v[0] == "None" or has_var_group(v[1]):
                return True
    return False


def exact_scale(s):
    import math
    m, e = math.frexp(s)
    return m == 0.5 and e - 1 >= -12          # 2**-k with k <= 12


def replay_known(ctx, k):
    """Replays of the listed witnesses that the random search may or may not reach with a given seed."""
    from pyubx2 import SET, UBXMessage
    if k["id"] == "KF-C03-small-scale":
        # MGA-GPS-EPH (SET): af2 is [I1, 2**-55]; raw 1 parses to 0.0 (12-decimal rounding) and rebuilds as 0
        with impl.quiet():
            m0 = UBXMessage("MGA", "MGA-GPS-EPH", SET, type=1, af2=2**-55)
            p = bytearray(m0.payload)
            names = [a for a in m0.__dict__ if not a.startswith("_")]
            # locate af2's byte: the only byte that the keyword changes relative to the nominal message
            base = UBXMessage("MGA", "MGA-GPS-EPH", SET, type=1).payload
            pos = [i for i in range(len(base)) if base[i] != p[i]]
            if len(pos) != 1:
                return None
            raw = bytearray(base)
            raw[pos[0]] = 1
            m = UBXMessage("MGA", "MGA-GPS-EPH", SET, payload=bytes(raw))
            kw = {a: getattr(m, a) for a in names}
            m2 = UBXMessage("MGA", "MGA-GPS-EPH", SET, **kw)
        if m2.payload != bytes(raw):
            return {"what": "parsed-values-do-not-rebuild", "observed": "af2 raw 1 -> %r -> raw %d" % (m.af2, m2.payload[pos[0]])}
    return None

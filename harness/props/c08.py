"""C08 — no input makes parsing or reading fail with a foreign exception or hang."""
import time

from pyubx2 import UBXReader
from pyubx2 import exceptions as ube

import gen
import impl
import msggen
import readerlib as rl
import readerprops as rp

PROPFILES = ["props/C08.v"]
ASSUMPTIONS = rp.ASSUMPTIONS + [
    "'raises only NMEA*/RTCM* errors' for the two third-party parsers is an assumption of the reader theorems "
    "(parse_protocol_only); every frame the harness generates is fed to them and any other class is reported",
    "wall-clock: the step bound is what is proved; seconds are measured per case"]
TRUSTED = rp.TRUSTED
RULE = ("checksum-valid frames of every message id x every payload length 0..definition+2 (and 64,100,257,300,600) x fills "
        "{00,ff,random,small} x msgmode{0,1,2,3} x validate x parsebitfield, the fields str() decorates (every class byte x a spread of id bytes in ACK-ACK/ACK-NAK/CFG-MSG, every gnssId, boundary iTOWs), plus arbitrary byte strings: PARSE "
        "correspondence + search on the implementation: parse returns a message or raises UBXParseError/UBXMessageError/"
        "UBXTypeError; every returned message can be inspected (str, repr, identity, length, payload, msgmode, serialize) "
        "without raising; per-case time limit; READ of garbage and frame streams x quitonerror{0,1,2}, from files and through sockets (bufsize 1..4096, close/timeout/OSError endings): iteration ends, "
        "raises nothing under IGNORE/LOG and only protocol errors under RAISE. non-trivial = distinct (frame, outcome).")

UBXERR = (ube.UBXParseError, ube.UBXMessageError, ube.UBXTypeError)
TIME_LIMIT = 20.0


def inspect(m):
    str(m); repr(m)
    _ = (m.identity, m.length, m.payload, m.msgmode, m.msg_cls, m.msg_id)
    m.serialize()


def run(ctx):
    rng = ctx.rng
    frames = []
    from pyubx2 import UBX_MSGIDS
    keys = sorted(UBX_MSGIDS) + [b"\x77\x77", b"\x13\x00", b"\x13\x80", b"\x13\x99"]
    sizes = {}
    for mode, name, d, key in msggen.all_defs():
        sizes.setdefault(key[0:2], set()).add(msggen.flat_size(d, 1))
        sizes[key[0:2]].add(msggen.flat_size(d, 0))
    for k in keys:
        if k[0] >= 0xf0:
            continue
        nom = sorted(sizes.get(k[0:2], {0}))
        lens = set(range(0, 6))
        for s in nom:
            lens |= set(range(max(s - 2, 0), s + 3)) if ctx.quick() else set(range(0, s + 3))
        lens |= {64, 100} if ctx.quick() else {64, 100, 257, 300, 600}
        for L in sorted(lens):
            fills = (rng.choice([0, 0xff, None, "small"]),) if ctx.quick() else (0, 0xff, None, "small")
            for fill in fills:
                if fill is None:
                    pl = bytes(rng.randrange(256) for _ in range(L))
                elif fill == "small":
                    pl = bytes(rng.choice([0, 1, 2, 3]) for _ in range(L))
                else:
                    pl = bytes([fill]) * L
                if len(k) == 3 and L:
                    pl = k[2:3] + pl[1:]
                frames.append(gen.ubx_frame(k[0], k[1], pl))
    # garbage inputs
    garbage = [bytes(rng.randrange(256) for _ in range(rng.randrange(0, 40))) for _ in range(300 if ctx.quick() else 5000)]
    garbage += [b"", b"\xb5", b"\xb5\x62", b"\xb5\x62\x13\x00\x00\x00\x13\x4c", b"\xb5\x62\x01\x02\x05\x00" + bytes(70000)]
    cmds = []
    cases = []
    # payloads at and beyond what the 2-byte length field can express (only reachable through parse(), never a stream)
    for k in (b"\x01\x07", b"\x05\x01", b"\x77\x01", b"\x04\x02", b"\x0a\x04"):
        for L in (65535, 65536, 65537, 70000):
            f = b"\xb5\x62" + k + (L & 0xFFFF).to_bytes(2, "little") + bytes(L) + b"\x00\x00"
            for mode in (0, 1, 2, 3):
                for val in (0, 1):
                    cases.append((f, mode, 1, val))
                    cmds.append("PARSE %d %d 1 %s" % (mode, val, f.hex()))
    # fields that str() decorates (message class / id lookups for ACK-* and CFG-MSG, GNSS names, iTOW as a time of
    # day): every class byte x a spread of id bytes, every gnssId, boundary iTOWs - in the definition's own mode
    ivals = [0, 1, 2, 3, 5, 6, 0x20, 0x21, 0x31, 0x40, 0x60, 0x80, 0xfe, 0xff] + [rng.randrange(256) for _ in range(2 if ctx.quick() else 40)]
    for c in range(256):
        for i in ivals:
            for k, mode, tails in ((b"\x05\x01", 0, (b"",)), (b"\x05\x00", 0, (b"",)),
                                   (b"\x06\x01", 1, (b"\x01", bytes(6))), (b"\x06\x01", 2, (b"",)), (b"\x06\x01", 0, (b"\x01", bytes(6)))):
                for t in tails:
                    f = gen.ubx_frame(k[0], k[1], bytes([c, i]) + t)
                    cases.append((f, mode, 1, 1))
                    cmds.append("PARSE %d 1 1 %s" % (mode, f.hex()))
    for mode, name, d, key in msggen.all_defs():
        lt = msggen.leaf_types(d)
        special = [a for a in lt if a.startswith("gnssId") or a == "iTOW"]
        if not special:
            continue
        for a in special:
            t = lt[a][0]
            if t[0] not in "UEILX":
                continue
            vals = list(range(256)) if t[1:4] == "001" else [0, 1, 999, 604799999, 604800000, 2**31 - 1, 2**31, 2**32 - 1]
            if ctx.quick() and len(vals) > 40:
                vals = vals[:16] + rng.sample(vals[16:], 24)
            for v in vals:
                g = msggen.Gen(rng, d, mode, name, key, 1, "zero")
                g.overrides[a] = v
                f = msggen.frame(key, g.payload())
                cases.append((f, mode, 1, 1))
                cmds.append("PARSE %d 1 1 %s" % (mode, f.hex()))
    for n, f in enumerate(frames):
        mode, bf, val = n % 4, (n // 4) % 2, 1 if n % 5 else 0
        cases.append((f, mode, bf, val))
        cmds.append("PARSE %d %d %d %s" % (mode, val, bf, f.hex()))
    for n, f in enumerate(garbage):
        mode, bf, val = n % 5, n % 2, n % 2      # mode 4 is invalid on purpose
        cases.append((f, mode, bf, val))
        cmds.append("PARSE %d %d %d %s" % (mode, val, bf, gen.hx(f)))
    ctx.correspond(cmds, canon=lambda c, l: impl.canon_model_line(l), nontrivial=lambda c, o: True, label="PARSE")
    declined = [d for d in ctx.disagreements if d["model"] == "RAISE Other"]
    ctx.count("model_declined", len(declined))
    ctx.disagreements = [d for d in ctx.disagreements if d["model"] != "RAISE Other"]
    # ---- search on the implementation ----
    slow = 0
    for f, mode, bf, val in cases:
        inp = {"op": "PARSE", "hex": f.hex() if len(f) < 200 else f[:60].hex() + "...(%d bytes)" % len(f), "mode": mode, "bf": bf, "validate": val}
        t0 = time.time()
        try:
            with impl.quiet():
                m = UBXReader.parse(f, msgmode=mode, validate=val, parsebitfield=bf)
        except UBXERR:
            m = None
        except Exception as e:  # pylint: disable=broad-except
            ctx.fail("foreign-exception-from-parse:" + type(e).__name__, inp, "a message or UBXParseError/UBXMessageError/UBXTypeError",
                     "%s: %s" % (type(e).__name__, str(e)[:100]))
            continue
        if m is not None:
            try:
                with impl.quiet():
                    inspect(m)
            except Exception as e:  # pylint: disable=broad-except
                ctx.fail("inspection-raises:" + type(e).__name__, inp, "str/repr/identity/length/payload/msgmode/serialize all return",
                         "%s: %s" % (type(e).__name__, str(e)[:100]))
        dt = time.time() - t0
        if dt > TIME_LIMIT:
            ctx.fail("too-slow", inp, "< %.0fs" % TIME_LIMIT, "%.1fs" % dt)
        slow = max(slow, dt)
    ctx.count("slowest_case_ms", int(slow * 1000))
    reader_half(ctx, rng)


def reader_half(ctx, rng):
    streams = [rl.garbage_stream(rng) for _ in range(150 if ctx.quick() else 2000)]
    streams += [b"".join(f for _, f in rl.clean_stream(rng)) for _ in range(80 if ctx.quick() else 800)]
    streams += [bytes(rng.randrange(256) for _ in range(rng.randrange(0, 200))) for _ in range(80 if ctx.quick() else 1000)]
    cases = []
    for s in streams:
        for qe in (0, 1, 2):
            cases.append({"stream": s, "pf": rng.choice([7, 7, rng.randrange(8)]), "qe": qe, "parsing": rng.random() < 0.85,
                          "validate": rng.randrange(2), "msgmode": rng.randrange(4)})
    t0 = time.time()
    obs = rp.correspond_runs(ctx, cases, "READ")
    for c, o in zip(cases, obs):
        inp = {"op": "READ", "stream": c["stream"][:200].hex(), "pf": c["pf"], "qe": c["qe"], "parsing": c["parsing"],
               "validate": c["validate"], "msgmode": c["msgmode"]}
        if o["raised"] is None:
            continue
        if o["raised"] in ("HANG", "HANG-SKIPPED"):
            ctx.fail("reader-does-not-terminate", inp, "iteration ends", o["raised"])
        elif c["qe"] != 2:
            ctx.fail("reader-raises-under-ignore-or-log", inp, "no exception", o["raised"])
        elif not isinstance(o["exc"], rp.PROT_ERRS):
            ctx.fail("reader-raises-foreign:" + o["raised"], inp, "UBX*/NMEA*/RTCM* protocol error", repr(o["exc"])[:120])
    ctx.count("reader_wall_ms", int((time.time() - t0) * 1000))
    # the same through a socket: every transport must end (receive buffers smaller and larger than the frames;
    # peer closes / receive times out / OSError after the last byte)
    from props import c10
    scases = []
    for s in streams[:: (3 if ctx.quick() else 1)]:
        if not s:
            continue
        cuts = sorted(rng.sample(range(1, len(s)), min(len(s) - 1, rng.randrange(0, 5)))) if len(s) > 1 else []
        c = c10.mk_case(s, rl.split_at(s, cuts), rng.choice([1, 7, 16, 64, 4096]), rng.choice(["close", "timeout", "oserror"]),
                        7, rng.randrange(3), rng.random() < 0.85)
        scases.append(c)
    sobs = rp.correspond_runs(ctx, scases, "SOCK")
    for c, o in zip(scases, sobs):
        inp = {"op": "SOCK", "chunks": rl.events_str(c["events"])[:300], "bufsize": c["bufsize"], "end": c["end"], "qe": c["qe"],
               "parsing": c["parsing"]}
        if o["raised"] in ("HANG", "HANG-SKIPPED"):
            ctx.fail("reader-does-not-terminate", inp, "iteration ends", o["raised"])
        elif o["raised"] is not None and c["qe"] != 2:
            ctx.fail("reader-raises-under-ignore-or-log", inp, "no exception", o["raised"])
        elif o["raised"] is not None and not isinstance(o["exc"], rp.PROT_ERRS):
            ctx.fail("reader-raises-foreign:" + o["raised"], inp, "UBX*/NMEA*/RTCM* protocol error", repr(o["exc"])[:120])

"""C17 — SETPOLL mode resolves every input message to its true mode."""
from pyubx2 import UBXMessage, UBXReader
from pyubx2.ubxhelpers import getinputmode

import common
import gen
import impl
import msggen
import sweep

PROPFILES = ["props/C17.v", "props/C17_src.v"]
RULE = ("INPUTMODE correspondence: all class/id pairs of message ids + all 256 ids of classes 06/0b/01/13 (thorough: all "
        "65536) x frame lengths 8..12 and longer; MODETABLE (the Coq length analysis of every SET/POLL definition) vs the "
        "recorded ambiguities; search on the implementation: every SET and POLL definition x conforming payloads (counts "
        "0,1,2; incl. empty and 1-2 byte payloads) and keyword-built messages: parse(serialize, SETPOLL) == "
        "parse(serialize, true mode) in mode, identity and attributes, both through the static parse and through a reader instance created with msgmode=SETPOLL over streams interleaving those messages with NMEA/RTCM3 frames. non-trivial = distinct (definition, length).")


def attrs(m):
    # NaN-safe: compare canonical renderings
    return {k: impl.show_val(v) for k, v in m.__dict__.items() if not k.startswith("_")}


def run(ctx):
    rng = ctx.rng
    from pyubx2 import UBX_MSGIDS
    cmds = []
    pairs = sorted({k[0:2] for k in UBX_MSGIDS})
    for c in (0x06, 0x0b, 0x01, 0x13):
        pairs += [bytes([c, i]) for i in range(256)]
    if not ctx.quick():
        pairs = [bytes([c, i]) for c in range(256) for i in range(256)]
        ctx.exhaustive_parts.append("all 65536 class/id pairs x payload lengths 0..4 and 20")
    for k in pairs:
        for L in (0, 1, 2, 3, 4, 20):
            cmds.append("INPUTMODE " + gen.ubx_frame(k[0], k[1], bytes(L)).hex())
    for data in (b"", b"\xb5", b"\xb5\x62\x06", b"\xb5\x62\x06\x8b", b"\xb5\x62\x06\x01\x00"):
        cmds.append("INPUTMODE " + gen.hx(data))
    ctx.correspond(cmds, nontrivial=lambda c, o: True, label="INPUTMODE")
    mt = common.run_model(["MODETABLE"])[0].split()
    ctx.sample({"MODETABLE": " ".join(mt)})
    known_tab = {"1:AID-ALP", "1:ESF-RESETALG", "1:LOG-ERASE", "1:LOG-STRING", "1:NAV-RESETODO", "2:AID-ALM", "2:AID-AOP", "2:AID-EPH"}
    for e in mt:
        if e not in known_tab:
            ctx.fail("definition-lengths-ambiguous", {"op": "MODETABLE", "entry": e}, "getinputmode gives the definition's mode for all its lengths", e)
    # ---- search on the implementation ----
    n = 0
    good = []
    for mode, name, d, key in msggen.all_defs():
        if mode == 0:
            continue
        msgs = []
        for cnt in (0, 1, 2):
            for fill in ("zero", "random", "sync"):
                g = msggen.Gen(rng, d, mode, name, key, cnt, fill)
                p = g.payload()
                if g.satisfies_variant(p):
                    msgs.append(("payload", p))
        base = {"type": key[2]} if len(key) == 3 else {}
        nm = sweep.names_of(d, True)
        if nm:
            msgs.append(("kw", {**base, nm[0]: c16_nominal(d, nm[0])}))
        msgs.append(("none", None))
        for kind, arg in msgs:
            try:
                with impl.quiet():
                    if kind == "payload":
                        m = UBXMessage(key[0:1], key[1:2], mode, payload=arg)
                    elif kind == "kw":
                        m = UBXMessage(key[0:1], key[1:2], mode, **arg)
                    else:
                        m = UBXMessage(key[0:1], key[1:2], mode)
                    f = m.serialize()
                    # SETPOLL must resolve the mode whatever the other parse options are
                    val, bfo = [(1, True), (1, False), (0, True), (0, False)][n % 4]
                    ref = UBXReader.parse(f, msgmode=mode, validate=val, parsebitfield=bfo)
            except Exception:  # pylint: disable=broad-except
                continue
            n += 1
            ctx.nontrivial.add(hash((name, mode, len(f))))
            inp = {"op": "SETPOLL", "name": name, "mode": mode, "hex": f[:80].hex(), "total_len": len(f), "generated_mode": "SET" if mode == 1 else "POLL",
                   "validate": val, "parsebitfield": bfo}
            try:
                with impl.quiet():
                    sp = UBXReader.parse(f, msgmode=3, validate=val, parsebitfield=bfo)
            except Exception as e:  # pylint: disable=broad-except
                ctx.fail("setpoll-raises", inp, "same message as in the true mode", type(e).__name__)
                ctx.failures[-1]["frame"] = (key, mode, len(f))
                continue
            if sp.msgmode != mode or sp.identity != ref.identity or attrs(sp) != attrs(ref):
                ctx.fail("setpoll-differs", inp, "mode %d, %s" % (mode, ref.identity), "mode %d, %s" % (sp.msgmode, sp.identity))
                ctx.failures[-1]["frame"] = (key, mode, len(f))
            else:
                try:
                    with impl.quiet():
                        good.append((f, UBXReader.parse(f, msgmode=mode), name, mode))    # default options, for the reader
                except Exception:  # pylint: disable=broad-except
                    pass
    ctx.evaluations += n
    ctx.count("setpoll_cases", n)
    reader_level(ctx, rng, good)


def reader_level(ctx, rng, good):
    """The same statement through a reader INSTANCE: UBXReader(stream, msgmode=SETPOLL) over streams that interleave
    the generated SET and POLL messages with each other and with NMEA / RTCM3 traffic (state kept by the reader
    between frames must not change how the next frame's mode is resolved)."""
    import io
    import readerlib as rl
    others = [f for k, f in rl.frame_pool() if k in ("nmea", "nmeaP", "rtcm", "nmeabad")]
    others += [rl.nmea(b"IGNQ,RMC", talker=b"E"), rl.nmea(b"UBX,40,GLL,0,0,0,0,0,0", talker=b"P")]
    rng.shuffle(good)
    sample = good[: (400 if ctx.quick() else 4000)]
    nrd = 0
    # both forms of one message type through ONE reader, in both orders (what the reader learnt from the first frame
    # of a type must not decide the mode of the next frame of that type)
    by_type = {}
    for it in good:
        by_type.setdefault(it[0][2:4], {}).setdefault(it[3], []).append(it)
    pairs = []
    for k2, modes in sorted(by_type.items()):
        if 1 in modes and 2 in modes:
            a, b = rng.choice(modes[1]), rng.choice(modes[2])
            pairs += [[a, b], [b, a], [b, a, b, a]]
    ctx.count("setpoll_reader_same_type_sequences", len(pairs))
    groups = pairs + [sample[i:i + 6] for i in range(0, len(sample), 6)]
    for gi, grp in enumerate(groups):
        parts = []
        for j, (f, ref, name, mode) in enumerate(grp):
            if j % 2 == 0 and gi % 2 == 0:
                parts.append((None, rng.choice(others)))
            parts.append(((ref, name, mode), f))
        stream = b"".join(p for _, p in parts)
        for qe in (0,):
            try:
                with impl.quiet():
                    items = [(bytes(r), p) for r, p in UBXReader(io.BytesIO(stream), msgmode=3, quitonerror=qe)]
            except Exception as e:  # pylint: disable=broad-except
                ctx.fail("setpoll-reader-raises", {"op": "READ-SETPOLL", "stream": stream[:200].hex()}, "iteration", type(e).__name__)
                continue
            ubx = [(r, p) for r, p in items if r[0:2] == b"\xb5\x62"]
            want = [(f, meta) for meta, f in parts if meta is not None]
            nrd += len(want)
            if [r for r, _ in ubx] != [f for f, _ in want]:
                ctx.fail("setpoll-reader-frames", {"op": "READ-SETPOLL", "stream": stream[:300].hex()},
                         "%d UBX frames" % len(want), "%d UBX frames" % len(ubx))
                continue
            for (r, p), (f, (ref, name, mode)) in zip(ubx, want):
                if p is None or p.msgmode != mode or p.identity != ref.identity or attrs(p) != attrs(ref):
                    ctx.fail("setpoll-reader-differs", {"op": "READ-SETPOLL", "name": name, "mode": mode, "stream": stream[:300].hex(),
                                                        "frame": f[:80].hex()},
                             "mode %d, %s" % (mode, ref.identity),
                             "None" if p is None else "mode %d, %s" % (p.msgmode, p.identity))
                    break
    ctx.evaluations += nrd
    ctx.count("setpoll_reader_frames", nrd)


def c16_nominal(d, name):
    from props import c16
    return c16.nominal_for(d, name)


def matches_known(k, f):
    fr = f.get("frame")
    if not fr:
        return False
    key, mode, total = fr
    if k["id"] == "KF-C17-empty-set":
        return mode == 1 and total == 8
    if k["id"] == "KF-C17-aid-poll-svid":
        return mode == 2 and key[0:1] == b"\x0b" and key[1:2] in (b"\x30", b"\x31", b"\x33") and total >= 9
    return False


def replay_known(ctx, k):
    w = k["witness"]
    f = bytes.fromhex(w["hex"])
    with impl.quiet():
        m = UBXReader.parse(f, msgmode=3)
    return {"what": "setpoll-differs"} if m.msgmode != w["true_mode"] else None

#!/venv/bin/python
"""replay.py <replay.json> — re-run a recorded violation on the implementation and on the model."""
import json
import os
import sys

sys.path.insert(0, os.path.dirname(os.path.abspath(__file__)))
import common  # noqa: E402

common.ensure_env()


def main():
    r = json.load(open(sys.argv[1]))
    print("property:", r.get("property"), "kind:", r.get("kind"))
    print("broken:", r.get("broken"))
    if r.get("kind") == "no-failing-input-found":
        print("no failing input was found; what no longer checks:")
        for d in r.get("obligation_detail", []):
            print("  ", d[:2000])
        for d in r.get("disagreements", [])[:10]:
            print("   disagreement:", d)
            _rerun_cmd(d.get("cmd", ""))
        return 0
    print("expected:", r.get("expected"))
    print("recorded observation:", r.get("observed"))
    inp = r.get("input", {})
    import props_replay
    props_replay.replay(r.get("property"), inp)
    return 0


def _rerun_cmd(cmd):
    if not cmd or cmd.startswith("<"):
        return
    import impl
    try:
        print("     impl now :", impl.impl_exec(cmd)[:300])
        print("     model now:", common.run_model([cmd])[0][:300])
    except Exception as e:  # pylint: disable=broad-except
        print("     (re-run failed: %r)" % (e,))


if __name__ == "__main__":
    sys.exit(main())

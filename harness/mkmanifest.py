#!/usr/bin/env python3
"""Regenerate /verif/MANIFEST.json from the table below (kept in one place so that it stays valid)."""
import json
import os

VERIF = os.path.dirname(os.path.dirname(os.path.abspath(__file__)))

SOCK_SRC = (" SocketWrapper._recv, read and readline are translated too and proved equal to the socket model for every sequence of "
            "recv() results (C10_recv_from_source, C10_sock_read_from_source, C10_sock_readline_from_source).")
READER_SRC = (" Translation tie (C06_*_from_source, props/C06_src.v): UBXReader's stream-reading methods (_read_bytes, _read_line, "
              "_parse_ubx, _parse_nmea, _parse_rtcm3, _do_error, read) are translated from /repo on every run (harness/py2coq_io.py, "
              "a state-and-exception monad in coq/model/PyMini.v: trusted) and proved equal to this model - read() as a whole "
              "to the iteration of the model's step (C06_read_from_source). A method the translator cannot handle, or one whose "
              "statements were re-arranged so that the proof script no longer follows it, is reported in the evidence and tied by "
              "the correspondence alone on that run.")
READER_NOTE = ("Trusted: Coq kernel (Print Assumptions: closed under the global context); the hand-written Gallina "
               "model of UBXReader.read/_parse_*/_read_bytes/_read_line/_do_error (coq/model/Reader.v) tied to "
               "ubxreader.py by differential runs (READ/SOCK commands) in which the answers of the real protocol "
               "parsers are recorded and handed to the model as its oracle; the three protocol parsers are parameters "
               "of every theorem (assumed only to raise their own protocol error classes where a theorem says "
               "parse_protocol_only); extraction (ExtrOcamlBasic only) + OCaml driver; BytesIO / scripted socket as "
               "transports.")

AXIOM_NOTE = (" The scaled-field theorems go through Flocq and the standard library's real numbers; Print Assumptions "
              "reports exactly ClassicalDedekindReals.sig_not_dec, ClassicalDedekindReals.sig_forall_dec, "
              "FunctionalExtensionality.functional_extensionality_dep and Classical_Prop.classic for them (declared by the "
              "Coq standard library, none declared here); every other theorem is closed under the global context.")
MSG_NOTE = ("Trusted: Coq kernel (Print Assumptions: closed under the global context); gen/Tables.v and gen/Consts.v are "
            "regenerated from /repo by harness/translate.py on every run (tables by import-and-walk, code constants by "
            "fail-closed AST templates, plus an AST digest of every modelled function as a drift detector); the "
            "hand-written Gallina model of UBXMessage / ubxvariants / ubxhelpers (coq/model/{Types,PyFloat,Walk,Msg}.v) "
            "is tied to the code by differential runs of the extracted model (PARSE/BUILD/CONSTRUCT/CFG* commands; "
            "validated on >200k cases with zero differences); CPython int/bytes/struct/float semantics as modelled "
            "(floats: Coq.Floats.SpecFloat, bit-exact); the executable model declines (EOther) when a group repeat "
            "count exceeds its budget of 6000 — such cases are counted, not compared.")

SRC_NOTE = (" Translation tie: harness/py2coq.py translates the function body from /repo on every run into Gallina "
            "(gen/PySrc.v) over coq/model/PyMini.v (one value type; Python's ==, len, slicing, in, +, -, &, %, truthiness, "
            "dict lookup as defined there: that file and the translator are trusted); the *_from_source theorem proves the "
            "translated body equal to the hand-written model for all inputs. A function the translator cannot handle is "
            "reported in the evidence (source_functions_not_translated), its theorem is then empty and its tie is the "
            "correspondence alone.")

CHECKS = {
    "C01": dict(
        technique="Coq proof (parse of a well-formed frame stores class/id/payload verbatim and recomputes length and checksum; repr re-construction) + extracted-model correspondence incl. eval(repr)",
        text="C01_roundtrip: for every well-formed frame (any class/id, payload, length), msgmode incl. SETPOLL, "
             "validate and bitfield setting, a returned message serializes to the input and its class, id, length and "
             "payload are the frame's. C01_repr: the message eval(repr(m)) constructs serializes identically. "
             "C01_repr_total_partial: that re-construction succeeds (proved for parsebitfield=True; False by "
             "correspondence). Python's repr/eval text is exercised, not modelled. C01_serialize_from_source: serialize() as the source has it now is the model's serialize (translated on every run).",
        note=MSG_NOTE + SRC_NOTE, ref="DESIGN.md §6 C01"),
    "C02": dict(
        technique='Coq proof (ghost trace of the definition walk: induction over the nested definition type for every definition list, payload, repeat count and bitfield view) + extracted-model correspondence on every definition + independent spec decoder',
        text="C02_trace: for every definition list and payload the fields read tile the payload from offset 0 in definition order, each recorded value is the decoding (little-endian / two's complement / IEEE-754 / scaled+rounded / raw bitfield / bit slice) of exactly its own bytes, the payload is untouched and the attribute dictionary is the records applied in order; C02_shape: the records are the definition unfolded with index paths [1],[2],.. ([1;1].. nested); C02_int_field, C02_flag, C02_payload_unchanged. C02_variant_lengths (table) and C02_variant_cfgnmea/aopstatus/rxmpmreq/rxmrlm/relposned/secsig/alpsrv: which definition each payload variant selects (length- or byte-discriminated), with the dispatch table regenerated from the code; the cfg key/value walk is C14's. Searches: independent spec decoder vs the implementation over every (mode, definition, variant) x counts incl. mixed zero/non-zero counts x fills x both bitfield views. C02_selectors_from_source: every row of VARIANTS — the source's selector function, translated on every run and called the way _get_dict calls it — returns for every keyword set / payload the definition the model's selector returns; C02_get_dict_from_source: _get_dict itself (VARIANTS lookup, calling convention, table lookups by identity, NOMINAL test, except KeyError), translated on every run, is the model's get_dict; C02_identity_from_source: the identity property likewise; variant sweep (every row x payload lengths x discriminator bytes) in the correspondence.",
        note=MSG_NOTE + SRC_NOTE, ref="DESIGN.md §6 C02"),
    "C03": dict(
        technique='Coq proof (build/parse simulation over the ghost trace for every definition list; real-number error analysis over Flocq for the scaled round trip) + refutation witnesses for the recorded findings + BUILD correspondence / rebuild search',
        text="C03_payload (payload = concatenation of one encoding per field, keyword or nominal), C03_build_parse / _auto / C03_construct_roundtrip(_plain) (parsing the built payload gives back the very trace and attributes, whole payload consumed; no premise for integer/X/bitfield members), C03_int_field_roundtrip, C03_flag_roundtrip; C03_scaled_within_one: for EVERY raw value of up to 32 bits and EVERY float scale >= 1e-12, int(round(raw*s,12)/s) differs from raw by at most 1 (Flocq; four standard-library real-number axioms), with the table obligation C03_table_scales (every shipped float scale meets the premise or is a recorded sub-1e-12 scale) and C03_table_scaled_within_one. Exact equality is REFUTED on the unchanged tree (C03_scaled_refuted, C03_smallscale_refuted: recorded findings). Partial: the generic theorem needs 'static' definitions (no variable-by-size group / CH in the middle) and representable values (rt_ok); variant selection by correspondence.",
        note=MSG_NOTE + AXIOM_NOTE, ref="DESIGN.md §6 C03"),
    "C04": dict(
        technique="Coq proof (constructor postcondition + payload byte-ness by walk invariant; textbook Fletcher sums) + finite table obligation + correspondence over all routes",
        text="C04_wellformed: for all three constructor routes (hence the config helpers), any message returned "
             "serializes to a well-formed frame, with the checksum stated as the closed-form 8-bit Fletcher sums. "
             "C04_accepted_partial / C04_accepted_kw_partial: accepted by parse in the same mode (no-payload/raw-payload routes proved; keyword route proved for the definitions the build->parse simulation covers; remaining keyword "
             "route by correspondence). C04_addressing: names/ints/bytes agree for every message id with a "
             "definition (finite, whole table). Known finding: wrong-length C values (see C15).",
        note=MSG_NOTE, ref="DESIGN.md §6 C04"),
    "C05": dict(
        technique="Coq proof (soundness/completeness of checksum validation over all byte strings) + extracted-model correspondence",
        text="Theorems over all byte strings: whatever UBXReader.parse's validation accepts is a well-formed frame "
             "(C05_sound/C05_fields), every well-formed frame is accepted, any single substitution / truncation / "
             "non-well-formed result is rejected with UBXParseError, VALNONE ignores the checksum bytes. The model of "
             "parse() is hand-written Gallina tied to the code by translation (C05_parse_from_source) and by a differential run on ~40k inputs per quick run "
             "(exhaustive substitutions, all short strings over a frame alphabet). C05_parse_from_source: the body of UBXReader.parse as the source has it now (translated on every run), with its final constructor call handed to the model's constructor, equals the model's parse for every byte string and option value.",
        note="Trusted: Coq kernel; Print Assumptions = closed under the global context; the hand-written model of "
             "parse() (Frame.v) is tied to ubxreader.py by correspondence and by translation (py2coq + PyMini.v, trusted); extraction "
             "(ExtrOcamlBasic only) and the OCaml driver; CPython slicing/int.from_bytes semantics as modelled." + SRC_NOTE,
        ref="DESIGN.md §6 C05"),
    "C06": dict(
        technique="Coq proof (reader = interpretation of a configuration-independent framing trace; clean-stream theorem by induction over chunk lists) + correspondence with recorded parser oracle",
        text="C06_clean: for every sequence of UBX/NMEA/RTCM3 frames (any checksum bytes, RTCM3 of any size incl. 0) and "
             "preamble-free noise, every configuration with errors not raised and every behaviour of the three parsers, "
             "the reader yields exactly the accepted, unfiltered frames in order as (raw, parser result) and ends with "
             "nothing unread; a rejected frame changes nothing after it. Unbounded (induction on the chunk list).",
        note=READER_NOTE + READER_SRC, ref="DESIGN.md §6 C06"),
    "C07": dict(
        technique="Coq proof (step-consumes invariant + induction on fuel, for all byte strings) + exhaustive short-string correspondence",
        text="C07_slices / C07_eof_exact / C07_terminates for every byte string, configuration and parser behaviour: "
             "delivered raws are in-order non-overlapping slices each starting with a preamble byte; with errors not "
             "raised iteration ends only with the stream exhausted; the loop never needs more than |s|+1 iterations.",
        note=READER_NOTE + READER_SRC, ref="DESIGN.md §6 C07"),
    "C08": dict(
        technique="Coq proof (exception-set analysis of every primitive and of the definition walk by nested induction, closed by a finite table obligation; reader termination by a consumption measure) + correspondence on every definition x every payload length",
        text="C08_parse_no_foreign: for EVERY byte string, msgmode, validate and bitfield setting, with the shipped "
             "tables, parse returns a message or raises UBXParseError/UBXMessageError/UBXTypeError (EOther = the executable "
             "model declines above its repeat budget); C08_construct_no_foreign: same for the constructor with any "
             "keyword values; C08_no_zero_div (table obligation); C08_read_terminates, C08_read_no_raise, "
             "C08_read_raise_family for every stream and configuration; C08_sock_terminates (iteration over a socket ends for every recv() schedule). Partial: the exception discipline of the two "
             "third-party parsers is an assumption (exercised on every generated frame); str()'s text and wall-clock are "
             "exercised, not modelled; inspection functions are total in the model by construction.",
        note=MSG_NOTE + " " + READER_NOTE, ref="DESIGN.md §6 C08"),
    "C09": dict(
        technique="Coq proof (simulation between the cut and uncut runs, induction on fuel) + correspondence at every cut position",
        text="C09_prefix for every byte string and every cut position: the cut run's items are a prefix of the uncut "
             "run's; it raises nothing and leaves nothing unread (C09_no_raise); no partial frame (C09_no_partial); on "
             "clean streams every frame wholly before the cut is delivered (C09_clean); C09_prefix_socket: the cut stream arriving through a socket (any segmentation, close/timeout/OSError) still yields a prefix and ends.",
        note=READER_NOTE + READER_SRC, ref="DESIGN.md §6 C09"),
    "C10": dict(
        technique="Coq proof (SocketWrapper state machine refines the abstract byte stream; simulation with the file reader) + correspondence over all segmentations + real socketpair run",
        text="C10_read_exact, C10_readline and C10_refines_file: for every segmentation of the bytes into recv() "
             "results (hence every bufsize) followed by any closes/timeouts/OSErrors, every reader configuration and "
             "parser behaviour, the reader over the socket wrapper delivers the same items as over a file. Partial for "
             "the runtime: kernel TCP delivery and the sender thread are exercised (socketpair), not modelled.",
        note=READER_NOTE + " The scripted socket subclasses socket.socket; recv(n) delivers at most n bytes." + READER_SRC + SOCK_SRC,
        ref="DESIGN.md §6 C10"),
    "C11": dict(
        technique="Coq proof (list induction over the framing trace: interp under mask F = filter of interp under mask 7) + correspondence over all 8 masks",
        text="C11_filter for every byte string and mask: items(F) = filter (protocol raw in F) items(7); C11_parsing_off: "
             "with parsing=False the raw sequence is unchanged (over streams whose framed candidates are accepted) and "
             "every parsed value is None. C11_filter_any_stream / C11_parsing_off_any_stream: the same for every stream "
             "implementation whose read(n) returns at most n bytes (any state type, any fuel; short reads allowed).",
        note=READER_NOTE + READER_SRC, ref="DESIGN.md §6 C11"),
    "C13": dict(
        technique="Coq proof (immutability flag set on every constructor path) + purity by construction; runtime part by fd-level capture, table digests, histories and threads",
        text="C13_setattr / C13_delattr / C13_parsed_immutable: every attribute assignment or deletion on any "
             "constructed or parsed message raises UBXMessageError and yields no new state. Absence of output and of "
             "table mutation, history and thread independence: by construction in the model (pure functions over "
             "immutable tables); for the implementation they are checked at run time (fd-level capture, structural "
             "digests, probe set after random histories and in 8 concurrent threads) — partial: interleavings are "
             "sampled. C13_setattr_from_source / C13_delattr_from_source: __setattr__ / __delattr__ as the source has them now (translated on every run) raise UBXMessageError whenever _immutable is set, for every name and value, and otherwise delegate once to object; the probes also try every identifier the class's source mentions.",
        note=MSG_NOTE + SRC_NOTE, ref="DESIGN.md §6 C13"),
    "C14": dict(
        technique='Coq proof (layout of config_set/del/poll for every item list; parse of CFG-VALSET / CFG-VALGET key lists by induction on the item list with a fuel lemma) + finite table obligations by vm_compute over the whole generated database + correspondence',
        text="C14_set/del/poll_layout + C14_items/keys_layout (header, then each LE32 key id and value at the key type's width, in order, any length <= 64), C14_limit (> 64 refused; limit lifted from the code each run); table obligations over all keys: C14_sizecodes, C14_names_nodup, C14_ids_nodup_partial and C14_lookup_inverse_partial (all but the recorded duplicate id 0x10340014), C14_unknown_key; parse side: C14_items_walk, C14_valget_parse, C14_valset_parse (one attribute per key, named by the key or CFG_0x.., equal to its value, for every well-typed item list) and C14_config_set_parse (what config_set builds, parse exposes).",
        note=MSG_NOTE, ref="DESIGN.md §6 C14"),
    "C15": dict(
        technique='Coq proof (constructor raises only UBX errors for ANY keyword values; payload length and per-field byte isolation over the ghost trace; integer/X refusal; flag range + bit isolation; Flocq error analysis for scaled fields) + BUILD correspondence over a typed value pool + search with an independent spec decoder',
        text="C15_no_foreign (all pyval keyword values, every shipped definition), C15_build_length / C15_construct_length (payload length = length implied by the definition and the counts), C15_field_bytes (each field's bytes are a function of its own value only), C15_int_refused, C15_x_length, C15_flag_range, C15_flag_isolation; C15_scaled_within_unit: a finite float supplied for a scaled field of up to 32 bits comes back from parse within one unit of resolution (x 1.001 + 1e-12) for every value and every positive scale (Flocq; four standard-library real-number axioms). C15_clen_refuted is the witness of the recorded finding (C-type values are not length-checked). C15_len_checksum_from_source: _do_len_checksum as the source has it now (translated on every run) is the model's len_cksum.",
        note=MSG_NOTE + AXIOM_NOTE + SRC_NOTE, ref="DESIGN.md §6 C15"),
    "C16": dict(
        technique="Coq: executable grammar wf_def evaluated by vm_compute over the whole generated tables (finite domain = the tables as found in the working tree) + nominal build/parse of every entry inside Coq; translator is the tie",
        text="C16_tables_wf / C16_entries_wf: every entry of the GET/SET/POLL tables obeys the documented grammar (types, "
             "flag widths, group sizes from earlier integer attributes, one trailing variable group, distinct names, no "
             "collision with UBXMessage attributes, reachable in its mode) except the recorded findings, each named by "
             "(mode, definition, rule); C16_usable: a nominal instance of every other entry builds and parses in both "
             "bitfield views with distinct names (computed on the model); C16_msgid_classes, C16_variants_known.",
        note=MSG_NOTE + " For C16 the tie is the translator: the tables ARE the subject.", ref="DESIGN.md §6 C16"),
    "C17": dict(
        technique="Coq proof (SETPOLL = parse in getinputmode's mode; getinputmode depends only on class/id and length) + finite table obligation over all SET/POLL definitions' length families + exhaustive INPUTMODE correspondence",
        text="C17_setpoll, C17_inputmode_of, C17_long (constants lifted from getinputmode's AST each run); C17_set_partial / "
             "C17_poll_partial: for every SET/POLL definition and every frame length its payloads can have, getinputmode "
             "returns the definition's mode, except the recorded ambiguities (empty-payload SET; AID-ALM/AOP/EPH polls "
             "with svid); C17_set_resolves / C17_poll_resolves: what those obligations mean - every frame of such a definition's "
             "class/id with a length its payload can have is parsed under SETPOLL exactly as under its own mode; "
             "C17_full_refuted gives the witnesses of the recorded ambiguities. C17_getinputmode_from_source: getinputmode as the source has it now (translated on every run) is the model's getinputmode for every byte string.",
        note=MSG_NOTE + SRC_NOTE, ref="DESIGN.md §6 C17"),
    "C18": dict(
        technique="Coq proof (integer codec round trip for every width; X/C/nomval; R8 bit round trip; Fletcher closed form; get_bits; att2idx/att2name invert the walk's suffixing by induction over decimal printing) + exhaustive/boundary correspondence incl. the float engine and long inputs",
        text="C18_int_rt / C18_int_refuse / C18_bytes_rt for E,I,L,U of every width; C18_x_rt/_refuse, C18_c_rt, C18_nomval; C18_r8_bits_rt (all 2^64 patterns but non-canonical NaNs); C18_fletcher_spec, C18_isvalid; C18_get_bits; C18_att2name / C18_att2idx (every base name without '_', every index path, any depth and magnitude); C18_r4_bits_rt / C18_r4_codec_rt (single precision: unpack then pack is the identity on every non-NaN 32-bit pattern; Flocq, four standard-library real-number axioms). C18_val2sphp (sp = truncated quotient, sp + hp/100 within 0.005 + 1e-12 of the quotient, |hp| <= 100; Flocq). Partial: utc2itow/itow2utc (datetime arithmetic) are checked on the implementation only (dense sample of the week); protocol() is proved equal to the reader's dispatch in C07/C11. C18_checksum_from_source / C18_isvalid_from_source: calc_checksum (loop, by induction) and isvalid_checksum as the source has them now (translated on every run) are the model's.",
        note=MSG_NOTE + AXIOM_NOTE.replace("scaled-field theorems", "R4 theorems") + SRC_NOTE, ref="DESIGN.md §6 C18"),
    "C12": dict(
        technique="Coq proof (list induction over the framing trace for the three error policies) + correspondence incl. handler calls and raised exception",
        text="C12_ignore_log, C12_handler (handler called exactly once per rejection, in order, with that exception, "
             "never otherwise), C12_raise (items up to the first rejection, then exactly that exception) for every byte "
             "string, mask, parsing flag and parser behaviour; C12_*_any_stream: the same three statements for EVERY stream implementation (any state type, any read/readline functions - short reads while data follows, sockets, serial ports - any fuel).",
        note=READER_NOTE + READER_SRC, ref="DESIGN.md §6 C12"),
}

PENDING = "check under construction in this session (model + theorems planned in DESIGN.md §6); not yet claimed"


MSG_NOTE_DUMMY = None


def main():
    ids = ["C%02d" % i for i in range(1, 19)]
    checks = []
    for i in ids:
        if i not in CHECKS:
            continue
        c = CHECKS[i]
        checks.append({
            "property_id": i,
            "quick_cmd": "/venv/bin/python harness/check.py %s quick" % i,
            "thorough_cmd": "/venv/bin/python harness/check.py %s thorough" % i,
            "evidence_file": "evidence/%s.json" % i,
            "replay_cmd_template": "/venv/bin/python harness/replay.py {path}",
            "engine": "coq-model",
            "technique": c["technique"],
            "level_claimed": {"category": "proof", "text": c["text"], "design_ref": c["ref"]},
            "level_note": c["note"],
        })
    m = {
        "version": 1,
        "setup_cmd": "/venv/bin/python harness/setup.py",
        "hooks": {
            "guard": "PYUBX2_VERIF",
            "enable": "none needed: no hook or instrumentation was added to /repo; every observation uses the public "
                      "API, a scripted socket object, monkeypatched recorders installed by the harness at run time, "
                      "and fd-level capture. The variable is set by the harness for uniformity only.",
            "baseline_off_cmd": "cd /repo && /venv/bin/python -m pytest -ra -q -p no:cacheprovider --timeout=900 "
                                "--continue-on-collection-errors",
            "source_commits": [],
            "add_only": True,
        },
        "engines": [
            {"name": "coq-model", "path": "coq/", "serves_properties": sorted(CHECKS),
             "kind_free_text": "Coq 8.16.1 development: executable Gallina model of pyubx2 (model/), tables and code "
                               "constants regenerated from /repo on every run (gen/), proofs (proofs/), property "
                               "statements (props/), extraction to OCaml (extract/)"},
            {"name": "harness", "path": "harness/", "serves_properties": sorted(CHECKS),
             "kind_free_text": "python: translator, generators, correspondence (model vs implementation), property "
                               "search on the implementation, known findings, evidence"},
        ],
        "checks": checks,
        "not_applicable": [{"property_id": i, "reason": PENDING} for i in ids if i not in CHECKS],
        "notes": "fix: commits made in /repo are listed in known_findings.json (status 'fixed: ...'). "
                 "Every check: harness/check.py <id> <tier>; VERIF_SEED selects the PRNG seed.",
    }
    with open(os.path.join(VERIF, "MANIFEST.json"), "w") as f:
        json.dump(m, f, indent=1)
    print("MANIFEST.json: %d checks, %d not yet claimed" % (len(checks), len(m["not_applicable"])))


if __name__ == "__main__":
    main()

"""Replays of recorded failing inputs on the implementation (and the model where it applies)."""
import common
import impl


def replay(prop, inp):
    op = inp.get("op")
    if "cmd" in inp:
        print("impl :", impl.impl_exec(inp["cmd"])[:500])
        try:
            print("model:", common.run_model([inp["cmd"]])[0][:500])
        except Exception as e:  # pylint: disable=broad-except
            print("model: unavailable (%r)" % (e,))
        return
    if op == "PARSE":
        from pyubx2 import UBXReader
        data = bytes.fromhex(inp["hex"])
        try:
            m = UBXReader.parse(data, validate=inp.get("validate", 1), msgmode=inp.get("mode", 0),
                                parsebitfield=inp.get("bf", 1))
            print("impl : returned", repr(m))
        except Exception as e:  # pylint: disable=broad-except
            print("impl : raised", type(e).__name__, e)
        try:
            print("model: wellformedb =", common.run_model(["WF " + (inp["hex"] or "-")])[0])
        except Exception as e:  # pylint: disable=broad-except
            print("model: unavailable (%r)" % (e,))
        return
    print("input:", inp)

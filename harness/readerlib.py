"""Running the real UBXReader on byte streams / fake sockets with full observation, and the
matching model command (READ / SOCK) whose parser oracle is the table of what the real
protocol parsers answered during that run."""
import io
import logging
import socket as _socket

import pynmeagps
import pyrtcm
import pyubx2
import pyubx2.ubxreader as ur
from pynmeagps import NMEA_HDR
from pyubx2 import UBXReader, SocketWrapper

import impl

NMEA2 = bytes(sorted(h[1] for h in NMEA_HDR if len(h) == 2 and h[0] == 0x24)).hex()
assert all(len(h) == 2 and h[0] == 0x24 for h in NMEA_HDR), NMEA_HDR

_rec = None       # active recording: list of (proto, rawhex, outcome)

_orig_ubx = UBXReader.__dict__["parse"].__func__
_orig_nmea = pynmeagps.NMEAReader.__dict__["parse"].__func__
_orig_rtcm = pyrtcm.RTCMReader.__dict__["parse"].__func__


def _wrap(proto, fn):
    def w(message, *a, **kw):
        try:
            r = fn(message, *a, **kw)
        except BaseException as e:
            if _rec is not None:
                _rec.append((proto, bytes(message).hex() or "-", impl.exn_name(e)))
            raise
        if _rec is not None:
            _rec.append((proto, bytes(message).hex() or "-", "OK" if r is not None else "NONE"))
        return r
    return staticmethod(w)


def install():
    UBXReader.parse = _wrap(2, _orig_ubx)
    pynmeagps.NMEAReader.parse = _wrap(1, _orig_nmea)
    pyrtcm.RTCMReader.parse = _wrap(4, _orig_rtcm)


def uninstall():
    UBXReader.parse = staticmethod(_orig_ubx)
    pynmeagps.NMEAReader.parse = staticmethod(_orig_nmea)
    pyrtcm.RTCMReader.parse = staticmethod(_orig_rtcm)


class _LogCap(logging.Handler):
    def __init__(self):
        super().__init__()
        self.recs = []

    def emit(self, record):
        self.recs.append(record)


class FakeSock(_socket.socket):
    """A socket whose recv() results are scripted: bytes chunks, b"" (closed), or None
    (raise TimeoutError) / "O" (raise OSError).  After the script: `end` forever."""

    def __init__(self, events, end="close"):
        super().__init__()
        self._events = list(events)
        self._end = end
        self.requested = []

    def recv(self, n, *a):
        self.requested.append(n)
        if self._events:
            e = self._events.pop(0)
        else:
            e = b"" if self._end == "close" else (None if self._end == "timeout" else "O")
        if e is None:
            raise TimeoutError()
        if e == "O":
            raise OSError("scripted")
        if len(e) > n:
            # deliver at most n bytes, keep the rest for the next call (as the kernel would)
            self._events.insert(0, e[n:])
            e = e[:n]
        return e

    def remaining(self):
        return b"".join(e for e in self._events if isinstance(e, bytes))


class CappedStream:
    """A file-like object over bytes whose read(n) returns at most `cap` bytes per call although more data follows
    (a serial port with a short timeout): the reader reports a premature end of stream for that frame and goes on."""

    def __init__(self, bio, cap):
        self.bio, self.cap = bio, cap

    def read(self, n=-1):
        return self.bio.read(min(n, self.cap) if n is not None and n >= 0 else self.cap)

    def readline(self):
        return self.bio.readline()


def run_reader(stream, pf=7, qe=1, parsing=True, validate=1, msgmode=0, handler=True, bf=True,
               sock_events=None, bufsize=4096, sock_end="close", max_items=100000, readcap=None, logcfg=None):
    """Iterate the real UBXReader.  Returns a dict of observations.
    stream: bytes (file-like run) or None when sock_events is given."""
    global _rec
    if impl.watchdog.fired >= 3:
        # three cases did not return within their time limit in this run: the verdict is in, the remaining cases are
        # not executed (each would cost its full time limit again)
        return {"items": [], "reports": [], "raised": "HANG-SKIPPED", "final": b"", "table": [], "log_records": 0,
                "requested": None, "exc": RuntimeError("not executed after three hangs")}
    reports = []
    cap = _LogCap()
    lg = logging.getLogger("pyubx2.ubxreader")
    old_level, old_prop = lg.level, lg.propagate
    lg.addHandler(cap)
    lg.setLevel(logging.DEBUG)
    lg.propagate = False
    if logcfg == "critical":          # an application that silences the library's logger
        lg.setLevel(logging.CRITICAL + 10)
    elif logcfg == "disabled":
        logging.disable(logging.CRITICAL)
    _rec = []
    items = []
    raised = None
    foreign = None
    try:
        if sock_events is not None:
            fs = FakeSock(sock_events, sock_end)
            src = fs
        else:
            bio = io.BytesIO(stream)
            src = bio if readcap is None else CappedStream(bio, readcap)
        kw = dict(protfilter=pf, quitonerror=qe, parsing=parsing, validate=validate, msgmode=msgmode,
                  parsebitfield=bf, bufsize=bufsize)
        if handler == "obj":
            # a callable object that is falsy (an empty error collector): still a handler
            class _Collector:
                def __call__(self, e):
                    reports.append(impl.exn_name(e))

                def __len__(self):
                    return 0

                def __bool__(self):
                    return False
            kw["errorhandler"] = _Collector()
        elif handler == "ret":
            # a handler that returns something truthy (e.g. file.write's character count): the return value is nobody's
            def _h(e):
                reports.append(impl.exn_name(e))
                return len(reports)
            kw["errorhandler"] = _h
        elif handler == "method":
            class _Sink:
                def on_error(self, e):
                    reports.append(impl.exn_name(e))
            kw["errorhandler"] = _Sink().on_error
        elif handler:
            kw["errorhandler"] = lambda e: reports.append(impl.exn_name(e))
        try:
            with impl.quiet(), impl.watchdog(30.0):
                rdr = UBXReader(src, **kw)
                for raw, parsed in rdr:
                    items.append((bytes(raw), parsed))
                    if len(items) > max_items:
                        raise RuntimeError("runaway iteration")
        except impl.Hang as e:          # iteration does not terminate
            raised = "HANG"
            foreign = RuntimeError(str(e))
        except Exception as e:  # pylint: disable=broad-except
            raised = impl.exn_name(e)
            foreign = e
        if sock_events is not None:
            w = rdr.datastream if "rdr" in locals() else None
            final = (bytes(w.buffer) if w is not None else b"") + fs.remaining()
            requested = fs.requested
            fs.close()
        else:
            final = stream[bio.tell():]
            requested = None
    finally:
        table = _rec
        _rec = None
        lg.removeHandler(cap)
        if logcfg == "disabled":
            logging.disable(logging.NOTSET)
        lg.setLevel(old_level)
        lg.propagate = old_prop
    if not handler:
        reports = ["LOG"] * len(cap.recs)
    return {"items": items, "reports": reports, "raised": raised, "final": final, "table": table,
            "log_records": len(cap.recs), "requested": requested, "exc": foreign}


def run_growing(first, rest, use_iter=True, pf=7, qe=0, parsing=True):
    """The same reader polled again after it reported end of data, the stream having grown meanwhile (a log file
    being written, a serial line that paused): returns (items of the first pass, items of the second pass, bytes
    left unread at the end, exception name or None)."""
    bio = io.BytesIO(first)
    out = [[], []]
    err = None
    try:
        with impl.quiet(), impl.watchdog(30.0):
            rdr = UBXReader(bio, protfilter=pf, quitonerror=qe, parsing=parsing)
            for k in (0, 1):
                if use_iter:
                    for raw, parsed in rdr:
                        out[k].append((bytes(raw), parsed))
                else:
                    while True:
                        raw, parsed = rdr.read()
                        if raw is None:
                            break
                        out[k].append((bytes(raw), parsed))
                if k == 0:
                    pos = bio.tell()
                    bio.seek(0, 2)
                    bio.write(rest)
                    bio.seek(pos)
    except impl.Hang:
        err = "HANG"
    except Exception as e:  # pylint: disable=broad-except
        err = impl.exn_name(e)
    return out[0], out[1], len(first) + len(rest) - bio.tell(), err


def canon_run(obs):
    """The canonical observation line, same format as the driver's show_run."""
    items = ",".join("%s:%d" % (raw.hex() or "-", 0 if p is None else 1) for raw, p in obs["items"]) or "-"
    reps = ",".join(obs["reports"]) or "-"
    return "ITEMS %s REPORTS %s RAISED %s FINAL %s FUEL 0" % (
        items, reps, obs["raised"] or "None", obs["final"].hex() or "-")


def table_str(table):
    seen = {}
    for proto, raw, out in table:
        seen[(proto, raw)] = out
    return ",".join("%d:%s:%s" % (p, r, o) for (p, r), o in seen.items()) or "-"


def model_cmd(stream, pf, qe, parsing, table):
    return "READ %d %d %d %s %s %s" % (pf, qe, 1 if parsing else 0, NMEA2, stream.hex() or "-", table_str(table))


def events_str(events):
    out = []
    for e in events:
        if e is None or e == "O":
            out.append("F")
        elif len(e) == 0:
            out.append("E")
        else:
            out.append(e.hex())
    return ",".join(out) or "-"


def model_sock_cmd(events, pf, qe, parsing, table):
    return "SOCK %d %d %d %s %s %s" % (pf, qe, 1 if parsing else 0, NMEA2, events_str(events), table_str(table))


# ---------------------------------------------------------------------------------------
# stream generators
# ---------------------------------------------------------------------------------------
from pyrtcm.rtcmhelpers import calc_crc24q  # noqa: E402

import gen  # noqa: E402


def rtcm(payload, bad=False):
    b = b"\xd3" + len(payload).to_bytes(2, "big") + payload
    c = calc_crc24q(b)
    if bad:
        c ^= 1
    return b + c.to_bytes(3, "big")


def nmea(body=None, bad=False, talker=b"G"):
    s = b"NGLL,5327.04,N,00214.41,W,223232.00,A,A" if body is None else body
    s = talker + s
    ck = 0
    for ch in s:
        ck ^= ch
    if bad:
        ck ^= 1
    return b"$" + s + b"*%02X\r\n" % ck


def frame_pool():
    """(kind, bytes) — clean frames of the three protocols, valid and rejected ones."""
    return [
        ("ubx", gen.ubx_frame(1, 2, bytes(28))),
        ("ubx", gen.ubx_frame(6, 1, b"\x01\x02")),
        ("ubx", gen.ubx_frame(5, 1, b"\x06\x01")),
        ("ubx0", gen.ubx_frame(1, 2, b"")),
        ("ubxbad", gen.ubx_frame(1, 2, bytes(28), bad=True)),
        ("ubx", gen.ubx_frame(0x0a, 0x04, bytes(40))),
        ("ubxunk", gen.ubx_frame(0x77, 0x66, b"\x01\x02\x03")),
        ("ubxpre", gen.ubx_frame(1, 2, b"\xb5\x62\x24\x47\xd3\x00" + bytes(22))),   # embeds preambles
        ("nmea", nmea(None)),
        ("nmeabad", nmea(None, True)),
        ("nmea", nmea(b"PTXT,01,01,02,hello")),
        ("nmeaP", nmea(b"UBX,00,1", talker=b"P")),
        ("rtcm", rtcm(bytes.fromhex("3ed00003") + bytes(15))),
        ("rtcm", rtcm(bytes.fromhex("43200000") + bytes(20))),
        ("rtcmbad", rtcm(bytes.fromhex("3ed00003") + bytes(15), True)),
        ("rtcm1", rtcm(b"x")),
        ("rtcm0", rtcm(b"")),                     # zero-length RTCM3
        ("rtcm0bad", b"\xd3\x00\x00\x00\x00\x00"),
        ("rtcmbig", rtcm(bytes.fromhex("3ed00003") + bytes(260))),   # size needs both length bytes (d3 01)
        ("rtcm600", rtcm(bytes.fromhex("3ed00003") + bytes(596))),   # d3 02
        ("rtcm800", rtcm(bytes.fromhex("43200000") + bytes(796))),   # d3 03
        ("rtcmmax", rtcm(bytes.fromhex("3ed00003") + bytes(1019))),  # d3 03 ff: the largest frame
        ("nmeaA", nmea(b"IVDM,1,1,,A,13u?etPv2;0n:dDPwUM1U1Cb069D,0", talker=b"A")),
        # well-framed (valid length and checksum) UBX frames whose payload is too short for a definition with float /
        # array attributes: refused by the UBX parser with UBXTypeError (not a parse or stream error)
        ("nmea8", b"$GNTXT,01,01,02,ANTENNA OK 25\xc2\xb0C*FC\r\n"),       # non-ASCII text (checksum over the characters)
        ("nmealc", b"$GNGLL,5327.04,N,00214.41,W,223238.00,A,A*6a\r\n"),     # checksum in lower-case hex
        ("ubxshortR", gen.ubx_frame(0x02, 0x15, bytes(4))),        # RXM-RAWX: rcvTow is R8
        ("ubxshortC", gen.ubx_frame(0x01, 0x36, bytes(18))),       # NAV-COV: R4 members
        ("ubxshortA", gen.ubx_frame(0x0a, 0x31, b"\x00\x01" + bytes(10))),   # MON-SPAN: A256 array
    ]


def is_preamble2(raw):
    """independent statement of 'begins with a UBX, NMEA or RTCM3 preamble'"""
    if len(raw) < 2:
        return False
    if raw[0] == 0xb5:
        return raw[1] == 0x62
    if raw[0] == 0x24:
        return raw[0:2] in NMEA_HDR
    if raw[0] == 0xd3:
        return raw[1] < 4
    return False


def noise(rng, n=None):
    n = rng.randrange(1, 6) if n is None else n
    alpha = [b for b in range(256) if b not in (0xb5, 0x24, 0xd3)]
    return bytes(rng.choice([0, 0x0a, 0x62, 0xff, rng.choice(alpha)]) for _ in range(n))


def clean_stream(rng, k=None, with_noise=True):
    pool = frame_pool()
    k = rng.randrange(1, 7) if k is None else k
    parts = []
    for _ in range(k):
        if with_noise and rng.random() < 0.3:
            parts.append(("noise", noise(rng)))
        parts.append(rng.choice(pool))
    if with_noise and rng.random() < 0.3:
        parts.append(("noise", noise(rng)))
    return parts


FRAGMENTS = [b"\x00\x01\x02", b"\xff" * 2, b"\xb5", b"\x24", b"\xd3", b"\xb5\x62\x01", b"$G", b"\xd3\x01",
             b"\n", b"\xb5\xb5", b"\xd3\x00", b"\xb5\x62\x01\x02\xff\xff", b"$X", b"\xd3\x04", b"$GNGLL,1",
             # complete, checksummed sentences whose first talker letter is not one pynmeagps lists (not NMEA frames
             # for the reader: '$' is noise followed by text)
             b"$GNGLL,5327.04,N,00214.41,W,223232.00,A,A*61\n", b"$GNTXT,01,01,02,x*00\r", b"\r\n", b"\r",
             b"$QZGLL,5327.04,N,00214.41,W,223232.00,A,A*62\r\n", b"$XXGGA,1*00\r\n", b"$jkl\r\n"]


def garbage_stream(rng):
    pool = [f for _, f in frame_pool()] + FRAGMENTS
    k = rng.randrange(1, 7)
    s = b"".join(rng.choice(pool) for _ in range(k))
    if rng.random() < 0.4 and s:
        s = bytearray(s)
        for _ in range(rng.randrange(1, 4)):
            s[rng.randrange(len(s))] = rng.choice([0xb5, 0x62, 0x24, 0x47, 0xd3, 0, 1, 0x0a, 0xff, rng.randrange(256)])
        s = bytes(s)
    return s


def segmentations(n):
    """All ways to cut range(n) into consecutive non-empty pieces: lists of cut index lists."""
    for mask in range(1 << max(n - 1, 0)):
        cuts = [i + 1 for i in range(n - 1) if (mask >> i) & 1]
        yield cuts


def split_at(s, cuts):
    pts = [0] + list(cuts) + [len(s)]
    return [s[a:b] for a, b in zip(pts, pts[1:]) if b > a]

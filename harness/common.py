"""Shared infrastructure for the pyubx2 verification checks.

Everything here runs with /venv/bin/python, PYTHONPATH forced to /repo/src,
PYTHONHASHSEED=0.  Nothing is read from or written to /tmp; scratch space is
/verif/_work/<pid> and is removed on exit.
"""
import atexit
import fcntl
import json
import os
import re
import shutil
import subprocess
import sys
import time

VERIF = os.path.dirname(os.path.dirname(os.path.abspath(__file__)))
# the repository under verification; VERIF_REPO is a development aid (seed drills run against scratch worktrees in
# parallel from copies of /verif) - the registered commands never set it
REPO = os.environ.get("VERIF_REPO", "/repo")
COQ = os.path.join(VERIF, "coq")
SRC = os.path.join(REPO, "src")
PY = "/venv/bin/python"
GUARD = "PYUBX2_VERIF"

ALLOWED_AXIOMS = {
    # axioms declared by the standard library / Flocq's dependencies; named in DESIGN.md §8
    "ClassicalDedekindReals.sig_not_dec",
    "ClassicalDedekindReals.sig_forall_dec",
    "FunctionalExtensionality.functional_extensionality_dep",
    "functional_extensionality_dep",
    "Classical_Prop.classic",
    "classic",
    "sig_not_dec",
    "sig_forall_dec",
}


def ensure_env():
    """Re-exec with the fixed environment if it is not already in force."""
    want = {
        "PYTHONHASHSEED": "0",
        "PYTHONPATH": SRC,
        "PIP_NO_INDEX": "1",
        GUARD: "1",
        "PYTHONDONTWRITEBYTECODE": "1",
    }
    if any(os.environ.get(k) != v for k, v in want.items()):
        env = dict(os.environ)
        env.update(want)
        os.execve(PY, [PY] + sys.argv, env)
    if sys.path[0:1] != [SRC]:
        sys.path.insert(0, SRC)


_workdir = None


def workdir():
    global _workdir
    if _workdir is None:
        _workdir = os.path.join(VERIF, "_work", str(os.getpid()))
        os.makedirs(_workdir, exist_ok=True)
        atexit.register(lambda: shutil.rmtree(_workdir, ignore_errors=True))
    return _workdir


def sh(cmd, cwd=None, timeout=None, env=None):
    """Run a command, return (rc, combined output)."""
    try:
        p = subprocess.run(cmd, cwd=cwd, stdout=subprocess.PIPE, stderr=subprocess.STDOUT,
                           timeout=timeout, env=env)
        return p.returncode, p.stdout.decode("utf-8", "replace")
    except subprocess.TimeoutExpired as e:
        return 124, (e.stdout or b"").decode("utf-8", "replace") + "\nTIMEOUT"


# ----------------------------------------------------------------------------
# Coq build
# ----------------------------------------------------------------------------

def coqproject_files():
    out = []
    for line in open(os.path.join(COQ, "_CoqProject")):
        line = line.strip()
        if line.endswith(".v"):
            out.append(line)
    return out


def _deps():
    """Map target .vo -> list of .vo it depends on, from coq_makefile's .Makefile.d."""
    deps = {}
    p = os.path.join(COQ, ".Makefile.d")
    if not os.path.exists(p):
        return deps
    for line in open(p):
        if ":" not in line:
            continue
        lhs, rhs = line.split(":", 1)
        tgts = [t for t in lhs.split() if t.endswith(".vo")]
        ds = [d for d in rhs.split() if d.endswith(".vo")]
        for t in tgts:
            deps.setdefault(t, []).extend(ds)
    return deps


def transitive_deps(vo):
    deps = _deps()
    seen = set()
    todo = [vo]
    while todo:
        x = todo.pop()
        for d in deps.get(x, []):
            if d not in seen:
                seen.add(d)
                todo.append(d)
    return seen


class Build:
    """Result of the shared build step."""

    def __init__(self):
        self.ok = True
        self.failed = []        # .vo targets whose compilation failed
        self.log = ""
        self.translate_report = {}
        self.driver_ok = False
        self.wall = 0.0

    def broken_for(self, vfile):
        """Is props file `vfile` (relative to coq/) or anything it depends on broken?"""
        vo = vfile[:-2] + ".vo"
        if vo in self.failed:
            return [vo]
        deps = transitive_deps(vo)
        return [f for f in self.failed if f in deps]


def build(quiet=True):
    """Regenerate gen/*.v from /repo, make the Coq development, build the OCaml driver.

    Serialised by a file lock: checks may be launched concurrently.
    """
    t0 = time.time()
    b = Build()
    os.makedirs(os.path.join(VERIF, "_work"), exist_ok=True)
    lock = open(os.path.join(COQ, ".build.lock"), "w")
    fcntl.flock(lock, fcntl.LOCK_EX)
    try:
        # 1. translator (tables + constants), fail-closed
        tr = os.path.join(VERIF, "harness", "translate.py")
        if os.path.exists(tr):
            rc, out = sh([PY, tr], cwd=VERIF, timeout=300)
            b.log += out
            rep = os.path.join(COQ, "gen", "translate_report.json")
            if os.path.exists(rep):
                b.translate_report = json.load(open(rep))
            if rc != 0:
                b.ok = False
                b.translate_report.setdefault("fatal", out[-2000:])
        # 2. Makefile
        mk = os.path.join(COQ, "Makefile")
        cp = os.path.join(COQ, "_CoqProject")
        if not os.path.exists(mk) or os.path.getmtime(mk) < os.path.getmtime(cp):
            rc, out = sh(["coq_makefile", "-f", "_CoqProject", "-o", "Makefile"], cwd=COQ, timeout=60)
            b.log += out
        # 3. make (full .vo build; -k so one broken file does not hide the others)
        rc, out = sh(["timeout", "2400", "make", "-k", "-j16"], cwd=COQ, timeout=2500)
        b.log += out
        if rc != 0:
            b.ok = False
            b.failed = sorted(set(re.findall(r"\*\*\* \[Makefile[^:]*:\d+: ([^\]]+\.vo)\] Error", out)))
            # remove stale objects of failed files and of everything depending on them
            deps = _deps()
            stale = set(b.failed)
            changed = True
            while changed:
                changed = False
                for t, ds in deps.items():
                    if t not in stale and any(d in stale for d in ds):
                        stale.add(t)
                        changed = True
            for t in stale:
                try:
                    os.remove(os.path.join(COQ, t))
                except FileNotFoundError:
                    pass
            b.failed = sorted(stale)
        # 4. extraction + driver
        b.driver_ok = _build_driver(b)
    finally:
        fcntl.flock(lock, fcntl.LOCK_UN)
        lock.close()
    b.wall = time.time() - t0
    return b


def _newest(paths):
    m = 0
    for p in paths:
        if os.path.exists(p):
            m = max(m, os.path.getmtime(p))
    return m


def _build_driver(b):
    ex = os.path.join(COQ, "extract")
    drv = os.path.join(ex, "driver")
    srcs = [os.path.join(COQ, f[:-2] + ".vo") for f in coqproject_files()
            if (f.startswith("model/") or f.startswith("gen/")) and f not in ("model/PyMini.v", "gen/PySrc.v", "gen/PySrcIO.v", "gen/Src_reader_un.v", "gen/ReaderTie.v")]
    missing = [s for s in srcs if not os.path.exists(s)]
    if missing:
        b.log += "\ndriver: model objects missing: %s\n" % missing
        try:
            os.remove(drv)
        except FileNotFoundError:
            pass
        return False
    newest = _newest(srcs + [os.path.join(ex, "Extract.v"), os.path.join(ex, "driver.ml")])
    if os.path.exists(drv) and os.path.getmtime(drv) >= newest:
        return True
    rc, out = sh(["timeout", "600", "coqc", "-Q", "../model", "PyUbx", "-Q", "../gen", "PyUbx", "Extract.v"],
                 cwd=ex, timeout=700)
    b.log += out
    if rc != 0:
        return False
    rc, out = sh(["timeout", "600", "ocamlfind", "ocamlopt", "-O2", "-w", "-a", "-package", "str",
                  "-linkpkg", "model.mli", "model.ml", "driver.ml", "-o", "driver"], cwd=ex, timeout=700)
    b.log += out
    return rc == 0


# ----------------------------------------------------------------------------
# Proof obligations
# ----------------------------------------------------------------------------

def obligations(bld, vfile):
    """Check the property file `vfile` (e.g. props/C05.v).

    Returns dict(theorems=[...], discharged=[...], failed=[...], axioms={thm: [...]},
    checker_cmd=..., detail=...).
    Each `Theorem` in the file is an obligation; it is discharged when the file compiles,
    `Print Assumptions` was printed for it and lists only allowed axioms, and the
    development contains no Admitted/Axiom/etc. (grep gate).
    """
    path = os.path.join(COQ, vfile)
    text = open(path).read()
    thms = re.findall(r"^\s*(?:Theorem|Corollary)\s+([A-Za-z0-9_']+)", text, re.M)
    res = {"file": vfile, "theorems": thms, "discharged": [], "failed": [], "axioms": {},
           "detail": "", "checker_cmd": ""}
    flags = ["-Q", "model", "PyUbx", "-Q", "gen", "PyUbx", "-Q", "proofs", "PyUbx", "-Q", "props", "PyUbx"]
    cmd = ["timeout", "900", "coqc"] + flags + [vfile]
    res["checker_cmd"] = "cd %s && make -k -j16 && %s" % (COQ, " ".join(cmd))
    gate = grep_gate()
    if gate:
        res["failed"] = list(thms)
        res["detail"] = "forbidden construct in development: %s" % gate[:5]
        return res
    broken = bld.broken_for(vfile)
    if broken:
        res["failed"] = list(thms)
        res["detail"] = "does not compile: %s" % broken
        # find the first error message for the replay file
        m = re.search(r'File "\./(%s)"[^\n]*\n(?:.*\n){0,12}' % "|".join(re.escape(x[:-3] + ".v") for x in broken),
                      bld.log)
        if m:
            res["detail"] += "\n" + m.group(0)[:1500]
        return res
    # the .vo exists and is fresh; re-run coqc on the property file alone to capture Print Assumptions
    outdir = workdir()
    rc, out = sh(cmd + ["-o", os.path.join(outdir, os.path.basename(vfile)[:-2] + ".vo")], cwd=COQ, timeout=1000)
    if rc != 0:
        res["failed"] = list(thms)
        res["detail"] = out[-2000:]
        return res
    # parse Print Assumptions output: blocks follow in file order
    blocks = parse_assumptions(out)
    printed = re.findall(r"^\s*Print Assumptions\s+([A-Za-z0-9_']+)\s*\.", text, re.M)
    for name, blk in zip(printed, blocks):
        res["axioms"][name] = blk
    for t in thms:
        if t not in res["axioms"]:
            res["failed"].append(t)
            res["detail"] += "no Print Assumptions for %s; " % t
            continue
        bad = [a for a in res["axioms"][t] if a.split(" ")[0] not in ALLOWED_AXIOMS]
        if bad:
            res["failed"].append(t)
            res["detail"] += "%s depends on non-allowed axioms %s; " % (t, bad)
        else:
            res["discharged"].append(t)
    return res


def coqchk(vfile, timeout=3600):
    """Thorough tier: re-check the compiled property file and everything it depends on with the independent checker
    and list the axioms of the whole context (`coqchk -o`).  Returns dict(ok, axioms, bad, wall, detail)."""
    mod = "PyUbx." + os.path.splitext(os.path.basename(vfile))[0]
    t0 = time.time()
    try:
        p = subprocess.run("ulimit -s unlimited 2>/dev/null; coqchk -silent -o -Q model PyUbx -Q gen PyUbx -Q proofs PyUbx -Q props PyUbx %s" % mod,
                           shell=True, cwd=COQ, stdout=subprocess.PIPE, stderr=subprocess.STDOUT, timeout=timeout)
        out = p.stdout.decode("utf-8", "replace")
        rc = p.returncode
    except subprocess.TimeoutExpired:
        return {"ok": False, "axioms": [], "bad": [], "wall": round(time.time() - t0, 1), "detail": "coqchk timeout", "cmd": "coqchk -o " + mod}
    axioms, sect = [], None
    other = {}
    for line in out.splitlines():
        m = re.match(r"^\* ([^:]+):\s*(.*)$", line)
        if m:
            sect = m.group(1).strip()
            rest = m.group(2).strip()
            other[sect] = [] if rest in ("", "<none>") else [rest]
            continue
        if sect and line.startswith("    ") and line.strip():
            other.setdefault(sect, []).append(line.strip())
    axioms = other.get("Axioms", [])
    bad = [a for a in axioms if a.split(".")[-1] not in ALLOWED_AXIOMS and ".".join(a.split(".")[-2:]) not in ALLOWED_AXIOMS]
    unsafe = [k for k in other if k != "Axioms" and k != "Theory" and other[k]]
    ok = rc == 0 and not bad and not unsafe and "CONTEXT SUMMARY" in out
    return {"ok": ok, "axioms": axioms, "bad": bad + unsafe, "wall": round(time.time() - t0, 1),
            "detail": "" if ok else out[-600:], "cmd": "coqchk -silent -o " + mod}


def parse_assumptions(out):
    """Split coqc output into one list of axioms per Print Assumptions command."""
    blocks = []
    cur = None
    for line in out.splitlines():
        if line.startswith("Closed under the global context"):
            blocks.append([])
            cur = None
        elif line.startswith("Axioms:"):
            cur = []
            blocks.append(cur)
        elif cur is not None:
            # "<name> : <type>" or, for long types, "<name>" alone with "  : <type>" on the following lines
            m = re.match(r"^([A-Za-z_][A-Za-z0-9_.']*)\s*(:|$)", line)
            if m:
                cur.append(m.group(1))
    return blocks


_GATE_RE = re.compile(
    r"\b(Admitted|admit|Axiom|Axioms|Parameter|Parameters|Conjecture|Admit Obligations|"
    r"Unset Guard Checking|Unset Positivity Checking|Unset Universe Checking|bypass_check|"
    r"type-in-type|impredicative-set|native_compute)\b")


def grep_gate():
    """Forbidden constructs anywhere in the Coq development (comments are stripped first)."""
    hits = []
    for root, _, files in os.walk(COQ):
        for f in files:
            if not f.endswith(".v") and f != "_CoqProject":
                continue
            p = os.path.join(root, f)
            s = open(p, encoding="utf-8", errors="replace").read()
            s2 = strip_comments(s)
            for m in _GATE_RE.finditer(s2):
                hits.append("%s: %s" % (os.path.relpath(p, COQ), m.group(0)))
            # Variable/Hypothesis outside a section
            depth = 0
            for line in s2.splitlines():
                st = line.strip()
                if re.match(r"^Section\b", st):
                    depth += 1
                elif re.match(r"^End\b", st) and depth > 0:
                    depth -= 1
                elif depth == 0 and re.match(r"^(Variable|Variables|Hypothesis|Hypotheses|Context)\b", st):
                    hits.append("%s: %s outside section" % (os.path.relpath(p, COQ), st[:40]))
    return hits


def strip_comments(s):
    out = []
    depth = 0
    i = 0
    n = len(s)
    instr = False
    while i < n:
        if depth == 0 and s[i] == '"':
            instr = not instr
            out.append(s[i]); i += 1; continue
        if instr:
            i += 1; continue   # string contents are data, not vernacular
        if not instr and s.startswith("(*", i):
            depth += 1; i += 2; continue
        if not instr and depth > 0 and s.startswith("*)", i):
            depth -= 1; i += 2; continue
        if depth == 0:
            out.append(s[i])
        elif s[i] == "\n":
            out.append("\n")
        i += 1
    return "".join(out)


# ----------------------------------------------------------------------------
# Running the extracted model
# ----------------------------------------------------------------------------

def run_model(lines, timeout=1800, shards=1):
    """Feed command lines to the OCaml driver; returns one output line per command."""
    drv = os.path.join(COQ, "extract", "driver")
    if not os.path.exists(drv):
        raise RuntimeError("model driver not built")
    if shards <= 1 or len(lines) < 2000:
        return _run_model_one(drv, lines, timeout)
    # shard across processes
    n = len(lines)
    k = min(shards, 16)
    size = (n + k - 1) // k
    procs = []
    for i in range(k):
        part = lines[i * size:(i + 1) * size]
        if not part:
            continue
        p = subprocess.Popen([drv], stdin=subprocess.PIPE, stdout=subprocess.PIPE,
                             preexec_fn=_unlimit_stack)
        procs.append((p, part))
    import threading
    outs = [None] * len(procs)

    def work(j):
        p, part = procs[j]
        o, _ = p.communicate(("\n".join(part) + "\n").encode(), timeout=timeout)
        outs[j] = o.decode("utf-8", "replace").splitlines()
    ths = [threading.Thread(target=work, args=(j,)) for j in range(len(procs))]
    for t in ths:
        t.start()
    for t in ths:
        t.join()
    res = []
    for j, (p, part) in enumerate(procs):
        o = outs[j] or []
        if len(o) != len(part):
            o = o + ["ERR driver-died"] * (len(part) - len(o))
        res.extend(o)
    return res


def srepr(x, limit=300):
    """repr() that survives integers beyond the interpreter's int->str digit limit (they are part of the value pools)"""
    try:
        return repr(x)[:limit]
    except ValueError:
        def f(v):
            if isinstance(v, bool):
                return repr(v)
            if isinstance(v, int):
                return "int(%s0x%x...)" % ("-" if v < 0 else "", abs(v) >> max(abs(v).bit_length() - 64, 0))
            if isinstance(v, dict):
                return "{" + ", ".join("%s: %s" % (f(k), f(w)) for k, w in v.items()) + "}"
            if isinstance(v, (list, tuple)):
                return "[" + ", ".join(f(w) for w in v) + "]"
            return repr(v)
        return f(x)[:limit]


def wf_oracle(frames, shards=1, limit=3000):
    """'1'/'0' per input: the Coq predicate wellformedb (extracted) for inputs up to `limit` bytes, an independent
    Python reading of the same definition beyond (the model's closed-form checksum is quadratic in the length)."""
    import gen
    short = [(i, f) for i, f in enumerate(frames) if len(f) <= limit]
    out = [None] * len(frames)
    if short:
        res = run_model(["WF " + gen.hx(f) for _, f in short], shards=shards)
        for (i, _), r in zip(short, res):
            out[i] = r
    for i, f in enumerate(frames):
        if out[i] is None:
            out[i] = "1" if gen.wellformed_py(f) else "0"
    return out


def _unlimit_stack():
    import resource
    try:
        resource.setrlimit(resource.RLIMIT_STACK, (resource.RLIM_INFINITY, resource.RLIM_INFINITY))
    except (ValueError, OSError):
        try:
            soft, hard = resource.getrlimit(resource.RLIMIT_STACK)
            resource.setrlimit(resource.RLIMIT_STACK, (hard, hard))
        except (ValueError, OSError):
            pass


def _run_model_one(drv, lines, timeout):
    p = subprocess.run([drv], input=("\n".join(lines) + "\n").encode(), stdout=subprocess.PIPE,
                       timeout=timeout, preexec_fn=_unlimit_stack)
    out = p.stdout.decode("utf-8", "replace").splitlines()
    if len(out) != len(lines):
        out = out + ["ERR driver-died"] * (len(lines) - len(out))
    return out


# ----------------------------------------------------------------------------
# Known findings, evidence, replays
# ----------------------------------------------------------------------------

def load_known(prop):
    p = os.path.join(VERIF, "known_findings.json")
    if not os.path.exists(p):
        return []
    data = json.load(open(p))
    return [f for f in data.get("findings", []) if f.get("property") == prop]


def repo_state():
    rc, head = sh(["git", "-C", REPO, "rev-parse", "HEAD"])
    rc2, st = sh(["git", "-C", REPO, "status", "--porcelain", "--untracked-files=no"])
    return head.strip(), bool(st.strip())


def write_replay(prop, seed, n, payload):
    d = os.path.join(VERIF, "replays")
    os.makedirs(d, exist_ok=True)
    head, dirty = repo_state()
    payload = dict(payload)
    payload.setdefault("property", prop)
    payload["seed"] = seed
    payload["repo_head"] = head
    payload["dirty"] = dirty
    path = os.path.join(d, "%s-%d-%d.json" % (prop, seed, n))
    with open(path, "w") as f:
        json.dump(payload, f, indent=1, default=str)
    return path


def write_evidence(prop, ev):
    d = os.path.join(VERIF, "evidence")
    os.makedirs(d, exist_ok=True)
    path = os.path.join(d, "%s.json" % prop)
    tmp = path + ".tmp%d" % os.getpid()
    with open(tmp, "w") as f:
        json.dump(ev, f, indent=1, default=str)
    os.replace(tmp, path)
    return path

#!/venv/bin/python
"""Development-time validation sweep of the message model (not a registered check)."""
import os, sys, random, time, collections
sys.path.insert(0, os.path.dirname(os.path.abspath(__file__)))
import common
common.ensure_env()
import impl, gen, msggen
from pyubx2 import UBX_MSGIDS

def run(cmds, label):
    t0 = time.time()
    mout = common.run_model(cmds, shards=16)
    t1 = time.time()
    bad = 0; outc = collections.Counter()
    for c, mo in zip(cmds, mout):
        io = impl.impl_exec(c)
        a = impl.canon_model_line(mo)
        outc[io.split(" ")[0] + (":" + io.split(" ")[1] if io.startswith("RAISE") else "")] += 1
        if a == "RAISE Other":
            outc["model-declined"] += 1
            continue
        if a != io:
            bad += 1
            if bad <= 8:
                print("DIFF", c[:150]); print("   M", a[:400]); print("   I", io[:400])
    print(label, "cases", len(cmds), "diffs", bad, "model %.1fs impl %.1fs" % (t1 - t0, time.time() - t1), dict(outc))

def parse_sweep(rng, lens, fills):
    keys = sorted(UBX_MSGIDS) + [b"\x77\x77", b"\x13\x00", b"\x13\x80"]
    cmds = []
    for k in keys:
        if k[0] >= 0xf0: continue
        for mode in (0, 1, 2, 3):
            for bf in (0, 1):
                for L in lens:
                    for fill in fills:
                        if fill is None: pl = bytes(rng.randrange(256) for _ in range(L))
                        elif fill == "small": pl = bytes(rng.choice([0, 1, 2, 3]) for _ in range(L))
                        else: pl = bytes([fill]) * L
                        if len(k) == 3 and L > 0: pl = k[2:3] + pl[1:]
                        cmds.append("PARSE %d 1 %d %s" % (mode, bf, gen.ubx_frame(k[0], k[1], pl).hex()))
    return cmds

def conforming_sweep(rng, n):
    cmds = []
    for mode, name, d, key in msggen.all_defs():
        for cnt in (0, 1, 2, 5):
            for fill in ("zero", "ones", "random", "edge"):
                for bf in (0, 1):
                    g = msggen.Gen(rng, d, mode, name, key, cnt, fill)
                    cmds.append("PARSE %d 1 %d %s" % (mode, bf, msggen.frame(key, g.payload()).hex()))
    return cmds

POOL = [0, 1, 2, 3, 255, 256, -1, -128, -129, 127, 128, 65535, 65536, 2**31 - 1, 2**31, -2**31, -2**31 - 1, 2**32 - 1,
        2**32, 2**64, 10**30, 10**400, 10**5000, -10**5000, True, False, None, 0.0, -0.0, 1.5, 123.456789, 1e-9, 1e30, 1e308, float("nan"),
        float("inf"), -float("inf"), 0.3, 3653.90516, -7.25, "", "a", "abc", "\u00e9", b"", b"\x01", b"\x01\x02", b"abcdef",
        b"\x00" * 30, [], [1], [1, 2, 3], [0] * 250, [0] * 256, [256] * 256, ["a"] * 256, [1.5] * 256, (1, 2)]

def names_of(pd, bf, index=(), acc=None, counts=1):
    acc = [] if acc is None else acc
    for k, v in pd.items():
        if isinstance(v, tuple):
            if v[0] in msggen.BITF:
                if bf:
                    for fk, ft in v[1].items():
                        acc.append(fk + msggen.suffix(index))
                else:
                    acc.append(k + msggen.suffix(index))
            else:
                for i in range(1, counts + 1):
                    names_of(v[1], bf, tuple(index) + (i,), acc, counts)
        else:
            acc.append(k + msggen.suffix(index))
    return acc

def build_cmd(key, mode, bf, kw):
    toks = ["%s=%s" % (k, impl.show_val(v)) for k, v in kw.items()]
    return "BUILD %s %s %d %d %s" % (key[0:1].hex(), key[1:2].hex(), mode, 1 if bf else 0, " ".join(toks))

def build_sweep(rng, per_attr=6):
    cmds = []
    for mode, name, d, key in msggen.all_defs():
        for bf in (True, False):
            base = {}
            if len(key) == 3:
                base = {"type": key[2]}
            rule = msggen.VARIANT_RULES.get((mode, name)) or (msggen.VARIANT_RULES.get((1, name)) if name in msggen.GET_VIA_SET else None)
            if name in ("RXM-PMREQ", "RXM-PMP-V1", "NAV-RELPOSNED", "SEC-SIG-V1"): base["version"] = 1
            if name in ("RXM-PMP-V0", "NAV-RELPOSNED-V0"): base["version"] = 0
            if name == "SEC-SIG-V2": base["version"] = 2
            if name in ("RXM-RLM-S",): base["type"] = 1
            if name in ("RXM-RLM-L",): base["type"] = 2
            if name == "AID-ALPSRV-SEND": base["type"] = 255
            if name == "AID-ALPSRV-REQ": base["type"] = 1
            if name == "TIM-VCOCAL-V0": base["type"] = 0
            if name == "TIM-VCOCAL": base["type"] = 2
            if name == "CFG-DAT-NUM": base["datumNum"] = 3
            if name == "CFG-TP5-TPX": base["tpIdx"] = 1
            nm = names_of(d, bf)
            cases = [dict(base), {**base, "zzz": 0}, {**base, "version": 0}, {**base, "version": 1}, {**base, "type": 0},
                     {**base, "type": 1}, {**base, "type": "a"}, {**base, "type": 999}, {**base, "datumNum": 1}, {**base, "tpIdx": 1}]
            for an in nm[:60]:
                for v in rng.sample(POOL, per_attr):
                    cases.append({**base, an: v})
            # counted groups: size attribute small + members
            for an in nm:
                if an.startswith("num") or an in ("nBlocks", "count", "nPorts", "nPins", "numCh", "numSV", "msgCnt", "nKeys", "cnt"):
                    for c in (0, 1, 2, 3):
                        kw = {**base, an: c}
                        for m in names_of(d, bf, counts=3)[:40]:
                            if rng.random() < 0.2:
                                kw[m] = rng.choice([1, 2, 255, 1.0, b"\x01", 7])
                        cases.append(kw)
            for kw in cases:
                if not kw:
                    continue
                cmds.append(build_cmd(key, mode, bf, kw))
    return cmds

if __name__ == "__main__":
    rng = random.Random(int(sys.argv[2]) if len(sys.argv) > 2 else 1)
    what = sys.argv[1]
    if what == "parse":
        run(parse_sweep(rng, list(range(0, 10)) + [12, 16, 20, 28, 36, 44, 92, 257], (0, 0xff, None, "small")), "parse")
    elif what == "build":
        run(build_sweep(rng), "build")
    elif what == "conf":
        run(conforming_sweep(rng, 1), "conforming")

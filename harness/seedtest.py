#!/usr/bin/env python3
"""seedtest.py <worktree> <seed-id> <property> [more properties to run ...]

Development tool (not a registered check): confirm a seeded change produced by an independent agent and
record it under /verif/seeded/<seed-id>/.
  1. in the scratch worktree: the unedited test suite passes with the change (229 pass, testNMEA fails);
     demo.py fails with the change and passes without it;
  2. apply the patch to /repo, run the quick checks of the named properties, undo the patch;
  3. write patch.diff, demo.py, NOTES.md, meta.json.
"""
import json
import os
import shutil
import subprocess
import sys
import time

VERIF = os.path.dirname(os.path.dirname(os.path.abspath(__file__)))


def sh(cmd, cwd=None, env=None, timeout=3600):
    p = subprocess.run(cmd, shell=True, cwd=cwd, env=env, stdout=subprocess.PIPE, stderr=subprocess.STDOUT, timeout=timeout)
    return p.returncode, p.stdout.decode("utf-8", "replace")


def main():
    wt, sid, props = sys.argv[1], sys.argv[2], sys.argv[3:]
    env = dict(os.environ, PYTHONPATH=wt + "/src", PYTHONHASHSEED="0")
    out = os.path.join(VERIF, "seeded", sid)
    os.makedirs(out, exist_ok=True)
    rc, patch = sh("git -C %s diff -- src" % wt)
    assert patch.strip(), "no source change in worktree"
    open(os.path.join(out, "patch.diff"), "w", newline="").write(patch)
    # keep bytes exact (CRLF files): write via git directly
    sh("git -C %s diff --binary -- src > %s" % (wt, os.path.join(out, "patch.diff")))
    meta = {"seed_id": sid, "breaks_property": props[0], "checks_run": props, "ran": []}
    # 1. suite + demo in the worktree
    rc, o = sh("/venv/bin/python -m pytest -q -p no:cacheprovider --no-cov 2>&1 | tail -3", cwd=wt, env=env)
    meta["suite_with_change"] = o.strip().splitlines()[-1] if o.strip() else ""
    rc1, o1 = sh("/venv/bin/python demo.py", cwd=wt, env=env)
    # (not git stash: the stash ref is shared by all worktrees of a repository)
    pf = os.path.join(out, "patch.diff")
    rcr, orr = sh("git -C %s apply -R %s" % (wt, pf))
    assert rcr == 0, orr
    try:
        rc0, o0 = sh("/venv/bin/python demo.py", cwd=wt, env=env)
    finally:
        rca, oa = sh("git -C %s apply %s" % (wt, pf))
        assert rca == 0, oa
    meta["demo_with_change"] = {"exit": rc1, "tail": o1.strip()[-300:]}
    meta["demo_without_change"] = {"exit": rc0, "tail": o0.strip()[-300:]}
    meta["confirmed"] = ("229 passed" in meta["suite_with_change"] and "1 failed" in meta["suite_with_change"]
                         and rc1 != 0 and rc0 == 0)
    for f in ("demo.py", "NOTES.md"):
        if os.path.exists(os.path.join(wt, f)):
            shutil.copy(os.path.join(wt, f), os.path.join(out, f))
    # 2. run the checks with the patch applied: against /repo itself, or (SEEDTEST_COPY=<copy of /verif>) from a copy
    #    of /verif against the scratch worktree, so that several drills can run side by side and /repo stays untouched
    copy = os.environ.get("SEEDTEST_COPY")
    if not copy:
        rc, st = sh("git -C /repo status --porcelain --untracked-files=no")
        assert not st.strip(), "/repo is dirty"
        rc, o = sh("git -C /repo apply %s" % os.path.join(out, "patch.diff"))
        assert rc == 0, o
    try:
        for p in props:
            t0 = time.time()
            if copy:
                rc, o = sh("/venv/bin/python harness/check.py %s quick" % p, cwd=copy, env=dict(os.environ, VERIF_REPO=wt))
                o = o.replace(copy, VERIF)
            else:
                rc, o = sh("/venv/bin/python harness/check.py %s quick" % p, cwd=VERIF)
            lines = [l for l in o.splitlines() if l.startswith(("VIOLATION", "OK ", "KNOWN-FINDING"))]
            meta["ran"].append({"check": p, "tier": "quick", "exit": rc, "wall_s": round(time.time() - t0, 1),
                                "lines": [l[:300] for l in lines]})
            print(p, "exit", rc, lines[:3])
            for l in lines:
                if l.startswith("VIOLATION") and "replay=" in l:
                    rp = l.split("replay=")[1].split()[0]
                    if copy:
                        rp = rp.replace(VERIF, copy, 1)
                    if os.path.exists(rp):
                        r = json.load(open(rp))
                        meta["ran"][-1]["replay_kind"] = r.get("kind")
                        meta["ran"][-1]["replay_what"] = r.get("what")
                        meta["ran"][-1]["replay_input"] = str(r.get("input"))[:400]
                        break
    finally:
        if not copy:
            sh("git -C /repo checkout -- .")
            rc, st = sh("git -C /repo status --porcelain --untracked-files=no")
            assert not st.strip(), "/repo not restored"
    meta["detected_by"] = [r["check"] for r in meta["ran"] if r["exit"] != 0]
    notes = open(os.path.join(out, "NOTES.md")).read() if os.path.exists(os.path.join(out, "NOTES.md")) else ""
    meta["needs_to_manifest"] = notes[:1500]
    json.dump(meta, open(os.path.join(out, "meta.json"), "w"), indent=1)
    print("confirmed:", meta["confirmed"], "detected_by:", meta["detected_by"])


if __name__ == "__main__":
    main()
